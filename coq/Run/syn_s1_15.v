From FP Require Import Lexer Parser ShowPT Digest.
From Coq Require Import String List NArith.
Import ListNotations.
Open Scope string_scope.
Set Printing Width 100000000.
Set Printing Depth 100000000.
Definition nl : string := String (Ascii.ascii_of_nat 10) EmptyString.
Definition model_lex (rs : list rune) : string := show_toks (lex rs).
Definition model_parse (rs : list rune) : string :=
  show_pt (match lex rs with Some ts => parse ts | None => None end).
(* coqc is slow at printing long strings: digests first (Digest.v), full texts on demand *)
Definition check (rs : list rune) : string :=
  digest (model_lex rs) ++ " " ++ digest (model_parse rs).
Definition full (rs : list rune) : string := model_lex rs ++ nl ++ model_parse rs.
Definition terms (ts : list tok) (t : pt) : string :=
  digest (show_toks (Some ts)) ++ " " ++ digest (show_pt (Some t)) ++ " " ++ digest (show_pt (parse ts)).
Definition terms_full (ts : list tok) (t : pt) : string :=
  show_toks (Some ts) ++ nl ++ show_pt (Some t) ++ nl ++ show_pt (parse ts).
Eval vm_compute in ("<<<M15>>>" ++ check (@nil rune)).
Eval vm_compute in ("<<<M47>>>" ++ check (runes_of_ascii "root
packet
metadata //	t
{ @lengthOf( rootA ) string
    Logon@lengthOf( u8x
    ) , uint8 repeatCount @lengthOf( //x
crc )
`it's` , @lengthOf( MetaDataX ) match x as x_y_z { 65535:
uint8x, // " ++ [27880; 37322]%N ++ runes_of_ascii "
[	""// no comment""
    , ""// no comment"" ,  """ ++ [233]%N ++ runes_of_ascii "t" ++ [233]%N ++ runes_of_ascii """ , ""\" ++ [233]%N ++ runes_of_ascii """ , //
7	, 1,""" ++ [128512]%N ++ runes_of_ascii """] :BodyLength ,
    """ ++ [128512]%N ++ runes_of_ascii """ :
    u8x ,65535 :metadata,	""" ++ [233]%N ++ runes_of_ascii "t" ++ [233]%N ++ runes_of_ascii """
/// triple
// 50% %s
: Packet,// packet A { u8 x, }
} , packetx i8i8
    `100% of %d` ,  char[] u8x
    @calculatedFrom(""{,}""  )
`u8 x,`, zchar[ 3
] Z9_
,@calculatedFrom( """"
    ) @lengthOf(	trueish ) @lengthOf(
lengthOf) tag , uint64 // packet A { u8 x, }
metadata // 50% %s
`100% of %d`
,
}
")).
Eval vm_compute in ("<<<M79>>>" ++ check (runes_of_ascii "options
{ }")).
Eval vm_compute in ("<<<M111>>>" ++ check (runes_of_ascii "
MetaData	Header {// `tick` ""quote"" 'q'
i64_ i64_ /// triple
, chars falsey , // trailing space 
u32 MetaDataX//x
, Header metadata ,
zchar len, }options
{
    u8x = '0' calculatedFrom =zchar[ 4294967296	]
// trailing space 
// packet A { u8 x, }
} MetaData  Pad	{}")).
Eval vm_compute in ("<<<T111>>>" ++ terms [mkTok 37 "MetaData" 2 0 false; mkTok 42 "Header" 2 9 false; mkTok 2 "{" 2 16 false; mkTok 44 "// `tick` ""quote"" 'q'" 2 17 true; mkTok 42 "i64_" 3 0 false; mkTok 42 "i64_" 3 5 false; mkTok 44 "/// triple" 3 10 true; mkTok 40 "," 4 0 false; mkTok 42 "chars" 4 2 false; mkTok 42 "falsey" 4 8 false; mkTok 40 "," 4 15 false; mkTok 44 "// trailing space " 4 17 true; mkTok 22 "u32" 5 0 false; mkTok 42 "MetaDataX" 5 4 false; mkTok 44 "//x" 5 13 true; mkTok 40 "," 6 0 false; mkTok 42 "Header" 6 2 false; mkTok 42 "metadata" 6 9 false; mkTok 40 "," 6 18 false; mkTok 42 "zchar" 7 0 false; mkTok 42 "len" 7 6 false; mkTok 40 "," 7 9 false; mkTok 3 "}" 7 11 false; mkTok 1 "options" 7 12 false; mkTok 2 "{" 8 0 false; mkTok 42 "u8x" 9 4 false; mkTok 4 "=" 9 8 false; mkTok 33 "'0'" 9 10 false; mkTok 42 "calculatedFrom" 9 14 false; mkTok 4 "=" 9 29 false; mkTok 14 "zchar[" 9 30 false; mkTok 30 "4294967296" 9 37 false; mkTok 13 "]" 9 48 false; mkTok 44 "// trailing space " 10 0 true; mkTok 44 "// packet A { u8 x, }" 11 0 true; mkTok 3 "}" 12 0 false; mkTok 37 "MetaData" 12 2 false; mkTok 42 "Pad" 12 12 false; mkTok 2 "{" 12 16 false; mkTok 3 "}" 12 17 false; mkTok 0 "<EOF>" 12 18 false] (mkPacket (mkPtok 37 "MetaData" 2 0 0) (Some (mkPtok 3 "}" 12 17 39)) [(DMeta (mkMetaDef (mkSpan (mkPtok 37 "MetaData" 2 0 0) (mkPtok 3 "}" 7 11 22)) (mkPtok 37 "MetaData" 2 0 0) (mkPtok 42 "Header" 2 9 1) (mkPtok 2 "{" 2 16 2) [(MIRef (mkRefMetaDecl (mkSpan (mkPtok 42 "i64_" 3 0 4) (mkPtok 40 "," 4 0 7)) (mkPtok 42 "i64_" 3 0 4) (mkPtok 42 "i64_" 3 5 5) None (mkPtok 40 "," 4 0 7))); (MIRef (mkRefMetaDecl (mkSpan (mkPtok 42 "chars" 4 2 8) (mkPtok 40 "," 4 15 10)) (mkPtok 42 "chars" 4 2 8) (mkPtok 42 "falsey" 4 8 9) None (mkPtok 40 "," 4 15 10))); (MIDecl (mkMetaDecl (mkSpan (mkPtok 22 "u32" 5 0 12) (mkPtok 40 "," 6 0 15)) (TyBasic (mkSpan (mkPtok 22 "u32" 5 0 12) (mkPtok 22 "u32" 5 0 12)) (mkBasicType (mkSpan (mkPtok 22 "u32" 5 0 12) (mkPtok 22 "u32" 5 0 12)) (mkPtok 22 "u32" 5 0 12))) (mkPtok 42 "MetaDataX" 5 4 13) None (mkPtok 40 "," 6 0 15))); (MIRef (mkRefMetaDecl (mkSpan (mkPtok 42 "Header" 6 2 16) (mkPtok 40 "," 6 18 18)) (mkPtok 42 "Header" 6 2 16) (mkPtok 42 "metadata" 6 9 17) None (mkPtok 40 "," 6 18 18))); (MIRef (mkRefMetaDecl (mkSpan (mkPtok 42 "zchar" 7 0 19) (mkPtok 40 "," 7 9 21)) (mkPtok 42 "zchar" 7 0 19) (mkPtok 42 "len" 7 6 20) None (mkPtok 40 "," 7 9 21)))] (mkPtok 3 "}" 7 11 22))); (DOption (mkOptionDef (mkSpan (mkPtok 1 "options" 7 12 23) (mkPtok 3 "}" 12 0 35)) (mkPtok 1 "options" 7 12 23) (mkPtok 2 "{" 8 0 24) [(mkOptionDecl (mkSpan (mkPtok 42 "u8x" 9 4 25) (mkPtok 33 "'0'" 9 10 27)) (mkPtok 42 "u8x" 9 4 25) (mkPtok 4 "=" 9 8 26) (VPaddingChar (mkSpan (mkPtok 33 "'0'" 9 10 27) (mkPtok 33 "'0'" 9 10 27)) (mkPtok 33 "'0'" 9 10 27)) None); (mkOptionDecl (mkSpan (mkPtok 42 "calculatedFrom" 9 14 28) (mkPtok 13 "]" 9 48 32)) (mkPtok 42 "calculatedFrom" 9 14 28) (mkPtok 4 "=" 9 29 29) (VType (mkSpan (mkPtok 14 "zchar[" 9 30 30) (mkPtok 13 "]" 9 48 32)) (TyFixed (mkSpan (mkPtok 14 "zchar[" 9 30 30) (mkPtok 13 "]" 9 48 32)) (mkFixedString (mkSpan (mkPtok 14 "zchar[" 9 30 30) (mkPtok 13 "]" 9 48 32)) (mkPtok 14 "zchar[" 9 30 30) (mkPtok 30 "4294967296" 9 37 31) (mkPtok 13 "]" 9 48 32)))) None)] (mkPtok 3 "}" 12 0 35))); (DMeta (mkMetaDef (mkSpan (mkPtok 37 "MetaData" 12 2 36) (mkPtok 3 "}" 12 17 39)) (mkPtok 37 "MetaData" 12 2 36) (mkPtok 42 "Pad" 12 12 37) (mkPtok 2 "{" 12 16 38) [] (mkPtok 3 "}" 12 17 39)))])).
Eval vm_compute in ("<<<M143>>>" ++ check (runes_of_ascii "root  packet
options1
{repeat Foo { T@lengthOf( leftPad)`two words`
    // a // b
    ,
    // packet A { u8 x, }
    A,Z9_ x`tab	here` , chars
    `a\`,
},@calculatedFrom( ""{,}"" ) // a // b
float32
    // @lengthOf(
    T `{ , }`,
    @lengthOf(
crc )
    char[ 10  ]
    float //	t
, repeat	char[] rootA
    , As
`it's` ,
i16 zchar `" ++ [233]%N ++ runes_of_ascii "` , }packet a1 { @tag( 4294967296) Header { char[] msg_type@calculatedFrom(
    """ ++ [128512]%N ++ runes_of_ascii """	) `` , } /// triple
, char[ 1 ]x, @leftPad (
'0'
    )int64 trueish
, }")).
Eval vm_compute in ("<<<M175>>>" ++ check (runes_of_ascii "options
    {	}")).
Eval vm_compute in ("<<<M207>>>" ++ check (runes_of_ascii "packet uint8x { }
")).
Eval vm_compute in ("<<<M239>>>" ++ check (runes_of_ascii "packet metadata
    { } MetaData trueish
// 50% %s
//
{ metadata Logon
    `a\` , } packet
rootA {	@tag( 255
)
len
    @calculatedFrom( /// triple
""a	b"") ,	repeat f32a ,
    repeat
    body
// " ++ [128512]%N ++ runes_of_ascii " emoji
// `tick` ""quote"" 'q'
{ char[]repeatCount ,
}
    , string u@lengthOf(
    _x
) ,
@tag(255 ) Packet @lengthOf(// c
packetx)	,
metadata
@lengthOf(
    float ) , MetaDataX @calculatedFrom(""" ++ [233]%N ++ runes_of_ascii "t" ++ [233]%N ++ runes_of_ascii """
    )
    ,
repeat
    zchar[0 ] u8x , repeat float64 calculatedFrom
    ,	}
")).
Eval vm_compute in ("<<<M271>>>" ++ check (runes_of_ascii "MetaData
o
    {
// 50% %s
// " ++ [27880; 37322]%N ++ runes_of_ascii "
Foo _x, }
MetaData // 50% %s
trueish //	t
{ u8 crc
`" ++ [233]%N ++ runes_of_ascii "` ,u64 charz `" ++ [28040; 24687; 31867; 22411]%N ++ runes_of_ascii "` , //x
zchar[
    00	] // @lengthOf(
string_,	}	packet// c
metadata { @leftPad ( '\x00') u128@lengthOf( len ) , @lengthOf(
    u128 // a // b
)
    x , @lengthOf(
int
    ) zchar[3 ] Logon @lengthOf(
Logon )  `" ++ [233]%N ++ runes_of_ascii "`
    ,Pad
    roots ,	} // 50% %s")).
Eval vm_compute in ("<<<M303>>>" ++ check (runes_of_ascii "packet chars { @tag( 00  ) @tag( 1 ) @lengthOf( Pad)	int8 Header // trailing space 
@lengthOf( rootA
), }
")).
Eval vm_compute in ("<<<M335>>>" ++ check (runes_of_ascii "
packet
// a // b
// packet A { u8 x, }
i8i8 {u@calculatedFrom(
""" ++ [233]%N ++ runes_of_ascii "t" ++ [233]%N ++ runes_of_ascii """)
`doc`
    ,
} // packet A { u8 x, }
options
    {
u8x =true x_y_z = ' ' ;  }
//x
/// triple
MetaData BodyLength{ u128// `tick` ""quote"" 'q'
float ,}")).
Eval vm_compute in ("<<<T335>>>" ++ terms [mkTok 35 "packet" 2 0 false; mkTok 44 "// a // b" 3 0 true; mkTok 44 "// packet A { u8 x, }" 4 0 true; mkTok 42 "i8i8" 5 0 false; mkTok 2 "{" 5 5 false; mkTok 42 "u" 5 6 false; mkTok 5 "@calculatedFrom(" 5 7 false; mkTok 31 (string_of_bytes [34; 195; 169; 116; 195; 169; 34]%N) 6 0 false; mkTok 6 ")" 6 5 false; mkTok 43 "`doc`" 7 0 false; mkTok 40 "," 8 4 false; mkTok 3 "}" 9 0 false; mkTok 44 "// packet A { u8 x, }" 9 2 true; mkTok 1 "options" 10 0 false; mkTok 2 "{" 11 4 false; mkTok 42 "u8x" 12 0 false; mkTok 4 "=" 12 4 false; mkTok 10 "true" 12 5 false; mkTok 42 "x_y_z" 12 10 false; mkTok 4 "=" 12 16 false; mkTok 33 "' '" 12 18 false; mkTok 41 ";" 12 22 false; mkTok 3 "}" 12 25 false; mkTok 44 "//x" 13 0 true; mkTok 44 "/// triple" 14 0 true; mkTok 37 "MetaData" 15 0 false; mkTok 42 "BodyLength" 15 9 false; mkTok 2 "{" 15 19 false; mkTok 42 "u128" 15 21 false; mkTok 44 "// `tick` ""quote"" 'q'" 15 25 true; mkTok 42 "float" 16 0 false; mkTok 40 "," 16 6 false; mkTok 3 "}" 16 7 false; mkTok 0 "<EOF>" 16 8 false] (mkPacket (mkPtok 35 "packet" 2 0 0) (Some (mkPtok 3 "}" 16 7 32)) [(DPacket (mkPacketDef (mkSpan (mkPtok 35 "packet" 2 0 0) (mkPtok 3 "}" 9 0 11)) None (mkPtok 35 "packet" 2 0 0) (mkPtok 42 "i8i8" 5 0 3) (mkPtok 2 "{" 5 5 4) [(mkFieldWithAttr (mkSpan (mkPtok 42 "u" 5 6 5) (mkPtok 40 "," 8 4 10)) [] (CheckSumField (mkSpan (mkPtok 42 "u" 5 6 5) (mkPtok 40 "," 8 4 10)) (mkChecksumFieldDecl (mkSpan (mkPtok 42 "u" 5 6 5) (mkPtok 40 "," 8 4 10)) None (mkPtok 42 "u" 5 6 5) (mkCalculatedFrom (mkSpan (mkPtok 5 "@calculatedFrom(" 5 7 6) (mkPtok 6 ")" 6 5 8)) (mkPtok 5 "@calculatedFrom(" 5 7 6) (mkPtok 31 (string_of_bytes [34; 195; 169; 116; 195; 169; 34]%N) 6 0 7) (mkPtok 6 ")" 6 5 8)) (Some (mkPtok 43 "`doc`" 7 0 9)) (mkPtok 40 "," 8 4 10))))] (mkPtok 3 "}" 9 0 11))); (DOption (mkOptionDef (mkSpan (mkPtok 1 "options" 10 0 13) (mkPtok 3 "}" 12 25 22)) (mkPtok 1 "options" 10 0 13) (mkPtok 2 "{" 11 4 14) [(mkOptionDecl (mkSpan (mkPtok 42 "u8x" 12 0 15) (mkPtok 10 "true" 12 5 17)) (mkPtok 42 "u8x" 12 0 15) (mkPtok 4 "=" 12 4 16) (VTrue (mkSpan (mkPtok 10 "true" 12 5 17) (mkPtok 10 "true" 12 5 17)) (mkPtok 10 "true" 12 5 17)) None); (mkOptionDecl (mkSpan (mkPtok 42 "x_y_z" 12 10 18) (mkPtok 41 ";" 12 22 21)) (mkPtok 42 "x_y_z" 12 10 18) (mkPtok 4 "=" 12 16 19) (VPaddingChar (mkSpan (mkPtok 33 "' '" 12 18 20) (mkPtok 33 "' '" 12 18 20)) (mkPtok 33 "' '" 12 18 20)) (Some (mkPtok 41 ";" 12 22 21)))] (mkPtok 3 "}" 12 25 22))); (DMeta (mkMetaDef (mkSpan (mkPtok 37 "MetaData" 15 0 25) (mkPtok 3 "}" 16 7 32)) (mkPtok 37 "MetaData" 15 0 25) (mkPtok 42 "BodyLength" 15 9 26) (mkPtok 2 "{" 15 19 27) [(MIRef (mkRefMetaDecl (mkSpan (mkPtok 42 "u128" 15 21 28) (mkPtok 40 "," 16 6 31)) (mkPtok 42 "u128" 15 21 28) (mkPtok 42 "float" 16 0 30) None (mkPtok 40 "," 16 6 31)))] (mkPtok 3 "}" 16 7 32)))])).
Eval vm_compute in ("<<<M367>>>" ++ check (runes_of_ascii "  packet metadata	{ char[ // trailing space 
4294967296
] a1 // " ++ [27880; 37322]%N ++ runes_of_ascii "
, } packet BodyLength
    {
    trueish , char[ 00
]
    Logon // " ++ [128512]%N ++ runes_of_ascii " emoji
@lengthOf(
    As
// " ++ [128512]%N ++ runes_of_ascii " emoji
// 50% %s
) , repeat uint32 u8x // 50% %s
,
    char[] len
    @lengthOf( /// triple
i8i8 )  , packetx chars,
    // packet A { u8 x, }
    string Packet@calculatedFrom(	""a	b""),match
len  as msg_type { [
42]	: x , }  ,
chars {
u128 asx , }	, i32 As  @calculatedFrom(""a	b"" )
    , repeat repeatCount
    // " ++ [27880; 37322]%N ++ runes_of_ascii "
    { repeat u8x {
    char[]_x
`crlf
line` ,
    match f32a as//	t
i8i8  { [/// triple
007	,
4294967296 ,  """ ++ [28040; 24687]%N ++ runes_of_ascii """ , // packet A { u8 x, }
""a	b"" // packet A { u8 x, }
,""// no comment"" ,""a\""b"" ,
// trailing space 
//
""CRC32"" , 7]:Foo 0123456789 :
    Header
    ,""it's"" : u 65535 :	Foo , 65535 :
/// triple
//x
stringy
    , 255  : f32a ,//	t
}
, match
A
    //	t
    as u128 { 10 :chars
    ""{,}"" :i64_""\n""
    : //	t
o , ""{,}"" :	x_y_z // 50% %s
,[ 0123456789, """ ++ [28040; 24687]%N ++ runes_of_ascii """] :	a1 , }
,
} ,
    A @lengthOf(
    // " ++ [27880; 37322]%N ++ runes_of_ascii "
    u8x  ) , },	}")).
Eval vm_compute in ("<<<M399>>>" ++ check (runes_of_ascii "
")).
Eval vm_compute in ("<<<M431>>>" ++ check (runes_of_ascii "  MetaData zchar {	char[] rootA
    , }
MetaData roots { int16 // @lengthOf(
Logon	,  u32 matchKey //	t
`say ""hi""` ,
char[ 00
    ]
f32a
`line1
line2` ,// trailing space 
packetx matchKey	, } MetaData u{ string len , }")).
Eval vm_compute in ("<<<M463>>>" ++ check (runes_of_ascii "MetaData pack {
// c
//	t
i16
float`two words` , // " ++ [128512]%N ++ runes_of_ascii " emoji
string string_,u16 charz ,
    string_ // a // b
crc ,	Packet
Z9_ ,
    }
")).
Eval vm_compute in ("<<<M495>>>" ++ check (runes_of_ascii "root packet  calculatedFrom {@calculatedFrom( """ ++ [128512]%N ++ runes_of_ascii """ ) match metadata as  chars	{ ""a	b"" :
roots
    , ""\n"": BodyLength
, 00: lengthOf , }, } root packet // `tick` ""quote"" 'q'
crc {	@rightPad(  )
    string//x
stringy
@calculatedFrom( """")`doc`
// @lengthOf(
// c
, @calculatedFrom( ""it's""
    ) @leftPad
(
'0'
    ) uint16 len @calculatedFrom( ""// no comment"" )
,// " ++ [128512]%N ++ runes_of_ascii " emoji
string x
,}	packet options1{  uint8 matchKey  @lengthOf( u	)
    ,
repeat u8x  { float32
tag `say ""hi""` , options1 Pad ,falsey // trailing space 
{ repeat i8 body  `tab	here`, } ,} ,	@calculatedFrom(
    """ ++ [128512]%N ++ runes_of_ascii """ ) string_
// @lengthOf(
//
@lengthOf( falsey )// " ++ [27880; 37322]%N ++ runes_of_ascii "
`doc` ,  }")).
Eval vm_compute in ("<<<M527>>>" ++ check (runes_of_ascii "packet
packetx{ }

")).
Eval vm_compute in ("<<<M559>>>" ++ check (runes_of_ascii "
packet
    //x
    BodyLength
    {@lengthOf(
As
    )  @rightPad ()@lengthOf( len )uint8 leftPad , u	{	match
body as Header { // c
[	4294967296 // c
,
7 ,""abc"" , 1 ]
:
    // a // b
    stringy , }
    , char[ 0 ] /// triple
leftPad @lengthOf( i8i8 )	,  u64 // 50% %s
charz
    , repeat uint16
    a1  ,
    // @lengthOf(
    } // packet A { u8 x, }
,
zchar[ //x
0123456789
    ]BodyLength @calculatedFrom( ""{,}""
    ) //
,
BodyLength`{ , }` ,
}packet u8x
    { repeat len
    //x
    {
    u32
    //
    f32a `" ++ [28040; 24687; 31867; 22411]%N ++ runes_of_ascii "` ,	A ,i64 matchKey , }  , }
MetaData	_x{ } packet _x {
f32a
    {
f32 body // a // b
, uint16 u128, matchKey @lengthOf(Packet ) , }	, repeat zchar[ 0123456789
    ]
float
`" ++ [233]%N ++ runes_of_ascii "` ,
f32 i8i8 `doc` ,
    repeat string_ , A
    // packet A { u8 x, }
    `
`
// a // b
/// triple
, match u128 as i8i8 // @lengthOf(
{
0123456789 :float ,  10  : roots // " ++ [128512]%N ++ runes_of_ascii " emoji
,
    ""it's"" : _x
    , 10 :
// packet A { u8 x, }
//	t
Z9_ [
    /// triple
    ""a\""b"",
""x y"" ]
    : matchKey, [""\" ++ [233]%N ++ runes_of_ascii """, 10 ,""" ++ [28040; 24687]%N ++ runes_of_ascii """ , 255
, 0123456789
,
// a // b
// `tick` ""quote"" 'q'
7  , 007 ] :
    Pad } , }

")).
Eval vm_compute in ("<<<T559>>>" ++ terms [mkTok 35 "packet" 2 0 false; mkTok 44 "//x" 3 4 true; mkTok 42 "BodyLength" 4 4 false; mkTok 2 "{" 5 4 false; mkTok 7 "@lengthOf(" 5 5 false; mkTok 42 "As" 6 0 false; mkTok 6 ")" 7 4 false; mkTok 32 "@rightPad" 7 7 false; mkTok 8 "(" 7 17 false; mkTok 6 ")" 7 18 false; mkTok 7 "@lengthOf(" 7 19 false; mkTok 42 "len" 7 30 false; mkTok 6 ")" 7 34 false; mkTok 20 "uint8" 7 35 false; mkTok 42 "leftPad" 7 41 false; mkTok 40 "," 7 49 false; mkTok 42 "u" 7 51 false; mkTok 2 "{" 7 53 false; mkTok 38 "match" 7 55 false; mkTok 42 "body" 8 0 false; mkTok 17 "as" 8 5 false; mkTok 42 "Header" 8 8 false; mkTok 2 "{" 8 15 false; mkTok 44 "// c" 8 17 true; mkTok 18 "[" 9 0 false; mkTok 30 "4294967296" 9 2 false; mkTok 44 "// c" 9 13 true; mkTok 40 "," 10 0 false; mkTok 30 "7" 11 0 false; mkTok 40 "," 11 2 false; mkTok 31 """abc""" 11 3 false; mkTok 40 "," 11 9 false; mkTok 30 "1" 11 11 false; mkTok 13 "]" 11 13 false; mkTok 39 ":" 12 0 false; mkTok 44 "// a // b" 13 4 true; mkTok 42 "stringy" 14 4 false; mkTok 40 "," 14 12 false; mkTok 3 "}" 14 14 false; mkTok 40 "," 15 4 false; mkTok 12 "char[" 15 6 false; mkTok 30 "0" 15 12 false; mkTok 13 "]" 15 14 false; mkTok 44 "/// triple" 15 16 true; mkTok 42 "leftPad" 16 0 false; mkTok 7 "@lengthOf(" 16 8 false; mkTok 42 "i8i8" 16 19 false; mkTok 6 ")" 16 24 false; mkTok 40 "," 16 26 false; mkTok 23 "u64" 16 29 false; mkTok 44 "// 50% %s" 16 33 true; mkTok 42 "charz" 17 0 false; mkTok 40 "," 18 4 false; mkTok 36 "repeat" 18 6 false; mkTok 21 "uint16" 18 13 false; mkTok 42 "a1" 19 4 false; mkTok 40 "," 19 8 false; mkTok 44 "// @lengthOf(" 20 4 true; mkTok 3 "}" 21 4 false; mkTok 44 "// packet A { u8 x, }" 21 6 true; mkTok 40 "," 22 0 false; mkTok 14 "zchar[" 23 0 false; mkTok 44 "//x" 23 7 true; mkTok 30 "0123456789" 24 0 false; mkTok 13 "]" 25 4 false; mkTok 42 "BodyLength" 25 5 false; mkTok 5 "@calculatedFrom(" 25 16 false; mkTok 31 """{,}""" 25 33 false; mkTok 6 ")" 26 4 false; mkTok 44 "//" 26 6 true; mkTok 40 "," 27 0 false; mkTok 42 "BodyLength" 28 0 false; mkTok 43 "`{ , }`" 28 10 false; mkTok 40 "," 28 18 false; mkTok 3 "}" 29 0 false; mkTok 35 "packet" 29 1 false; mkTok 42 "u8x" 29 8 false; mkTok 2 "{" 30 4 false; mkTok 36 "repeat" 30 6 false; mkTok 42 "len" 30 13 false; mkTok 44 "//x" 31 4 true; mkTok 2 "{" 32 4 false; mkTok 22 "u32" 33 4 false; mkTok 44 "//" 34 4 true; mkTok 42 "f32a" 35 4 false; mkTok 43 (string_of_bytes [96; 230; 182; 136; 230; 129; 175; 231; 177; 187; 229; 158; 139; 96]%N) 35 9 false; mkTok 40 "," 35 16 false; mkTok 42 "A" 35 18 false; mkTok 40 "," 35 20 false; mkTok 27 "i64" 35 21 false; mkTok 42 "matchKey" 35 25 false; mkTok 40 "," 35 34 false; mkTok 3 "}" 35 36 false; mkTok 40 "," 35 39 false; mkTok 3 "}" 35 41 false; mkTok 37 "MetaData" 36 0 false; mkTok 42 "_x" 36 9 false; mkTok 2 "{" 36 11 false; mkTok 3 "}" 36 13 false; mkTok 35 "packet" 36 15 false; mkTok 42 "_x" 36 22 false; mkTok 2 "{" 36 25 false; mkTok 42 "f32a" 37 0 false; mkTok 2 "{" 38 4 false; mkTok 28 "f32" 39 0 false; mkTok 42 "body" 39 4 false; mkTok 44 "// a // b" 39 9 true; mkTok 40 "," 40 0 false; mkTok 21 "uint16" 40 2 false; mkTok 42 "u128" 40 9 false; mkTok 40 "," 40 13 false; mkTok 42 "matchKey" 40 15 false; mkTok 7 "@lengthOf(" 40 24 false; mkTok 42 "Packet" 40 34 false; mkTok 6 ")" 40 41 false; mkTok 40 "," 40 43 false; mkTok 3 "}" 40 45 false; mkTok 40 "," 40 47 false; mkTok 36 "repeat" 40 49 false; mkTok 14 "zchar[" 40 56 false; mkTok 30 "0123456789" 40 63 false; mkTok 13 "]" 41 4 false; mkTok 42 "float" 42 0 false; mkTok 43 (string_of_bytes [96; 195; 169; 96]%N) 43 0 false; mkTok 40 "," 43 4 false; mkTok 28 "f32" 44 0 false; mkTok 42 "i8i8" 44 4 false; mkTok 43 "`doc`" 44 9 false; mkTok 40 "," 44 15 false; mkTok 36 "repeat" 45 4 false; mkTok 42 "string_" 45 11 false; mkTok 40 "," 45 19 false; mkTok 42 "A" 45 21 false; mkTok 44 "// packet A { u8 x, }" 46 4 true; mkTok 43 (string_of_bytes [96; 10; 96]%N) 47 4 false; mkTok 44 "// a // b" 49 0 true; mkTok 44 "/// triple" 50 0 true; mkTok 40 "," 51 0 false; mkTok 38 "match" 51 2 false; mkTok 42 "u128" 51 8 false; mkTok 17 "as" 51 13 false; mkTok 42 "i8i8" 51 16 false; mkTok 44 "// @lengthOf(" 51 21 true; mkTok 2 "{" 52 0 false; mkTok 30 "0123456789" 53 0 false; mkTok 39 ":" 53 11 false; mkTok 42 "float" 53 12 false; mkTok 40 "," 53 18 false; mkTok 30 "10" 53 21 false; mkTok 39 ":" 53 25 false; mkTok 42 "roots" 53 27 false; mkTok 44 (string_of_bytes [47; 47; 32; 240; 159; 152; 128; 32; 101; 109; 111; 106; 105]%N) 53 33 true; mkTok 40 "," 54 0 false; mkTok 31 """it's""" 55 4 false; mkTok 39 ":" 55 11 false; mkTok 42 "_x" 55 13 false; mkTok 40 "," 56 4 false; mkTok 30 "10" 56 6 false; mkTok 39 ":" 56 9 false; mkTok 44 "// packet A { u8 x, }" 57 0 true; mkTok 44 (string_of_bytes [47; 47; 9; 116]%N) 58 0 true; mkTok 42 "Z9_" 59 0 false; mkTok 18 "[" 59 4 false; mkTok 44 "/// triple" 60 4 true; mkTok 31 """a\""b""" 61 4 false; mkTok 40 "," 61 10 false; mkTok 31 """x y""" 62 0 false; mkTok 13 "]" 62 6 false; mkTok 39 ":" 63 4 false; mkTok 42 "matchKey" 63 6 false; mkTok 40 "," 63 14 false; mkTok 18 "[" 63 16 false; mkTok 31 (string_of_bytes [34; 92; 195; 169; 34]%N) 63 17 false; mkTok 40 "," 63 21 false; mkTok 30 "10" 63 23 false; mkTok 40 "," 63 26 false; mkTok 31 (string_of_bytes [34; 230; 182; 136; 230; 129; 175; 34]%N) 63 27 false; mkTok 40 "," 63 32 false; mkTok 30 "255" 63 34 false; mkTok 40 "," 64 0 false; mkTok 30 "0123456789" 64 2 false; mkTok 40 "," 65 0 false; mkTok 44 "// a // b" 66 0 true; mkTok 44 "// `tick` ""quote"" 'q'" 67 0 true; mkTok 30 "7" 68 0 false; mkTok 40 "," 68 3 false; mkTok 30 "007" 68 5 false; mkTok 13 "]" 68 9 false; mkTok 39 ":" 68 11 false; mkTok 42 "Pad" 69 4 false; mkTok 3 "}" 69 8 false; mkTok 40 "," 69 10 false; mkTok 3 "}" 69 12 false; mkTok 0 "<EOF>" 71 0 false] (mkPacket (mkPtok 35 "packet" 2 0 0) (Some (mkPtok 3 "}" 69 12 192)) [(DPacket (mkPacketDef (mkSpan (mkPtok 35 "packet" 2 0 0) (mkPtok 3 "}" 29 0 74)) None (mkPtok 35 "packet" 2 0 0) (mkPtok 42 "BodyLength" 4 4 2) (mkPtok 2 "{" 5 4 3) [(mkFieldWithAttr (mkSpan (mkPtok 7 "@lengthOf(" 5 5 4) (mkPtok 40 "," 7 49 15)) [(FALengthOf (mkSpan (mkPtok 7 "@lengthOf(" 5 5 4) (mkPtok 6 ")" 7 4 6)) (mkLengthOf (mkSpan (mkPtok 7 "@lengthOf(" 5 5 4) (mkPtok 6 ")" 7 4 6)) (mkPtok 7 "@lengthOf(" 5 5 4) (mkPtok 42 "As" 6 0 5) (mkPtok 6 ")" 7 4 6))); (FAPadding (mkSpan (mkPtok 32 "@rightPad" 7 7 7) (mkPtok 6 ")" 7 18 9)) (mkPaddingAttr (mkSpan (mkPtok 32 "@rightPad" 7 7 7) (mkPtok 6 ")" 7 18 9)) (mkPtok 32 "@rightPad" 7 7 7) (mkPtok 8 "(" 7 17 8) None (mkPtok 6 ")" 7 18 9))); (FALengthOf (mkSpan (mkPtok 7 "@lengthOf(" 7 19 10) (mkPtok 6 ")" 7 34 12)) (mkLengthOf (mkSpan (mkPtok 7 "@lengthOf(" 7 19 10) (mkPtok 6 ")" 7 34 12)) (mkPtok 7 "@lengthOf(" 7 19 10) (mkPtok 42 "len" 7 30 11) (mkPtok 6 ")" 7 34 12)))] (MetaField (mkSpan (mkPtok 20 "uint8" 7 35 13) (mkPtok 40 "," 7 49 15)) None (mkMetaDecl (mkSpan (mkPtok 20 "uint8" 7 35 13) (mkPtok 40 "," 7 49 15)) (TyBasic (mkSpan (mkPtok 20 "uint8" 7 35 13) (mkPtok 20 "uint8" 7 35 13)) (mkBasicType (mkSpan (mkPtok 20 "uint8" 7 35 13) (mkPtok 20 "uint8" 7 35 13)) (mkPtok 20 "uint8" 7 35 13))) (mkPtok 42 "leftPad" 7 41 14) None (mkPtok 40 "," 7 49 15)))); (mkFieldWithAttr (mkSpan (mkPtok 42 "u" 7 51 16) (mkPtok 40 "," 22 0 60)) [] (InerObjectField (mkSpan (mkPtok 42 "u" 7 51 16) (mkPtok 40 "," 22 0 60)) None (InerObjectDecl (mkSpan (mkPtok 42 "u" 7 51 16) (mkPtok 3 "}" 21 4 58)) (mkPtok 42 "u" 7 51 16) (mkPtok 2 "{" 7 53 17) [(MatchField (mkSpan (mkPtok 38 "match" 7 55 18) (mkPtok 40 "," 15 4 39)) (mkMatchFieldDecl (mkSpan (mkPtok 38 "match" 7 55 18) (mkPtok 3 "}" 14 14 38)) (mkPtok 38 "match" 7 55 18) (mkPtok 42 "body" 8 0 19) (mkPtok 17 "as" 8 5 20) (mkPtok 42 "Header" 8 8 21) (mkPtok 2 "{" 8 15 22) [(mkMatchPair (mkSpan (mkPtok 18 "[" 9 0 24) (mkPtok 40 "," 14 12 37)) (MKList (mkKeyList (mkSpan (mkPtok 18 "[" 9 0 24) (mkPtok 13 "]" 11 13 33)) (mkPtok 18 "[" 9 0 24) (mkPtok 30 "4294967296" 9 2 25) [((mkPtok 40 "," 10 0 27), (mkPtok 30 "7" 11 0 28)); ((mkPtok 40 "," 11 2 29), (mkPtok 31 """abc""" 11 3 30)); ((mkPtok 40 "," 11 9 31), (mkPtok 30 "1" 11 11 32))] (mkPtok 13 "]" 11 13 33))) (mkPtok 39 ":" 12 0 34) (mkPtok 42 "stringy" 14 4 36) (Some (mkPtok 40 "," 14 12 37)))] (mkPtok 3 "}" 14 14 38)) (mkPtok 40 "," 15 4 39)); (LengthField (mkSpan (mkPtok 12 "char[" 15 6 40) (mkPtok 40 "," 16 26 48)) (mkLengthFieldDecl (mkSpan (mkPtok 12 "char[" 15 6 40) (mkPtok 40 "," 16 26 48)) (Some (TyFixed (mkSpan (mkPtok 12 "char[" 15 6 40) (mkPtok 13 "]" 15 14 42)) (mkFixedString (mkSpan (mkPtok 12 "char[" 15 6 40) (mkPtok 13 "]" 15 14 42)) (mkPtok 12 "char[" 15 6 40) (mkPtok 30 "0" 15 12 41) (mkPtok 13 "]" 15 14 42)))) (mkPtok 42 "leftPad" 16 0 44) (mkLengthOf (mkSpan (mkPtok 7 "@lengthOf(" 16 8 45) (mkPtok 6 ")" 16 24 47)) (mkPtok 7 "@lengthOf(" 16 8 45) (mkPtok 42 "i8i8" 16 19 46) (mkPtok 6 ")" 16 24 47)) None (mkPtok 40 "," 16 26 48))); (MetaField (mkSpan (mkPtok 23 "u64" 16 29 49) (mkPtok 40 "," 18 4 52)) None (mkMetaDecl (mkSpan (mkPtok 23 "u64" 16 29 49) (mkPtok 40 "," 18 4 52)) (TyBasic (mkSpan (mkPtok 23 "u64" 16 29 49) (mkPtok 23 "u64" 16 29 49)) (mkBasicType (mkSpan (mkPtok 23 "u64" 16 29 49) (mkPtok 23 "u64" 16 29 49)) (mkPtok 23 "u64" 16 29 49))) (mkPtok 42 "charz" 17 0 51) None (mkPtok 40 "," 18 4 52))); (MetaField (mkSpan (mkPtok 36 "repeat" 18 6 53) (mkPtok 40 "," 19 8 56)) (Some (mkPtok 36 "repeat" 18 6 53)) (mkMetaDecl (mkSpan (mkPtok 21 "uint16" 18 13 54) (mkPtok 40 "," 19 8 56)) (TyBasic (mkSpan (mkPtok 21 "uint16" 18 13 54) (mkPtok 21 "uint16" 18 13 54)) (mkBasicType (mkSpan (mkPtok 21 "uint16" 18 13 54) (mkPtok 21 "uint16" 18 13 54)) (mkPtok 21 "uint16" 18 13 54))) (mkPtok 42 "a1" 19 4 55) None (mkPtok 40 "," 19 8 56)))] (mkPtok 3 "}" 21 4 58)) (mkPtok 40 "," 22 0 60))); (mkFieldWithAttr (mkSpan (mkPtok 14 "zchar[" 23 0 61) (mkPtok 40 "," 27 0 70)) [] (CheckSumField (mkSpan (mkPtok 14 "zchar[" 23 0 61) (mkPtok 40 "," 27 0 70)) (mkChecksumFieldDecl (mkSpan (mkPtok 14 "zchar[" 23 0 61) (mkPtok 40 "," 27 0 70)) (Some (TyFixed (mkSpan (mkPtok 14 "zchar[" 23 0 61) (mkPtok 13 "]" 25 4 64)) (mkFixedString (mkSpan (mkPtok 14 "zchar[" 23 0 61) (mkPtok 13 "]" 25 4 64)) (mkPtok 14 "zchar[" 23 0 61) (mkPtok 30 "0123456789" 24 0 63) (mkPtok 13 "]" 25 4 64)))) (mkPtok 42 "BodyLength" 25 5 65) (mkCalculatedFrom (mkSpan (mkPtok 5 "@calculatedFrom(" 25 16 66) (mkPtok 6 ")" 26 4 68)) (mkPtok 5 "@calculatedFrom(" 25 16 66) (mkPtok 31 """{,}""" 25 33 67) (mkPtok 6 ")" 26 4 68)) None (mkPtok 40 "," 27 0 70)))); (mkFieldWithAttr (mkSpan (mkPtok 42 "BodyLength" 28 0 71) (mkPtok 40 "," 28 18 73)) [] (ObjectField (mkSpan (mkPtok 42 "BodyLength" 28 0 71) (mkPtok 40 "," 28 18 73)) None (mkPtok 42 "BodyLength" 28 0 71) None (Some (mkPtok 43 "`{ , }`" 28 10 72)) (mkPtok 40 "," 28 18 73)))] (mkPtok 3 "}" 29 0 74))); (DPacket (mkPacketDef (mkSpan (mkPtok 35 "packet" 29 1 75) (mkPtok 3 "}" 35 41 94)) None (mkPtok 35 "packet" 29 1 75) (mkPtok 42 "u8x" 29 8 76) (mkPtok 2 "{" 30 4 77) [(mkFieldWithAttr (mkSpan (mkPtok 36 "repeat" 30 6 78) (mkPtok 40 "," 35 39 93)) [] (InerObjectField (mkSpan (mkPtok 36 "repeat" 30 6 78) (mkPtok 40 "," 35 39 93)) (Some (mkPtok 36 "repeat" 30 6 78)) (InerObjectDecl (mkSpan (mkPtok 42 "len" 30 13 79) (mkPtok 3 "}" 35 36 92)) (mkPtok 42 "len" 30 13 79) (mkPtok 2 "{" 32 4 81) [(MetaField (mkSpan (mkPtok 22 "u32" 33 4 82) (mkPtok 40 "," 35 16 86)) None (mkMetaDecl (mkSpan (mkPtok 22 "u32" 33 4 82) (mkPtok 40 "," 35 16 86)) (TyBasic (mkSpan (mkPtok 22 "u32" 33 4 82) (mkPtok 22 "u32" 33 4 82)) (mkBasicType (mkSpan (mkPtok 22 "u32" 33 4 82) (mkPtok 22 "u32" 33 4 82)) (mkPtok 22 "u32" 33 4 82))) (mkPtok 42 "f32a" 35 4 84) (Some (mkPtok 43 (string_of_bytes [96; 230; 182; 136; 230; 129; 175; 231; 177; 187; 229; 158; 139; 96]%N) 35 9 85)) (mkPtok 40 "," 35 16 86))); (ObjectField (mkSpan (mkPtok 42 "A" 35 18 87) (mkPtok 40 "," 35 20 88)) None (mkPtok 42 "A" 35 18 87) None None (mkPtok 40 "," 35 20 88)); (MetaField (mkSpan (mkPtok 27 "i64" 35 21 89) (mkPtok 40 "," 35 34 91)) None (mkMetaDecl (mkSpan (mkPtok 27 "i64" 35 21 89) (mkPtok 40 "," 35 34 91)) (TyBasic (mkSpan (mkPtok 27 "i64" 35 21 89) (mkPtok 27 "i64" 35 21 89)) (mkBasicType (mkSpan (mkPtok 27 "i64" 35 21 89) (mkPtok 27 "i64" 35 21 89)) (mkPtok 27 "i64" 35 21 89))) (mkPtok 42 "matchKey" 35 25 90) None (mkPtok 40 "," 35 34 91)))] (mkPtok 3 "}" 35 36 92)) (mkPtok 40 "," 35 39 93)))] (mkPtok 3 "}" 35 41 94))); (DMeta (mkMetaDef (mkSpan (mkPtok 37 "MetaData" 36 0 95) (mkPtok 3 "}" 36 13 98)) (mkPtok 37 "MetaData" 36 0 95) (mkPtok 42 "_x" 36 9 96) (mkPtok 2 "{" 36 11 97) [] (mkPtok 3 "}" 36 13 98))); (DPacket (mkPacketDef (mkSpan (mkPtok 35 "packet" 36 15 99) (mkPtok 3 "}" 69 12 192)) None (mkPtok 35 "packet" 36 15 99) (mkPtok 42 "_x" 36 22 100) (mkPtok 2 "{" 36 25 101) [(mkFieldWithAttr (mkSpan (mkPtok 42 "f32a" 37 0 102) (mkPtok 40 "," 40 47 117)) [] (InerObjectField (mkSpan (mkPtok 42 "f32a" 37 0 102) (mkPtok 40 "," 40 47 117)) None (InerObjectDecl (mkSpan (mkPtok 42 "f32a" 37 0 102) (mkPtok 3 "}" 40 45 116)) (mkPtok 42 "f32a" 37 0 102) (mkPtok 2 "{" 38 4 103) [(MetaField (mkSpan (mkPtok 28 "f32" 39 0 104) (mkPtok 40 "," 40 0 107)) None (mkMetaDecl (mkSpan (mkPtok 28 "f32" 39 0 104) (mkPtok 40 "," 40 0 107)) (TyBasic (mkSpan (mkPtok 28 "f32" 39 0 104) (mkPtok 28 "f32" 39 0 104)) (mkBasicType (mkSpan (mkPtok 28 "f32" 39 0 104) (mkPtok 28 "f32" 39 0 104)) (mkPtok 28 "f32" 39 0 104))) (mkPtok 42 "body" 39 4 105) None (mkPtok 40 "," 40 0 107))); (MetaField (mkSpan (mkPtok 21 "uint16" 40 2 108) (mkPtok 40 "," 40 13 110)) None (mkMetaDecl (mkSpan (mkPtok 21 "uint16" 40 2 108) (mkPtok 40 "," 40 13 110)) (TyBasic (mkSpan (mkPtok 21 "uint16" 40 2 108) (mkPtok 21 "uint16" 40 2 108)) (mkBasicType (mkSpan (mkPtok 21 "uint16" 40 2 108) (mkPtok 21 "uint16" 40 2 108)) (mkPtok 21 "uint16" 40 2 108))) (mkPtok 42 "u128" 40 9 109) None (mkPtok 40 "," 40 13 110))); (LengthField (mkSpan (mkPtok 42 "matchKey" 40 15 111) (mkPtok 40 "," 40 43 115)) (mkLengthFieldDecl (mkSpan (mkPtok 42 "matchKey" 40 15 111) (mkPtok 40 "," 40 43 115)) None (mkPtok 42 "matchKey" 40 15 111) (mkLengthOf (mkSpan (mkPtok 7 "@lengthOf(" 40 24 112) (mkPtok 6 ")" 40 41 114)) (mkPtok 7 "@lengthOf(" 40 24 112) (mkPtok 42 "Packet" 40 34 113) (mkPtok 6 ")" 40 41 114)) None (mkPtok 40 "," 40 43 115)))] (mkPtok 3 "}" 40 45 116)) (mkPtok 40 "," 40 47 117))); (mkFieldWithAttr (mkSpan (mkPtok 36 "repeat" 40 49 118) (mkPtok 40 "," 43 4 124)) [] (MetaField (mkSpan (mkPtok 36 "repeat" 40 49 118) (mkPtok 40 "," 43 4 124)) (Some (mkPtok 36 "repeat" 40 49 118)) (mkMetaDecl (mkSpan (mkPtok 14 "zchar[" 40 56 119) (mkPtok 40 "," 43 4 124)) (TyFixed (mkSpan (mkPtok 14 "zchar[" 40 56 119) (mkPtok 13 "]" 41 4 121)) (mkFixedString (mkSpan (mkPtok 14 "zchar[" 40 56 119) (mkPtok 13 "]" 41 4 121)) (mkPtok 14 "zchar[" 40 56 119) (mkPtok 30 "0123456789" 40 63 120) (mkPtok 13 "]" 41 4 121))) (mkPtok 42 "float" 42 0 122) (Some (mkPtok 43 (string_of_bytes [96; 195; 169; 96]%N) 43 0 123)) (mkPtok 40 "," 43 4 124)))); (mkFieldWithAttr (mkSpan (mkPtok 28 "f32" 44 0 125) (mkPtok 40 "," 44 15 128)) [] (MetaField (mkSpan (mkPtok 28 "f32" 44 0 125) (mkPtok 40 "," 44 15 128)) None (mkMetaDecl (mkSpan (mkPtok 28 "f32" 44 0 125) (mkPtok 40 "," 44 15 128)) (TyBasic (mkSpan (mkPtok 28 "f32" 44 0 125) (mkPtok 28 "f32" 44 0 125)) (mkBasicType (mkSpan (mkPtok 28 "f32" 44 0 125) (mkPtok 28 "f32" 44 0 125)) (mkPtok 28 "f32" 44 0 125))) (mkPtok 42 "i8i8" 44 4 126) (Some (mkPtok 43 "`doc`" 44 9 127)) (mkPtok 40 "," 44 15 128)))); (mkFieldWithAttr (mkSpan (mkPtok 36 "repeat" 45 4 129) (mkPtok 40 "," 45 19 131)) [] (ObjectField (mkSpan (mkPtok 36 "repeat" 45 4 129) (mkPtok 40 "," 45 19 131)) (Some (mkPtok 36 "repeat" 45 4 129)) (mkPtok 42 "string_" 45 11 130) None None (mkPtok 40 "," 45 19 131))); (mkFieldWithAttr (mkSpan (mkPtok 42 "A" 45 21 132) (mkPtok 40 "," 51 0 137)) [] (ObjectField (mkSpan (mkPtok 42 "A" 45 21 132) (mkPtok 40 "," 51 0 137)) None (mkPtok 42 "A" 45 21 132) None (Some (mkPtok 43 (string_of_bytes [96; 10; 96]%N) 47 4 134)) (mkPtok 40 "," 51 0 137))); (mkFieldWithAttr (mkSpan (mkPtok 38 "match" 51 2 138) (mkPtok 40 "," 69 10 191)) [] (MatchField (mkSpan (mkPtok 38 "match" 51 2 138) (mkPtok 40 "," 69 10 191)) (mkMatchFieldDecl (mkSpan (mkPtok 38 "match" 51 2 138) (mkPtok 3 "}" 69 8 190)) (mkPtok 38 "match" 51 2 138) (mkPtok 42 "u128" 51 8 139) (mkPtok 17 "as" 51 13 140) (mkPtok 42 "i8i8" 51 16 141) (mkPtok 2 "{" 52 0 143) [(mkMatchPair (mkSpan (mkPtok 30 "0123456789" 53 0 144) (mkPtok 40 "," 53 18 147)) (MKDigits (mkPtok 30 "0123456789" 53 0 144)) (mkPtok 39 ":" 53 11 145) (mkPtok 42 "float" 53 12 146) (Some (mkPtok 40 "," 53 18 147))); (mkMatchPair (mkSpan (mkPtok 30 "10" 53 21 148) (mkPtok 40 "," 54 0 152)) (MKDigits (mkPtok 30 "10" 53 21 148)) (mkPtok 39 ":" 53 25 149) (mkPtok 42 "roots" 53 27 150) (Some (mkPtok 40 "," 54 0 152))); (mkMatchPair (mkSpan (mkPtok 31 """it's""" 55 4 153) (mkPtok 40 "," 56 4 156)) (MKString (mkPtok 31 """it's""" 55 4 153)) (mkPtok 39 ":" 55 11 154) (mkPtok 42 "_x" 55 13 155) (Some (mkPtok 40 "," 56 4 156))); (mkMatchPair (mkSpan (mkPtok 30 "10" 56 6 157) (mkPtok 42 "Z9_" 59 0 161)) (MKDigits (mkPtok 30 "10" 56 6 157)) (mkPtok 39 ":" 56 9 158) (mkPtok 42 "Z9_" 59 0 161) None); (mkMatchPair (mkSpan (mkPtok 18 "[" 59 4 162) (mkPtok 40 "," 63 14 170)) (MKList (mkKeyList (mkSpan (mkPtok 18 "[" 59 4 162) (mkPtok 13 "]" 62 6 167)) (mkPtok 18 "[" 59 4 162) (mkPtok 31 """a\""b""" 61 4 164) [((mkPtok 40 "," 61 10 165), (mkPtok 31 """x y""" 62 0 166))] (mkPtok 13 "]" 62 6 167))) (mkPtok 39 ":" 63 4 168) (mkPtok 42 "matchKey" 63 6 169) (Some (mkPtok 40 "," 63 14 170))); (mkMatchPair (mkSpan (mkPtok 18 "[" 63 16 171) (mkPtok 42 "Pad" 69 4 189)) (MKList (mkKeyList (mkSpan (mkPtok 18 "[" 63 16 171) (mkPtok 13 "]" 68 9 187)) (mkPtok 18 "[" 63 16 171) (mkPtok 31 (string_of_bytes [34; 92; 195; 169; 34]%N) 63 17 172) [((mkPtok 40 "," 63 21 173), (mkPtok 30 "10" 63 23 174)); ((mkPtok 40 "," 63 26 175), (mkPtok 31 (string_of_bytes [34; 230; 182; 136; 230; 129; 175; 34]%N) 63 27 176)); ((mkPtok 40 "," 63 32 177), (mkPtok 30 "255" 63 34 178)); ((mkPtok 40 "," 64 0 179), (mkPtok 30 "0123456789" 64 2 180)); ((mkPtok 40 "," 65 0 181), (mkPtok 30 "7" 68 0 184)); ((mkPtok 40 "," 68 3 185), (mkPtok 30 "007" 68 5 186))] (mkPtok 13 "]" 68 9 187))) (mkPtok 39 ":" 68 11 188) (mkPtok 42 "Pad" 69 4 189) None)] (mkPtok 3 "}" 69 8 190)) (mkPtok 40 "," 69 10 191)))] (mkPtok 3 "}" 69 12 192)))])).
Eval vm_compute in ("<<<M591>>>" ++ check (runes_of_ascii "options
{ x  = string
x_y_z ='\x00';falsey =
1; chars = true; Logon =
    ""packet"" }

")).
Eval vm_compute in ("<<<M623>>>" ++ check (runes_of_ascii "  packet x {tag// trailing space 
,
    }
")).
Eval vm_compute in ("<<<M655>>>" ++ check (runes_of_ascii "packet
// 50% %s
//	t
int{
    } // " ++ [128512]%N ++ runes_of_ascii " emoji")).
Eval vm_compute in ("<<<M687>>>" ++ check (runes_of_ascii "root /// triple
packet calculatedFrom { string	crc	,  @calculatedFrom( ""abc"" ) u8
float, match // " ++ [27880; 37322]%N ++ runes_of_ascii "
BodyLength
    // 50% %s
    as Packet{ 0 : charz
    ,
    } ,
}")).
Eval vm_compute in ("<<<M719>>>" ++ check (runes_of_ascii "
packet
    // c
    float{
@tag( 1 )
@calculatedFrom( ""1"" // trailing space 
)
    matchKey @lengthOf( crc )`` , } MetaData pack
{char[]
BodyLength , trueish
    crc ,
    char[	0123456789]	A // @lengthOf(
`
`
,
zchar leftPad
`two words`	, } packet
charz//x
{x {
    u16
x
`line1
line2`// a // b
,	repeat
a1 ,roots asx , } , matchKey rootA
,
@lengthOf( options1 )  u16
Z9_, @calculatedFrom( """ ++ [233]%N ++ runes_of_ascii "t" ++ [233]%N ++ runes_of_ascii """ ) match rootA as// @lengthOf(
matchKey
{ // " ++ [27880; 37322]%N ++ runes_of_ascii "
0123456789
:u8x ,65535 : crc// " ++ [27880; 37322]%N ++ runes_of_ascii "
,
[
    1 ,
    ""x y"" ,
1 ]
: x_y_z ,
    [ 00  , """ ++ [128512]%N ++ runes_of_ascii """]
    : MetaDataX ,
    }	, i16
    /// triple
    float
    , @calculatedFrom( ""a	b""	)// " ++ [128512]%N ++ runes_of_ascii " emoji
@lengthOf( Foo ) repeat//	t
chars // @lengthOf(
, pack , }
root packet i8i8 { @calculatedFrom(
""" ++ [128512]%N ++ runes_of_ascii """) Header { repeat
    Pad _x ,
}, }
")).
Eval vm_compute in ("<<<M751>>>" ++ check (runes_of_ascii "// a // b
options{ Pad = ""x y"" ; As =  7 x_y_z
= '\x00'
float = '\x00';i8i8= 1 } packet
packetx {
    @rightPad//	t
(
'\x00' )
repeat
char[]  zchar , }root
packet int { @lengthOf( packetx ) repeat A , } //	t")).
Eval vm_compute in ("<<<M783>>>" ++ check (runes_of_ascii "root
packet i64_ {  u8
Logon ,asx
@lengthOf( calculatedFrom ) `two words`
, @rightPad ('\x00' ) @tag(4294967296 ) @leftPad ( )u32 roots
    , repeat
    // " ++ [128512]%N ++ runes_of_ascii " emoji
    char[
65535 ] Foo , }
")).
Eval vm_compute in ("<<<T783>>>" ++ terms [mkTok 34 "root" 1 0 false; mkTok 35 "packet" 2 0 false; mkTok 42 "i64_" 2 7 false; mkTok 2 "{" 2 12 false; mkTok 20 "u8" 2 15 false; mkTok 42 "Logon" 3 0 false; mkTok 40 "," 3 6 false; mkTok 42 "asx" 3 7 false; mkTok 7 "@lengthOf(" 4 0 false; mkTok 42 "calculatedFrom" 4 11 false; mkTok 6 ")" 4 26 false; mkTok 43 "`two words`" 4 28 false; mkTok 40 "," 5 0 false; mkTok 32 "@rightPad" 5 2 false; mkTok 8 "(" 5 12 false; mkTok 33 "'\x00'" 5 13 false; mkTok 6 ")" 5 20 false; mkTok 9 "@tag(" 5 22 false; mkTok 30 "4294967296" 5 27 false; mkTok 6 ")" 5 38 false; mkTok 32 "@leftPad" 5 40 false; mkTok 8 "(" 5 49 false; mkTok 6 ")" 5 51 false; mkTok 22 "u32" 5 52 false; mkTok 42 "roots" 5 56 false; mkTok 40 "," 6 4 false; mkTok 36 "repeat" 6 6 false; mkTok 44 (string_of_bytes [47; 47; 32; 240; 159; 152; 128; 32; 101; 109; 111; 106; 105]%N) 7 4 true; mkTok 12 "char[" 8 4 false; mkTok 30 "65535" 9 0 false; mkTok 13 "]" 9 6 false; mkTok 42 "Foo" 9 8 false; mkTok 40 "," 9 12 false; mkTok 3 "}" 9 14 false; mkTok 0 "<EOF>" 10 0 false] (mkPacket (mkPtok 34 "root" 1 0 0) (Some (mkPtok 3 "}" 9 14 33)) [(DPacket (mkPacketDef (mkSpan (mkPtok 34 "root" 1 0 0) (mkPtok 3 "}" 9 14 33)) (Some (mkPtok 34 "root" 1 0 0)) (mkPtok 35 "packet" 2 0 1) (mkPtok 42 "i64_" 2 7 2) (mkPtok 2 "{" 2 12 3) [(mkFieldWithAttr (mkSpan (mkPtok 20 "u8" 2 15 4) (mkPtok 40 "," 3 6 6)) [] (MetaField (mkSpan (mkPtok 20 "u8" 2 15 4) (mkPtok 40 "," 3 6 6)) None (mkMetaDecl (mkSpan (mkPtok 20 "u8" 2 15 4) (mkPtok 40 "," 3 6 6)) (TyBasic (mkSpan (mkPtok 20 "u8" 2 15 4) (mkPtok 20 "u8" 2 15 4)) (mkBasicType (mkSpan (mkPtok 20 "u8" 2 15 4) (mkPtok 20 "u8" 2 15 4)) (mkPtok 20 "u8" 2 15 4))) (mkPtok 42 "Logon" 3 0 5) None (mkPtok 40 "," 3 6 6)))); (mkFieldWithAttr (mkSpan (mkPtok 42 "asx" 3 7 7) (mkPtok 40 "," 5 0 12)) [] (LengthField (mkSpan (mkPtok 42 "asx" 3 7 7) (mkPtok 40 "," 5 0 12)) (mkLengthFieldDecl (mkSpan (mkPtok 42 "asx" 3 7 7) (mkPtok 40 "," 5 0 12)) None (mkPtok 42 "asx" 3 7 7) (mkLengthOf (mkSpan (mkPtok 7 "@lengthOf(" 4 0 8) (mkPtok 6 ")" 4 26 10)) (mkPtok 7 "@lengthOf(" 4 0 8) (mkPtok 42 "calculatedFrom" 4 11 9) (mkPtok 6 ")" 4 26 10)) (Some (mkPtok 43 "`two words`" 4 28 11)) (mkPtok 40 "," 5 0 12)))); (mkFieldWithAttr (mkSpan (mkPtok 32 "@rightPad" 5 2 13) (mkPtok 40 "," 6 4 25)) [(FAPadding (mkSpan (mkPtok 32 "@rightPad" 5 2 13) (mkPtok 6 ")" 5 20 16)) (mkPaddingAttr (mkSpan (mkPtok 32 "@rightPad" 5 2 13) (mkPtok 6 ")" 5 20 16)) (mkPtok 32 "@rightPad" 5 2 13) (mkPtok 8 "(" 5 12 14) (Some (mkPtok 33 "'\x00'" 5 13 15)) (mkPtok 6 ")" 5 20 16))); (FATag (mkSpan (mkPtok 9 "@tag(" 5 22 17) (mkPtok 6 ")" 5 38 19)) (mkTagAttr (mkSpan (mkPtok 9 "@tag(" 5 22 17) (mkPtok 6 ")" 5 38 19)) (mkPtok 9 "@tag(" 5 22 17) (mkPtok 30 "4294967296" 5 27 18) (mkPtok 6 ")" 5 38 19))); (FAPadding (mkSpan (mkPtok 32 "@leftPad" 5 40 20) (mkPtok 6 ")" 5 51 22)) (mkPaddingAttr (mkSpan (mkPtok 32 "@leftPad" 5 40 20) (mkPtok 6 ")" 5 51 22)) (mkPtok 32 "@leftPad" 5 40 20) (mkPtok 8 "(" 5 49 21) None (mkPtok 6 ")" 5 51 22)))] (MetaField (mkSpan (mkPtok 22 "u32" 5 52 23) (mkPtok 40 "," 6 4 25)) None (mkMetaDecl (mkSpan (mkPtok 22 "u32" 5 52 23) (mkPtok 40 "," 6 4 25)) (TyBasic (mkSpan (mkPtok 22 "u32" 5 52 23) (mkPtok 22 "u32" 5 52 23)) (mkBasicType (mkSpan (mkPtok 22 "u32" 5 52 23) (mkPtok 22 "u32" 5 52 23)) (mkPtok 22 "u32" 5 52 23))) (mkPtok 42 "roots" 5 56 24) None (mkPtok 40 "," 6 4 25)))); (mkFieldWithAttr (mkSpan (mkPtok 36 "repeat" 6 6 26) (mkPtok 40 "," 9 12 32)) [] (MetaField (mkSpan (mkPtok 36 "repeat" 6 6 26) (mkPtok 40 "," 9 12 32)) (Some (mkPtok 36 "repeat" 6 6 26)) (mkMetaDecl (mkSpan (mkPtok 12 "char[" 8 4 28) (mkPtok 40 "," 9 12 32)) (TyFixed (mkSpan (mkPtok 12 "char[" 8 4 28) (mkPtok 13 "]" 9 6 30)) (mkFixedString (mkSpan (mkPtok 12 "char[" 8 4 28) (mkPtok 13 "]" 9 6 30)) (mkPtok 12 "char[" 8 4 28) (mkPtok 30 "65535" 9 0 29) (mkPtok 13 "]" 9 6 30))) (mkPtok 42 "Foo" 9 8 31) None (mkPtok 40 "," 9 12 32))))] (mkPtok 3 "}" 9 14 33)))])).
Eval vm_compute in ("<<<M815>>>" ++ check (runes_of_ascii "packet Z9_{  @tag( 007
) @tag( 007 ) @lengthOf( trueish
) char[]
i8i8 `{ , }` , } MetaData trueish
    {  char[] metadata ,
char[
    0123456789]
uint8x , //
} packet Packet/// triple
{ uint16 float
@lengthOf(
    Z9_
) `" ++ [28040; 24687; 31867; 22411]%N ++ runes_of_ascii "`
    ,
@calculatedFrom( ""// no comment"" )
// a // b
//	t
crc,uint8x `" ++ [233]%N ++ runes_of_ascii "`
, uint16 packetx , @leftPad
    (
) repeat rootA
{
repeat
    // `tick` ""quote"" 'q'
    As options1	, } ,match x as tag {1
// 50% %s
//
:
// " ++ [128512]%N ++ runes_of_ascii " emoji
// 50% %s
T
// c
// 50% %s
,
""abc"" : tag""\n""
    // @lengthOf(
    :
/// triple
//x
tag ,  65535 :	u ,
} // trailing space 
, match
    // trailing space 
    Pad as
Foo // `tick` ""quote"" 'q'
{ ""it's"":
T , } ,metadata,@lengthOf(rootA )  @rightPad ('\x00' )
    // packet A { u8 x, }
    match i64_	as  stringy { """ ++ [233]%N ++ runes_of_ascii "t" ++ [233]%N ++ runes_of_ascii """ : crc
,
00 : trueish 0 :repeatCount
    ,
3
    :
falsey , """ ++ [28040; 24687]%N ++ runes_of_ascii """ : lengthOf  [ """"// `tick` ""quote"" 'q'
, 1 ]
    : lengthOf , } ,
} MetaData A {
    chars MetaDataX ,
    char[ 7 ] x_y_z,
f32 u `crlf
line`
,
int64 packetx`say ""hi""`
, } MetaData
Foo { i64 lengthOf `crlf
line`, }
")).
Eval vm_compute in ("<<<M847>>>" ++ check (runes_of_ascii "root packet
    rootA
    {
@tag(
    7
)@calculatedFrom(
""`tick`"" ) a1
    // packet A { u8 x, }
    @calculatedFrom( """ ++ [28040; 24687]%N ++ runes_of_ascii """ ) ,
// packet A { u8 x, }
//x
}

")).
Eval vm_compute in ("<<<M879>>>" ++ check (runes_of_ascii "// `tick` ""quote"" 'q'
root  packet zchar
{
// @lengthOf(
//x
match packetx as//x
u128{ 65535: f32a	""abc""
: stringy ,	""// no comment"" :
uint8x // a // b
[
    ""packet""
] : msg_type
, ""`tick`"":
BodyLength
00 :stringy
, } ,}
root
    packet lengthOf
{ @calculatedFrom(""packet"" )char[] trueish , }

")).
Eval vm_compute in ("<<<M911>>>" ++ check (runes_of_ascii "root packet Header {
    @lengthOf(	x_y_z // packet A { u8 x, }
)// packet A { u8 x, }
@tag(
//x
// 50% %s
0123456789
    )	@lengthOf(
    As ) string len`two words`
,
    match Pad
as _x
{
""\" ++ [233]%N ++ runes_of_ascii """
    : Z9_, } , i8i8 @lengthOf(	repeatCount// trailing space 
)
//x
//x
`doc`	,
char[ 0 // trailing space 
]	chars	, @leftPad
( ' ' ) Logon `tab	here` , // c
@calculatedFrom( ""\" ++ [233]%N ++ runes_of_ascii """	) repeat zchar { zchar[ 4294967296 ]
    A `
` ,
repeat
a1
    {//	t
repeat
Header  , zchar[
    7 ]packetx
`{ , }`
,
char[007
]_x , } ,	match chars as
o {
    ""\" ++ [233]%N ++ runes_of_ascii """
:// " ++ [27880; 37322]%N ++ runes_of_ascii "
calculatedFrom ""\n"":u8x ,
""a	b"" : Pad //
,65535
: int
    ,	}
, char[] float// @lengthOf(
@lengthOf(lengthOf )
    ,
}
    , uint32 asx `
` , char[] uint8x  @calculatedFrom( //x
""abc"" ) ,
    //
    @tag( 255
    ) @calculatedFrom( ""a\\""
    ) zchar[
    3
] options1 ,charz `two words` ,
    // c
    }")).
Eval vm_compute in ("<<<M943>>>" ++ check (runes_of_ascii "MetaData
rootA	{ // " ++ [128512]%N ++ runes_of_ascii " emoji
T	calculatedFrom
``
    , x msg_type , } root packet Pad { falsey { repeat  tag
a1 `" ++ [28040; 24687; 31867; 22411]%N ++ runes_of_ascii "`
    , } ,@calculatedFrom( ""CRC32""  ) repeat len ,
int16	charz @calculatedFrom( ""x y"" ) //	t
,string matchKey
    , zchar[3 ]
Header `it's` , trueish
@lengthOf(
stringy
), char[] metadata //	t
@lengthOf( options1 )
    , u roots `` ,} MetaData lengthOf
    { float32 metadata,
char
body `100% of %d`
    , // a // b
}
")).
Eval vm_compute in ("<<<M975>>>" ++ check (runes_of_ascii "packet metadata { uint8x { repeat //
u16 string_, }
//	t
//x
, } packet MetaDataX  { @rightPad	(' ' ) tag {  zchar[ 007
] tag
//x
// " ++ [27880; 37322]%N ++ runes_of_ascii "
@calculatedFrom(
""1"" ) ,
    string u , repeat A	T ,
// 50% %s
// packet A { u8 x, }
roots @lengthOf(
    Logon),
    }
, @calculatedFrom( """ ++ [28040; 24687]%N ++ runes_of_ascii """ )repeat
string_	`tab	here`,}packet x
{ float32 // 50% %s
BodyLength @lengthOf(Header )
`doc`//	t
,}
")).
Eval vm_compute in ("<<<M1007>>>" ++ check (runes_of_ascii "MetaData
    Pad {uint64 options1 , int32	roots ,
int16 A `` //
, msg_type
    trueish , }")).
Eval vm_compute in ("<<<T1007>>>" ++ terms [mkTok 37 "MetaData" 1 0 false; mkTok 42 "Pad" 2 4 false; mkTok 2 "{" 2 8 false; mkTok 23 "uint64" 2 9 false; mkTok 42 "options1" 2 16 false; mkTok 40 "," 2 25 false; mkTok 26 "int32" 2 27 false; mkTok 42 "roots" 2 33 false; mkTok 40 "," 2 39 false; mkTok 25 "int16" 3 0 false; mkTok 42 "A" 3 6 false; mkTok 43 "``" 3 8 false; mkTok 44 "//" 3 11 true; mkTok 40 "," 4 0 false; mkTok 42 "msg_type" 4 2 false; mkTok 42 "trueish" 5 4 false; mkTok 40 "," 5 12 false; mkTok 3 "}" 5 14 false; mkTok 0 "<EOF>" 5 15 false] (mkPacket (mkPtok 37 "MetaData" 1 0 0) (Some (mkPtok 3 "}" 5 14 17)) [(DMeta (mkMetaDef (mkSpan (mkPtok 37 "MetaData" 1 0 0) (mkPtok 3 "}" 5 14 17)) (mkPtok 37 "MetaData" 1 0 0) (mkPtok 42 "Pad" 2 4 1) (mkPtok 2 "{" 2 8 2) [(MIDecl (mkMetaDecl (mkSpan (mkPtok 23 "uint64" 2 9 3) (mkPtok 40 "," 2 25 5)) (TyBasic (mkSpan (mkPtok 23 "uint64" 2 9 3) (mkPtok 23 "uint64" 2 9 3)) (mkBasicType (mkSpan (mkPtok 23 "uint64" 2 9 3) (mkPtok 23 "uint64" 2 9 3)) (mkPtok 23 "uint64" 2 9 3))) (mkPtok 42 "options1" 2 16 4) None (mkPtok 40 "," 2 25 5))); (MIDecl (mkMetaDecl (mkSpan (mkPtok 26 "int32" 2 27 6) (mkPtok 40 "," 2 39 8)) (TyBasic (mkSpan (mkPtok 26 "int32" 2 27 6) (mkPtok 26 "int32" 2 27 6)) (mkBasicType (mkSpan (mkPtok 26 "int32" 2 27 6) (mkPtok 26 "int32" 2 27 6)) (mkPtok 26 "int32" 2 27 6))) (mkPtok 42 "roots" 2 33 7) None (mkPtok 40 "," 2 39 8))); (MIDecl (mkMetaDecl (mkSpan (mkPtok 25 "int16" 3 0 9) (mkPtok 40 "," 4 0 13)) (TyBasic (mkSpan (mkPtok 25 "int16" 3 0 9) (mkPtok 25 "int16" 3 0 9)) (mkBasicType (mkSpan (mkPtok 25 "int16" 3 0 9) (mkPtok 25 "int16" 3 0 9)) (mkPtok 25 "int16" 3 0 9))) (mkPtok 42 "A" 3 6 10) (Some (mkPtok 43 "``" 3 8 11)) (mkPtok 40 "," 4 0 13))); (MIRef (mkRefMetaDecl (mkSpan (mkPtok 42 "msg_type" 4 2 14) (mkPtok 40 "," 5 12 16)) (mkPtok 42 "msg_type" 4 2 14) (mkPtok 42 "trueish" 5 4 15) None (mkPtok 40 "," 5 12 16)))] (mkPtok 3 "}" 5 14 17)))])).
Eval vm_compute in ("<<<M1039>>>" ++ check (runes_of_ascii "MetaData MetaDataX // packet A { u8 x, }
{ uint8
    stringy// `tick` ""quote"" 'q'
`a\` , float32 // @lengthOf(
f32a , u32 T , float32 uint8x
, } // " ++ [27880; 37322]%N)).
Eval vm_compute in ("<<<M1071>>>" ++ check (runes_of_ascii "packet
    u8x
//	t
// 50% %s
{ } 	 ")).
Eval vm_compute in ("<<<M1103>>>" ++ check (runes_of_ascii "MetaData i8i8 {rootA
stringy
, char[ 4294967296 ] asx , i8 uint8x, zchar  int
,} // `tick` ""quote"" 'q'")).
Eval vm_compute in ("<<<M1135>>>" ++ check (runes_of_ascii "  packet
    stringy {
    repeatCount @calculatedFrom(""a	b""),
    @lengthOf( string_ //x
) repeat
i64_ metadata `it's`
    , }
")).
Eval vm_compute in ("<<<M1167>>>" ++ check (runes_of_ascii "
MetaData  o { }
// a // b
")).
Eval vm_compute in ("<<<M1199>>>" ++ check (runes_of_ascii "packet
i8i8 // " ++ [128512]%N ++ runes_of_ascii " emoji
{@calculatedFrom( ""abc""
    ) match _x  as trueish {
[
007 ,4294967296 , 4294967296 ] : // trailing space 
uint8x ,""{,}"" :
stringy ,
4294967296
    // c
    : packetx ,
    //	t
    [ // trailing space 
10
    , 1
]// trailing space 
:
chars
, """"
:
    u8x
, }, @calculatedFrom(
""" ++ [28040; 24687]%N ++ runes_of_ascii """ )
u32 u @lengthOf( u128 ) ,
As @calculatedFrom(""a	b"" )
    ,@leftPad (' '
) @calculatedFrom(	""1""
    )@calculatedFrom( ""\" ++ [233]%N ++ runes_of_ascii """
    ) //
zchar[ 1 // packet A { u8 x, }
]
MetaDataX
,}")).
Eval vm_compute in ("<<<M1231>>>" ++ check (runes_of_ascii "root	packet pack
{ @calculatedFrom( ""CRC32""
// 50% %s
// c
)	msg_type lengthOf,  string	float `u8 x,` ,
// 50% %s
// packet A { u8 x, }
trueish@calculatedFrom(
""// no comment"" ),// trailing space 
f32a `doc` // `tick` ""quote"" 'q'
, i64 Header @calculatedFrom(
    ""abc""
// c
//	t
)
//	t
//	t
`line1
line2` ,
}
")).
Eval vm_compute in ("<<<T1231>>>" ++ terms [mkTok 34 "root" 1 0 false; mkTok 35 "packet" 1 5 false; mkTok 42 "pack" 1 12 false; mkTok 2 "{" 2 0 false; mkTok 5 "@calculatedFrom(" 2 2 false; mkTok 31 """CRC32""" 2 19 false; mkTok 44 "// 50% %s" 3 0 true; mkTok 44 "// c" 4 0 true; mkTok 6 ")" 5 0 false; mkTok 42 "msg_type" 5 2 false; mkTok 42 "lengthOf" 5 11 false; mkTok 40 "," 5 19 false; mkTok 15 "string" 5 22 false; mkTok 42 "float" 5 29 false; mkTok 43 "`u8 x,`" 5 35 false; mkTok 40 "," 5 43 false; mkTok 44 "// 50% %s" 6 0 true; mkTok 44 "// packet A { u8 x, }" 7 0 true; mkTok 42 "trueish" 8 0 false; mkTok 5 "@calculatedFrom(" 8 7 false; mkTok 31 """// no comment""" 9 0 false; mkTok 6 ")" 9 16 false; mkTok 40 "," 9 17 false; mkTok 44 "// trailing space " 9 18 true; mkTok 42 "f32a" 10 0 false; mkTok 43 "`doc`" 10 5 false; mkTok 44 "// `tick` ""quote"" 'q'" 10 11 true; mkTok 40 "," 11 0 false; mkTok 27 "i64" 11 2 false; mkTok 42 "Header" 11 6 false; mkTok 5 "@calculatedFrom(" 11 13 false; mkTok 31 """abc""" 12 4 false; mkTok 44 "// c" 13 0 true; mkTok 44 (string_of_bytes [47; 47; 9; 116]%N) 14 0 true; mkTok 6 ")" 15 0 false; mkTok 44 (string_of_bytes [47; 47; 9; 116]%N) 16 0 true; mkTok 44 (string_of_bytes [47; 47; 9; 116]%N) 17 0 true; mkTok 43 (string_of_bytes [96; 108; 105; 110; 101; 49; 10; 108; 105; 110; 101; 50; 96]%N) 18 0 false; mkTok 40 "," 19 7 false; mkTok 3 "}" 20 0 false; mkTok 0 "<EOF>" 21 0 false] (mkPacket (mkPtok 34 "root" 1 0 0) (Some (mkPtok 3 "}" 20 0 39)) [(DPacket (mkPacketDef (mkSpan (mkPtok 34 "root" 1 0 0) (mkPtok 3 "}" 20 0 39)) (Some (mkPtok 34 "root" 1 0 0)) (mkPtok 35 "packet" 1 5 1) (mkPtok 42 "pack" 1 12 2) (mkPtok 2 "{" 2 0 3) [(mkFieldWithAttr (mkSpan (mkPtok 5 "@calculatedFrom(" 2 2 4) (mkPtok 40 "," 5 19 11)) [(FACalculatedFrom (mkSpan (mkPtok 5 "@calculatedFrom(" 2 2 4) (mkPtok 6 ")" 5 0 8)) (mkCalculatedFrom (mkSpan (mkPtok 5 "@calculatedFrom(" 2 2 4) (mkPtok 6 ")" 5 0 8)) (mkPtok 5 "@calculatedFrom(" 2 2 4) (mkPtok 31 """CRC32""" 2 19 5) (mkPtok 6 ")" 5 0 8)))] (ObjectField (mkSpan (mkPtok 42 "msg_type" 5 2 9) (mkPtok 40 "," 5 19 11)) None (mkPtok 42 "msg_type" 5 2 9) (Some (mkPtok 42 "lengthOf" 5 11 10)) None (mkPtok 40 "," 5 19 11))); (mkFieldWithAttr (mkSpan (mkPtok 15 "string" 5 22 12) (mkPtok 40 "," 5 43 15)) [] (MetaField (mkSpan (mkPtok 15 "string" 5 22 12) (mkPtok 40 "," 5 43 15)) None (mkMetaDecl (mkSpan (mkPtok 15 "string" 5 22 12) (mkPtok 40 "," 5 43 15)) (TyDynamic (mkSpan (mkPtok 15 "string" 5 22 12) (mkPtok 15 "string" 5 22 12)) (mkDynamicString (mkSpan (mkPtok 15 "string" 5 22 12) (mkPtok 15 "string" 5 22 12)) (mkPtok 15 "string" 5 22 12))) (mkPtok 42 "float" 5 29 13) (Some (mkPtok 43 "`u8 x,`" 5 35 14)) (mkPtok 40 "," 5 43 15)))); (mkFieldWithAttr (mkSpan (mkPtok 42 "trueish" 8 0 18) (mkPtok 40 "," 9 17 22)) [] (CheckSumField (mkSpan (mkPtok 42 "trueish" 8 0 18) (mkPtok 40 "," 9 17 22)) (mkChecksumFieldDecl (mkSpan (mkPtok 42 "trueish" 8 0 18) (mkPtok 40 "," 9 17 22)) None (mkPtok 42 "trueish" 8 0 18) (mkCalculatedFrom (mkSpan (mkPtok 5 "@calculatedFrom(" 8 7 19) (mkPtok 6 ")" 9 16 21)) (mkPtok 5 "@calculatedFrom(" 8 7 19) (mkPtok 31 """// no comment""" 9 0 20) (mkPtok 6 ")" 9 16 21)) None (mkPtok 40 "," 9 17 22)))); (mkFieldWithAttr (mkSpan (mkPtok 42 "f32a" 10 0 24) (mkPtok 40 "," 11 0 27)) [] (ObjectField (mkSpan (mkPtok 42 "f32a" 10 0 24) (mkPtok 40 "," 11 0 27)) None (mkPtok 42 "f32a" 10 0 24) None (Some (mkPtok 43 "`doc`" 10 5 25)) (mkPtok 40 "," 11 0 27))); (mkFieldWithAttr (mkSpan (mkPtok 27 "i64" 11 2 28) (mkPtok 40 "," 19 7 38)) [] (CheckSumField (mkSpan (mkPtok 27 "i64" 11 2 28) (mkPtok 40 "," 19 7 38)) (mkChecksumFieldDecl (mkSpan (mkPtok 27 "i64" 11 2 28) (mkPtok 40 "," 19 7 38)) (Some (TyBasic (mkSpan (mkPtok 27 "i64" 11 2 28) (mkPtok 27 "i64" 11 2 28)) (mkBasicType (mkSpan (mkPtok 27 "i64" 11 2 28) (mkPtok 27 "i64" 11 2 28)) (mkPtok 27 "i64" 11 2 28)))) (mkPtok 42 "Header" 11 6 29) (mkCalculatedFrom (mkSpan (mkPtok 5 "@calculatedFrom(" 11 13 30) (mkPtok 6 ")" 15 0 34)) (mkPtok 5 "@calculatedFrom(" 11 13 30) (mkPtok 31 """abc""" 12 4 31) (mkPtok 6 ")" 15 0 34)) (Some (mkPtok 43 (string_of_bytes [96; 108; 105; 110; 101; 49; 10; 108; 105; 110; 101; 50; 96]%N) 18 0 37)) (mkPtok 40 "," 19 7 38))))] (mkPtok 3 "}" 20 0 39)))])).
Eval vm_compute in ("<<<M1263>>>" ++ check (runes_of_ascii "MetaData
    Z9_ { }")).
Eval vm_compute in ("<<<M1295>>>" ++ check (runes_of_ascii "
options{ BodyLength =  true
    /// triple
    chars
    =
    ""it's"" ;float=	'\x00'}")).
Eval vm_compute in ("<<<M1327>>>" ++ check (runes_of_ascii "root packet int {
float  A	`// not a comment` , @lengthOf(string_ )zchar[ 0123456789
]string_  ,
u32 body`a\`, @lengthOf( zchar )
@calculatedFrom(// packet A { u8 x, }
""packet""
    ) @lengthOf( roots
)
matchKey
`crlf
line` , float32 Header	`// not a comment` , u64 asx
    @calculatedFrom(""1"" )`tab	here`,@tag( 007 )string asx , int64	_x , } 	 ")).
Eval vm_compute in ("<<<M1359>>>" ++ check (runes_of_ascii "
")).
Eval vm_compute in ("<<<M1391>>>" ++ check (runes_of_ascii "options {Z9_ = 007  ;
    falsey= """ ++ [128512]%N ++ runes_of_ascii """	; }options {asx
    = uint16 ; }options
{ T=  string ;
lengthOf
= false ; }")).
Eval vm_compute in ("<<<M1423>>>" ++ check (runes_of_ascii "packet
    // a // b
    calculatedFrom
{ @calculatedFrom(
    ""1"" )
repeat options1
{ crc @lengthOf(	i8i8 ) `it's` , i8 lengthOf
    `tab	here` ,
    zchar @lengthOf( pack) , }
, char[ 42 ] trueish @lengthOf( // " ++ [27880; 37322]%N ++ runes_of_ascii "
Packet ) ,zchar[10 ] a1  , }MetaData // c
lengthOf { string float , }
")).
Eval vm_compute in ("<<<M1455>>>" ++ check (runes_of_ascii " // packet A { u8 x, }")).
Eval vm_compute in ("<<<T1455>>>" ++ terms [mkTok 44 "// packet A { u8 x, }" 1 1 true; mkTok 0 "<EOF>" 1 22 false] (mkPacket (mkPtok 0 "<EOF>" 1 22 1) None [])).
Eval vm_compute in ("<<<M1487>>>" ++ check (runes_of_ascii "
")).
Eval vm_compute in ("<<<M1519>>>" ++ check (runes_of_ascii "MetaData
/// triple
// " ++ [27880; 37322]%N ++ runes_of_ascii "
A
    { x_y_z Logon
,
    }
// c
")).
Eval vm_compute in ("<<<M1551>>>" ++ check (runes_of_ascii "packet stringy { u8
u128,
// 50% %s
// c
}root
    packet	MetaDataX {
repeat charz
// " ++ [27880; 37322]%N ++ runes_of_ascii "
//
, @leftPad
//
// 50% %s
( )@lengthOf(
crc
    ) repeat char[
10
//	t
// " ++ [128512]%N ++ runes_of_ascii " emoji
]  T
, f32	Header @calculatedFrom( ""abc"" ) ,}options{
int= 1 Z9_ = ' '
matchKey =""it's"" // " ++ [27880; 37322]%N ++ runes_of_ascii "
;}
")).
Eval vm_compute in ("<<<M1583>>>" ++ check (runes_of_ascii "
root packet
    metadata
    { @calculatedFrom( ""\" ++ [233]%N ++ runes_of_ascii """ // c
)
    u8 _x , // packet A { u8 x, }
i8i8 , @lengthOf( metadata
) match Header as	float
    // 50% %s
    {  ""packet"" :
    pack , } ,zchar[ 7 ]
u @calculatedFrom(""a	b""
    // " ++ [128512]%N ++ runes_of_ascii " emoji
    ) `a\`,  repeat // @lengthOf(
o
,
// @lengthOf(
//	t
x `100% of %d`
    ,	@tag(
// a // b
// 50% %s
007)  match Header
//x
//	t
as BodyLength {4294967296 : zchar , ""a	b"" : roots
, } , a1 ,}
packet string_ { char[] Header , repeat
string_ `a\`	, Pad`tab	here`
    , uint32//	t
matchKey @calculatedFrom(
    """" ) `tab	here`, }options
    {
    matchKey =float32 ;
    Z9_
= true // trailing space 
; i8i8=
""" ++ [233]%N ++ runes_of_ascii "t" ++ [233]%N ++ runes_of_ascii """  }packet
    chars { char[42 ]// @lengthOf(
trueish
    @calculatedFrom( """ ++ [233]%N ++ runes_of_ascii "t" ++ [233]%N ++ runes_of_ascii """ )`line1
line2` ,
//
// trailing space 
@calculatedFrom( ""\" ++ [233]%N ++ runes_of_ascii """ // packet A { u8 x, }
)	uint16 i64_ `{ , }`
    ,  Foo @lengthOf( stringy)`crlf
line`, @leftPad ( '\x00' )	char[3 ] leftPad @calculatedFrom(
    ""{,}""
) ,
@leftPad ( )@rightPad
( '\x00' )options1  @lengthOf(
    // `tick` ""quote"" 'q'
    uint8x )
, @calculatedFrom( """ ++ [128512]%N ++ runes_of_ascii """
)f64 i64_ `100% of %d` , char[]
calculatedFrom@lengthOf(chars ),
i8 leftPad@lengthOf( _x )  , } root packet chars
    // " ++ [27880; 37322]%N ++ runes_of_ascii "
    { @lengthOf( Pad )	matchKey Logon `line1
line2`
    , uint16  body @lengthOf(
BodyLength
    // packet A { u8 x, }
    ),
// packet A { u8 x, }
// " ++ [128512]%N ++ runes_of_ascii " emoji
len @lengthOf( options1 )
    `` , u8x `" ++ [28040; 24687; 31867; 22411]%N ++ runes_of_ascii "`  ,@lengthOf(
    As ) @tag(
0
)	@calculatedFrom( ""`tick`"")x_y_z u `doc` ,  int16 len@lengthOf(chars) , @lengthOf(options1 ) u128
`a\`
,//	t
int8 len@lengthOf(
    // " ++ [128512]%N ++ runes_of_ascii " emoji
    float
) `" ++ [233]%N ++ runes_of_ascii "` ,
@rightPad (
//
/// triple
) @tag( 007
    )@lengthOf(f32a ) char[	0123456789 ]	MetaDataX , @leftPad ( '0' ) match roots as
calculatedFrom//	t
{ [ 0123456789 // 50% %s
, """ ++ [128512]%N ++ runes_of_ascii """ ]	:u ,
    //	t
    007 :
_x // trailing space 
, 007 : // trailing space 
a1
,
00 : options1 // @lengthOf(
,
[4294967296 ,""// no comment""
    , 00
    , 7,	""// no comment"" ] :i8i8 ,} ,
}")).
Eval vm_compute in ("<<<M1615>>>" ++ check (runes_of_ascii "
// " ++ [27880; 37322]%N ++ runes_of_ascii "
")).
Eval vm_compute in ("<<<M1647>>>" ++ check (runes_of_ascii "
MetaData uint8x
// " ++ [27880; 37322]%N ++ runes_of_ascii "
// a // b
{	Pad As,A asx `" ++ [28040; 24687; 31867; 22411]%N ++ runes_of_ascii "` ,string_ trueish `
` ,
repeatCount Packet
,int8
stringy
,
zchar[
    1 ]
x_y_z, }
    options {// @lengthOf(
}
")).
Eval vm_compute in ("<<<M1679>>>" ++ check (runes_of_ascii "  options// @lengthOf(
{
    } MetaData BodyLength{} packet Packet
    { // @lengthOf(
@tag(  10 )
repeat // c
uint16 charz
`u8 x,` ,
// @lengthOf(
//	t
string_ ,  As packetx
    `doc`,
@leftPad ( '\x00' ) roots u128 ,
    string
string_ , pack
`u8 x,` ,u16 Logon `say ""hi""` ,
zchar[ 65535 ]leftPad ,@tag(0)
    chars matchKey , @calculatedFrom(""abc"" ) @tag(	10)	@rightPad	('\x00'
) u128
    //x
    , } packet options1 {
// `tick` ""quote"" 'q'
// @lengthOf(
@calculatedFrom(
""1"" )	metadata @calculatedFrom(
    // a // b
    ""CRC32"" ) `two words` , repeat string matchKey ,body Logon ``
,
    @lengthOf( matchKey ) char[] repeatCount``,
    float32
/// triple
//
i8i8@lengthOf(
    metadata  ),@tag( 4294967296
    ) repeat u32
rootA
`
`
    // " ++ [27880; 37322]%N ++ runes_of_ascii "
    ,} options
    { }
")).
Eval vm_compute in ("<<<T1679>>>" ++ terms [mkTok 1 "options" 1 2 false; mkTok 44 "// @lengthOf(" 1 9 true; mkTok 2 "{" 2 0 false; mkTok 3 "}" 3 4 false; mkTok 37 "MetaData" 3 6 false; mkTok 42 "BodyLength" 3 15 false; mkTok 2 "{" 3 25 false; mkTok 3 "}" 3 26 false; mkTok 35 "packet" 3 28 false; mkTok 42 "Packet" 3 35 false; mkTok 2 "{" 4 4 false; mkTok 44 "// @lengthOf(" 4 6 true; mkTok 9 "@tag(" 5 0 false; mkTok 30 "10" 5 7 false; mkTok 6 ")" 5 10 false; mkTok 36 "repeat" 6 0 false; mkTok 44 "// c" 6 7 true; mkTok 21 "uint16" 7 0 false; mkTok 42 "charz" 7 7 false; mkTok 43 "`u8 x,`" 8 0 false; mkTok 40 "," 8 8 false; mkTok 44 "// @lengthOf(" 9 0 true; mkTok 44 (string_of_bytes [47; 47; 9; 116]%N) 10 0 true; mkTok 42 "string_" 11 0 false; mkTok 40 "," 11 8 false; mkTok 42 "As" 11 11 false; mkTok 42 "packetx" 11 14 false; mkTok 43 "`doc`" 12 4 false; mkTok 40 "," 12 9 false; mkTok 32 "@leftPad" 13 0 false; mkTok 8 "(" 13 9 false; mkTok 33 "'\x00'" 13 11 false; mkTok 6 ")" 13 18 false; mkTok 42 "roots" 13 20 false; mkTok 42 "u128" 13 26 false; mkTok 40 "," 13 31 false; mkTok 15 "string" 14 4 false; mkTok 42 "string_" 15 0 false; mkTok 40 "," 15 8 false; mkTok 42 "pack" 15 10 false; mkTok 43 "`u8 x,`" 16 0 false; mkTok 40 "," 16 8 false; mkTok 21 "u16" 16 9 false; mkTok 42 "Logon" 16 13 false; mkTok 43 "`say ""hi""`" 16 19 false; mkTok 40 "," 16 30 false; mkTok 14 "zchar[" 17 0 false; mkTok 30 "65535" 17 7 false; mkTok 13 "]" 17 13 false; mkTok 42 "leftPad" 17 14 false; mkTok 40 "," 17 22 false; mkTok 9 "@tag(" 17 23 false; mkTok 30 "0" 17 28 false; mkTok 6 ")" 17 29 false; mkTok 42 "chars" 18 4 false; mkTok 42 "matchKey" 18 10 false; mkTok 40 "," 18 19 false; mkTok 5 "@calculatedFrom(" 18 21 false; mkTok 31 """abc""" 18 37 false; mkTok 6 ")" 18 43 false; mkTok 9 "@tag(" 18 45 false; mkTok 30 "10" 18 51 false; mkTok 6 ")" 18 53 false; mkTok 32 "@rightPad" 18 55 false; mkTok 8 "(" 18 65 false; mkTok 33 "'\x00'" 18 66 false; mkTok 6 ")" 19 0 false; mkTok 42 "u128" 19 2 false; mkTok 44 "//x" 20 4 true; mkTok 40 "," 21 4 false; mkTok 3 "}" 21 6 false; mkTok 35 "packet" 21 8 false; mkTok 42 "options1" 21 15 false; mkTok 2 "{" 21 24 false; mkTok 44 "// `tick` ""quote"" 'q'" 22 0 true; mkTok 44 "// @lengthOf(" 23 0 true; mkTok 5 "@calculatedFrom(" 24 0 false; mkTok 31 """1""" 25 0 false; mkTok 6 ")" 25 4 false; mkTok 42 "metadata" 25 6 false; mkTok 5 "@calculatedFrom(" 25 15 false; mkTok 44 "// a // b" 26 4 true; mkTok 31 """CRC32""" 27 4 false; mkTok 6 ")" 27 12 false; mkTok 43 "`two words`" 27 14 false; mkTok 40 "," 27 26 false; mkTok 36 "repeat" 27 28 false; mkTok 15 "string" 27 35 false; mkTok 42 "matchKey" 27 42 false; mkTok 40 "," 27 51 false; mkTok 42 "body" 27 52 false; mkTok 42 "Logon" 27 57 false; mkTok 43 "``" 27 63 false; mkTok 40 "," 28 0 false; mkTok 7 "@lengthOf(" 29 4 false; mkTok 42 "matchKey" 29 15 false; mkTok 6 ")" 29 24 false; mkTok 16 "char[]" 29 26 false; mkTok 42 "repeatCount" 29 33 false; mkTok 43 "``" 29 44 false; mkTok 40 "," 29 46 false; mkTok 28 "float32" 30 4 false; mkTok 44 "/// triple" 31 0 true; mkTok 44 "//" 32 0 true; mkTok 42 "i8i8" 33 0 false; mkTok 7 "@lengthOf(" 33 4 false; mkTok 42 "metadata" 34 4 false; mkTok 6 ")" 34 14 false; mkTok 40 "," 34 15 false; mkTok 9 "@tag(" 34 16 false; mkTok 30 "4294967296" 34 22 false; mkTok 6 ")" 35 4 false; mkTok 36 "repeat" 35 6 false; mkTok 22 "u32" 35 13 false; mkTok 42 "rootA" 36 0 false; mkTok 43 (string_of_bytes [96; 10; 96]%N) 37 0 false; mkTok 44 (string_of_bytes [47; 47; 32; 230; 179; 168; 233; 135; 138]%N) 39 4 true; mkTok 40 "," 40 4 false; mkTok 3 "}" 40 5 false; mkTok 1 "options" 40 7 false; mkTok 2 "{" 41 4 false; mkTok 3 "}" 41 6 false; mkTok 0 "<EOF>" 42 0 false] (mkPacket (mkPtok 1 "options" 1 2 0) (Some (mkPtok 3 "}" 41 6 121)) [(DOption (mkOptionDef (mkSpan (mkPtok 1 "options" 1 2 0) (mkPtok 3 "}" 3 4 3)) (mkPtok 1 "options" 1 2 0) (mkPtok 2 "{" 2 0 2) [] (mkPtok 3 "}" 3 4 3))); (DMeta (mkMetaDef (mkSpan (mkPtok 37 "MetaData" 3 6 4) (mkPtok 3 "}" 3 26 7)) (mkPtok 37 "MetaData" 3 6 4) (mkPtok 42 "BodyLength" 3 15 5) (mkPtok 2 "{" 3 25 6) [] (mkPtok 3 "}" 3 26 7))); (DPacket (mkPacketDef (mkSpan (mkPtok 35 "packet" 3 28 8) (mkPtok 3 "}" 21 6 70)) None (mkPtok 35 "packet" 3 28 8) (mkPtok 42 "Packet" 3 35 9) (mkPtok 2 "{" 4 4 10) [(mkFieldWithAttr (mkSpan (mkPtok 9 "@tag(" 5 0 12) (mkPtok 40 "," 8 8 20)) [(FATag (mkSpan (mkPtok 9 "@tag(" 5 0 12) (mkPtok 6 ")" 5 10 14)) (mkTagAttr (mkSpan (mkPtok 9 "@tag(" 5 0 12) (mkPtok 6 ")" 5 10 14)) (mkPtok 9 "@tag(" 5 0 12) (mkPtok 30 "10" 5 7 13) (mkPtok 6 ")" 5 10 14)))] (MetaField (mkSpan (mkPtok 36 "repeat" 6 0 15) (mkPtok 40 "," 8 8 20)) (Some (mkPtok 36 "repeat" 6 0 15)) (mkMetaDecl (mkSpan (mkPtok 21 "uint16" 7 0 17) (mkPtok 40 "," 8 8 20)) (TyBasic (mkSpan (mkPtok 21 "uint16" 7 0 17) (mkPtok 21 "uint16" 7 0 17)) (mkBasicType (mkSpan (mkPtok 21 "uint16" 7 0 17) (mkPtok 21 "uint16" 7 0 17)) (mkPtok 21 "uint16" 7 0 17))) (mkPtok 42 "charz" 7 7 18) (Some (mkPtok 43 "`u8 x,`" 8 0 19)) (mkPtok 40 "," 8 8 20)))); (mkFieldWithAttr (mkSpan (mkPtok 42 "string_" 11 0 23) (mkPtok 40 "," 11 8 24)) [] (ObjectField (mkSpan (mkPtok 42 "string_" 11 0 23) (mkPtok 40 "," 11 8 24)) None (mkPtok 42 "string_" 11 0 23) None None (mkPtok 40 "," 11 8 24))); (mkFieldWithAttr (mkSpan (mkPtok 42 "As" 11 11 25) (mkPtok 40 "," 12 9 28)) [] (ObjectField (mkSpan (mkPtok 42 "As" 11 11 25) (mkPtok 40 "," 12 9 28)) None (mkPtok 42 "As" 11 11 25) (Some (mkPtok 42 "packetx" 11 14 26)) (Some (mkPtok 43 "`doc`" 12 4 27)) (mkPtok 40 "," 12 9 28))); (mkFieldWithAttr (mkSpan (mkPtok 32 "@leftPad" 13 0 29) (mkPtok 40 "," 13 31 35)) [(FAPadding (mkSpan (mkPtok 32 "@leftPad" 13 0 29) (mkPtok 6 ")" 13 18 32)) (mkPaddingAttr (mkSpan (mkPtok 32 "@leftPad" 13 0 29) (mkPtok 6 ")" 13 18 32)) (mkPtok 32 "@leftPad" 13 0 29) (mkPtok 8 "(" 13 9 30) (Some (mkPtok 33 "'\x00'" 13 11 31)) (mkPtok 6 ")" 13 18 32)))] (ObjectField (mkSpan (mkPtok 42 "roots" 13 20 33) (mkPtok 40 "," 13 31 35)) None (mkPtok 42 "roots" 13 20 33) (Some (mkPtok 42 "u128" 13 26 34)) None (mkPtok 40 "," 13 31 35))); (mkFieldWithAttr (mkSpan (mkPtok 15 "string" 14 4 36) (mkPtok 40 "," 15 8 38)) [] (MetaField (mkSpan (mkPtok 15 "string" 14 4 36) (mkPtok 40 "," 15 8 38)) None (mkMetaDecl (mkSpan (mkPtok 15 "string" 14 4 36) (mkPtok 40 "," 15 8 38)) (TyDynamic (mkSpan (mkPtok 15 "string" 14 4 36) (mkPtok 15 "string" 14 4 36)) (mkDynamicString (mkSpan (mkPtok 15 "string" 14 4 36) (mkPtok 15 "string" 14 4 36)) (mkPtok 15 "string" 14 4 36))) (mkPtok 42 "string_" 15 0 37) None (mkPtok 40 "," 15 8 38)))); (mkFieldWithAttr (mkSpan (mkPtok 42 "pack" 15 10 39) (mkPtok 40 "," 16 8 41)) [] (ObjectField (mkSpan (mkPtok 42 "pack" 15 10 39) (mkPtok 40 "," 16 8 41)) None (mkPtok 42 "pack" 15 10 39) None (Some (mkPtok 43 "`u8 x,`" 16 0 40)) (mkPtok 40 "," 16 8 41))); (mkFieldWithAttr (mkSpan (mkPtok 21 "u16" 16 9 42) (mkPtok 40 "," 16 30 45)) [] (MetaField (mkSpan (mkPtok 21 "u16" 16 9 42) (mkPtok 40 "," 16 30 45)) None (mkMetaDecl (mkSpan (mkPtok 21 "u16" 16 9 42) (mkPtok 40 "," 16 30 45)) (TyBasic (mkSpan (mkPtok 21 "u16" 16 9 42) (mkPtok 21 "u16" 16 9 42)) (mkBasicType (mkSpan (mkPtok 21 "u16" 16 9 42) (mkPtok 21 "u16" 16 9 42)) (mkPtok 21 "u16" 16 9 42))) (mkPtok 42 "Logon" 16 13 43) (Some (mkPtok 43 "`say ""hi""`" 16 19 44)) (mkPtok 40 "," 16 30 45)))); (mkFieldWithAttr (mkSpan (mkPtok 14 "zchar[" 17 0 46) (mkPtok 40 "," 17 22 50)) [] (MetaField (mkSpan (mkPtok 14 "zchar[" 17 0 46) (mkPtok 40 "," 17 22 50)) None (mkMetaDecl (mkSpan (mkPtok 14 "zchar[" 17 0 46) (mkPtok 40 "," 17 22 50)) (TyFixed (mkSpan (mkPtok 14 "zchar[" 17 0 46) (mkPtok 13 "]" 17 13 48)) (mkFixedString (mkSpan (mkPtok 14 "zchar[" 17 0 46) (mkPtok 13 "]" 17 13 48)) (mkPtok 14 "zchar[" 17 0 46) (mkPtok 30 "65535" 17 7 47) (mkPtok 13 "]" 17 13 48))) (mkPtok 42 "leftPad" 17 14 49) None (mkPtok 40 "," 17 22 50)))); (mkFieldWithAttr (mkSpan (mkPtok 9 "@tag(" 17 23 51) (mkPtok 40 "," 18 19 56)) [(FATag (mkSpan (mkPtok 9 "@tag(" 17 23 51) (mkPtok 6 ")" 17 29 53)) (mkTagAttr (mkSpan (mkPtok 9 "@tag(" 17 23 51) (mkPtok 6 ")" 17 29 53)) (mkPtok 9 "@tag(" 17 23 51) (mkPtok 30 "0" 17 28 52) (mkPtok 6 ")" 17 29 53)))] (ObjectField (mkSpan (mkPtok 42 "chars" 18 4 54) (mkPtok 40 "," 18 19 56)) None (mkPtok 42 "chars" 18 4 54) (Some (mkPtok 42 "matchKey" 18 10 55)) None (mkPtok 40 "," 18 19 56))); (mkFieldWithAttr (mkSpan (mkPtok 5 "@calculatedFrom(" 18 21 57) (mkPtok 40 "," 21 4 69)) [(FACalculatedFrom (mkSpan (mkPtok 5 "@calculatedFrom(" 18 21 57) (mkPtok 6 ")" 18 43 59)) (mkCalculatedFrom (mkSpan (mkPtok 5 "@calculatedFrom(" 18 21 57) (mkPtok 6 ")" 18 43 59)) (mkPtok 5 "@calculatedFrom(" 18 21 57) (mkPtok 31 """abc""" 18 37 58) (mkPtok 6 ")" 18 43 59))); (FATag (mkSpan (mkPtok 9 "@tag(" 18 45 60) (mkPtok 6 ")" 18 53 62)) (mkTagAttr (mkSpan (mkPtok 9 "@tag(" 18 45 60) (mkPtok 6 ")" 18 53 62)) (mkPtok 9 "@tag(" 18 45 60) (mkPtok 30 "10" 18 51 61) (mkPtok 6 ")" 18 53 62))); (FAPadding (mkSpan (mkPtok 32 "@rightPad" 18 55 63) (mkPtok 6 ")" 19 0 66)) (mkPaddingAttr (mkSpan (mkPtok 32 "@rightPad" 18 55 63) (mkPtok 6 ")" 19 0 66)) (mkPtok 32 "@rightPad" 18 55 63) (mkPtok 8 "(" 18 65 64) (Some (mkPtok 33 "'\x00'" 18 66 65)) (mkPtok 6 ")" 19 0 66)))] (ObjectField (mkSpan (mkPtok 42 "u128" 19 2 67) (mkPtok 40 "," 21 4 69)) None (mkPtok 42 "u128" 19 2 67) None None (mkPtok 40 "," 21 4 69)))] (mkPtok 3 "}" 21 6 70))); (DPacket (mkPacketDef (mkSpan (mkPtok 35 "packet" 21 8 71) (mkPtok 3 "}" 40 5 118)) None (mkPtok 35 "packet" 21 8 71) (mkPtok 42 "options1" 21 15 72) (mkPtok 2 "{" 21 24 73) [(mkFieldWithAttr (mkSpan (mkPtok 5 "@calculatedFrom(" 24 0 76) (mkPtok 40 "," 27 26 85)) [(FACalculatedFrom (mkSpan (mkPtok 5 "@calculatedFrom(" 24 0 76) (mkPtok 6 ")" 25 4 78)) (mkCalculatedFrom (mkSpan (mkPtok 5 "@calculatedFrom(" 24 0 76) (mkPtok 6 ")" 25 4 78)) (mkPtok 5 "@calculatedFrom(" 24 0 76) (mkPtok 31 """1""" 25 0 77) (mkPtok 6 ")" 25 4 78)))] (CheckSumField (mkSpan (mkPtok 42 "metadata" 25 6 79) (mkPtok 40 "," 27 26 85)) (mkChecksumFieldDecl (mkSpan (mkPtok 42 "metadata" 25 6 79) (mkPtok 40 "," 27 26 85)) None (mkPtok 42 "metadata" 25 6 79) (mkCalculatedFrom (mkSpan (mkPtok 5 "@calculatedFrom(" 25 15 80) (mkPtok 6 ")" 27 12 83)) (mkPtok 5 "@calculatedFrom(" 25 15 80) (mkPtok 31 """CRC32""" 27 4 82) (mkPtok 6 ")" 27 12 83)) (Some (mkPtok 43 "`two words`" 27 14 84)) (mkPtok 40 "," 27 26 85)))); (mkFieldWithAttr (mkSpan (mkPtok 36 "repeat" 27 28 86) (mkPtok 40 "," 27 51 89)) [] (MetaField (mkSpan (mkPtok 36 "repeat" 27 28 86) (mkPtok 40 "," 27 51 89)) (Some (mkPtok 36 "repeat" 27 28 86)) (mkMetaDecl (mkSpan (mkPtok 15 "string" 27 35 87) (mkPtok 40 "," 27 51 89)) (TyDynamic (mkSpan (mkPtok 15 "string" 27 35 87) (mkPtok 15 "string" 27 35 87)) (mkDynamicString (mkSpan (mkPtok 15 "string" 27 35 87) (mkPtok 15 "string" 27 35 87)) (mkPtok 15 "string" 27 35 87))) (mkPtok 42 "matchKey" 27 42 88) None (mkPtok 40 "," 27 51 89)))); (mkFieldWithAttr (mkSpan (mkPtok 42 "body" 27 52 90) (mkPtok 40 "," 28 0 93)) [] (ObjectField (mkSpan (mkPtok 42 "body" 27 52 90) (mkPtok 40 "," 28 0 93)) None (mkPtok 42 "body" 27 52 90) (Some (mkPtok 42 "Logon" 27 57 91)) (Some (mkPtok 43 "``" 27 63 92)) (mkPtok 40 "," 28 0 93))); (mkFieldWithAttr (mkSpan (mkPtok 7 "@lengthOf(" 29 4 94) (mkPtok 40 "," 29 46 100)) [(FALengthOf (mkSpan (mkPtok 7 "@lengthOf(" 29 4 94) (mkPtok 6 ")" 29 24 96)) (mkLengthOf (mkSpan (mkPtok 7 "@lengthOf(" 29 4 94) (mkPtok 6 ")" 29 24 96)) (mkPtok 7 "@lengthOf(" 29 4 94) (mkPtok 42 "matchKey" 29 15 95) (mkPtok 6 ")" 29 24 96)))] (MetaField (mkSpan (mkPtok 16 "char[]" 29 26 97) (mkPtok 40 "," 29 46 100)) None (mkMetaDecl (mkSpan (mkPtok 16 "char[]" 29 26 97) (mkPtok 40 "," 29 46 100)) (TyDynamic (mkSpan (mkPtok 16 "char[]" 29 26 97) (mkPtok 16 "char[]" 29 26 97)) (mkDynamicString (mkSpan (mkPtok 16 "char[]" 29 26 97) (mkPtok 16 "char[]" 29 26 97)) (mkPtok 16 "char[]" 29 26 97))) (mkPtok 42 "repeatCount" 29 33 98) (Some (mkPtok 43 "``" 29 44 99)) (mkPtok 40 "," 29 46 100)))); (mkFieldWithAttr (mkSpan (mkPtok 28 "float32" 30 4 101) (mkPtok 40 "," 34 15 108)) [] (LengthField (mkSpan (mkPtok 28 "float32" 30 4 101) (mkPtok 40 "," 34 15 108)) (mkLengthFieldDecl (mkSpan (mkPtok 28 "float32" 30 4 101) (mkPtok 40 "," 34 15 108)) (Some (TyBasic (mkSpan (mkPtok 28 "float32" 30 4 101) (mkPtok 28 "float32" 30 4 101)) (mkBasicType (mkSpan (mkPtok 28 "float32" 30 4 101) (mkPtok 28 "float32" 30 4 101)) (mkPtok 28 "float32" 30 4 101)))) (mkPtok 42 "i8i8" 33 0 104) (mkLengthOf (mkSpan (mkPtok 7 "@lengthOf(" 33 4 105) (mkPtok 6 ")" 34 14 107)) (mkPtok 7 "@lengthOf(" 33 4 105) (mkPtok 42 "metadata" 34 4 106) (mkPtok 6 ")" 34 14 107)) None (mkPtok 40 "," 34 15 108)))); (mkFieldWithAttr (mkSpan (mkPtok 9 "@tag(" 34 16 109) (mkPtok 40 "," 40 4 117)) [(FATag (mkSpan (mkPtok 9 "@tag(" 34 16 109) (mkPtok 6 ")" 35 4 111)) (mkTagAttr (mkSpan (mkPtok 9 "@tag(" 34 16 109) (mkPtok 6 ")" 35 4 111)) (mkPtok 9 "@tag(" 34 16 109) (mkPtok 30 "4294967296" 34 22 110) (mkPtok 6 ")" 35 4 111)))] (MetaField (mkSpan (mkPtok 36 "repeat" 35 6 112) (mkPtok 40 "," 40 4 117)) (Some (mkPtok 36 "repeat" 35 6 112)) (mkMetaDecl (mkSpan (mkPtok 22 "u32" 35 13 113) (mkPtok 40 "," 40 4 117)) (TyBasic (mkSpan (mkPtok 22 "u32" 35 13 113) (mkPtok 22 "u32" 35 13 113)) (mkBasicType (mkSpan (mkPtok 22 "u32" 35 13 113) (mkPtok 22 "u32" 35 13 113)) (mkPtok 22 "u32" 35 13 113))) (mkPtok 42 "rootA" 36 0 114) (Some (mkPtok 43 (string_of_bytes [96; 10; 96]%N) 37 0 115)) (mkPtok 40 "," 40 4 117))))] (mkPtok 3 "}" 40 5 118))); (DOption (mkOptionDef (mkSpan (mkPtok 1 "options" 40 7 119) (mkPtok 3 "}" 41 6 121)) (mkPtok 1 "options" 40 7 119) (mkPtok 2 "{" 41 4 120) [] (mkPtok 3 "}" 41 6 121)))])).
Eval vm_compute in ("<<<M1711>>>" ++ check (runes_of_ascii "options{ // 50% %s
Foo = 3 x =
    4294967296
leftPad  = false ; _x
    = 0123456789 ; }packet a1
//	t
// " ++ [128512]%N ++ runes_of_ascii " emoji
{ } packet
u8x
    { int32 asx @calculatedFrom(
    ""packet"" ) `it's` , }
")).
Eval vm_compute in ("<<<M1743>>>" ++ check (runes_of_ascii "
options{ u8x =""abc"" // a // b
;body= float64 ;
    Foo=
    ""a	b"" ;
    u8x= '\x00' ; // c
x_y_z = zchar[ 65535 ] }
")).
Eval vm_compute in ("<<<M1775>>>" ++ check (runes_of_ascii "root packet trueish
{match
u128
as charz
{[ 1 // " ++ [128512]%N ++ runes_of_ascii " emoji
, ""a\\""] : rootA ,
},	@leftPad
( '\x00')
u `{ , }` ,
} packet stringy
    { // 50% %s
}packet i64_
{ zchar@calculatedFrom(	""" ++ [28040; 24687]%N ++ runes_of_ascii """
/// triple
// " ++ [27880; 37322]%N ++ runes_of_ascii "
) `100% of %d` , repeat i64_ metadata , float{ u16 len `" ++ [28040; 24687; 31867; 22411]%N ++ runes_of_ascii "`
,string // " ++ [128512]%N ++ runes_of_ascii " emoji
T
    , repeat zchar[4294967296 ]  calculatedFrom , stringy, } ,  @lengthOf(
    i64_ ) @rightPad ( )
    repeat
zchar[ 65535 ] Packet	`say ""hi""` , i8i8  `100% of %d`
    ,
    match u128
as stringy {""a\""b"" : Logon , } // packet A { u8 x, }
, i64 msg_type	,
    match matchKey  as T  { 007 :
    MetaDataX , [	""1""
//
// @lengthOf(
] :uint8x ,
[
    // " ++ [128512]%N ++ runes_of_ascii " emoji
    0
    ] : As , }
,	repeat
matchKey
{ repeat char[ 4294967296
]// trailing space 
o	`tab	here`
/// triple
/// triple
,}, u128 // " ++ [128512]%N ++ runes_of_ascii " emoji
@calculatedFrom( ""\n""  ) , }
    packet _x { // 50% %s
T`" ++ [28040; 24687; 31867; 22411]%N ++ runes_of_ascii "` ,float ,
@lengthOf( tag )
// c
//x
@lengthOf(Header  )
@calculatedFrom(
""" ++ [128512]%N ++ runes_of_ascii """
) uint16 x_y_z@lengthOf( u128 ),
/// triple
// trailing space 
i8
    tag ,}
")).
Eval vm_compute in ("<<<M1807>>>" ++ check (runes_of_ascii "
")).
Eval vm_compute in ("<<<M1839>>>" ++ check (runes_of_ascii "MetaData	len{ // " ++ [27880; 37322]%N ++ runes_of_ascii "
} options { len = true // packet A { u8 x, }
;
    Header = int8 ; uint8x
=f64 ;rootA
    =""" ++ [233]%N ++ runes_of_ascii "t" ++ [233]%N ++ runes_of_ascii """; }
    // `tick` ""quote"" 'q'
    packet u8x {// trailing space 
@lengthOf(repeatCount)
    repeat  pack , repeat trueish T , }")).
Eval vm_compute in ("<<<M1871>>>" ++ check (runes_of_ascii "  packet u128  { }
")).
Eval vm_compute in ("<<<M1903>>>" ++ check (runes_of_ascii "packet lengthOf
{
@calculatedFrom(""a\\""
    )
@calculatedFrom( ""\n""
//	t
// @lengthOf(
)
    @lengthOf( roots) int32
    u8x , char[ 0123456789
]calculatedFrom `it's`	,
} options { uint8x = """ ++ [128512]%N ++ runes_of_ascii """ ; body//x
=
""packet"" ;}options
{ u
= 7 T = ""1"" Pad =1}
    options
{
Packet ='\x00' ; calculatedFrom = /// triple
'0' }")).
Eval vm_compute in ("<<<T1903>>>" ++ terms [mkTok 35 "packet" 1 0 false; mkTok 42 "lengthOf" 1 7 false; mkTok 2 "{" 2 0 false; mkTok 5 "@calculatedFrom(" 3 0 false; mkTok 31 """a\\""" 3 16 false; mkTok 6 ")" 4 4 false; mkTok 5 "@calculatedFrom(" 5 0 false; mkTok 31 """\n""" 5 17 false; mkTok 44 (string_of_bytes [47; 47; 9; 116]%N) 6 0 true; mkTok 44 "// @lengthOf(" 7 0 true; mkTok 6 ")" 8 0 false; mkTok 7 "@lengthOf(" 9 4 false; mkTok 42 "roots" 9 15 false; mkTok 6 ")" 9 20 false; mkTok 26 "int32" 9 22 false; mkTok 42 "u8x" 10 4 false; mkTok 40 "," 10 8 false; mkTok 12 "char[" 10 10 false; mkTok 30 "0123456789" 10 16 false; mkTok 13 "]" 11 0 false; mkTok 42 "calculatedFrom" 11 1 false; mkTok 43 "`it's`" 11 16 false; mkTok 40 "," 11 23 false; mkTok 3 "}" 12 0 false; mkTok 1 "options" 12 2 false; mkTok 2 "{" 12 10 false; mkTok 42 "uint8x" 12 12 false; mkTok 4 "=" 12 19 false; mkTok 31 (string_of_bytes [34; 240; 159; 152; 128; 34]%N) 12 21 false; mkTok 41 ";" 12 25 false; mkTok 42 "body" 12 27 false; mkTok 44 "//x" 12 31 true; mkTok 4 "=" 13 0 false; mkTok 31 """packet""" 14 0 false; mkTok 41 ";" 14 9 false; mkTok 3 "}" 14 10 false; mkTok 1 "options" 14 11 false; mkTok 2 "{" 15 0 false; mkTok 42 "u" 15 2 false; mkTok 4 "=" 16 0 false; mkTok 30 "7" 16 2 false; mkTok 42 "T" 16 4 false; mkTok 4 "=" 16 6 false; mkTok 31 """1""" 16 8 false; mkTok 42 "Pad" 16 12 false; mkTok 4 "=" 16 16 false; mkTok 30 "1" 16 17 false; mkTok 3 "}" 16 18 false; mkTok 1 "options" 17 4 false; mkTok 2 "{" 18 0 false; mkTok 42 "Packet" 19 0 false; mkTok 4 "=" 19 7 false; mkTok 33 "'\x00'" 19 8 false; mkTok 41 ";" 19 15 false; mkTok 42 "calculatedFrom" 19 17 false; mkTok 4 "=" 19 32 false; mkTok 44 "/// triple" 19 34 true; mkTok 33 "'0'" 20 0 false; mkTok 3 "}" 20 4 false; mkTok 0 "<EOF>" 20 5 false] (mkPacket (mkPtok 35 "packet" 1 0 0) (Some (mkPtok 3 "}" 20 4 58)) [(DPacket (mkPacketDef (mkSpan (mkPtok 35 "packet" 1 0 0) (mkPtok 3 "}" 12 0 23)) None (mkPtok 35 "packet" 1 0 0) (mkPtok 42 "lengthOf" 1 7 1) (mkPtok 2 "{" 2 0 2) [(mkFieldWithAttr (mkSpan (mkPtok 5 "@calculatedFrom(" 3 0 3) (mkPtok 40 "," 10 8 16)) [(FACalculatedFrom (mkSpan (mkPtok 5 "@calculatedFrom(" 3 0 3) (mkPtok 6 ")" 4 4 5)) (mkCalculatedFrom (mkSpan (mkPtok 5 "@calculatedFrom(" 3 0 3) (mkPtok 6 ")" 4 4 5)) (mkPtok 5 "@calculatedFrom(" 3 0 3) (mkPtok 31 """a\\""" 3 16 4) (mkPtok 6 ")" 4 4 5))); (FACalculatedFrom (mkSpan (mkPtok 5 "@calculatedFrom(" 5 0 6) (mkPtok 6 ")" 8 0 10)) (mkCalculatedFrom (mkSpan (mkPtok 5 "@calculatedFrom(" 5 0 6) (mkPtok 6 ")" 8 0 10)) (mkPtok 5 "@calculatedFrom(" 5 0 6) (mkPtok 31 """\n""" 5 17 7) (mkPtok 6 ")" 8 0 10))); (FALengthOf (mkSpan (mkPtok 7 "@lengthOf(" 9 4 11) (mkPtok 6 ")" 9 20 13)) (mkLengthOf (mkSpan (mkPtok 7 "@lengthOf(" 9 4 11) (mkPtok 6 ")" 9 20 13)) (mkPtok 7 "@lengthOf(" 9 4 11) (mkPtok 42 "roots" 9 15 12) (mkPtok 6 ")" 9 20 13)))] (MetaField (mkSpan (mkPtok 26 "int32" 9 22 14) (mkPtok 40 "," 10 8 16)) None (mkMetaDecl (mkSpan (mkPtok 26 "int32" 9 22 14) (mkPtok 40 "," 10 8 16)) (TyBasic (mkSpan (mkPtok 26 "int32" 9 22 14) (mkPtok 26 "int32" 9 22 14)) (mkBasicType (mkSpan (mkPtok 26 "int32" 9 22 14) (mkPtok 26 "int32" 9 22 14)) (mkPtok 26 "int32" 9 22 14))) (mkPtok 42 "u8x" 10 4 15) None (mkPtok 40 "," 10 8 16)))); (mkFieldWithAttr (mkSpan (mkPtok 12 "char[" 10 10 17) (mkPtok 40 "," 11 23 22)) [] (MetaField (mkSpan (mkPtok 12 "char[" 10 10 17) (mkPtok 40 "," 11 23 22)) None (mkMetaDecl (mkSpan (mkPtok 12 "char[" 10 10 17) (mkPtok 40 "," 11 23 22)) (TyFixed (mkSpan (mkPtok 12 "char[" 10 10 17) (mkPtok 13 "]" 11 0 19)) (mkFixedString (mkSpan (mkPtok 12 "char[" 10 10 17) (mkPtok 13 "]" 11 0 19)) (mkPtok 12 "char[" 10 10 17) (mkPtok 30 "0123456789" 10 16 18) (mkPtok 13 "]" 11 0 19))) (mkPtok 42 "calculatedFrom" 11 1 20) (Some (mkPtok 43 "`it's`" 11 16 21)) (mkPtok 40 "," 11 23 22))))] (mkPtok 3 "}" 12 0 23))); (DOption (mkOptionDef (mkSpan (mkPtok 1 "options" 12 2 24) (mkPtok 3 "}" 14 10 35)) (mkPtok 1 "options" 12 2 24) (mkPtok 2 "{" 12 10 25) [(mkOptionDecl (mkSpan (mkPtok 42 "uint8x" 12 12 26) (mkPtok 41 ";" 12 25 29)) (mkPtok 42 "uint8x" 12 12 26) (mkPtok 4 "=" 12 19 27) (VString (mkSpan (mkPtok 31 (string_of_bytes [34; 240; 159; 152; 128; 34]%N) 12 21 28) (mkPtok 31 (string_of_bytes [34; 240; 159; 152; 128; 34]%N) 12 21 28)) (mkPtok 31 (string_of_bytes [34; 240; 159; 152; 128; 34]%N) 12 21 28)) (Some (mkPtok 41 ";" 12 25 29))); (mkOptionDecl (mkSpan (mkPtok 42 "body" 12 27 30) (mkPtok 41 ";" 14 9 34)) (mkPtok 42 "body" 12 27 30) (mkPtok 4 "=" 13 0 32) (VString (mkSpan (mkPtok 31 """packet""" 14 0 33) (mkPtok 31 """packet""" 14 0 33)) (mkPtok 31 """packet""" 14 0 33)) (Some (mkPtok 41 ";" 14 9 34)))] (mkPtok 3 "}" 14 10 35))); (DOption (mkOptionDef (mkSpan (mkPtok 1 "options" 14 11 36) (mkPtok 3 "}" 16 18 47)) (mkPtok 1 "options" 14 11 36) (mkPtok 2 "{" 15 0 37) [(mkOptionDecl (mkSpan (mkPtok 42 "u" 15 2 38) (mkPtok 30 "7" 16 2 40)) (mkPtok 42 "u" 15 2 38) (mkPtok 4 "=" 16 0 39) (VDigits (mkSpan (mkPtok 30 "7" 16 2 40) (mkPtok 30 "7" 16 2 40)) (mkPtok 30 "7" 16 2 40)) None); (mkOptionDecl (mkSpan (mkPtok 42 "T" 16 4 41) (mkPtok 31 """1""" 16 8 43)) (mkPtok 42 "T" 16 4 41) (mkPtok 4 "=" 16 6 42) (VString (mkSpan (mkPtok 31 """1""" 16 8 43) (mkPtok 31 """1""" 16 8 43)) (mkPtok 31 """1""" 16 8 43)) None); (mkOptionDecl (mkSpan (mkPtok 42 "Pad" 16 12 44) (mkPtok 30 "1" 16 17 46)) (mkPtok 42 "Pad" 16 12 44) (mkPtok 4 "=" 16 16 45) (VDigits (mkSpan (mkPtok 30 "1" 16 17 46) (mkPtok 30 "1" 16 17 46)) (mkPtok 30 "1" 16 17 46)) None)] (mkPtok 3 "}" 16 18 47))); (DOption (mkOptionDef (mkSpan (mkPtok 1 "options" 17 4 48) (mkPtok 3 "}" 20 4 58)) (mkPtok 1 "options" 17 4 48) (mkPtok 2 "{" 18 0 49) [(mkOptionDecl (mkSpan (mkPtok 42 "Packet" 19 0 50) (mkPtok 41 ";" 19 15 53)) (mkPtok 42 "Packet" 19 0 50) (mkPtok 4 "=" 19 7 51) (VPaddingChar (mkSpan (mkPtok 33 "'\x00'" 19 8 52) (mkPtok 33 "'\x00'" 19 8 52)) (mkPtok 33 "'\x00'" 19 8 52)) (Some (mkPtok 41 ";" 19 15 53))); (mkOptionDecl (mkSpan (mkPtok 42 "calculatedFrom" 19 17 54) (mkPtok 33 "'0'" 20 0 57)) (mkPtok 42 "calculatedFrom" 19 17 54) (mkPtok 4 "=" 19 32 55) (VPaddingChar (mkSpan (mkPtok 33 "'0'" 20 0 57) (mkPtok 33 "'0'" 20 0 57)) (mkPtok 33 "'0'" 20 0 57)) None)] (mkPtok 3 "}" 20 4 58)))])).
Eval vm_compute in ("<<<M1935>>>" ++ check (runes_of_ascii "packet  asx {string
pack
,  @calculatedFrom(
    ""1"" ) repeat string  falsey
`// not a comment`
, @tag( 42)char[ 255 ] body, }
    // 50% %s
    MetaData crc
{
i32 // trailing space 
roots , char[255
]  x
, i64_
    // trailing space 
    crc	`line1
line2`, char[] float,
f64 i8i8	,}
//	t
")).
Eval vm_compute in ("<<<M1967>>>" ++ check (runes_of_ascii "packet Foo{ @rightPad ( '0' ) crc
    `crlf
line`
    ,
repeat string matchKey `u8 x,`  , stringy
    @lengthOf( MetaDataX ) /// triple
`{ , }`// trailing space 
, int32 // packet A { u8 x, }
_x @lengthOf(	int
    ) , } MetaData roots{pack len
    // " ++ [128512]%N ++ runes_of_ascii " emoji
    , int
    BodyLength	`{ , }`
, rootA// c
trueish , lengthOf
uint8x ,
    u8 trueish`u8 x,` , string
    falsey
`100% of %d`,} packet string_ { @lengthOf( pack ) int options1 `" ++ [28040; 24687; 31867; 22411]%N ++ runes_of_ascii "`
, zchar[ 10] // @lengthOf(
charz `crlf
line`,
    }
options { Pad=
    7 }")).
Eval vm_compute in ("<<<M1999>>>" ++ check (runes_of_ascii "
root packet packetx
{
    match int as
    T{ [42 ]
: tag/// triple
, //x
""`tick`"" : BodyLength, [
    // `tick` ""quote"" 'q'
    ""x y"", 00]: // trailing space 
zchar ""CRC32""
: len ,""" ++ [128512]%N ++ runes_of_ascii """	:
    lengthOf , }	, stringy
@calculatedFrom( ""a\\""
) `crlf
line`
    ,
@tag(
// trailing space 
//
007 ) u32 u8x @calculatedFrom( ""it's"" // c
)`tab	here` , @rightPad ( ' ' )  zchar[ 10 ] zchar @lengthOf( string_ ) //x
`it's` //
,
@lengthOf(
_x)
leftPad, Pad
o
,f32a{ repeat int {u64 BodyLength // " ++ [27880; 37322]%N ++ runes_of_ascii "
`100% of %d`
,char[ 10]stringy, f64 matchKey ,	} // c
, }, repeat zchar[ 10 ]
    u128
`tab	here`
, @rightPad (	'\x00') Z9_, @lengthOf(o)	Z9_
`100% of %d` /// triple
, }
MetaData BodyLength {u128
rootA	,
} 	 ")).
Eval vm_compute in ("<<<M2031>>>" ++ check (runes_of_ascii "MetaData repeatCount { float64 ,packetx
} root packet  metadata {
char _x @lengthOf( trueish ), @leftPad
( ' '// " ++ [27880; 37322]%N ++ runes_of_ascii "
)/// triple
char[] len`doc` , // packet A { u8 x, }
repeatCount , }
")).
Eval vm_compute in ("<<<M2063>>>" ++ check (runes_of_ascii "MetaData repeatCount { float64 packetx,
} root packet  metadata")).
Eval vm_compute in ("<<<M2095>>>" ++ check (runes_of_ascii "MetaData repeatCount { float64 packetx,
} root packet  metadata {
char _x @lengthOf( trueish ), @leftPad @leftPad
( ' '// " ++ [27880; 37322]%N ++ runes_of_ascii "
)/// triple
char[] len`doc` , // packet A { u8 x, }
repeatCount , }
")).
Eval vm_compute in ("<<<M2127>>>" ++ check (runes_of_ascii "MetaData repeatCount { float64 packetx,
} root packet  metadata {
char _x @lengthOf( trueish ), @leftPad
( ' '// " ++ [27880; 37322]%N ++ runes_of_ascii "
)/// triple
char[] len@leftPad , // packet A { u8 x, }
repeatCount , }
")).
Eval vm_compute in ("<<<M2159>>>" ++ check (runes_of_ascii "MetaData repeatCount " ++ [65279]%N ++ runes_of_ascii " { float64 packetx,
} root packet  metadata {
char _x @lengthOf( trueish ), @leftPad
( ' '// " ++ [27880; 37322]%N ++ runes_of_ascii "
)/// triple
char[] len`doc` , // packet A { u8 x, }
repeatCount , }
")).
Eval vm_compute in ("<<<M2191>>>" ++ check (runes_of_ascii "options{
leftPad
    =65535 65535
;
a1 = true ; packetx=  '\x00' ; packetx
=  """ ++ [28040; 24687]%N ++ runes_of_ascii """MetaDataX= // " ++ [27880; 37322]%N ++ runes_of_ascii "
false }root // c
packet // packet A { u8 x, }
Pad { repeat
u8 Header
// packet A { u8 x, }
//	t
`{ , }`
// a // b
//x
, }
")).
Eval vm_compute in ("<<<M2223>>>" ++ check (runes_of_ascii "options{
leftPad
    =65535
;
a1 = true ; options=  '\x00' ; packetx
=  """ ++ [28040; 24687]%N ++ runes_of_ascii """MetaDataX= // " ++ [27880; 37322]%N ++ runes_of_ascii "
false }root // c
packet // packet A { u8 x, }
Pad { repeat
u8 Header
// packet A { u8 x, }
//	t
`{ , }`
// a // b
//x
, }
")).
Eval vm_compute in ("<<<M2255>>>" ++ check (runes_of_ascii "options{
leftPad
    =65535
;
a1 = true ; packetx=  '\x00' ; packetx
=  """ ++ [28040; 24687]%N ++ runes_of_ascii """= // " ++ [27880; 37322]%N ++ runes_of_ascii "
false }root // c
packet // packet A { u8 x, }
Pad { repeat
u8 Header
// packet A { u8 x, }
//	t
`{ , }`
// a // b
//x
, }
")).
Eval vm_compute in ("<<<M2287>>>" ++ check (runes_of_ascii "options{
leftPad
    =65535
;
a1 = true ; packetx=  '\x00' ; packetx
=  """ ++ [28040; 24687]%N ++ runes_of_ascii """MetaDataX= // " ++ [27880; 37322]%N ++ runes_of_ascii "
false }root // c
packet // packet A { u8 x, }
{ Pad repeat
u8 Header
// packet A { u8 x, }
//	t
`{ , }`
// a // b
//x
, }
")).
Eval vm_compute in ("<<<M2319>>>" ++ check (runes_of_ascii "options{
leftPad
    =65535
;
a1 = true ; packetx=  '\x00' ; packetx
=  """ ++ [28040; 24687]%N ++ runes_of_ascii """MetaDataX= // " ++ [27880; 37322]%N ++ runes_of_ascii "
false }root // c
packet // packet A { u8 x, }
Pad { repeat
u8 Header
// packet A { u8 x, }
//	t
`{ , }`")).
Eval vm_compute in ("<<<M2351>>>" ++ check (runes_of_ascii "
packet 
{	@calculatedFrom( """ ++ [233]%N ++ runes_of_ascii "t" ++ [233]%N ++ runes_of_ascii """ )
@rightPad ( '\x00' )
    @calculatedFrom( ""x y"" ) string chars  ,
    // a // b
    char[0 ]
    u	@lengthOf( i8i8 ) `{ , }` ,repeat char[] o //x
`// not a comment`, } // c")).
Eval vm_compute in ("<<<M2383>>>" ++ check (runes_of_ascii "
packet float
{	@calculatedFrom( """ ++ [233]%N ++ runes_of_ascii "t" ++ [233]%N ++ runes_of_ascii """ )
@rightPad '\x00' ( )
    @calculatedFrom( ""x y"" ) string chars  ,
    // a // b
    char[0 ]
    u	@lengthOf( i8i8 ) `{ , }` ,repeat char[] o //x
`// not a comment`, } // c")).
Eval vm_compute in ("<<<M2415>>>" ++ check (runes_of_ascii "
packet float
{	@calculatedFrom( """ ++ [233]%N ++ runes_of_ascii "t" ++ [233]%N ++ runes_of_ascii """ )
@rightPad ( '\x00' )
    @calculatedFrom( ""x y"" )")).
Eval vm_compute in ("<<<M2447>>>" ++ check (runes_of_ascii "
packet float
{	@calculatedFrom( """ ++ [233]%N ++ runes_of_ascii "t" ++ [233]%N ++ runes_of_ascii """ )
@rightPad ( '\x00' )
    @calculatedFrom( ""x y"" ) string chars  ,
    // a // b
    char[0 ]
    u	@lengthOf( @lengthOf( i8i8 ) `{ , }` ,repeat char[] o //x
`// not a comment`, } // c")).
Eval vm_compute in ("<<<M2479>>>" ++ check (runes_of_ascii "
packet float
{	@calculatedFrom( """ ++ [233]%N ++ runes_of_ascii "t" ++ [233]%N ++ runes_of_ascii """ )
@rightPad ( '\x00' )
    @calculatedFrom( ""x y"" ) string chars  ,
    // a // b
    char[0 ]
    u	@lengthOf( i8i8 ) `{ , }` ,repeat @rightPad o //x
`// not a comment`, } // c")).
Eval vm_compute in ("<<<M2511>>>" ++ check (runes_of_ascii "
@leftpad packet float
{	@calculatedFrom( """ ++ [233]%N ++ runes_of_ascii "t" ++ [233]%N ++ runes_of_ascii """ )
@rightPad ( '\x00' )
    @calculatedFrom( ""x y"" ) string chars  ,
    // a // b
    char[0 ]
    u	@lengthOf( i8i8 ) `{ , }` ,repeat char[] o //x
`// not a comment`, } // c")).
Eval vm_compute in ("<<<M2543>>>" ++ check (runes_of_ascii "root packet u128{
    repeat repeat
    zchar[ 65535 ] u `" ++ [28040; 24687; 31867; 22411]%N ++ runes_of_ascii "` ,// `tick` ""quote"" 'q'
} packet i64_ {repeatCount
    `
` ,	} // " ++ [128512]%N ++ runes_of_ascii " emoji")).
Eval vm_compute in ("<<<M2575>>>" ++ check (runes_of_ascii "root packet u128{
    repeat
    zchar[ 65535 ] u `" ++ [28040; 24687; 31867; 22411]%N ++ runes_of_ascii "` ;// `tick` ""quote"" 'q'
} packet i64_ {repeatCount
    `
` ,	} // " ++ [128512]%N ++ runes_of_ascii " emoji")).
Eval vm_compute in ("<<<M2607>>>" ++ check (runes_of_ascii "root packet u128{
    repeat
    zchar[ 65535 ] u `" ++ [28040; 24687; 31867; 22411]%N ++ runes_of_ascii "` ,// `tick` ""quote"" 'q'
} packet i64_ {repeatCount
    `
` 	} // " ++ [128512]%N ++ runes_of_ascii " emoji")).
Eval vm_compute in ("<<<M2639>>>" ++ check (runes_of_ascii "
MetaData MetaData
roots { int8
    BodyLength ,//	t
}
")).
Eval vm_compute in ("<<<M2671>>>" ++ check (runes_of_ascii "
MetaData
roots { int8
    BodyLength ,")).
Eval vm_compute in ("<<<M2703>>>" ++ check (runes_of_ascii "options")).
Eval vm_compute in ("<<<M2735>>>" ++ check (runes_of_ascii "options {Packet = ""CRC32""i8i8 = false; ; leftPad =
    '\x00'
    // `tick` ""quote"" 'q'
    ; o=255  ;
    // packet A { u8 x, }
    }")).
Eval vm_compute in ("<<<M2767>>>" ++ check (runes_of_ascii "options {Packet = ""CRC32""i8i8 = false; leftPad =
    '\x00'
    // `tick` ""quote"" 'q'
    ; o uint8 255  ;
    // packet A { u8 x, }
    }")).
Eval vm_compute in ("<<<M2799>>>" ++ check (runes_of_ascii "options {Packet = ""CRC32""i8i8 = false; leftPad =
    '\x00'
    // `t~ick` ""quote"" 'q'
    ; o=255  ;
    // packet A { u8 x, }
    }")).
Eval vm_compute in ("<<<M2831>>>" ++ check (runes_of_ascii "
packet metadata { @rightPad (
    // packet A { u8 x, }
    ' ' ' ' ) repeat u32	A
,matchKey ,
    @lengthOf( string_ ) @lengthOf( body )
    // a // b
    @lengthOf(float  )	repeat
int32 u8x
    // c
    `tab	here`
, } // a // b")).
Eval vm_compute in ("<<<M2863>>>" ++ check (runes_of_ascii "
packet metadata { @rightPad (
    // packet A { u8 x, }
    ' ' ) repeat u32	A
,""`tick`"" ,
    @lengthOf( string_ ) @lengthOf( body )
    // a // b
    @lengthOf(float  )	repeat
int32 u8x
    // c
    `tab	here`
, } // a // b")).
Eval vm_compute in ("<<<M2895>>>" ++ check (runes_of_ascii "
packet metadata { @rightPad (
    // packet A { u8 x, }
    ' ' ) repeat u32	A
,matchKey ,
    @lengthOf( string_ ) @lengthOf( body 
    // a // b
    @lengthOf(float  )	repeat
int32 u8x
    // c
    `tab	here`
, } // a // b")).
Eval vm_compute in ("<<<M2927>>>" ++ check (runes_of_ascii "
packet metadata { @rightPad (
    // packet A { u8 x, }
    ' ' ) repeat u32	A
,matchKey ,
    @lengthOf( string_ ) @lengthOf( body )
    // a // b
    @lengthOf(float  )	repeat
int32 `tab	here`
    // c
    u8x
, } // a // b")).
Eval vm_compute in ("<<<M2959>>>" ++ check (runes_of_ascii "
packet metadata { @rightPad (
    // packet A { u8 x, }
    ' ' ) repeat u32	A
,matchKey ,
    | @lengthOf( string_ ) @lengthOf( body )
    // a // b
    @lengthOf(float  )	repeat
int32 u8x
    // c
    `tab	here`
, } // a // b")).
Eval vm_compute in ("<<<M2991>>>" ++ check (runes_of_ascii "packet x{
string
zchar  //	t
}
")).
Eval vm_compute in ("<<<M3023>>>" ++ check (runes_of_ascii "
MetaData MetaData Logon
{ // c
}root packet
    Pad {
    } options
{
u
    =
    ""CRC32""
    // " ++ [128512]%N ++ runes_of_ascii " emoji
    i64_ = u16;
T =65535 x = ' '
    ; u128
= true ; }")).
Eval vm_compute in ("<<<M3055>>>" ++ check (runes_of_ascii "
MetaData Logon
{ // c
}root packet
    int32 {
    } options
{
u
    =
    ""CRC32""
    // " ++ [128512]%N ++ runes_of_ascii " emoji
    i64_ = u16;
T =65535 x = ' '
    ; u128
= true ; }")).
Eval vm_compute in ("<<<M3087>>>" ++ check (runes_of_ascii "
MetaData Logon
{ // c
}root packet
    Pad {
    } options
{
u
    =
    
    // " ++ [128512]%N ++ runes_of_ascii " emoji
    i64_ = u16;
T =65535 x = ' '
    ; u128
= true ; }")).
Eval vm_compute in ("<<<M3119>>>" ++ check (runes_of_ascii "
MetaData Logon
{ // c
}root packet
    Pad {
    } options
{
u
    =
    ""CRC32""
    // " ++ [128512]%N ++ runes_of_ascii " emoji
    i64_ = u16;
T 65535= x = ' '
    ; u128
= true ; }")).
Eval vm_compute in ("<<<M3151>>>" ++ check (runes_of_ascii "
MetaData Logon
{ // c
}root packet
    Pad {
    } options
{
u
    =
    ""CRC32""
    // " ++ [128512]%N ++ runes_of_ascii " emoji
    i64_ = u16;
T =65535 x = ' '
    ;")).
Eval vm_compute in ("<<<M3183>>>" ++ check (runes_of_ascii "
Met" ++ [0]%N ++ runes_of_ascii "aData Logon
{ // c
}root packet
    Pad {
    } options
{
u
    =
    ""CRC32""
    // " ++ [128512]%N ++ runes_of_ascii " emoji
    i64_ = u16;
T =65535 x = ' '
    ; u128
= true ; }")).
Eval vm_compute in ("<<<M3215>>>" ++ check (runes_of_ascii "MetaData body{}
Packet	packet { x_y_z @calculatedFrom(  ""a\\"")// `tick` ""quote"" 'q'
, }
")).
Eval vm_compute in ("<<<M3247>>>" ++ check (runes_of_ascii "MetaData body{}
packet	Packet { x_y_z @calculatedFrom(  ""a\\""")).
Eval vm_compute in ("<<<M3279>>>" ++ check (runes_of_ascii " f32a {} root packet len {repeat u // " ++ [128512]%N ++ runes_of_ascii " emoji
`{ , }` , }
")).
Eval vm_compute in ("<<<M3311>>>" ++ check (runes_of_ascii "packet f32a {} root packet { len repeat u // " ++ [128512]%N ++ runes_of_ascii " emoji
`{ , }` , }
")).
Eval vm_compute in ("<<<M3343>>>" ++ check (runes_of_ascii "packet f32a {} r")).
Eval vm_compute in ("<<<M3375>>>" ++ check (runes_of_ascii "options{ _x=""\" ++ [233]%N ++ runes_of_ascii """;
    Logon = 10	; Foo= 7;
i64_= char[]} options {
matchKey = ""// no comment"" // a // b
falsey = string
; trueish =
    4294967296
options1=
    ""it's"" string_	= true } options {
    /// trip<le
    }")).
Eval vm_compute in ("<<<T3375>>>" ++ terms [mkTok 1 "options" 1 0 false; mkTok 2 "{" 1 7 false; mkTok 42 "_x" 1 9 false; mkTok 4 "=" 1 11 false; mkTok 31 (string_of_bytes [34; 92; 195; 169; 34]%N) 1 12 false; mkTok 41 ";" 1 16 false; mkTok 42 "Logon" 2 4 false; mkTok 4 "=" 2 10 false; mkTok 30 "10" 2 12 false; mkTok 41 ";" 2 15 false; mkTok 42 "Foo" 2 17 false; mkTok 4 "=" 2 20 false; mkTok 30 "7" 2 22 false; mkTok 41 ";" 2 23 false; mkTok 42 "i64_" 3 0 false; mkTok 4 "=" 3 4 false; mkTok 16 "char[]" 3 6 false; mkTok 3 "}" 3 12 false; mkTok 1 "options" 3 14 false; mkTok 2 "{" 3 22 false; mkTok 42 "matchKey" 4 0 false; mkTok 4 "=" 4 9 false; mkTok 31 """// no comment""" 4 11 false; mkTok 44 "// a // b" 4 27 true; mkTok 42 "falsey" 5 0 false; mkTok 4 "=" 5 7 false; mkTok 15 "string" 5 9 false; mkTok 41 ";" 6 0 false; mkTok 42 "trueish" 6 2 false; mkTok 4 "=" 6 10 false; mkTok 30 "4294967296" 7 4 false; mkTok 42 "options1" 8 0 false; mkTok 4 "=" 8 8 false; mkTok 31 """it's""" 9 4 false; mkTok 42 "string_" 9 11 false; mkTok 4 "=" 9 19 false; mkTok 10 "true" 9 21 false; mkTok 3 "}" 9 26 false; mkTok 1 "options" 9 28 false; mkTok 2 "{" 9 36 false; mkTok 44 "/// trip<le" 10 4 true; mkTok 3 "}" 11 4 false; mkTok 0 "<EOF>" 11 5 false] (mkPacket (mkPtok 1 "options" 1 0 0) (Some (mkPtok 3 "}" 11 4 41)) [(DOption (mkOptionDef (mkSpan (mkPtok 1 "options" 1 0 0) (mkPtok 3 "}" 3 12 17)) (mkPtok 1 "options" 1 0 0) (mkPtok 2 "{" 1 7 1) [(mkOptionDecl (mkSpan (mkPtok 42 "_x" 1 9 2) (mkPtok 41 ";" 1 16 5)) (mkPtok 42 "_x" 1 9 2) (mkPtok 4 "=" 1 11 3) (VString (mkSpan (mkPtok 31 (string_of_bytes [34; 92; 195; 169; 34]%N) 1 12 4) (mkPtok 31 (string_of_bytes [34; 92; 195; 169; 34]%N) 1 12 4)) (mkPtok 31 (string_of_bytes [34; 92; 195; 169; 34]%N) 1 12 4)) (Some (mkPtok 41 ";" 1 16 5))); (mkOptionDecl (mkSpan (mkPtok 42 "Logon" 2 4 6) (mkPtok 41 ";" 2 15 9)) (mkPtok 42 "Logon" 2 4 6) (mkPtok 4 "=" 2 10 7) (VDigits (mkSpan (mkPtok 30 "10" 2 12 8) (mkPtok 30 "10" 2 12 8)) (mkPtok 30 "10" 2 12 8)) (Some (mkPtok 41 ";" 2 15 9))); (mkOptionDecl (mkSpan (mkPtok 42 "Foo" 2 17 10) (mkPtok 41 ";" 2 23 13)) (mkPtok 42 "Foo" 2 17 10) (mkPtok 4 "=" 2 20 11) (VDigits (mkSpan (mkPtok 30 "7" 2 22 12) (mkPtok 30 "7" 2 22 12)) (mkPtok 30 "7" 2 22 12)) (Some (mkPtok 41 ";" 2 23 13))); (mkOptionDecl (mkSpan (mkPtok 42 "i64_" 3 0 14) (mkPtok 16 "char[]" 3 6 16)) (mkPtok 42 "i64_" 3 0 14) (mkPtok 4 "=" 3 4 15) (VType (mkSpan (mkPtok 16 "char[]" 3 6 16) (mkPtok 16 "char[]" 3 6 16)) (TyDynamic (mkSpan (mkPtok 16 "char[]" 3 6 16) (mkPtok 16 "char[]" 3 6 16)) (mkDynamicString (mkSpan (mkPtok 16 "char[]" 3 6 16) (mkPtok 16 "char[]" 3 6 16)) (mkPtok 16 "char[]" 3 6 16)))) None)] (mkPtok 3 "}" 3 12 17))); (DOption (mkOptionDef (mkSpan (mkPtok 1 "options" 3 14 18) (mkPtok 3 "}" 9 26 37)) (mkPtok 1 "options" 3 14 18) (mkPtok 2 "{" 3 22 19) [(mkOptionDecl (mkSpan (mkPtok 42 "matchKey" 4 0 20) (mkPtok 31 """// no comment""" 4 11 22)) (mkPtok 42 "matchKey" 4 0 20) (mkPtok 4 "=" 4 9 21) (VString (mkSpan (mkPtok 31 """// no comment""" 4 11 22) (mkPtok 31 """// no comment""" 4 11 22)) (mkPtok 31 """// no comment""" 4 11 22)) None); (mkOptionDecl (mkSpan (mkPtok 42 "falsey" 5 0 24) (mkPtok 41 ";" 6 0 27)) (mkPtok 42 "falsey" 5 0 24) (mkPtok 4 "=" 5 7 25) (VType (mkSpan (mkPtok 15 "string" 5 9 26) (mkPtok 15 "string" 5 9 26)) (TyDynamic (mkSpan (mkPtok 15 "string" 5 9 26) (mkPtok 15 "string" 5 9 26)) (mkDynamicString (mkSpan (mkPtok 15 "string" 5 9 26) (mkPtok 15 "string" 5 9 26)) (mkPtok 15 "string" 5 9 26)))) (Some (mkPtok 41 ";" 6 0 27))); (mkOptionDecl (mkSpan (mkPtok 42 "trueish" 6 2 28) (mkPtok 30 "4294967296" 7 4 30)) (mkPtok 42 "trueish" 6 2 28) (mkPtok 4 "=" 6 10 29) (VDigits (mkSpan (mkPtok 30 "4294967296" 7 4 30) (mkPtok 30 "4294967296" 7 4 30)) (mkPtok 30 "4294967296" 7 4 30)) None); (mkOptionDecl (mkSpan (mkPtok 42 "options1" 8 0 31) (mkPtok 31 """it's""" 9 4 33)) (mkPtok 42 "options1" 8 0 31) (mkPtok 4 "=" 8 8 32) (VString (mkSpan (mkPtok 31 """it's""" 9 4 33) (mkPtok 31 """it's""" 9 4 33)) (mkPtok 31 """it's""" 9 4 33)) None); (mkOptionDecl (mkSpan (mkPtok 42 "string_" 9 11 34) (mkPtok 10 "true" 9 21 36)) (mkPtok 42 "string_" 9 11 34) (mkPtok 4 "=" 9 19 35) (VTrue (mkSpan (mkPtok 10 "true" 9 21 36) (mkPtok 10 "true" 9 21 36)) (mkPtok 10 "true" 9 21 36)) None)] (mkPtok 3 "}" 9 26 37))); (DOption (mkOptionDef (mkSpan (mkPtok 1 "options" 9 28 38) (mkPtok 3 "}" 11 4 41)) (mkPtok 1 "options" 9 28 38) (mkPtok 2 "{" 9 36 39) [] (mkPtok 3 "}" 11 4 41)))])).
Eval vm_compute in ("<<<M3407>>>" ++ check (runes_of_ascii "options{ _x=""\" ++ [233]%N ++ runes_of_ascii """;
    Logon = 10	; Foo= 7;
i64_= char[]} options {
matchKey = ""// no comment"" // a // b
falsey = string
; trueish =
    4294967296
options1=
    ""it's""")).
Eval vm_compute in ("<<<M3439>>>" ++ check (runes_of_ascii "options{ _x=""\" ++ [233]%N ++ runes_of_ascii """;
    Logon = 10	; Foo= 7;
i64_= char[]} options {
matchKey = ""// no comment"" // a // b
falsey falsey = string
; trueish =
    4294967296
options1=
    ""it's"" string_	= true } options {
    /// triple
    }")).
Eval vm_compute in ("<<<M3471>>>" ++ check (runes_of_ascii "options{ _x=""\" ++ [233]%N ++ runes_of_ascii """;
    Logon = 10	; Foo= 7;
i64_= char[]} opti")).
Eval vm_compute in ("<<<M3503>>>" ++ check (runes_of_ascii "u8")).
Eval vm_compute in ("<<<M3535>>>" ++ check (runes_of_ascii "Packet")).
Eval vm_compute in ("<<<M3567>>>" ++ check (runes_of_ascii "// x")).
Eval vm_compute in ("<<<T3567>>>" ++ terms [mkTok 44 "// x" 1 0 true; mkTok 0 "<EOF>" 1 4 false] (mkPacket (mkPtok 0 "<EOF>" 1 4 1) None [])).
Eval vm_compute in ("<<<M3599>>>" ++ check (runes_of_ascii "a.b")).
Eval vm_compute in ("<<<M3631>>>" ++ check (runes_of_ascii "packet A { repeat }")).
Eval vm_compute in ("<<<M3663>>>" ++ check (runes_of_ascii "packet A { B { u8 x, } }")).
Eval vm_compute in ("<<<M3695>>>" ++ check (runes_of_ascii "packet { }")).
Eval vm_compute in ("<<<M3727>>>" ++ check (runes_of_ascii "options { a = ; }")).
Eval vm_compute in ("<<<M3759>>>" ++ check (runes_of_ascii "// a
// b
")).
Eval vm_compute in ("<<<M3791>>>" ++ check (runes_of_ascii "= match `{ , }` [ , )")).
Eval vm_compute in ("<<<M3823>>>" ++ check (runes_of_ascii "; packet `doc` @lengthOf( @calculatedFrom( f64 string '0' uint32")).
Eval vm_compute in ("<<<M3855>>>" ++ check (runes_of_ascii "uint8 ] { u16")).
Eval vm_compute in ("<<<M3887>>>" ++ check (runes_of_ascii """"" int string = uint32 string [ as uint64 repeat ) [ @leftPad")).
Eval vm_compute in ("<<<M3919>>>" ++ check (runes_of_ascii "u8 ] @tag( packet packet ""{,}"" = float32 @tag(")).
Eval vm_compute in ("<<<M3951>>>" ++ check (runes_of_ascii "true i32 u64 u32 true @lengthOf( match repeat")).
Eval vm_compute in ("<<<M3983>>>" ++ check (runes_of_ascii "] ) `say ""hi""` MetaData options MetaData uint16 string false ]")).
