From FP Require Import Lexer Parser ShowPT Digest.
From Coq Require Import String List NArith.
Import ListNotations.
Open Scope string_scope.
Set Printing Width 100000000.
Set Printing Depth 100000000.
Definition nl : string := String (Ascii.ascii_of_nat 10) EmptyString.
Definition model_lex (rs : list rune) : string := show_toks (lex rs).
Definition model_parse (rs : list rune) : string :=
  show_pt (match lex rs with Some ts => parse ts | None => None end).
(* coqc is slow at printing long strings: digests first (Digest.v), full texts on demand *)
Definition check (rs : list rune) : string :=
  digest (model_lex rs) ++ " " ++ digest (model_parse rs).
Definition full (rs : list rune) : string := model_lex rs ++ nl ++ model_parse rs.
Definition terms (ts : list tok) (t : pt) : string :=
  digest (show_toks (Some ts)) ++ " " ++ digest (show_pt (Some t)) ++ " " ++ digest (show_pt (parse ts)).
Definition terms_full (ts : list tok) (t : pt) : string :=
  show_toks (Some ts) ++ nl ++ show_pt (Some t) ++ nl ++ show_pt (parse ts).
Eval vm_compute in ("<<<M15>>>" ++ check (runes_of_ascii "options { matchKey
    =
10 } MetaData options1{
    matchKey o `doc` , rootA tag
,uint32 _x /// triple
`line1
line2`, char[] chars `say ""hi""`,  }")).
Eval vm_compute in ("<<<M47>>>" ++ check (runes_of_ascii "packet rootA{ }
options
{ uint8x =//	t
u32 ; i64_
=	255 ;
len
    = ' '
    ;
    } // @lengthOf(")).
Eval vm_compute in ("<<<M79>>>" ++ check (runes_of_ascii "  options
{  T
= ' ' }
MetaData Pad
    //x
    {
string_ u128  , u64 // @lengthOf(
uint8x `two words` , int8 repeatCount
, }
    packet
len{
    Packet
    `
`
,@calculatedFrom( ""a\""b""
) zchar[
    42 ]
rootA ,
    @calculatedFrom(
""packet"" )
@calculatedFrom( ""\n"" ) Packet @calculatedFrom( ""\" ++ [233]%N ++ runes_of_ascii """  )
    `" ++ [28040; 24687; 31867; 22411]%N ++ runes_of_ascii "`, @leftPad
    (
    '\x00' )
@leftPad (	)
@rightPad (
)
repeat string_
    {match asx // c
as rootA {[
""`tick`"",65535	]:
falsey ,} , trueish
, char Z9_`// not a comment` ,
    Packet Logon `{ , }`, } ,@tag( 1 )
    match x as pack//	t
{
1 :stringy // `tick` ""quote"" 'q'
, [	42 ]:  x }  ,
repeat//x
i8 u8x , @calculatedFrom(""packet"") string_ // c
@lengthOf( rootA ),	falsey
@lengthOf( x )
,} options
{}
root packet u { @lengthOf(x_y_z )	u
    @calculatedFrom( """"
)
`two words`, }")).
Eval vm_compute in ("<<<M111>>>" ++ check (runes_of_ascii "
packet a1{ match /// triple
T as pack
{007 : Header ,} , calculatedFrom	, } MetaData
options1
    { }")).
Eval vm_compute in ("<<<T111>>>" ++ terms [mkTok 35 "packet" 2 0 false; mkTok 42 "a1" 2 7 false; mkTok 2 "{" 2 9 false; mkTok 38 "match" 2 11 false; mkTok 44 "/// triple" 2 17 true; mkTok 42 "T" 3 0 false; mkTok 17 "as" 3 2 false; mkTok 42 "pack" 3 5 false; mkTok 2 "{" 4 0 false; mkTok 30 "007" 4 1 false; mkTok 39 ":" 4 5 false; mkTok 42 "Header" 4 7 false; mkTok 40 "," 4 14 false; mkTok 3 "}" 4 15 false; mkTok 40 "," 4 17 false; mkTok 42 "calculatedFrom" 4 19 false; mkTok 40 "," 4 34 false; mkTok 3 "}" 4 36 false; mkTok 37 "MetaData" 4 38 false; mkTok 42 "options1" 5 0 false; mkTok 2 "{" 6 4 false; mkTok 3 "}" 6 6 false; mkTok 0 "<EOF>" 6 7 false] (mkPacket (mkPtok 35 "packet" 2 0 0) (Some (mkPtok 3 "}" 6 6 21)) [(DPacket (mkPacketDef (mkSpan (mkPtok 35 "packet" 2 0 0) (mkPtok 3 "}" 4 36 17)) None (mkPtok 35 "packet" 2 0 0) (mkPtok 42 "a1" 2 7 1) (mkPtok 2 "{" 2 9 2) [(mkFieldWithAttr (mkSpan (mkPtok 38 "match" 2 11 3) (mkPtok 40 "," 4 17 14)) [] (MatchField (mkSpan (mkPtok 38 "match" 2 11 3) (mkPtok 40 "," 4 17 14)) (mkMatchFieldDecl (mkSpan (mkPtok 38 "match" 2 11 3) (mkPtok 3 "}" 4 15 13)) (mkPtok 38 "match" 2 11 3) (mkPtok 42 "T" 3 0 5) (mkPtok 17 "as" 3 2 6) (mkPtok 42 "pack" 3 5 7) (mkPtok 2 "{" 4 0 8) [(mkMatchPair (mkSpan (mkPtok 30 "007" 4 1 9) (mkPtok 40 "," 4 14 12)) (MKDigits (mkPtok 30 "007" 4 1 9)) (mkPtok 39 ":" 4 5 10) (mkPtok 42 "Header" 4 7 11) (Some (mkPtok 40 "," 4 14 12)))] (mkPtok 3 "}" 4 15 13)) (mkPtok 40 "," 4 17 14))); (mkFieldWithAttr (mkSpan (mkPtok 42 "calculatedFrom" 4 19 15) (mkPtok 40 "," 4 34 16)) [] (ObjectField (mkSpan (mkPtok 42 "calculatedFrom" 4 19 15) (mkPtok 40 "," 4 34 16)) None (mkPtok 42 "calculatedFrom" 4 19 15) None None (mkPtok 40 "," 4 34 16)))] (mkPtok 3 "}" 4 36 17))); (DMeta (mkMetaDef (mkSpan (mkPtok 37 "MetaData" 4 38 18) (mkPtok 3 "}" 6 6 21)) (mkPtok 37 "MetaData" 4 38 18) (mkPtok 42 "options1" 5 0 19) (mkPtok 2 "{" 6 4 20) [] (mkPtok 3 "}" 6 6 21)))])).
Eval vm_compute in ("<<<M143>>>" ++ check (runes_of_ascii "//x
MetaData falsey{ string Pad , }
")).
Eval vm_compute in ("<<<M175>>>" ++ check (runes_of_ascii "root packet leftPad
    { f32a	tag ,
    }
")).
Eval vm_compute in ("<<<M207>>>" ++ check (runes_of_ascii "options
{ }	MetaData
Foo {
char[
    0 ]  Logon `u8 x,` ,// packet A { u8 x, }
zchar[ 255 ]
    calculatedFrom `
` ,
    zchar[ 00 ]o
    `u8 x,` ,char[255 ]
Header `a\`// `tick` ""quote"" 'q'
, // a // b
Pad
    Pad ,
    } packet i8i8 {
    u32
    // " ++ [128512]%N ++ runes_of_ascii " emoji
    float,// @lengthOf(
As @calculatedFrom( ""// no comment"" ) , }")).
Eval vm_compute in ("<<<M239>>>" ++ check (runes_of_ascii "packet x { lengthOf rootA , @rightPad
( '0' )
i8 asx @lengthOf( calculatedFrom // a // b
),
@lengthOf( Pad ) repeat //x
int16 trueish // c
``// " ++ [27880; 37322]%N ++ runes_of_ascii "
, @calculatedFrom(
""" ++ [128512]%N ++ runes_of_ascii """) @tag(0
)
@lengthOf( // a // b
matchKey ) string MetaDataX`doc`
,
i16 // `tick` ""quote"" 'q'
options1 @lengthOf(
    // " ++ [27880; 37322]%N ++ runes_of_ascii "
    u8x
    // " ++ [128512]%N ++ runes_of_ascii " emoji
    ) `a\` ,
    u128
u128`line1
line2`,}")).
Eval vm_compute in ("<<<M271>>>" ++ check (runes_of_ascii "
packet
crc{ } options
{ len= '0' } packet uint8x {T  charz `u8 x,` ,
}
    MetaData  packetx //	t
{
// `tick` ""quote"" 'q'
// trailing space 
} options
    { Header
    =""CRC32""
;
    charz =
    string MetaDataX
=
true ;}
")).
Eval vm_compute in ("<<<M303>>>" ++ check (runes_of_ascii "packet a1 {
}
options{
MetaDataX = ""`tick`"" uint8x = false; f32a = zchar[	00] ; } // `tick` ""quote"" 'q'")).
Eval vm_compute in ("<<<M335>>>" ++ check (runes_of_ascii "options { lengthOf =
""CRC32"" ; stringy = uint16;  u8x =float32 ; x_y_z
    // c
    =  zchar[ 007]
repeatCount  = ""a\""b"" ;
// c
//	t
}
MetaData trueish { As roots `" ++ [28040; 24687; 31867; 22411]%N ++ runes_of_ascii "`
, char[ 00 ] Packet// c
, } root
packet roots
{ int8 Logon, body@lengthOf( lengthOf
) `
` , @rightPad (	'0' )
    Packet@calculatedFrom(""x y""
)`a\` ,
@lengthOf( T ) match matchKey as _x// trailing space 
{ """ ++ [128512]%N ++ runes_of_ascii """	:
stringy ,
4294967296:  x_y_z ,""\n""
: leftPad[
42 , 42
    , ""it's"" , ""\n"" ,""// no comment""	] : asx ,} , char[
    10// trailing space 
]BodyLength ,
@leftPad (	'0'
) char[]
    /// triple
    Z9_ `crlf
line`, string falsey
    , int16 // c
asx  @calculatedFrom( ""x y"" ) ,u128 Z9_ `it's` ,
    @rightPad
// " ++ [128512]%N ++ runes_of_ascii " emoji
// @lengthOf(
( '0'
)Packet {
    // " ++ [128512]%N ++ runes_of_ascii " emoji
    int64
    float ,
repeat leftPad{
repeat
Z9_ {
    match T
as lengthOf{ ""`tick`"" :msg_type""1"" : x_y_z , 0 : chars , } ,
    } , repeat trueish
    { zchar[
255 ]
crc	`doc` , char Logon @lengthOf( _x
    // " ++ [128512]%N ++ runes_of_ascii " emoji
    )
,
    //
    a1 `doc`,
//x
//	t
} , match msg_type as zchar { ""it's"" // c
:
/// triple
// packet A { u8 x, }
body
, """ ++ [28040; 24687]%N ++ runes_of_ascii """ : // `tick` ""quote"" 'q'
u,} ,} , } ,
}
packet// `tick` ""quote"" 'q'
As// " ++ [27880; 37322]%N ++ runes_of_ascii "
{
@leftPad (
    // c
    '\x00' ) @tag( 255
    )
    @lengthOf( // `tick` ""quote"" 'q'
o
)zchar[ 42 ] string_ @calculatedFrom(
""a\""b""	)`" ++ [28040; 24687; 31867; 22411]%N ++ runes_of_ascii "`
, char[] repeatCount//	t
@lengthOf(
calculatedFrom) ,metadata @calculatedFrom(
    ""abc""
) `two words`
    ,
// `tick` ""quote"" 'q'
// c
@lengthOf(matchKey ) match
packetx as falsey { 007
: A,""1"" : packetx , //
7 :charz
, [ 65535 ]:stringy 65535
    :a1 [  ""a	b""
, 1] :
    Logon
// a // b
// " ++ [128512]%N ++ runes_of_ascii " emoji
}, }")).
Eval vm_compute in ("<<<T335>>>" ++ terms [mkTok 1 "options" 1 0 false; mkTok 2 "{" 1 8 false; mkTok 42 "lengthOf" 1 10 false; mkTok 4 "=" 1 19 false; mkTok 31 """CRC32""" 2 0 false; mkTok 41 ";" 2 8 false; mkTok 42 "stringy" 2 10 false; mkTok 4 "=" 2 18 false; mkTok 21 "uint16" 2 20 false; mkTok 41 ";" 2 26 false; mkTok 42 "u8x" 2 29 false; mkTok 4 "=" 2 33 false; mkTok 28 "float32" 2 34 false; mkTok 41 ";" 2 42 false; mkTok 42 "x_y_z" 2 44 false; mkTok 44 "// c" 3 4 true; mkTok 4 "=" 4 4 false; mkTok 14 "zchar[" 4 7 false; mkTok 30 "007" 4 14 false; mkTok 13 "]" 4 17 false; mkTok 42 "repeatCount" 5 0 false; mkTok 4 "=" 5 13 false; mkTok 31 """a\""b""" 5 15 false; mkTok 41 ";" 5 22 false; mkTok 44 "// c" 6 0 true; mkTok 44 (string_of_bytes [47; 47; 9; 116]%N) 7 0 true; mkTok 3 "}" 8 0 false; mkTok 37 "MetaData" 9 0 false; mkTok 42 "trueish" 9 9 false; mkTok 2 "{" 9 17 false; mkTok 42 "As" 9 19 false; mkTok 42 "roots" 9 22 false; mkTok 43 (string_of_bytes [96; 230; 182; 136; 230; 129; 175; 231; 177; 187; 229; 158; 139; 96]%N) 9 28 false; mkTok 40 "," 10 0 false; mkTok 12 "char[" 10 2 false; mkTok 30 "00" 10 8 false; mkTok 13 "]" 10 11 false; mkTok 42 "Packet" 10 13 false; mkTok 44 "// c" 10 19 true; mkTok 40 "," 11 0 false; mkTok 3 "}" 11 2 false; mkTok 34 "root" 11 4 false; mkTok 35 "packet" 12 0 false; mkTok 42 "roots" 12 7 false; mkTok 2 "{" 13 0 false; mkTok 24 "int8" 13 2 false; mkTok 42 "Logon" 13 7 false; mkTok 40 "," 13 12 false; mkTok 42 "body" 13 14 false; mkTok 7 "@lengthOf(" 13 18 false; mkTok 42 "lengthOf" 13 29 false; mkTok 6 ")" 14 0 false; mkTok 43 (string_of_bytes [96; 10; 96]%N) 14 2 false; mkTok 40 "," 15 2 false; mkTok 32 "@rightPad" 15 4 false; mkTok 8 "(" 15 14 false; mkTok 33 "'0'" 15 16 false; mkTok 6 ")" 15 20 false; mkTok 42 "Packet" 16 4 false; mkTok 5 "@calculatedFrom(" 16 10 false; mkTok 31 """x y""" 16 26 false; mkTok 6 ")" 17 0 false; mkTok 43 "`a\`" 17 1 false; mkTok 40 "," 17 6 false; mkTok 7 "@lengthOf(" 18 0 false; mkTok 42 "T" 18 11 false; mkTok 6 ")" 18 13 false; mkTok 38 "match" 18 15 false; mkTok 42 "matchKey" 18 21 false; mkTok 17 "as" 18 30 false; mkTok 42 "_x" 18 33 false; mkTok 44 "// trailing space " 18 35 true; mkTok 2 "{" 19 0 false; mkTok 31 (string_of_bytes [34; 240; 159; 152; 128; 34]%N) 19 2 false; mkTok 39 ":" 19 6 false; mkTok 42 "stringy" 20 0 false; mkTok 40 "," 20 8 false; mkTok 30 "4294967296" 21 0 false; mkTok 39 ":" 21 10 false; mkTok 42 "x_y_z" 21 13 false; mkTok 40 "," 21 19 false; mkTok 31 """\n""" 21 20 false; mkTok 39 ":" 22 0 false; mkTok 42 "leftPad" 22 2 false; mkTok 18 "[" 22 9 false; mkTok 30 "42" 23 0 false; mkTok 40 "," 23 3 false; mkTok 30 "42" 23 5 false; mkTok 40 "," 24 4 false; mkTok 31 """it's""" 24 6 false; mkTok 40 "," 24 13 false; mkTok 31 """\n""" 24 15 false; mkTok 40 "," 24 20 false; mkTok 31 """// no comment""" 24 21 false; mkTok 13 "]" 24 37 false; mkTok 39 ":" 24 39 false; mkTok 42 "asx" 24 41 false; mkTok 40 "," 24 45 false; mkTok 3 "}" 24 46 false; mkTok 40 "," 24 48 false; mkTok 12 "char[" 24 50 false; mkTok 30 "10" 25 4 false; mkTok 44 "// trailing space " 25 6 true; mkTok 13 "]" 26 0 false; mkTok 42 "BodyLength" 26 1 false; mkTok 40 "," 26 12 false; mkTok 32 "@leftPad" 27 0 false; mkTok 8 "(" 27 9 false; mkTok 33 "'0'" 27 11 false; mkTok 6 ")" 28 0 false; mkTok 16 "char[]" 28 2 false; mkTok 44 "/// triple" 29 4 true; mkTok 42 "Z9_" 30 4 false; mkTok 43 (string_of_bytes [96; 99; 114; 108; 102; 13; 10; 108; 105; 110; 101; 96]%N) 30 8 false; mkTok 40 "," 31 5 false; mkTok 15 "string" 31 7 false; mkTok 42 "falsey" 31 14 false; mkTok 40 "," 32 4 false; mkTok 25 "int16" 32 6 false; mkTok 44 "// c" 32 12 true; mkTok 42 "asx" 33 0 false; mkTok 5 "@calculatedFrom(" 33 5 false; mkTok 31 """x y""" 33 22 false; mkTok 6 ")" 33 28 false; mkTok 40 "," 33 30 false; mkTok 42 "u128" 33 31 false; mkTok 42 "Z9_" 33 36 false; mkTok 43 "`it's`" 33 40 false; mkTok 40 "," 33 47 false; mkTok 32 "@rightPad" 34 4 false; mkTok 44 (string_of_bytes [47; 47; 32; 240; 159; 152; 128; 32; 101; 109; 111; 106; 105]%N) 35 0 true; mkTok 44 "// @lengthOf(" 36 0 true; mkTok 8 "(" 37 0 false; mkTok 33 "'0'" 37 2 false; mkTok 6 ")" 38 0 false; mkTok 42 "Packet" 38 1 false; mkTok 2 "{" 38 8 false; mkTok 44 (string_of_bytes [47; 47; 32; 240; 159; 152; 128; 32; 101; 109; 111; 106; 105]%N) 39 4 true; mkTok 27 "int64" 40 4 false; mkTok 42 "float" 41 4 false; mkTok 40 "," 41 10 false; mkTok 36 "repeat" 42 0 false; mkTok 42 "leftPad" 42 7 false; mkTok 2 "{" 42 14 false; mkTok 36 "repeat" 43 0 false; mkTok 42 "Z9_" 44 0 false; mkTok 2 "{" 44 4 false; mkTok 38 "match" 45 4 false; mkTok 42 "T" 45 10 false; mkTok 17 "as" 46 0 false; mkTok 42 "lengthOf" 46 3 false; mkTok 2 "{" 46 11 false; mkTok 31 """`tick`""" 46 13 false; mkTok 39 ":" 46 22 false; mkTok 42 "msg_type" 46 23 false; mkTok 31 """1""" 46 31 false; mkTok 39 ":" 46 35 false; mkTok 42 "x_y_z" 46 37 false; mkTok 40 "," 46 43 false; mkTok 30 "0" 46 45 false; mkTok 39 ":" 46 47 false; mkTok 42 "chars" 46 49 false; mkTok 40 "," 46 55 false; mkTok 3 "}" 46 57 false; mkTok 40 "," 46 59 false; mkTok 3 "}" 47 4 false; mkTok 40 "," 47 6 false; mkTok 36 "repeat" 47 8 false; mkTok 42 "trueish" 47 15 false; mkTok 2 "{" 48 4 false; mkTok 14 "zchar[" 48 6 false; mkTok 30 "255" 49 0 false; mkTok 13 "]" 49 4 false; mkTok 42 "crc" 50 0 false; mkTok 43 "`doc`" 50 4 false; mkTok 40 "," 50 10 false; mkTok 19 "char" 50 12 false; mkTok 42 "Logon" 50 17 false; mkTok 7 "@lengthOf(" 50 23 false; mkTok 42 "_x" 50 34 false; mkTok 44 (string_of_bytes [47; 47; 32; 240; 159; 152; 128; 32; 101; 109; 111; 106; 105]%N) 51 4 true; mkTok 6 ")" 52 4 false; mkTok 40 "," 53 0 false; mkTok 44 "//" 54 4 true; mkTok 42 "a1" 55 4 false; mkTok 43 "`doc`" 55 7 false; mkTok 40 "," 55 12 false; mkTok 44 "//x" 56 0 true; mkTok 44 (string_of_bytes [47; 47; 9; 116]%N) 57 0 true; mkTok 3 "}" 58 0 false; mkTok 40 "," 58 2 false; mkTok 38 "match" 58 4 false; mkTok 42 "msg_type" 58 10 false; mkTok 17 "as" 58 19 false; mkTok 42 "zchar" 58 22 false; mkTok 2 "{" 58 28 false; mkTok 31 """it's""" 58 30 false; mkTok 44 "// c" 58 37 true; mkTok 39 ":" 59 0 false; mkTok 44 "/// triple" 60 0 true; mkTok 44 "// packet A { u8 x, }" 61 0 true; mkTok 42 "body" 62 0 false; mkTok 40 "," 63 0 false; mkTok 31 (string_of_bytes [34; 230; 182; 136; 230; 129; 175; 34]%N) 63 2 false; mkTok 39 ":" 63 7 false; mkTok 44 "// `tick` ""quote"" 'q'" 63 9 true; mkTok 42 "u" 64 0 false; mkTok 40 "," 64 1 false; mkTok 3 "}" 64 2 false; mkTok 40 "," 64 4 false; mkTok 3 "}" 64 5 false; mkTok 40 "," 64 7 false; mkTok 3 "}" 64 9 false; mkTok 40 "," 64 11 false; mkTok 3 "}" 65 0 false; mkTok 35 "packet" 66 0 false; mkTok 44 "// `tick` ""quote"" 'q'" 66 6 true; mkTok 42 "As" 67 0 false; mkTok 44 (string_of_bytes [47; 47; 32; 230; 179; 168; 233; 135; 138]%N) 67 2 true; mkTok 2 "{" 68 0 false; mkTok 32 "@leftPad" 69 0 false; mkTok 8 "(" 69 9 false; mkTok 44 "// c" 70 4 true; mkTok 33 "'\x00'" 71 4 false; mkTok 6 ")" 71 11 false; mkTok 9 "@tag(" 71 13 false; mkTok 30 "255" 71 19 false; mkTok 6 ")" 72 4 false; mkTok 7 "@lengthOf(" 73 4 false; mkTok 44 "// `tick` ""quote"" 'q'" 73 15 true; mkTok 42 "o" 74 0 false; mkTok 6 ")" 75 0 false; mkTok 14 "zchar[" 75 1 false; mkTok 30 "42" 75 8 false; mkTok 13 "]" 75 11 false; mkTok 42 "string_" 75 13 false; mkTok 5 "@calculatedFrom(" 75 21 false; mkTok 31 """a\""b""" 76 0 false; mkTok 6 ")" 76 7 false; mkTok 43 (string_of_bytes [96; 230; 182; 136; 230; 129; 175; 231; 177; 187; 229; 158; 139; 96]%N) 76 8 false; mkTok 40 "," 77 0 false; mkTok 16 "char[]" 77 2 false; mkTok 42 "repeatCount" 77 9 false; mkTok 44 (string_of_bytes [47; 47; 9; 116]%N) 77 20 true; mkTok 7 "@lengthOf(" 78 0 false; mkTok 42 "calculatedFrom" 79 0 false; mkTok 6 ")" 79 14 false; mkTok 40 "," 79 16 false; mkTok 42 "metadata" 79 17 false; mkTok 5 "@calculatedFrom(" 79 26 false; mkTok 31 """abc""" 80 4 false; mkTok 6 ")" 81 0 false; mkTok 43 "`two words`" 81 2 false; mkTok 40 "," 82 4 false; mkTok 44 "// `tick` ""quote"" 'q'" 83 0 true; mkTok 44 "// c" 84 0 true; mkTok 7 "@lengthOf(" 85 0 false; mkTok 42 "matchKey" 85 10 false; mkTok 6 ")" 85 19 false; mkTok 38 "match" 85 21 false; mkTok 42 "packetx" 86 0 false; mkTok 17 "as" 86 8 false; mkTok 42 "falsey" 86 11 false; mkTok 2 "{" 86 18 false; mkTok 30 "007" 86 20 false; mkTok 39 ":" 87 0 false; mkTok 42 "A" 87 2 false; mkTok 40 "," 87 3 false; mkTok 31 """1""" 87 4 false; mkTok 39 ":" 87 8 false; mkTok 42 "packetx" 87 10 false; mkTok 40 "," 87 18 false; mkTok 44 "//" 87 20 true; mkTok 30 "7" 88 0 false; mkTok 39 ":" 88 2 false; mkTok 42 "charz" 88 3 false; mkTok 40 "," 89 0 false; mkTok 18 "[" 89 2 false; mkTok 30 "65535" 89 4 false; mkTok 13 "]" 89 10 false; mkTok 39 ":" 89 11 false; mkTok 42 "stringy" 89 12 false; mkTok 30 "65535" 89 20 false; mkTok 39 ":" 90 4 false; mkTok 42 "a1" 90 5 false; mkTok 18 "[" 90 8 false; mkTok 31 (string_of_bytes [34; 97; 9; 98; 34]%N) 90 11 false; mkTok 40 "," 91 0 false; mkTok 30 "1" 91 2 false; mkTok 13 "]" 91 3 false; mkTok 39 ":" 91 5 false; mkTok 42 "Logon" 92 4 false; mkTok 44 "// a // b" 93 0 true; mkTok 44 (string_of_bytes [47; 47; 32; 240; 159; 152; 128; 32; 101; 109; 111; 106; 105]%N) 94 0 true; mkTok 3 "}" 95 0 false; mkTok 40 "," 95 1 false; mkTok 3 "}" 95 3 false; mkTok 0 "<EOF>" 95 4 false] (mkPacket (mkPtok 1 "options" 1 0 0) (Some (mkPtok 3 "}" 95 3 296)) [(DOption (mkOptionDef (mkSpan (mkPtok 1 "options" 1 0 0) (mkPtok 3 "}" 8 0 26)) (mkPtok 1 "options" 1 0 0) (mkPtok 2 "{" 1 8 1) [(mkOptionDecl (mkSpan (mkPtok 42 "lengthOf" 1 10 2) (mkPtok 41 ";" 2 8 5)) (mkPtok 42 "lengthOf" 1 10 2) (mkPtok 4 "=" 1 19 3) (VString (mkSpan (mkPtok 31 """CRC32""" 2 0 4) (mkPtok 31 """CRC32""" 2 0 4)) (mkPtok 31 """CRC32""" 2 0 4)) (Some (mkPtok 41 ";" 2 8 5))); (mkOptionDecl (mkSpan (mkPtok 42 "stringy" 2 10 6) (mkPtok 41 ";" 2 26 9)) (mkPtok 42 "stringy" 2 10 6) (mkPtok 4 "=" 2 18 7) (VType (mkSpan (mkPtok 21 "uint16" 2 20 8) (mkPtok 21 "uint16" 2 20 8)) (TyBasic (mkSpan (mkPtok 21 "uint16" 2 20 8) (mkPtok 21 "uint16" 2 20 8)) (mkBasicType (mkSpan (mkPtok 21 "uint16" 2 20 8) (mkPtok 21 "uint16" 2 20 8)) (mkPtok 21 "uint16" 2 20 8)))) (Some (mkPtok 41 ";" 2 26 9))); (mkOptionDecl (mkSpan (mkPtok 42 "u8x" 2 29 10) (mkPtok 41 ";" 2 42 13)) (mkPtok 42 "u8x" 2 29 10) (mkPtok 4 "=" 2 33 11) (VType (mkSpan (mkPtok 28 "float32" 2 34 12) (mkPtok 28 "float32" 2 34 12)) (TyBasic (mkSpan (mkPtok 28 "float32" 2 34 12) (mkPtok 28 "float32" 2 34 12)) (mkBasicType (mkSpan (mkPtok 28 "float32" 2 34 12) (mkPtok 28 "float32" 2 34 12)) (mkPtok 28 "float32" 2 34 12)))) (Some (mkPtok 41 ";" 2 42 13))); (mkOptionDecl (mkSpan (mkPtok 42 "x_y_z" 2 44 14) (mkPtok 13 "]" 4 17 19)) (mkPtok 42 "x_y_z" 2 44 14) (mkPtok 4 "=" 4 4 16) (VType (mkSpan (mkPtok 14 "zchar[" 4 7 17) (mkPtok 13 "]" 4 17 19)) (TyFixed (mkSpan (mkPtok 14 "zchar[" 4 7 17) (mkPtok 13 "]" 4 17 19)) (mkFixedString (mkSpan (mkPtok 14 "zchar[" 4 7 17) (mkPtok 13 "]" 4 17 19)) (mkPtok 14 "zchar[" 4 7 17) (mkPtok 30 "007" 4 14 18) (mkPtok 13 "]" 4 17 19)))) None); (mkOptionDecl (mkSpan (mkPtok 42 "repeatCount" 5 0 20) (mkPtok 41 ";" 5 22 23)) (mkPtok 42 "repeatCount" 5 0 20) (mkPtok 4 "=" 5 13 21) (VString (mkSpan (mkPtok 31 """a\""b""" 5 15 22) (mkPtok 31 """a\""b""" 5 15 22)) (mkPtok 31 """a\""b""" 5 15 22)) (Some (mkPtok 41 ";" 5 22 23)))] (mkPtok 3 "}" 8 0 26))); (DMeta (mkMetaDef (mkSpan (mkPtok 37 "MetaData" 9 0 27) (mkPtok 3 "}" 11 2 40)) (mkPtok 37 "MetaData" 9 0 27) (mkPtok 42 "trueish" 9 9 28) (mkPtok 2 "{" 9 17 29) [(MIRef (mkRefMetaDecl (mkSpan (mkPtok 42 "As" 9 19 30) (mkPtok 40 "," 10 0 33)) (mkPtok 42 "As" 9 19 30) (mkPtok 42 "roots" 9 22 31) (Some (mkPtok 43 (string_of_bytes [96; 230; 182; 136; 230; 129; 175; 231; 177; 187; 229; 158; 139; 96]%N) 9 28 32)) (mkPtok 40 "," 10 0 33))); (MIDecl (mkMetaDecl (mkSpan (mkPtok 12 "char[" 10 2 34) (mkPtok 40 "," 11 0 39)) (TyFixed (mkSpan (mkPtok 12 "char[" 10 2 34) (mkPtok 13 "]" 10 11 36)) (mkFixedString (mkSpan (mkPtok 12 "char[" 10 2 34) (mkPtok 13 "]" 10 11 36)) (mkPtok 12 "char[" 10 2 34) (mkPtok 30 "00" 10 8 35) (mkPtok 13 "]" 10 11 36))) (mkPtok 42 "Packet" 10 13 37) None (mkPtok 40 "," 11 0 39)))] (mkPtok 3 "}" 11 2 40))); (DPacket (mkPacketDef (mkSpan (mkPtok 34 "root" 11 4 41) (mkPtok 3 "}" 65 0 214)) (Some (mkPtok 34 "root" 11 4 41)) (mkPtok 35 "packet" 12 0 42) (mkPtok 42 "roots" 12 7 43) (mkPtok 2 "{" 13 0 44) [(mkFieldWithAttr (mkSpan (mkPtok 24 "int8" 13 2 45) (mkPtok 40 "," 13 12 47)) [] (MetaField (mkSpan (mkPtok 24 "int8" 13 2 45) (mkPtok 40 "," 13 12 47)) None (mkMetaDecl (mkSpan (mkPtok 24 "int8" 13 2 45) (mkPtok 40 "," 13 12 47)) (TyBasic (mkSpan (mkPtok 24 "int8" 13 2 45) (mkPtok 24 "int8" 13 2 45)) (mkBasicType (mkSpan (mkPtok 24 "int8" 13 2 45) (mkPtok 24 "int8" 13 2 45)) (mkPtok 24 "int8" 13 2 45))) (mkPtok 42 "Logon" 13 7 46) None (mkPtok 40 "," 13 12 47)))); (mkFieldWithAttr (mkSpan (mkPtok 42 "body" 13 14 48) (mkPtok 40 "," 15 2 53)) [] (LengthField (mkSpan (mkPtok 42 "body" 13 14 48) (mkPtok 40 "," 15 2 53)) (mkLengthFieldDecl (mkSpan (mkPtok 42 "body" 13 14 48) (mkPtok 40 "," 15 2 53)) None (mkPtok 42 "body" 13 14 48) (mkLengthOf (mkSpan (mkPtok 7 "@lengthOf(" 13 18 49) (mkPtok 6 ")" 14 0 51)) (mkPtok 7 "@lengthOf(" 13 18 49) (mkPtok 42 "lengthOf" 13 29 50) (mkPtok 6 ")" 14 0 51)) (Some (mkPtok 43 (string_of_bytes [96; 10; 96]%N) 14 2 52)) (mkPtok 40 "," 15 2 53)))); (mkFieldWithAttr (mkSpan (mkPtok 32 "@rightPad" 15 4 54) (mkPtok 40 "," 17 6 63)) [(FAPadding (mkSpan (mkPtok 32 "@rightPad" 15 4 54) (mkPtok 6 ")" 15 20 57)) (mkPaddingAttr (mkSpan (mkPtok 32 "@rightPad" 15 4 54) (mkPtok 6 ")" 15 20 57)) (mkPtok 32 "@rightPad" 15 4 54) (mkPtok 8 "(" 15 14 55) (Some (mkPtok 33 "'0'" 15 16 56)) (mkPtok 6 ")" 15 20 57)))] (CheckSumField (mkSpan (mkPtok 42 "Packet" 16 4 58) (mkPtok 40 "," 17 6 63)) (mkChecksumFieldDecl (mkSpan (mkPtok 42 "Packet" 16 4 58) (mkPtok 40 "," 17 6 63)) None (mkPtok 42 "Packet" 16 4 58) (mkCalculatedFrom (mkSpan (mkPtok 5 "@calculatedFrom(" 16 10 59) (mkPtok 6 ")" 17 0 61)) (mkPtok 5 "@calculatedFrom(" 16 10 59) (mkPtok 31 """x y""" 16 26 60) (mkPtok 6 ")" 17 0 61)) (Some (mkPtok 43 "`a\`" 17 1 62)) (mkPtok 40 "," 17 6 63)))); (mkFieldWithAttr (mkSpan (mkPtok 7 "@lengthOf(" 18 0 64) (mkPtok 40 "," 24 48 99)) [(FALengthOf (mkSpan (mkPtok 7 "@lengthOf(" 18 0 64) (mkPtok 6 ")" 18 13 66)) (mkLengthOf (mkSpan (mkPtok 7 "@lengthOf(" 18 0 64) (mkPtok 6 ")" 18 13 66)) (mkPtok 7 "@lengthOf(" 18 0 64) (mkPtok 42 "T" 18 11 65) (mkPtok 6 ")" 18 13 66)))] (MatchField (mkSpan (mkPtok 38 "match" 18 15 67) (mkPtok 40 "," 24 48 99)) (mkMatchFieldDecl (mkSpan (mkPtok 38 "match" 18 15 67) (mkPtok 3 "}" 24 46 98)) (mkPtok 38 "match" 18 15 67) (mkPtok 42 "matchKey" 18 21 68) (mkPtok 17 "as" 18 30 69) (mkPtok 42 "_x" 18 33 70) (mkPtok 2 "{" 19 0 72) [(mkMatchPair (mkSpan (mkPtok 31 (string_of_bytes [34; 240; 159; 152; 128; 34]%N) 19 2 73) (mkPtok 40 "," 20 8 76)) (MKString (mkPtok 31 (string_of_bytes [34; 240; 159; 152; 128; 34]%N) 19 2 73)) (mkPtok 39 ":" 19 6 74) (mkPtok 42 "stringy" 20 0 75) (Some (mkPtok 40 "," 20 8 76))); (mkMatchPair (mkSpan (mkPtok 30 "4294967296" 21 0 77) (mkPtok 40 "," 21 19 80)) (MKDigits (mkPtok 30 "4294967296" 21 0 77)) (mkPtok 39 ":" 21 10 78) (mkPtok 42 "x_y_z" 21 13 79) (Some (mkPtok 40 "," 21 19 80))); (mkMatchPair (mkSpan (mkPtok 31 """\n""" 21 20 81) (mkPtok 42 "leftPad" 22 2 83)) (MKString (mkPtok 31 """\n""" 21 20 81)) (mkPtok 39 ":" 22 0 82) (mkPtok 42 "leftPad" 22 2 83) None); (mkMatchPair (mkSpan (mkPtok 18 "[" 22 9 84) (mkPtok 40 "," 24 45 97)) (MKList (mkKeyList (mkSpan (mkPtok 18 "[" 22 9 84) (mkPtok 13 "]" 24 37 94)) (mkPtok 18 "[" 22 9 84) (mkPtok 30 "42" 23 0 85) [((mkPtok 40 "," 23 3 86), (mkPtok 30 "42" 23 5 87)); ((mkPtok 40 "," 24 4 88), (mkPtok 31 """it's""" 24 6 89)); ((mkPtok 40 "," 24 13 90), (mkPtok 31 """\n""" 24 15 91)); ((mkPtok 40 "," 24 20 92), (mkPtok 31 """// no comment""" 24 21 93))] (mkPtok 13 "]" 24 37 94))) (mkPtok 39 ":" 24 39 95) (mkPtok 42 "asx" 24 41 96) (Some (mkPtok 40 "," 24 45 97)))] (mkPtok 3 "}" 24 46 98)) (mkPtok 40 "," 24 48 99))); (mkFieldWithAttr (mkSpan (mkPtok 12 "char[" 24 50 100) (mkPtok 40 "," 26 12 105)) [] (MetaField (mkSpan (mkPtok 12 "char[" 24 50 100) (mkPtok 40 "," 26 12 105)) None (mkMetaDecl (mkSpan (mkPtok 12 "char[" 24 50 100) (mkPtok 40 "," 26 12 105)) (TyFixed (mkSpan (mkPtok 12 "char[" 24 50 100) (mkPtok 13 "]" 26 0 103)) (mkFixedString (mkSpan (mkPtok 12 "char[" 24 50 100) (mkPtok 13 "]" 26 0 103)) (mkPtok 12 "char[" 24 50 100) (mkPtok 30 "10" 25 4 101) (mkPtok 13 "]" 26 0 103))) (mkPtok 42 "BodyLength" 26 1 104) None (mkPtok 40 "," 26 12 105)))); (mkFieldWithAttr (mkSpan (mkPtok 32 "@leftPad" 27 0 106) (mkPtok 40 "," 31 5 114)) [(FAPadding (mkSpan (mkPtok 32 "@leftPad" 27 0 106) (mkPtok 6 ")" 28 0 109)) (mkPaddingAttr (mkSpan (mkPtok 32 "@leftPad" 27 0 106) (mkPtok 6 ")" 28 0 109)) (mkPtok 32 "@leftPad" 27 0 106) (mkPtok 8 "(" 27 9 107) (Some (mkPtok 33 "'0'" 27 11 108)) (mkPtok 6 ")" 28 0 109)))] (MetaField (mkSpan (mkPtok 16 "char[]" 28 2 110) (mkPtok 40 "," 31 5 114)) None (mkMetaDecl (mkSpan (mkPtok 16 "char[]" 28 2 110) (mkPtok 40 "," 31 5 114)) (TyDynamic (mkSpan (mkPtok 16 "char[]" 28 2 110) (mkPtok 16 "char[]" 28 2 110)) (mkDynamicString (mkSpan (mkPtok 16 "char[]" 28 2 110) (mkPtok 16 "char[]" 28 2 110)) (mkPtok 16 "char[]" 28 2 110))) (mkPtok 42 "Z9_" 30 4 112) (Some (mkPtok 43 (string_of_bytes [96; 99; 114; 108; 102; 13; 10; 108; 105; 110; 101; 96]%N) 30 8 113)) (mkPtok 40 "," 31 5 114)))); (mkFieldWithAttr (mkSpan (mkPtok 15 "string" 31 7 115) (mkPtok 40 "," 32 4 117)) [] (MetaField (mkSpan (mkPtok 15 "string" 31 7 115) (mkPtok 40 "," 32 4 117)) None (mkMetaDecl (mkSpan (mkPtok 15 "string" 31 7 115) (mkPtok 40 "," 32 4 117)) (TyDynamic (mkSpan (mkPtok 15 "string" 31 7 115) (mkPtok 15 "string" 31 7 115)) (mkDynamicString (mkSpan (mkPtok 15 "string" 31 7 115) (mkPtok 15 "string" 31 7 115)) (mkPtok 15 "string" 31 7 115))) (mkPtok 42 "falsey" 31 14 116) None (mkPtok 40 "," 32 4 117)))); (mkFieldWithAttr (mkSpan (mkPtok 25 "int16" 32 6 118) (mkPtok 40 "," 33 30 124)) [] (CheckSumField (mkSpan (mkPtok 25 "int16" 32 6 118) (mkPtok 40 "," 33 30 124)) (mkChecksumFieldDecl (mkSpan (mkPtok 25 "int16" 32 6 118) (mkPtok 40 "," 33 30 124)) (Some (TyBasic (mkSpan (mkPtok 25 "int16" 32 6 118) (mkPtok 25 "int16" 32 6 118)) (mkBasicType (mkSpan (mkPtok 25 "int16" 32 6 118) (mkPtok 25 "int16" 32 6 118)) (mkPtok 25 "int16" 32 6 118)))) (mkPtok 42 "asx" 33 0 120) (mkCalculatedFrom (mkSpan (mkPtok 5 "@calculatedFrom(" 33 5 121) (mkPtok 6 ")" 33 28 123)) (mkPtok 5 "@calculatedFrom(" 33 5 121) (mkPtok 31 """x y""" 33 22 122) (mkPtok 6 ")" 33 28 123)) None (mkPtok 40 "," 33 30 124)))); (mkFieldWithAttr (mkSpan (mkPtok 42 "u128" 33 31 125) (mkPtok 40 "," 33 47 128)) [] (ObjectField (mkSpan (mkPtok 42 "u128" 33 31 125) (mkPtok 40 "," 33 47 128)) None (mkPtok 42 "u128" 33 31 125) (Some (mkPtok 42 "Z9_" 33 36 126)) (Some (mkPtok 43 "`it's`" 33 40 127)) (mkPtok 40 "," 33 47 128))); (mkFieldWithAttr (mkSpan (mkPtok 32 "@rightPad" 34 4 129) (mkPtok 40 "," 64 11 213)) [(FAPadding (mkSpan (mkPtok 32 "@rightPad" 34 4 129) (mkPtok 6 ")" 38 0 134)) (mkPaddingAttr (mkSpan (mkPtok 32 "@rightPad" 34 4 129) (mkPtok 6 ")" 38 0 134)) (mkPtok 32 "@rightPad" 34 4 129) (mkPtok 8 "(" 37 0 132) (Some (mkPtok 33 "'0'" 37 2 133)) (mkPtok 6 ")" 38 0 134)))] (InerObjectField (mkSpan (mkPtok 42 "Packet" 38 1 135) (mkPtok 40 "," 64 11 213)) None (InerObjectDecl (mkSpan (mkPtok 42 "Packet" 38 1 135) (mkPtok 3 "}" 64 9 212)) (mkPtok 42 "Packet" 38 1 135) (mkPtok 2 "{" 38 8 136) [(MetaField (mkSpan (mkPtok 27 "int64" 40 4 138) (mkPtok 40 "," 41 10 140)) None (mkMetaDecl (mkSpan (mkPtok 27 "int64" 40 4 138) (mkPtok 40 "," 41 10 140)) (TyBasic (mkSpan (mkPtok 27 "int64" 40 4 138) (mkPtok 27 "int64" 40 4 138)) (mkBasicType (mkSpan (mkPtok 27 "int64" 40 4 138) (mkPtok 27 "int64" 40 4 138)) (mkPtok 27 "int64" 40 4 138))) (mkPtok 42 "float" 41 4 139) None (mkPtok 40 "," 41 10 140))); (InerObjectField (mkSpan (mkPtok 36 "repeat" 42 0 141) (mkPtok 40 "," 64 7 211)) (Some (mkPtok 36 "repeat" 42 0 141)) (InerObjectDecl (mkSpan (mkPtok 42 "leftPad" 42 7 142) (mkPtok 3 "}" 64 5 210)) (mkPtok 42 "leftPad" 42 7 142) (mkPtok 2 "{" 42 14 143) [(InerObjectField (mkSpan (mkPtok 36 "repeat" 43 0 144) (mkPtok 40 "," 47 6 166)) (Some (mkPtok 36 "repeat" 43 0 144)) (InerObjectDecl (mkSpan (mkPtok 42 "Z9_" 44 0 145) (mkPtok 3 "}" 47 4 165)) (mkPtok 42 "Z9_" 44 0 145) (mkPtok 2 "{" 44 4 146) [(MatchField (mkSpan (mkPtok 38 "match" 45 4 147) (mkPtok 40 "," 46 59 164)) (mkMatchFieldDecl (mkSpan (mkPtok 38 "match" 45 4 147) (mkPtok 3 "}" 46 57 163)) (mkPtok 38 "match" 45 4 147) (mkPtok 42 "T" 45 10 148) (mkPtok 17 "as" 46 0 149) (mkPtok 42 "lengthOf" 46 3 150) (mkPtok 2 "{" 46 11 151) [(mkMatchPair (mkSpan (mkPtok 31 """`tick`""" 46 13 152) (mkPtok 42 "msg_type" 46 23 154)) (MKString (mkPtok 31 """`tick`""" 46 13 152)) (mkPtok 39 ":" 46 22 153) (mkPtok 42 "msg_type" 46 23 154) None); (mkMatchPair (mkSpan (mkPtok 31 """1""" 46 31 155) (mkPtok 40 "," 46 43 158)) (MKString (mkPtok 31 """1""" 46 31 155)) (mkPtok 39 ":" 46 35 156) (mkPtok 42 "x_y_z" 46 37 157) (Some (mkPtok 40 "," 46 43 158))); (mkMatchPair (mkSpan (mkPtok 30 "0" 46 45 159) (mkPtok 40 "," 46 55 162)) (MKDigits (mkPtok 30 "0" 46 45 159)) (mkPtok 39 ":" 46 47 160) (mkPtok 42 "chars" 46 49 161) (Some (mkPtok 40 "," 46 55 162)))] (mkPtok 3 "}" 46 57 163)) (mkPtok 40 "," 46 59 164))] (mkPtok 3 "}" 47 4 165)) (mkPtok 40 "," 47 6 166)); (InerObjectField (mkSpan (mkPtok 36 "repeat" 47 8 167) (mkPtok 40 "," 58 2 190)) (Some (mkPtok 36 "repeat" 47 8 167)) (InerObjectDecl (mkSpan (mkPtok 42 "trueish" 47 15 168) (mkPtok 3 "}" 58 0 189)) (mkPtok 42 "trueish" 47 15 168) (mkPtok 2 "{" 48 4 169) [(MetaField (mkSpan (mkPtok 14 "zchar[" 48 6 170) (mkPtok 40 "," 50 10 175)) None (mkMetaDecl (mkSpan (mkPtok 14 "zchar[" 48 6 170) (mkPtok 40 "," 50 10 175)) (TyFixed (mkSpan (mkPtok 14 "zchar[" 48 6 170) (mkPtok 13 "]" 49 4 172)) (mkFixedString (mkSpan (mkPtok 14 "zchar[" 48 6 170) (mkPtok 13 "]" 49 4 172)) (mkPtok 14 "zchar[" 48 6 170) (mkPtok 30 "255" 49 0 171) (mkPtok 13 "]" 49 4 172))) (mkPtok 42 "crc" 50 0 173) (Some (mkPtok 43 "`doc`" 50 4 174)) (mkPtok 40 "," 50 10 175))); (LengthField (mkSpan (mkPtok 19 "char" 50 12 176) (mkPtok 40 "," 53 0 182)) (mkLengthFieldDecl (mkSpan (mkPtok 19 "char" 50 12 176) (mkPtok 40 "," 53 0 182)) (Some (TyBasic (mkSpan (mkPtok 19 "char" 50 12 176) (mkPtok 19 "char" 50 12 176)) (mkBasicType (mkSpan (mkPtok 19 "char" 50 12 176) (mkPtok 19 "char" 50 12 176)) (mkPtok 19 "char" 50 12 176)))) (mkPtok 42 "Logon" 50 17 177) (mkLengthOf (mkSpan (mkPtok 7 "@lengthOf(" 50 23 178) (mkPtok 6 ")" 52 4 181)) (mkPtok 7 "@lengthOf(" 50 23 178) (mkPtok 42 "_x" 50 34 179) (mkPtok 6 ")" 52 4 181)) None (mkPtok 40 "," 53 0 182))); (ObjectField (mkSpan (mkPtok 42 "a1" 55 4 184) (mkPtok 40 "," 55 12 186)) None (mkPtok 42 "a1" 55 4 184) None (Some (mkPtok 43 "`doc`" 55 7 185)) (mkPtok 40 "," 55 12 186))] (mkPtok 3 "}" 58 0 189)) (mkPtok 40 "," 58 2 190)); (MatchField (mkSpan (mkPtok 38 "match" 58 4 191) (mkPtok 40 "," 64 4 209)) (mkMatchFieldDecl (mkSpan (mkPtok 38 "match" 58 4 191) (mkPtok 3 "}" 64 2 208)) (mkPtok 38 "match" 58 4 191) (mkPtok 42 "msg_type" 58 10 192) (mkPtok 17 "as" 58 19 193) (mkPtok 42 "zchar" 58 22 194) (mkPtok 2 "{" 58 28 195) [(mkMatchPair (mkSpan (mkPtok 31 """it's""" 58 30 196) (mkPtok 40 "," 63 0 202)) (MKString (mkPtok 31 """it's""" 58 30 196)) (mkPtok 39 ":" 59 0 198) (mkPtok 42 "body" 62 0 201) (Some (mkPtok 40 "," 63 0 202))); (mkMatchPair (mkSpan (mkPtok 31 (string_of_bytes [34; 230; 182; 136; 230; 129; 175; 34]%N) 63 2 203) (mkPtok 40 "," 64 1 207)) (MKString (mkPtok 31 (string_of_bytes [34; 230; 182; 136; 230; 129; 175; 34]%N) 63 2 203)) (mkPtok 39 ":" 63 7 204) (mkPtok 42 "u" 64 0 206) (Some (mkPtok 40 "," 64 1 207)))] (mkPtok 3 "}" 64 2 208)) (mkPtok 40 "," 64 4 209))] (mkPtok 3 "}" 64 5 210)) (mkPtok 40 "," 64 7 211))] (mkPtok 3 "}" 64 9 212)) (mkPtok 40 "," 64 11 213)))] (mkPtok 3 "}" 65 0 214))); (DPacket (mkPacketDef (mkSpan (mkPtok 35 "packet" 66 0 215) (mkPtok 3 "}" 95 3 296)) None (mkPtok 35 "packet" 66 0 215) (mkPtok 42 "As" 67 0 217) (mkPtok 2 "{" 68 0 219) [(mkFieldWithAttr (mkSpan (mkPtok 32 "@leftPad" 69 0 220) (mkPtok 40 "," 77 0 240)) [(FAPadding (mkSpan (mkPtok 32 "@leftPad" 69 0 220) (mkPtok 6 ")" 71 11 224)) (mkPaddingAttr (mkSpan (mkPtok 32 "@leftPad" 69 0 220) (mkPtok 6 ")" 71 11 224)) (mkPtok 32 "@leftPad" 69 0 220) (mkPtok 8 "(" 69 9 221) (Some (mkPtok 33 "'\x00'" 71 4 223)) (mkPtok 6 ")" 71 11 224))); (FATag (mkSpan (mkPtok 9 "@tag(" 71 13 225) (mkPtok 6 ")" 72 4 227)) (mkTagAttr (mkSpan (mkPtok 9 "@tag(" 71 13 225) (mkPtok 6 ")" 72 4 227)) (mkPtok 9 "@tag(" 71 13 225) (mkPtok 30 "255" 71 19 226) (mkPtok 6 ")" 72 4 227))); (FALengthOf (mkSpan (mkPtok 7 "@lengthOf(" 73 4 228) (mkPtok 6 ")" 75 0 231)) (mkLengthOf (mkSpan (mkPtok 7 "@lengthOf(" 73 4 228) (mkPtok 6 ")" 75 0 231)) (mkPtok 7 "@lengthOf(" 73 4 228) (mkPtok 42 "o" 74 0 230) (mkPtok 6 ")" 75 0 231)))] (CheckSumField (mkSpan (mkPtok 14 "zchar[" 75 1 232) (mkPtok 40 "," 77 0 240)) (mkChecksumFieldDecl (mkSpan (mkPtok 14 "zchar[" 75 1 232) (mkPtok 40 "," 77 0 240)) (Some (TyFixed (mkSpan (mkPtok 14 "zchar[" 75 1 232) (mkPtok 13 "]" 75 11 234)) (mkFixedString (mkSpan (mkPtok 14 "zchar[" 75 1 232) (mkPtok 13 "]" 75 11 234)) (mkPtok 14 "zchar[" 75 1 232) (mkPtok 30 "42" 75 8 233) (mkPtok 13 "]" 75 11 234)))) (mkPtok 42 "string_" 75 13 235) (mkCalculatedFrom (mkSpan (mkPtok 5 "@calculatedFrom(" 75 21 236) (mkPtok 6 ")" 76 7 238)) (mkPtok 5 "@calculatedFrom(" 75 21 236) (mkPtok 31 """a\""b""" 76 0 237) (mkPtok 6 ")" 76 7 238)) (Some (mkPtok 43 (string_of_bytes [96; 230; 182; 136; 230; 129; 175; 231; 177; 187; 229; 158; 139; 96]%N) 76 8 239)) (mkPtok 40 "," 77 0 240)))); (mkFieldWithAttr (mkSpan (mkPtok 16 "char[]" 77 2 241) (mkPtok 40 "," 79 16 247)) [] (LengthField (mkSpan (mkPtok 16 "char[]" 77 2 241) (mkPtok 40 "," 79 16 247)) (mkLengthFieldDecl (mkSpan (mkPtok 16 "char[]" 77 2 241) (mkPtok 40 "," 79 16 247)) (Some (TyDynamic (mkSpan (mkPtok 16 "char[]" 77 2 241) (mkPtok 16 "char[]" 77 2 241)) (mkDynamicString (mkSpan (mkPtok 16 "char[]" 77 2 241) (mkPtok 16 "char[]" 77 2 241)) (mkPtok 16 "char[]" 77 2 241)))) (mkPtok 42 "repeatCount" 77 9 242) (mkLengthOf (mkSpan (mkPtok 7 "@lengthOf(" 78 0 244) (mkPtok 6 ")" 79 14 246)) (mkPtok 7 "@lengthOf(" 78 0 244) (mkPtok 42 "calculatedFrom" 79 0 245) (mkPtok 6 ")" 79 14 246)) None (mkPtok 40 "," 79 16 247)))); (mkFieldWithAttr (mkSpan (mkPtok 42 "metadata" 79 17 248) (mkPtok 40 "," 82 4 253)) [] (CheckSumField (mkSpan (mkPtok 42 "metadata" 79 17 248) (mkPtok 40 "," 82 4 253)) (mkChecksumFieldDecl (mkSpan (mkPtok 42 "metadata" 79 17 248) (mkPtok 40 "," 82 4 253)) None (mkPtok 42 "metadata" 79 17 248) (mkCalculatedFrom (mkSpan (mkPtok 5 "@calculatedFrom(" 79 26 249) (mkPtok 6 ")" 81 0 251)) (mkPtok 5 "@calculatedFrom(" 79 26 249) (mkPtok 31 """abc""" 80 4 250) (mkPtok 6 ")" 81 0 251)) (Some (mkPtok 43 "`two words`" 81 2 252)) (mkPtok 40 "," 82 4 253)))); (mkFieldWithAttr (mkSpan (mkPtok 7 "@lengthOf(" 85 0 256) (mkPtok 40 "," 95 1 295)) [(FALengthOf (mkSpan (mkPtok 7 "@lengthOf(" 85 0 256) (mkPtok 6 ")" 85 19 258)) (mkLengthOf (mkSpan (mkPtok 7 "@lengthOf(" 85 0 256) (mkPtok 6 ")" 85 19 258)) (mkPtok 7 "@lengthOf(" 85 0 256) (mkPtok 42 "matchKey" 85 10 257) (mkPtok 6 ")" 85 19 258)))] (MatchField (mkSpan (mkPtok 38 "match" 85 21 259) (mkPtok 40 "," 95 1 295)) (mkMatchFieldDecl (mkSpan (mkPtok 38 "match" 85 21 259) (mkPtok 3 "}" 95 0 294)) (mkPtok 38 "match" 85 21 259) (mkPtok 42 "packetx" 86 0 260) (mkPtok 17 "as" 86 8 261) (mkPtok 42 "falsey" 86 11 262) (mkPtok 2 "{" 86 18 263) [(mkMatchPair (mkSpan (mkPtok 30 "007" 86 20 264) (mkPtok 40 "," 87 3 267)) (MKDigits (mkPtok 30 "007" 86 20 264)) (mkPtok 39 ":" 87 0 265) (mkPtok 42 "A" 87 2 266) (Some (mkPtok 40 "," 87 3 267))); (mkMatchPair (mkSpan (mkPtok 31 """1""" 87 4 268) (mkPtok 40 "," 87 18 271)) (MKString (mkPtok 31 """1""" 87 4 268)) (mkPtok 39 ":" 87 8 269) (mkPtok 42 "packetx" 87 10 270) (Some (mkPtok 40 "," 87 18 271))); (mkMatchPair (mkSpan (mkPtok 30 "7" 88 0 273) (mkPtok 40 "," 89 0 276)) (MKDigits (mkPtok 30 "7" 88 0 273)) (mkPtok 39 ":" 88 2 274) (mkPtok 42 "charz" 88 3 275) (Some (mkPtok 40 "," 89 0 276))); (mkMatchPair (mkSpan (mkPtok 18 "[" 89 2 277) (mkPtok 42 "stringy" 89 12 281)) (MKList (mkKeyList (mkSpan (mkPtok 18 "[" 89 2 277) (mkPtok 13 "]" 89 10 279)) (mkPtok 18 "[" 89 2 277) (mkPtok 30 "65535" 89 4 278) [] (mkPtok 13 "]" 89 10 279))) (mkPtok 39 ":" 89 11 280) (mkPtok 42 "stringy" 89 12 281) None); (mkMatchPair (mkSpan (mkPtok 30 "65535" 89 20 282) (mkPtok 42 "a1" 90 5 284)) (MKDigits (mkPtok 30 "65535" 89 20 282)) (mkPtok 39 ":" 90 4 283) (mkPtok 42 "a1" 90 5 284) None); (mkMatchPair (mkSpan (mkPtok 18 "[" 90 8 285) (mkPtok 42 "Logon" 92 4 291)) (MKList (mkKeyList (mkSpan (mkPtok 18 "[" 90 8 285) (mkPtok 13 "]" 91 3 289)) (mkPtok 18 "[" 90 8 285) (mkPtok 31 (string_of_bytes [34; 97; 9; 98; 34]%N) 90 11 286) [((mkPtok 40 "," 91 0 287), (mkPtok 30 "1" 91 2 288))] (mkPtok 13 "]" 91 3 289))) (mkPtok 39 ":" 91 5 290) (mkPtok 42 "Logon" 92 4 291) None)] (mkPtok 3 "}" 95 0 294)) (mkPtok 40 "," 95 1 295)))] (mkPtok 3 "}" 95 3 296)))])).
Eval vm_compute in ("<<<M367>>>" ++ check (runes_of_ascii "MetaData string_ {
char[]
Packet `
`
    , i8i8 A  ,
string A
`it's`
,// trailing space 
uint64 int
, }
// trailing space 
// " ++ [27880; 37322]%N ++ runes_of_ascii "
MetaData Z9_ { Header crc , // " ++ [27880; 37322]%N ++ runes_of_ascii "
} MetaData T {// c
float32 Z9_ `// not a comment`
    , char[] /// triple
uint8x`line1
line2` ,
Header u8x,
char[ 3] a1	,
    }MetaData Logon { a1 // " ++ [128512]%N ++ runes_of_ascii " emoji
repeatCount `say ""hi""` , char[
    42  ] Foo
    ,
    zchar[ 00
    ] metadata
,
int16  zchar `it's` , }")).
Eval vm_compute in ("<<<M399>>>" ++ check (runes_of_ascii "packet zchar
{BodyLength x // `tick` ""quote"" 'q'
, // trailing space 
@rightPad ('0' )
match _x as x { [
    """ ++ [128512]%N ++ runes_of_ascii """ ] : falsey  , 65535
:  chars 0 : falsey , [ ""packet""
    ] :// c
metadata	0 : repeatCount,00//
:  packetx ,
} , } packet crc  { match body
//x
//x
as len {
7:
    leftPad
,007 : x_y_z , 00
:
    x_y_z, [ 0, 10 ,
10 , //	t
10	] :	calculatedFrom // packet A { u8 x, }
, ""packet"" : calculatedFrom } , @leftPad ( '0' ) @tag(
4294967296
    ) match u128 // c
as trueish
{	3
: i64_
    ,
    }, char[255
]o @lengthOf(leftPad
    )
`u8 x,` , } MetaData o {float
roots ,
    x_y_z MetaDataX , packetx zchar
    , }")).
Eval vm_compute in ("<<<M431>>>" ++ check (runes_of_ascii "options	{ roots = ""CRC32""zchar
= string; f32a
=string ; pack
    =
""x y"" }options {
    // @lengthOf(
    }")).
Eval vm_compute in ("<<<M463>>>" ++ check (runes_of_ascii " /// triple")).
Eval vm_compute in ("<<<M495>>>" ++ check (runes_of_ascii "/// triple
MetaData	asx { roots x_y_z ,
calculatedFrom o ,
}
packet pack { roots
    // @lengthOf(
    , }
")).
Eval vm_compute in ("<<<M527>>>" ++ check (runes_of_ascii "  packet pack { u8
len/// triple
,@rightPad(  ) u64 A@calculatedFrom( ""\n"" )
, // trailing space 
@lengthOf(
    o )
    @leftPad() @leftPad (
)int32 metadata, matchKey ,
} MetaData matchKey { }packet rootA {}options { A= zchar[65535]float = // `tick` ""quote"" 'q'
3
    roots //	t
= 7 Pad
    // trailing space 
    =
    10 ;trueish =false;}

")).
Eval vm_compute in ("<<<M559>>>" ++ check (runes_of_ascii "//
MetaData o { i16 zchar // a // b
, char[//	t
00
] string_	, }")).
Eval vm_compute in ("<<<T559>>>" ++ terms [mkTok 44 "//" 1 0 true; mkTok 37 "MetaData" 2 0 false; mkTok 42 "o" 2 9 false; mkTok 2 "{" 2 11 false; mkTok 25 "i16" 2 13 false; mkTok 42 "zchar" 2 17 false; mkTok 44 "// a // b" 2 23 true; mkTok 40 "," 3 0 false; mkTok 12 "char[" 3 2 false; mkTok 44 (string_of_bytes [47; 47; 9; 116]%N) 3 7 true; mkTok 30 "00" 4 0 false; mkTok 13 "]" 5 0 false; mkTok 42 "string_" 5 2 false; mkTok 40 "," 5 10 false; mkTok 3 "}" 5 12 false; mkTok 0 "<EOF>" 5 13 false] (mkPacket (mkPtok 37 "MetaData" 2 0 1) (Some (mkPtok 3 "}" 5 12 14)) [(DMeta (mkMetaDef (mkSpan (mkPtok 37 "MetaData" 2 0 1) (mkPtok 3 "}" 5 12 14)) (mkPtok 37 "MetaData" 2 0 1) (mkPtok 42 "o" 2 9 2) (mkPtok 2 "{" 2 11 3) [(MIDecl (mkMetaDecl (mkSpan (mkPtok 25 "i16" 2 13 4) (mkPtok 40 "," 3 0 7)) (TyBasic (mkSpan (mkPtok 25 "i16" 2 13 4) (mkPtok 25 "i16" 2 13 4)) (mkBasicType (mkSpan (mkPtok 25 "i16" 2 13 4) (mkPtok 25 "i16" 2 13 4)) (mkPtok 25 "i16" 2 13 4))) (mkPtok 42 "zchar" 2 17 5) None (mkPtok 40 "," 3 0 7))); (MIDecl (mkMetaDecl (mkSpan (mkPtok 12 "char[" 3 2 8) (mkPtok 40 "," 5 10 13)) (TyFixed (mkSpan (mkPtok 12 "char[" 3 2 8) (mkPtok 13 "]" 5 0 11)) (mkFixedString (mkSpan (mkPtok 12 "char[" 3 2 8) (mkPtok 13 "]" 5 0 11)) (mkPtok 12 "char[" 3 2 8) (mkPtok 30 "00" 4 0 10) (mkPtok 13 "]" 5 0 11))) (mkPtok 42 "string_" 5 2 12) None (mkPtok 40 "," 5 10 13)))] (mkPtok 3 "}" 5 12 14)))])).
Eval vm_compute in ("<<<M591>>>" ++ check (runes_of_ascii "root packet A	{ // packet A { u8 x, }
char[]  msg_type
    `two words` , // a // b
@calculatedFrom( ""abc"" )
@leftPad
(
'\x00'
) @calculatedFrom(
    ""x y""
    ) repeat
//x
// @lengthOf(
int64 chars, zchar[ 1
] _x@calculatedFrom(	""1""
    ) `doc` ,
// c
//x
}packet stringy
{int8
calculatedFrom  @lengthOf(_x ) `line1
line2` , @tag( 42 ) char[ 10 ]//
Logon@lengthOf( roots ) `" ++ [233]%N ++ runes_of_ascii "`// " ++ [128512]%N ++ runes_of_ascii " emoji
, i32 //
options1  , i16 x_y_z ,
    } 	 ")).
Eval vm_compute in ("<<<M623>>>" ++ check (runes_of_ascii "MetaData f32a { u32 roots , T matchKey  `tab	here` ,
/// triple
// packet A { u8 x, }
} 	 ")).
Eval vm_compute in ("<<<M655>>>" ++ check (runes_of_ascii "root packet // " ++ [27880; 37322]%N ++ runes_of_ascii "
_x	{repeat int64 trueish//x
, string calculatedFrom , Z9_ As
    , match tag
as trueish { 65535:  repeatCount
, }//
, }
")).
Eval vm_compute in ("<<<M687>>>" ++ check (runes_of_ascii "packet
//	t
//x
As
{ matchKey@lengthOf(string_)
    , matchKey `say ""hi""`// packet A { u8 x, }
,}")).
Eval vm_compute in ("<<<M719>>>" ++ check (runes_of_ascii "packet
A //
{
@tag(255
) @lengthOf(
// packet A { u8 x, }
//
x
    )  u `crlf
line`,
repeat
body { zchar[ 00
    //	t
    ]  crc`a\`
    , }// c
, }")).
Eval vm_compute in ("<<<M751>>>" ++ check (runes_of_ascii "  root  packet As { }")).
Eval vm_compute in ("<<<M783>>>" ++ check (runes_of_ascii "packet  Z9_{
    }
")).
Eval vm_compute in ("<<<T783>>>" ++ terms [mkTok 35 "packet" 1 0 false; mkTok 42 "Z9_" 1 8 false; mkTok 2 "{" 1 11 false; mkTok 3 "}" 2 4 false; mkTok 0 "<EOF>" 3 0 false] (mkPacket (mkPtok 35 "packet" 1 0 0) (Some (mkPtok 3 "}" 2 4 3)) [(DPacket (mkPacketDef (mkSpan (mkPtok 35 "packet" 1 0 0) (mkPtok 3 "}" 2 4 3)) None (mkPtok 35 "packet" 1 0 0) (mkPtok 42 "Z9_" 1 8 1) (mkPtok 2 "{" 1 11 2) [] (mkPtok 3 "}" 2 4 3)))])).
Eval vm_compute in ("<<<M815>>>" ++ check (runes_of_ascii "MetaData// packet A { u8 x, }
matchKey { u64
leftPad
    //x
    ,
u32 T `it's` , uint8 x,
    // packet A { u8 x, }
    char[] f32a	`say ""hi""`
, f64// trailing space 
stringy ``	, lengthOf
Packet  `say ""hi""`, }")).
Eval vm_compute in ("<<<M847>>>" ++ check (runes_of_ascii "packet MetaDataX
{ char[]
len , // a // b
float64 len
@calculatedFrom( ""packet"" )
, }
")).
Eval vm_compute in ("<<<M879>>>" ++ check (runes_of_ascii "// `tick` ""quote"" 'q'
MetaData	BodyLength {
char[ 00
//x
// " ++ [27880; 37322]%N ++ runes_of_ascii "
]
A
`a\`	, zchar[// trailing space 
0123456789 ] T // packet A { u8 x, }
`tab	here` ,As asx `" ++ [28040; 24687; 31867; 22411]%N ++ runes_of_ascii "` ,
char[]falsey ,  o // " ++ [128512]%N ++ runes_of_ascii " emoji
Foo `tab	here` , } root packet
i64_ {
    repeat uint64 o,
@calculatedFrom(
""abc"" ) uint8x ,
@tag( 4294967296
    ) char[ 255]
    repeatCount `` ,	}")).
Eval vm_compute in ("<<<M911>>>" ++ check (runes_of_ascii "
MetaData Header { } root// " ++ [128512]%N ++ runes_of_ascii " emoji
packet i8i8{ @rightPad // trailing space 
(
'0' )	u16
u8x @lengthOf( Header )
`u8 x,`,
}
    MetaData
u128
{  zchar[ 00 ]falsey, body repeatCount , len
    repeatCount
    ,
u8 chars  `line1
line2`
    , }")).
Eval vm_compute in ("<<<M943>>>" ++ check (runes_of_ascii "packet
crc
    {
@leftPad ( ' ' ) u64 packetx @lengthOf(trueish ) ,
float
`line1
line2` ,
// packet A { u8 x, }
// trailing space 
}packet
msg_type{zchar[ 3 ]i8i8
@lengthOf( u )	,char[] roots , match x_y_z as
uint8x
{ ""a	b"":body	, } /// triple
,
@tag(
42 )	@rightPad
// `tick` ""quote"" 'q'
//x
(
'0'	) Packet
// " ++ [128512]%N ++ runes_of_ascii " emoji
// packet A { u8 x, }
@calculatedFrom( ""1"" // c
) `
`,@lengthOf(  MetaDataX ) i32 // `tick` ""quote"" 'q'
trueish,
@rightPad ( ' '  )
    u128
@lengthOf( _x )  , }")).
Eval vm_compute in ("<<<M975>>>" ++ check (runes_of_ascii "//x
packet zchar { match a1 as
BodyLength
    {
    [// " ++ [128512]%N ++ runes_of_ascii " emoji
""a\\""] :trueish ,
} ,@leftPad (
    //	t
    '0' )	repeatCount @calculatedFrom( ""a	b"" )
`tab	here`
    ,int8 o @lengthOf(
i64_ )
    `u8 x,` ,
    u8 chars	,
} packet trueish {@lengthOf( crc )@calculatedFrom( """ ++ [128512]%N ++ runes_of_ascii """) @calculatedFrom(  ""`tick`""  )//x
match BodyLength as Z9_
    {
    3: falsey [ 42 , 00 , 3
, 10
]
    :
    packetx	,255:
metadata	,} // trailing space 
, repeat x_y_z
Header , @calculatedFrom( ""CRC32"" ) Z9_ // trailing space 
{	x
    // @lengthOf(
    @calculatedFrom( ""1""
// packet A { u8 x, }
//x
) `it's`	,
// packet A { u8 x, }
// trailing space 
string
Header, }
,
    @lengthOf( roots  ) i64_
    , }
// @lengthOf(
")).
Eval vm_compute in ("<<<M1007>>>" ++ check (runes_of_ascii "options
{ u8x =  0123456789
    ;
    } packet rootA {
    i8i8 repeatCount
    ,}
// " ++ [27880; 37322]%N ++ runes_of_ascii "
// a // b
root packet MetaDataX { // @lengthOf(
Logon // " ++ [27880; 37322]%N ++ runes_of_ascii "
{int64 i8i8 @lengthOf(  Header ) ,
    //x
    } ,}	root packet // @lengthOf(
Pad {	roots { i16 Logon
    @calculatedFrom( """ ++ [233]%N ++ runes_of_ascii "t" ++ [233]%N ++ runes_of_ascii """) , match As	as float
{ [ ""packet"" //
, ""// no comment""
    ] : a1
, 65535	: f32a, [
    ""a\""b""
    ,
""// no comment"" , ""a	b"",
    //
    ""a	b"",
""a\\""]
:
x , ""{,}""
:	rootA
,
10
:	msg_type
, } ,
}
    ,
} options {}
")).
Eval vm_compute in ("<<<T1007>>>" ++ terms [mkTok 1 "options" 1 0 false; mkTok 2 "{" 2 0 false; mkTok 42 "u8x" 2 2 false; mkTok 4 "=" 2 6 false; mkTok 30 "0123456789" 2 9 false; mkTok 41 ";" 3 4 false; mkTok 3 "}" 4 4 false; mkTok 35 "packet" 4 6 false; mkTok 42 "rootA" 4 13 false; mkTok 2 "{" 4 19 false; mkTok 42 "i8i8" 5 4 false; mkTok 42 "repeatCount" 5 9 false; mkTok 40 "," 6 4 false; mkTok 3 "}" 6 5 false; mkTok 44 (string_of_bytes [47; 47; 32; 230; 179; 168; 233; 135; 138]%N) 7 0 true; mkTok 44 "// a // b" 8 0 true; mkTok 34 "root" 9 0 false; mkTok 35 "packet" 9 5 false; mkTok 42 "MetaDataX" 9 12 false; mkTok 2 "{" 9 22 false; mkTok 44 "// @lengthOf(" 9 24 true; mkTok 42 "Logon" 10 0 false; mkTok 44 (string_of_bytes [47; 47; 32; 230; 179; 168; 233; 135; 138]%N) 10 6 true; mkTok 2 "{" 11 0 false; mkTok 27 "int64" 11 1 false; mkTok 42 "i8i8" 11 7 false; mkTok 7 "@lengthOf(" 11 12 false; mkTok 42 "Header" 11 24 false; mkTok 6 ")" 11 31 false; mkTok 40 "," 11 33 false; mkTok 44 "//x" 12 4 true; mkTok 3 "}" 13 4 false; mkTok 40 "," 13 6 false; mkTok 3 "}" 13 7 false; mkTok 34 "root" 13 9 false; mkTok 35 "packet" 13 14 false; mkTok 44 "// @lengthOf(" 13 21 true; mkTok 42 "Pad" 14 0 false; mkTok 2 "{" 14 4 false; mkTok 42 "roots" 14 6 false; mkTok 2 "{" 14 12 false; mkTok 25 "i16" 14 14 false; mkTok 42 "Logon" 14 18 false; mkTok 5 "@calculatedFrom(" 15 4 false; mkTok 31 (string_of_bytes [34; 195; 169; 116; 195; 169; 34]%N) 15 21 false; mkTok 6 ")" 15 26 false; mkTok 40 "," 15 28 false; mkTok 38 "match" 15 30 false; mkTok 42 "As" 15 36 false; mkTok 17 "as" 15 39 false; mkTok 42 "float" 15 42 false; mkTok 2 "{" 16 0 false; mkTok 18 "[" 16 2 false; mkTok 31 """packet""" 16 4 false; mkTok 44 "//" 16 13 true; mkTok 40 "," 17 0 false; mkTok 31 """// no comment""" 17 2 false; mkTok 13 "]" 18 4 false; mkTok 39 ":" 18 6 false; mkTok 42 "a1" 18 8 false; mkTok 40 "," 19 0 false; mkTok 30 "65535" 19 2 false; mkTok 39 ":" 19 8 false; mkTok 42 "f32a" 19 10 false; mkTok 40 "," 19 14 false; mkTok 18 "[" 19 16 false; mkTok 31 """a\""b""" 20 4 false; mkTok 40 "," 21 4 false; mkTok 31 """// no comment""" 22 0 false; mkTok 40 "," 22 16 false; mkTok 31 (string_of_bytes [34; 97; 9; 98; 34]%N) 22 18 false; mkTok 40 "," 22 23 false; mkTok 44 "//" 23 4 true; mkTok 31 (string_of_bytes [34; 97; 9; 98; 34]%N) 24 4 false; mkTok 40 "," 24 9 false; mkTok 31 """a\\""" 25 0 false; mkTok 13 "]" 25 5 false; mkTok 39 ":" 26 0 false; mkTok 42 "x" 27 0 false; mkTok 40 "," 27 2 false; mkTok 31 """{,}""" 27 4 false; mkTok 39 ":" 28 0 false; mkTok 42 "rootA" 28 2 false; mkTok 40 "," 29 0 false; mkTok 30 "10" 30 0 false; mkTok 39 ":" 31 0 false; mkTok 42 "msg_type" 31 2 false; mkTok 40 "," 32 0 false; mkTok 3 "}" 32 2 false; mkTok 40 "," 32 4 false; mkTok 3 "}" 33 0 false; mkTok 40 "," 34 4 false; mkTok 3 "}" 35 0 false; mkTok 1 "options" 35 2 false; mkTok 2 "{" 35 10 false; mkTok 3 "}" 35 11 false; mkTok 0 "<EOF>" 36 0 false] (mkPacket (mkPtok 1 "options" 1 0 0) (Some (mkPtok 3 "}" 35 11 95)) [(DOption (mkOptionDef (mkSpan (mkPtok 1 "options" 1 0 0) (mkPtok 3 "}" 4 4 6)) (mkPtok 1 "options" 1 0 0) (mkPtok 2 "{" 2 0 1) [(mkOptionDecl (mkSpan (mkPtok 42 "u8x" 2 2 2) (mkPtok 41 ";" 3 4 5)) (mkPtok 42 "u8x" 2 2 2) (mkPtok 4 "=" 2 6 3) (VDigits (mkSpan (mkPtok 30 "0123456789" 2 9 4) (mkPtok 30 "0123456789" 2 9 4)) (mkPtok 30 "0123456789" 2 9 4)) (Some (mkPtok 41 ";" 3 4 5)))] (mkPtok 3 "}" 4 4 6))); (DPacket (mkPacketDef (mkSpan (mkPtok 35 "packet" 4 6 7) (mkPtok 3 "}" 6 5 13)) None (mkPtok 35 "packet" 4 6 7) (mkPtok 42 "rootA" 4 13 8) (mkPtok 2 "{" 4 19 9) [(mkFieldWithAttr (mkSpan (mkPtok 42 "i8i8" 5 4 10) (mkPtok 40 "," 6 4 12)) [] (ObjectField (mkSpan (mkPtok 42 "i8i8" 5 4 10) (mkPtok 40 "," 6 4 12)) None (mkPtok 42 "i8i8" 5 4 10) (Some (mkPtok 42 "repeatCount" 5 9 11)) None (mkPtok 40 "," 6 4 12)))] (mkPtok 3 "}" 6 5 13))); (DPacket (mkPacketDef (mkSpan (mkPtok 34 "root" 9 0 16) (mkPtok 3 "}" 13 7 33)) (Some (mkPtok 34 "root" 9 0 16)) (mkPtok 35 "packet" 9 5 17) (mkPtok 42 "MetaDataX" 9 12 18) (mkPtok 2 "{" 9 22 19) [(mkFieldWithAttr (mkSpan (mkPtok 42 "Logon" 10 0 21) (mkPtok 40 "," 13 6 32)) [] (InerObjectField (mkSpan (mkPtok 42 "Logon" 10 0 21) (mkPtok 40 "," 13 6 32)) None (InerObjectDecl (mkSpan (mkPtok 42 "Logon" 10 0 21) (mkPtok 3 "}" 13 4 31)) (mkPtok 42 "Logon" 10 0 21) (mkPtok 2 "{" 11 0 23) [(LengthField (mkSpan (mkPtok 27 "int64" 11 1 24) (mkPtok 40 "," 11 33 29)) (mkLengthFieldDecl (mkSpan (mkPtok 27 "int64" 11 1 24) (mkPtok 40 "," 11 33 29)) (Some (TyBasic (mkSpan (mkPtok 27 "int64" 11 1 24) (mkPtok 27 "int64" 11 1 24)) (mkBasicType (mkSpan (mkPtok 27 "int64" 11 1 24) (mkPtok 27 "int64" 11 1 24)) (mkPtok 27 "int64" 11 1 24)))) (mkPtok 42 "i8i8" 11 7 25) (mkLengthOf (mkSpan (mkPtok 7 "@lengthOf(" 11 12 26) (mkPtok 6 ")" 11 31 28)) (mkPtok 7 "@lengthOf(" 11 12 26) (mkPtok 42 "Header" 11 24 27) (mkPtok 6 ")" 11 31 28)) None (mkPtok 40 "," 11 33 29)))] (mkPtok 3 "}" 13 4 31)) (mkPtok 40 "," 13 6 32)))] (mkPtok 3 "}" 13 7 33))); (DPacket (mkPacketDef (mkSpan (mkPtok 34 "root" 13 9 34) (mkPtok 3 "}" 35 0 92)) (Some (mkPtok 34 "root" 13 9 34)) (mkPtok 35 "packet" 13 14 35) (mkPtok 42 "Pad" 14 0 37) (mkPtok 2 "{" 14 4 38) [(mkFieldWithAttr (mkSpan (mkPtok 42 "roots" 14 6 39) (mkPtok 40 "," 34 4 91)) [] (InerObjectField (mkSpan (mkPtok 42 "roots" 14 6 39) (mkPtok 40 "," 34 4 91)) None (InerObjectDecl (mkSpan (mkPtok 42 "roots" 14 6 39) (mkPtok 3 "}" 33 0 90)) (mkPtok 42 "roots" 14 6 39) (mkPtok 2 "{" 14 12 40) [(CheckSumField (mkSpan (mkPtok 25 "i16" 14 14 41) (mkPtok 40 "," 15 28 46)) (mkChecksumFieldDecl (mkSpan (mkPtok 25 "i16" 14 14 41) (mkPtok 40 "," 15 28 46)) (Some (TyBasic (mkSpan (mkPtok 25 "i16" 14 14 41) (mkPtok 25 "i16" 14 14 41)) (mkBasicType (mkSpan (mkPtok 25 "i16" 14 14 41) (mkPtok 25 "i16" 14 14 41)) (mkPtok 25 "i16" 14 14 41)))) (mkPtok 42 "Logon" 14 18 42) (mkCalculatedFrom (mkSpan (mkPtok 5 "@calculatedFrom(" 15 4 43) (mkPtok 6 ")" 15 26 45)) (mkPtok 5 "@calculatedFrom(" 15 4 43) (mkPtok 31 (string_of_bytes [34; 195; 169; 116; 195; 169; 34]%N) 15 21 44) (mkPtok 6 ")" 15 26 45)) None (mkPtok 40 "," 15 28 46))); (MatchField (mkSpan (mkPtok 38 "match" 15 30 47) (mkPtok 40 "," 32 4 89)) (mkMatchFieldDecl (mkSpan (mkPtok 38 "match" 15 30 47) (mkPtok 3 "}" 32 2 88)) (mkPtok 38 "match" 15 30 47) (mkPtok 42 "As" 15 36 48) (mkPtok 17 "as" 15 39 49) (mkPtok 42 "float" 15 42 50) (mkPtok 2 "{" 16 0 51) [(mkMatchPair (mkSpan (mkPtok 18 "[" 16 2 52) (mkPtok 40 "," 19 0 60)) (MKList (mkKeyList (mkSpan (mkPtok 18 "[" 16 2 52) (mkPtok 13 "]" 18 4 57)) (mkPtok 18 "[" 16 2 52) (mkPtok 31 """packet""" 16 4 53) [((mkPtok 40 "," 17 0 55), (mkPtok 31 """// no comment""" 17 2 56))] (mkPtok 13 "]" 18 4 57))) (mkPtok 39 ":" 18 6 58) (mkPtok 42 "a1" 18 8 59) (Some (mkPtok 40 "," 19 0 60))); (mkMatchPair (mkSpan (mkPtok 30 "65535" 19 2 61) (mkPtok 40 "," 19 14 64)) (MKDigits (mkPtok 30 "65535" 19 2 61)) (mkPtok 39 ":" 19 8 62) (mkPtok 42 "f32a" 19 10 63) (Some (mkPtok 40 "," 19 14 64))); (mkMatchPair (mkSpan (mkPtok 18 "[" 19 16 65) (mkPtok 40 "," 27 2 79)) (MKList (mkKeyList (mkSpan (mkPtok 18 "[" 19 16 65) (mkPtok 13 "]" 25 5 76)) (mkPtok 18 "[" 19 16 65) (mkPtok 31 """a\""b""" 20 4 66) [((mkPtok 40 "," 21 4 67), (mkPtok 31 """// no comment""" 22 0 68)); ((mkPtok 40 "," 22 16 69), (mkPtok 31 (string_of_bytes [34; 97; 9; 98; 34]%N) 22 18 70)); ((mkPtok 40 "," 22 23 71), (mkPtok 31 (string_of_bytes [34; 97; 9; 98; 34]%N) 24 4 73)); ((mkPtok 40 "," 24 9 74), (mkPtok 31 """a\\""" 25 0 75))] (mkPtok 13 "]" 25 5 76))) (mkPtok 39 ":" 26 0 77) (mkPtok 42 "x" 27 0 78) (Some (mkPtok 40 "," 27 2 79))); (mkMatchPair (mkSpan (mkPtok 31 """{,}""" 27 4 80) (mkPtok 40 "," 29 0 83)) (MKString (mkPtok 31 """{,}""" 27 4 80)) (mkPtok 39 ":" 28 0 81) (mkPtok 42 "rootA" 28 2 82) (Some (mkPtok 40 "," 29 0 83))); (mkMatchPair (mkSpan (mkPtok 30 "10" 30 0 84) (mkPtok 40 "," 32 0 87)) (MKDigits (mkPtok 30 "10" 30 0 84)) (mkPtok 39 ":" 31 0 85) (mkPtok 42 "msg_type" 31 2 86) (Some (mkPtok 40 "," 32 0 87)))] (mkPtok 3 "}" 32 2 88)) (mkPtok 40 "," 32 4 89))] (mkPtok 3 "}" 33 0 90)) (mkPtok 40 "," 34 4 91)))] (mkPtok 3 "}" 35 0 92))); (DOption (mkOptionDef (mkSpan (mkPtok 1 "options" 35 2 93) (mkPtok 3 "}" 35 11 95)) (mkPtok 1 "options" 35 2 93) (mkPtok 2 "{" 35 10 94) [] (mkPtok 3 "}" 35 11 95)))])).
Eval vm_compute in ("<<<M1039>>>" ++ check (runes_of_ascii "packet
f32a {int16 x	@calculatedFrom( ""{,}"" ) ,  repeat char[]
    As	, repeat char[] u128 , stringy @calculatedFrom( ""a	b"") ,
    } MetaData A
    { zchar[
    65535	] //
body,}")).
Eval vm_compute in ("<<<M1071>>>" ++ check (runes_of_ascii "packet Logon { repeat
    u64
a1
    //
    `u8 x,`,uint16 string_ @lengthOf( BodyLength )
, @tag( 7 ) @tag( 7 )@rightPad
    (' '
) metadata ,
    repeat	char[ 007 ] Foo
// `tick` ""quote"" 'q'
// trailing space 
`u8 x,` , }

")).
Eval vm_compute in ("<<<M1103>>>" ++ check (runes_of_ascii " // " ++ [27880; 37322]%N)).
Eval vm_compute in ("<<<M1135>>>" ++ check (runes_of_ascii "options {
//	t
// packet A { u8 x, }
roots // packet A { u8 x, }
= char[42 ]
; }")).
Eval vm_compute in ("<<<M1167>>>" ++ check (runes_of_ascii "packet // packet A { u8 x, }
rootA
{
}")).
Eval vm_compute in ("<<<M1199>>>" ++ check (runes_of_ascii "
packet	Packet {
    @calculatedFrom(
    ""1""  )
uint8x, @leftPad	('\x00'
    /// triple
    ) char[] f32a @lengthOf( /// triple
f32a // packet A { u8 x, }
) `a\` ,  }

")).
Eval vm_compute in ("<<<M1231>>>" ++ check (runes_of_ascii "
options  {Foo =
    true // trailing space 
;}
    packet
u128{ @calculatedFrom( ""x y"")  lengthOf@lengthOf(
msg_type)	`tab	here` ,
    asx
x
, zchar[ 10
    // c
    ] i64_ , repeat body ,
char[255 // @lengthOf(
]asx@calculatedFrom( """ ++ [128512]%N ++ runes_of_ascii """
    )
`crlf
line`,u128
    string_ ,
int { zchar[ 7
]_x , }  , }")).
Eval vm_compute in ("<<<T1231>>>" ++ terms [mkTok 1 "options" 2 0 false; mkTok 2 "{" 2 9 false; mkTok 42 "Foo" 2 10 false; mkTok 4 "=" 2 14 false; mkTok 10 "true" 3 4 false; mkTok 44 "// trailing space " 3 9 true; mkTok 41 ";" 4 0 false; mkTok 3 "}" 4 1 false; mkTok 35 "packet" 5 4 false; mkTok 42 "u128" 6 0 false; mkTok 2 "{" 6 4 false; mkTok 5 "@calculatedFrom(" 6 6 false; mkTok 31 """x y""" 6 23 false; mkTok 6 ")" 6 28 false; mkTok 42 "lengthOf" 6 31 false; mkTok 7 "@lengthOf(" 6 39 false; mkTok 42 "msg_type" 7 0 false; mkTok 6 ")" 7 8 false; mkTok 43 (string_of_bytes [96; 116; 97; 98; 9; 104; 101; 114; 101; 96]%N) 7 10 false; mkTok 40 "," 7 21 false; mkTok 42 "asx" 8 4 false; mkTok 42 "x" 9 0 false; mkTok 40 "," 10 0 false; mkTok 14 "zchar[" 10 2 false; mkTok 30 "10" 10 9 false; mkTok 44 "// c" 11 4 true; mkTok 13 "]" 12 4 false; mkTok 42 "i64_" 12 6 false; mkTok 40 "," 12 11 false; mkTok 36 "repeat" 12 13 false; mkTok 42 "body" 12 20 false; mkTok 40 "," 12 25 false; mkTok 12 "char[" 13 0 false; mkTok 30 "255" 13 5 false; mkTok 44 "// @lengthOf(" 13 9 true; mkTok 13 "]" 14 0 false; mkTok 42 "asx" 14 1 false; mkTok 5 "@calculatedFrom(" 14 4 false; mkTok 31 (string_of_bytes [34; 240; 159; 152; 128; 34]%N) 14 21 false; mkTok 6 ")" 15 4 false; mkTok 43 (string_of_bytes [96; 99; 114; 108; 102; 13; 10; 108; 105; 110; 101; 96]%N) 16 0 false; mkTok 40 "," 17 5 false; mkTok 42 "u128" 17 6 false; mkTok 42 "string_" 18 4 false; mkTok 40 "," 18 12 false; mkTok 42 "int" 19 0 false; mkTok 2 "{" 19 4 false; mkTok 14 "zchar[" 19 6 false; mkTok 30 "7" 19 13 false; mkTok 13 "]" 20 0 false; mkTok 42 "_x" 20 1 false; mkTok 40 "," 20 4 false; mkTok 3 "}" 20 6 false; mkTok 40 "," 20 9 false; mkTok 3 "}" 20 11 false; mkTok 0 "<EOF>" 20 12 false] (mkPacket (mkPtok 1 "options" 2 0 0) (Some (mkPtok 3 "}" 20 11 54)) [(DOption (mkOptionDef (mkSpan (mkPtok 1 "options" 2 0 0) (mkPtok 3 "}" 4 1 7)) (mkPtok 1 "options" 2 0 0) (mkPtok 2 "{" 2 9 1) [(mkOptionDecl (mkSpan (mkPtok 42 "Foo" 2 10 2) (mkPtok 41 ";" 4 0 6)) (mkPtok 42 "Foo" 2 10 2) (mkPtok 4 "=" 2 14 3) (VTrue (mkSpan (mkPtok 10 "true" 3 4 4) (mkPtok 10 "true" 3 4 4)) (mkPtok 10 "true" 3 4 4)) (Some (mkPtok 41 ";" 4 0 6)))] (mkPtok 3 "}" 4 1 7))); (DPacket (mkPacketDef (mkSpan (mkPtok 35 "packet" 5 4 8) (mkPtok 3 "}" 20 11 54)) None (mkPtok 35 "packet" 5 4 8) (mkPtok 42 "u128" 6 0 9) (mkPtok 2 "{" 6 4 10) [(mkFieldWithAttr (mkSpan (mkPtok 5 "@calculatedFrom(" 6 6 11) (mkPtok 40 "," 7 21 19)) [(FACalculatedFrom (mkSpan (mkPtok 5 "@calculatedFrom(" 6 6 11) (mkPtok 6 ")" 6 28 13)) (mkCalculatedFrom (mkSpan (mkPtok 5 "@calculatedFrom(" 6 6 11) (mkPtok 6 ")" 6 28 13)) (mkPtok 5 "@calculatedFrom(" 6 6 11) (mkPtok 31 """x y""" 6 23 12) (mkPtok 6 ")" 6 28 13)))] (LengthField (mkSpan (mkPtok 42 "lengthOf" 6 31 14) (mkPtok 40 "," 7 21 19)) (mkLengthFieldDecl (mkSpan (mkPtok 42 "lengthOf" 6 31 14) (mkPtok 40 "," 7 21 19)) None (mkPtok 42 "lengthOf" 6 31 14) (mkLengthOf (mkSpan (mkPtok 7 "@lengthOf(" 6 39 15) (mkPtok 6 ")" 7 8 17)) (mkPtok 7 "@lengthOf(" 6 39 15) (mkPtok 42 "msg_type" 7 0 16) (mkPtok 6 ")" 7 8 17)) (Some (mkPtok 43 (string_of_bytes [96; 116; 97; 98; 9; 104; 101; 114; 101; 96]%N) 7 10 18)) (mkPtok 40 "," 7 21 19)))); (mkFieldWithAttr (mkSpan (mkPtok 42 "asx" 8 4 20) (mkPtok 40 "," 10 0 22)) [] (ObjectField (mkSpan (mkPtok 42 "asx" 8 4 20) (mkPtok 40 "," 10 0 22)) None (mkPtok 42 "asx" 8 4 20) (Some (mkPtok 42 "x" 9 0 21)) None (mkPtok 40 "," 10 0 22))); (mkFieldWithAttr (mkSpan (mkPtok 14 "zchar[" 10 2 23) (mkPtok 40 "," 12 11 28)) [] (MetaField (mkSpan (mkPtok 14 "zchar[" 10 2 23) (mkPtok 40 "," 12 11 28)) None (mkMetaDecl (mkSpan (mkPtok 14 "zchar[" 10 2 23) (mkPtok 40 "," 12 11 28)) (TyFixed (mkSpan (mkPtok 14 "zchar[" 10 2 23) (mkPtok 13 "]" 12 4 26)) (mkFixedString (mkSpan (mkPtok 14 "zchar[" 10 2 23) (mkPtok 13 "]" 12 4 26)) (mkPtok 14 "zchar[" 10 2 23) (mkPtok 30 "10" 10 9 24) (mkPtok 13 "]" 12 4 26))) (mkPtok 42 "i64_" 12 6 27) None (mkPtok 40 "," 12 11 28)))); (mkFieldWithAttr (mkSpan (mkPtok 36 "repeat" 12 13 29) (mkPtok 40 "," 12 25 31)) [] (ObjectField (mkSpan (mkPtok 36 "repeat" 12 13 29) (mkPtok 40 "," 12 25 31)) (Some (mkPtok 36 "repeat" 12 13 29)) (mkPtok 42 "body" 12 20 30) None None (mkPtok 40 "," 12 25 31))); (mkFieldWithAttr (mkSpan (mkPtok 12 "char[" 13 0 32) (mkPtok 40 "," 17 5 41)) [] (CheckSumField (mkSpan (mkPtok 12 "char[" 13 0 32) (mkPtok 40 "," 17 5 41)) (mkChecksumFieldDecl (mkSpan (mkPtok 12 "char[" 13 0 32) (mkPtok 40 "," 17 5 41)) (Some (TyFixed (mkSpan (mkPtok 12 "char[" 13 0 32) (mkPtok 13 "]" 14 0 35)) (mkFixedString (mkSpan (mkPtok 12 "char[" 13 0 32) (mkPtok 13 "]" 14 0 35)) (mkPtok 12 "char[" 13 0 32) (mkPtok 30 "255" 13 5 33) (mkPtok 13 "]" 14 0 35)))) (mkPtok 42 "asx" 14 1 36) (mkCalculatedFrom (mkSpan (mkPtok 5 "@calculatedFrom(" 14 4 37) (mkPtok 6 ")" 15 4 39)) (mkPtok 5 "@calculatedFrom(" 14 4 37) (mkPtok 31 (string_of_bytes [34; 240; 159; 152; 128; 34]%N) 14 21 38) (mkPtok 6 ")" 15 4 39)) (Some (mkPtok 43 (string_of_bytes [96; 99; 114; 108; 102; 13; 10; 108; 105; 110; 101; 96]%N) 16 0 40)) (mkPtok 40 "," 17 5 41)))); (mkFieldWithAttr (mkSpan (mkPtok 42 "u128" 17 6 42) (mkPtok 40 "," 18 12 44)) [] (ObjectField (mkSpan (mkPtok 42 "u128" 17 6 42) (mkPtok 40 "," 18 12 44)) None (mkPtok 42 "u128" 17 6 42) (Some (mkPtok 42 "string_" 18 4 43)) None (mkPtok 40 "," 18 12 44))); (mkFieldWithAttr (mkSpan (mkPtok 42 "int" 19 0 45) (mkPtok 40 "," 20 9 53)) [] (InerObjectField (mkSpan (mkPtok 42 "int" 19 0 45) (mkPtok 40 "," 20 9 53)) None (InerObjectDecl (mkSpan (mkPtok 42 "int" 19 0 45) (mkPtok 3 "}" 20 6 52)) (mkPtok 42 "int" 19 0 45) (mkPtok 2 "{" 19 4 46) [(MetaField (mkSpan (mkPtok 14 "zchar[" 19 6 47) (mkPtok 40 "," 20 4 51)) None (mkMetaDecl (mkSpan (mkPtok 14 "zchar[" 19 6 47) (mkPtok 40 "," 20 4 51)) (TyFixed (mkSpan (mkPtok 14 "zchar[" 19 6 47) (mkPtok 13 "]" 20 0 49)) (mkFixedString (mkSpan (mkPtok 14 "zchar[" 19 6 47) (mkPtok 13 "]" 20 0 49)) (mkPtok 14 "zchar[" 19 6 47) (mkPtok 30 "7" 19 13 48) (mkPtok 13 "]" 20 0 49))) (mkPtok 42 "_x" 20 1 50) None (mkPtok 40 "," 20 4 51)))] (mkPtok 3 "}" 20 6 52)) (mkPtok 40 "," 20 9 53)))] (mkPtok 3 "}" 20 11 54)))])).
Eval vm_compute in ("<<<M1263>>>" ++ check (runes_of_ascii "packet i64_ {match
tag as x
{ """ ++ [128512]%N ++ runes_of_ascii """ : string_ ,
    ""a\\"" : rootA ,
""abc""
    :
    pack , },
@tag( 3 ) // @lengthOf(
string metadata , string stringy
`u8 x,`
// @lengthOf(
// a // b
, }
")).
Eval vm_compute in ("<<<M1295>>>" ++ check (runes_of_ascii "  packet i64_ { }

")).
Eval vm_compute in ("<<<M1327>>>" ++ check (runes_of_ascii "// packet A { u8 x, }
options { matchKey =	true ; } MetaData int {uint16
    packetx`tab	here` ,	}
options/// triple
{ msg_type = """"  ; } // @lengthOf(")).
Eval vm_compute in ("<<<M1359>>>" ++ check (runes_of_ascii "MetaData MetaDataX { string pack ``  , u32
    falsey	,
char[//	t
65535 ] chars, u64	int ,// c
}
options
{ i8i8= true	;
float =
' '
    ;
}	packet Foo {// a // b
@lengthOf( i64_ )
repeat
    calculatedFrom{
    match // a // b
repeatCount as stringy {
255 :
    msg_type  ,65535	: // a // b
roots ""a\""b""  : repeatCount ,[
    ""packet"" ,
""1""]
:
    o
    """ ++ [28040; 24687]%N ++ runes_of_ascii """:zchar ""CRC32"" :A ,}, int64 chars @calculatedFrom( ""a\""b"" )// packet A { u8 x, }
`say ""hi""`
, packetx @lengthOf(
x_y_z ) ,
    // `tick` ""quote"" 'q'
    }, stringy @calculatedFrom( """ ++ [28040; 24687]%N ++ runes_of_ascii """) `u8 x,`
, zchar[	007 ] chars,zchar[ 1
]f32a `" ++ [28040; 24687; 31867; 22411]%N ++ runes_of_ascii "`
    , }")).
Eval vm_compute in ("<<<M1391>>>" ++ check (runes_of_ascii "MetaData  T {
} root packet MetaDataX {
// packet A { u8 x, }
// `tick` ""quote"" 'q'
@lengthOf( trueish
)repeat
//
//	t
BodyLength ``  , }MetaData
    A // `tick` ""quote"" 'q'
{ float32 trueish , } packet
o
    //x
    {
    @lengthOf( Foo)  i8i8 stringy
    ,}MetaData trueish	{
    string o , }")).
Eval vm_compute in ("<<<M1423>>>" ++ check (runes_of_ascii "MetaData uint8x {
    } packet i8i8{ // a // b
repeat uint64 roots , string
    falsey
,// trailing space 
} options  {
repeatCount = 007 ; }
")).
Eval vm_compute in ("<<<M1455>>>" ++ check (runes_of_ascii "packet	i64_
    // `tick` ""quote"" 'q'
    { @lengthOf(  charz )  zchar[
00  ]charz	`
`	,@rightPad ( '0')
@calculatedFrom(  ""`tick`"" ) i16 charz , repeat Pad { uint8x
MetaDataX , int { repeat // packet A { u8 x, }
uint64 u8x ,// packet A { u8 x, }
repeat
    // `tick` ""quote"" 'q'
    uint8x
    { // a // b
repeat Z9_
x_y_z ,
    match
    x_y_z
// a // b
// a // b
as _x {
    007 :crc	,
[ 00 ,  0
, 1 , 007 ,
4294967296 ]:
    u128
,  }
, char[
    42
//	t
//
] float,}, } , char[]x
    ,repeat
zchar  {
match
Logon  as rootA {	0
:
    chars , [ 42
] :repeatCount
    // c
    ,
""" ++ [233]%N ++ runes_of_ascii "t" ++ [233]%N ++ runes_of_ascii """
:	BodyLength, ""x y"" : Z9_
, [4294967296	, 42 ,
3 , 255 , 00 ,
    ""x y"" , 10
    , 42 ]
    : falsey , }, },
}  , }// a // b
packet	options1// " ++ [128512]%N ++ runes_of_ascii " emoji
{ // c
len @lengthOf(T
), }")).
Eval vm_compute in ("<<<T1455>>>" ++ terms [mkTok 35 "packet" 1 0 false; mkTok 42 "i64_" 1 7 false; mkTok 44 "// `tick` ""quote"" 'q'" 2 4 true; mkTok 2 "{" 3 4 false; mkTok 7 "@lengthOf(" 3 6 false; mkTok 42 "charz" 3 18 false; mkTok 6 ")" 3 24 false; mkTok 14 "zchar[" 3 27 false; mkTok 30 "00" 4 0 false; mkTok 13 "]" 4 4 false; mkTok 42 "charz" 4 5 false; mkTok 43 (string_of_bytes [96; 10; 96]%N) 4 11 false; mkTok 40 "," 5 2 false; mkTok 32 "@rightPad" 5 3 false; mkTok 8 "(" 5 13 false; mkTok 33 "'0'" 5 15 false; mkTok 6 ")" 5 18 false; mkTok 5 "@calculatedFrom(" 6 0 false; mkTok 31 """`tick`""" 6 18 false; mkTok 6 ")" 6 27 false; mkTok 25 "i16" 6 29 false; mkTok 42 "charz" 6 33 false; mkTok 40 "," 6 39 false; mkTok 36 "repeat" 6 41 false; mkTok 42 "Pad" 6 48 false; mkTok 2 "{" 6 52 false; mkTok 42 "uint8x" 6 54 false; mkTok 42 "MetaDataX" 7 0 false; mkTok 40 "," 7 10 false; mkTok 42 "int" 7 12 false; mkTok 2 "{" 7 16 false; mkTok 36 "repeat" 7 18 false; mkTok 44 "// packet A { u8 x, }" 7 25 true; mkTok 23 "uint64" 8 0 false; mkTok 42 "u8x" 8 7 false; mkTok 40 "," 8 11 false; mkTok 44 "// packet A { u8 x, }" 8 12 true; mkTok 36 "repeat" 9 0 false; mkTok 44 "// `tick` ""quote"" 'q'" 10 4 true; mkTok 42 "uint8x" 11 4 false; mkTok 2 "{" 12 4 false; mkTok 44 "// a // b" 12 6 true; mkTok 36 "repeat" 13 0 false; mkTok 42 "Z9_" 13 7 false; mkTok 42 "x_y_z" 14 0 false; mkTok 40 "," 14 6 false; mkTok 38 "match" 15 4 false; mkTok 42 "x_y_z" 16 4 false; mkTok 44 "// a // b" 17 0 true; mkTok 44 "// a // b" 18 0 true; mkTok 17 "as" 19 0 false; mkTok 42 "_x" 19 3 false; mkTok 2 "{" 19 6 false; mkTok 30 "007" 20 4 false; mkTok 39 ":" 20 8 false; mkTok 42 "crc" 20 9 false; mkTok 40 "," 20 13 false; mkTok 18 "[" 21 0 false; mkTok 30 "00" 21 2 false; mkTok 40 "," 21 5 false; mkTok 30 "0" 21 8 false; mkTok 40 "," 22 0 false; mkTok 30 "1" 22 2 false; mkTok 40 "," 22 4 false; mkTok 30 "007" 22 6 false; mkTok 40 "," 22 10 false; mkTok 30 "4294967296" 23 0 false; mkTok 13 "]" 23 11 false; mkTok 39 ":" 23 12 false; mkTok 42 "u128" 24 4 false; mkTok 40 "," 25 0 false; mkTok 3 "}" 25 3 false; mkTok 40 "," 26 0 false; mkTok 12 "char[" 26 2 false; mkTok 30 "42" 27 4 false; mkTok 44 (string_of_bytes [47; 47; 9; 116]%N) 28 0 true; mkTok 44 "//" 29 0 true; mkTok 13 "]" 30 0 false; mkTok 42 "float" 30 2 false; mkTok 40 "," 30 7 false; mkTok 3 "}" 30 8 false; mkTok 40 "," 30 9 false; mkTok 3 "}" 30 11 false; mkTok 40 "," 30 13 false; mkTok 16 "char[]" 30 15 false; mkTok 42 "x" 30 21 false; mkTok 40 "," 31 4 false; mkTok 36 "repeat" 31 5 false; mkTok 42 "zchar" 32 0 false; mkTok 2 "{" 32 7 false; mkTok 38 "match" 33 0 false; mkTok 42 "Logon" 34 0 false; mkTok 17 "as" 34 7 false; mkTok 42 "rootA" 34 10 false; mkTok 2 "{" 34 16 false; mkTok 30 "0" 34 18 false; mkTok 39 ":" 35 0 false; mkTok 42 "chars" 36 4 false; mkTok 40 "," 36 10 false; mkTok 18 "[" 36 12 false; mkTok 30 "42" 36 14 false; mkTok 13 "]" 37 0 false; mkTok 39 ":" 37 2 false; mkTok 42 "repeatCount" 37 3 false; mkTok 44 "// c" 38 4 true; mkTok 40 "," 39 4 false; mkTok 31 (string_of_bytes [34; 195; 169; 116; 195; 169; 34]%N) 40 0 false; mkTok 39 ":" 41 0 false; mkTok 42 "BodyLength" 41 2 false; mkTok 40 "," 41 12 false; mkTok 31 """x y""" 41 14 false; mkTok 39 ":" 41 20 false; mkTok 42 "Z9_" 41 22 false; mkTok 40 "," 42 0 false; mkTok 18 "[" 42 2 false; mkTok 30 "4294967296" 42 3 false; mkTok 40 "," 42 14 false; mkTok 30 "42" 42 16 false; mkTok 40 "," 42 19 false; mkTok 30 "3" 43 0 false; mkTok 40 "," 43 2 false; mkTok 30 "255" 43 4 false; mkTok 40 "," 43 8 false; mkTok 30 "00" 43 10 false; mkTok 40 "," 43 13 false; mkTok 31 """x y""" 44 4 false; mkTok 40 "," 44 10 false; mkTok 30 "10" 44 12 false; mkTok 40 "," 45 4 false; mkTok 30 "42" 45 6 false; mkTok 13 "]" 45 9 false; mkTok 39 ":" 46 4 false; mkTok 42 "falsey" 46 6 false; mkTok 40 "," 46 13 false; mkTok 3 "}" 46 15 false; mkTok 40 "," 46 16 false; mkTok 3 "}" 46 18 false; mkTok 40 "," 46 19 false; mkTok 3 "}" 47 0 false; mkTok 40 "," 47 3 false; mkTok 3 "}" 47 5 false; mkTok 44 "// a // b" 47 6 true; mkTok 35 "packet" 48 0 false; mkTok 42 "options1" 48 7 false; mkTok 44 (string_of_bytes [47; 47; 32; 240; 159; 152; 128; 32; 101; 109; 111; 106; 105]%N) 48 15 true; mkTok 2 "{" 49 0 false; mkTok 44 "// c" 49 2 true; mkTok 42 "len" 50 0 false; mkTok 7 "@lengthOf(" 50 4 false; mkTok 42 "T" 50 14 false; mkTok 6 ")" 51 0 false; mkTok 40 "," 51 1 false; mkTok 3 "}" 51 3 false; mkTok 0 "<EOF>" 51 4 false] (mkPacket (mkPtok 35 "packet" 1 0 0) (Some (mkPtok 3 "}" 51 3 152)) [(DPacket (mkPacketDef (mkSpan (mkPtok 35 "packet" 1 0 0) (mkPtok 3 "}" 47 5 140)) None (mkPtok 35 "packet" 1 0 0) (mkPtok 42 "i64_" 1 7 1) (mkPtok 2 "{" 3 4 3) [(mkFieldWithAttr (mkSpan (mkPtok 7 "@lengthOf(" 3 6 4) (mkPtok 40 "," 5 2 12)) [(FALengthOf (mkSpan (mkPtok 7 "@lengthOf(" 3 6 4) (mkPtok 6 ")" 3 24 6)) (mkLengthOf (mkSpan (mkPtok 7 "@lengthOf(" 3 6 4) (mkPtok 6 ")" 3 24 6)) (mkPtok 7 "@lengthOf(" 3 6 4) (mkPtok 42 "charz" 3 18 5) (mkPtok 6 ")" 3 24 6)))] (MetaField (mkSpan (mkPtok 14 "zchar[" 3 27 7) (mkPtok 40 "," 5 2 12)) None (mkMetaDecl (mkSpan (mkPtok 14 "zchar[" 3 27 7) (mkPtok 40 "," 5 2 12)) (TyFixed (mkSpan (mkPtok 14 "zchar[" 3 27 7) (mkPtok 13 "]" 4 4 9)) (mkFixedString (mkSpan (mkPtok 14 "zchar[" 3 27 7) (mkPtok 13 "]" 4 4 9)) (mkPtok 14 "zchar[" 3 27 7) (mkPtok 30 "00" 4 0 8) (mkPtok 13 "]" 4 4 9))) (mkPtok 42 "charz" 4 5 10) (Some (mkPtok 43 (string_of_bytes [96; 10; 96]%N) 4 11 11)) (mkPtok 40 "," 5 2 12)))); (mkFieldWithAttr (mkSpan (mkPtok 32 "@rightPad" 5 3 13) (mkPtok 40 "," 6 39 22)) [(FAPadding (mkSpan (mkPtok 32 "@rightPad" 5 3 13) (mkPtok 6 ")" 5 18 16)) (mkPaddingAttr (mkSpan (mkPtok 32 "@rightPad" 5 3 13) (mkPtok 6 ")" 5 18 16)) (mkPtok 32 "@rightPad" 5 3 13) (mkPtok 8 "(" 5 13 14) (Some (mkPtok 33 "'0'" 5 15 15)) (mkPtok 6 ")" 5 18 16))); (FACalculatedFrom (mkSpan (mkPtok 5 "@calculatedFrom(" 6 0 17) (mkPtok 6 ")" 6 27 19)) (mkCalculatedFrom (mkSpan (mkPtok 5 "@calculatedFrom(" 6 0 17) (mkPtok 6 ")" 6 27 19)) (mkPtok 5 "@calculatedFrom(" 6 0 17) (mkPtok 31 """`tick`""" 6 18 18) (mkPtok 6 ")" 6 27 19)))] (MetaField (mkSpan (mkPtok 25 "i16" 6 29 20) (mkPtok 40 "," 6 39 22)) None (mkMetaDecl (mkSpan (mkPtok 25 "i16" 6 29 20) (mkPtok 40 "," 6 39 22)) (TyBasic (mkSpan (mkPtok 25 "i16" 6 29 20) (mkPtok 25 "i16" 6 29 20)) (mkBasicType (mkSpan (mkPtok 25 "i16" 6 29 20) (mkPtok 25 "i16" 6 29 20)) (mkPtok 25 "i16" 6 29 20))) (mkPtok 42 "charz" 6 33 21) None (mkPtok 40 "," 6 39 22)))); (mkFieldWithAttr (mkSpan (mkPtok 36 "repeat" 6 41 23) (mkPtok 40 "," 47 3 139)) [] (InerObjectField (mkSpan (mkPtok 36 "repeat" 6 41 23) (mkPtok 40 "," 47 3 139)) (Some (mkPtok 36 "repeat" 6 41 23)) (InerObjectDecl (mkSpan (mkPtok 42 "Pad" 6 48 24) (mkPtok 3 "}" 47 0 138)) (mkPtok 42 "Pad" 6 48 24) (mkPtok 2 "{" 6 52 25) [(ObjectField (mkSpan (mkPtok 42 "uint8x" 6 54 26) (mkPtok 40 "," 7 10 28)) None (mkPtok 42 "uint8x" 6 54 26) (Some (mkPtok 42 "MetaDataX" 7 0 27)) None (mkPtok 40 "," 7 10 28)); (InerObjectField (mkSpan (mkPtok 42 "int" 7 12 29) (mkPtok 40 "," 30 13 83)) None (InerObjectDecl (mkSpan (mkPtok 42 "int" 7 12 29) (mkPtok 3 "}" 30 11 82)) (mkPtok 42 "int" 7 12 29) (mkPtok 2 "{" 7 16 30) [(MetaField (mkSpan (mkPtok 36 "repeat" 7 18 31) (mkPtok 40 "," 8 11 35)) (Some (mkPtok 36 "repeat" 7 18 31)) (mkMetaDecl (mkSpan (mkPtok 23 "uint64" 8 0 33) (mkPtok 40 "," 8 11 35)) (TyBasic (mkSpan (mkPtok 23 "uint64" 8 0 33) (mkPtok 23 "uint64" 8 0 33)) (mkBasicType (mkSpan (mkPtok 23 "uint64" 8 0 33) (mkPtok 23 "uint64" 8 0 33)) (mkPtok 23 "uint64" 8 0 33))) (mkPtok 42 "u8x" 8 7 34) None (mkPtok 40 "," 8 11 35))); (InerObjectField (mkSpan (mkPtok 36 "repeat" 9 0 37) (mkPtok 40 "," 30 9 81)) (Some (mkPtok 36 "repeat" 9 0 37)) (InerObjectDecl (mkSpan (mkPtok 42 "uint8x" 11 4 39) (mkPtok 3 "}" 30 8 80)) (mkPtok 42 "uint8x" 11 4 39) (mkPtok 2 "{" 12 4 40) [(ObjectField (mkSpan (mkPtok 36 "repeat" 13 0 42) (mkPtok 40 "," 14 6 45)) (Some (mkPtok 36 "repeat" 13 0 42)) (mkPtok 42 "Z9_" 13 7 43) (Some (mkPtok 42 "x_y_z" 14 0 44)) None (mkPtok 40 "," 14 6 45)); (MatchField (mkSpan (mkPtok 38 "match" 15 4 46) (mkPtok 40 "," 26 0 72)) (mkMatchFieldDecl (mkSpan (mkPtok 38 "match" 15 4 46) (mkPtok 3 "}" 25 3 71)) (mkPtok 38 "match" 15 4 46) (mkPtok 42 "x_y_z" 16 4 47) (mkPtok 17 "as" 19 0 50) (mkPtok 42 "_x" 19 3 51) (mkPtok 2 "{" 19 6 52) [(mkMatchPair (mkSpan (mkPtok 30 "007" 20 4 53) (mkPtok 40 "," 20 13 56)) (MKDigits (mkPtok 30 "007" 20 4 53)) (mkPtok 39 ":" 20 8 54) (mkPtok 42 "crc" 20 9 55) (Some (mkPtok 40 "," 20 13 56))); (mkMatchPair (mkSpan (mkPtok 18 "[" 21 0 57) (mkPtok 40 "," 25 0 70)) (MKList (mkKeyList (mkSpan (mkPtok 18 "[" 21 0 57) (mkPtok 13 "]" 23 11 67)) (mkPtok 18 "[" 21 0 57) (mkPtok 30 "00" 21 2 58) [((mkPtok 40 "," 21 5 59), (mkPtok 30 "0" 21 8 60)); ((mkPtok 40 "," 22 0 61), (mkPtok 30 "1" 22 2 62)); ((mkPtok 40 "," 22 4 63), (mkPtok 30 "007" 22 6 64)); ((mkPtok 40 "," 22 10 65), (mkPtok 30 "4294967296" 23 0 66))] (mkPtok 13 "]" 23 11 67))) (mkPtok 39 ":" 23 12 68) (mkPtok 42 "u128" 24 4 69) (Some (mkPtok 40 "," 25 0 70)))] (mkPtok 3 "}" 25 3 71)) (mkPtok 40 "," 26 0 72)); (MetaField (mkSpan (mkPtok 12 "char[" 26 2 73) (mkPtok 40 "," 30 7 79)) None (mkMetaDecl (mkSpan (mkPtok 12 "char[" 26 2 73) (mkPtok 40 "," 30 7 79)) (TyFixed (mkSpan (mkPtok 12 "char[" 26 2 73) (mkPtok 13 "]" 30 0 77)) (mkFixedString (mkSpan (mkPtok 12 "char[" 26 2 73) (mkPtok 13 "]" 30 0 77)) (mkPtok 12 "char[" 26 2 73) (mkPtok 30 "42" 27 4 74) (mkPtok 13 "]" 30 0 77))) (mkPtok 42 "float" 30 2 78) None (mkPtok 40 "," 30 7 79)))] (mkPtok 3 "}" 30 8 80)) (mkPtok 40 "," 30 9 81))] (mkPtok 3 "}" 30 11 82)) (mkPtok 40 "," 30 13 83)); (MetaField (mkSpan (mkPtok 16 "char[]" 30 15 84) (mkPtok 40 "," 31 4 86)) None (mkMetaDecl (mkSpan (mkPtok 16 "char[]" 30 15 84) (mkPtok 40 "," 31 4 86)) (TyDynamic (mkSpan (mkPtok 16 "char[]" 30 15 84) (mkPtok 16 "char[]" 30 15 84)) (mkDynamicString (mkSpan (mkPtok 16 "char[]" 30 15 84) (mkPtok 16 "char[]" 30 15 84)) (mkPtok 16 "char[]" 30 15 84))) (mkPtok 42 "x" 30 21 85) None (mkPtok 40 "," 31 4 86))); (InerObjectField (mkSpan (mkPtok 36 "repeat" 31 5 87) (mkPtok 40 "," 46 19 137)) (Some (mkPtok 36 "repeat" 31 5 87)) (InerObjectDecl (mkSpan (mkPtok 42 "zchar" 32 0 88) (mkPtok 3 "}" 46 18 136)) (mkPtok 42 "zchar" 32 0 88) (mkPtok 2 "{" 32 7 89) [(MatchField (mkSpan (mkPtok 38 "match" 33 0 90) (mkPtok 40 "," 46 16 135)) (mkMatchFieldDecl (mkSpan (mkPtok 38 "match" 33 0 90) (mkPtok 3 "}" 46 15 134)) (mkPtok 38 "match" 33 0 90) (mkPtok 42 "Logon" 34 0 91) (mkPtok 17 "as" 34 7 92) (mkPtok 42 "rootA" 34 10 93) (mkPtok 2 "{" 34 16 94) [(mkMatchPair (mkSpan (mkPtok 30 "0" 34 18 95) (mkPtok 40 "," 36 10 98)) (MKDigits (mkPtok 30 "0" 34 18 95)) (mkPtok 39 ":" 35 0 96) (mkPtok 42 "chars" 36 4 97) (Some (mkPtok 40 "," 36 10 98))); (mkMatchPair (mkSpan (mkPtok 18 "[" 36 12 99) (mkPtok 40 "," 39 4 105)) (MKList (mkKeyList (mkSpan (mkPtok 18 "[" 36 12 99) (mkPtok 13 "]" 37 0 101)) (mkPtok 18 "[" 36 12 99) (mkPtok 30 "42" 36 14 100) [] (mkPtok 13 "]" 37 0 101))) (mkPtok 39 ":" 37 2 102) (mkPtok 42 "repeatCount" 37 3 103) (Some (mkPtok 40 "," 39 4 105))); (mkMatchPair (mkSpan (mkPtok 31 (string_of_bytes [34; 195; 169; 116; 195; 169; 34]%N) 40 0 106) (mkPtok 40 "," 41 12 109)) (MKString (mkPtok 31 (string_of_bytes [34; 195; 169; 116; 195; 169; 34]%N) 40 0 106)) (mkPtok 39 ":" 41 0 107) (mkPtok 42 "BodyLength" 41 2 108) (Some (mkPtok 40 "," 41 12 109))); (mkMatchPair (mkSpan (mkPtok 31 """x y""" 41 14 110) (mkPtok 40 "," 42 0 113)) (MKString (mkPtok 31 """x y""" 41 14 110)) (mkPtok 39 ":" 41 20 111) (mkPtok 42 "Z9_" 41 22 112) (Some (mkPtok 40 "," 42 0 113))); (mkMatchPair (mkSpan (mkPtok 18 "[" 42 2 114) (mkPtok 40 "," 46 13 133)) (MKList (mkKeyList (mkSpan (mkPtok 18 "[" 42 2 114) (mkPtok 13 "]" 45 9 130)) (mkPtok 18 "[" 42 2 114) (mkPtok 30 "4294967296" 42 3 115) [((mkPtok 40 "," 42 14 116), (mkPtok 30 "42" 42 16 117)); ((mkPtok 40 "," 42 19 118), (mkPtok 30 "3" 43 0 119)); ((mkPtok 40 "," 43 2 120), (mkPtok 30 "255" 43 4 121)); ((mkPtok 40 "," 43 8 122), (mkPtok 30 "00" 43 10 123)); ((mkPtok 40 "," 43 13 124), (mkPtok 31 """x y""" 44 4 125)); ((mkPtok 40 "," 44 10 126), (mkPtok 30 "10" 44 12 127)); ((mkPtok 40 "," 45 4 128), (mkPtok 30 "42" 45 6 129))] (mkPtok 13 "]" 45 9 130))) (mkPtok 39 ":" 46 4 131) (mkPtok 42 "falsey" 46 6 132) (Some (mkPtok 40 "," 46 13 133)))] (mkPtok 3 "}" 46 15 134)) (mkPtok 40 "," 46 16 135))] (mkPtok 3 "}" 46 18 136)) (mkPtok 40 "," 46 19 137))] (mkPtok 3 "}" 47 0 138)) (mkPtok 40 "," 47 3 139)))] (mkPtok 3 "}" 47 5 140))); (DPacket (mkPacketDef (mkSpan (mkPtok 35 "packet" 48 0 142) (mkPtok 3 "}" 51 3 152)) None (mkPtok 35 "packet" 48 0 142) (mkPtok 42 "options1" 48 7 143) (mkPtok 2 "{" 49 0 145) [(mkFieldWithAttr (mkSpan (mkPtok 42 "len" 50 0 147) (mkPtok 40 "," 51 1 151)) [] (LengthField (mkSpan (mkPtok 42 "len" 50 0 147) (mkPtok 40 "," 51 1 151)) (mkLengthFieldDecl (mkSpan (mkPtok 42 "len" 50 0 147) (mkPtok 40 "," 51 1 151)) None (mkPtok 42 "len" 50 0 147) (mkLengthOf (mkSpan (mkPtok 7 "@lengthOf(" 50 4 148) (mkPtok 6 ")" 51 0 150)) (mkPtok 7 "@lengthOf(" 50 4 148) (mkPtok 42 "T" 50 14 149) (mkPtok 6 ")" 51 0 150)) None (mkPtok 40 "," 51 1 151))))] (mkPtok 3 "}" 51 3 152)))])).
Eval vm_compute in ("<<<M1487>>>" ++ check (runes_of_ascii "packet i64_{
char
i64_ @calculatedFrom(
""\n"")
    ,// c
@tag( 1 )MetaDataX {
    uint32 options1 @calculatedFrom( ""a	b""),repeat
    zchar `" ++ [28040; 24687; 31867; 22411]%N ++ runes_of_ascii "` ,
    body @calculatedFrom(""x y"" )	`doc`	,
    zchar[ 10
// a // b
// trailing space 
]
string_ @calculatedFrom( // trailing space 
""1""
    ) `doc`,	} , T
    ,
    @calculatedFrom( ""CRC32"" ) matchKey {	_x@lengthOf(u8x )`" ++ [28040; 24687; 31867; 22411]%N ++ runes_of_ascii "` , }
, } options{float
=
char[00 ] ;
    string_ = // @lengthOf(
i16
; //x
} root  packet rootA {  metadata {
    float32 pack
    , repeat	i64 string_	, i16 body `u8 x,`, } ,@calculatedFrom(""CRC32""
) repeat calculatedFrom{ repeat char[ 00  ] MetaDataX , }
    , @tag(	65535
)
match falsey as
    lengthOf {
    7 : // c
leftPad 1	:o
    ""packet""
:// " ++ [27880; 37322]%N ++ runes_of_ascii "
asx ,// packet A { u8 x, }
0123456789 : pack , [ 0123456789 , ""\n"" , ""abc"" , 00
,""x y"" // " ++ [128512]%N ++ runes_of_ascii " emoji
, 10
]	: f32a , 42 :x ,} ,
    lengthOf @lengthOf( float  )
    //
    ,
// c
//
match _x
as x  {
    10 :options1	, ""packet"": chars
//
// `tick` ""quote"" 'q'
, 42 :
    o ,""1"":
    // " ++ [128512]%N ++ runes_of_ascii " emoji
    msg_type
    [ ""a	b"" , ""\" ++ [233]%N ++ runes_of_ascii """ ,
255,  ""it's"", 10 ] : // " ++ [27880; 37322]%N ++ runes_of_ascii "
Pad
,} , @calculatedFrom( ""\n"" )
    @leftPad () @lengthOf( x ) zchar[00
]
    Header,
a1
    // a // b
    {repeat f32 chars , float64 Foo ,
    }, //	t
}
//x
")).
Eval vm_compute in ("<<<M1519>>>" ++ check (runes_of_ascii "root packet // a // b
repeatCount { u8	matchKey // " ++ [128512]%N ++ runes_of_ascii " emoji
@lengthOf(
Pad
), }")).
Eval vm_compute in ("<<<M1551>>>" ++ check (runes_of_ascii "packet
    T
{// @lengthOf(
@leftPad ( '\x00') @calculatedFrom( """ ++ [128512]%N ++ runes_of_ascii """ ) char[
    42 ] Packet
    `say ""hi""` ,
// trailing space 
//
tag Foo `
` ,
}
")).
Eval vm_compute in ("<<<M1583>>>" ++ check (runes_of_ascii "packet
// " ++ [27880; 37322]%N ++ runes_of_ascii "
//x
string_
/// triple
// `tick` ""quote"" 'q'
{int64 pack
    // packet A { u8 x, }
    @calculatedFrom( ""1""),
    }	root packet
    //
    rootA
// " ++ [27880; 37322]%N ++ runes_of_ascii "
//x
{ @lengthOf( rootA
)@lengthOf( int )float64 roots/// triple
`
`
,  uint16 leftPad @calculatedFrom(""// no comment""
// a // b
// `tick` ""quote"" 'q'
)
    `" ++ [233]%N ++ runes_of_ascii "` , repeat uint8x {repeat f64 float`two words`
    , } , @tag(
4294967296
) BodyLength pack , }
")).
Eval vm_compute in ("<<<M1615>>>" ++ check (runes_of_ascii "packet i64_ {
@calculatedFrom( ""`tick`"" /// triple
) match pack as
i64_ { [ 65535 ]
//	t
// " ++ [128512]%N ++ runes_of_ascii " emoji
:
    i8i8, [
""abc"" , 3 , ""CRC32"" , ""abc"" , //x
0 , 1 ,
//x
//x
10
] :// " ++ [27880; 37322]%N ++ runes_of_ascii "
o
    }
// packet A { u8 x, }
//
, MetaDataX {
    match body
as // " ++ [27880; 37322]%N ++ runes_of_ascii "
Z9_
{ // `tick` ""quote"" 'q'
[65535
]: u128 ,""a\""b"" : T
,}
    ,  repeat char[
    65535 ] //x
MetaDataX `tab	here`	, asx
    @lengthOf( x_y_z // packet A { u8 x, }
) ,	}, @tag( 7 ) falsey @lengthOf(
    // `tick` ""quote"" 'q'
    As )
,
    zchar[ 10
    ] repeatCount  @lengthOf(
stringy) , @calculatedFrom(""" ++ [28040; 24687]%N ++ runes_of_ascii """ ) string tag `a\`
, @calculatedFrom( ""a	b"" ) match
T
    //x
    as// " ++ [27880; 37322]%N ++ runes_of_ascii "
body {""1"" : crc,
//x
//
""a\""b"" : charz,	[ ""`tick`"" ]	:
stringy ,
[
    ""a\""b""
    // @lengthOf(
    ,""CRC32"" , 0,0  , ""packet"" ,
    ""\n"" , 7
,
// @lengthOf(
// " ++ [27880; 37322]%N ++ runes_of_ascii "
42 ]
    : // packet A { u8 x, }
repeatCount} ,@tag(
0 ) string body
    ,char[] x_y_z
,
    tag	`crlf
line`,
    @lengthOf( i64_
    ) match	falsey	as Foo { [
""1""
]
:
string_ 3 :
    lengthOf } ,  }
    // " ++ [27880; 37322]%N ++ runes_of_ascii "
    MetaData chars {
string// c
metadata`
` ,
char[] MetaDataX
    ,
// c
//
string
    Z9_ `" ++ [233]%N ++ runes_of_ascii "`
, i32 i8i8
    //x
    , }
root packet	trueish
{calculatedFrom @lengthOf(i64_// @lengthOf(
) `" ++ [28040; 24687; 31867; 22411]%N ++ runes_of_ascii "`,	trueish@calculatedFrom(
""// no comment"" ) , @tag( 00 ) zchar[
255 ] Packet
, } // c
root packet metadata{
repeat  msg_type packetx
,	}
")).
Eval vm_compute in ("<<<M1647>>>" ++ check (runes_of_ascii "options
    {
// c
// a // b
o
=
    ' ' ;// packet A { u8 x, }
falsey	=1 float
=
    """ ++ [233]%N ++ runes_of_ascii "t" ++ [233]%N ++ runes_of_ascii """
    ; MetaDataX  = char[007 ];
    // `tick` ""quote"" 'q'
    }")).
Eval vm_compute in ("<<<M1679>>>" ++ check (runes_of_ascii "// a // b
root// trailing space 
packet pack {@leftPad (
/// triple
// `tick` ""quote"" 'q'
)
    char[ 42
    ]
Z9_ `say ""hi""`// trailing space 
,
// packet A { u8 x, }
// @lengthOf(
}")).
Eval vm_compute in ("<<<T1679>>>" ++ terms [mkTok 44 "// a // b" 1 0 true; mkTok 34 "root" 2 0 false; mkTok 44 "// trailing space " 2 4 true; mkTok 35 "packet" 3 0 false; mkTok 42 "pack" 3 7 false; mkTok 2 "{" 3 12 false; mkTok 32 "@leftPad" 3 13 false; mkTok 8 "(" 3 22 false; mkTok 44 "/// triple" 4 0 true; mkTok 44 "// `tick` ""quote"" 'q'" 5 0 true; mkTok 6 ")" 6 0 false; mkTok 12 "char[" 7 4 false; mkTok 30 "42" 7 10 false; mkTok 13 "]" 8 4 false; mkTok 42 "Z9_" 9 0 false; mkTok 43 "`say ""hi""`" 9 4 false; mkTok 44 "// trailing space " 9 14 true; mkTok 40 "," 10 0 false; mkTok 44 "// packet A { u8 x, }" 11 0 true; mkTok 44 "// @lengthOf(" 12 0 true; mkTok 3 "}" 13 0 false; mkTok 0 "<EOF>" 13 1 false] (mkPacket (mkPtok 34 "root" 2 0 1) (Some (mkPtok 3 "}" 13 0 20)) [(DPacket (mkPacketDef (mkSpan (mkPtok 34 "root" 2 0 1) (mkPtok 3 "}" 13 0 20)) (Some (mkPtok 34 "root" 2 0 1)) (mkPtok 35 "packet" 3 0 3) (mkPtok 42 "pack" 3 7 4) (mkPtok 2 "{" 3 12 5) [(mkFieldWithAttr (mkSpan (mkPtok 32 "@leftPad" 3 13 6) (mkPtok 40 "," 10 0 17)) [(FAPadding (mkSpan (mkPtok 32 "@leftPad" 3 13 6) (mkPtok 6 ")" 6 0 10)) (mkPaddingAttr (mkSpan (mkPtok 32 "@leftPad" 3 13 6) (mkPtok 6 ")" 6 0 10)) (mkPtok 32 "@leftPad" 3 13 6) (mkPtok 8 "(" 3 22 7) None (mkPtok 6 ")" 6 0 10)))] (MetaField (mkSpan (mkPtok 12 "char[" 7 4 11) (mkPtok 40 "," 10 0 17)) None (mkMetaDecl (mkSpan (mkPtok 12 "char[" 7 4 11) (mkPtok 40 "," 10 0 17)) (TyFixed (mkSpan (mkPtok 12 "char[" 7 4 11) (mkPtok 13 "]" 8 4 13)) (mkFixedString (mkSpan (mkPtok 12 "char[" 7 4 11) (mkPtok 13 "]" 8 4 13)) (mkPtok 12 "char[" 7 4 11) (mkPtok 30 "42" 7 10 12) (mkPtok 13 "]" 8 4 13))) (mkPtok 42 "Z9_" 9 0 14) (Some (mkPtok 43 "`say ""hi""`" 9 4 15)) (mkPtok 40 "," 10 0 17))))] (mkPtok 3 "}" 13 0 20)))])).
Eval vm_compute in ("<<<M1711>>>" ++ check (runes_of_ascii "
root packet int {leftPad @calculatedFrom(""x y"" )
    , }MetaData roots { // a // b
char[ 007
] Header `it's` ,int16 Packet //
`say ""hi""` , u i8i8 , char[ 0 //	t
] string_`" ++ [233]%N ++ runes_of_ascii "` , char[
007]
    float	,
    i32 u8x , }
packet
    u
    { @lengthOf(A )
    float64
msg_type @calculatedFrom(	"""" ) , } options{// " ++ [27880; 37322]%N ++ runes_of_ascii "
Foo =  '\x00' ;T =""a	b""}
")).
Eval vm_compute in ("<<<M1743>>>" ++ check (runes_of_ascii "
options
    { repeatCount  =
""" ++ [128512]%N ++ runes_of_ascii """ ; } 	 ")).
Eval vm_compute in ("<<<M1775>>>" ++ check (runes_of_ascii "packet float { @leftPad( // " ++ [128512]%N ++ runes_of_ascii " emoji
'0'
    // " ++ [128512]%N ++ runes_of_ascii " emoji
    ) string charz ,
    match
// @lengthOf(
/// triple
roots as  u128 {[ ""CRC32""
] : i64_,}  ,repeat
calculatedFrom Logon`{ , }`, char[ 10
    ] f32a // trailing space 
@lengthOf(// " ++ [128512]%N ++ runes_of_ascii " emoji
i8i8 ) , charz@lengthOf( charz )
, Foo{uint8 A , //x
repeat
a1 { char[ 0123456789 ] calculatedFrom ,
string
    stringy @calculatedFrom( ""a	b""
) , pack ,
} ,} // `tick` ""quote"" 'q'
,
    @lengthOf( T
    //
    ) string
    u8x,}	MetaData lengthOf { u8x x
    ,
//x
//	t
uint8 asx,u8	o
    , repeatCount len ,float32
pack
//	t
/// triple
, matchKey matchKey ,} options {}	MetaData leftPad {
    // `tick` ""quote"" 'q'
    i64 // trailing space 
metadata `" ++ [28040; 24687; 31867; 22411]%N ++ runes_of_ascii "` ,
string  As ``
, }
")).
Eval vm_compute in ("<<<M1807>>>" ++ check (runes_of_ascii "
packet
    lengthOf
// " ++ [27880; 37322]%N ++ runes_of_ascii "
// " ++ [128512]%N ++ runes_of_ascii " emoji
{	}
options  {len	= ""`tick`""
BodyLength
=
    0123456789 //	t
;
}	packet stringy
{}")).
Eval vm_compute in ("<<<M1839>>>" ++ check (@nil rune)).
Eval vm_compute in ("<<<M1871>>>" ++ check (runes_of_ascii "
packet options1
{ @lengthOf( o	)  repeat uint8x,i64
    Logon// " ++ [27880; 37322]%N ++ runes_of_ascii "
, repeat
a1 charz
, int
    @calculatedFrom( """ ++ [28040; 24687]%N ++ runes_of_ascii """//
) , charz{a1 //x
{ repeat u8
As , }	, } , @lengthOf( u128 ) zchar[  4294967296 ]	leftPad
@lengthOf(
    u
)	, }
    packet
Foo { repeat u128
    {u `a\` , } , @tag( 0
) int8 repeatCount
// a // b
//
@lengthOf( // packet A { u8 x, }
i8i8 ) `line1
line2`,	@rightPad( '\x00')@tag( 0
)string rootA `it's`	, match a1 as i64_ {//	t
007
    :T }
,
    @lengthOf( lengthOf // c
)
match rootA
as  As {[ 7 ,
    0 // " ++ [27880; 37322]%N ++ runes_of_ascii "
] : u128 // packet A { u8 x, }
,
    255  :
    lengthOf , } , @tag(
    0123456789 ) roots{ Z9_@lengthOf(float) , chars { i64 rootA `
` ,
match // trailing space 
roots
as
chars
{42	: Packet ,
""a\\"" : Z9_  , 1 : Foo ,
    [ 65535 , """"
, ""it's""
,0123456789  , """ ++ [28040; 24687]%N ++ runes_of_ascii """ ] :o
, ""CRC32""
: a1 , }, } , repeat // @lengthOf(
crc o`tab	here`
,
} , }
    packet
trueish{ repeat char[ 0123456789  ]	metadata, calculatedFrom{
repeat Z9_, //
},	} options { } root packet Pad { //x
@rightPad
    ( '\x00' ) charz@lengthOf( metadata
// packet A { u8 x, }
// trailing space 
) `line1
line2` , char[] // packet A { u8 x, }
u@lengthOf( T )
    , @tag(
//	t
//x
0123456789 )@leftPad ( ) repeatCount , T @lengthOf(int ) ,
repeat
    char[ 00 ] tag
    `u8 x,`, @rightPad
    ( '0' ) match u8x // " ++ [128512]%N ++ runes_of_ascii " emoji
as falsey { [ 42, 0,3 , ""\" ++ [233]%N ++ runes_of_ascii """ // @lengthOf(
, 007,// a // b
""" ++ [128512]%N ++ runes_of_ascii """] : Packet , 7:Foo , [0123456789 ,""\" ++ [233]%N ++ runes_of_ascii """ ] : zchar [ 0  ,
    ""packet""	]
:roots }
,
    /// triple
    repeat u128{ int32 leftPad
    @lengthOf(
    leftPad ) ,crc `a\`,	repeat/// triple
string metadata, //
} ,}
// " ++ [27880; 37322]%N ++ runes_of_ascii "
")).
Eval vm_compute in ("<<<M1903>>>" ++ check (runes_of_ascii "// packet A { u8 x, }
packet
packetx  { uint8 x_y_z
, @rightPad/// triple
( )
len { char[]
roots @lengthOf(options1 ), }
,
repeat int , repeat
u8x Z9_ `say ""hi""`,	@tag( // a // b
0123456789 ) zchar[ 00 ]
    //x
    Pad `say ""hi""`	, falsey crc ,  T , Z9_
, // " ++ [27880; 37322]%N ++ runes_of_ascii "
match roots as i8i8 { 10 : asx,[ ""\" ++ [233]%N ++ runes_of_ascii """ , 42 ,
    """ ++ [233]%N ++ runes_of_ascii "t" ++ [233]%N ++ runes_of_ascii """  , 4294967296 ,
""" ++ [128512]%N ++ runes_of_ascii """	, // c
""\n"" , 0123456789
    ] : _x ""a\\"" :
    _x, [""a	b"" ] :
    metadata	, 1
:  Z9_
    // `tick` ""quote"" 'q'
    """ ++ [128512]%N ++ runes_of_ascii """  : repeatCount }
,} MetaData MetaDataX {
int16
    // `tick` ""quote"" 'q'
    u8x ,
} packet charz {
repeat As `" ++ [28040; 24687; 31867; 22411]%N ++ runes_of_ascii "`
    , } MetaData x_y_z { uint8
    // " ++ [27880; 37322]%N ++ runes_of_ascii "
    lengthOf,	}")).
Eval vm_compute in ("<<<T1903>>>" ++ terms [mkTok 44 "// packet A { u8 x, }" 1 0 true; mkTok 35 "packet" 2 0 false; mkTok 42 "packetx" 3 0 false; mkTok 2 "{" 3 9 false; mkTok 20 "uint8" 3 11 false; mkTok 42 "x_y_z" 3 17 false; mkTok 40 "," 4 0 false; mkTok 32 "@rightPad" 4 2 false; mkTok 44 "/// triple" 4 11 true; mkTok 8 "(" 5 0 false; mkTok 6 ")" 5 2 false; mkTok 42 "len" 6 0 false; mkTok 2 "{" 6 4 false; mkTok 16 "char[]" 6 6 false; mkTok 42 "roots" 7 0 false; mkTok 7 "@lengthOf(" 7 6 false; mkTok 42 "options1" 7 16 false; mkTok 6 ")" 7 25 false; mkTok 40 "," 7 26 false; mkTok 3 "}" 7 28 false; mkTok 40 "," 8 0 false; mkTok 36 "repeat" 9 0 false; mkTok 42 "int" 9 7 false; mkTok 40 "," 9 11 false; mkTok 36 "repeat" 9 13 false; mkTok 42 "u8x" 10 0 false; mkTok 42 "Z9_" 10 4 false; mkTok 43 "`say ""hi""`" 10 8 false; mkTok 40 "," 10 18 false; mkTok 9 "@tag(" 10 20 false; mkTok 44 "// a // b" 10 26 true; mkTok 30 "0123456789" 11 0 false; mkTok 6 ")" 11 11 false; mkTok 14 "zchar[" 11 13 false; mkTok 30 "00" 11 20 false; mkTok 13 "]" 11 23 false; mkTok 44 "//x" 12 4 true; mkTok 42 "Pad" 13 4 false; mkTok 43 "`say ""hi""`" 13 8 false; mkTok 40 "," 13 19 false; mkTok 42 "falsey" 13 21 false; mkTok 42 "crc" 13 28 false; mkTok 40 "," 13 32 false; mkTok 42 "T" 13 35 false; mkTok 40 "," 13 37 false; mkTok 42 "Z9_" 13 39 false; mkTok 40 "," 14 0 false; mkTok 44 (string_of_bytes [47; 47; 32; 230; 179; 168; 233; 135; 138]%N) 14 2 true; mkTok 38 "match" 15 0 false; mkTok 42 "roots" 15 6 false; mkTok 17 "as" 15 12 false; mkTok 42 "i8i8" 15 15 false; mkTok 2 "{" 15 20 false; mkTok 30 "10" 15 22 false; mkTok 39 ":" 15 25 false; mkTok 42 "asx" 15 27 false; mkTok 40 "," 15 30 false; mkTok 18 "[" 15 31 false; mkTok 31 (string_of_bytes [34; 92; 195; 169; 34]%N) 15 33 false; mkTok 40 "," 15 38 false; mkTok 30 "42" 15 40 false; mkTok 40 "," 15 43 false; mkTok 31 (string_of_bytes [34; 195; 169; 116; 195; 169; 34]%N) 16 4 false; mkTok 40 "," 16 11 false; mkTok 30 "4294967296" 16 13 false; mkTok 40 "," 16 24 false; mkTok 31 (string_of_bytes [34; 240; 159; 152; 128; 34]%N) 17 0 false; mkTok 40 "," 17 4 false; mkTok 44 "// c" 17 6 true; mkTok 31 """\n""" 18 0 false; mkTok 40 "," 18 5 false; mkTok 30 "0123456789" 18 7 false; mkTok 13 "]" 19 4 false; mkTok 39 ":" 19 6 false; mkTok 42 "_x" 19 8 false; mkTok 31 """a\\""" 19 11 false; mkTok 39 ":" 19 17 false; mkTok 42 "_x" 20 4 false; mkTok 40 "," 20 6 false; mkTok 18 "[" 20 8 false; mkTok 31 (string_of_bytes [34; 97; 9; 98; 34]%N) 20 9 false; mkTok 13 "]" 20 15 false; mkTok 39 ":" 20 17 false; mkTok 42 "metadata" 21 4 false; mkTok 40 "," 21 13 false; mkTok 30 "1" 21 15 false; mkTok 39 ":" 22 0 false; mkTok 42 "Z9_" 22 3 false; mkTok 44 "// `tick` ""quote"" 'q'" 23 4 true; mkTok 31 (string_of_bytes [34; 240; 159; 152; 128; 34]%N) 24 4 false; mkTok 39 ":" 24 9 false; mkTok 42 "repeatCount" 24 11 false; mkTok 3 "}" 24 23 false; mkTok 40 "," 25 0 false; mkTok 3 "}" 25 1 false; mkTok 37 "MetaData" 25 3 false; mkTok 42 "MetaDataX" 25 12 false; mkTok 2 "{" 25 22 false; mkTok 25 "int16" 26 0 false; mkTok 44 "// `tick` ""quote"" 'q'" 27 4 true; mkTok 42 "u8x" 28 4 false; mkTok 40 "," 28 8 false; mkTok 3 "}" 29 0 false; mkTok 35 "packet" 29 2 false; mkTok 42 "charz" 29 9 false; mkTok 2 "{" 29 15 false; mkTok 36 "repeat" 30 0 false; mkTok 42 "As" 30 7 false; mkTok 43 (string_of_bytes [96; 230; 182; 136; 230; 129; 175; 231; 177; 187; 229; 158; 139; 96]%N) 30 10 false; mkTok 40 "," 31 4 false; mkTok 3 "}" 31 6 false; mkTok 37 "MetaData" 31 8 false; mkTok 42 "x_y_z" 31 17 false; mkTok 2 "{" 31 23 false; mkTok 20 "uint8" 31 25 false; mkTok 44 (string_of_bytes [47; 47; 32; 230; 179; 168; 233; 135; 138]%N) 32 4 true; mkTok 42 "lengthOf" 33 4 false; mkTok 40 "," 33 12 false; mkTok 3 "}" 33 14 false; mkTok 0 "<EOF>" 33 15 false] (mkPacket (mkPtok 35 "packet" 2 0 1) (Some (mkPtok 3 "}" 33 14 118)) [(DPacket (mkPacketDef (mkSpan (mkPtok 35 "packet" 2 0 1) (mkPtok 3 "}" 25 1 94)) None (mkPtok 35 "packet" 2 0 1) (mkPtok 42 "packetx" 3 0 2) (mkPtok 2 "{" 3 9 3) [(mkFieldWithAttr (mkSpan (mkPtok 20 "uint8" 3 11 4) (mkPtok 40 "," 4 0 6)) [] (MetaField (mkSpan (mkPtok 20 "uint8" 3 11 4) (mkPtok 40 "," 4 0 6)) None (mkMetaDecl (mkSpan (mkPtok 20 "uint8" 3 11 4) (mkPtok 40 "," 4 0 6)) (TyBasic (mkSpan (mkPtok 20 "uint8" 3 11 4) (mkPtok 20 "uint8" 3 11 4)) (mkBasicType (mkSpan (mkPtok 20 "uint8" 3 11 4) (mkPtok 20 "uint8" 3 11 4)) (mkPtok 20 "uint8" 3 11 4))) (mkPtok 42 "x_y_z" 3 17 5) None (mkPtok 40 "," 4 0 6)))); (mkFieldWithAttr (mkSpan (mkPtok 32 "@rightPad" 4 2 7) (mkPtok 40 "," 8 0 20)) [(FAPadding (mkSpan (mkPtok 32 "@rightPad" 4 2 7) (mkPtok 6 ")" 5 2 10)) (mkPaddingAttr (mkSpan (mkPtok 32 "@rightPad" 4 2 7) (mkPtok 6 ")" 5 2 10)) (mkPtok 32 "@rightPad" 4 2 7) (mkPtok 8 "(" 5 0 9) None (mkPtok 6 ")" 5 2 10)))] (InerObjectField (mkSpan (mkPtok 42 "len" 6 0 11) (mkPtok 40 "," 8 0 20)) None (InerObjectDecl (mkSpan (mkPtok 42 "len" 6 0 11) (mkPtok 3 "}" 7 28 19)) (mkPtok 42 "len" 6 0 11) (mkPtok 2 "{" 6 4 12) [(LengthField (mkSpan (mkPtok 16 "char[]" 6 6 13) (mkPtok 40 "," 7 26 18)) (mkLengthFieldDecl (mkSpan (mkPtok 16 "char[]" 6 6 13) (mkPtok 40 "," 7 26 18)) (Some (TyDynamic (mkSpan (mkPtok 16 "char[]" 6 6 13) (mkPtok 16 "char[]" 6 6 13)) (mkDynamicString (mkSpan (mkPtok 16 "char[]" 6 6 13) (mkPtok 16 "char[]" 6 6 13)) (mkPtok 16 "char[]" 6 6 13)))) (mkPtok 42 "roots" 7 0 14) (mkLengthOf (mkSpan (mkPtok 7 "@lengthOf(" 7 6 15) (mkPtok 6 ")" 7 25 17)) (mkPtok 7 "@lengthOf(" 7 6 15) (mkPtok 42 "options1" 7 16 16) (mkPtok 6 ")" 7 25 17)) None (mkPtok 40 "," 7 26 18)))] (mkPtok 3 "}" 7 28 19)) (mkPtok 40 "," 8 0 20))); (mkFieldWithAttr (mkSpan (mkPtok 36 "repeat" 9 0 21) (mkPtok 40 "," 9 11 23)) [] (ObjectField (mkSpan (mkPtok 36 "repeat" 9 0 21) (mkPtok 40 "," 9 11 23)) (Some (mkPtok 36 "repeat" 9 0 21)) (mkPtok 42 "int" 9 7 22) None None (mkPtok 40 "," 9 11 23))); (mkFieldWithAttr (mkSpan (mkPtok 36 "repeat" 9 13 24) (mkPtok 40 "," 10 18 28)) [] (ObjectField (mkSpan (mkPtok 36 "repeat" 9 13 24) (mkPtok 40 "," 10 18 28)) (Some (mkPtok 36 "repeat" 9 13 24)) (mkPtok 42 "u8x" 10 0 25) (Some (mkPtok 42 "Z9_" 10 4 26)) (Some (mkPtok 43 "`say ""hi""`" 10 8 27)) (mkPtok 40 "," 10 18 28))); (mkFieldWithAttr (mkSpan (mkPtok 9 "@tag(" 10 20 29) (mkPtok 40 "," 13 19 39)) [(FATag (mkSpan (mkPtok 9 "@tag(" 10 20 29) (mkPtok 6 ")" 11 11 32)) (mkTagAttr (mkSpan (mkPtok 9 "@tag(" 10 20 29) (mkPtok 6 ")" 11 11 32)) (mkPtok 9 "@tag(" 10 20 29) (mkPtok 30 "0123456789" 11 0 31) (mkPtok 6 ")" 11 11 32)))] (MetaField (mkSpan (mkPtok 14 "zchar[" 11 13 33) (mkPtok 40 "," 13 19 39)) None (mkMetaDecl (mkSpan (mkPtok 14 "zchar[" 11 13 33) (mkPtok 40 "," 13 19 39)) (TyFixed (mkSpan (mkPtok 14 "zchar[" 11 13 33) (mkPtok 13 "]" 11 23 35)) (mkFixedString (mkSpan (mkPtok 14 "zchar[" 11 13 33) (mkPtok 13 "]" 11 23 35)) (mkPtok 14 "zchar[" 11 13 33) (mkPtok 30 "00" 11 20 34) (mkPtok 13 "]" 11 23 35))) (mkPtok 42 "Pad" 13 4 37) (Some (mkPtok 43 "`say ""hi""`" 13 8 38)) (mkPtok 40 "," 13 19 39)))); (mkFieldWithAttr (mkSpan (mkPtok 42 "falsey" 13 21 40) (mkPtok 40 "," 13 32 42)) [] (ObjectField (mkSpan (mkPtok 42 "falsey" 13 21 40) (mkPtok 40 "," 13 32 42)) None (mkPtok 42 "falsey" 13 21 40) (Some (mkPtok 42 "crc" 13 28 41)) None (mkPtok 40 "," 13 32 42))); (mkFieldWithAttr (mkSpan (mkPtok 42 "T" 13 35 43) (mkPtok 40 "," 13 37 44)) [] (ObjectField (mkSpan (mkPtok 42 "T" 13 35 43) (mkPtok 40 "," 13 37 44)) None (mkPtok 42 "T" 13 35 43) None None (mkPtok 40 "," 13 37 44))); (mkFieldWithAttr (mkSpan (mkPtok 42 "Z9_" 13 39 45) (mkPtok 40 "," 14 0 46)) [] (ObjectField (mkSpan (mkPtok 42 "Z9_" 13 39 45) (mkPtok 40 "," 14 0 46)) None (mkPtok 42 "Z9_" 13 39 45) None None (mkPtok 40 "," 14 0 46))); (mkFieldWithAttr (mkSpan (mkPtok 38 "match" 15 0 48) (mkPtok 40 "," 25 0 93)) [] (MatchField (mkSpan (mkPtok 38 "match" 15 0 48) (mkPtok 40 "," 25 0 93)) (mkMatchFieldDecl (mkSpan (mkPtok 38 "match" 15 0 48) (mkPtok 3 "}" 24 23 92)) (mkPtok 38 "match" 15 0 48) (mkPtok 42 "roots" 15 6 49) (mkPtok 17 "as" 15 12 50) (mkPtok 42 "i8i8" 15 15 51) (mkPtok 2 "{" 15 20 52) [(mkMatchPair (mkSpan (mkPtok 30 "10" 15 22 53) (mkPtok 40 "," 15 30 56)) (MKDigits (mkPtok 30 "10" 15 22 53)) (mkPtok 39 ":" 15 25 54) (mkPtok 42 "asx" 15 27 55) (Some (mkPtok 40 "," 15 30 56))); (mkMatchPair (mkSpan (mkPtok 18 "[" 15 31 57) (mkPtok 42 "_x" 19 8 74)) (MKList (mkKeyList (mkSpan (mkPtok 18 "[" 15 31 57) (mkPtok 13 "]" 19 4 72)) (mkPtok 18 "[" 15 31 57) (mkPtok 31 (string_of_bytes [34; 92; 195; 169; 34]%N) 15 33 58) [((mkPtok 40 "," 15 38 59), (mkPtok 30 "42" 15 40 60)); ((mkPtok 40 "," 15 43 61), (mkPtok 31 (string_of_bytes [34; 195; 169; 116; 195; 169; 34]%N) 16 4 62)); ((mkPtok 40 "," 16 11 63), (mkPtok 30 "4294967296" 16 13 64)); ((mkPtok 40 "," 16 24 65), (mkPtok 31 (string_of_bytes [34; 240; 159; 152; 128; 34]%N) 17 0 66)); ((mkPtok 40 "," 17 4 67), (mkPtok 31 """\n""" 18 0 69)); ((mkPtok 40 "," 18 5 70), (mkPtok 30 "0123456789" 18 7 71))] (mkPtok 13 "]" 19 4 72))) (mkPtok 39 ":" 19 6 73) (mkPtok 42 "_x" 19 8 74) None); (mkMatchPair (mkSpan (mkPtok 31 """a\\""" 19 11 75) (mkPtok 40 "," 20 6 78)) (MKString (mkPtok 31 """a\\""" 19 11 75)) (mkPtok 39 ":" 19 17 76) (mkPtok 42 "_x" 20 4 77) (Some (mkPtok 40 "," 20 6 78))); (mkMatchPair (mkSpan (mkPtok 18 "[" 20 8 79) (mkPtok 40 "," 21 13 84)) (MKList (mkKeyList (mkSpan (mkPtok 18 "[" 20 8 79) (mkPtok 13 "]" 20 15 81)) (mkPtok 18 "[" 20 8 79) (mkPtok 31 (string_of_bytes [34; 97; 9; 98; 34]%N) 20 9 80) [] (mkPtok 13 "]" 20 15 81))) (mkPtok 39 ":" 20 17 82) (mkPtok 42 "metadata" 21 4 83) (Some (mkPtok 40 "," 21 13 84))); (mkMatchPair (mkSpan (mkPtok 30 "1" 21 15 85) (mkPtok 42 "Z9_" 22 3 87)) (MKDigits (mkPtok 30 "1" 21 15 85)) (mkPtok 39 ":" 22 0 86) (mkPtok 42 "Z9_" 22 3 87) None); (mkMatchPair (mkSpan (mkPtok 31 (string_of_bytes [34; 240; 159; 152; 128; 34]%N) 24 4 89) (mkPtok 42 "repeatCount" 24 11 91)) (MKString (mkPtok 31 (string_of_bytes [34; 240; 159; 152; 128; 34]%N) 24 4 89)) (mkPtok 39 ":" 24 9 90) (mkPtok 42 "repeatCount" 24 11 91) None)] (mkPtok 3 "}" 24 23 92)) (mkPtok 40 "," 25 0 93)))] (mkPtok 3 "}" 25 1 94))); (DMeta (mkMetaDef (mkSpan (mkPtok 37 "MetaData" 25 3 95) (mkPtok 3 "}" 29 0 102)) (mkPtok 37 "MetaData" 25 3 95) (mkPtok 42 "MetaDataX" 25 12 96) (mkPtok 2 "{" 25 22 97) [(MIDecl (mkMetaDecl (mkSpan (mkPtok 25 "int16" 26 0 98) (mkPtok 40 "," 28 8 101)) (TyBasic (mkSpan (mkPtok 25 "int16" 26 0 98) (mkPtok 25 "int16" 26 0 98)) (mkBasicType (mkSpan (mkPtok 25 "int16" 26 0 98) (mkPtok 25 "int16" 26 0 98)) (mkPtok 25 "int16" 26 0 98))) (mkPtok 42 "u8x" 28 4 100) None (mkPtok 40 "," 28 8 101)))] (mkPtok 3 "}" 29 0 102))); (DPacket (mkPacketDef (mkSpan (mkPtok 35 "packet" 29 2 103) (mkPtok 3 "}" 31 6 110)) None (mkPtok 35 "packet" 29 2 103) (mkPtok 42 "charz" 29 9 104) (mkPtok 2 "{" 29 15 105) [(mkFieldWithAttr (mkSpan (mkPtok 36 "repeat" 30 0 106) (mkPtok 40 "," 31 4 109)) [] (ObjectField (mkSpan (mkPtok 36 "repeat" 30 0 106) (mkPtok 40 "," 31 4 109)) (Some (mkPtok 36 "repeat" 30 0 106)) (mkPtok 42 "As" 30 7 107) None (Some (mkPtok 43 (string_of_bytes [96; 230; 182; 136; 230; 129; 175; 231; 177; 187; 229; 158; 139; 96]%N) 30 10 108)) (mkPtok 40 "," 31 4 109)))] (mkPtok 3 "}" 31 6 110))); (DMeta (mkMetaDef (mkSpan (mkPtok 37 "MetaData" 31 8 111) (mkPtok 3 "}" 33 14 118)) (mkPtok 37 "MetaData" 31 8 111) (mkPtok 42 "x_y_z" 31 17 112) (mkPtok 2 "{" 31 23 113) [(MIDecl (mkMetaDecl (mkSpan (mkPtok 20 "uint8" 31 25 114) (mkPtok 40 "," 33 12 117)) (TyBasic (mkSpan (mkPtok 20 "uint8" 31 25 114) (mkPtok 20 "uint8" 31 25 114)) (mkBasicType (mkSpan (mkPtok 20 "uint8" 31 25 114) (mkPtok 20 "uint8" 31 25 114)) (mkPtok 20 "uint8" 31 25 114))) (mkPtok 42 "lengthOf" 33 4 116) None (mkPtok 40 "," 33 12 117)))] (mkPtok 3 "}" 33 14 118)))])).
Eval vm_compute in ("<<<M1935>>>" ++ check (runes_of_ascii "
root packet/// triple
BodyLength {@lengthOf( repeatCount // packet A { u8 x, }
) @lengthOf( T
) @tag( 007
    //	t
    ) // @lengthOf(
f32 // @lengthOf(
o  `{ , }`
,match//	t
trueish as	int{ """ ++ [28040; 24687]%N ++ runes_of_ascii """ : len, //	t
4294967296 : A
0
:string_ , 0123456789: Z9_ ,""`tick`"" // packet A { u8 x, }
: matchKey , } , // packet A { u8 x, }
float32 // " ++ [128512]%N ++ runes_of_ascii " emoji
int
    //
    @lengthOf( i8i8 )
    , char _x
    @lengthOf(	trueish ), }MetaData int
{ uint16 //x
MetaDataX
    ,} packet T	{@calculatedFrom( ""{,}"" ) zchar
@lengthOf( BodyLength )
,@calculatedFrom( ""// no comment""
)@lengthOf( Pad
) u64
    Header
@lengthOf(
calculatedFrom // packet A { u8 x, }
) , repeat  Logon tag ,//x
}
")).
Eval vm_compute in ("<<<M1967>>>" ++ check (runes_of_ascii "packet
options1 {
u32 lengthOf @lengthOf( metadata ) `" ++ [233]%N ++ runes_of_ascii "` //	t
, int@calculatedFrom(
""a\\""
    //x
    ), crc /// triple
{ repeat char[]
//x
// " ++ [128512]%N ++ runes_of_ascii " emoji
u8x , } ,
@rightPad
    // " ++ [128512]%N ++ runes_of_ascii " emoji
    ( // c
' ')float64 repeatCount `doc`,// trailing space 
@rightPad ( '\x00') @calculatedFrom(
    """ ++ [233]%N ++ runes_of_ascii "t" ++ [233]%N ++ runes_of_ascii """ )// packet A { u8 x, }
@leftPad () lengthOf { match i64_
as metadata
    {""{,}""
    :
rootA,
    // c
    }
    ,
Packet @lengthOf( Packet )	, } ,
@tag(	42 )uint8 repeatCount , }MetaData Foo
{zchar[
10
] stringy, f32a float
, uint16// a // b
rootA`tab	here`, } options { roots	= '0'
;
i64_ = char[]	;stringy // trailing space 
= char[ 42 ]
//x
// @lengthOf(
i64_=  zchar[	65535] }")).
Eval vm_compute in ("<<<M1999>>>" ++ check (runes_of_ascii "packet Pad
    { }
packet u
{ @tag(
00 ) repeatCount chars ,// " ++ [27880; 37322]%N ++ runes_of_ascii "
@tag( 7	)@tag( 3 )int64
i8i8  , @calculatedFrom( ""CRC32"" ) // a // b
@calculatedFrom(
    ""it's"" ) @lengthOf( stringy
    )
    u`crlf
line` ,
    @tag(  007 )
x_y_z `crlf
line`	, } options { leftPad =
zchar[ 10 // `tick` ""quote"" 'q'
]
    ;
stringy
=' 'float = 7 u =// packet A { u8 x, }
zchar[10
    ] ;chars=
'\x00'
}
")).
Eval vm_compute in ("<<<M2031>>>" ++ check (runes_of_ascii "options{ i64_ = ; string trueish =
    '\x00'
    leftPad = ""a\\"" /// triple
; crc
    = 255; uint8x
=
""abc""
    ;}")).
Eval vm_compute in ("<<<M2063>>>" ++ check (runes_of_ascii "options{ i64_ = string ; trueish =
    '\x00'
    leftPad")).
Eval vm_compute in ("<<<M2095>>>" ++ check (runes_of_ascii "options{ i64_ = string ; trueish =
    '\x00'
    leftPad = ""a\\"" /// triple
; crc
    = 255; uint8x uint8x
=
""abc""
    ;}")).
Eval vm_compute in ("<<<M2127>>>" ++ check (runes_of_ascii "options{ i64_ = string < ; trueish =
    '\x00'
    leftPad = ""a\\"" /// triple
; crc
    = 255; uint8x
=
""abc""
    ;}")).
Eval vm_compute in ("<<<M2159>>>" ++ check (runes_of_ascii "  packet
asx
{")).
Eval vm_compute in ("<<<M2191>>>" ++ check (runes_of_ascii "  packet
asx
{
/// triple
// @lengthOf(
u32 stringy
`" ++ [28040; 24687; 31867; 22411]%N ++ runes_of_ascii "` ,} MetaData
    A { {string  _x, zchar Header `a\`
// @lengthOf(
// packet A { u8 x, }
, char[] MetaDataX
,zchar[ 1 ]
    matchKey
    , char[] //
u,	char[0123456789 ]
    matchKey
    `{ , }`, }
")).
Eval vm_compute in ("<<<M2223>>>" ++ check (runes_of_ascii "  packet
asx
{
/// triple
// @lengthOf(
u32 stringy
`" ++ [28040; 24687; 31867; 22411]%N ++ runes_of_ascii "` ,} MetaData
    A {string  _x, zchar Header char[
// @lengthOf(
// packet A { u8 x, }
, char[] MetaDataX
,zchar[ 1 ]
    matchKey
    , char[] //
u,	char[0123456789 ]
    matchKey
    `{ , }`, }
")).
Eval vm_compute in ("<<<M2255>>>" ++ check (runes_of_ascii "  packet
asx
{
/// triple
// @lengthOf(
u32 stringy
`" ++ [28040; 24687; 31867; 22411]%N ++ runes_of_ascii "` ,} MetaData
    A {string  _x, zchar Header `a\`
// @lengthOf(
// packet A { u8 x, }
, char[] MetaDataX
,zchar[ 1 
    matchKey
    , char[] //
u,	char[0123456789 ]
    matchKey
    `{ , }`, }
")).
Eval vm_compute in ("<<<M2287>>>" ++ check (runes_of_ascii "  packet
asx
{
/// triple
// @lengthOf(
u32 stringy
`" ++ [28040; 24687; 31867; 22411]%N ++ runes_of_ascii "` ,} MetaData
    A {string  _x, zchar Header `a\`
// @lengthOf(
// packet A { u8 x, }
, char[] MetaDataX
,zchar[ 1 ]
    matchKey
    , char[] //
u,	0123456789 char[ ]
    matchKey
    `{ , }`, }
")).
Eval vm_compute in ("<<<M2319>>>" ++ check (runes_of_ascii "  packet
asx")).
Eval vm_compute in ("<<<M2351>>>" ++ check (runes_of_ascii "root
    packet

{ // trailing space 
matchKey `tab	here` ,}")).
Eval vm_compute in ("<<<M2383>>>" ++ check (runes_of_ascii "root
    packet
Packet
{ // trailing space ")).
Eval vm_compute in ("<<<M2415>>>" ++ check (runes_of_ascii "options{ zchar[ // a // b
=
    '0' } options { repeatCount =
true ; string_// a // b
=
// c
// " ++ [27880; 37322]%N ++ runes_of_ascii "
int64
// trailing space 
/// triple
; } // @lengthOf(")).
Eval vm_compute in ("<<<M2447>>>" ++ check (runes_of_ascii "options{ falsey // a // b
=
    '0' } options { repeatCount 
true ; string_// a // b
=
// c
// " ++ [27880; 37322]%N ++ runes_of_ascii "
int64
// trailing space 
/// triple
; } // @lengthOf(")).
Eval vm_compute in ("<<<M2479>>>" ++ check (runes_of_ascii "options{ falsey // a // b
=
    '0' } options { repeatCount =
true ; string_// a // b
=
// c
// " ++ [27880; 37322]%N ++ runes_of_ascii "
int64
// trailing space 
/// triple
} ; // @lengthOf(")).
Eval vm_compute in ("<<<M2511>>>" ++ check (runes_of_ascii "root{}root packet
metadata {
@lengthOf(x ) float32
body ``, }
    MetaData
Z9_
    {
    string string_ , Logon x
,
uint32
    // packet A { u8 x, }
    Z9_,asx
_x
    `tab	here` , }
")).
Eval vm_compute in ("<<<M2543>>>" ++ check (runes_of_ascii "options{}root packet
metadata {
x ) float32
body ``, }
    MetaData
Z9_
    {
    string string_ , Logon x
,
uint32
    // packet A { u8 x, }
    Z9_,asx
_x
    `tab	here` , }
")).
Eval vm_compute in ("<<<M2575>>>" ++ check (runes_of_ascii "options{}root packet
metadata {
@lengthOf(x ) float32
body ``} ,
    MetaData
Z9_
    {
    string string_ , Logon x
,
uint32
    // packet A { u8 x, }
    Z9_,asx
_x
    `tab	here` , }
")).
Eval vm_compute in ("<<<M2607>>>" ++ check (runes_of_ascii "options{}root packet
metadata {
@lengthOf(x ) float32
body ``, }
    MetaData
Z9_
    {
    string")).
Eval vm_compute in ("<<<M2639>>>" ++ check (runes_of_ascii "options{}root packet
metadata {
@lengthOf(x ) float32
body ``, }
    MetaData
Z9_
    {
    string string_ , Logon x
,
uint32
    // packet A { u8 x, }
    Z9_, ,asx
_x
    `tab	here` , }
")).
Eval vm_compute in ("<<<M2671>>>" ++ check (runes_of_ascii "options{}root packet
metad")).
Eval vm_compute in ("<<<M2703>>>" ++ check (runes_of_ascii "options {")).
Eval vm_compute in ("<<<M2735>>>" ++ check (runes_of_ascii "options {
    fals" ++ [65279]%N ++ runes_of_ascii "ey=
""a\\"" ; }")).
Eval vm_compute in ("<<<M2767>>>" ++ check (runes_of_ascii "MetaData f32a
{
    //	t
    }packet
    root tag  {
}
")).
Eval vm_compute in ("<<<M2799>>>" ++ check (runes_of_ascii "MetaData f32a
{
    //	t
    }root
    packet tag  {
}
" ++ [233]%N)).
Eval vm_compute in ("<<<M2831>>>" ++ check (runes_of_ascii "
options
    {msg_type =
      }root
packet Z9_{ char /// triple
crc @lengthOf(
options1 ) //
,} MetaData a1{}
")).
Eval vm_compute in ("<<<M2863>>>" ++ check (runes_of_ascii "
options
    {msg_type =
    float32  }root
packet Z9_{ crc /// triple
char @lengthOf(
options1 ) //
,} MetaData a1{}
")).
Eval vm_compute in ("<<<M2895>>>" ++ check (runes_of_ascii "
options
    {msg_type =
    float32  }root
packet Z9_{ char /// triple
crc @lengthOf(
options1 ) //
,")).
Eval vm_compute in ("<<<M2927>>>" ++ check (runes_of_ascii "
op~tions
    {msg_type =
    float32  }root
packet Z9_{ char /// triple
crc @lengthOf(
options1 ) //
,} MetaData a1{}
")).
Eval vm_compute in ("<<<M2959>>>" ++ check (runes_of_ascii "packet crc{ // " ++ [128512]%N ++ runes_of_ascii " emoji
repeat i8i8 string
`a\`, }
")).
Eval vm_compute in ("<<<M2991>>>" ++ check (runes_of_ascii "packet crc{ // `" ++ [128512]%N ++ runes_of_ascii " emoji
repeat string i8i8
`a\`, }
")).
Eval vm_compute in ("<<<M3023>>>" ++ check (runes_of_ascii "packet BodyLength {}  zchar{ zchar[// @lengthOf(
42 ]
    pack , string_
A , char[]crc , _x trueish ,
// " ++ [27880; 37322]%N ++ runes_of_ascii "
// " ++ [128512]%N ++ runes_of_ascii " emoji
zchar[
    3 ]	T // trailing space 
, } packet body
{
    }
")).
Eval vm_compute in ("<<<M3055>>>" ++ check (runes_of_ascii "packet BodyLength {} MetaData zchar{ zchar[// @lengthOf(
42 ]
    , pack string_
A , char[]crc , _x trueish ,
// " ++ [27880; 37322]%N ++ runes_of_ascii "
// " ++ [128512]%N ++ runes_of_ascii " emoji
zchar[
    3 ]	T // trailing space 
, } packet body
{
    }
")).
Eval vm_compute in ("<<<M3087>>>" ++ check (runes_of_ascii "packet BodyLength {} MetaData zchar{ zchar[// @lengthOf(
42 ]
    pack , string_
A , char[]")).
Eval vm_compute in ("<<<M3119>>>" ++ check (runes_of_ascii "packet BodyLength {} MetaData zchar{ zchar[// @lengthOf(
42 ]
    pack , string_
A , char[]crc , _x trueish ,
// " ++ [27880; 37322]%N ++ runes_of_ascii "
// " ++ [128512]%N ++ runes_of_ascii " emoji
zchar[
    3 ] ]	T // trailing space 
, } packet body
{
    }
")).
Eval vm_compute in ("<<<M3151>>>" ++ check (runes_of_ascii "packet BodyLength {} MetaData zchar{ zchar[// @lengthOf(
42 ]
    pack , string_
A , char[]crc , _x trueish ,
// " ++ [27880; 37322]%N ++ runes_of_ascii "
// " ++ [128512]%N ++ runes_of_ascii " emoji
zchar[
    3 ]	T // trailing space 
, } packet body
uint8
    }
")).
Eval vm_compute in ("<<<M3183>>>" ++ check (@nil rune)).
Eval vm_compute in ("<<<M3215>>>" ++ check (runes_of_ascii "packet
string_ {@lengthOf( int ) match packetx packetx as f32a {
    1 :	calculatedFrom , }  ,
    } packet len
    //	t
    { @calculatedFrom( """ ++ [233]%N ++ runes_of_ascii "t" ++ [233]%N ++ runes_of_ascii """ ) body Header , char[] lengthOf  `two words` ,chars{repeat string_ matchKey ,
    } ,
    }
")).
Eval vm_compute in ("<<<M3247>>>" ++ check (runes_of_ascii "packet
string_ {@lengthOf( int ) match packetx as f32a {
    1 :	u64 , }  ,
    } packet len
    //	t
    { @calculatedFrom( """ ++ [233]%N ++ runes_of_ascii "t" ++ [233]%N ++ runes_of_ascii """ ) body Header , char[] lengthOf  `two words` ,chars{repeat string_ matchKey ,
    } ,
    }
")).
Eval vm_compute in ("<<<M3279>>>" ++ check (runes_of_ascii "packet
string_ {@lengthOf( int ) match packetx as f32a {
    1 :	calculatedFrom , }  ,
    } packet len
    //	t
     @calculatedFrom( """ ++ [233]%N ++ runes_of_ascii "t" ++ [233]%N ++ runes_of_ascii """ ) body Header , char[] lengthOf  `two words` ,chars{repeat string_ matchKey ,
    } ,
    }
")).
Eval vm_compute in ("<<<M3311>>>" ++ check (runes_of_ascii "packet
string_ {@lengthOf( int ) match packetx as f32a {
    1 :	calculatedFrom , }  ,
    } packet len
    //	t
    { @calculatedFrom( """ ++ [233]%N ++ runes_of_ascii "t" ++ [233]%N ++ runes_of_ascii """ ) body Header char[] , lengthOf  `two words` ,chars{repeat string_ matchKey ,
    } ,
    }
")).
Eval vm_compute in ("<<<M3343>>>" ++ check (runes_of_ascii "packet
string_ {@lengthOf( int ) match packetx as f32a {
    1 :	calculatedFrom , }  ,
    } packet len
    //	t
    { @calculatedFrom( """ ++ [233]%N ++ runes_of_ascii "t" ++ [233]%N ++ runes_of_ascii """ ) body Header , char[] lengthOf  `two words` ,chars")).
Eval vm_compute in ("<<<M3375>>>" ++ check (runes_of_ascii "packet
string_ {@lengthOf( int ) match packetx as f32a {
    1 :	calculatedFrom , }  ,
    } packet len
    //	t
    { @calculatedFrom( """ ++ [233]%N ++ runes_of_ascii "t" ++ [233]%N ++ runes_of_ascii """ ) body Header , char[] lengthOf  `two words` ,chars{repeat string_ matchKey ,
    } ,
    } }
")).
Eval vm_compute in ("<<<M3407>>>" ++ check (runes_of_ascii "/// triple
root
packet // packet A { u8 x, }
chars { @lengthOf(charz )
stringy,  @tag(  0 ) // a // b

    As
,
// trailing space 
// trailing space 
x_y_z {
repeat i16 charz , } ,	int16  crc ,}
")).
Eval vm_compute in ("<<<M3439>>>" ++ check (runes_of_ascii "/// triple
root
packet // packet A { u8 x, }
chars { @lengthOf(charz )
stringy,  @tag(  0 ) // $a // b
asx
    As
,
// trailing space 
// trailing space 
x_y_z {
repeat i16 charz , } ,	int16  crc ,}
")).
Eval vm_compute in ("<<<M3471>>>" ++ check (runes_of_ascii "/// triple
root
packet // packet A { u8 x, }
chars { @lengthOf(charz )
stringy,  @tag(  0 ) // a // b
asx
    As
,
// trailing space 
// trailing space 
x_y_z {")).
Eval vm_compute in ("<<<M3503>>>" ++ check (runes_of_ascii "u8")).
Eval vm_compute in ("<<<M3535>>>" ++ check (runes_of_ascii "Packet")).
Eval vm_compute in ("<<<M3567>>>" ++ check (runes_of_ascii "// x")).
Eval vm_compute in ("<<<M3599>>>" ++ check (runes_of_ascii "a.b")).
Eval vm_compute in ("<<<M3631>>>" ++ check (runes_of_ascii "packet A { repeat }")).
Eval vm_compute in ("<<<M3663>>>" ++ check (runes_of_ascii "packet A { B { u8 x, } }")).
Eval vm_compute in ("<<<M3695>>>" ++ check (runes_of_ascii "packet { }")).
Eval vm_compute in ("<<<M3727>>>" ++ check (runes_of_ascii "options { a = ; }")).
Eval vm_compute in ("<<<M3759>>>" ++ check (runes_of_ascii "// a
// b
")).
Eval vm_compute in ("<<<M3791>>>" ++ check (runes_of_ascii "packet match")).
Eval vm_compute in ("<<<M3823>>>" ++ check (runes_of_ascii "i8 root 4294967296 , packet int64 , i64 } }")).
Eval vm_compute in ("<<<M3855>>>" ++ check (runes_of_ascii "@calculatedFrom( char msg_type int8 float32 repeat")).
Eval vm_compute in ("<<<M3887>>>" ++ check (runes_of_ascii "uint32 true MetaData char[] ; `line1
line2` MetaData @leftPad = as ( i32")).
Eval vm_compute in ("<<<M3919>>>" ++ check (runes_of_ascii ": """ ++ [28040; 24687]%N ++ runes_of_ascii """ float64 } ;")).
Eval vm_compute in ("<<<M3951>>>" ++ check (runes_of_ascii "= } false `line1
line2` @lengthOf(")).
Eval vm_compute in ("<<<M3983>>>" ++ check (runes_of_ascii "uint64 string ) @tag( uint32 u32 string u8 zchar[ match falsey false }")).
