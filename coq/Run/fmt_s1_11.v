From FP Require Import Lexer Parser ShowPT Digest Formatter.
From Coq Require Import String List NArith.
Import ListNotations.
Open Scope string_scope.
Set Printing Width 100000000.
Set Printing Depth 100000000.
Definition show_fres (r : fres) : string :=
  match r with
  | FOk s => "OK:" ++ sh_escaped s ""
  | FErr s => "ERR:" ++ sh_escaped s ""
  | FPanic p => "PANIC:" ++ p
  end.
Definition check (rs : list rune) : string := digest (show_fres (format_res rs)).
Definition full (rs : list rune) : string := show_fres (format_res rs).
Eval vm_compute in ("<<<M3631>>>" ++ check (runes_of_ascii "// top
options
    // c0
{ // c1a
  // c1b
StringPrefixLenType // c2a
  // c2b
= u64 // c4
; // c5a
  // c5b
ArrayPrefixLenType = // c7
u16 ; FixedStringPadChar =
    // c11
' ' ;
    // c13
}
    // c14
packet // c15a
  // c15b
Logon {
    // c17
i32 // c18
msgKind // c19a
  // c19b
, // c20a
  // c20b
repeat
    // c21
InOrderid65 { // c23a
  // c23b
u8 // c24
pad0 ,
    // c26
} // c27a
  // c27b
, // c28a
  // c28b
i8 // c29a
  // c29b
tag7 // c30
,
    // c31
@leftPad // c32
( // c33a
  // c33b
' '
    // c34
) char[ // c36
12 // c37
] // c38
x // c39a
  // c39b
,
    // c40
} // c41
packet
    // c42
Leg // c43
{ // c44
char[] f1 // c46a
  // c46b
, // c47a
  // c47b
repeat char[ // c49
5 // c50a
  // c50b
] Px
    // c52
, // c53
InQty34 // c54
{ // c55
repeat // c56a
  // c56b
char[ // c57
6 // c58
] // c59
Qty // c60
, char[ // c62
7
    // c63
] // c64
seqNo // c65a
  // c65b
,
    // c66
string count // c68a
  // c68b
,
    // c69
}
    // c70
, Logon // c72a
  // c72b
, // c73a
  // c73b
} packet Party
    // c76
{ @leftPad
    // c78
(
    // c79
'0' // c80
) // c81a
  // c81b
char[
    // c82
10
    // c83
] OrderId // c85
,
    // c86
string // c87a
  // c87b
Tail // c88
, // c89a
  // c89b
}
    // c90
packet Fill
    // c92
{ // c93a
  // c93b
zchar[ // c94a
  // c94b
5 ]
    // c96
venue
    // c97
, zchar[ 3 ] clOrdID // c102
, // c103a
  // c103b
InRef95 { // c105
InLastpx25 // c106
{ // c107a
  // c107b
u8 pad0
    // c109
,
    // c110
}
    // c111
, // c112
float64 OrderId
    // c114
, // c115
i32 // c116
f1 // c117a
  // c117b
,
    // c118
float32 x // c120
, // c121
char[] // c122a
  // c122b
seqNo // c123a
  // c123b
, // c124
} // c125
, repeat
    // c127
string // c128
seqNo // c129a
  // c129b
, } // c131
root // c132
packet Heartbeat // c134a
  // c134b
{ repeat // c136
Leg
    // c137
, // c138a
  // c138b
u32 seqNo // c140a
  // c140b
, // c141
u16
    // c142
tag7 // c143
, u32 // c145a
  // c145b
Flags // c146
@lengthOf( Body
    // c148
)
    // c149
,
    // c150
match // c151
tag7 as
    // c153
Body // c154a
  // c154b
{ // c155a
  // c155b
[ 195 , 75 // c159a
  // c159b
] : Party // c162a
  // c162b
,
    // c163
171 : Fill // c166a
  // c166b
,
    // c167
78 : // c169a
  // c169b
Logon
    // c170
,
    // c171
142
    // c172
:
    // c173
Leg // c174
, // c175
} ,
    // c177
u32 Note // c179a
  // c179b
@calculatedFrom( ""CRC32""
    // c181
) // c182
, // c183
} ")).
Eval vm_compute in ("<<<M412>>>" ++ check (runes_of_ascii "  root packet packetx { char[]  pack @lengthOf(
    string_
    // " ++ [128512]%N ++ runes_of_ascii " emoji
    ) `doc`,
    u32  float @lengthOf( a1) // `tick` ""quote"" 'q'
`two words` , match  a1 as
    // " ++ [27880; 37322]%N ++ runes_of_ascii "
    o {7 : _x
    ,
} , repeat msg_type { o uint8x
`crlf
line` , }
,char[] // `tick` ""quote"" 'q'
u8x @lengthOf(msg_type
)
// " ++ [128512]%N ++ runes_of_ascii " emoji
//
,@calculatedFrom( ""CRC32"" )
    i16 repeatCount
@calculatedFrom(""a\""b""  ) , zchar[
10 ]_x
`line1
line2` ,	zchar[
10 ]
    x `u8 x,` ,char[  0123456789
]
    uint8x , @calculatedFrom( ""x y"" ) int32
//	t
// c
i8i8
, }	options// " ++ [27880; 37322]%N ++ runes_of_ascii "
{
matchKey =""it's"" } packet
    msg_type // packet A { u8 x, }
{
// trailing space 
//
match lengthOf as Logon { [ ""x y"" , ""a	b"", ""{,}"" ,  """ ++ [28040; 24687]%N ++ runes_of_ascii """,
    ""{,}"" ,""{,}""
    ]
    // packet A { u8 x, }
    : asx, [ """ ++ [233]%N ++ runes_of_ascii "t" ++ [233]%N ++ runes_of_ascii """
] :
trueish , 255
    : Pad ,
[""`tick`""
, ""{,}"" ,// " ++ [128512]%N ++ runes_of_ascii " emoji
4294967296
, 4294967296, ""a\""b"" , ""\" ++ [233]%N ++ runes_of_ascii """
, 0123456789 ] : u128 ,
    ""it's"" // c
: pack	, ""abc"":o,
    }
    , f32 zchar `it's`,@calculatedFrom( ""a	b"" )zchar[
1
]
    msg_type // trailing space 
@calculatedFrom( ""it's""
) , @calculatedFrom( ""packet"" ) BodyLength{ i16 // trailing space 
_x`{ , }`
    //x
    , i8
    body `crlf
line` ,  }
    // packet A { u8 x, }
    , repeat i64 uint8x
    `say ""hi""`, // c
} packet// a // b
chars{ match x as options1 { 3 : //
tag
10
    //x
    :
// a // b
// a // b
repeatCount[
    65535 ] :
len ,255 : tag  00 :
    BodyLength }, @calculatedFrom( ""{,}"" ) MetaDataX,
@tag(
0
// trailing space 
//	t
)repeat
stringy	len , //	t
@calculatedFrom( ""a	b"" )/// triple
zchar[ 0123456789] lengthOf @lengthOf(
A
    )
    `u8 x,` , @lengthOf(falsey
    ) T
    `// not a comment`
,i8i8,Logon  { match
crc as BodyLength { ""1"" : // trailing space 
trueish ,
    // " ++ [27880; 37322]%N ++ runes_of_ascii "
    ""a\""b""
    :
matchKey , [ ""x y""] : tag
    ,
// trailing space 
// " ++ [128512]%N ++ runes_of_ascii " emoji
}
, float @calculatedFrom(
    """ ++ [233]%N ++ runes_of_ascii "t" ++ [233]%N ++ runes_of_ascii """ ) `line1
line2` , msg_type@lengthOf(  i8i8)
, calculatedFrom uint8x`tab	here`,
// a // b
//	t
}
    ,
    }")).
Eval vm_compute in ("<<<M320>>>" ++ check (runes_of_ascii "options { lengthOf =
""CRC32"" ; stringy = uint16;  u8x =float32 ; x_y_z
    // c
    =  zchar[ 007]
repeatCount  = ""a\""b"" ;
// c
//	t
}
MetaData trueish { As roots `" ++ [28040; 24687; 31867; 22411]%N ++ runes_of_ascii "`
, char[ 00 ] Packet// c
, } root
packet roots
{ int8 Logon, body@lengthOf( lengthOf
) `
` , @rightPad (	'0' )
    Packet@calculatedFrom(""x y""
)`a\` ,
@lengthOf( T ) match matchKey as _x// trailing space 
{ """ ++ [128512]%N ++ runes_of_ascii """	:
stringy ,
4294967296:  x_y_z ,""\n""
: leftPad[
42 , 42
    , ""it's"" , ""\n"" ,""// no comment""	] : asx ,} , char[
    10// trailing space 
]BodyLength ,
@leftPad (	'0'
) char[]
    /// triple
    Z9_ `crlf
line`, string falsey
    , int16 // c
asx  @calculatedFrom( ""x y"" ) ,u128 Z9_ `it's` ,
    @rightPad
// " ++ [128512]%N ++ runes_of_ascii " emoji
// @lengthOf(
( '0'
)Packet {
    // " ++ [128512]%N ++ runes_of_ascii " emoji
    int64
    float ,
repeat leftPad{
repeat
Z9_ {
    match T
as lengthOf{ ""`tick`"" :msg_type""1"" : x_y_z , 0 : chars , } ,
    } , repeat trueish
    { zchar[
255 ]
crc	`doc` , char Logon @lengthOf( _x
    // " ++ [128512]%N ++ runes_of_ascii " emoji
    )
,
    //
    a1 `doc`,
//x
//	t
} , match msg_type as zchar { ""it's"" // c
:
/// triple
// packet A { u8 x, }
body
, """ ++ [28040; 24687]%N ++ runes_of_ascii """ : // `tick` ""quote"" 'q'
u,} ,} , } ,
}
packet// `tick` ""quote"" 'q'
As// " ++ [27880; 37322]%N ++ runes_of_ascii "
{
@leftPad (
    // c
    '\x00' ) @tag( 255
    )
    @lengthOf( // `tick` ""quote"" 'q'
o
)zchar[ 42 ] string_ @calculatedFrom(
""a\""b""	)`" ++ [28040; 24687; 31867; 22411]%N ++ runes_of_ascii "`
, char[] repeatCount//	t
@lengthOf(
calculatedFrom) ,metadata @calculatedFrom(
    ""abc""
) `two words`
    ,
// `tick` ""quote"" 'q'
// c
@lengthOf(matchKey ) match
packetx as falsey { 007
: A,""1"" : packetx , //
7 :charz
, [ 65535 ]:stringy 65535
    :a1 [  ""a	b""
, 1] :
    Logon
// a // b
// " ++ [128512]%N ++ runes_of_ascii " emoji
}, }")).
Eval vm_compute in ("<<<M499>>>" ++ check (runes_of_ascii "  packet trueish { match
    options1 as
    Packet{[
    ""a\\"" , 3	, ""\" ++ [233]%N ++ runes_of_ascii """ //
,0123456789 ]  : Packet
    ,""// no comment""
    : BodyLength,
[
    10 ]: //	t
stringy , """ ++ [28040; 24687]%N ++ runes_of_ascii """ :  metadata [  ""`tick`""
    ,
7 , ""// no comment"" ] :int ,65535 :
//x
// packet A { u8 x, }
packetx ,
    } ,}
    packet
    f32a
{  @calculatedFrom( //	t
""{,}"" )
char[] len `doc`
    , @leftPad
    ( '\x00'
    ) repeat char[] Z9_ `tab	here` ,
match MetaDataX
// c
// packet A { u8 x, }
as crc {
    ""a	b""
    :	Pad , 10
:
matchKey  [
1 ,""{,}"" ,3 ] :
    uint8x , ""x y"" :
    Header , 7 // trailing space 
: repeatCount ,[ ""a\\"" , ""a\""b""
    // " ++ [128512]%N ++ runes_of_ascii " emoji
    , 10] : a1 ,
} ,
@calculatedFrom(""a\\"" )
    //x
    @leftPad
// a // b
// trailing space 
( ) @leftPad
    ( '\x00'	)calculatedFrom
`tab	here` , @rightPad (// c
'\x00' )
    float32
body ,  } packet
    Pad {Packet
    @calculatedFrom(
    ""a	b""
// trailing space 
// a // b
), @tag(
4294967296
    ) @rightPad// " ++ [128512]%N ++ runes_of_ascii " emoji
( ) @calculatedFrom(
    // a // b
    ""1""	) repeat tag
    matchKey `" ++ [28040; 24687; 31867; 22411]%N ++ runes_of_ascii "` ,  @tag(
    4294967296)
@lengthOf(string_
    ) falsey
//
// " ++ [27880; 37322]%N ++ runes_of_ascii "
i64_
    , @tag( 0123456789 ) As
u `two words` , @leftPad ( '0' ) options1{ uint8 zchar // c
, }
    , @leftPad	( ) repeat uint32
    // a // b
    asx ,	metadata { // c
char[ 0 ] len @lengthOf(T ) , }	, zchar[ 3 ]uint8x @lengthOf( trueish // `tick` ""quote"" 'q'
) `" ++ [233]%N ++ runes_of_ascii "` , @calculatedFrom(  ""CRC32""
)
    roots@lengthOf( x
    ), }")).
Eval vm_compute in ("<<<M1390>>>" ++ check (runes_of_ascii "options {
	StringPrefixLenType = u16;
	ArrayPrefixLenType = u16;
}

packet SampleBinary {
    uint16 MsgType `" ++ [28040; 24687; 31867; 22411]%N ++ runes_of_ascii "`,
    u16 BodyLenght @lengthOf(Body) `" ++ [28040; 24687; 20307; 38271; 24230]%N ++ runes_of_ascii "`,
    match MsgType as Body {
        1 : Logon,
        2 : Logout,
        3 : Heartbeat,
        4 : RiskControlRequest,
        5 : RiskControlResponse,
    },
        @calculatedFrom(""CRC32"")
    u32 Ckecksum `" ++ [26657; 39564; 21644]%N ++ runes_of_ascii "`,
}

packet Logon {
     @leftPad('0')
    char[10] UserName `" ++ [29992; 25143; 21517]%N ++ runes_of_ascii "`,
    string Password `" ++ [23494; 30721]%N ++ runes_of_ascii "`,
    uint64 ClientId `" ++ [23458; 25143; 31471]%N ++ runes_of_ascii "ID`,
    u16 HeartbeatInterval `" ++ [24515; 36339; 38388; 38548]%N ++ runes_of_ascii "`,
}

packet Logout {
      @rightPad('0')
    char[10] UserName `" ++ [29992; 25143; 21517]%N ++ runes_of_ascii "`,
    uint64 ClientId `" ++ [23458; 25143; 31471]%N ++ runes_of_ascii "ID`,
}

packet Heartbeat {
}

packet RiskControlRequest {
    string UniqueOrderId `" ++ [21807; 19968; 35746; 21333; 21495]%N ++ runes_of_ascii "`,
    char[16] ClOrdID `" ++ [23458; 25143; 35746; 21333; 21495]%N ++ runes_of_ascii "`,
    char[3] MarketID `" ++ [24066; 22330]%N ++ runes_of_ascii "id`,
    char[12] SecurityID `" ++ [35777; 21048; 20195; 30721]%N ++ runes_of_ascii "`,
    char Side `" ++ [20080; 21334; 26041; 21521]%N ++ runes_of_ascii "`,
    char OrderType `" ++ [35746; 21333; 31867; 22411]%N ++ runes_of_ascii "`,
    u64 Price `" ++ [20215; 26684]%N ++ runes_of_ascii "`,
    u32 Qty `" ++ [25968; 37327]%N ++ runes_of_ascii "`,
    repeat string ExtraInfo `" ++ [38468; 21152; 20449; 24687]%N ++ runes_of_ascii "`,
    repeat SubOrder {
    		char[16] ClOrdID `" ++ [23376; 35746; 21333; 21495]%N ++ runes_of_ascii "`,
    		u64 Price `" ++ [23376; 35746; 21333; 20215; 26684]%N ++ runes_of_ascii "`,
    		u32 Qty `" ++ [23376; 35746; 21333; 25968; 37327]%N ++ runes_of_ascii "`,
    	},
}

packet RiskControlResponse {
    string UniqueOrderId `" ++ [21807; 19968; 35746; 21333; 21495]%N ++ runes_of_ascii "`,
    i32 Status `" ++ [29366; 24577]%N ++ runes_of_ascii "`,
    string Msg `" ++ [32467; 26524; 20449; 24687]%N ++ runes_of_ascii "`,
    repeat Detail,
}

packet Detail {
    string RuleName `" ++ [35268; 21017; 21517; 31216]%N ++ runes_of_ascii "`,
    u16 Code `" ++ [21407; 22240; 20195; 30721]%N ++ runes_of_ascii "`,
}")).
Eval vm_compute in ("<<<M905>>>" ++ check (runes_of_ascii "  options	{
    i64_ =
    007; asx= ' '
;/// triple
}MetaData	tag { float32 uint8x , } packet  len { @tag( 7
) repeat uint8x {
    match zchar as	As { [ 00
,""" ++ [28040; 24687]%N ++ runes_of_ascii """
, 00 ,
    0123456789 , 0 , 3 ,
""\n""] :
    // " ++ [128512]%N ++ runes_of_ascii " emoji
    uint8x ,
},} , u8x @lengthOf(
    falsey ),
    @calculatedFrom( // a // b
""x y""
) // `tick` ""quote"" 'q'
int16 A `{ , }`
    ,	lengthOf { o
//x
// " ++ [128512]%N ++ runes_of_ascii " emoji
@lengthOf( repeatCount
    ) ,
uint16 // packet A { u8 x, }
i8i8 @calculatedFrom( """ ++ [28040; 24687]%N ++ runes_of_ascii """ ) ,
    char[ 42  ]
repeatCount , }
    ,@calculatedFrom(""{,}""
)//
repeat
    BodyLength
    ,
char[]
    lengthOf/// triple
@calculatedFrom(""{,}""	)
// `tick` ""quote"" 'q'
// packet A { u8 x, }
`
`	, @tag(  00 )
    repeat	u128
`a\` , } options {
}packet lengthOf { match MetaDataX as pack
{[
    ""\" ++ [233]%N ++ runes_of_ascii """ ] :	Packet // `tick` ""quote"" 'q'
, 42 :
lengthOf , ""// no comment"" : i64_ // @lengthOf(
,
    [ """ ++ [128512]%N ++ runes_of_ascii """
    ,
255
    , ""abc""
    , ""{,}"", ""{,}"" ,
    1 ]
    :Pad [ 3 // c
, 3 , 255
] : BodyLength	, }
//	t
// a // b
, repeatCount	asx ,falsey ,zchar[ 0123456789 ]a1 @calculatedFrom( // " ++ [128512]%N ++ runes_of_ascii " emoji
""it's""
    ) `// not a comment`
, @leftPad
    // " ++ [27880; 37322]%N ++ runes_of_ascii "
    ( '\x00' )f32a ,rootA@lengthOf( Pad ) ,
    match As as int { 0: calculatedFrom ,}
    ,
    }

")).
Eval vm_compute in ("<<<M557>>>" ++ check (runes_of_ascii "packet falsey
{ repeat
    zchar[ 0  ]
    x_y_z `it's`, repeat char[] MetaDataX
`u8 x,` ,
@rightPad
// trailing space 
// trailing space 
( )
    match i8i8 as
    charz{ [ 4294967296, 00 ]: crc
, } ,repeat
    string u8x `` ,
Pad , @lengthOf(// c
u128 )  @tag( 65535 )
//	t
// " ++ [128512]%N ++ runes_of_ascii " emoji
tag body
    // c
    , } packet As  {
    @calculatedFrom( ""// no comment""
) repeat uint64
msg_type
    //	t
    `two words`
, @tag(007 )
    @calculatedFrom(
""`tick`""//x
)@rightPad (	'\x00' //
) int32	repeatCount, repeat	repeatCount	Pad
, x
    MetaDataX
    `a\`	,char[	1 ] uint8x `u8 x,` , @calculatedFrom(
    """" ) @calculatedFrom( ""// no comment"" )@tag(3) repeat i64// trailing space 
trueish
/// triple
// `tick` ""quote"" 'q'
, @lengthOf( MetaDataX
    )
Z9_, }  MetaData Logon
    /// triple
    {  i8i8 matchKey , u64
i8i8
, // trailing space 
options1 zchar
    // " ++ [128512]%N ++ runes_of_ascii " emoji
    `" ++ [28040; 24687; 31867; 22411]%N ++ runes_of_ascii "` ,}
//
/// triple
root	packet matchKey
    /// triple
    { T matchKey //	t
, repeat	uint64
    // packet A { u8 x, }
    crc
`" ++ [28040; 24687; 31867; 22411]%N ++ runes_of_ascii "`	, repeat
    zchar[ 0123456789 ]	i8i8 ,string len//	t
, } MetaData x_y_z
/// triple
// a // b
{
    i8i8 i64_
, }

")).
Eval vm_compute in ("<<<M4402>>>" ++ check (runes_of_ascii "
packet

    Header
{  trueish
	@calculatedFrom( 
""a	b""
) ,	Header @calculatedFrom(	""a\\"" //
    	),	//	t
  @calculatedFrom(""a\\"" 
) /// triple
	i16	body	@lengthOf(
f32a
    ), 	 // packet A { u8 x, }
		match // packet A { u8 x, }
stringy
as	_x {  ""`tick`"" 
	// trailing space 
  	//
  :  string_
,
42

    :

u8x

    , 
""\n"": repeatCount ,""a\\"" :  options1	,[
    4294967296
	,""{,}""
        /// triple
  //x
  ,

4294967296	,

    """ ++ [28040; 24687]%N ++ runes_of_ascii """
, 
3  //	t
    , ""abc""	] :

//	t
  u8x 
, }  ,
    zchar[0123456789 ]
	MetaDataX 
,
@calculatedFrom(""x y"" 	 //	t
  	)
	@lengthOf(A)
    zchar[ //x
00 ] 
a1 ,  match  
  // " ++ [128512]%N ++ runes_of_ascii " emoji
	// `tick` ""quote"" 'q'

options1
as
    calculatedFrom // packet A { u8 x, }
		{  [""// no comment""
// " ++ [27880; 37322]%N ++ runes_of_ascii "
    ,
""abc""	,  65535	,""CRC32"" ,	0	,	""CRC32""
    ] :
uint8x
	,	""// no comment"" : 
        // " ++ [128512]%N ++ runes_of_ascii " emoji
		// trailing space 
		chars

    ,  [  """ ++ [233]%N ++ runes_of_ascii "t" ++ [233]%N ++ runes_of_ascii """
	,

    ""a	b""
]
    : pack 
,10
    :

tag
	, },
@tag(	42

)
    repeat
	    // trailing space 
  len , @lengthOf( u 
)  char[]	f32a 
,	// packet A { u8 x, }
	}
")).
Eval vm_compute in ("<<<M3792>>>" ++ check (runes_of_ascii "MetaData Packet {
    stringy body,
    x_y_z matchKey,
    zchar[007] MetaDataX,
    u16 u128 `u8 x,`,
    stringy i64_,
    char[] Z9_ `two words`,
}

MetaData body {
    float32 Header,
}

options {
    trueish = false;
    x_y_z = 7
    Packet = false
    i8i8 = zchar[255]
    tag = char[];
}

packet crc {
    repeat char[0] x,
    repeat float64 packetx,
    match As as len {
        [255] : Z9_,
        // " ++ [27880; 37322]%N ++ runes_of_ascii "
        ""{,}"" : MetaDataX,
        [00, 255, ""a	b""] : Pad,
        3 : body,
    },
    u128 @calculatedFrom(""CRC32""),// `tick` ""quote"" 'q'
    @tag(10)
    metadata {
        repeat trueish x `line1
                line2`,
        u @calculatedFrom(""it's""),
        match trueish as _x {
            42 : o,
            [""CRC32""] : rootA,
        },
    },
    tag {
        Z9_ {
            zchar[3] stringy `tab	here`,
        },
    },
    matchKey u8x,
    repeat int64 metadata `{ , }`,
    @leftPad('\x00')
    T int,
    @calculatedFrom(""abc"")
    zchar[4294967296] charz,// " ++ [128512]%N ++ runes_of_ascii " emoji
}")).
Eval vm_compute in ("<<<M4508>>>" ++ check (runes_of_ascii "packet i64_ {
    @lengthOf(charz)
    zchar[00] charz `
        `,
    @rightPad('0')
    @calculatedFrom(""`tick`"")
    i16 charz,
    repeat Pad {
        uint8x MetaDataX,
        int {
            repeat uint64 u8x,// packet A { u8 x, }
            repeat uint8x {
                // a // b
                repeat Z9_ x_y_z,
                match x_y_z as _x {
                    007 : crc,
                    [00, 0, 1, 007, 4294967296] : u128,
                },
                char[42] float,
            },
        },
        char[] x,
        repeat zchar {
            match Logon as rootA {
                0 : chars,
                [42] : repeatCount,
                """ ++ [233]%N ++ runes_of_ascii "t" ++ [233]%N ++ runes_of_ascii """ : BodyLength,
                ""x y"" : Z9_,
                [
                    4294967296, 42, 3, 255, 00,
                    10, 42, ""x y""
                ] : falsey,
            },
        },
    },
}// a // b

packet options1 {
    // c
    len @lengthOf(T),
}")).
Eval vm_compute in ("<<<M544>>>" ++ check (runes_of_ascii "packet MetaDataX { @tag( 65535 )
    match a1
    as
float
{
007 : Header } ,
repeat char[65535
    // " ++ [128512]%N ++ runes_of_ascii " emoji
    ]pack , @lengthOf(Logon ) zchar[ 65535]metadata , char calculatedFrom , match roots as stringy
{	""packet""
: BodyLength// " ++ [128512]%N ++ runes_of_ascii " emoji
,
    [	""// no comment"" ] :tag , 0123456789 // " ++ [27880; 37322]%N ++ runes_of_ascii "
:
a1,	0 : roots ,  [
""abc""	] :Header ,
} ,
repeat MetaDataX
{ match Foo as lengthOf
{
    // a // b
    ""CRC32""  :// " ++ [128512]%N ++ runes_of_ascii " emoji
trueish }
,
match // @lengthOf(
roots as metadata {	0 : body, } , u64	A ,
    char[
7]
    Z9_,
    //x
    }
    , Foo
    { zchar[  10
]roots @lengthOf( u8x// packet A { u8 x, }
) `tab	here` // c
,// trailing space 
string_ crc ,u8x@lengthOf(	u128  )
, }  ,
@lengthOf(
i8i8
    )
    // trailing space 
    @calculatedFrom( ""abc""	) char[] // packet A { u8 x, }
crc , @leftPad
( ' ') @lengthOf(
    // a // b
    trueish // c
) @lengthOf(  msg_type ) i8i8 asx	,
    }")).
Eval vm_compute in ("<<<M653>>>" ++ check (runes_of_ascii "
packet
    f32a { // c
string len  @lengthOf( As ) // " ++ [128512]%N ++ runes_of_ascii " emoji
`line1
line2` , zchar[ 1//x
] zchar `{ , }` , tag
    //
    @lengthOf( rootA) , // c
string x_y_z `" ++ [28040; 24687; 31867; 22411]%N ++ runes_of_ascii "`, }packet crc {
BodyLength
@lengthOf(
msg_type
    ) , } MetaData packetx  {	} root packet lengthOf {repeat uint32	zchar , // " ++ [27880; 37322]%N ++ runes_of_ascii "
T {
msg_type // a // b
{ f32a  { charz
    stringy ``
    , uint16
u128
, i16
    BodyLength
    @lengthOf(
    x ) ,int8 //
metadata `tab	here`, }
// c
// trailing space 
,
repeat Packet
`doc` , // packet A { u8 x, }
int8 A @calculatedFrom(
""CRC32"" )
    ,
    }, Pad asx ,
char[
0 ]
    repeatCount ,
} ,
    u16
Z9_ `" ++ [233]%N ++ runes_of_ascii "` , @rightPad
(
    // @lengthOf(
    '\x00' )
    repeat Header
//	t
// " ++ [27880; 37322]%N ++ runes_of_ascii "
`line1
line2` ,@calculatedFrom(
    ""\" ++ [233]%N ++ runes_of_ascii """ )
char[]rootA @calculatedFrom( ""// no comment"" )`doc`
, // a // b
calculatedFrom `a\`,
} packet As	{  }")).
Eval vm_compute in ("<<<M746>>>" ++ check (runes_of_ascii "packet o
    {
    /// triple
    }
packet Pad // a // b
{ repeat  f32
metadata	`two words`,repeat
    charz	{  i32 i64_@calculatedFrom(""\" ++ [233]%N ++ runes_of_ascii """ ) `u8 x,` ,
repeat uint8x
tag , uint16// " ++ [128512]%N ++ runes_of_ascii " emoji
Packet	@calculatedFrom( ""a	b"" ) `u8 x,` ,
    } ,
}  packet
metadata {@leftPad	( )
repeat  f32 i64_  ,
    // `tick` ""quote"" 'q'
    f32a @calculatedFrom( ""x y""
) , repeat zchar[007 ]  body // a // b
,@rightPad ( '\x00' )	string MetaDataX  @lengthOf( options1)
,  @tag( 3 )
    match  _x as
    lengthOf {  ""`tick`"": //	t
body}
/// triple
// c
,@calculatedFrom(""`tick`""
)i64 options1@calculatedFrom( ""abc"") `" ++ [28040; 24687; 31867; 22411]%N ++ runes_of_ascii "` , i8 As // a // b
, rootA
@lengthOf( lengthOf) //x
,
// " ++ [27880; 37322]%N ++ runes_of_ascii "
// " ++ [27880; 37322]%N ++ runes_of_ascii "
}  MetaData body { int16 // " ++ [128512]%N ++ runes_of_ascii " emoji
len `line1
line2`
,  uint16 stringy , uint64 falsey
`{ , }`, len len ,
} // " ++ [128512]%N ++ runes_of_ascii " emoji")).
Eval vm_compute in ("<<<M4213>>>" ++ check (runes_of_ascii "/// triple
packet matchKey {
    // `tick` ""quote"" 'q'
    repeatCount `line1
        line2`,
    @calculatedFrom(""1"")
    u128 @calculatedFrom(""\" ++ [233]%N ++ runes_of_ascii """),// @lengthOf(
    @calculatedFrom(""abc"")
    repeat int uint8x,
    Packet @lengthOf(trueish),
    @tag(3)
    rootA @lengthOf(asx) `it's`,
    repeat tag body,
    @lengthOf(_x)
    @calculatedFrom(""1"")
    @leftPad('0')
    i8 i64_ @calculatedFrom(""a\""b""),
}

packet x_y_z {
    @tag(7)
    match Z9_ as i64_ {
        """" : roots,
        ""`tick`"" : T,
        007 : zchar,
        [
            4294967296, 7, 4294967296, 4294967296, 10,
            255, ""\" ++ [233]%N ++ runes_of_ascii """
        ] : pack,
        1 : asx,
        ""CRC32"" : x_y_z,
    },// a // b
}

options {
}

root packet packetx {
    i8i8 @lengthOf(u128),
}")).
Eval vm_compute in ("<<<M1289>>>" ++ check (runes_of_ascii "packet string_
    {A { // trailing space 
zchar[1 ] // a // b
len	,match leftPad	as metadata {
    // " ++ [27880; 37322]%N ++ runes_of_ascii "
    [
    4294967296 ,
    4294967296 , 00 , 1, ""{,}"" ,
    007 /// triple
, 7 ]
: chars
    /// triple
    , 0
: i64_
    ,}, }
    //	t
    ,	uint8 charz`" ++ [233]%N ++ runes_of_ascii "`
    // trailing space 
    ,
charz msg_type , @rightPad	(
    ' '
    )
    @calculatedFrom( ""it's"" ) repeat a1
`it's`
, //x
repeat Logon
{ int o , metadata , zchar[
    0] msg_type@calculatedFrom( """" ) , pack
,} ,	@calculatedFrom(""it's"" )  char[
    00 ] int `u8 x,`
, i32
charz
`{ , }`,
repeat f64 As `" ++ [28040; 24687; 31867; 22411]%N ++ runes_of_ascii "`
/// triple
// @lengthOf(
,} MetaData //
metadata
{ string
    falsey , }
    packet o	{	float64 roots @lengthOf( body ) ,
    //
    }")).
Eval vm_compute in ("<<<M663>>>" ++ check (runes_of_ascii "
root packet
options1 {float@calculatedFrom(
""a	b"" ) , @leftPad
    // `tick` ""quote"" 'q'
    ( ) match
// @lengthOf(
// `tick` ""quote"" 'q'
lengthOf as  f32a{  ""1""	: f32a , ""{,}"" : falsey , // a // b
} ,
// a // b
// packet A { u8 x, }
} packet
T{ @tag( 7) @lengthOf(
f32a
) @rightPad
(
) char[] msg_type @calculatedFrom( ""\" ++ [233]%N ++ runes_of_ascii """) `" ++ [28040; 24687; 31867; 22411]%N ++ runes_of_ascii "`,	options1 u128
    //x
    `// not a comment` ,
    // packet A { u8 x, }
    @rightPad (  ' '	) char[
    1 ] metadata
    // `tick` ""quote"" 'q'
    @calculatedFrom(""" ++ [128512]%N ++ runes_of_ascii """ )`doc`
    , } packet u8x{ roots
@lengthOf(
f32a
) , @calculatedFrom( ""a\""b"") @tag( 00 )
@leftPad ( '\x00'
) MetaDataX { int @calculatedFrom( ""`tick`""
) `
` ,}// " ++ [27880; 37322]%N ++ runes_of_ascii "
, }
")).
Eval vm_compute in ("<<<M1042>>>" ++ check (runes_of_ascii "packet Foo { @leftPad
( '\x00'  )
    chars {repeat char[]
tag	`// not a comment` ,repeat u8  T
,repeat Foo
BodyLength`it's`,
zchar
    { u repeatCount  `" ++ [233]%N ++ runes_of_ascii "` , Header //	t
, repeat i64 u128 , repeat  charz{ char[] //x
leftPad,
    zchar[ // a // b
42 ] // a // b
lengthOf
`{ , }`
    , } ,} , }
    , @calculatedFrom( ""it's"" )
Pad
{i16 f32a ,
repeat char[ 10] x `{ , }` ,
    match metadata
as
o {	""" ++ [128512]%N ++ runes_of_ascii """ : metadata , 1
: rootA , } , } ,
packetx `{ , }`, } packet
falsey { }options {MetaDataX // " ++ [128512]%N ++ runes_of_ascii " emoji
= zchar[ 10
    //x
    ] ;  string_
    = '0'	;
i8i8=
// `tick` ""quote"" 'q'
//x
true _x  = char[ //	t
0123456789  ]
    }
// a // b
")).
Eval vm_compute in ("<<<M906>>>" ++ check (runes_of_ascii "packet // trailing space 
A
{ @tag( 0
)
    string
i8i8`a\`
    // packet A { u8 x, }
    , float64
    x @lengthOf( Header // " ++ [128512]%N ++ runes_of_ascii " emoji
) `tab	here` // @lengthOf(
,zchar[
    3 ]	lengthOf ,
// packet A { u8 x, }
// " ++ [27880; 37322]%N ++ runes_of_ascii "
o msg_type `{ , }` ,
    //x
    Logon // c
@lengthOf( i64_)
,@leftPad (
' ' ) repeat As
// packet A { u8 x, }
// @lengthOf(
,  match
    len as leftPad
    {""x y"" :
    repeatCount , """ ++ [28040; 24687]%N ++ runes_of_ascii """ :
packetx , ""x y"" : u8x ,
4294967296:
Header ""a	b"": roots,
} , @calculatedFrom(
// " ++ [128512]%N ++ runes_of_ascii " emoji
/// triple
""{,}"" )
    // trailing space 
    uint32// packet A { u8 x, }
i64_ `line1
line2`, } // " ++ [128512]%N ++ runes_of_ascii " emoji")).
Eval vm_compute in ("<<<M1113>>>" ++ check (runes_of_ascii "packet  metadata { f64 float
    //
    `crlf
line` , i32 asx @calculatedFrom(
""`tick`"" ) ,
/// triple
// c
A ,}
root packet zchar  {
// trailing space 
// packet A { u8 x, }
match matchKey
    as
    roots//x
{
""a\""b"" :	zchar ,""`tick`""
:
    int
    ,""\n"" : packetx ,
0// " ++ [27880; 37322]%N ++ runes_of_ascii "
: Z9_ , }, int32 a1
, @tag(42 ) // " ++ [128512]%N ++ runes_of_ascii " emoji
@rightPad ('0') @tag( 65535 )char[ 00 ] calculatedFrom
,packetx@lengthOf( options1 )
    , }
root
packet body{ match
    f32a as msg_type {[ 42 ]: matchKey // a // b
, 3 :
rootA
    // @lengthOf(
    , [
    // c
    00]
    : packetx 10 : falsey	, }	,}options {
}
")).
Eval vm_compute in ("<<<M3934>>>" ++ check (runes_of_ascii "options {
    u8x = ""it's""
    x_y_z = 42
    o = true;
    MetaDataX = '0';
}

MetaData calculatedFrom {
    i64 trueish,
    u16 stringy `two words`,
    u8x repeatCount,
    int8 matchKey,
}

packet MetaDataX {
    @calculatedFrom(""\" ++ [233]%N ++ runes_of_ascii """)
    uint8x @lengthOf(uint8x),
    //	t
    repeat zchar[007] Foo `" ++ [233]%N ++ runes_of_ascii "`,
    @lengthOf(metadata)
    @tag(1)
    match metadata as BodyLength {
        00 : tag,
        ""a	b"" : Packet,
        [""abc""] : pack,
    },
}

root packet packetx {
    @leftPad('\x00')
    f32a @lengthOf(options1),
}

packet MetaDataX {
}")).
Eval vm_compute in ("<<<M178>>>" ++ check (runes_of_ascii "
packet
// packet A { u8 x, }
// " ++ [27880; 37322]%N ++ runes_of_ascii "
matchKey {} packet
    string_ { matchKey @lengthOf(
asx)
    ,@rightPad ( ' '
) metadata
,
// a // b
// @lengthOf(
o //
chars ,  uint16 tag `u8 x,` ,
repeat  float32 Logon  `two words` , /// triple
matchKey	@calculatedFrom( ""a	b""
)`doc`
    ,
repeat packetx
a1 ,} MetaData Packet //
{
char[]
    pack, string  zchar ,zchar[
//	t
// trailing space 
1 ] x_y_z, int64
    charz
`say ""hi""`, u32
lengthOf
    `doc`
,}
options
    { a1
= int16 ; crc =' ';tag = char[ 42]
leftPad
    = true ; }")).
Eval vm_compute in ("<<<M1181>>>" ++ check (runes_of_ascii "  packet  uint8x // a // b
{
    //x
    } MetaData A
    /// triple
    {float32 options1 , roots
    uint8x
    , trueish asx , string options1 `" ++ [28040; 24687; 31867; 22411]%N ++ runes_of_ascii "`
    , i32 int
,
    u// " ++ [128512]%N ++ runes_of_ascii " emoji
As `doc` ,
} packet Header {
    char[]
A
, // a // b
repeat metadata{match
    /// triple
    leftPad as Foo { ""a\""b"" : msg_type
    // `tick` ""quote"" 'q'
    }
    , } , char[] trueish  ,
matchKey  {
char[ 4294967296//	t
] roots	@calculatedFrom( ""x y"" ) , }, i8// " ++ [128512]%N ++ runes_of_ascii " emoji
MetaDataX@calculatedFrom(  ""packet""
), }
")).
Eval vm_compute in ("<<<M489>>>" ++ check (runes_of_ascii "//
packet
o {
repeat
chars//	t
{ falsey leftPad `two words` , zchar[ 4294967296 ] packetx
    @lengthOf( i64_ ) `
` ,
repeat msg_type
    { zchar[ 007
]	matchKey , i16 falsey@calculatedFrom( ""packet"" ) `crlf
line` , }  ,
} , @tag( 00 ) zchar[
    007
    ]
    uint8x `u8 x,` //x
, char metadata , //x
match rootA
// a // b
// `tick` ""quote"" 'q'
as
zchar
{	10 :
    float ,42:
a1 ,
    } , int  @lengthOf(Packet
) , charz{i8i8 /// triple
rootA//
`doc` , }	,  } options { }
")).
Eval vm_compute in ("<<<M4338>>>" ++ check (runes_of_ascii "options {
}

options {
}

options {
}

packet options1 {
    /// triple
    // @lengthOf(
    repeat stringy repeatCount,
    int64 rootA,
    @lengthOf(T)
    // trailing space 
    // @lengthOf(
    chars Foo `line1
        line2`,
    i64_,
    repeat tag roots,
    @calculatedFrom(""CRC32"")
    @calculatedFrom(""" ++ [233]%N ++ runes_of_ascii "t" ++ [233]%N ++ runes_of_ascii """)
    a1 @calculatedFrom(""1"") `two words`,
}

options {
    Logon = false
    uint8x = ""x y""
    Header = ""a	b"";
    calculatedFrom = true
}")).
Eval vm_compute in ("<<<M736>>>" ++ check (runes_of_ascii "packet metadata { match trueish
as body
    { 0123456789
    :A, 1
    :
    rootA [//
""packet"" ,65535 , 65535 , ""a	b""
    ,42 , ""x y"" , 1// @lengthOf(
, 0 ]	:
// packet A { u8 x, }
// " ++ [128512]%N ++ runes_of_ascii " emoji
u128 ,//	t
10 :
As ,
    0123456789 :stringy ,
""x y""	: BodyLength, } ,
i64_ options1`a\` , } packet
trueish {
    /// triple
    }packet BodyLength	{ i32 charz ,
@calculatedFrom(// @lengthOf(
""" ++ [28040; 24687]%N ++ runes_of_ascii """ )	repeat float32 asx `doc` , } // trailing space ")).
Eval vm_compute in ("<<<M1233>>>" ++ check (runes_of_ascii "// " ++ [128512]%N ++ runes_of_ascii " emoji
packet u8x {	char[] Z9_ , @leftPad
    (
'0'
)
    //x
    u64 int@lengthOf(
//x
//	t
A ) `crlf
line`	,	repeat
u8x
`" ++ [28040; 24687; 31867; 22411]%N ++ runes_of_ascii "`, int64 leftPad @lengthOf(
T), i8i8 i64_  , // " ++ [128512]%N ++ runes_of_ascii " emoji
repeat msg_type ,@rightPad
    // a // b
    (	'\x00'  ) @lengthOf( zchar )
matchKey ,
    // packet A { u8 x, }
    } MetaData u { } MetaData x_y_z {int16
rootA,char[]
o `it's`
// packet A { u8 x, }
// @lengthOf(
, }
options {}
")).
Eval vm_compute in ("<<<M4058>>>" ++ check (runes_of_ascii "  //	t
	packet Header
	{

@tag(0
    )

    float64 
    //
u128,
@tag( 65535  )  pack
`line1
line2` ,
@tag(  1
    // @lengthOf(
) trueish {
	    // " ++ [128512]%N ++ runes_of_ascii " emoji
// c
    repeat
u
`it's`	,

}, @lengthOf(
	repeatCount

)
@calculatedFrom(""it's""	)
@lengthOf(a1)string_ @lengthOf(string_)
    ,
    }
    MetaData
    leftPad
    { u8	pack
	,  // `tick` ""quote"" 'q'
	}
    packet msg_type  {Z9_
    ,
} ")).
Eval vm_compute in ("<<<M4395>>>" ++ check (runes_of_ascii "packet tag {
    match asx as u128 {
        ""1"" : T,
        0123456789 : rootA,
        7 : i8i8,
        65535 : chars,
    },
    zchar[7] options1,
    zchar[255] asx,
    @leftPad('0')
    stringy `" ++ [28040; 24687; 31867; 22411]%N ++ runes_of_ascii "`,
    u64 zchar @calculatedFrom(""\n""),
    len @calculatedFrom(""// no comment"") `" ++ [28040; 24687; 31867; 22411]%N ++ runes_of_ascii "`,
    @leftPad('0')
    tag @lengthOf(calculatedFrom),
    repeat uint64 metadata `a\`,
}")).
Eval vm_compute in ("<<<M230>>>" ++ check (runes_of_ascii "packet x { lengthOf rootA , @rightPad
( '0' )
i8 asx @lengthOf( calculatedFrom // a // b
),
@lengthOf( Pad ) repeat //x
int16 trueish // c
``// " ++ [27880; 37322]%N ++ runes_of_ascii "
, @calculatedFrom(
""" ++ [128512]%N ++ runes_of_ascii """) @tag(0
)
@lengthOf( // a // b
matchKey ) string MetaDataX`doc`
,
i16 // `tick` ""quote"" 'q'
options1 @lengthOf(
    // " ++ [27880; 37322]%N ++ runes_of_ascii "
    u8x
    // " ++ [128512]%N ++ runes_of_ascii " emoji
    ) `a\` ,
    u128
u128`line1
line2`,}")).
Eval vm_compute in ("<<<M825>>>" ++ check (runes_of_ascii "// `tick` ""quote"" 'q'
MetaData	BodyLength {
char[ 00
//x
// " ++ [27880; 37322]%N ++ runes_of_ascii "
]
A
`a\`	, zchar[// trailing space 
0123456789 ] T // packet A { u8 x, }
`tab	here` ,As asx `" ++ [28040; 24687; 31867; 22411]%N ++ runes_of_ascii "` ,
char[]falsey ,  o // " ++ [128512]%N ++ runes_of_ascii " emoji
Foo `tab	here` , } root packet
i64_ {
    repeat uint64 o,
@calculatedFrom(
""abc"" ) uint8x ,
@tag( 4294967296
    ) char[ 255]
    repeatCount `` ,	}")).
Eval vm_compute in ("<<<M44>>>" ++ check (runes_of_ascii "packet rootA { @rightPad( ' ') repeat
    Z9_ roots
``,	zchar
tag `two words` , @rightPad ( ' '
    )
len {
// trailing space 
//x
u128
`doc` ,u8x
    ,  char[ 0123456789 // a // b
]calculatedFrom  `" ++ [28040; 24687; 31867; 22411]%N ++ runes_of_ascii "`,msg_type
@lengthOf(
falsey)`u8 x,` , } ,
@calculatedFrom( """"	)	f64 charz
@lengthOf(msg_type) `it's`// trailing space 
,
    }
")).
Eval vm_compute in ("<<<M38>>>" ++ check (runes_of_ascii "  packet
    i64_
    {
    Z9_ @lengthOf(
charz)	`doc`
    , Pad {  body @lengthOf( string_ ) //
`say ""hi""`	, uint64 metadata@lengthOf(Logon )`say ""hi""` ,
    zchar[ 3
    ] f32a`{ , }` ,repeat uint8	leftPad
/// triple
/// triple
,  }
,char[] _x @lengthOf( As)
    `
` ,  char[ 65535
    ]matchKey  `// not a comment`
,}")).
Eval vm_compute in ("<<<M1983>>>" ++ check (runes_of_ascii "MetaData
    u { }  options {
// c
// @lengthOf(
float = int8 ;rootA =false ; As =	int16 // `tick` ""quote"" 'q'
repeatCount
    // trailing space 
    =
    int16
; u8x =
    //	t
    '\x00' ; string options	{
    repeatCount
= 0
u128
    //
    = false ; i64_
// trailing space 
// `tick` ""quote"" 'q'
= '0' ; //	t
}
")).
Eval vm_compute in ("<<<M1946>>>" ++ check (runes_of_ascii "MetaData
    u { }  options {
// c
// @lengthOf(
float = int8 ;rootA =false ; As =	int16 // `tick` ""quote"" 'q'
repeatCount
    // trailing space 
    = =
    int16
; u8x =
    //	t
    '\x00' ; } options	{
    repeatCount
= 0
u128
    //
    = false ; i64_
// trailing space 
// `tick` ""quote"" 'q'
= '0' ; //	t
}
")).
Eval vm_compute in ("<<<M2064>>>" ++ check (runes_of_ascii "MetaData
    u { }  options {
// c
// @lengthOf(
float = int8 ;rootA =false ; As =	int16 // `tick` ""quote"" 'q'
repeatCount
    // trailing space 
    =
    int16
; u8x =
    //	t
    '\x00' ; } options	{
    repeatCount
= 0
u128
    //
   $ = false ; i64_
// trailing space 
// `tick` ""quote"" 'q'
= '0' ; //	t
}
")).
Eval vm_compute in ("<<<M1972>>>" ++ check (runes_of_ascii "MetaData
    u { }  options {
// c
// @lengthOf(
float = int8 ;rootA =false ; As =	int16 // `tick` ""quote"" 'q'
repeatCount
    // trailing space 
    =
    int16
; u8x =
    //	t
    ; '\x00' } options	{
    repeatCount
= 0
u128
    //
    = false ; i64_
// trailing space 
// `tick` ""quote"" 'q'
= '0' ; //	t
}
")).
Eval vm_compute in ("<<<M1955>>>" ++ check (runes_of_ascii "MetaData
    u { }  options {
// c
// @lengthOf(
float = int8 ;rootA =false ; As =	int16 // `tick` ""quote"" 'q'
repeatCount
    // trailing space 
    =
    int16
 u8x =
    //	t
    '\x00' ; } options	{
    repeatCount
= 0
u128
    //
    = false ; i64_
// trailing space 
// `tick` ""quote"" 'q'
= '0' ; //	t
}
")).
Eval vm_compute in ("<<<M1915>>>" ++ check (runes_of_ascii "MetaData
    u { }  options {
// c
// @lengthOf(
float = int8 ;rootA = ; As =	int16 // `tick` ""quote"" 'q'
repeatCount
    // trailing space 
    =
    int16
; u8x =
    //	t
    '\x00' ; } options	{
    repeatCount
= 0
u128
    //
    = false ; i64_
// trailing space 
// `tick` ""quote"" 'q'
= '0' ; //	t
}
")).
Eval vm_compute in ("<<<M4>>>" ++ check (runes_of_ascii "root packet pack  { match Pad as// a // b
f32a
    {	[
/// triple
//	t
"""" ]: leftPad
, [""" ++ [233]%N ++ runes_of_ascii "t" ++ [233]%N ++ runes_of_ascii """,007 ] : //	t
f32a //x
, 65535 :  body
    ,
    // @lengthOf(
    10:u128,42	: // trailing space 
pack, } ,}options{// " ++ [27880; 37322]%N ++ runes_of_ascii "
o=
    // c
    f64 ; x_y_z //
= /// triple
u32 len =
    42;
falsey
    = true	;}")).
Eval vm_compute in ("<<<M3265>>>" ++ check (runes_of_ascii "// top
MetaData
    // c0
float
    // c1
{
    // c2
float64
    // c3
charz
    // c4
`
`
    // c5
,
    // c6
}
    // c7
root
    // c8
packet
    // c9
chars
    // c10
{
    // c11
@rightPad
    // c12
(
    // c13
'0'
    // c14
)
    // c15
Foo
    // c16
,
    // c17
}
    // c18
")).
Eval vm_compute in ("<<<M3779>>>" ++ check (runes_of_ascii "
options{ calculatedFrom=
    false  ; } packet 
i64_ { body ,
	//	t
    	//x
    }	/// triple

options{

    float 
=

    true;  // @lengthOf(
  charz
= // a // b
    	char[ 
65535

    ] ; u = /// triple

true ;

    metadata

    =""\" ++ [233]%N ++ runes_of_ascii """ 
matchKey  = '\x00'}// " ++ [27880; 37322]%N ++ runes_of_ascii "
")).
Eval vm_compute in ("<<<M292>>>" ++ check (runes_of_ascii "options { asx = ""{,}"" } packet len{repeat	float
    As, char[] Packet ,
i8 body @lengthOf( T
) //
,
}// @lengthOf(
packet
    Pad {uint32
u8x // packet A { u8 x, }
, /// triple
@tag( 4294967296 ) @tag(65535)
@rightPad(
    )rootA
    trueish `{ , }`
    ,
    } 	 ")).
Eval vm_compute in ("<<<M1618>>>" ++ check (runes_of_ascii "packet
//	t
// trailing space 
_x {
// packet A { u8 x, }
// c
char[
3
    ] u8x @lengthOf(
u8x ) , @calculatedFrom(""" ++ [128512]%N ++ runes_of_ascii """ // @lengthOf(
)
i16	Foo
@lengthOf(	string_
    )`doc`	, repeat	i64 metadata , @lengthOf( string_ string_
) i8 // c
u  `line1
line2`	,
}
")).
Eval vm_compute in ("<<<M1575>>>" ++ check (runes_of_ascii "packet
//	t
// trailing space 
_x {
// packet A { u8 x, }
// c
char[
3
    ] u8x @lengthOf(
u8x ) , @calculatedFrom(""" ++ [128512]%N ++ runes_of_ascii """ // @lengthOf(
)
i16	Foo
@lengthOf(	@lengthOf(
    )`doc`	, repeat	i64 metadata , @lengthOf( string_
) i8 // c
u  `line1
line2`	,
}
")).
Eval vm_compute in ("<<<M1658>>>" ++ check (runes_of_ascii "packet
|//	t
// trailing space 
_x {
// packet A { u8 x, }
// c
char[
3
    ] u8x @lengthOf(
u8x ) , @calculatedFrom(""" ++ [128512]%N ++ runes_of_ascii """ // @lengthOf(
)
i16	Foo
@lengthOf(	string_
    )`doc`	, repeat	i64 metadata , @lengthOf( string_
) i8 // c
u  `line1
line2`	,
}
")).
Eval vm_compute in ("<<<M1574>>>" ++ check (runes_of_ascii "packet
//	t
// trailing space 
_x {
// packet A { u8 x, }
// c
char[
3
    ] u8x @lengthOf(
u8x ) , @calculatedFrom(""" ++ [128512]%N ++ runes_of_ascii """ // @lengthOf(
)
i16	Foo
@lengthOf(	)
    string_`doc`	, repeat	i64 metadata , @lengthOf( string_
) i8 // c
u  `line1
line2`	,
}
")).
Eval vm_compute in ("<<<M1607>>>" ++ check (runes_of_ascii "packet
//	t
// trailing space 
_x {
// packet A { u8 x, }
// c
char[
3
    ] u8x @lengthOf(
u8x ) , @calculatedFrom(""" ++ [128512]%N ++ runes_of_ascii """ // @lengthOf(
)
i16	Foo
@lengthOf(	string_
    )`doc`	, repeat	i64 metadata  @lengthOf( string_
) i8 // c
u  `line1
line2`	,
}
")).
Eval vm_compute in ("<<<M3924>>>" ++ check (runes_of_ascii "root packet msg_type {
    // @lengthOf(
    //	t
    string repeatCount `crlf
    line`,
    i8 Foo @lengthOf(MetaDataX),
    @tag(10)
    @calculatedFrom(""abc"")
    @lengthOf(falsey)
    repeat stringy pack `doc`,
}

options {
    As = 65535
}")).
Eval vm_compute in ("<<<M4118>>>" ++ check (runes_of_ascii "MetaData u {
}

options {
    // c
    // @lengthOf(
    float = int8;
    rootA = false;
    As = int16// `tick` ""quote"" 'q'
    repeatCount = int16
    u8x = '\x00';
}

options {
    repeatCount = 0
    u128 = false;
    i64_ = '0';//	t
}")).
Eval vm_compute in ("<<<M301>>>" ++ check (runes_of_ascii "  MetaData // c
crc
{ i64 matchKey,
    _x msg_type//
, zchar zchar
    ,
    MetaDataX	matchKey
    `a\` ,
    u32 Header // " ++ [128512]%N ++ runes_of_ascii " emoji
, } MetaData
_x{
    } root packet
    calculatedFrom
// `tick` ""quote"" 'q'
// @lengthOf(
{	}
")).
Eval vm_compute in ("<<<M3765>>>" ++ check (runes_of_ascii "packet  //	t
  u8x  { @leftPad (

    '0' ) // trailing space 
	@calculatedFrom( ""1"" )

    @leftPad

    (
    '\x00'
)
    zchar[ 3  ] zchar
, 	 // `tick` ""quote"" 'q'

	}
    options

    {  } 
// @lengthOf(
")).
Eval vm_compute in ("<<<M3867>>>" ++ check (runes_of_ascii "packet Pad {
    @leftPad()
    @lengthOf(float)
    @calculatedFrom(""// no comment"")
    repeat calculatedFrom {
        uint16 i64_ @lengthOf(msg_type),
        BodyLength trueish,
        _x Logon,
    },
}//	t")).
Eval vm_compute in ("<<<M818>>>" ++ check (runes_of_ascii "packet calculatedFrom{ body, } packet Packet {repeat
    _x // a // b
asx ,@tag(
3 )
    @calculatedFrom(
""" ++ [128512]%N ++ runes_of_ascii """
)
    char[3 ]
    body, f64
    MetaDataX `u8 x,` ,
    //x
    @tag(0 )repeat
    roots i8i8 ,	}")).
Eval vm_compute in ("<<<M1772>>>" ++ check (runes_of_ascii "options { trueish = ""`tick`"" ; string_= """ ++ [233]%N ++ runes_of_ascii "t" ++ [233]%N ++ runes_of_ascii """
    // c
    } root
    packet body { stringy @calculatedFrom(
""a	b"" ) `line1
line2` , } }
packet Logon {
    @leftPad(
    ' ' ) //	t
u16 string_ `u8 x,` ,
}
")).
Eval vm_compute in ("<<<M1678>>>" ++ check (runes_of_ascii "options trueish { = ""`tick`"" ; string_= """ ++ [233]%N ++ runes_of_ascii "t" ++ [233]%N ++ runes_of_ascii """
    // c
    } root
    packet body { stringy @calculatedFrom(
""a	b"" ) `line1
line2` , }
packet Logon {
    @leftPad(
    ' ' ) //	t
u16 string_ `u8 x,` ,
}
")).
Eval vm_compute in ("<<<M1813>>>" ++ check (runes_of_ascii "options { trueish = ""`tick`"" ; string_= """ ++ [233]%N ++ runes_of_ascii "t" ++ [233]%N ++ runes_of_ascii """
    // c
    } root
    packet body { stringy @calculatedFrom(
""a	b"" ) `line1
line2` , }
packet Logon {
    @leftPad(
    ' ' ) //	t
string_ u16 `u8 x,` ,
}
")).
Eval vm_compute in ("<<<M1811>>>" ++ check (runes_of_ascii "options { trueish = ""`tick`"" ; string_= """ ++ [233]%N ++ runes_of_ascii "t" ++ [233]%N ++ runes_of_ascii """
    // c
    } root
    packet body { stringy @calculatedFrom(
""a	b"" ) `line1
line2` , }
packet Logon {
    @leftPad(
    ' ' ) //	t
 string_ `u8 x,` ,
}
")).
Eval vm_compute in ("<<<M1681>>>" ++ check (runes_of_ascii "options {  = ""`tick`"" ; string_= """ ++ [233]%N ++ runes_of_ascii "t" ++ [233]%N ++ runes_of_ascii """
    // c
    } root
    packet body { stringy @calculatedFrom(
""a	b"" ) `line1
line2` , }
packet Logon {
    @leftPad(
    ' ' ) //	t
u16 string_ `u8 x,` ,
}
")).
Eval vm_compute in ("<<<M354>>>" ++ check (runes_of_ascii "MetaData u128 { char[]falsey ,u8  roots	, i8
u `doc`, packetx int ,
}// c
packet asx
{ }
options	{ matchKey= ""// no comment"" Logon
= char[]
    u128=
false options1 =' '
len
    = '\x00'  }")).
Eval vm_compute in ("<<<M4445>>>" ++ check (runes_of_ascii "

  packet

    falsey { } packet

    stringy	{repeatCount  //	t
@calculatedFrom(  ""a	b""  //x
  )
    ,
    @lengthOf(
	string_)
repeat
    i64_

metadata  `
` /// triple
  , 
}

")).
Eval vm_compute in ("<<<M441>>>" ++ check (runes_of_ascii "
options { options1 =
1// packet A { u8 x, }
; } options
{ A =00}MetaData
repeatCount {
char[]
u8x	, char[] u128
, body roots
`" ++ [28040; 24687; 31867; 22411]%N ++ runes_of_ascii "`, msg_type As  ,
} MetaData
string_ {
}
")).
Eval vm_compute in ("<<<M1974>>>" ++ check (runes_of_ascii "MetaData
    u { }  options {
// c
// @lengthOf(
float = int8 ;rootA =false ; As =	int16 // `tick` ""quote"" 'q'
repeatCount
    // trailing space 
    =
    int16
; u8x =")).
Eval vm_compute in ("<<<M1224>>>" ++ check (runes_of_ascii "options //
{} packet	tag //	t
{ u64
u @lengthOf(u128 ) , char[]Pad
    // a // b
    @lengthOf( crc) ,
    i32 options1@lengthOf(msg_type// c
) ,} options {
    }")).
Eval vm_compute in ("<<<M1016>>>" ++ check (runes_of_ascii "packet // c
Pad
{@calculatedFrom( ""1"" ) pack//
leftPad `doc` ,char[ /// triple
007 ] i8i8 @calculatedFrom( ""// no comment""  ),	} options//
{
pack  = '\x00';  }")).
Eval vm_compute in ("<<<M1315>>>" ++ check (runes_of_ascii "/// triple
MetaData T {
    string_ falsey `u8 x,`, // packet A { u8 x, }
matchKey chars `u8 x,`, calculatedFrom
f32a `doc` ,
/// triple
// trailing space 
}")).
Eval vm_compute in ("<<<M2404>>>" ++ check (runes_of_ascii "// c
packet x { @lengthOf( metadata ) repeat lengthOf
, ,a1{
trueish	,// c
repeat//	t
MetaDataX , } , zchar[
    42	] rootA // `tick` ""quote"" 'q'
,
    }
")).
Eval vm_compute in ("<<<M2185>>>" ++ check (runes_of_ascii "options{
_x
= true
} options
{ o	= /// triple
false
    ; chars
= ""\n"" } root packet	Pad
/// triple
// packet A { u8 x, }
{	chars
    // a // b
    ,} }")).
Eval vm_compute in ("<<<M2192>>>" ++ check (runes_of_ascii "options{
_x
= true
} options
{ o	= /// triple
false
  /  ; chars
= ""\n"" } root packet	Pad
/// triple
// packet A { u8 x, }
{	chars
    // a // b
    ,}")).
Eval vm_compute in ("<<<M2131>>>" ++ check (runes_of_ascii "options{
_x
= true
} options
{ o	= /// triple
false
    chars ;
= ""\n"" } root packet	Pad
/// triple
// packet A { u8 x, }
{	chars
    // a // b
    ,}")).
Eval vm_compute in ("<<<M2179>>>" ++ check (runes_of_ascii "options{
_x
= true
} options
{ o	= /// triple
false
    ; chars
= ""\n"" } root packet	Pad
/// triple
// packet A { u8 x, }
{	chars
    // a // b
    }")).
Eval vm_compute in ("<<<M2154>>>" ++ check (runes_of_ascii "options{
_x
= true
} options
{ o	= /// triple
false
    ; chars
= ""\n"" }  packet	Pad
/// triple
// packet A { u8 x, }
{	chars
    // a // b
    ,}")).
Eval vm_compute in ("<<<M4175>>>" ++ check (runes_of_ascii "packet body {
    @leftPad()
    zchar[0] metadata,
    chars {
        repeat u8 string_,
        string options1 @calculatedFrom(""" ++ [28040; 24687]%N ++ runes_of_ascii """),
    },
}")).
Eval vm_compute in ("<<<M1116>>>" ++ check (runes_of_ascii "//x
options {
    pack = ""{,}"" ; asx = 65535 ; u
= zchar[ 007 ] ;
    // trailing space 
    i8i8
=char[]
As //x
=' ' } // packet A { u8 x, }")).
Eval vm_compute in ("<<<M20>>>" ++ check (runes_of_ascii "options { x_y_z =  """ ++ [128512]%N ++ runes_of_ascii """
/// triple
// @lengthOf(
options1 =
""a\\""  ;
    x_y_z  = 255 ; } //x
packet
    charz {
    } // trailing space ")).
Eval vm_compute in ("<<<M619>>>" ++ check (runes_of_ascii "packet u {
    uint16 // a // b
chars  `" ++ [28040; 24687; 31867; 22411]%N ++ runes_of_ascii "`	,// `tick` ""quote"" 'q'
} root	packet T
{	leftPad
Foo `" ++ [28040; 24687; 31867; 22411]%N ++ runes_of_ascii "`
    ,
}
// @lengthOf(
")).
Eval vm_compute in ("<<<M3547>>>" ++ check (runes_of_ascii "packet  B
{
    u8
a

    ,
}root
    packet P {

u8 K

,
	u64
L

@lengthOf(	Body ) ,	match
K 
as
Body{
	1
:

B,} 
,
}
")).
Eval vm_compute in ("<<<M3185>>>" ++ check (runes_of_ascii "// top
root
    // c0
packet
    // c1
u128
    // c2
{
    // c3
chars
    // c4
`it's`
    // c5
,
    // c6
}
    // c7
")).
Eval vm_compute in ("<<<M3316>>>" ++ check (runes_of_ascii "root packet matchKey // c
{ zchar[ 3 ] pack @calculatedFrom( ""a	b"" ) `doc` , } options { } MetaData A { int8 msg_type , }")).
Eval vm_compute in ("<<<M3348>>>" ++ check (runes_of_ascii "root packet matchKey { zchar[ 3 ] pack @calculatedFrom( ""a	b"" ) `doc` , } options { } MetaData A // c
{ int8 msg_type , }")).
Eval vm_compute in ("<<<M4237>>>" ++ check (runes_of_ascii "//x
options {
    Header = char[];
}

MetaData Z9_ {
    x_y_z Header `crlf
    line`,
    string pack,
}

options {
}")).
Eval vm_compute in ("<<<M1444>>>" ++ check (runes_of_ascii "
packet
    falsey { Header@calculatedFrom(""packet""  ) , char[
    ] 0123456789 packetx
    , } // `tick` ""quote"" 'q'")).
Eval vm_compute in ("<<<M4112>>>" ++ check (runes_of_ascii "packet
A { match

k	as

    n
    { [	1 , 22
,""c c""
	,
4
,5

    ,

    ""f"",
    7  ,  8]
	:
B	2:
C }
,}
")).
Eval vm_compute in ("<<<M961>>>" ++ check (runes_of_ascii "
options{ Pad
=zchar[
    10
    ]  ;a1 //
=
    ""1""	stringy
=
""{,}""
;
uint8x='0' BodyLength =
    1 ; //	t
}")).
Eval vm_compute in ("<<<M4261>>>" ++ check (runes_of_ascii "MetaData
body
{i64

pack
`it's`

, }

packet
    stringy  
      // c
    	{
    int16 calculatedFrom
,  }
")).
Eval vm_compute in ("<<<M3039>>>" ++ check (runes_of_ascii "packet A {
    u16 len @lengthOf(body) `
x`,
    u32 crc @calculatedFrom(""CRC32"") `
x`,
    string body,
}")).
Eval vm_compute in ("<<<M3681>>>" ++ check (runes_of_ascii "MetaData body { i64 pack

    `it's`,
    } 
packet	stringy { int16
	    // c
		calculatedFrom	, }
")).
Eval vm_compute in ("<<<M4049>>>" ++ check (runes_of_ascii "packet

o

    {repeat	Logon 
uint8x  ,
}options{ asx
=
	zchar[ 
3 ]  stringy='\x00'} 
    // c
")).
Eval vm_compute in ("<<<M3856>>>" ++ check (runes_of_ascii "
root
    packet
calculatedFrom 
{	uint8

pack  @lengthOf(
	crc) 	 //
	`// not a comment`,

} ")).
Eval vm_compute in ("<<<M1095>>>" ++ check (runes_of_ascii "// @lengthOf(
MetaData Logon	{	char[]
//	t
// " ++ [27880; 37322]%N ++ runes_of_ascii "
Foo // c
, T
roots , char[65535 ] Z9_ ,
}
")).
Eval vm_compute in ("<<<M2976>>>" ++ check (runes_of_ascii "packet A {
  match k as n {
    [1, 22, 007, 4, 5, 66, 7, 8, 9, 10, 11] : B
    2 : C
  },
}")).
Eval vm_compute in ("<<<M3484>>>" ++ check (runes_of_ascii "
// c
packet chars { } packet MetaDataX { @tag( 42 ) i16 string_ , repeat x `say ""hi""` , }")).
Eval vm_compute in ("<<<M3284>>>" ++ check (runes_of_ascii "MetaData float { float64 charz `
` , }
// c
root packet chars { @rightPad ( '0' ) Foo , }")).
Eval vm_compute in ("<<<M3495>>>" ++ check (runes_of_ascii "packet chars { } packet MetaDataX // c
{ @tag( 42 ) i16 string_ , repeat x `say ""hi""` , }")).
Eval vm_compute in ("<<<M2227>>>" ++ check (runes_of_ascii "options
{ } options { { BodyLength= u16 Header= f64 ; u128 =
    true
    ; } // a // b")).
Eval vm_compute in ("<<<M2303>>>" ++ check (runes_of_ascii "options
{ } options { BodyLength= u16% Header= f64 ; u128 =
    true
    ; } // a // b")).
Eval vm_compute in ("<<<M2243>>>" ++ check (runes_of_ascii "options
{ } options { BodyLength= Header u16= f64 ; u128 =
    true
    ; } // a // b")).
Eval vm_compute in ("<<<M3234>>>" ++ check (runes_of_ascii "packet metadata { Logon { A `" ++ [28040; 24687; 31867; 22411]%N ++ runes_of_ascii "` , tag o ,
// c
} , zchar len `// not a comment` , }")).
Eval vm_compute in ("<<<M2281>>>" ++ check (runes_of_ascii "options
{ } options { BodyLength= u16 Header= f64 ; u128 =
    true
     } // a // b")).
Eval vm_compute in ("<<<M3454>>>" ++ check (runes_of_ascii "packet o { repeat Logon uint8x , } options { asx = zchar[
// c
3 ] stringy = '\x00' }")).
Eval vm_compute in ("<<<M1054>>>" ++ check (runes_of_ascii "MetaData A { } packet
    asx { @calculatedFrom(""`tick`""
) matchKey uint8x `" ++ [233]%N ++ runes_of_ascii "` ,
}
")).
Eval vm_compute in ("<<<M3399>>>" ++ check (runes_of_ascii "MetaData body {
// c
i64 pack `it's` , } packet stringy { int16 calculatedFrom , }")).
Eval vm_compute in ("<<<M2917>>>" ++ check (runes_of_ascii "packet A {
  match k as n {
    [""a"", 22, ""c c"", 4, ""e"", 66] : B
    2 : C
  },
}")).
Eval vm_compute in ("<<<M3536>>>" ++ check (runes_of_ascii "packet Inner {
    u8 a,
}
root packet P {
    repeat Inner items,
    u8 x,
}
")).
Eval vm_compute in ("<<<M1924>>>" ++ check (runes_of_ascii "MetaData
    u { }  options {
// c
// @lengthOf(
float = int8 ;rootA =false")).
Eval vm_compute in ("<<<M2716>>>" ++ check (runes_of_ascii "string @tag( float64 ""packet"" u16 packet { ( f32 } @calculatedFrom( : as")).
Eval vm_compute in ("<<<M161>>>" ++ check (runes_of_ascii "// trailing space 
packet
Header { // c
repeat  char[] MetaDataX , }")).
Eval vm_compute in ("<<<M2880>>>" ++ check (runes_of_ascii "packet A {
  match k as n {
    [1, 22, ""c c""] : B
    2 : C
  },
}")).
Eval vm_compute in ("<<<M976>>>" ++ check (runes_of_ascii "// trailing space 
packet/// triple
Foo
{ zchar[ 255 ]body	,
}
")).
Eval vm_compute in ("<<<M765>>>" ++ check (runes_of_ascii "// trailing space 
packet x_y_z { @tag( 255 )char[] float ,
}")).
Eval vm_compute in ("<<<M2665>>>" ++ check (runes_of_ascii "options { a = true; b = false; c = '0'; d = ""s""; e = 007; }")).
Eval vm_compute in ("<<<M3374>>>" ++ check (runes_of_ascii "packet x { @rightPad (
// c
) repeat roots Logon `doc` , }")).
Eval vm_compute in ("<<<M4475>>>" ++ check (runes_of_ascii "packet matchKey {
    @leftPad('0')
    int16 options1,
}")).
Eval vm_compute in ("<<<M3177>>>" ++ check (runes_of_ascii "packet A { repeat // a
 B // b
 b // c
 `d` // e
 , }")).
Eval vm_compute in ("<<<M4122>>>" ++ check (runes_of_ascii "

  root
packet

    pack

    {

}
    // c
")).
Eval vm_compute in ("<<<M3839>>>" ++ check (runes_of_ascii "

  root
	packet
u128{ chars// c

`it's`	, 
}
")).
Eval vm_compute in ("<<<M3005>>>" ++ check (runes_of_ascii "MetaData M {
    u8 x `a
b`,
    T t `a
b`,
}")).
Eval vm_compute in ("<<<M3961>>>" ++ check (runes_of_ascii "packet msg_type {
    repeat lengthOf _x,
}")).
Eval vm_compute in ("<<<M2588>>>" ++ check (runes_of_ascii "packet A { x @calculatedFrom(""c"") `d`, }")).
Eval vm_compute in ("<<<M2609>>>" ++ check (runes_of_ascii "packet A { match k as n { [1,] : B }, }")).
Eval vm_compute in ("<<<M3985>>>" ++ check (runes_of_ascii "root packet A {
    u8 x `a
    b`,
}")).
Eval vm_compute in ("<<<M2604>>>" ++ check (runes_of_ascii "packet A { match k as n { 1 : B } }")).
Eval vm_compute in ("<<<M4022>>>" ++ check (runes_of_ascii "MetaData crc {
    uint8x float,
}")).
Eval vm_compute in ("<<<M2657>>>" ++ check (runes_of_ascii "options { a = 1; b = 2 c = 3;; }")).
Eval vm_compute in ("<<<M2118>>>" ++ check (runes_of_ascii "options{
_x
= true
} options
{")).
Eval vm_compute in ("<<<M1889>>>" ++ check (runes_of_ascii "MetaData
    u { }  options {")).
Eval vm_compute in ("<<<M2649>>>" ++ check (runes_of_ascii "MetaData M { repeat u8 x, }")).
Eval vm_compute in ("<<<M3968>>>" ++ check (runes_of_ascii "packet	Logon {
Foo 
,  }

")).
Eval vm_compute in ("<<<M2581>>>" ++ check (runes_of_ascii "packet A { char[ 3 ] , }")).
Eval vm_compute in ("<<<M2743>>>" ++ check (runes_of_ascii "int64 [ ; { char[] u32")).
Eval vm_compute in ("<<<M2667>>>" ++ check (runes_of_ascii "options { a = [1]; }")).
Eval vm_compute in ("<<<M2771>>>" ++ check (runes_of_ascii "W" ++ [23; 65533]%N ++ runes_of_ascii "-" ++ [65533; 65533; 65533]%N ++ runes_of_ascii ">Dv" ++ [65533; 65533; 65533]%N ++ runes_of_ascii "~>Z" ++ [65533; 65533; 65533]%N)).
Eval vm_compute in ("<<<M3060>>>" ++ check (runes_of_ascii "packet A {
}
// c ")).
Eval vm_compute in ("<<<M3141>>>" ++ check (runes_of_ascii "// c" ++ [6158]%N ++ runes_of_ascii "
packet A {
}")).
Eval vm_compute in ("<<<M3108>>>" ++ check (runes_of_ascii "packet A {
}// c" ++ [8287]%N)).
Eval vm_compute in ("<<<M2571>>>" ++ check (runes_of_ascii "packet A { x, }")).
Eval vm_compute in ("<<<M968>>>" ++ check (runes_of_ascii "options { }
")).
Eval vm_compute in ("<<<M2636>>>" ++ check (runes_of_ascii "packet A {")).
Eval vm_compute in ("<<<M4585>>>" ++ check (runes_of_ascii "

  //
")).
Eval vm_compute in ("<<<M2458>>>" ++ check (runes_of_ascii "string")).
Eval vm_compute in ("<<<M2512>>>" ++ check (runes_of_ascii """a
b""")).
Eval vm_compute in ("<<<M2470>>>" ++ check (runes_of_ascii "ROOT")).
Eval vm_compute in ("<<<M2499>>>" ++ check (runes_of_ascii "/ /")).
Eval vm_compute in ("<<<M2476>>>" ++ check (runes_of_ascii "''")).
Eval vm_compute in ("<<<M2678>>>" ++ check (runes_of_ascii "1")).
