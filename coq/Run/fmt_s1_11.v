From FP Require Import Lexer Parser ShowPT Digest Formatter.
From Coq Require Import String List NArith.
Import ListNotations.
Open Scope string_scope.
Set Printing Width 100000000.
Set Printing Depth 100000000.
Definition show_fres (r : fres) : string :=
  match r with
  | FOk s => "OK:" ++ sh_escaped s ""
  | FErr s => "ERR:" ++ sh_escaped s ""
  | FPanic p => "PANIC:" ++ p
  end.
Definition check (rs : list rune) : string := digest (show_fres (format_res rs)).
Definition full (rs : list rune) : string := show_fres (format_res rs).
Eval vm_compute in ("<<<M1800>>>" ++ check (runes_of_ascii "  options	{

    ArrayPrefixLenType=u16
	; FixedStringPadFromLeft = true ;
	JavaPackage =""com.example.msg""

;GoPackage	=

    ""msg""	;
	GoModule  =
""example.com/msg""
	;
} MetaData
Meta {u32

    SeqNum`sequence number
more`
, char[
    8

] Symbol `symbol
more`

, zchar[
5 ]

ZSym `z symbol
more`,string Note  , 
Symbol 
AltSymbol

    `alias of symbol`
,f64	Price,} 
packet	Inner 
{
	u8 
a 
,
    i16 b,

string c	,
	}packet	Inner2	{ u8 a2
, char[
3 ] 
c2 , } packet  Logon 
{
    u8
x

    , string	user
, repeat
u16
    codes , 
}
	packet
Logout { u16
reason
	,

    }  packet Empty{
    }

root	packet

Msg{ u8 su8 
,

    uint8 luint8
	,
    u16
su16
	,  uint16 
luint16
	,
u32
	su32,uint32 
luint32
, u64 su64  , 
uint64
luint64,
i8
si8

    , 
int8
lint8
	, i16	si16 ,int16
lint16 
,
	i32	si32,int32 lint32
, i64	si64 , int64 lint64
	,
f32 sf32

,  float32 lfloat32

    ,f64

sf64  ,
float64
    lfloat64 
,
    char[

    6  ]
fsplain
	,@leftPad( '0'
) char[4
]fs0 ,@rightPad
    ('0'
)
char[5 ]
fs1	,
    @leftPad

(
' ' 
)

char[ 
6

    ]  fs2
, @rightPad  ( ' '  ) char[	7  ] fs3

    ,
    @leftPad

    (
	'\x00' 
)
char[8 
]fs4 ,  @rightPad(
    '\x00'
    )char[ 9

]  fs5, @leftPad(
) char[
10

] fs6

,

@rightPad( ) 
char[

    11
]
	fs7 ,zchar[

7

    ] 
fz  ,

    @leftPad( '0'	)	zchar[	3
    ] 
fzl0 ,
string
s1	`doc`
,
    char[]
s2
    ,

    Inner
	, Sub

{
u8
q,string  w  , 
Deep{
    u16 
z

    , repeat i32
zs, }  ,

}

,repeat

    u8
    ru8 ,	repeat
u16
ru16
	,  repeat
u32
ru32

    ,

repeat

u64 ru64

,repeat
i8  ri8
,
    repeat
i16
ri16
,repeat	i32
ri32
    ,
	repeat i64
	ri64 , repeat 
f32
    rf32

,
repeat
f64 rf64,
    repeat
string
rstr	, repeat
char[]	rstr2
    ,repeat  char[
3
	]
	rfs ,
repeat
zchar[ 3] rfz ,repeat
	Inner2,

repeat  Grp	{ u8
    k, 
char[ 2
] v

    ,
	}
,

SeqNum  ,
SeqNum
    seq2,
	repeat
    SeqNum	seqs,Symbol, AltSymbol
	alt ,
    ZSym ,
	Note,
    repeat
Symbol
	syms

    ,

Price px	, u16
	MsgType

,

u32 BodyLen
@lengthOf(  Body

    ), match MsgType

as 
Body
    {1	: 
Logon
    ,

    [
2
,3] : Logout	,
    7 :
Logon	,
9
    : 
Empty, } ,
	u32 Checksum@calculatedFrom( 
""CRC32""  )
	,
	}
")).
Eval vm_compute in ("<<<M1586>>>" ++ check (runes_of_ascii "
// top

  options  // c0
{  // c1a
    // c1b
StringPrefixLenType
    // c2
		=  // c3a
    // c3b
u8// c4a
		// c4b
    ; ArrayPrefixLenType 	 // c6
  =  // c7

u32  // c8
; 
    // c9
} packet
    Quote	// c12
    {	// c13

  u32// c14a

  // c14b
    Ref

    ,// c16a
	// c16b
  InNote74	{	// c18
    u8 pad0  // c20a
  // c20b
      ,// c21
    } 
      // c22
		, 
}

packet
    // c25
    Ack
{

repeat 
string
// c29
	OrderId	// c30
	, // c31
  }// c32

packet	// c33a
	  // c33b
  	Logout// c34
  {
	// c35
	  zchar[	// c36a
  // c36b

7 

    // c37
  ] 

// c38
	venue
	,  // c40a

// c40b
char[// c41
	  12 	 // c42
  ] 	 // c43a

  // c43b
	Px ,

// c45
	string// c46
  count  // c47a
		// c47b
    , 
    // c48
    char[] // c49
	  Tail // c50a
  // c50b
    ,// c51
char[]Qty	// c53

	, // c54

Quote // c55
    	,	// c56

} 	 // c57

	root  // c58a
  // c58b
	packet
	Trade 
    // c60
  { 	 // c61a
	// c61b
  zchar[  
      // c62
  2  // c63a
// c63b

	]// c64a
  	// c64b

price 	 // c65

	,

    // c66
  u32
	// c67
x
	,	u32	// c70
    lastPx 
    // c71
    @lengthOf( 	 // c72
  Body // c73a
      // c73b
	) 
	// c74
,	// c75a
    // c75b
	match  // c76a
  	// c76b
		x	as

    // c78
Body// c79
	{  // c80
  	148:	// c82
Ack	// c83a

  // c83b
    	,  // c84

171	// c85a
	// c85b
:
// c86
	  Quote// c87
  , 15
	// c89
      :
	// c90
Logout 	 // c91a
// c91b
    , 
    // c92
    } 
        // c93
,// c94
  } 

// c95
")).
Eval vm_compute in ("<<<M232>>>" ++ check (runes_of_ascii "packet falsey { int64
BodyLength , @tag( 4294967296) // packet A { u8 x, }
@leftPad (
    )
match _x as Foo
//	t
// packet A { u8 x, }
{ ""\n"": asx
// `tick` ""quote"" 'q'
// `tick` ""quote"" 'q'
[ ""{,}""
,	4294967296, """ ++ [128512]%N ++ runes_of_ascii """//	t
, """ ++ [28040; 24687]%N ++ runes_of_ascii """,
""packet"", ""packet""
    // " ++ [27880; 37322]%N ++ runes_of_ascii "
    , ""x y"" ,
// trailing space 
// " ++ [128512]%N ++ runes_of_ascii " emoji
7 ]	: x_y_z	, } , // `tick` ""quote"" 'q'
A len`// not a comment`
    ,
    //
    repeat char[]
i64_ `crlf
line` ,
// trailing space 
// trailing space 
repeat char[] u `line1
line2`	, tag {string metadata ,
    } ,
// " ++ [27880; 37322]%N ++ runes_of_ascii "
// " ++ [128512]%N ++ runes_of_ascii " emoji
char[3
    ] falsey @lengthOf(
    leftPad ) `crlf
line`
,  } root	packet
MetaDataX {@lengthOf( //
u8x )
    match f32a as Header {[ ""a\""b""
//x
// `tick` ""quote"" 'q'
,255]:  u8x , ""packet""
:
uint8x
    ,""1""
:
_x , },
    Packet `doc` , zchar[
    3 // " ++ [128512]%N ++ runes_of_ascii " emoji
] u128 @lengthOf( asx  ) ,
    }  MetaData x/// triple
{
// `tick` ""quote"" 'q'
// `tick` ""quote"" 'q'
As  roots , char[
10	] crc
// " ++ [128512]%N ++ runes_of_ascii " emoji
/// triple
`{ , }` ,
    BodyLength
asx  `u8 x,` ,matchKey i8i8 , falsey pack `" ++ [233]%N ++ runes_of_ascii "`,leftPad metadata ,
    }
options { pack	= 0 tag
= f32 i64_ =""abc""	;
// " ++ [128512]%N ++ runes_of_ascii " emoji
// " ++ [128512]%N ++ runes_of_ascii " emoji
f32a=
    true ; } packet Foo { }
")).
Eval vm_compute in ("<<<M1688>>>" ++ check (runes_of_ascii "options {
    chars = ' '
}

root packet string_ {
    i8i8 @lengthOf(Z9_),
    match int as chars {
        007 : body,
        [42] : int,
        ""`tick`"" : options1,
    },
    @leftPad(' ')
    uint16 crc `it's`,// a // b
    float64 packetx @lengthOf(crc),
    @tag(4294967296)
    match int as chars {
        4294967296 : Foo,
        1 : asx,
        10 : Pad,
        0123456789 : string_,
        3 : T,
        ""it's"" : As,
    },
    repeat float falsey `say ""hi""`,
    match uint8x as zchar {
        ""// no comment"" : body,
        0123456789 : crc,
        ""{,}"" : o,
    },
    repeat o chars,
    uint32 As `doc`,
    repeat trueish {
        char[7] i64_ `{ , }`,
    },
}

packet Packet {
    zchar[0123456789] matchKey @lengthOf(chars),
    x {
        u64 o,
    },
    zchar[1] MetaDataX @calculatedFrom(""""),
    char[] lengthOf @calculatedFrom(""a\""b"") `
    `,
    @rightPad(' ')
    //	t
    uint16 len `a\`,
    @lengthOf(tag)
    char[65535] pack ``,
}")).
Eval vm_compute in ("<<<M1992>>>" ++ check (runes_of_ascii "options {
    T = ' '
}

MetaData Pad {
    string_ u128,
    u64 uint8x `two words`,
    int8 repeatCount,
}

packet len {
    Packet `
    `,
    @calculatedFrom(""a\""b"")
    zchar[42] rootA,
    @calculatedFrom(""packet"")
    @calculatedFrom(""\n"")
    Packet @calculatedFrom(""\" ++ [233]%N ++ runes_of_ascii """) `" ++ [28040; 24687; 31867; 22411]%N ++ runes_of_ascii "`,
    @leftPad('\x00')
    @leftPad()
    @rightPad()
    repeat string_ {
        match asx as rootA {
            [""`tick`"", 65535] : falsey,
        },
        trueish,
        char Z9_ `// not a comment`,
        Packet Logon `{ , }`,
    },
    @tag(1)
    match x as pack {
        1 : stringy,
        [42] : x,
    },
    repeat i8 u8x,
    @calculatedFrom(""packet"")
    string_ @lengthOf(rootA),
    falsey @lengthOf(x),
}

options {
}

root packet u {
    @lengthOf(x_y_z)
    u @calculatedFrom("""") `two words`,
}")).
Eval vm_compute in ("<<<M1550>>>" ++ check (runes_of_ascii "options {
    LittleEndian = false;
    StringPrefixLenType = u8;
    ArrayPrefixLenType = u8;
    FixedStringPadFromLeft = true;
    FixedStringPadChar = ' ';
}
packet Trade {
    zchar[2] Side2,
    i8 seqNo,
}
packet Party {
    uint32 price,
}
packet Ack {
    @rightPad('\x00') char[6] x,
    repeat char[4] Flags,
    zchar[9] f1,
}
packet Cancel {
    Ack,
}
packet Heartbeat {
    string Px,
    string Acct,
    f64 Side2,
    InQty24 {
        i16 seqNo,
        repeat i32 Flags,
    },
}
root packet Logon {
    Trade,
    i64 venue,
    u32 x,
    u8 seqNo,
    match seqNo as Body {
        [1, 164] : Ack,
        31 : Cancel,
        23 : Heartbeat,
        64 : Party,
    },
}
")).
Eval vm_compute in ("<<<M1610>>>" ++ check (runes_of_ascii "MetaData As {
}

packet float {
    // @lengthOf(
    options1 Pad `// not a comment`,
    uint16 As `line1
        line2`,
    float32 stringy @calculatedFrom(""`tick`"") `" ++ [233]%N ++ runes_of_ascii "`,
    repeat Packet {
        zchar[3] T @calculatedFrom(""x y""),
        char[7] asx @lengthOf(tag),
        //
        int64 charz `u8 x,`,
    },
    uint32 len,
    @tag(0123456789)
    Foo packetx `// not a comment`,
    char[] trueish @lengthOf(rootA),
    @leftPad('0')
    repeat x_y_z `{ , }`,
    i64 u128,
}

packet msg_type {
    char[] i8i8 `doc`,
    string trueish @calculatedFrom(""""),
    char[7] string_ `say ""hi""`,
}")).
Eval vm_compute in ("<<<M1580>>>" ++ check (runes_of_ascii "// top
packet // c0
Sub // c1a
  // c1b
{
    // c2
u8 a ,
    // c5
@calculatedFrom( // c6a
  // c6b
""CRC16"" )
    // c8
u16 // c9
SubSum // c10
, }
    // c12
root packet // c14
Frame // c15
{
    // c16
u16 // c17a
  // c17b
MsgType
    // c18
, // c19
u16
    // c20
BodyLen @lengthOf(
    // c22
Body // c23a
  // c23b
) , Sub // c26a
  // c26b
Body
    // c27
,
    // c28
string // c29
note , // c31
@calculatedFrom( ""CRC16"" // c33
) u16 // c35a
  // c35b
Checksum // c36
,
    // c37
u8 tail
    // c39
,
    // c40
} ")).
Eval vm_compute in ("<<<M1879>>>" ++ check (runes_of_ascii "  packet
	string_
	{ @lengthOf(
    int )BodyLength 
u8x	,  i64_ `tab	here`
        // " ++ [128512]%N ++ runes_of_ascii " emoji
	// @lengthOf(
  ,
	char[
3

]	/// triple
    string_

,repeat

    leftPad `" ++ [28040; 24687; 31867; 22411]%N ++ runes_of_ascii "`,
repeat  int32
/// triple

// `tick` ""quote"" 'q'
  	BodyLength
    `u8 x,` , 	 // `tick` ""quote"" 'q'
  	@tag(	4294967296 )
    BodyLength 
`crlf
line`
    , 
msg_type
Packet
`" ++ [233]%N ++ runes_of_ascii "` ,float32
    string_	// trailing space 
  	@calculatedFrom(
	""""
)	,
asx  int`it's`  ,
}
")).
Eval vm_compute in ("<<<M2082>>>" ++ check (runes_of_ascii "root packet x {
    @calculatedFrom(""a\\"")
    zchar[42] float @calculatedFrom(""a\""b"") `
        `,
}

MetaData o {
    int8 BodyLength,
    string len,
    string len,
    float falsey,
    T float,
}

MetaData pack {
    /// triple
    charz o `// not a comment`,
    float64 f32a `tab	here`,
    int32 u8x `// not a comment`,
    char[10] a1,
    float32 options1,
}// `tick` ""quote"" 'q'")).
Eval vm_compute in ("<<<M1454>>>" ++ check (runes_of_ascii "// top
packet
    // c0
B // c1a
  // c1b
{ u8 // c3
a // c4a
  // c4b
, }
    // c6
root // c7
packet
    // c8
P
    // c9
{ // c10
u8 // c11
K // c12
,
    // c13
u8
    // c14
L // c15a
  // c15b
@lengthOf( Body
    // c17
) ,
    // c19
match
    // c20
K as Body {
    // c24
1 // c25
: B ,
    // c28
} // c29a
  // c29b
, // c30
}
    // c31
")).
Eval vm_compute in ("<<<M1709>>>" ++ check (runes_of_ascii "MetaData T {
    Foo lengthOf,
    string packetx `// not a comment`,
    zchar[0] metadata `crlf
        line`,
    x string_ `line1
        line2`,
}

packet repeatCount {
    char[255] A @calculatedFrom(""a\\""),
    float32 BodyLength @lengthOf(_x) `doc`,
    char[] trueish @calculatedFrom(""packet""),
}")).
Eval vm_compute in ("<<<M61>>>" ++ check (runes_of_ascii "options
{  chars =
    /// triple
    char; o
    /// triple
    = true u128 =
    ""x y"" ;} packet	chars
    { @calculatedFrom( ""\n"" )repeat f64 packetx  ,  @tag(4294967296 ) float32 Header
, zchar[
007
]float `// not a comment`
    ,
    }
options  {
stringy = zchar[ 7 ] ;}")).
Eval vm_compute in ("<<<M534>>>" ++ check (runes_of_ascii "root packet tag { }  packet MetaDataX{char[007	]
// c
/// triple
asx asx  @calculatedFrom( ""a\""b""
) `say ""hi""`// " ++ [27880; 37322]%N ++ runes_of_ascii "
,  @tag(4294967296 )
    char[1//x
] packetx @calculatedFrom(""a\""b""
    ) ,
// " ++ [128512]%N ++ runes_of_ascii " emoji
// a // b
@calculatedFrom(""" ++ [233]%N ++ runes_of_ascii "t" ++ [233]%N ++ runes_of_ascii """  ) repeat pack // " ++ [27880; 37322]%N ++ runes_of_ascii "
,
    } // c")).
Eval vm_compute in ("<<<M2054>>>" ++ check (runes_of_ascii "options {
    // " ++ [128512]%N ++ runes_of_ascii " emoji
    x = i8
    BodyLength = '\x00';
    options1 = zchar[42];
    msg_type = ""a	b""
    x_y_z = int64;
}//x

options {
    pack = ""a\\""
    matchKey = true
    Packet = ""abc""//	t
    falsey = '\x00';
}

root packet charz {
    body `doc`,
}// c")).
Eval vm_compute in ("<<<M530>>>" ++ check (runes_of_ascii "root packet tag { }  packet MetaDataX{char[007	asx
// c
/// triple
]  @calculatedFrom( ""a\""b""
) `say ""hi""`// " ++ [27880; 37322]%N ++ runes_of_ascii "
,  @tag(4294967296 )
    char[1//x
] packetx @calculatedFrom(""a\""b""
    ) ,
// " ++ [128512]%N ++ runes_of_ascii " emoji
// a // b
@calculatedFrom(""" ++ [233]%N ++ runes_of_ascii "t" ++ [233]%N ++ runes_of_ascii """  ) repeat pack // " ++ [27880; 37322]%N ++ runes_of_ascii "
,
    } // c")).
Eval vm_compute in ("<<<M583>>>" ++ check (runes_of_ascii "root packet tag { }  packet MetaDataX{char[007	]
// c
/// triple
asx  @calculatedFrom( ""a\""b""
) `say ""hi""`// " ++ [27880; 37322]%N ++ runes_of_ascii "
,  @tag(4294967296 )
    char[//x
] packetx @calculatedFrom(""a\""b""
    ) ,
// " ++ [128512]%N ++ runes_of_ascii " emoji
// a // b
@calculatedFrom(""" ++ [233]%N ++ runes_of_ascii "t" ++ [233]%N ++ runes_of_ascii """  ) repeat pack // " ++ [27880; 37322]%N ++ runes_of_ascii "
,
    } // c")).
Eval vm_compute in ("<<<M563>>>" ++ check (runes_of_ascii "root packet tag { }  packet MetaDataX{char[007	]
// c
/// triple
asx  @calculatedFrom( ""a\""b""
) `say ""hi""`// " ++ [27880; 37322]%N ++ runes_of_ascii "
,  4294967296 )
    char[1//x
] packetx @calculatedFrom(""a\""b""
    ) ,
// " ++ [128512]%N ++ runes_of_ascii " emoji
// a // b
@calculatedFrom(""" ++ [233]%N ++ runes_of_ascii "t" ++ [233]%N ++ runes_of_ascii """  ) repeat pack // " ++ [27880; 37322]%N ++ runes_of_ascii "
,
    } // c")).
Eval vm_compute in ("<<<M2017>>>" ++ check (runes_of_ascii "
packet
	Sub {  u8  a,

    @calculatedFrom(	""CRC16""
) u16 SubSum,  }
	root  packet  Frame{
u16 MsgType
	,	u16
    BodyLen
    @lengthOf( Body
)
    , 
Sub

Body ,
string
	note,@calculatedFrom(  ""CRC16"" ) 
u16
Checksum  ,u8

tail ,
    } ")).
Eval vm_compute in ("<<<M1540>>>" ++ check (runes_of_ascii "options {
    StringPrefixLenType = u16;
    FixedStringPadChar = ' ';
}
packet Party {
}
packet Quote {
    repeat Party,
    repeat char[2] f1,
}
packet Logon {
}
root packet Cancel {
    uint16 x,
    zchar[6] f1,
}
")).
Eval vm_compute in ("<<<M1852>>>" ++ check (runes_of_ascii "
MetaData msg_type
	{
Packet 
	    // @lengthOf(
    // trailing space 

int
,
	char[3
	]
Foo	`// not a comment` 

// `tick` ""quote"" 'q'

  , zchar[ 7

    ]uint8x  ,	leftPad
	crc `
`
    , }
")).
Eval vm_compute in ("<<<M1605>>>" ++ check (runes_of_ascii "MetaData 
msg_type {  }
	root packet	T {	@rightPad	( )repeat

char[  3

] x_y_z  ,
@lengthOf(

roots )
string
    i64_@lengthOf( u8x  // a // b
    )  `// not a comment`

    ,  }")).
Eval vm_compute in ("<<<M1302>>>" ++ check (runes_of_ascii "// top
MetaData // c0
body
    // c1
{
    // c2
i64
    // c3
pack `it's`
    // c5
, } packet stringy // c9
{ // c10
int16
    // c11
calculatedFrom ,
    // c13
} // c14
")).
Eval vm_compute in ("<<<M467>>>" ++ check (runes_of_ascii "packet
    // `|tick` ""quote"" 'q'
    crc
// packet A { u8 x, }
//	t
{
u32 a1 ,
    // trailing space 
    roots
charz //
`two words`,	}
    MetaData int {
} /// triple")).
Eval vm_compute in ("<<<M688>>>" ++ check (runes_of_ascii "root packet len // trailing space 
{
// " ++ [27880; 37322]%N ++ runes_of_ascii "
//	t
char[10
] metadata	@lengthOf( o ) `crlf
line`,
    @rightPad
( ' '
) string
    Header @calculatedFrom( ""a\\""
    )( }
")).
Eval vm_compute in ("<<<M249>>>" ++ check (runes_of_ascii "
root packet /// triple
Foo { int32 tag
    `doc` , char[0
    ]
    u8x`u8 x,`
, charz charz
    , @rightPad(' ')@tag( 3 ) @rightPad	('0' )
repeat
int16	float ,}
")).
Eval vm_compute in ("<<<M439>>>" ++ check (runes_of_ascii "packet
    // `tick` ""quote"" 'q'
    crc
// packet A { u8 x, }
//	t
{
u32 a1 ,
    // trailing space 
    roots
charz //
`two words`,	}
     int {
} /// triple")).
Eval vm_compute in ("<<<M1847>>>" ++ check (runes_of_ascii "
root  packet matchKey

{ zchar[ 3
	] pack
	@calculatedFrom(
    ""a	b"")

`doc`

    // c

, }
options 
{

    } 
MetaData A  {
int8 msg_type , 
}
")).
Eval vm_compute in ("<<<M1831>>>" ++ check (runes_of_ascii "
packet	B  {

u8 
a ,  } root
packet P

{ u8
    K
    , u8
L
    @lengthOf(

    Body	)
,

    match

K
as
Body	{ 1
: 
B

,
	}
,  } ")).
Eval vm_compute in ("<<<M2027>>>" ++ check (runes_of_ascii "packet Foo {
}

packet MetaDataX {
    char[] Logon,
}

root packet MetaDataX {
    match Z9_ as zchar {
        7 : zchar,
    },
}")).
Eval vm_compute in ("<<<M1904>>>" ++ check (runes_of_ascii "packet Logon {
    stringy crc `crlf
    line`,
    T @calculatedFrom(""a\""b"") `u8 x,`,
}

options {
    leftPad = '\x00'
}")).
Eval vm_compute in ("<<<M1245>>>" ++ check (runes_of_ascii "root packet matchKey { zchar[ 3 ] pack @calculatedFrom( ""a	b"" ) `doc` // c
, } options { } MetaData A { int8 msg_type , }")).
Eval vm_compute in ("<<<M1882>>>" ++ check (runes_of_ascii "packet A {
    Inner {
        u8 x `x
        `,
        Deep {
            u8 y `x
            `,
        },
    },
}")).
Eval vm_compute in ("<<<M1832>>>" ++ check (runes_of_ascii "packet
A  {

match  k

    as
    n

{ [ ""a""
	,	""bb""
    , 007
, ""d""	, ""e"",  66 
] :
    B	,
2

    :
C
}, }")).
Eval vm_compute in ("<<<M47>>>" ++ check (runes_of_ascii "options
{ options1= uint64 ;	}
root packet /// triple
T {MetaDataX//x
`// not a comment` , } packet crc {}
")).
Eval vm_compute in ("<<<M1684>>>" ++ check (runes_of_ascii "  MetaData float {  float64 charz  `
`

,	} root packet
	chars  {  @rightPad (
    '0') Foo
,
}

// c
")).
Eval vm_compute in ("<<<M884>>>" ++ check (runes_of_ascii "packet A {
  match k as n {
    [""a"", ""bb"", 007, ""d"", ""e"", 66, ""g"", ""h"", 9, ""j""] : B
    2 : C
  },
}")).
Eval vm_compute in ("<<<M899>>>" ++ check (runes_of_ascii "packet A {
  match k as n {
    [1, 22, 007, 4, 5, 66, 7, 8, 9, 10, 11, 12] : B,
    2 : C
  },
}")).
Eval vm_compute in ("<<<M882>>>" ++ check (runes_of_ascii "packet A {
  match k as n {
    [1, 22, ""c c"", 4, 5, ""f"", 7, 8, ""i"", 10] : B
    2 : C
  },
}")).
Eval vm_compute in ("<<<M2060>>>" ++ check (runes_of_ascii "packet x_y_z {
    @tag(00)
    @tag(7)
    @leftPad()
    int16 _x @lengthOf(u) `it's`,
}")).
Eval vm_compute in ("<<<M1204>>>" ++ check (runes_of_ascii "MetaData float { float64 charz `
` , } root packet chars { @rightPad // c
( '0' ) Foo , }")).
Eval vm_compute in ("<<<M1415>>>" ++ check (runes_of_ascii "packet chars { } packet MetaDataX { @tag( 42 )
// c
i16 string_ , repeat x `say ""hi""` , }")).
Eval vm_compute in ("<<<M1158>>>" ++ check (runes_of_ascii "packet metadata { Logon { A `" ++ [28040; 24687; 31867; 22411]%N ++ runes_of_ascii "` , tag o , } , zchar len `// not a comment` , } // c
")).
Eval vm_compute in ("<<<M1145>>>" ++ check (runes_of_ascii "packet metadata { Logon { A `" ++ [28040; 24687; 31867; 22411]%N ++ runes_of_ascii "` , tag o ,
// c
} , zchar len `// not a comment` , }")).
Eval vm_compute in ("<<<M1350>>>" ++ check (runes_of_ascii "packet o { repeat Logon uint8x // c
, } options { asx = zchar[ 3 ] stringy = '\x00' }")).
Eval vm_compute in ("<<<M838>>>" ++ check (runes_of_ascii "packet A {
  match k as n {
    [1, ""bb"", 007, ""d"", 5, ""f"", 7] : B,
    2 : C
  },
}")).
Eval vm_compute in ("<<<M1311>>>" ++ check (runes_of_ascii "MetaData body { i64 // c
pack `it's` , } packet stringy { int16 calculatedFrom , }")).
Eval vm_compute in ("<<<M1585>>>" ++ check (runes_of_ascii "packet A {
    match k as n {
        [1, 22, ""c c""] : B,
        2 : C,
    },
}")).
Eval vm_compute in ("<<<M413>>>" ++ check (runes_of_ascii "packet
    // `tick` ""quote"" 'q'
    crc
// packet A { u8 x, }
//	t
{
u32 a1")).
Eval vm_compute in ("<<<M355>>>" ++ check (runes_of_ascii "options { leftPad= int32 // packet A { u8 x, }
}
// packet A { u8 x, }
")).
Eval vm_compute in ("<<<M1888>>>" ++ check (runes_of_ascii "  root
packet P
{ repeat

string
    ss, repeat	u16

    ns

,	}
")).
Eval vm_compute in ("<<<M2080>>>" ++ check (runes_of_ascii "MetaData M {
    u8 x `a
    
    b`,
    T t `a
    
    b`,
}")).
Eval vm_compute in ("<<<M742>>>" ++ check (runes_of_ascii "char i8 false int8 match @rightPad uint32 int64 '0' zchar[")).
Eval vm_compute in ("<<<M794>>>" ++ check (runes_of_ascii "packet A { Inner { match k as n { [1,22,007] : B, }, }, }")).
Eval vm_compute in ("<<<M1818>>>" ++ check (runes_of_ascii "options {
    a = ""x\
    y"";
    b = ""x\
    y""
}")).
Eval vm_compute in ("<<<M2076>>>" ++ check (runes_of_ascii "packet A {
    u8 x `a
        
        b`,
}")).
Eval vm_compute in ("<<<M1098>>>" ++ check (runes_of_ascii "// c
root packet u128 { chars `it's` , }")).
Eval vm_compute in ("<<<M1070>>>" ++ check (runes_of_ascii "MetaData M {
}// c
MetaData N {
}// d")).
Eval vm_compute in ("<<<M754>>>" ++ check (runes_of_ascii "string } zchar[ options uint64 ,")).
Eval vm_compute in ("<<<M1028>>>" ++ check (runes_of_ascii "packet A {
 u8 x `d" ++ [11]%N ++ runes_of_ascii "`, // c" ++ [11]%N ++ runes_of_ascii "
}")).
Eval vm_compute in ("<<<M732>>>" ++ check ([65533; 65533]%N ++ runes_of_ascii "s" ++ [65533]%N ++ runes_of_ascii "a3" ++ [65533]%N ++ runes_of_ascii "" ++ [65533]%N ++ runes_of_ascii "J" ++ [65533; 1152; 65533]%N ++ runes_of_ascii "1" ++ [12]%N ++ runes_of_ascii "y_" ++ [65533; 65533; 65533; 65533; 65533]%N ++ runes_of_ascii "6" ++ [65533; 65533; 20]%N)).
Eval vm_compute in ("<<<M214>>>" ++ check (runes_of_ascii "  root packet charz{}")).
Eval vm_compute in ("<<<M972>>>" ++ check (runes_of_ascii "// c 
packet A {
}")).
Eval vm_compute in ("<<<M1054>>>" ++ check (runes_of_ascii "packet A {
}// c x")).
Eval vm_compute in ("<<<M1066>>>" ++ check (runes_of_ascii "packet A {
}


")).
Eval vm_compute in ("<<<M1035>>>" ++ check (runes_of_ascii "// c 	")).
Eval vm_compute in ("<<<M724>>>" ++ check (runes_of_ascii "		")).
