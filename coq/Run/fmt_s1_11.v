From FP Require Import Lexer Parser ShowPT Digest Formatter.
From Coq Require Import String List NArith.
Import ListNotations.
Open Scope string_scope.
Set Printing Width 100000000.
Set Printing Depth 100000000.
Definition show_fres (r : fres) : string :=
  match r with
  | FOk s => "OK:" ++ sh_escaped s ""
  | FErr s => "ERR:" ++ sh_escaped s ""
  | FPanic p => "PANIC:" ++ p
  end.
Definition check (rs : list rune) : string := digest (show_fres (format_res rs)).
Definition full (rs : list rune) : string := show_fres (format_res rs).
Eval vm_compute in ("<<<M3640>>>" ++ check (runes_of_ascii "// top
options // c0
{ StringPrefixLenType
    // c2
=
    // c3
u64 // c4a
  // c4b
; // c5
ArrayPrefixLenType = // c7
u16 // c8
; // c9a
  // c9b
FixedStringPadChar = // c11
' ' // c12
;
    // c13
}
    // c14
packet // c15a
  // c15b
Logon // c16a
  // c16b
{ // c17a
  // c17b
i32
    // c18
msgKind , repeat InOrderid65 { // c23a
  // c23b
u8
    // c24
pad0 // c25a
  // c25b
, // c26
} , // c28a
  // c28b
i8
    // c29
tag7 ,
    // c31
@leftPad
    // c32
( ' ' // c34a
  // c34b
)
    // c35
char[ // c36a
  // c36b
12
    // c37
]
    // c38
x // c39a
  // c39b
, }
    // c41
packet // c42a
  // c42b
Leg { // c44a
  // c44b
char[] // c45
f1 // c46
, // c47a
  // c47b
repeat
    // c48
char[ // c49
5 // c50
]
    // c51
Px // c52a
  // c52b
, // c53
InQty34 // c54
{ repeat char[
    // c57
6 // c58a
  // c58b
] // c59a
  // c59b
Qty // c60
, char[ // c62
7 // c63
] // c64
seqNo // c65
, string
    // c67
count
    // c68
, } // c70a
  // c70b
, Logon , // c73a
  // c73b
} // c74a
  // c74b
packet // c75
Party { @leftPad // c78
( // c79
'0'
    // c80
) char[
    // c82
10 // c83
] OrderId , // c86
string Tail // c88
, // c89a
  // c89b
} packet Fill // c92a
  // c92b
{
    // c93
zchar[ // c94a
  // c94b
5 // c95
] // c96a
  // c96b
venue // c97
, zchar[
    // c99
3 // c100
] // c101
clOrdID
    // c102
, // c103a
  // c103b
InRef95 // c104
{
    // c105
InLastpx25
    // c106
{ // c107
u8 pad0 , // c110
} // c111
, // c112
float64 // c113a
  // c113b
OrderId // c114a
  // c114b
,
    // c115
i32 // c116a
  // c116b
f1 , // c118
float32
    // c119
x // c120
, // c121a
  // c121b
char[]
    // c122
seqNo // c123
, }
    // c125
,
    // c126
repeat // c127a
  // c127b
string // c128
seqNo // c129
, // c130
} root // c132a
  // c132b
packet // c133
Heartbeat // c134
{ repeat Leg ,
    // c138
u32 seqNo // c140a
  // c140b
, // c141
u16 // c142
tag7 // c143
, // c144
u32 // c145a
  // c145b
Flags // c146
@lengthOf( // c147a
  // c147b
Body // c148
) // c149
, // c150a
  // c150b
match tag7 as // c153a
  // c153b
Body
    // c154
{ // c155
[
    // c156
195
    // c157
, 75 // c159a
  // c159b
]
    // c160
: Party
    // c162
, // c163a
  // c163b
171 // c164a
  // c164b
: // c165
Fill // c166a
  // c166b
, // c167
78 // c168
: // c169
Logon , // c171a
  // c171b
142 : // c173a
  // c173b
Leg
    // c174
, } // c176
,
    // c177
u32 // c178
Note @calculatedFrom( // c180
""CRC32"" // c181
) // c182a
  // c182b
, // c183
}
    // c184
")).
Eval vm_compute in ("<<<M184>>>" ++ check (runes_of_ascii "MetaData float {
    lengthOf u128 `tab	here` ,u x ,
metadata crc `line1
line2` ,
} root
packet//
trueish { @leftPad (
'0'
    ) repeat zchar[ 10 ] lengthOf `u8 x,`
    ,@leftPad
// " ++ [27880; 37322]%N ++ runes_of_ascii "
// trailing space 
('\x00'	) zchar[ 255 ] tag
// a // b
// @lengthOf(
,
@leftPad	(
    ) u128 trueish, chars@lengthOf(
    i64_
) `it's` //	t
,
    @tag( 10 ) zchar[
    007 ] asx, char[
1]
    zchar,
// `tick` ""quote"" 'q'
// trailing space 
@tag( 7
    // packet A { u8 x, }
    ) @calculatedFrom(""packet""
    )	match  f32a as
uint8x{
00  :Header , 007// trailing space 
: charz ,[ 255 , """ ++ [233]%N ++ runes_of_ascii "t" ++ [233]%N ++ runes_of_ascii """ ] :
rootA
    // `tick` ""quote"" 'q'
    ""it's"" :
    lengthOf
,""x y"" :
pack //x
,
""" ++ [28040; 24687]%N ++ runes_of_ascii """
: _x , } , repeat Header { char[ 7] i8i8 ,char  msg_type @lengthOf(pack ) `line1
line2`
,
// packet A { u8 x, }
// a // b
uint8
crc @lengthOf(
zchar ) `line1
line2` ,} , } packet Foo
    { } packet// @lengthOf(
Foo { zchar[0123456789
    ]
    packetx
    @calculatedFrom(
""packet"" // packet A { u8 x, }
)
    `doc`  , zchar @calculatedFrom( ""\n""//	t
)
`
` , @leftPad  ( '\x00' )
    @tag( // trailing space 
65535 ) char[ 0
/// triple
// c
] metadata@calculatedFrom( ""a\""b"" ), repeat
    lengthOf{ lengthOf
`" ++ [233]%N ++ runes_of_ascii "`
    // `tick` ""quote"" 'q'
    ,
} , As , }
packet BodyLength {//x
@calculatedFrom( ""a\""b""
)
    @lengthOf( x ) @tag( 00
) Packet zchar
    `` ,
@tag(0123456789 )	repeat	char[ 255 ]  x `it's`,// a // b
u
// " ++ [128512]%N ++ runes_of_ascii " emoji
// c
{ match BodyLength
as
// packet A { u8 x, }
// `tick` ""quote"" 'q'
tag
    {3
: matchKey ,} ,
} ,@tag( 0123456789 )
    // " ++ [128512]%N ++ runes_of_ascii " emoji
    char	asx `line1
line2`,@lengthOf( chars ) @calculatedFrom(
""a	b"" )f64 len
    , match int as //x
BodyLength { 1
:
    Header ,[ 0 ] :// c
tag
""" ++ [28040; 24687]%N ++ runes_of_ascii """ :asx, } , @leftPad
( ' '
    ) metadata `crlf
line` ,
// `tick` ""quote"" 'q'
// trailing space 
len
@lengthOf( metadata
    ), zchar[  65535 ]
    A
@lengthOf( // c
trueish )
,@leftPad ( '0'
)
repeatCount Z9_
    `" ++ [233]%N ++ runes_of_ascii "`  ,
} 	 ")).
Eval vm_compute in ("<<<M1100>>>" ++ check (runes_of_ascii "options
{} packet
    // packet A { u8 x, }
    packetx {
crc charz
``
    ,leftPad ,
@tag(3 ) repeat
uint64  u128 `doc` ,
@tag(
    007 )
// c
// `tick` ""quote"" 'q'
Pad roots /// triple
,
    @calculatedFrom(// `tick` ""quote"" 'q'
""CRC32"" ) u8x metadata , @tag( 1 ) zchar[0123456789 ]  i8i8  `a\` , match a1
as
As { ""a	b""
:roots, [
    ""\" ++ [233]%N ++ runes_of_ascii """ , ""abc"" //
] :string_ , }  ,
repeat Header { match
// " ++ [128512]%N ++ runes_of_ascii " emoji
// c
f32a as
    _x { 4294967296 :
    // @lengthOf(
    repeatCount , 7
//	t
// @lengthOf(
:
    //x
    u8x
    , 7 : As ,}// " ++ [128512]%N ++ runes_of_ascii " emoji
, i64
repeatCount @lengthOf( a1 ) ,}
    ,
// " ++ [128512]%N ++ runes_of_ascii " emoji
// " ++ [27880; 37322]%N ++ runes_of_ascii "
} packet
pack
{zchar[ // a // b
0 ] stringy, } /// triple
root
packet
As {
    // @lengthOf(
    match // `tick` ""quote"" 'q'
u8x as packetx //	t
{
    7 : uint8x
65535 :int
1: T  ,
    ""{,}""
    :
Foo
    ,  0123456789
// " ++ [128512]%N ++ runes_of_ascii " emoji
// @lengthOf(
: Logon
    , [ 65535
// " ++ [27880; 37322]%N ++ runes_of_ascii "
// `tick` ""quote"" 'q'
] : len , }
    ,repeat
    lengthOf  metadata,@calculatedFrom(""" ++ [233]%N ++ runes_of_ascii "t" ++ [233]%N ++ runes_of_ascii """ ) repeat zchar[65535 ] As
`doc` , char[// trailing space 
7 ] float // @lengthOf(
@calculatedFrom(
    //
    """" )
    , float32 a1`it's`, @tag(
3	) char[]
BodyLength// @lengthOf(
`line1
line2` , match int as asx{[""" ++ [28040; 24687]%N ++ runes_of_ascii """
, 0 ] :
x_y_z , 1 :	Packet , ""{,}""  : falsey,255
    : charz , [
    ""{,}"" , 0123456789
] : uint8x , } ,
crc @calculatedFrom(
    ""\" ++ [233]%N ++ runes_of_ascii """
    // " ++ [128512]%N ++ runes_of_ascii " emoji
    )`crlf
line`
    ,	match packetx
as Pad { ""packet""://
BodyLength,} , @lengthOf( BodyLength) @tag(
// packet A { u8 x, }
//x
00
)@lengthOf( As)match charz  as len {[//x
""x y""]:_x //x
""it's"": i64_ , 0123456789: metadata
// packet A { u8 x, }
//x
""" ++ [128512]%N ++ runes_of_ascii """ : trueish, 1: Logon
, }
    , } //	t")).
Eval vm_compute in ("<<<M159>>>" ++ check (runes_of_ascii "MetaData MetaDataX
    { i8i8 roots
,	zchar[	65535
    ]rootA
`// not a comment`, // a // b
x_y_z  leftPad
    //x
    `u8 x,`, char[] stringy
// c
//x
`it's` ,
} // packet A { u8 x, }
packet
    Foo {
string	lengthOf , i32 packetx@lengthOf( asx ) `{ , }`
    ,
repeat falsey`two words`, char[] roots@calculatedFrom(""" ++ [28040; 24687]%N ++ runes_of_ascii """ // " ++ [128512]%N ++ runes_of_ascii " emoji
), //
leftPad// @lengthOf(
@calculatedFrom( """ ++ [28040; 24687]%N ++ runes_of_ascii """ )`" ++ [233]%N ++ runes_of_ascii "` ,
    @tag( 42
)
zchar[
65535 ]
    As @lengthOf( a1
)
`doc`
, } root packet charz{
    @tag(
    4294967296
) string options1
    `tab	here`
    // @lengthOf(
    , }packet leftPad	{ } packet metadata { //	t
i32	BodyLength
    @calculatedFrom(
    ""it's"" ) `say ""hi""`,
@rightPad //
(	)
    // " ++ [128512]%N ++ runes_of_ascii " emoji
    chars//x
{
repeat
    falsey	{ uint64 tag @lengthOf(
len )
, char[ 42]packetx @calculatedFrom(
//x
// a // b
""abc"" )
, } , Header { zchar[ 00 //x
] charz
@calculatedFrom( ""x y"" ) // trailing space 
, uint8 calculatedFrom @calculatedFrom( ""\n"" // c
) , trueish `" ++ [28040; 24687; 31867; 22411]%N ++ runes_of_ascii "` , string_ // @lengthOf(
@calculatedFrom( ""// no comment"" ) // c
`it's` ,} , string crc ,
}  , // " ++ [128512]%N ++ runes_of_ascii " emoji
@calculatedFrom( ""1"" )
    @calculatedFrom(	""" ++ [28040; 24687]%N ++ runes_of_ascii """
    // " ++ [27880; 37322]%N ++ runes_of_ascii "
    ) @tag(7
// trailing space 
//
) i8
Foo
// @lengthOf(
// a // b
, i8 a1
//
//x
@calculatedFrom( ""{,}"" ) ``
, repeat falsey	{
o // c
@calculatedFrom( ""abc"" ) `
`  , zchar[42 ] matchKey , }	, i64 As ,
//	t
// `tick` ""quote"" 'q'
repeat As  , repeat
    int64 string_
, }
//	t
")).
Eval vm_compute in ("<<<M567>>>" ++ check (runes_of_ascii "options {
}
MetaData	x_y_z{
    string_ packetx ,  metadata// packet A { u8 x, }
o ,	char[
3 ]charz
// a // b
//x
, zchar
charz,}
MetaData
    /// triple
    T{ zchar[
3 ] len ,u x_y_z	, u64 A ,
} packet
zchar  { @tag(
    4294967296 ) @calculatedFrom( """ ++ [233]%N ++ runes_of_ascii "t" ++ [233]%N ++ runes_of_ascii """ ) @calculatedFrom( ""abc""
) match tag as  tag
    {
    """"
    :
    stringy ,
""" ++ [28040; 24687]%N ++ runes_of_ascii """:
    // trailing space 
    f32a ,4294967296 :
    matchKey ,	0
: msg_type // " ++ [27880; 37322]%N ++ runes_of_ascii "
,7 :
    //	t
    Logon
, 7
//
// @lengthOf(
:
trueish
,}
    , roots@calculatedFrom( // @lengthOf(
""" ++ [233]%N ++ runes_of_ascii "t" ++ [233]%N ++ runes_of_ascii """), BodyLength `" ++ [233]%N ++ runes_of_ascii "` , repeat  int zchar //
`
` , @leftPad () body @calculatedFrom(
    // packet A { u8 x, }
    """ ++ [233]%N ++ runes_of_ascii "t" ++ [233]%N ++ runes_of_ascii """	),}
    packet // a // b
Packet { @lengthOf(
    uint8x
    )
    // @lengthOf(
    i64_
    { u128	{
    stringy , }
,  }, T MetaDataX
`u8 x,`
    , @calculatedFrom("""" ) @lengthOf( // @lengthOf(
x_y_z )
    @calculatedFrom( ""1"" ) uint32 charz@calculatedFrom(""`tick`""	) `" ++ [233]%N ++ runes_of_ascii "`
,
    // @lengthOf(
    string
    u8x	@calculatedFrom( ""\" ++ [233]%N ++ runes_of_ascii """ ) `line1
line2` //
,@leftPad (
    )
string tag @lengthOf(
f32a ) `" ++ [233]%N ++ runes_of_ascii "`,@rightPad ( ) @tag(7)  @lengthOf(
    rootA
)
    // " ++ [128512]%N ++ runes_of_ascii " emoji
    repeat T matchKey , @lengthOf( metadata) zchar[
    10 ] _x @lengthOf( a1 // a // b
) , @leftPad(
) f32a o `{ , }`
    ,
}
// packet A { u8 x, }
")).
Eval vm_compute in ("<<<M4267>>>" ++ check (runes_of_ascii "

  // @lengthOf(
	packet

BodyLength {char	T

    ,

    } root
	packet	A  {  repeat  len
`say ""hi""` ,
repeat	Pad {
repeat
char[] 	 // " ++ [128512]%N ++ runes_of_ascii " emoji
    stringy , repeat

rootA
	{ 
uint64
	Foo	@lengthOf( // `tick` ""quote"" 'q'
      options1
    )  // @lengthOf(
    `it's`, 
    //x
	  /// triple

zchar {  zchar[
	42 ]Z9_

,  repeat o
	i8i8

    , uint8 
x `it's`
, rootA
	Foo

`{ , }`
,},
}  , metadata
@calculatedFrom( ""a	b""
    )
    ,
}
, @tag(
	1	) string
	// c
  u 
`doc`

    //	t
  , u
@calculatedFrom(
    ""it's""
)	``

    ,
	char[
	7 ]

    packetx	@lengthOf(
A
)

    `{ , }`
	, 
string
_x`
`

,
	float32

_x, repeat
char[

42] rootA	`doc`

    , }  MetaData
	matchKey { zchar[ 0123456789

] falsey

``,

    } packet Logon	{
    @lengthOf(	zchar
)
match

    leftPad
	as	falsey
{
    3 :

Packet	,007: 	 // `tick` ""quote"" 'q'

	zchar
1 
:	// @lengthOf(
    	float	,

    ""it's"" : body ""CRC32"" 
    // " ++ [128512]%N ++ runes_of_ascii " emoji
      :body  } ,
@calculatedFrom(

""{,}""
) zchar[ 1

]
	i8i8 
@lengthOf(
uint8x	)

    ,
    zchar[ 00

]
    // `tick` ""quote"" 'q'
	a1 ,uint64
    u
,string Packet

    @calculatedFrom( 
""packet""

) ,
	} ")).
Eval vm_compute in ("<<<M598>>>" ++ check (runes_of_ascii "
packet o
    // packet A { u8 x, }
    { @tag(
42 )	@tag( 7) @rightPad ( ' ' ) match i8i8 as rootA {// trailing space 
[	""1""
,
1]:  crc , }
    ,
    i16
    u8x/// triple
@calculatedFrom(
""\" ++ [233]%N ++ runes_of_ascii """ ), pack @calculatedFrom(
""a	b"" ),repeat f32
calculatedFrom ,zchar[ 00 ]  calculatedFrom , u8
trueish`doc`, zchar[ 0123456789] int @calculatedFrom( ""packet"" )//x
, } options { packetx =//
""CRC32"" ;  } root packet matchKey {match Header as T {[ ""abc""
,
    """ ++ [233]%N ++ runes_of_ascii "t" ++ [233]%N ++ runes_of_ascii """]  : f32a 00	:calculatedFrom,00
: _x } ,
    char[]
pack`{ , }` ,
    u32
BodyLength
    ,	@leftPad
( )
    @lengthOf(
o )
    @lengthOf( MetaDataX ) rootA
    { match int
as Logon
    { [ 3
]:
    f32a  ,} , zchar //x
@lengthOf( a1
)
, }
,// packet A { u8 x, }
@calculatedFrom( ""{,}"" // " ++ [128512]%N ++ runes_of_ascii " emoji
)
    repeat BodyLength
    { match Pad
// @lengthOf(
//x
as charz {
""x y"" :lengthOf  ,
},repeat Foo
{zchar[0
    ] Header `" ++ [28040; 24687; 31867; 22411]%N ++ runes_of_ascii "` , } , char[ 7// " ++ [128512]%N ++ runes_of_ascii " emoji
] packetx `// not a comment` , a1 @calculatedFrom(
    ""1"" ) ,}
,
    @leftPad()
zchar[ // c
65535 ] u128 `say ""hi""` , } root// " ++ [128512]%N ++ runes_of_ascii " emoji
packet int {	@leftPad (	'0' ) repeat char Packet
, } 	 ")).
Eval vm_compute in ("<<<M618>>>" ++ check (runes_of_ascii "
options { i64_ = int16; } packet
    // @lengthOf(
    crc
{ @tag(
0123456789)
    // a // b
    repeat
crc
{ char[ 1]	As @lengthOf(//
repeatCount) ,}, } root packet
falsey
{ repeat
repeatCount	{repeat Header {
calculatedFrom float `u8 x,` , } //
,
string u8x @lengthOf( zchar)
,	char[ 255]
    Foo , // " ++ [27880; 37322]%N ++ runes_of_ascii "
} // `tick` ""quote"" 'q'
,	@lengthOf( Z9_ ) packetx , /// triple
repeat
    // " ++ [128512]%N ++ runes_of_ascii " emoji
    string
BodyLength
    , @rightPad ( ' '
)
crc @calculatedFrom( // c
""\n"") , repeat options1
{ match Z9_
as A { 0 :
    matchKey ,	[ 00,
    10 ,
    0,
    """ ++ [233]%N ++ runes_of_ascii "t" ++ [233]%N ++ runes_of_ascii """ ]
    : zchar ,	""1"" : trueish ,""abc"" :
metadata ,
    255
    : matchKey
    ,
    },packetx @calculatedFrom( ""a\""b"" ) `
` , // packet A { u8 x, }
} , @tag(
    0
    )i32 A	, @calculatedFrom(  ""{,}"" ) @tag(
    3
    )
    As ,
    repeat f64 zchar`// not a comment`// a // b
,
}  packet rootA  {  @leftPad
(	'0')
trueish stringy`{ , }` , @calculatedFrom( ""{,}"" ) @tag( 3 )  u64	Pad@calculatedFrom( ""a	b"" ),uint16 _x @lengthOf(int) ``
,
    }MetaData
    int{ }
")).
Eval vm_compute in ("<<<M4217>>>" ++ check (runes_of_ascii "options {
    StringPrefixLenType = u64;
    ArrayPrefixLenType = u16;
    FixedStringPadChar = ' ';
}

packet Logon {
    i32 msgKind,
    repeat InOrderid65 {
        u8 pad0,
    },
    i8 tag7,
    @leftPad(' ')
    char[12] x,
}

packet Leg {
    char[] f1,
    repeat char[5] Px,
    InQty34 {
        repeat char[6] Qty,
        char[7] seqNo,
        string count,
    },
    Logon,
}

packet Party {
    @leftPad('0')
    char[10] OrderId,
    string Tail,
}

packet Fill {
    zchar[5] venue,
    zchar[3] clOrdID,
    InRef95 {
        InLastpx25 {
            u8 pad0,
        },
        float64 OrderId,
        i32 f1,
        float32 x,
        char[] seqNo,
    },
    repeat string seqNo,
}

root packet Heartbeat {
    repeat Leg,
    u32 seqNo,
    u16 tag7,
    u32 Flags @lengthOf(Body),
    match tag7 as Body {
        [195, 75] : Party,
        171 : Fill,
        78 : Logon,
        142 : Leg,
    },
    u32 Note @calculatedFrom(""CR\
    C32""),
}")).
Eval vm_compute in ("<<<M407>>>" ++ check (runes_of_ascii "// a // b
packet// a // b
o
{ body
// trailing space 
// `tick` ""quote"" 'q'
{ repeat string Z9_ ,
    match roots as A
{ [""" ++ [28040; 24687]%N ++ runes_of_ascii """,0
,00
    ,
0 ,	00 ,
65535 ]
:
// c
//x
T } , }
    , @calculatedFrom( ""\" ++ [233]%N ++ runes_of_ascii """  ) repeat asx{uint8  x_y_z
,
}
,  f64  Header
`line1
line2` ,}options {
    f32a	=
    // c
    7  ; packetx = 0123456789 u8x = """"
    ;
    } // a // b
root packet stringy { Foo @calculatedFrom(  ""abc""
    )
    `
`, @lengthOf( pack) repeat
    u8x{ f32
    zchar ,
    //x
    uint32 Z9_`tab	here`	,	leftPad {
msg_type @lengthOf(BodyLength )
,
repeat int8 T, string_ uint8x, match trueish as A{
[
""a	b"" ,
""a\\""
] : // packet A { u8 x, }
trueish
, [ ""a\\"",42,
""it's""
    ,
00, """ ++ [128512]%N ++ runes_of_ascii """] :  msg_type , ""a\\""
    : Z9_
/// triple
/// triple
, ""it's"" : // `tick` ""quote"" 'q'
T , ""\" ++ [233]%N ++ runes_of_ascii """ : As [4294967296, ""x y""
, 3 //
, ""abc"", // packet A { u8 x, }
""1""
, """ ++ [233]%N ++ runes_of_ascii "t" ++ [233]%N ++ runes_of_ascii """
    , 42	, ""\n""
    ]
: matchKey
,
}, }
, }
, }
")).
Eval vm_compute in ("<<<M3651>>>" ++ check (runes_of_ascii "options

{
	LittleEndian=
false 
;	FixedStringPadFromLeft

=  false
;
FixedStringPadChar 
= ' '
	;
    }
    packet 
Fill

    {
uint16	Qty ,uint64 clOrdID
,repeat
i64
Flags

    ,
}
packet	Ack {
	zchar[
7

]clOrdID,

    u64

    lastPx ,
    char[]	Note
, repeat Fill,
int32 count
, } packet

Quote{

    u8

venue

,
    InRef40{
char[] Qty

,

},zchar[  5 ] 
Flags
	, @rightPad  (	'\x00'  ) 
char[12  ] msgKind
,
}  packet Logout {InSym79 {
int32 Qty	,

    Fill

, char[ 3
	]  x 
,repeat
InNote29 
{i16 price

, 
Ack 
,	f64
	x
,
zchar[ 8 ]	count

    ,
}

    ,	}
,
} root
packet
    Logon
{ 
zchar[
1
] sym
	,	u32
count

    ,
	u16 tag7 
@lengthOf(
    Body
)
,
match count

    as
Body
{
    [
    122 ,152]
    :  Ack	,118

: Logout

,
    61
	:
Quote
	,  161

    : Fill , }

,u32

Acct@calculatedFrom(
    ""CRC32""

)  ,

} ")).
Eval vm_compute in ("<<<M795>>>" ++ check (runes_of_ascii "packet
    roots { @calculatedFrom(
    ""1"")
repeat char f32a , zchar[
// " ++ [128512]%N ++ runes_of_ascii " emoji
// `tick` ""quote"" 'q'
42
/// triple
// " ++ [128512]%N ++ runes_of_ascii " emoji
] options1
`
` ,
/// triple
// " ++ [27880; 37322]%N ++ runes_of_ascii "
@calculatedFrom( """ ++ [233]%N ++ runes_of_ascii "t" ++ [233]%N ++ runes_of_ascii """ ) float64 uint8x `say ""hi""`  , packetx
    //	t
    @lengthOf( BodyLength	)  `a\`  ,	@calculatedFrom( ""\" ++ [233]%N ++ runes_of_ascii """ ) chars u8x	`{ , }`
, match _x as len {
    42 : crc, 4294967296 // packet A { u8 x, }
: uint8x ,  10 : BodyLength,
    } //
,@tag(0 )
    // @lengthOf(
    char[ 7] // trailing space 
metadata,
    /// triple
    @tag( 4294967296
)
    match BodyLength
as  chars { ""`tick`"":
x_y_z
    , 42
    //x
    : x_y_z ,0123456789: x },
char[
7 ] rootA`" ++ [28040; 24687; 31867; 22411]%N ++ runes_of_ascii "` ,}
    packet string_ { @calculatedFrom(
    """ ++ [128512]%N ++ runes_of_ascii """)@lengthOf( f32a
    // packet A { u8 x, }
    ) @lengthOf( Pad ) repeat
    //	t
    pack i64_
`line1
line2`,	}
")).
Eval vm_compute in ("<<<M4384>>>" ++ check (runes_of_ascii "packet x {
    u16 msg_type @lengthOf(BodyLength),// trailing space 
    @calculatedFrom(""" ++ [28040; 24687]%N ++ runes_of_ascii """)
    repeat Header {
        char[0123456789] repeatCount,
        zchar[7] i64_ @calculatedFrom(""" ++ [28040; 24687]%N ++ runes_of_ascii """),
        repeat T zchar `tab	here`,
    },
    uint8 body `doc`,
    repeat char[] i8i8,
    uint32 f32a @calculatedFrom(""`tick`""),
    @rightPad(' ')
    match rootA as matchKey {
        42 : lengthOf,
        // `tick` ""quote"" 'q'
        ""// no comment"" : Z9_,
        [""a\\"", 1] : len,
        10 : trueish,
    },
    f64 Logon @lengthOf(T) `crlf
    line`,
    match float as i8i8 {
        ""\n"" : i64_,
    },
    @lengthOf(u8x)
    // trailing space 
    @leftPad('\x00')
    char[007] body `it's`,
    @leftPad('0')
    string crc @calculatedFrom(""a\\"") `" ++ [28040; 24687; 31867; 22411]%N ++ runes_of_ascii "`,
}")).
Eval vm_compute in ("<<<M4319>>>" ++ check (runes_of_ascii "
MetaData	As
	{ }packet
float	{	// @lengthOf(
    options1

Pad  `// not a comment` ,
uint16 
As
`line1
line2`

,
	float32
    stringy 
@calculatedFrom(
	""`tick`""
)
`" ++ [233]%N ++ runes_of_ascii "`

    ,

    repeat 
Packet { zchar[  3
    ]
	T 
@calculatedFrom( ""x y""

    )
	,char[  7 
]
asx
@lengthOf(tag 
)
, 

    //
  int64
    charz  `u8 x,` ,} ,

    uint32

len	,
	@tag(
	0123456789
    ) Foo

    packetx
    `// not a comment` 
,char[]  trueish@lengthOf(rootA
) ,	@leftPad  (	//
	'0' ) 
repeat
    x_y_z `{ , }`  , i64 u128

    ,}
packet

msg_type 	 //x

	{char[]

i8i8	`doc`  //	t
	, string 
trueish

@calculatedFrom( 
""""
    )
, 
char[ 7

    ]	/// triple
		string_ 	 // packet A { u8 x, }
    `say ""hi""` 
/// triple
//

,  } ")).
Eval vm_compute in ("<<<M3711>>>" ++ check (runes_of_ascii "
root 
packet	o
    {  a1 a1	, 
char[ 3
    ]	i8i8
    `
`
    ,  @calculatedFrom(
""a\""b""
)	// packet A { u8 x, }
repeat  /// triple
  Pad  ,} 

    // `tick` ""quote"" 'q'
    // `tick` ""quote"" 'q'
	packet 
tag {
i8i8  @calculatedFrom( ""x y""

)
`it's`  ,

@lengthOf(x_y_z)
    @calculatedFrom( 
    //
		//	t
	""a\""b""

)u

{ 
match	a1
    as  Logon{
""\n""
    : Pad ,

    3  : body

    , """" :  // `tick` ""quote"" 'q'
Logon

    ,	""\n""	:	T
    ,  ""`tick`"":	tag ,[

    """ ++ [233]%N ++ runes_of_ascii "t" ++ [233]%N ++ runes_of_ascii """/// triple
,	7	,""a\""b""

    , 0123456789

    , ""abc""	,

    """ ++ [28040; 24687]%N ++ runes_of_ascii """ , 0 ] :Z9_

    }	, char[ 00] 	 //
string_ @lengthOf(
asx )
,char[ 1 
]falsey , 
} ,	match

crc 
as

lengthOf {  4294967296
: a1  } ,}
")).
Eval vm_compute in ("<<<M4342>>>" ++ check (runes_of_ascii "root packet A {
    @tag(42)
    match Logon as rootA {
        0123456789 : int,
    },
    repeat char[] uint8x `crlf
        line`,
    int {
        // `tick` ""quote"" 'q'
        //
        repeat f64 Packet,
        uint8x @calculatedFrom(""1""),
        string x `it's`,
    },
    @lengthOf(Foo)
    @calculatedFrom(""a	b"")
    @lengthOf(body)
    metadata {
        match pack as matchKey {
            ""x y"" : falsey,
            ""it's"" : Header,
        },
        body {
            char[] len,/// triple
        },
    },
    char[0123456789] T @calculatedFrom(""`tick`""),
}

options {
    len = ' '
}

MetaData As {
    f64 As,
    char[0123456789] x,
}")).
Eval vm_compute in ("<<<M3977>>>" ++ check (runes_of_ascii "MetaData
pack{ } // trailing space 
    MetaData u { zchar[

    7
    ]
lengthOf  `say ""hi""`,

} 
packet  // trailing space 

	metadata {
	@leftPad	()
stringy chars,

    repeat  int{
uint8
A ,
    zchar[
4294967296

    ]Packet

@lengthOf(
x
    )  `
`
	,
repeat
    crc
	zchar 
,
} 
	    // " ++ [128512]%N ++ runes_of_ascii " emoji

//x
    ,
repeat options1{ u16 u
,
	string_ { string_
MetaDataX 
,
    repeat 
char[ 0123456789 ]
uint8x , repeat
    uint32 T,

// packet A { u8 x, }

//x
	} ,
    uint16
    packetx ,
    }
    // packet A { u8 x, }
  // `tick` ""quote"" 'q'
    , @leftPad (

    ' '
    )rootA

`crlf
line`,	} 
    // " ++ [27880; 37322]%N)).
Eval vm_compute in ("<<<M3584>>>" ++ check (runes_of_ascii "// top
packet // c0a
  // c0b
A { // c2
u8 // c3a
  // c3b
a , } // c6a
  // c6b
packet // c7a
  // c7b
B // c8
{ // c9a
  // c9b
u16
    // c10
b // c11a
  // c11b
, // c12a
  // c12b
}
    // c13
root // c14a
  // c14b
packet // c15
P
    // c16
{
    // c17
u8 // c18
K // c19
, // c20a
  // c20b
match
    // c21
K
    // c22
as // c23a
  // c23b
M // c24
{ // c25
[
    // c26
1 // c27a
  // c27b
, // c28
2
    // c29
]
    // c30
: A // c32a
  // c32b
, // c33a
  // c33b
3 :
    // c35
B , // c37a
  // c37b
7 // c38a
  // c38b
: // c39a
  // c39b
A
    // c40
, } , } // c44a
  // c44b
")).
Eval vm_compute in ("<<<M1274>>>" ++ check (runes_of_ascii "packet charz // @lengthOf(
{ // packet A { u8 x, }
repeat float64 chars , }root
packet
    //x
    repeatCount  { @rightPad( '\x00'	) Header
    // a // b
    i64_
    ,
} MetaData calculatedFrom { u8x
Z9_
`a\`	,  } packet string_ { @tag(0123456789 ) repeat o `` , //	t
len	@lengthOf( roots
    ) ,@calculatedFrom( ""1""
)	@calculatedFrom(""it's""
)
    uint64 Packet@lengthOf( T )
    , body ,
    match matchKey as MetaDataX{[
    // packet A { u8 x, }
    7 , 42	]	:
    stringy
, } , } root
packet A
// a // b
// a // b
{ @calculatedFrom(""a\""b"" )	int8 packetx ,	}
")).
Eval vm_compute in ("<<<M1017>>>" ++ check (runes_of_ascii "packet
f32a {	roots
{chars  calculatedFrom,
u16 Header`" ++ [233]%N ++ runes_of_ascii "`
/// triple
// packet A { u8 x, }
,char[] repeatCount , //	t
} , @calculatedFrom( ""x y"" )
    i32 crc
@calculatedFrom(
""x y"" ),repeat uint64 lengthOf
    ,repeat char[
    65535]  u
, @lengthOf(
tag)
// trailing space 
//
@lengthOf( pack) @calculatedFrom(  ""packet"" ) // packet A { u8 x, }
match A as
f32a
    {
// trailing space 
// c
""`tick`""
:
    i8i8 ,
    }
, @tag(
0123456789
    ) repeat repeatCount
crc  ,
    repeat	u32  options1
`a\` , }  options { matchKey ='0' ;	}")).
Eval vm_compute in ("<<<M4157>>>" ++ check (runes_of_ascii "
options
{ StringPrefixLenType =
u8

;

ArrayPrefixLenType
= 
u32 ; } packet Quote
{
    u32

    Ref, InNote74	{ u8 
pad0 
,  }  ,
}packet  Ack
{repeat

    string
OrderId 
,
    }
    packet
Logout
    {zchar[
7 
]venue , 
char[ 12

    ]
Px
,

    string

    count
	,  char[]
Tail
    ,	char[]	Qty
	,
	Quote
, }
root
packet Trade
	{
	zchar[

    2 ]

    price ,
    u32
	x

    ,
u32

lastPx
	@lengthOf(Body)	,

    match x
	as

Body {148 :
    Ack,

171 : 
Quote

, 15	:  Logout,} ,	}
")).
Eval vm_compute in ("<<<M4241>>>" ++ check (runes_of_ascii "root packet i8i8 {
    BodyLength `" ++ [28040; 24687; 31867; 22411]%N ++ runes_of_ascii "`,
    Header,
    int16 len @lengthOf(msg_type) `
    `,
    @leftPad(' ')
    @rightPad()
    // trailing space 
    @calculatedFrom(""x y"")
    repeatCount @calculatedFrom(""packet"") `crlf
    line`,
    @lengthOf(falsey)
    roots @lengthOf(metadata) `line1
    line2`,
    i8 i64_,
    @tag(4294967296)
    @tag(3)
    repeat zchar[1] lengthOf,
    @lengthOf(Logon)
    repeat asx {
        stringy float `line1
        line2`,
        Pad,
    },
}")).
Eval vm_compute in ("<<<M3846>>>" ++ check (runes_of_ascii "options {
    As = u16
    body = char[]
}

MetaData options1 {
    //
    zchar[1] T `{ , }`,
    stringy BodyLength,
    uint16 matchKey,//	t
    char[255] _x,
    o o `a\`,
}

packet chars {
    f32a {
        repeat a1,
        repeat charz x_y_z,
        asx,
        rootA len `crlf
        line`,
    },// " ++ [27880; 37322]%N ++ runes_of_ascii "
}

root packet Header {
    string float `
    `,//	t
}

options {
    T = false
    options1 = ""packet""
    matchKey = zchar[00];
    string_ = false;
}")).
Eval vm_compute in ("<<<M4604>>>" ++ check (runes_of_ascii "
packet  chars { }root

    packet  chars
    { zchar[ 	 // @lengthOf(
	00  ]
lengthOf  `" ++ [28040; 24687; 31867; 22411]%N ++ runes_of_ascii "` 
,  }
root
	packet
	tag {@rightPad('\x00')
zchar[ 3]
	Foo
    @lengthOf( pack ) ,zchar[ 10
]
	tag
, repeat

    uint32
int, 
@rightPad

( '\x00')
	@lengthOf(
f32a) @rightPad
    //

//x
    ( ' ') Packet  int ,
	match 

//	t
      len// " ++ [27880; 37322]%N ++ runes_of_ascii "
      as
i8i8 { 10  : chars  ,
},
@calculatedFrom(""x y"")
	Z9_
	@calculatedFrom(""it's""
)

    ,}//	t
")).
Eval vm_compute in ("<<<M3634>>>" ++ check (runes_of_ascii "
options

{ LittleEndian=  true
;

StringPrefixLenType=  u16 ;

ArrayPrefixLenType
    =
u64 
;	} packet	Fill {  }

packet  Logon 
{	repeat  char[
	3
] Tail ,

    zchar[6 ]venue, 
repeat string  Side2
    ,  }	root 
packet
Cancel{char[] Flags , char[] OrderId
,

    zchar[
6
]	msgKind , Fill , char[]
    Acct ,  u8	f1 ,  match f1
    as	Body
    {  188:
    Fill,5 
:Logon,
}, 
u32
clOrdID@calculatedFrom(

""CRC32"" ) ,

}")).
Eval vm_compute in ("<<<M4415>>>" ++ check (runes_of_ascii "packet options1 {
    repeat zchar[7] i8i8,
    _x {
        zchar[65535] i8i8 @lengthOf(uint8x),
        match x_y_z as lengthOf {
            //x
            [
                00, 1, 10, ""\" ++ [233]%N ++ runes_of_ascii """, 42,
                00
            ] : Pad,
            [4294967296] : asx,
            0123456789 : x_y_z,
        },
        zchar[0] float,
    },
    int16 T @lengthOf(charz) ``,
}

MetaData pack {
    int64 chars,
}")).
Eval vm_compute in ("<<<M4380>>>" ++ check (runes_of_ascii "  packet Packet
{
@tag(	4294967296) charz { 
repeat char[
    0123456789 ] 
BodyLength
, repeat 
trueish stringy
    ,
}
	, }
options 
{
	body
=  char  ;

leftPad  = 
uint16 
//	t
;
stringy =
	true ;
	packetx 
=

true 
        // `tick` ""quote"" 'q'
	//

	float

=

    char[ 255 ]

    }
	    // `tick` ""quote"" 'q'
/// triple

  root	packet

len 
{ @leftPad

( '0'
	)uint64	a1

,

}

")).
Eval vm_compute in ("<<<M3810>>>" ++ check (runes_of_ascii "MetaData MetaDataX {
    i64_ leftPad,
    zchar[7] u8x `" ++ [28040; 24687; 31867; 22411]%N ++ runes_of_ascii "`,
    zchar[00] crc `crlf
    line`,
    char[255] zchar,
    u32 x `tab	here`,
    i64_ falsey `it's`,
}

MetaData A {
    char[7] calculatedFrom `two words`,
    asx asx `tab	here`,
    float64 trueish,
    zchar[42] f32a `tab	here`,
    char[] u128,
}

packet uint8x {
    @tag(1)
    repeat char[] Packet,
}// c")).
Eval vm_compute in ("<<<M309>>>" ++ check (runes_of_ascii "options // " ++ [27880; 37322]%N ++ runes_of_ascii "
{charz
    =
/// triple
/// triple
int64 chars // trailing space 
=
65535
// " ++ [27880; 37322]%N ++ runes_of_ascii "
// a // b
zchar =
'\x00'MetaDataX// a // b
=	0123456789
roots
// trailing space 
// " ++ [27880; 37322]%N ++ runes_of_ascii "
= """" } options {crc // c
=""" ++ [28040; 24687]%N ++ runes_of_ascii """
    ;
    } MetaData	float {
    zchar[ 42
// `tick` ""quote"" 'q'
//
]
leftPad
    `line1
line2` ,
i64_ u,float32 // packet A { u8 x, }
A`" ++ [28040; 24687; 31867; 22411]%N ++ runes_of_ascii "` , }")).
Eval vm_compute in ("<<<M1300>>>" ++ check (runes_of_ascii "packet
Foo	{ @lengthOf(options1
    // trailing space 
    )  zchar[ 255
] matchKey , string i64_// " ++ [128512]%N ++ runes_of_ascii " emoji
,  @lengthOf( len ) char
Z9_ // " ++ [27880; 37322]%N ++ runes_of_ascii "
`" ++ [233]%N ++ runes_of_ascii "`
,
// `tick` ""quote"" 'q'
// a // b
char[7 ]metadata @calculatedFrom( ""a\\"")`doc`
    ,
falsey ,@rightPad (
'\x00'  )u64 rootA`crlf
line`
//x
// " ++ [128512]%N ++ runes_of_ascii " emoji
, @calculatedFrom( ""it's""
    ) f64 i64_ ,}")).
Eval vm_compute in ("<<<M829>>>" ++ check (runes_of_ascii "options {	msg_type = 007 ; //
u8x =""`tick`""}// @lengthOf(
packet body { match o as
    /// triple
    options1
    {
//
//x
""{,}"" :// trailing space 
x_y_z 7
:
Foo,4294967296
: len
, ""// no comment""
: i64_,	} , @lengthOf(
matchKey
)repeat
u32 x_y_z `say ""hi""` , } MetaData a1 {// a // b
options1 options1	`doc` , }
// " ++ [128512]%N ++ runes_of_ascii " emoji
")).
Eval vm_compute in ("<<<M1916>>>" ++ check (runes_of_ascii "MetaData
    u { }  options {
// c
// @lengthOf(
float = int8 ;rootA =false false ; As =	int16 // `tick` ""quote"" 'q'
repeatCount
    // trailing space 
    =
    int16
; u8x =
    //	t
    '\x00' ; } options	{
    repeatCount
= 0
u128
    //
    = false ; i64_
// trailing space 
// `tick` ""quote"" 'q'
= '0' ; //	t
}
")).
Eval vm_compute in ("<<<M633>>>" ++ check (runes_of_ascii "root packet BodyLength {u16
    tag @calculatedFrom(""packet""
)// packet A { u8 x, }
, u8 i8i8 ,
repeat float64
    string_`u8 x,` , } MetaData
stringy
    {	repeatCount
    a1 ,
    // " ++ [27880; 37322]%N ++ runes_of_ascii "
    char[ 0123456789 ] u128 `doc` //	t
,
    u16 _x , i64
pack
    ,
i64
BodyLength `say ""hi""`, zchar[ 255
    ]
Z9_
    ,}
")).
Eval vm_compute in ("<<<M2072>>>" ++ check (runes_of_ascii "MetaData
    u { }  options {
// c
// @lengthOf(@x
float = int8 ;rootA =false ; As =	int16 // `tick` ""quote"" 'q'
repeatCount
    // trailing space 
    =
    int16
; u8x =
    //	t
    '\x00' ; } options	{
    repeatCount
= 0
u128
    //
    = false ; i64_
// trailing space 
// `tick` ""quote"" 'q'
= '0' ; //	t
}
")).
Eval vm_compute in ("<<<M1922>>>" ++ check (runes_of_ascii "MetaData
    u { }  options {
// c
// @lengthOf(
float = int8 ;rootA =false As ; =	int16 // `tick` ""quote"" 'q'
repeatCount
    // trailing space 
    =
    int16
; u8x =
    //	t
    '\x00' ; } options	{
    repeatCount
= 0
u128
    //
    = false ; i64_
// trailing space 
// `tick` ""quote"" 'q'
= '0' ; //	t
}
")).
Eval vm_compute in ("<<<M3625>>>" ++ check (runes_of_ascii "
options
    {
LittleEndian

    = 
true; StringPrefixLenType
    =

u8
; 
ArrayPrefixLenType
=
    u8 
; }
packet
Ack

{
	}	root
packet	Quote
{
Ack	,
	InSym94 { repeat

Ack
, } ,
    u16  msgKind ,
u16 OrderId

    @lengthOf(
	Body 
),match
    msgKind	as

    Body
{
	[110	, 48
]
:

Ack

,}
,
}")).
Eval vm_compute in ("<<<M3670>>>" ++ check (runes_of_ascii "

  options
{ LittleEndian= true ; 
}packet

    Sub

    {
u8 
a ,	@calculatedFrom(
	""CRC16"") 
u64
    SubSum
,
    }
	root packet  Frame

    {u16
    MsgType 
,

u16

BodyLen

    @lengthOf( 
Body	)
, Sub

Body , 
string	note ,

    @calculatedFrom(""CRC16""
)u64
Checksum  ,	u8
	tail

    ,  }

")).
Eval vm_compute in ("<<<M949>>>" ++ check (runes_of_ascii "MetaData
    T
//x
// trailing space 
{ char[]	metadata, } MetaData
    a1
{ charz
float , i32 i8i8`say ""hi""` ,} packet pack {MetaDataX	, f64 calculatedFrom , zchar[3 ]
    // a // b
    T//
@calculatedFrom(
    """ ++ [233]%N ++ runes_of_ascii "t" ++ [233]%N ++ runes_of_ascii """) `doc` ,A {i16 charz,char[ //
0123456789 ]crc `" ++ [28040; 24687; 31867; 22411]%N ++ runes_of_ascii "` , char[]
string_ , } , // a // b
}")).
Eval vm_compute in ("<<<M4584>>>" ++ check (runes_of_ascii "  packet	// packet A { u8 x, }

As {
    @leftPad ( '\x00'
    // @lengthOf(
    )	repeat 
// " ++ [128512]%N ++ runes_of_ascii " emoji
    //
pack  ,
} 
MetaData 	 //x
    leftPad
{	uint8 tag
,i16
    BodyLength  /// triple

  `{ , }`
	,zchar[
    1
	]	u`say ""hi""`

    , u16 charz ,

    u32 packetx , rootA //
body

, }
")).
Eval vm_compute in ("<<<M3600>>>" ++ check (runes_of_ascii "  packet

    MDSnapshotZZ

{

u8  a
	,

}
	packet OrderACK
    {
u16 b	, 
} 
packet
	HTTPServerInfo	{

    string
s ,

    }

root packet FIXMsg{
u8 KType,  MDSnapshotZZ ,

    repeat OrderACK,

    match KType
	as	Body{  1 :
HTTPServerInfo

,
	2 :
    OrderACK  ,}
    ,}

")).
Eval vm_compute in ("<<<M92>>>" ++ check (runes_of_ascii "options
    {
    u8x =zchar[ 42 ] ;
roots = """ ++ [233]%N ++ runes_of_ascii "t" ++ [233]%N ++ runes_of_ascii """	; calculatedFrom
= '0' As =
    ""packet"" ; } options	{falsey=  10
    ; A=
// c
// packet A { u8 x, }
'\x00' ; leftPad// c
=	""" ++ [233]%N ++ runes_of_ascii "t" ++ [233]%N ++ runes_of_ascii """
    ;
    crc
//	t
// c
= u16
// `tick` ""quote"" 'q'
// @lengthOf(
;As
= 255 } /// triple")).
Eval vm_compute in ("<<<M3606>>>" ++ check (runes_of_ascii "

  packet P1 {
	u8
	a ,
} packet
	P2  {P1 ,  }packet
    P3{ P2,

P1 , }
packet P4
{  repeat

P3,P2 ,
    } root packet
	P5 { P4,

P3 
, P1, 
u8

K

,
    match
K

    as

    Body
{

    4

    : 
P4
,	3 :
    P3  ,  2 
:
P2

    ,	1
:P1  ,
	} ,}
")).
Eval vm_compute in ("<<<M3924>>>" ++ check (runes_of_ascii "packet Logon {
    match repeatCount as trueish {
        1 : int,
        [
            """ ++ [28040; 24687]%N ++ runes_of_ascii """, 65535, ""{,}"", 10, 42,
            007
        ] : body,
        [""CRC32"", ""x y""] : T,
        // packet A { u8 x, }
        [42] : a1,
        7 : chars,
    },
}")).
Eval vm_compute in ("<<<M1555>>>" ++ check (runes_of_ascii "packet
//	t
// trailing space 
_x {
// packet A { u8 x, }
// c
char[
3
    ] u8x @lengthOf(
u8x ) , @calculatedFrom(""" ++ [128512]%N ++ runes_of_ascii """ // @lengthOf(
i16
i16	Foo
@lengthOf(	string_
    )`doc`	, repeat	i64 metadata , @lengthOf( string_
) i8 // c
u  `line1
line2`	,
}
")).
Eval vm_compute in ("<<<M636>>>" ++ check (runes_of_ascii "packet// packet A { u8 x, }
As { @leftPad ( '\x00'
    // @lengthOf(
    )
repeat
// " ++ [128512]%N ++ runes_of_ascii " emoji
//
pack,
    } MetaData //x
leftPad { uint8	tag ,
i16 BodyLength /// triple
`{ , }` , zchar[ 1	] u `say ""hi""`, u16 charz ,
u32 packetx
,
rootA//
body ,
}")).
Eval vm_compute in ("<<<M1619>>>" ++ check (runes_of_ascii "packet
//	t
// trailing space 
_x {
// packet A { u8 x, }
// c
char[
3
    ] u8x @lengthOf(
u8x ) , @calculatedFrom(""" ++ [128512]%N ++ runes_of_ascii """ // @lengthOf(
)
i16	Foo
@lengthOf(	string_
    )`doc`	, repeat	i64 metadata , @lengthOf( )
string_ i8 // c
u  `line1
line2`	,
}
")).
Eval vm_compute in ("<<<M2029>>>" ++ check (runes_of_ascii "MetaData
    u { }  options {
// c
// @lengthOf(
float = int8 ;rootA =false ; As =	int16 // `tick` ""quote"" 'q'
repeatCount
    // trailing space 
    =
    int16
; u8x =
    //	t
    '\x00' ; } options	{
    repeatCount
= 0
u128
    //
    = false")).
Eval vm_compute in ("<<<M1640>>>" ++ check (runes_of_ascii "packet
//	t
// trailing space 
_x {
// packet A { u8 x, }
// c
char[
3
    ] u8x @lengthOf(
u8x ) , @calculatedFrom(""" ++ [128512]%N ++ runes_of_ascii """ // @lengthOf(
)
i16	Foo
@lengthOf(	string_
    )`doc`	, repeat	i64 metadata , @lengthOf( string_
) i8 // c
u  @tag(	,
}
")).
Eval vm_compute in ("<<<M4336>>>" ++ check (runes_of_ascii "root packet roots {
}// `tick` ""quote"" 'q'

MetaData As {
    string u `{ , }`,
    zchar[3] x_y_z,
    i32 roots,
    u16 rootA `line1
        line2`,
    // `tick` ""quote"" 'q'
    // a // b
    i32 matchKey `doc`,
    u _x `{ , }`,
}")).
Eval vm_compute in ("<<<M4196>>>" ++ check (runes_of_ascii "packet zchar {
    // c
}

MetaData Header {
    Z9_ pack,
}

MetaData asx {
    //	t
    u Header,
    zchar[3] o,
    As repeatCount `" ++ [28040; 24687; 31867; 22411]%N ++ runes_of_ascii "`,
    //	t
    //	t
    rootA tag `u8 x,`,
    float64 options1,
    char[] uint8x,
}")).
Eval vm_compute in ("<<<M3989>>>" ++ check (runes_of_ascii "packet _x {
    // packet A { u8 x, }
    // c
    char[3] u8x @lengthOf(u8x),
    @calculatedFrom(""" ++ [128512]%N ++ runes_of_ascii """)
    i16 Foo @lengthOf(string_) `doc`,
    repeat metadata,
    @lengthOf(string_)
    i8 u `line1
        line2`,
}")).
Eval vm_compute in ("<<<M4227>>>" ++ check (runes_of_ascii "

  MetaData
    u8x
    { i64_  u128
	`tab	here`,  char[]

    asx
    ,
u 	 // packet A { u8 x, }
	BodyLength	,

    u64
uint8x,
_x  rootA	//x
	,

} MetaData  trueish
{	float64 asx	// c

,  /// triple
		}")).
Eval vm_compute in ("<<<M1840>>>" ++ check (runes_of_ascii "options { trueish = ""`tick`"" ; string_= """ ++ [233]%N ++ runes_of_ascii "t" ++ [233]%N ++ runes_of_ascii """
    // c
    } root
    packet body { stringy @calculat'\x01'edFrom(
""a	b"" ) `line1
line2` , }
packet Logon {
    @leftPad(
    ' ' ) //	t
u16 string_ `u8 x,` ,
}
")).
Eval vm_compute in ("<<<M1772>>>" ++ check (runes_of_ascii "options { trueish = ""`tick`"" ; string_= """ ++ [233]%N ++ runes_of_ascii "t" ++ [233]%N ++ runes_of_ascii """
    // c
    } root
    packet body { stringy @calculatedFrom(
""a	b"" ) `line1
line2` , } }
packet Logon {
    @leftPad(
    ' ' ) //	t
u16 string_ `u8 x,` ,
}
")).
Eval vm_compute in ("<<<M1678>>>" ++ check (runes_of_ascii "options trueish { = ""`tick`"" ; string_= """ ++ [233]%N ++ runes_of_ascii "t" ++ [233]%N ++ runes_of_ascii """
    // c
    } root
    packet body { stringy @calculatedFrom(
""a	b"" ) `line1
line2` , }
packet Logon {
    @leftPad(
    ' ' ) //	t
u16 string_ `u8 x,` ,
}
")).
Eval vm_compute in ("<<<M1813>>>" ++ check (runes_of_ascii "options { trueish = ""`tick`"" ; string_= """ ++ [233]%N ++ runes_of_ascii "t" ++ [233]%N ++ runes_of_ascii """
    // c
    } root
    packet body { stringy @calculatedFrom(
""a	b"" ) `line1
line2` , }
packet Logon {
    @leftPad(
    ' ' ) //	t
string_ u16 `u8 x,` ,
}
")).
Eval vm_compute in ("<<<M1811>>>" ++ check (runes_of_ascii "options { trueish = ""`tick`"" ; string_= """ ++ [233]%N ++ runes_of_ascii "t" ++ [233]%N ++ runes_of_ascii """
    // c
    } root
    packet body { stringy @calculatedFrom(
""a	b"" ) `line1
line2` , }
packet Logon {
    @leftPad(
    ' ' ) //	t
 string_ `u8 x,` ,
}
")).
Eval vm_compute in ("<<<M1701>>>" ++ check (runes_of_ascii "options { trueish = ""`tick`"" ; = """ ++ [233]%N ++ runes_of_ascii "t" ++ [233]%N ++ runes_of_ascii """
    // c
    } root
    packet body { stringy @calculatedFrom(
""a	b"" ) `line1
line2` , }
packet Logon {
    @leftPad(
    ' ' ) //	t
u16 string_ `u8 x,` ,
}
")).
Eval vm_compute in ("<<<M1374>>>" ++ check (runes_of_ascii "root
// a // b
// c
packet	i8i8 { }packet roots { // trailing space 
f64 uint8x ,@lengthOf(
    lengthOf // c
) roots @calculatedFrom( // a // b
""" ++ [128512]%N ++ runes_of_ascii """ )  `{ , }` //x
, i32 falsey,
    //
    }
")).
Eval vm_compute in ("<<<M4295>>>" ++ check (runes_of_ascii "options

{	// " ++ [27880; 37322]%N ++ runes_of_ascii "

	i64_ //x

	=""1"" }
    options

{matchKey
	=65535 Header
    =""x y""
    stringy

    = 
//	t
// a // b
	true

    ;
    }	MetaData int { i8i8
charz
`u8 x,`
	,
}

")).
Eval vm_compute in ("<<<M224>>>" ++ check (runes_of_ascii "root
packet Logon	{/// triple
@calculatedFrom(
    ""`tick`"" ) @rightPad ( ' '  )
    @tag(
    42 ) //	t
char[ 3 ]
trueish  @lengthOf(
matchKey
    // @lengthOf(
    ) `" ++ [233]%N ++ runes_of_ascii "` ,}
")).
Eval vm_compute in ("<<<M4108>>>" ++ check (runes_of_ascii "
MetaData	trueish {o
	charz`tab	here`	,

    }  MetaData  int
{
    zchar[
4294967296 ] 
a1
`say ""hi""`
	,  }

options {charz 
    //	t
  =

'0'
    tag =

""abc"" 
}

")).
Eval vm_compute in ("<<<M4195>>>" ++ check (runes_of_ascii "// top
packet chars {
    // c2
}

// c3
packet MetaDataX {
    // c6
    @tag(42)
    // c9
    i16 string_,
    // c12
    repeat x `say ""hi""`,
    // c16
}
// c17")).
Eval vm_compute in ("<<<M2377>>>" ++ check (runes_of_ascii "// c
packet x { @lengthOf( metadata ) repeat lengthOf
,a1{
trueish	,// c
repeat repeat//	t
MetaDataX , } , zchar[
    42	] rootA // `tick` ""quote"" 'q'
,
    }
")).
Eval vm_compute in ("<<<M531>>>" ++ check (runes_of_ascii "options
    { // " ++ [27880; 37322]%N ++ runes_of_ascii "
i64_//x
= ""1""
} options {matchKey =
65535 Header = ""x y"" stringy
=
//	t
// a // b
true;  } MetaData int {	i8i8
charz `u8 x,` ,
    } 	 ")).
Eval vm_compute in ("<<<M2385>>>" ++ check (runes_of_ascii "// c
packet x { @lengthOf( metadata ) repeat lengthOf
,a1{
trueish	,// c
repeat//	t
MetaDataX ` , } , zchar[
    42	] rootA // `tick` ""quote"" 'q'
,
    }
")).
Eval vm_compute in ("<<<M2115>>>" ++ check (runes_of_ascii "options{
_x
= true
} options
{ o o	= /// triple
false
    ; chars
= ""\n"" } root packet	Pad
/// triple
// packet A { u8 x, }
{	chars
    // a // b
    ,}")).
Eval vm_compute in ("<<<M2122>>>" ++ check (runes_of_ascii "options{
_x
= true
} options
{ o	u8 /// triple
false
    ; chars
= ""\n"" } root packet	Pad
/// triple
// packet A { u8 x, }
{	chars
    // a // b
    ,}")).
Eval vm_compute in ("<<<M2102>>>" ++ check (runes_of_ascii "options{
_x
= true
{ options
{ o	= /// triple
false
    ; chars
= ""\n"" } root packet	Pad
/// triple
// packet A { u8 x, }
{	chars
    // a // b
    ,}")).
Eval vm_compute in ("<<<M2097>>>" ++ check (runes_of_ascii "options{
_x
= i32
} options
{ o	= /// triple
false
    ; chars
= ""\n"" } root packet	Pad
/// triple
// packet A { u8 x, }
{	chars
    // a // b
    ,}")).
Eval vm_compute in ("<<<M2386>>>" ++ check (runes_of_ascii "// c
packet x { @lengthOf( i32 ) repeat lengthOf
,a1{
trueish	,// c
repeat//	t
MetaDataX , } , zchar[
    42	] rootA // `tick` ""quote"" 'q'
,
    }
")).
Eval vm_compute in ("<<<M3585>>>" ++ check (runes_of_ascii "
packet A
    { 
u8	a
,	} packet
    B{  u16 b, } root	packet 
P
	{ u8  K , match  K
as M
	{

[

    1, 2	] :	A	,

3
    : B ,
7:
A  , }  , }
")).
Eval vm_compute in ("<<<M973>>>" ++ check (runes_of_ascii "
options
{ BodyLength
= zchar[ 0123456789 ] } options
{
asx = ""a\""b"" ;rootA =	char[] roots
=""{,}"" ; int= ""it's"" // `tick` ""quote"" 'q'
; }
")).
Eval vm_compute in ("<<<M4224>>>" ++ check (runes_of_ascii "

  packet  MetaDataX
{
repeat

tag

    i64_ 
, @calculatedFrom(

    ""packet"" ) 
	// trailing space 
	Packet 
`tab	here`
    ,
}
")).
Eval vm_compute in ("<<<M4511>>>" ++ check (runes_of_ascii "MetaData options1 {
    lengthOf As,
    char[255] crc,
    char[] leftPad,
    As leftPad,
    uint16 u128,
    f32 x `{ , }`,
}
//	t")).
Eval vm_compute in ("<<<M3562>>>" ++ check (runes_of_ascii "
options{
	LittleEndian  =
true
; 
}
    root  packet P  { u16
	a
,

    u32
    Sum

    @calculatedFrom(

""CRC32"" 
) , }
")).
Eval vm_compute in ("<<<M3021>>>" ++ check (runes_of_ascii "packet A {
    u16 len @lengthOf(body) `a
    b
  c`,
    u32 crc @calculatedFrom(""CRC32"") `a
    b
  c`,
    string body,
}")).
Eval vm_compute in ("<<<M2337>>>" ++ check (runes_of_ascii "// c
packet x { @lengthOf( metadata ) repeat lengthOf
,a1{
trueish	,// c
repeat//	t
MetaDataX , } , zchar[
    42	] root")).
Eval vm_compute in ("<<<M3342>>>" ++ check (runes_of_ascii "root packet matchKey { zchar[ 3 ] pack @calculatedFrom( ""a	b"" ) `doc` , } options { // c
} MetaData A { int8 msg_type , }")).
Eval vm_compute in ("<<<M1475>>>" ++ check (runes_of_ascii "
packet
    falsey { Header@calculatedFrom(""packet""  ) , < char[
    0123456789 ] packetx
    , } // `tick` ""quote"" 'q'")).
Eval vm_compute in ("<<<M1404>>>" ++ check (runes_of_ascii "
packet
    { falsey Header@calculatedFrom(""packet""  ) , char[
    0123456789 ] packetx
    , } // `tick` ""quote"" 'q'")).
Eval vm_compute in ("<<<M1765>>>" ++ check (runes_of_ascii "options { trueish = ""`tick`"" ; string_= """ ++ [233]%N ++ runes_of_ascii "t" ++ [233]%N ++ runes_of_ascii """
    // c
    } root
    packet body { stringy @calculatedFrom(
""a	b"" )")).
Eval vm_compute in ("<<<M2424>>>" ++ check (runes_of_ascii "// c
packet x { @lengthOf( metadata ) repeat lengthOf
,a1{
trueish	,// c
repeat//	t
MetaDataX , } , zchar[
    ")).
Eval vm_compute in ("<<<M3057>>>" ++ check (runes_of_ascii "packet A {
    match k as n {
        ""\
"" : B,
        [""\
"", 1] : C,
        [1,2,3,4,5,""\
""] : D,
    },
}")).
Eval vm_compute in ("<<<M2965>>>" ++ check (runes_of_ascii "packet A {
  match k as n {
    [""a"", ""bb"", ""c c"", ""d"", ""e"", ""f"", ""g"", ""h"", ""i"", ""j""] : B
    2 : C
  },
}")).
Eval vm_compute in ("<<<M289>>>" ++ check (runes_of_ascii "packet a1 {
}
options{
MetaDataX = ""`tick`"" uint8x = false; f32a = zchar[	00] ; } // `tick` ""quote"" 'q'")).
Eval vm_compute in ("<<<M3699>>>" ++ check (runes_of_ascii "

  packet
A {u16 	 // a
	len // b
@lengthOf( // c

  body 	 // d
)  // e
    `d` // f

	,

    }")).
Eval vm_compute in ("<<<M379>>>" ++ check (runes_of_ascii "options{zchar=	true
// c
/// triple
BodyLength  = char[]
; x// " ++ [27880; 37322]%N ++ runes_of_ascii "
=  char[007 ]
    ;} /// triple")).
Eval vm_compute in ("<<<M2967>>>" ++ check (runes_of_ascii "packet A {
  match k as n {
    [1, ""bb"", 007, ""d"", 5, ""f"", 7, ""h"", 9, ""j""] : B
    2 : C
  },
}")).
Eval vm_compute in ("<<<M1396>>>" ++ check (runes_of_ascii "root packet SimpleMessage {
    uint16 MsgType `" ++ [28040; 24687; 31867; 22411]%N ++ runes_of_ascii "`,
    string JsonBody `Json" ++ [23383; 31526; 20018; 28040; 24687; 20307]%N ++ runes_of_ascii "`,
}")).
Eval vm_compute in ("<<<M2277>>>" ++ check (runes_of_ascii "options
{ } options { BodyLength= u16 Header= f64 ; u128 =
    true true
    ; } // a // b")).
Eval vm_compute in ("<<<M181>>>" ++ check (runes_of_ascii "MetaData a1 { Foo body
`{ , }`
    , int32
int`` ,i32 a1 `" ++ [28040; 24687; 31867; 22411]%N ++ runes_of_ascii "`
, int8 msg_type `` , }

")).
Eval vm_compute in ("<<<M3290>>>" ++ check (runes_of_ascii "MetaData float { float64 charz `
` , } root packet chars
// c
{ @rightPad ( '0' ) Foo , }")).
Eval vm_compute in ("<<<M3501>>>" ++ check (runes_of_ascii "packet chars { } packet MetaDataX { @tag( 42 // c
) i16 string_ , repeat x `say ""hi""` , }")).
Eval vm_compute in ("<<<M2282>>>" ++ check (runes_of_ascii "options
{ } options { BodyLength= u16 Header= f64 ; u128 =
    true
    ; ; } // a // b")).
Eval vm_compute in ("<<<M3020>>>" ++ check (runes_of_ascii "packet A {
    B b `a
    b
  c`,
    B `a
    b
  c`,
    repeat B bs `a
    b
  c`,
}")).
Eval vm_compute in ("<<<M2283>>>" ++ check (runes_of_ascii "options
{ } options { BodyLength= u16 Header= f64 ; u128 =
    true
    } ; // a // b")).
Eval vm_compute in ("<<<M3241>>>" ++ check (runes_of_ascii "packet metadata { Logon { A `" ++ [28040; 24687; 31867; 22411]%N ++ runes_of_ascii "` , tag o , } , zchar len // c
`// not a comment` , }")).
Eval vm_compute in ("<<<M3432>>>" ++ check (runes_of_ascii "packet o
// c
{ repeat Logon uint8x , } options { asx = zchar[ 3 ] stringy = '\x00' }")).
Eval vm_compute in ("<<<M3464>>>" ++ check (runes_of_ascii "packet o { repeat Logon uint8x , } options { asx = zchar[ 3 ] stringy = '\x00'
// c
}")).
Eval vm_compute in ("<<<M2928>>>" ++ check (runes_of_ascii "packet A {
  match k as n {
    [1, ""bb"", 007, ""d"", 5, ""f"", 7] : B
    2 : C
  },
}")).
Eval vm_compute in ("<<<M3407>>>" ++ check (runes_of_ascii "MetaData body { i64 pack `it's` ,
// c
} packet stringy { int16 calculatedFrom , }")).
Eval vm_compute in ("<<<M3907>>>" ++ check (runes_of_ascii "MetaData Packet {
}

options {
    Z9_ = char[];
    _x = '0';
    body = false
}")).
Eval vm_compute in ("<<<M415>>>" ++ check (runes_of_ascii "MetaData T { char[] packetx //	t
,//
Packet
    u ,i32 _x , uint16
    asx, }
")).
Eval vm_compute in ("<<<M1307>>>" ++ check (runes_of_ascii "options // `tick` ""quote"" 'q'
{ stringy='\x00'  ;
msg_type
= float32
}

")).
Eval vm_compute in ("<<<M738>>>" ++ check (runes_of_ascii "MetaData Foo { char[ 4294967296  ] BodyLength
    //
    `tab	here`
, }
")).
Eval vm_compute in ("<<<M2877>>>" ++ check (runes_of_ascii "packet A {
  match k as n {
    [""a"", 22, ""c c""] : B,
    2 : C
  },
}")).
Eval vm_compute in ("<<<M552>>>" ++ check (runes_of_ascii "  options{ i8i8 = true// " ++ [128512]%N ++ runes_of_ascii " emoji
chars = 42
    /// triple
    ; }
")).
Eval vm_compute in ("<<<M3815>>>" ++ check (runes_of_ascii "
root

    packet

u128

{ char[

    007  ] 
MetaDataX ,	}
")).
Eval vm_compute in ("<<<M235>>>" ++ check (runes_of_ascii "// " ++ [128512]%N ++ runes_of_ascii " emoji
options {repeatCount = u32 ;tag = ' ' ; } // a // b")).
Eval vm_compute in ("<<<M3946>>>" ++ check (runes_of_ascii "packet pack {
    //	t
    repeat zchar As,
    i16 roots,
}")).
Eval vm_compute in ("<<<M3366>>>" ++ check (runes_of_ascii "packet
// c
x { @rightPad ( ) repeat roots Logon `doc` , }")).
Eval vm_compute in ("<<<M3181>>>" ++ check (runes_of_ascii "packet A {
    match k as n {
        1 : B,// c
    },
}")).
Eval vm_compute in ("<<<M263>>>" ++ check (runes_of_ascii "root
packet i8i8 { @lengthOf(
Packet)
    u32 u8x, }")).
Eval vm_compute in ("<<<M3779>>>" ++ check (runes_of_ascii "options
    { a
=
    1	// c

b	=

2
;// d
    } ")).
Eval vm_compute in ("<<<M3029>>>" ++ check (runes_of_ascii "MetaData M {
    u8 x `a

b`,
    T t `a

b`,
}")).
Eval vm_compute in ("<<<M2843>>>" ++ check (runes_of_ascii ", float32 int8 `" ++ [233]%N ++ runes_of_ascii "` char[] } { u16 { options }")).
Eval vm_compute in ("<<<M1199>>>" ++ check (runes_of_ascii "
MetaData u8x { msg_type
    matchKey, }
")).
Eval vm_compute in ("<<<M3187>>>" ++ check (runes_of_ascii "// c
root packet u128 { chars `it's` , }")).
Eval vm_compute in ("<<<M4165>>>" ++ check (runes_of_ascii "MetaData x {
    int32 a1 `say ""hi""`,
}")).
Eval vm_compute in ("<<<M2605>>>" ++ check (runes_of_ascii "packet A { match k as n { 1 : B }, }")).
Eval vm_compute in ("<<<M2783>>>" ++ check ([14]%N ++ runes_of_ascii "2" ++ [65533; 12]%N ++ runes_of_ascii "p[kGJ" ++ [1244; 65533; 65533]%N ++ runes_of_ascii "_*Q`" ++ [65533; 6; 65533]%N ++ runes_of_ascii "VT;" ++ [65533; 65533; 65533]%N ++ runes_of_ascii "85:r" ++ [65533]%N ++ runes_of_ascii "V" ++ [65533; 65533; 65533; 65533]%N)).
Eval vm_compute in ("<<<M1501>>>" ++ check (runes_of_ascii "packet
//	t
// trailing space 
_x")).
Eval vm_compute in ("<<<M3909>>>" ++ check (runes_of_ascii "packet A {
    u8 x `d" ++ [8202]%N ++ runes_of_ascii "`,// c" ++ [8202]%N ++ runes_of_ascii "
}")).
Eval vm_compute in ("<<<M2761>>>" ++ check (runes_of_ascii "@rightPad ( ) float64 root u64")).
Eval vm_compute in ("<<<M3007>>>" ++ check (runes_of_ascii "packet A {
    u8 x `a
b`,
}")).
Eval vm_compute in ("<<<M2712>>>" ++ check (runes_of_ascii """1"" char u32 @rightPad int8")).
Eval vm_compute in ("<<<M11>>>" ++ check (runes_of_ascii "options { falsey
= false}")).
Eval vm_compute in ("<<<M990>>>" ++ check (runes_of_ascii "
root packet
zchar {	}
")).
Eval vm_compute in ("<<<M815>>>" ++ check (runes_of_ascii " // packet A { u8 x, }")).
Eval vm_compute in ("<<<M1031>>>" ++ check (runes_of_ascii "root packet u128 { }")).
Eval vm_compute in ("<<<M2574>>>" ++ check (runes_of_ascii "packet A { x `d`, }")).
Eval vm_compute in ("<<<M2725>>>" ++ check (runes_of_ascii "Sq]fX""YE68*gwilIN=")).
Eval vm_compute in ("<<<M3136>>>" ++ check (runes_of_ascii "// c" ++ [65279]%N ++ runes_of_ascii "
packet A {
}")).
Eval vm_compute in ("<<<M3103>>>" ++ check (runes_of_ascii "packet A {
}// c" ++ [8239]%N)).
Eval vm_compute in ("<<<M2494>>>" ++ check (runes_of_ascii "@calculatedFrom")).
Eval vm_compute in ("<<<M929>>>" ++ check (runes_of_ascii "
// " ++ [128512]%N ++ runes_of_ascii " emoji
")).
Eval vm_compute in ("<<<M2636>>>" ++ check (runes_of_ascii "packet A {")).
Eval vm_compute in ("<<<M1406>>>" ++ check (runes_of_ascii "
packet")).
Eval vm_compute in ("<<<M2722>>>" ++ check (runes_of_ascii "w""Bn;m")).
Eval vm_compute in ("<<<M3069>>>" ++ check (runes_of_ascii "// c" ++ [160]%N)).
Eval vm_compute in ("<<<M2523>>>" ++ check (runes_of_ascii "`
`")).
Eval vm_compute in ("<<<M2532>>>" ++ check (runes_of_ascii "a-b")).
Eval vm_compute in ("<<<M2536>>>" ++ check (runes_of_ascii "__")).
Eval vm_compute in ("<<<M111>>>" ++ check (@nil rune)).
