From FP Require Import Lexer Parser ShowPT Digest Formatter.
From Coq Require Import String List NArith.
Import ListNotations.
Open Scope string_scope.
Set Printing Width 100000000.
Set Printing Depth 100000000.
Definition show_fres (r : fres) : string :=
  match r with
  | FOk s => "OK:" ++ sh_escaped s ""
  | FErr s => "ERR:" ++ sh_escaped s ""
  | FPanic p => "PANIC:" ++ p
  end.
Definition check (rs : list rune) : string := digest (show_fres (format_res rs)).
Definition full (rs : list rune) : string := show_fres (format_res rs).
Eval vm_compute in ("<<<M4054>>>" ++ check (runes_of_ascii "options {
    StringPrefixLenType = u8;
    ArrayPrefixLenType = u64;
    FixedStringPadFromLeft = true;
    JavaPackage = ""com.example.msg"";
    GoPackage = ""msg"";
    GoModule = ""example.com/msg"";
}

MetaData Meta {
    u32 SeqNum `sequence number
        more`,
    char[8] Symbol `symbol
        more`,
    zchar[5] ZSym `z symbol
        more`,
    string Note,
    Symbol AltSymbol `alias of symbol`,
    f64 Price,
}

packet Inner {
    u8 a,
    i16 b,
    string c,
}

packet Inner2 {
    u8 a2,
    char[3] c2,
}

packet Logon {
    u8 x,
    string user,
    repeat u16 codes,
}

packet Logout {
    u16 reason,
}

packet Empty {
}

root packet Msg {
    u8 su8,
    uint8 luint8,
    u16 su16,
    uint16 luint16,
    u32 su32,
    uint32 luint32,
    u64 su64,
    uint64 luint64,
    i8 si8,
    int8 lint8,
    i16 si16,
    int16 lint16,
    i32 si32,
    int32 lint32,
    i64 si64,
    int64 lint64,
    f32 sf32,
    float32 lfloat32,
    f64 sf64,
    float64 lfloat64,
    char[6] fsplain,
    @leftPad('0')
    char[4] fs0,
    @rightPad('0')
    char[5] fs1,
    @leftPad(' ')
    char[6] fs2,
    @rightPad(' ')
    char[7] fs3,
    @leftPad('\x00')
    char[8] fs4,
    @rightPad('\x00')
    char[9] fs5,
    @leftPad()
    char[10] fs6,
    @rightPad()
    char[11] fs7,
    zchar[7] fz,
    @leftPad('0')
    zchar[3] fzl0,
    string s1 `doc`,
    char[] s2,
    Inner,
    Sub {
        u8 q,
        string w,
        Deep {
            u16 z,
            repeat i32 zs,
        },
    },
    repeat u8 ru8,
    repeat u16 ru16,
    repeat u32 ru32,
    repeat u64 ru64,
    repeat i8 ri8,
    repeat i16 ri16,
    repeat i32 ri32,
    repeat i64 ri64,
    repeat f32 rf32,
    repeat f64 rf64,
    repeat string rstr,
    repeat char[] rstr2,
    repeat char[3] rfs,
    repeat zchar[3] rfz,
    repeat Inner2,
    repeat Grp {
        u8 k,
        char[2] v,
    },
    SeqNum,
    SeqNum seq2,
    repeat SeqNum seqs,
    Symbol,
    AltSymbol alt,
    ZSym,
    Note,
    repeat Symbol syms,
    Price px,
    u16 MsgType,
    u32 BodyLen @lengthOf(Body),
    match MsgType as Body {
        1 : Logon,
        [2, 3] : Logout,
        7 : Logon,
        9 : Empty,
    },
    u32 Checksum @calculatedFrom(""CRC32""),
}")).
Eval vm_compute in ("<<<M1104>>>" ++ check (runes_of_ascii "
packet roots
{
char[] falsey @calculatedFrom(	""`tick`""
) // c
`{ , }` ,match
    tag as	BodyLength{ // @lengthOf(
""packet"" : T , 42 :f32a// a // b
,255 : lengthOf , // " ++ [27880; 37322]%N ++ runes_of_ascii "
} , BodyLength { Z9_ {
    stringy
{ metadata
, }, zchar@lengthOf( // 50% %s
x_y_z) ,match
    // `tick` ""quote"" 'q'
    lengthOf as float{
10 :
repeatCount ,
} ,
repeat string
Pad `u8 x,` ,  }	,
    charz { repeat
    lengthOf
    { zchar[
007] f32a
@calculatedFrom( ""it's""  )  `" ++ [28040; 24687; 31867; 22411]%N ++ runes_of_ascii "` , uint64
    tag @calculatedFrom( ""packet""
) // `tick` ""quote"" 'q'
`" ++ [233]%N ++ runes_of_ascii "`
, char[10 ]
calculatedFrom
    `tab	here`,
    char[] Logon`" ++ [28040; 24687; 31867; 22411]%N ++ runes_of_ascii "` , }, i16 x_y_z
`doc`
,
// packet A { u8 x, }
// trailing space 
string
// packet A { u8 x, }
// `tick` ""quote"" 'q'
u128
,}	,
} ,Foo	@lengthOf(o)
, i32 int,
options1	,
} options{
// " ++ [128512]%N ++ runes_of_ascii " emoji
// trailing space 
leftPad ='\x00' //x
;  Foo
    // " ++ [27880; 37322]%N ++ runes_of_ascii "
    =  255	x =true
; }packet
x
{
    @calculatedFrom( """ ++ [28040; 24687]%N ++ runes_of_ascii """)repeat
    u8
/// triple
//x
As ,
    repeat  char[42	]A , int8 o `two words`
    // " ++ [27880; 37322]%N ++ runes_of_ascii "
    ,
@lengthOf(
asx ) @lengthOf(  tag
    )match
trueish
    as	lengthOf // packet A { u8 x, }
{  0	: o,
""{,}""
    : // packet A { u8 x, }
chars [ ""packet""  ]
: A,
""\" ++ [233]%N ++ runes_of_ascii """ : pack , [ ""\n"" ,
10 , // `tick` ""quote"" 'q'
""CRC32"" ,
00, 007, 42 , 0123456789 ,""""  ] : stringy , ""packet"" : i64_ , } , repeatCount
,
    i32 zchar@lengthOf( Logon) `tab	here` ,zchar
/// triple
// a // b
@calculatedFrom(""CRC32"" ) `u8 x,`
    // packet A { u8 x, }
    ,@lengthOf( lengthOf ) // c
@rightPad // " ++ [128512]%N ++ runes_of_ascii " emoji
( )Packet @calculatedFrom(""// no comment"")
    // @lengthOf(
    , @tag( 10 )
// trailing space 
// `tick` ""quote"" 'q'
len`a\`,// " ++ [128512]%N ++ runes_of_ascii " emoji
} packet _x { } root	packet uint8x { uint8
    falsey
`" ++ [233]%N ++ runes_of_ascii "` , zchar[
007 ] stringy ,
BodyLength float ,zchar[
    1 ]roots ,uint8 Packet , repeat float64 repeatCount  , repeat char f32a`
` ,
    i32 a1 `crlf
line`
, } // @lengthOf(")).
Eval vm_compute in ("<<<M3560>>>" ++ check (runes_of_ascii "
root packet charz
    {	@calculatedFrom(
""" ++ [233]%N ++ runes_of_ascii "t" ++ [233]%N ++ runes_of_ascii """) 
Foo
x`u8 x,`

,
rootA@lengthOf(
leftPad) 
,  zchar[	0123456789

]MetaDataX  `" ++ [28040; 24687; 31867; 22411]%N ++ runes_of_ascii "` ,
@tag( 
7)
	packetx
    // trailing space 
  @calculatedFrom( ""CRC32""

    )`it's`
,
	@lengthOf(  falsey )	repeat zchar[ 4294967296

    ]	string_  ,	@lengthOf(options1
) int
{	int64 
    //x
		// 50% %s
  	u
	@calculatedFrom(
    ""1"" 
)
`line1
line2`
    ,

repeat zchar[ 00	/// triple
	]	falsey
    , char[]  stringy
@calculatedFrom( ""it's"" ) 	 // @lengthOf(
`crlf
line` , // a // b
    i16  A
	,
    } ,
    @calculatedFrom(
    ""`tick`""

)f64
BodyLength
	@lengthOf( 	 /// triple

	len)`crlf
line`
    ,
}MetaData	msg_type 
{ uint64 

// trailing space 
	  // a // b
	roots
    `100% of %d`, }	options
    {packetx
	= true }
MetaData  uint8x
{	}
	root packet 

// trailing space 
//
		crc{// trailing space 
		char[
// `tick` ""quote"" 'q'
	// " ++ [27880; 37322]%N ++ runes_of_ascii "

4294967296]	i64_
	, 
@leftPad
(

    '0'
	) @lengthOf(  msg_type 
)  repeat Foo
`line1
line2`
, asx
i64_ //	t

`two words`,	@tag(
    7

    ) Packet
    ,

    repeat	// c
    	i64

    u8x
	`say ""hi""` ,zchar[
7

    ]
x_y_z , // `tick` ""quote"" 'q'
match Foo as
Pad 
{  // c
	[
""abc"",
"""" ]
:

options1
    ,  ""a	b""  :  crc ,
    42	:  rootA

    ,// " ++ [128512]%N ++ runes_of_ascii " emoji
  } // " ++ [128512]%N ++ runes_of_ascii " emoji

  ,
    @lengthOf(  // trailing space 

	Header )	body
	int  // 50% %s
,
    @tag(1

    )
	@calculatedFrom(
""" ++ [233]%N ++ runes_of_ascii "t" ++ [233]%N ++ runes_of_ascii """
)char[ 255
	]
// 50% %s
		charz  @lengthOf( 
A )  ,  /// triple
	uint64 
      // @lengthOf(
  /// triple
  Packet
@calculatedFrom( ""1""
)
`100% of %d` ,
}
")).
Eval vm_compute in ("<<<M4172>>>" ++ check (runes_of_ascii "packet msg_type {
    repeat stringy Header ``,
    @leftPad('\x00')
    repeat leftPad,
    repeat f32a,
    @calculatedFrom(""it's"")
    @tag(255)
    match roots as trueish {
        7 : tag,
    },
    repeat zchar[0] repeatCount,
    string f32a,
    string body,
    @calculatedFrom("""")
    uint64 f32a,
}

packet asx {
    leftPad ``,
    @rightPad('0')
    //
    // `tick` ""quote"" 'q'
    int8 leftPad,
    @rightPad('0')
    asx @lengthOf(falsey),
    @tag(00)
    // `tick` ""quote"" 'q'
    u32 pack,
    @tag(007)
    repeat stringy repeatCount `" ++ [28040; 24687; 31867; 22411]%N ++ runes_of_ascii "`,
    @lengthOf(roots)
    u16 pack @lengthOf(roots),
    @calculatedFrom(""1"")
    @tag(1)
    match calculatedFrom as pack {
        ""a\\"" : Logon,
        [""" ++ [128512]%N ++ runes_of_ascii """] : u8x,
        1 : calculatedFrom,
        """ ++ [128512]%N ++ runes_of_ascii """ : Z9_,
        0 : _x,
    },
    f32 Header,
}

packet asx {
    @tag(00)
    @rightPad('0')
    @calculatedFrom(""a\\"")
    int64 leftPad `u8 x,`,
    repeat stringy `two words`,
    @lengthOf(len)
    @tag(7)
    i16 int,
    @lengthOf(repeatCount)
    i8i8 @lengthOf(roots) `" ++ [28040; 24687; 31867; 22411]%N ++ runes_of_ascii "`,
    string int @calculatedFrom(""\n"") `100% of %d`,
    repeat i8i8 rootA `two words`,
    T {
        roots @lengthOf(o),
        // a // b
    },
    Pad,
    @lengthOf(As)
    f32 options1,
}

MetaData a1 {
    zchar[255] tag `say ""hi""`,
}

options {
    BodyLength = 0123456789
}")).
Eval vm_compute in ("<<<M4129>>>" ++ check (runes_of_ascii "root  packet 
    // " ++ [27880; 37322]%N ++ runes_of_ascii "
	// `tick` ""quote"" 'q'
x  { } 
packet
trueish  {@rightPad (
    ' ' 
)
repeat

    u16
	As `tab	here`  , }
    root

    packet

    Packet

    { falsey
    @calculatedFrom(
""" ++ [28040; 24687]%N ++ runes_of_ascii """)//	t
    ,@lengthOf(
u128

    )  repeat
	zchar[
	42
    ]
calculatedFrom  `it's`	,

    u64  options1@lengthOf(repeatCount

) , @rightPad ( 
' '
    )
@calculatedFrom(

""x y""

    )
    @rightPad	(
'\x00'

    )
	msg_type

    { string A
	@calculatedFrom(
    ""`tick`"")	// trailing space 
	,  i16

Pad @calculatedFrom(

""" ++ [233]%N ++ runes_of_ascii "t" ++ [233]%N ++ runes_of_ascii """  )
`line1
line2`  ,
	float64 roots
    @lengthOf(body 	 // `tick` ""quote"" 'q'

),} ,  @tag( 	 // 50% %s

007
)  f32

BodyLength

    @lengthOf( float)
,
	Pad	Foo
, char[] chars `it's`

, @calculatedFrom( """ ++ [233]%N ++ runes_of_ascii "t" ++ [233]%N ++ runes_of_ascii """ )  Pad { repeat BodyLength

uint8x

    ,
    match Pad
    as

Foo

{""packet""
    :
    i64_ , [ 4294967296
    , ""{,}""

    ] :
BodyLength 10 :

repeatCount  ,
	[0123456789
	,	3, 42

    ,
	""\n"" , ""x y"" ]

: Logon,

[

10,	""`tick`""

,
	0123456789
	]: tag
	, 
42
    : trueish }
	, repeat

    //

	// trailing space 
	zchar[

    4294967296
    ] Foo	`it's`
	,

    }
,  }
packet float 
{

@tag( 1 )	u64 options1@calculatedFrom(	""a\""b""

) ,
    }")).
Eval vm_compute in ("<<<M806>>>" ++ check (runes_of_ascii "packet charz
// @lengthOf(
//
{ char[	3] Packet
@lengthOf(
    pack) ,
    match falsey
    as Packet{[""abc""
,0 // `tick` ""quote"" 'q'
,
    ""x y""
//x
// " ++ [128512]%N ++ runes_of_ascii " emoji
]:  crc,
    ""a\""b"" :leftPad , ""a\""b"": options1 ,
    """ ++ [28040; 24687]%N ++ runes_of_ascii """: repeatCount , 65535	:x_y_z ,} , msg_type {
u64 Logon , stringy @calculatedFrom(
    ""it's""  )
`crlf
line` , },
//x
//
@lengthOf( rootA ) char[42 // trailing space 
]
rootA `line1
line2` , }
MetaData rootA// trailing space 
{
}packet MetaDataX
    {	@lengthOf( packetx // @lengthOf(
)As
`100% of %d`	, @lengthOf( matchKey) repeat Logon// c
{  MetaDataX @lengthOf( trueish ) ,
    uint8
    asx
@calculatedFrom(""\" ++ [233]%N ++ runes_of_ascii """
), metadata
    //	t
    { uint8x ,//
match Logon
    as string_ { // 50% %s
[ 42 , 0] : float , },  } ,
uint16 falsey // " ++ [27880; 37322]%N ++ runes_of_ascii "
@lengthOf(matchKey
    )  `line1
line2`,
},
    @lengthOf( u8x	) char[ 7// a // b
] asx
    @lengthOf( // a // b
Logon )`" ++ [233]%N ++ runes_of_ascii "`
,
repeat Packet crc ,  @tag(  10 ) @leftPad ( ' ' )  @lengthOf(
As
    )
    Foo  chars ,
@calculatedFrom( """" ) i64 u /// triple
, string
f32a
`it's` ,float64 x`" ++ [28040; 24687; 31867; 22411]%N ++ runes_of_ascii "`
    ,u16 roots ,
/// triple
//	t
} options { int = 4294967296 u8x
= false ;
}
")).
Eval vm_compute in ("<<<M4145>>>" ++ check (runes_of_ascii "  packet f32a
	{  @leftPad
(

    '0'
// `tick` ""quote"" 'q'
    )	repeat
    string
	MetaDataX	`
` ,
    @tag(
	4294967296	)match x //
  as

    Foo
{ 
""abc""  :  /// triple

	A  ,
    [ 3 
, 65535

// " ++ [128512]%N ++ runes_of_ascii " emoji

]:
	lengthOf ,

[
255
    ]

    :

BodyLength  
  // packet A { u8 x, }
  }

    , @lengthOf(
	Packet  )
    //	t
    // c

	@calculatedFrom(

    ""abc""
)@tag(
    0123456789
) i32 uint8x
,rootA `tab	here`,
    match
	MetaDataX as
int{

    [3

    ]: As , 
}
    ,
    repeat uint8 
u128
,	} MetaData
    metadata  {  i16  options1 	 // " ++ [128512]%N ++ runes_of_ascii " emoji

  ,u128 metadata 
`crlf
line`

,
    char[
10
]  BodyLength
    `u8 x,`,  zchar[
10 
] u8x
`u8 x,` , As
	x
    ,
}
	MetaData a1 { }
    options

    { Packet

    =
    i32 ;	a1
    =
' '  ;  // `tick` ""quote"" 'q'
  	o = ""a	b""
trueish
	=  42	zchar

    = ' '
}	options { //
x_y_z
	=

    ' '
	;

    string_

    = int64
;	lengthOf
        /// triple
  	//	t
  	=
    zchar[ 
4294967296

    ] // `tick` ""quote"" 'q'
      ; /// triple
		calculatedFrom =	' ' ;
packetx  =zchar[ 3 ];
	}")).
Eval vm_compute in ("<<<M348>>>" ++ check (runes_of_ascii "  packet metadata	{ char[ // trailing space 
4294967296
] a1 // " ++ [27880; 37322]%N ++ runes_of_ascii "
, } packet BodyLength
    {
    trueish , char[ 00
]
    Logon // " ++ [128512]%N ++ runes_of_ascii " emoji
@lengthOf(
    As
// " ++ [128512]%N ++ runes_of_ascii " emoji
// 50% %s
) , repeat uint32 u8x // 50% %s
,
    char[] len
    @lengthOf( /// triple
i8i8 )  , packetx chars,
    // packet A { u8 x, }
    string Packet@calculatedFrom(	""a	b""),match
len  as msg_type { [
42]	: x , }  ,
chars {
u128 asx , }	, i32 As  @calculatedFrom(""a	b"" )
    , repeat repeatCount
    // " ++ [27880; 37322]%N ++ runes_of_ascii "
    { repeat u8x {
    char[]_x
`crlf
line` ,
    match f32a as//	t
i8i8  { [/// triple
007	,
4294967296 ,  """ ++ [28040; 24687]%N ++ runes_of_ascii """ , // packet A { u8 x, }
""a	b"" // packet A { u8 x, }
,""// no comment"" ,""a\""b"" ,
// trailing space 
//
""CRC32"" , 7]:Foo 0123456789 :
    Header
    ,""it's"" : u 65535 :	Foo , 65535 :
/// triple
//x
stringy
    , 255  : f32a ,//	t
}
, match
A
    //	t
    as u128 { 10 :chars
    ""{,}"" :i64_""\n""
    : //	t
o , ""{,}"" :	x_y_z // 50% %s
,[ 0123456789, """ ++ [28040; 24687]%N ++ runes_of_ascii """] :	a1 , }
,
} ,
    A @lengthOf(
    // " ++ [27880; 37322]%N ++ runes_of_ascii "
    u8x  ) , },	}")).
Eval vm_compute in ("<<<M3421>>>" ++ check (runes_of_ascii "// top
packet
    // c0
A // c1a
  // c1b
{ // c2a
  // c2b
u8 a // c4a
  // c4b
, // c5
} packet
    // c7
B {
    // c9
u16 b // c11a
  // c11b
, } // c13a
  // c13b
packet
    // c14
C {
    // c16
u32 c // c18
, // c19a
  // c19b
} // c20a
  // c20b
root
    // c21
packet
    // c22
M // c23a
  // c23b
{ u16 // c25a
  // c25b
Kc ,
    // c27
u16 // c28a
  // c28b
Kb // c29
, // c30
u16
    // c31
Ka
    // c32
, // c33a
  // c33b
match
    // c34
Kc as X
    // c37
{ // c38a
  // c38b
9 // c39
: // c40
A // c41a
  // c41b
, // c42
10 : // c44a
  // c44b
B // c45
, // c46a
  // c46b
} // c47a
  // c47b
, // c48
match Kb // c50a
  // c50b
as Y { 2 // c54a
  // c54b
: // c55a
  // c55b
C , // c57
1 // c58
: // c59
A
    // c60
, } // c62
,
    // c63
match // c64
Ka // c65
as // c66a
  // c66b
Z
    // c67
{
    // c68
1 : // c70
B , // c72a
  // c72b
} // c73a
  // c73b
, // c74
A
    // c75
, B // c77a
  // c77b
, C // c79
, // c80
} // c81
")).
Eval vm_compute in ("<<<M1078>>>" ++ check (runes_of_ascii "options {	} root
packet float {
    // 50% %s
    @tag( 3
) repeat char[
// " ++ [128512]%N ++ runes_of_ascii " emoji
// @lengthOf(
65535
]  Logon `" ++ [28040; 24687; 31867; 22411]%N ++ runes_of_ascii "`	,
int8
    asx ,uint64
matchKey // @lengthOf(
, repeat zchar[ 0123456789
] charz ,@rightPad( ) match
    rootA as o { ""abc"" : Header, ""a	b"" :BodyLength""a	b"" :/// triple
repeatCount """ ++ [28040; 24687]%N ++ runes_of_ascii """ :
// packet A { u8 x, }
// `tick` ""quote"" 'q'
_x ,  }, @lengthOf( body  )  match u8x
    as u128{0123456789
    // @lengthOf(
    : lengthOf/// triple
,
    ""abc"": A	"""": Pad , 42	: i8i8 ,""a\""b"":  uint8x	4294967296: u128 , } , @lengthOf( int ) char[] matchKey
    , uint16
// " ++ [27880; 37322]%N ++ runes_of_ascii "
// @lengthOf(
pack`two words`, // trailing space 
} options {
    body =//	t
string ; repeatCount
=
""it's""
BodyLength = i64 Foo = ""packet"" ;
lengthOf=
    u16 }MetaData Pad { MetaDataX o
    `a\` , char u,
    zchar[
255 ] o
, }// c
options //x
{trueish=
'0' ;
    rootA	= int64 ;
// trailing space 
// " ++ [128512]%N ++ runes_of_ascii " emoji
u =""\n"" }")).
Eval vm_compute in ("<<<M1054>>>" ++ check (runes_of_ascii "
packet f32a {  @leftPad
    (  '0'
    // `tick` ""quote"" 'q'
    ) repeat string
MetaDataX`
` ,@tag( 4294967296 ) match  x//
as
Foo { ""abc""  : /// triple
A ,
    [  3  ,65535
    // " ++ [128512]%N ++ runes_of_ascii " emoji
    ] :lengthOf
,[ 255] :BodyLength
    // packet A { u8 x, }
    } ,@lengthOf( Packet
)
//	t
// c
@calculatedFrom( ""abc"" )
    @tag( 0123456789 )
i32 uint8x ,	rootA	`tab	here` ,match MetaDataX as int{ [ 3 ] :
As ,
} ,
repeat uint8 u128 , } MetaData  metadata{ i16 options1 // " ++ [128512]%N ++ runes_of_ascii " emoji
, u128 metadata `crlf
line` ,	char[
10]
BodyLength`u8 x,`, zchar[ 10] u8x
    `u8 x,` , As	x	,}
    MetaData a1{}options { Packet =i32 ; a1= ' ' ;// `tick` ""quote"" 'q'
o = ""a	b""  trueish = 42
    zchar =
    ' '
} options{//
x_y_z
= ' ' ; string_ =int64 ;lengthOf
/// triple
//	t
= zchar[ 4294967296 ] // `tick` ""quote"" 'q'
; /// triple
calculatedFrom = ' ' ; packetx= zchar[3]; }
")).
Eval vm_compute in ("<<<M4415>>>" ++ check (runes_of_ascii "MetaData calculatedFrom {
}//x

options {
    stringy = ' ';
}

packet tag {
    @tag(65535)
    repeat x_y_z i8i8,
    pack,
    // " ++ [27880; 37322]%N ++ runes_of_ascii "
    float @lengthOf(trueish),
    match metadata as o {
        7 : charz,
        [""\n"", ""// no comment"", ""`tick`"", 7, ""x y""] : body,
        //x
        [
            ""a\""b"", 0123456789, 0123456789, ""\n"", 10,
            ""it's"", ""{,}"", """ ++ [28040; 24687]%N ++ runes_of_ascii """
        ] : Header,
        // a // b
        //x
        4294967296 : i64_,
        """" : stringy,
    },
    match rootA as zchar {
        0 : a1,
        0 : len,
        [1, 0123456789, ""a\\"", ""abc"", """ ++ [128512]%N ++ runes_of_ascii """] : matchKey,
        ""CRC32"" : Z9_,
    },
    @tag(7)
    string pack @calculatedFrom(""x y"") `say ""hi""`,// " ++ [27880; 37322]%N ++ runes_of_ascii "
    @lengthOf(packetx)
    //	t
    i8i8,
    char[42] u8x,
}

root packet a1 {
    @rightPad('0')
    repeat i16 body,
}")).
Eval vm_compute in ("<<<M3825>>>" ++ check (runes_of_ascii "packet body {
    char[3] u,
    zchar[007] lengthOf @lengthOf(rootA),
    @leftPad('0')
    x {
        match packetx as packetx {
            [10] : repeatCount,
            // a // b
            // packet A { u8 x, }
            [""1"", ""a\\""] : rootA,
        },
    },
    Logon {
        trueish {
            repeatCount i64_ `tab	here`,
            i64_ {
                repeat Logon asx,
            },//	t
            u64 chars `say ""hi""`,// trailing space 
            int64 trueish,
        },
        _x Foo,
        repeat uint64 int `doc`,
        int64 chars,
    },
    repeat char[0] Foo,
    match trueish as _x {
        007 : falsey,
        // `tick` ""quote"" 'q'
        255 : u,
        1 : msg_type,
        10 : Packet,
    },
    repeat Z9_ `100% of %d`,
}")).
Eval vm_compute in ("<<<M531>>>" ++ check (runes_of_ascii "packet
x
    //
    {
@lengthOf( f32a )
char[] Z9_
    ,
    // packet A { u8 x, }
    } root
packet matchKey { @leftPad ( ) @lengthOf(
    Pad )
// c
//
u32 u8x// @lengthOf(
`
`
,
    @calculatedFrom( ""a	b"" ) packetx//x
, uint8x Z9_`" ++ [233]%N ++ runes_of_ascii "`, u8
Logon , @tag( 255 )@tag(// packet A { u8 x, }
007 )  @lengthOf(matchKey // `tick` ""quote"" 'q'
)
int32 float	, } MetaData calculatedFrom{char[ 10 ]
    BodyLength `two words` ,char[] matchKey
    `say ""hi""`	, //	t
int32 MetaDataX
    // 50% %s
    `u8 x,`//	t
, char[ // trailing space 
65535 ] i64_ , } options { matchKey =
uint32 ; stringy = ""CRC32""
    charz =	' ' ; Z9_ =  true ;}MetaData Logon { f64
    f32a `100% of %d`
    ,
uint16 int`u8 x,` ,  int64
a1	, // `tick` ""quote"" 'q'
int64 roots `a\` ,}

")).
Eval vm_compute in ("<<<M4357>>>" ++ check (runes_of_ascii "// @lengthOf(
root packet T {
    //
    @rightPad(' ')
    @leftPad('0')
    leftPad,
    @leftPad()
    int falsey,
    @calculatedFrom(""// no comment"")
    char[0123456789] calculatedFrom @calculatedFrom(""packet"") `" ++ [233]%N ++ runes_of_ascii "`,
}

root packet float {
    char[4294967296] uint8x,
    string u,
    @lengthOf(Pad)
    i32 lengthOf,
    @calculatedFrom(""abc"")
    x_y_z {
        zchar[0] body @calculatedFrom(""1""),
        float64 packetx @calculatedFrom("""") `crlf
                line`,
        match body as tag {
            00 : chars,
        },
        repeat tag {
            int8 MetaDataX `u8 x,`,
        },
    },
    @tag(7)
    string int @calculatedFrom(""it's""),// c
    @lengthOf(Z9_)
    zchar[42] packetx `it's`,
}")).
Eval vm_compute in ("<<<M4246>>>" ++ check (runes_of_ascii "root packet metadata {
    repeat float32 roots,
    repeat string asx,
    string roots @lengthOf(As),
    char[10] crc @lengthOf(roots) `{ , }`,
    i64 Logon @calculatedFrom(""{,}""),
    i16 options1 @calculatedFrom(""CRC32""),
    @calculatedFrom(""abc"")
    @calculatedFrom(""" ++ [233]%N ++ runes_of_ascii "t" ++ [233]%N ++ runes_of_ascii """)
    zchar[65535] matchKey,
    @rightPad('0')
    repeat matchKey `u8 x,`,
    repeat len,
}

options {
    pack = ' ';
    u8x = char[7];
    i64_ = true;
    calculatedFrom = true;
}

root packet rootA {
    @calculatedFrom(""a\""b"")
    @rightPad('\x00')
    @calculatedFrom(""a\""b"")
    char[] Pad,
}

MetaData i64_ {
    u64 matchKey,
    int64 Foo,
    char[0123456789] BodyLength `
    `,
    tag crc,
}")).
Eval vm_compute in ("<<<M321>>>" ++ check (runes_of_ascii "  packet
leftPad { @leftPad
    ( '\x00') int32
    stringy `it's`
// c
// packet A { u8 x, }
, body { lengthOf x_y_z `line1
line2` ,falsey pack, asx , uint32 trueish	@lengthOf( // trailing space 
MetaDataX
)
`{ , }`	, }	,  @calculatedFrom( """ ++ [128512]%N ++ runes_of_ascii """
) falsey@lengthOf(
f32a) `line1
line2`
,string u128 @calculatedFrom( ""a\""b""  )
, i64 asx@lengthOf( u )	`line1
line2`
    , uint8x @calculatedFrom(""packet"" )`a\`, @calculatedFrom(""`tick`"" ) As  `it's` , @lengthOf( Z9_
) i16 packetx , @lengthOf(BodyLength) stringy @lengthOf(
    Header )`" ++ [233]%N ++ runes_of_ascii "`
, } options// 50% %s
{Foo =	""" ++ [28040; 24687]%N ++ runes_of_ascii """
; BodyLength =
' '
    lengthOf =
""a\""b"" ; stringy= ""abc""; int= false // trailing space 
}")).
Eval vm_compute in ("<<<M3731>>>" ++ check (runes_of_ascii "packet repeatCount {
    repeat uint16 msg_type,
    match u128 as MetaDataX {
        // c
        [007, ""// no comment""] : string_,
        0 : int,
        [
            42, ""`tick`"", 0123456789, ""\" ++ [233]%N ++ runes_of_ascii """, ""1"",
            ""packet"", 255, ""{,}""
        ] : crc,
        0123456789 : rootA,
        // packet A { u8 x, }
        [""\n""] : charz,
        [""packet"", 10] : T,
    },
}// trailing space 

packet options1 {
    @calculatedFrom(""\" ++ [233]%N ++ runes_of_ascii """)
    char[] o `doc`,
}

packet repeatCount {
    char[255] metadata @calculatedFrom(""`tick`""),
    f32a {
        u128 packetx,
        MetaDataX msg_type,
        char[65535] falsey `
        `,
    },
}")).
Eval vm_compute in ("<<<M1069>>>" ++ check (runes_of_ascii "packet
    //x
    Foo{BodyLength body`" ++ [28040; 24687; 31867; 22411]%N ++ runes_of_ascii "` , match calculatedFrom as// @lengthOf(
_x {42 ://
zchar , },leftPad
    // @lengthOf(
    @calculatedFrom(""a	b"" )  `two words` , zchar[ 3] lengthOf, repeat  float64	Pad
, repeat tag	{ char[] lengthOf `// not a comment` ,
    Foo {  uint8x
    roots ,
u8x
    @calculatedFrom(
""`tick`"" ) // `tick` ""quote"" 'q'
`100% of %d`
,
    repeat
Packet // " ++ [27880; 37322]%N ++ runes_of_ascii "
{ zchar[  0 ]As @calculatedFrom(
    // c
    """ ++ [128512]%N ++ runes_of_ascii """
    // " ++ [128512]%N ++ runes_of_ascii " emoji
    ), } , roots @calculatedFrom(""x y"" // 50% %s
),} , },_x@calculatedFrom(	""`tick`""
)
`{ , }`, // packet A { u8 x, }
@rightPad
( ' ' ) uint64 x_y_z , }")).
Eval vm_compute in ("<<<M387>>>" ++ check (runes_of_ascii "
packet u // " ++ [27880; 37322]%N ++ runes_of_ascii "
{ @calculatedFrom( """ ++ [28040; 24687]%N ++ runes_of_ascii """) repeat leftPad
{
// `tick` ""quote"" 'q'
//x
zchar[
    7]
    u
    ,	}
    , @calculatedFrom( ""\n"" )
    @lengthOf(  matchKey
    // a // b
    )
    BodyLength
    @lengthOf(calculatedFrom
    /// triple
    ) `say ""hi""`, len
roots`it's` , match string_ as
    Z9_  {
""abc"" //x
: repeatCount // packet A { u8 x, }
,
//
// c
""abc"" :
lengthOf  7:
Packet , ""a\""b""  :
    falsey
0123456789 :
// " ++ [128512]%N ++ runes_of_ascii " emoji
//x
_x , ""\" ++ [233]%N ++ runes_of_ascii """:
    f32a	} , } MetaData u { // 50% %s
int//	t
uint8x `" ++ [233]%N ++ runes_of_ascii "`	, char[ 1
] roots, char[] _x `it's` ,	BodyLength
trueish `say ""hi""`
    ,}")).
Eval vm_compute in ("<<<M4446>>>" ++ check (runes_of_ascii "packet a1 {
    @rightPad('\x00')
    repeat string x `" ++ [28040; 24687; 31867; 22411]%N ++ runes_of_ascii "`,
}

packet i8i8 {
    zchar[42] matchKey @calculatedFrom(""CRC32"") `it's`,
    _x @calculatedFrom(""x y""),
    float32 Logon @lengthOf(matchKey),
}

MetaData Foo {
    //x
    Foo T,
}

root packet pack {
    //
    @calculatedFrom(""1"")
    Foo `" ++ [28040; 24687; 31867; 22411]%N ++ runes_of_ascii "`,
    @tag(00)
    u64 trueish,
    repeat leftPad float `say ""hi""`,
    i64 u @calculatedFrom(""""),
}

MetaData o {
    char[] i64_,
    body BodyLength `" ++ [233]%N ++ runes_of_ascii "`,
    string Pad `100% of %d`,
    calculatedFrom BodyLength `say ""hi""`,
    zchar[10] x,
    i64 falsey,
}")).
Eval vm_compute in ("<<<M412>>>" ++ check (runes_of_ascii "
options { i64_
=
i32 ;
    msg_type
    =i64 msg_type
    = 007 ; } root
    packet
string_  {@tag( 00 )
//x
// `tick` ""quote"" 'q'
repeatCount i64_ , repeat
uint32 calculatedFrom
, // @lengthOf(
@tag( 4294967296// a // b
)@calculatedFrom( """" ) repeat
char[] calculatedFrom	, } options { roots =""// no comment"";	metadata
= int64 f32a =' ' ;
    i64_	= ""\" ++ [233]%N ++ runes_of_ascii """} packet // @lengthOf(
metadata//	t
{ match
Logon as Logon { 00 :BodyLength 10 : body 255
: //x
trueish , [	42, ""packet"",
""packet"", """ ++ [233]%N ++ runes_of_ascii "t" ++ [233]%N ++ runes_of_ascii """] :
lengthOf
,
} // `tick` ""quote"" 'q'
, } 	 ")).
Eval vm_compute in ("<<<M3797>>>" ++ check (runes_of_ascii "// top
options {
    // c1a
    // c1b
    LittleEndian = true;
    FixedStringPadChar = '0';// c9a
    // c9b
}// c10

packet Heartbeat {
    zchar[5] sym,// c18a
    // c18b
    repeat char[3] OrderId,
}

root packet Quote {
    u64 lastPx,
    repeat u8 venue,
    // c36
    Heartbeat,// c38
    InSym1 {
        // c40a
        // c40b
        char[3] Acct,// c45a
        // c45b
        char[] lastPx,
        // c48
        Heartbeat,
        // c50
        repeat string x,// c54a
        // c54b
    },
}
// c57")).
Eval vm_compute in ("<<<M139>>>" ++ check (runes_of_ascii "root  packet
options1
{repeat Foo { T@lengthOf( leftPad)`two words`
    // a // b
    ,
    // packet A { u8 x, }
    A,Z9_ x`tab	here` , chars
    `a\`,
},@calculatedFrom( ""{,}"" ) // a // b
float32
    // @lengthOf(
    T `{ , }`,
    @lengthOf(
crc )
    char[ 10  ]
    float //	t
, repeat	char[] rootA
    , As
`it's` ,
i16 zchar `" ++ [233]%N ++ runes_of_ascii "` , }packet a1 { @tag( 4294967296) Header { char[] msg_type@calculatedFrom(
    """ ++ [128512]%N ++ runes_of_ascii """	) `` , } /// triple
, char[ 1 ]x, @leftPad (
'0'
    )int64 trueish
, }")).
Eval vm_compute in ("<<<M887>>>" ++ check (runes_of_ascii "packet uint8x{
//	t
// 50% %s
@tag(  0 )repeat MetaDataX {
match
    tag /// triple
as
T {  ""packet"": i8i8 ,
[
    ""\n"" /// triple
] :
    tag ,} , repeat
i32
    //	t
    trueish `say ""hi""` , }
/// triple
// " ++ [128512]%N ++ runes_of_ascii " emoji
, // a // b
}
packet options1
{
match
As as  lengthOf//x
{ [ // 50% %s
65535
    , // packet A { u8 x, }
42
// packet A { u8 x, }
// @lengthOf(
,""it's""  , """ ++ [233]%N ++ runes_of_ascii "t" ++ [233]%N ++ runes_of_ascii """ ,
    0,""1"" ]: i8i8  ,""a\""b""
: body, 00 : MetaDataX // 50% %s
, //x
[00
]// " ++ [27880; 37322]%N ++ runes_of_ascii "
: u8x , }, }")).
Eval vm_compute in ("<<<M415>>>" ++ check (runes_of_ascii "packet _x{uint8 repeatCount `say ""hi""`
,
Foo {i8	stringy
@lengthOf( float ) ``
//x
// trailing space 
,
    uint8x `u8 x,`, repeat
// `tick` ""quote"" 'q'
// " ++ [128512]%N ++ runes_of_ascii " emoji
i8i8
// 50% %s
//
, // c
As {
    _x pack , } ,}  ,}MetaData
    // packet A { u8 x, }
    i8i8  { zchar[	00 // trailing space 
] a1 `doc` // trailing space 
, }
options
// 50% %s
// " ++ [128512]%N ++ runes_of_ascii " emoji
{ } options
    {
    body =	false ; x_y_z  = false ; u128=
    int64 ;
f32a =""it's""; //
}
")).
Eval vm_compute in ("<<<M3770>>>" ++ check (runes_of_ascii "
root  packet

calculatedFrom  {
    T {match stringy  as //	t
	  options1
    {
00:stringy

,
[
    // `tick` ""quote"" 'q'
  1 
] : 
f32a } 

    // " ++ [128512]%N ++ runes_of_ascii " emoji
  // trailing space 
  ,
string
	int
@lengthOf(
    As ) ,
repeat
	lengthOf
    A,}, i8 charz@calculatedFrom(
    ""packet"" 
), uint8	metadata 
@calculatedFrom( 
""packet"" )`u8 x,` //	t
  , match  // " ++ [128512]%N ++ runes_of_ascii " emoji
    	Packet	as

    u128
    { ""a	b"" :x, // c
	  } ,
    }
")).
Eval vm_compute in ("<<<M449>>>" ++ check (runes_of_ascii "root packet roots { } packet repeatCount
    {f32 lengthOf ,}
packet f32a {
uint64
    lengthOf @lengthOf( Foo ) ,
    @lengthOf( As)/// triple
@tag( 0)match chars
// @lengthOf(
// trailing space 
as // a // b
uint8x{ [ ""x y""
, ""// no comment""	] // 50% %s
:
    // trailing space 
    stringy // " ++ [27880; 37322]%N ++ runes_of_ascii "
,[ 1 ] : A,
""`tick`"" :
// c
/// triple
metadata 10 :
// a // b
//
zchar 007 :  u128, } ,	string_ , x_y_z ``, }
")).
Eval vm_compute in ("<<<M3443>>>" ++ check (runes_of_ascii "
packet
    Frame
{	u8	HK ,  u8	BK ,
u8	TK,  match	HK  as Hdr

{ 1
:
    HdrA	, 2
:HdrB
,}

,
	match
	BK  as
    Body
	{
1: BodyA ,

    2:

    BodyB
,

    }  ,
	match
TK
as  Trl

{	1 :TrlA
, }
,} packet
	HdrA

{
u8  a	,} 
packet HdrB {u16

    b

,}	packet
BodyA
	{
u32
c

, }
packet
BodyB
{u64	d	,	}  packet 
TrlA	{
    u8
	e, }
root

packet
Msg

    {
Frame	,

    u8  x,

}
")).
Eval vm_compute in ("<<<M3654>>>" ++ check (runes_of_ascii "// " ++ [128512]%N ++ runes_of_ascii " emoji
root packet T {
    int16 a1,
    tag {
        u16 stringy,
    },
    MetaDataX crc,
    i16 stringy @calculatedFrom(""x y""),
    match int as BodyLength {
        1 : Header,
        [0] : tag,
        """ ++ [28040; 24687]%N ++ runes_of_ascii """ : asx,
        // " ++ [27880; 37322]%N ++ runes_of_ascii "
        // trailing space 
    },
    @leftPad(' ')
    metadata `it's`,
    len @lengthOf(metadata),
    zchar[65535] A @lengthOf(trueish),
}//")).
Eval vm_compute in ("<<<M3816>>>" ++ check (runes_of_ascii "// `tick` ""quote"" 'q'
root packet zchar {
    // @lengthOf(
    //x
    match packetx as u128 {
        65535 : f32a,
        ""abc"" : stringy,
        ""// no comment"" : uint8x,
        // a // b
        [""packet""] : msg_type,
        ""`tick`"" : BodyLength,
        00 : stringy,
    },
}

root packet lengthOf {
    @calculatedFrom(""packet"")
    char[] trueish,
}")).
Eval vm_compute in ("<<<M4021>>>" ++ check (runes_of_ascii "// top
packet Logon {
    string user,// c5
}// c6a

// c6b
root packet Frame {
    // c10
    u8 K,
    // c13
    match K as Body {
        1 : Logon,
        // c22
        2 : Logout,
        // c26
    },
    // c28
    Tail,
}

packet Logout {
    // c34
    u16 reason,// c37
}

// c38
packet Tail {
    u32 crc,// c44a
    // c44b
}
// c45")).
Eval vm_compute in ("<<<M332>>>" ++ check (runes_of_ascii "MetaData Z9_
    {//
char[] u128/// triple
`" ++ [28040; 24687; 31867; 22411]%N ++ runes_of_ascii "`// `tick` ""quote"" 'q'
,	float64
BodyLength ,roots MetaDataX `
`,
    packetx falsey ,
// trailing space 
// packet A { u8 x, }
i16 body // `tick` ""quote"" 'q'
,
    f64 i64_ , } options {u8x =""x y"" ; packetx = 255
    ; f32a	=""it's""	} packet u128{ T //	t
@calculatedFrom(  ""a\\"" ) ,}")).
Eval vm_compute in ("<<<M3682>>>" ++ check (runes_of_ascii "// top
root packet trueish {
    // c3
}// c4

MetaData x_y_z {
    // c7
    zchar[7] body,// c12
    BodyLength _x,// c15
    i8i8 As,// c18
    i8 Foo,// c21
}// c22

packet f32a {
    // c25
    @lengthOf(x)
    // c28
    match Foo as trueish {
        // c33
        10 : f32a,
        // c37
    },// c39
}// c40")).
Eval vm_compute in ("<<<M3977>>>" ++ check (runes_of_ascii "
packet x_y_z
{@lengthOf( leftPad) float{
int32 Header  , matchKey
asx, 
// " ++ [27880; 37322]%N ++ runes_of_ascii "
  match
metadata as
	pack	{
""\" ++ [233]%N ++ runes_of_ascii """ :
packetx
,

    ""CRC32""
	:
    Packet
    ,  255

    // " ++ [27880; 37322]%N ++ runes_of_ascii "
      /// triple
	: f32a 
""// no comment"": 
len
    ""// no comment"" 	 // " ++ [27880; 37322]%N ++ runes_of_ascii "
:

float  ,007
    : Header 
,

    }  ,
    },}

")).
Eval vm_compute in ("<<<M1253>>>" ++ check (runes_of_ascii "root// @lengthOf(
packet tag{ }
packet //
MetaDataX  { lengthOf T ,@lengthOf(
roots )
@lengthOf( MetaDataX
) int32 Packet , @rightPad
    ( ' ' ) i8i8 {	char Packet @lengthOf( crc )`{ , }` , }
// trailing space 
// @lengthOf(
,
    //	t
    @calculatedFrom(	"""" ) repeat zchar[ 255
]i64_
,}
")).
Eval vm_compute in ("<<<M3955>>>" ++ check (runes_of_ascii "  packet Foo{repeat  int16

    u8x ,
    //
    	// packet A { u8 x, }

	} 
options
    {
// `tick` ""quote"" 'q'
  //

	x=  // packet A { u8 x, }

  0123456789

;	BodyLength

    =
	zchar[
00 ]

f32a =

    false  ;

    // 50% %s

stringy=
    int32 
}
	packet zchar{  }
")).
Eval vm_compute in ("<<<M4421>>>" ++ check (runes_of_ascii "  MetaData
	pack // packet A { u8 x, }
	  {
	calculatedFrom

    Pad ,o  f32a 
`doc`,	char[ 0123456789] Z9_ 
`line1
line2`
,
	string  string_
	`it's`

    ,  }

options
    {
As=	'0'  ;

    x_y_z  =
255
;
A  =

' '  a1
    =
	i16
	; zchar = 
0

}	MetaData crc {
}")).
Eval vm_compute in ("<<<M1537>>>" ++ check (runes_of_ascii "// 50% %s
packet	a1
    { zchar[
// a // b
// 50% %s
007 007]
T `it's`
    ,@rightPad
    // a // b
    (
'\x00')
    o repeatCount , }  packet Logon {  }packet	Logon //x
{ repeat // " ++ [128512]%N ++ runes_of_ascii " emoji
uint16 u128
    //
    `a\`,
falsey
@calculatedFrom(""packet"" ) ,
    } 	 ")).
Eval vm_compute in ("<<<M1682>>>" ++ check (runes_of_ascii "// 50% %s
packet	a1
    { zchar[
// a // b
// 50% %s
007]
T `it's`
    ,@rightPad
    // a // b
    (
'\x00')
    o repeatCount , }  packet Logon {  }packet	Logon //x
{ repeat // " ++ [128512]%N ++ runes_of_ascii " emoji
uint16 u128
    //
    `a\`,
falsey
@calculatedFrom(""packet"" ) , ,
    } 	 ")).
Eval vm_compute in ("<<<M1568>>>" ++ check (runes_of_ascii "// 50% %s
packet	a1
    { zchar[
// a // b
// 50% %s
007]
T `it's`
    ,@rightPad
    // a // b
    '\x00'
()
    o repeatCount , }  packet Logon {  }packet	Logon //x
{ repeat // " ++ [128512]%N ++ runes_of_ascii " emoji
uint16 u128
    //
    `a\`,
falsey
@calculatedFrom(""packet"" ) ,
    } 	 ")).
Eval vm_compute in ("<<<M1546>>>" ++ check (runes_of_ascii "// 50% %s
packet	a1
    { zchar[
// a // b
// 50% %s
007]
 `it's`
    ,@rightPad
    // a // b
    (
'\x00')
    o repeatCount , }  packet Logon {  }packet	Logon //x
{ repeat // " ++ [128512]%N ++ runes_of_ascii " emoji
uint16 u128
    //
    `a\`,
falsey
@calculatedFrom(""packet"" ) ,
    } 	 ")).
Eval vm_compute in ("<<<M1629>>>" ++ check (runes_of_ascii "// 50% %s
packet	a1
    { zchar[
// a // b
// 50% %s
007]
T `it's`
    ,@rightPad
    // a // b
    (
'\x00')
    o repeatCount , }  packet Logon {  }packet	] //x
{ repeat // " ++ [128512]%N ++ runes_of_ascii " emoji
uint16 u128
    //
    `a\`,
falsey
@calculatedFrom(""packet"" ) ,
    } 	 ")).
Eval vm_compute in ("<<<M1671>>>" ++ check (runes_of_ascii "// 50% %s
packet	a1
    { zchar[
// a // b
// 50% %s
007]
T `it's`
    ,@rightPad
    // a // b
    (
'\x00')
    o repeatCount , }  packet Logon {  }packet	Logon //x
{ repeat // " ++ [128512]%N ++ runes_of_ascii " emoji
uint16 u128
    //
    `a\`,
falsey
@calculatedFrom( ) ,
    } 	 ")).
Eval vm_compute in ("<<<M981>>>" ++ check (runes_of_ascii "packet
    len {
    match As  as
f32a { ""a\\"" :
Foo , [
    00 , """ ++ [233]%N ++ runes_of_ascii "t" ++ [233]%N ++ runes_of_ascii """
]
    : Packet // " ++ [27880; 37322]%N ++ runes_of_ascii "
,
""abc"":i8i8,
    42 //x
: falsey	, //
} , @tag( 00 ) // `tick` ""quote"" 'q'
leftPad @lengthOf( len
// a // b
// " ++ [27880; 37322]%N ++ runes_of_ascii "
) `u8 x,` , repeat
int64 i64_ , }
")).
Eval vm_compute in ("<<<M3386>>>" ++ check (runes_of_ascii "// top
options
    // c0
{ // c1a
  // c1b
FixedStringPadFromLeft = // c3
true // c4
; }
    // c6
root packet // c8
P // c9a
  // c9b
{ // c10
char[ // c11a
  // c11b
4 // c12
]
    // c13
z
    // c14
, // c15a
  // c15b
}
    // c16
")).
Eval vm_compute in ("<<<M3491>>>" ++ check (runes_of_ascii "packet Sub {
    u8 a,
    @calculatedFrom(""CRC16"") i16 SubSum,
}
root packet Frame {
    u16 MsgType,
    u16 BodyLen @lengthOf(Body),
    Sub Body,
    string note,
    @calculatedFrom(""CRC16"") i16 Checksum,
    u8 tail,
}
")).
Eval vm_compute in ("<<<M1256>>>" ++ check (runes_of_ascii "MetaData o { char[]	Header `
`
    ,stringy
    trueish
, Logon a1
    `line1
line2`
// " ++ [128512]%N ++ runes_of_ascii " emoji
//	t
, } root packet// a // b
uint8x
    { @lengthOf(zchar	)	@tag( 4294967296	)
@leftPad ( '\x00'	)repeat BodyLength ,}
")).
Eval vm_compute in ("<<<M1393>>>" ++ check (runes_of_ascii "packet Header{
    // c
    char[
//x
// trailing space 
4294967296]
trueish @lengthOf( x_y_z )
    `a\`
    ,@tag( 1 ) i32// a // b
uint8x
`tab	here` ,
    @tag(3 )
repeat u8 A
    `it's`,
    char[]f32a, }")).
Eval vm_compute in ("<<<M864>>>" ++ check (runes_of_ascii "packet a1 { @rightPad(
    ) zchar[ 7 ]BodyLength
, }MetaData repeatCount { pack calculatedFrom //	t
,
Header uint8x/// triple
,string_ tag,// " ++ [27880; 37322]%N ++ runes_of_ascii "
options1 rootA
    //	t
    ,} // trailing space ")).
Eval vm_compute in ("<<<M4099>>>" ++ check (runes_of_ascii "packet calculatedFrom {
    match _x as MetaDataX {
        ""// no comment"" : T,
    },
}

packet options1 {
}

packet Logon {
    f32 falsey @calculatedFrom(""" ++ [128512]%N ++ runes_of_ascii """),
}
// packet A { u8 x, }")).
Eval vm_compute in ("<<<M925>>>" ++ check (runes_of_ascii "packet
body { repeat char[	0123456789]
u128 `doc` ,
    }  options {
    chars =
7 asx = ""abc"" T = char ;
//	t
// trailing space 
a1 // `tick` ""quote"" 'q'
= int8 tag =	""" ++ [128512]%N ++ runes_of_ascii """ ;
}
")).
Eval vm_compute in ("<<<M3988>>>" ++ check (runes_of_ascii "
root 
packet
T {

    @leftPad// " ++ [128512]%N ++ runes_of_ascii " emoji
(  '0'
	)repeat

leftPad  {

    char[
	3	]roots
, } 
,
	}  packet
_x

{
    int32
    int @calculatedFrom(
""\n"" )

,

}
")).
Eval vm_compute in ("<<<M3801>>>" ++ check (runes_of_ascii "MetaData BodyLength {
    int8 Foo,
    string MetaDataX,
    float zchar,
    string options1,
    asx string_,
}

packet u8x {
    Foo @lengthOf(charz) `" ++ [28040; 24687; 31867; 22411]%N ++ runes_of_ascii "`,
}")).
Eval vm_compute in ("<<<M4102>>>" ++ check (runes_of_ascii "packet A {
    match k as n {
        [
            1, 22, ""c c"", 4, 5,
            ""f"", 7, 8, ""i"", 10,
            11
        ] : B,
        2 : C,
    },
}")).
Eval vm_compute in ("<<<M4168>>>" ++ check (runes_of_ascii "packet A {
    u8 a,
}

packet B {
    u16 b,
}

root packet P {
    u8 K,
    match K as M {
        [1, 2] : A,
        3 : B,
        7 : A,
    },
}")).
Eval vm_compute in ("<<<M3368>>>" ++ check (runes_of_ascii "// top
root // c0
packet P
    // c2
{ hdr // c4a
  // c4b
{ // c5a
  // c5b
u8 a
    // c7
,
    // c8
} // c9a
  // c9b
, // c10
u8 // c11
x , } ")).
Eval vm_compute in ("<<<M2205>>>" ++ check (runes_of_ascii "MetaData BodyLength
{ int8 Foo
, string
    MetaDataX , float zchar ,pack options1
,asx string_\ , }
packet u8x {Foo@lengthOf(charz )
`" ++ [28040; 24687; 31867; 22411]%N ++ runes_of_ascii "`,  }
")).
Eval vm_compute in ("<<<M2048>>>" ++ check (runes_of_ascii "BodyLength MetaData
{ int8 Foo
, string
    MetaDataX , float zchar ,pack options1
,asx string_, }
packet u8x {Foo@lengthOf(charz )
`" ++ [28040; 24687; 31867; 22411]%N ++ runes_of_ascii "`,  }
")).
Eval vm_compute in ("<<<M4230>>>" ++ check (runes_of_ascii "
packet  A{ 
match k  as
n {
[
	""a""
, ""bb""
,	""c c""

,
	""d"" 
,
	""e""
, ""f"" ,
""g"" ,

""h"" , ""i""
    ,
""j"" , 
""k""
,	""l""
]	:B , 2 :
	C
    } , 
} ")).
Eval vm_compute in ("<<<M2148>>>" ++ check (runes_of_ascii "MetaData BodyLength
{ int8 Foo
, string
    MetaDataX , float zchar ,pack options1
,asx string_, }
packet ( {Foo@lengthOf(charz )
`" ++ [28040; 24687; 31867; 22411]%N ++ runes_of_ascii "`,  }
")).
Eval vm_compute in ("<<<M923>>>" ++ check (runes_of_ascii "packet charz //
{ char float , //x
} packet float {
    // @lengthOf(
    zchar[ 0123456789 ] trueish
    @lengthOf( i8i8
) , i64 Pad  , }")).
Eval vm_compute in ("<<<M2095>>>" ++ check (runes_of_ascii "MetaData BodyLength
{ int8 Foo
, string
    MetaDataX , float  ,pack options1
,asx string_, }
packet u8x {Foo@lengthOf(charz )
`" ++ [28040; 24687; 31867; 22411]%N ++ runes_of_ascii "`,  }
")).
Eval vm_compute in ("<<<M2254>>>" ++ check (runes_of_ascii "options
    {
x_y_z// " ++ [27880; 37322]%N ++ runes_of_ascii "
= 10 ; }
packet body { {
    @calculatedFrom(
// trailing space 
// " ++ [27880; 37322]%N ++ runes_of_ascii "
""1""
)	match T as Foo
    {
255 :T , }
,}")).
Eval vm_compute in ("<<<M2336>>>" ++ check (runes_of_ascii "options
    {
x_y_z// " ++ [27880; 37322]%N ++ runes_of_ascii "
= 10 ; }
packet body {
    @calculatedFrom(
// trailing space 
// " ++ [27880; 37322]%N ++ runes_of_ascii "
""1""
)	match T` as Foo
    {
255 :T , }
,}")).
Eval vm_compute in ("<<<M2008>>>" ++ check (runes_of_ascii "
packet leftPad {
@leftPad( '0')
u32
i64_ `100% of %d` ,repeat// 50% %s
i8 chars
    ,
} f32a
    MetaData
{ // packet A { u8 x, }
}")).
Eval vm_compute in ("<<<M2325>>>" ++ check (runes_of_ascii "options
    {
x_y_z// " ++ [27880; 37322]%N ++ runes_of_ascii "
= 10 ; }
packet body {
    @calculatedFrom(
// trailing space 
// " ++ [27880; 37322]%N ++ runes_of_ascii "
""1""
)	match T as Foo
    {
255 :T , }
},")).
Eval vm_compute in ("<<<M2313>>>" ++ check (runes_of_ascii "options
    {
x_y_z// " ++ [27880; 37322]%N ++ runes_of_ascii "
= 10 ; }
packet body {
    @calculatedFrom(
// trailing space 
// " ++ [27880; 37322]%N ++ runes_of_ascii "
""1""
)	match T as Foo
    {
255 :T  }
,}")).
Eval vm_compute in ("<<<M735>>>" ++ check (runes_of_ascii "options {
A =""{,}"" ; tag = false
// @lengthOf(
// 50% %s
; string_=
    // a // b
    '\x00' ; u
=
zchar[ 42
]  string_  = ""\" ++ [233]%N ++ runes_of_ascii """
}
")).
Eval vm_compute in ("<<<M1391>>>" ++ check (runes_of_ascii "
root
packet
    MetaDataX {  } //x
MetaData
//
//
_x {
// `tick` ""quote"" 'q'
//x
char[]
    x
//x
// c
,
MetaDataX zchar ,  }
")).
Eval vm_compute in ("<<<M4468>>>" ++ check (runes_of_ascii "MetaData lengthOf {
    len a1 `a\`,
    As x_y_z `" ++ [28040; 24687; 31867; 22411]%N ++ runes_of_ascii "`,
    metadata x,
    calculatedFrom string_ `doc`,
}// trailing space ")).
Eval vm_compute in ("<<<M1286>>>" ++ check (runes_of_ascii "options // 50% %s
{u128 // @lengthOf(
= // packet A { u8 x, }
zchar[3 ] ; body=
""a\""b""
    //x
    ;  options1 =false ;	}
")).
Eval vm_compute in ("<<<M3695>>>" ++ check (runes_of_ascii "packet A {
    u16 len @lengthOf(body) `
        `,
    u32 crc @calculatedFrom(""CRC32"") `
        `,
    string body,
}")).
Eval vm_compute in ("<<<M1242>>>" ++ check (runes_of_ascii "MetaData body
// c
// packet A { u8 x, }
{tag
    A `
`	, i8
    leftPad, charz roots// `tick` ""quote"" 'q'
`a\` , }
")).
Eval vm_compute in ("<<<M1917>>>" ++ check (runes_of_ascii "packet o {
    roots `it%'s`
// trailing space 
//x
, char[ 42
    ]  A, // " ++ [27880; 37322]%N ++ runes_of_ascii "
f64
repeatCount
    `crlf
line`
,}")).
Eval vm_compute in ("<<<M3056>>>" ++ check (runes_of_ascii "packet A {
    u16 len @lengthOf(body) `tab
	x`,
    u32 crc @calculatedFrom(""CRC32"") `tab
	x`,
    string body,
}")).
Eval vm_compute in ("<<<M3516>>>" ++ check (runes_of_ascii "//	t
packet repeatCount {
    @tag(10)
    int32 BodyLength @lengthOf(x_y_z),
    a1 calculatedFrom,/// triple
}")).
Eval vm_compute in ("<<<M764>>>" ++ check (runes_of_ascii "MetaData
    //x
    stringy  { char[] A , BodyLength stringy ,
int
    //x
    lengthOf , Pad crc `{ , }`, }")).
Eval vm_compute in ("<<<M2997>>>" ++ check (runes_of_ascii "packet A {
  match k as n {
    [""a"", ""bb"", 007, ""d"", ""e"", 66, ""g"", ""h"", 9, ""j"", ""k""] : B
    2 : C
  },
}")).
Eval vm_compute in ("<<<M328>>>" ++ check (runes_of_ascii "options
    { float/// triple
=char[ 3 ]	metadata	= /// triple
char[ 42 ]; string_=""a\\"" }
/// triple
")).
Eval vm_compute in ("<<<M141>>>" ++ check (runes_of_ascii "root packet
chars{ @rightPad
    ( )o { roots `100% of %d` ,repeat uint64 pack
`` ,} // " ++ [128512]%N ++ runes_of_ascii " emoji
, }
")).
Eval vm_compute in ("<<<M2949>>>" ++ check (runes_of_ascii "packet A {
  match k as n {
    [""a"", ""bb"", ""c c"", ""d"", ""e"", ""f"", ""g"", ""h""] : B,
    2 : C
  },
}")).
Eval vm_compute in ("<<<M2134>>>" ++ check (runes_of_ascii "MetaData BodyLength
{ int8 Foo
, string
    MetaDataX , float zchar ,pack options1
,asx string_")).
Eval vm_compute in ("<<<M1768>>>" ++ check (runes_of_ascii "options{  lengthOf =//x
i16;
    BodyLength = 0 ; pack
@lengthOf( false;
    A = char[ 3 ] }")).
Eval vm_compute in ("<<<M1817>>>" ++ check (runes_of_ascii "options{  lengthOf =//x
@leftpadi16;
    BodyLength = 0 ; pack
= false;
    A = char[ 3 ] }")).
Eval vm_compute in ("<<<M1190>>>" ++ check (runes_of_ascii "root packet f32a
    {@tag( 1
)@lengthOf( trueish	) @tag( 4294967296)
u8x
`{ , }`,
    }
")).
Eval vm_compute in ("<<<M3360>>>" ++ check (runes_of_ascii "
options
{LittleEndian 
=
true;

} root packet	P {
	repeat
	char cs

    , u8 x ,
    } ")).
Eval vm_compute in ("<<<M1731>>>" ++ check (runes_of_ascii "options{  lengthOf =//x
i16 i16;
    BodyLength = 0 ; pack
= false;
    A = char[ 3 ] }")).
Eval vm_compute in ("<<<M1716>>>" ++ check (runes_of_ascii "options{ {  lengthOf =//x
i16;
    BodyLength = 0 ; pack
= false;
    A = char[ 3 ] }")).
Eval vm_compute in ("<<<M1737>>>" ++ check (runes_of_ascii "options{  lengthOf =//x
i16 BodyLength
    ; = 0 ; pack
= false;
    A = char[ 3 ] }")).
Eval vm_compute in ("<<<M1782>>>" ++ check (runes_of_ascii "options{  lengthOf =//x
i16;
    BodyLength = 0 ; pack
= false;
    = A char[ 3 ] }")).
Eval vm_compute in ("<<<M2939>>>" ++ check (runes_of_ascii "packet A {
  match k as n {
    [1, ""bb"", 007, ""d"", 5, ""f"", 7] : B
    2 : C
  },
}")).
Eval vm_compute in ("<<<M3417>>>" ++ check (runes_of_ascii "packet orderItem {
    u8 a,
}
root packet newOrder {
    orderItem,
    u8 x,
}
")).
Eval vm_compute in ("<<<M2929>>>" ++ check (runes_of_ascii "packet A {
  match k as n {
    [1, 22, ""c c"", 4, 5, ""f""] : B,
    2 : C
  },
}")).
Eval vm_compute in ("<<<M3272>>>" ++ check (runes_of_ascii "MetaData Foo { zchar[ 0 ] matchKey , } options { lengthOf = i32
// c
u = 00 ; }")).
Eval vm_compute in ("<<<M1276>>>" ++ check (runes_of_ascii "options { asx = 00 ; string_ =	7 ;x_y_z
= // trailing space 
0123456789 ; }
")).
Eval vm_compute in ("<<<M3361>>>" ++ check (runes_of_ascii "packet Inner {
    u8 a,
}
root packet P {
    Inner ref_obj,
    u8 x,
}
")).
Eval vm_compute in ("<<<M4391>>>" ++ check (runes_of_ascii "packet o {
    roots `it's`,
    char[42] A,// " ++ [27880; 37322]%N ++ runes_of_ascii "
    f64 repeatCount,
}")).
Eval vm_compute in ("<<<M1216>>>" ++ check (runes_of_ascii "
MetaData MetaDataX
    { u64	f32a, metadata lengthOf
    //x
    , }")).
Eval vm_compute in ("<<<M2755>>>" ++ check (runes_of_ascii "true crc Pad int false char[ 65535 `it's` zchar[ @lengthOf( float64")).
Eval vm_compute in ("<<<M2700>>>" ++ check (runes_of_ascii "@calculatedFrom( @calculatedFrom( true @leftPad true string char[")).
Eval vm_compute in ("<<<M3998>>>" ++ check (runes_of_ascii "options {
    rootA = false;
    u = 0123456789;
    i64_ = 0
}")).
Eval vm_compute in ("<<<M3296>>>" ++ check (runes_of_ascii "packet u8x {
// c
} MetaData crc { char[ 4294967296 ] Foo , }")).
Eval vm_compute in ("<<<M3043>>>" ++ check (runes_of_ascii "packet A {
    B b `x
`,
    B `x
`,
    repeat B bs `x
`,
}")).
Eval vm_compute in ("<<<M2842>>>" ++ check (runes_of_ascii "i8 root root 10 [ [ u32 } u8 zchar[ char packet char[] u64")).
Eval vm_compute in ("<<<M897>>>" ++ check (runes_of_ascii "
packet body { @tag(
255 ) int @lengthOf( float )
,}
")).
Eval vm_compute in ("<<<M299>>>" ++ check (runes_of_ascii "MetaData
i64_ {// a // b
int16
tag// c
`" ++ [28040; 24687; 31867; 22411]%N ++ runes_of_ascii "` , }

")).
Eval vm_compute in ("<<<M1764>>>" ++ check (runes_of_ascii "options{  lengthOf =//x
i16;
    BodyLength = 0 ;")).
Eval vm_compute in ("<<<M4369>>>" ++ check (runes_of_ascii "

  options

{ } 
      // packet A { u8 x, }
")).
Eval vm_compute in ("<<<M850>>>" ++ check (runes_of_ascii "options { matchKey
// c
//x
=
false
;
    }
")).
Eval vm_compute in ("<<<M587>>>" ++ check (runes_of_ascii "  packet x {tag// trailing space 
,
    }
")).
Eval vm_compute in ("<<<M2252>>>" ++ check (runes_of_ascii "options
    {
x_y_z// " ++ [27880; 37322]%N ++ runes_of_ascii "
= 10 ; }
packet")).
Eval vm_compute in ("<<<M3226>>>" ++ check (runes_of_ascii "root packet u128
// c
{ chars `doc` , }")).
Eval vm_compute in ("<<<M4225>>>" ++ check (runes_of_ascii "MetaData zchar {
    zchar[007] asx,
}")).
Eval vm_compute in ("<<<M2388>>>" ++ check (runes_of_ascii "MetaData
Foo {Header //
#pack ,	} 	 ")).
Eval vm_compute in ("<<<M2568>>>" ++ check (runes_of_ascii "packet A { repeat x @lengthOf(y), }")).
Eval vm_compute in ("<<<M3206>>>" ++ check (runes_of_ascii "packet A { @tag( // a
 1 ) u8 x, }")).
Eval vm_compute in ("<<<M2665>>>" ++ check (runes_of_ascii "options { a = 1; b = 2 c = 3;; }")).
Eval vm_compute in ("<<<M2859>>>" ++ check (runes_of_ascii "X9" ++ [25]%N ++ runes_of_ascii "j" ++ [65533; 65533; 65533; 7; 65533; 65533]%N ++ runes_of_ascii "*" ++ [65533]%N ++ runes_of_ascii "N" ++ [65533]%N ++ runes_of_ascii "(" ++ [65533]%N ++ runes_of_ascii "(tEB" ++ [22]%N ++ runes_of_ascii "H" ++ [701; 65533; 65533; 1133]%N ++ runes_of_ascii "E" ++ [27]%N ++ runes_of_ascii "2" ++ [65533]%N ++ runes_of_ascii "D")).
Eval vm_compute in ("<<<M3174>>>" ++ check (runes_of_ascii "packet A {
 u8 x `d" ++ [6158]%N ++ runes_of_ascii "`, // c" ++ [6158]%N ++ runes_of_ascii "
}")).
Eval vm_compute in ("<<<M2698>>>" ++ check (runes_of_ascii "YB" ++ [65533]%N ++ runes_of_ascii "[" ++ [65533]%N ++ runes_of_ascii "r" ++ [65533; 18]%N ++ runes_of_ascii "in'" ++ [65533]%N ++ runes_of_ascii "|" ++ [65533]%N ++ runes_of_ascii "X(}" ++ [65533]%N ++ runes_of_ascii "/I" ++ [65533; 1083]%N ++ runes_of_ascii "V" ++ [65533]%N ++ runes_of_ascii """" ++ [65533]%N ++ runes_of_ascii "t" ++ [65533]%N)).
Eval vm_compute in ("<<<M2746>>>" ++ check (runes_of_ascii "YpQ%cpp[Zf6R(L 6lYk ZM4G'Ou")).
Eval vm_compute in ("<<<M811>>>" ++ check (runes_of_ascii "// trailing space 
 // " ++ [27880; 37322]%N)).
Eval vm_compute in ("<<<M3814>>>" ++ check (runes_of_ascii "MetaData uint8x {
}// " ++ [27880; 37322]%N)).
Eval vm_compute in ("<<<M2730>>>" ++ check ([21; 65533]%N ++ runes_of_ascii "jK" ++ [65533; 496; 65533]%N ++ runes_of_ascii "^" ++ [65533]%N ++ runes_of_ascii "	" ++ [8]%N ++ runes_of_ascii "K" ++ [65533]%N ++ runes_of_ascii "<" ++ [65533; 29; 65533]%N ++ runes_of_ascii "Hwe:" ++ [65533]%N)).
Eval vm_compute in ("<<<M580>>>" ++ check (runes_of_ascii "packet MetaDataX {}
")).
Eval vm_compute in ("<<<M2653>>>" ++ check (runes_of_ascii "MetaData M { x y, }")).
Eval vm_compute in ("<<<M3107>>>" ++ check (runes_of_ascii "packet A {
}
// c" ++ [133]%N)).
Eval vm_compute in ("<<<M389>>>" ++ check (runes_of_ascii "options
    { }

")).
Eval vm_compute in ("<<<M3165>>>" ++ check (runes_of_ascii "packet A {
}// c" ++ [65279]%N)).
Eval vm_compute in ("<<<M2574>>>" ++ check (runes_of_ascii "packet A { u8 }")).
Eval vm_compute in ("<<<M3915>>>" ++ check (runes_of_ascii "  //x
// c
")).
Eval vm_compute in ("<<<M1520>>>" ++ check (runes_of_ascii "// 50% %s
")).
Eval vm_compute in ("<<<M2054>>>" ++ check (runes_of_ascii "MetaData")).
Eval vm_compute in ("<<<M2435>>>" ++ check (runes_of_ascii "char [")).
Eval vm_compute in ("<<<M2474>>>" ++ check (runes_of_ascii "match")).
Eval vm_compute in ("<<<M513>>>" ++ check (runes_of_ascii " //x")).
Eval vm_compute in ("<<<M2445>>>" ++ check (runes_of_ascii "u8x")).
Eval vm_compute in ("<<<M273>>>" ++ check (runes_of_ascii "
")).
Eval vm_compute in ("<<<M2564>>>" ++ check ([21517]%N)).
