From FP Require Import Lexer Parser ShowPT Digest Formatter.
From Coq Require Import String List NArith.
Import ListNotations.
Open Scope string_scope.
Set Printing Width 100000000.
Set Printing Depth 100000000.
Definition show_fres (r : fres) : string :=
  match r with
  | FOk s => "OK:" ++ sh_escaped s ""
  | FErr s => "ERR:" ++ sh_escaped s ""
  | FPanic p => "PANIC:" ++ p
  end.
Definition check (rs : list rune) : string := digest (show_fres (format_res rs)).
Definition full (rs : list rune) : string := show_fres (format_res rs).
Eval vm_compute in ("<<<M1930>>>" ++ check (runes_of_ascii "//	t

packet 
MetaDataX

{@leftPad(  )
repeat

    float64 
asx 
, } MetaData 
Foo
{  // a // b
	char[
65535
	]Pad , }
    packet body  // 50% %s
{

    match 
asx	as
    charz
{  // `tick` ""quote"" 'q'
	  10
: u8x	,

    ""it's""
    : 
leftPad

    , 3
: metadata 
        // trailing space 
    //x
  	, ""it's""
    : x, [ 65535 ,  """ ++ [233]%N ++ runes_of_ascii "t" ++ [233]%N ++ runes_of_ascii """
]
	:
    u128  ,
    10

:	// @lengthOf(

len
	},repeat
f32  rootA
	``

    , // 50% %s
  @leftPad( 

//
  ' '
    )

repeat

    i64  BodyLength // c
  , repeatCount

    {
i16  crc
@lengthOf(	u128

)  ,
    }
    ,
u16  // " ++ [27880; 37322]%N ++ runes_of_ascii "
	  u  @lengthOf( f32a

    ) 
`// not a comment` , // trailing space 
  len
{

match
    Logon
as // @lengthOf(
      Foo
	{""" ++ [233]%N ++ runes_of_ascii "t" ++ [233]%N ++ runes_of_ascii """
	: stringy

    ,
10 :msg_type ,  //	t
	[
""\n""
,""`tick`""
,
""abc""

,""""  ,  007  ,  1 
,	""a\""b""
	]  :
i64_ 	 // packet A { u8 x, }

  ,255  
  //x
    : T
    ,

""{,}"":
f32a
    },

string

    tag @lengthOf(Z9_ ), 
  // a // b
u32 charz
    `crlf
line`	,
u8x @lengthOf( 	 /// triple
      rootA
    )
,}, float
	,
int8  repeatCount
@lengthOf(f32a

)
`crlf
line`

    ,
    zchar[
    // packet A { u8 x, }
      7  // a // b
	]
    BodyLength 
@lengthOf(  string_  // a // b

)	,

    } 
packet u128  {	x  `// not a comment`,
}//

packet

x { 
A`doc`

    ,
	Packet 
@calculatedFrom(	// `tick` ""quote"" 'q'
    ""\" ++ [233]%N ++ runes_of_ascii """
    )

`say ""hi""` , repeat  string
asx 
, @lengthOf(

MetaDataX

)
	repeat char[4294967296  //
		] 
string_	`u8 x,`

,
@lengthOf( charz ) char[

    0123456789
	]
	f32a
    `say ""hi""`
,  }

")).
Eval vm_compute in ("<<<M381>>>" ++ check (runes_of_ascii "options {
    StringPrefixLenType = u16;
    ArrayPrefixLenType = u16;
}

packet SampleBinary {
    uint16 MsgType `" ++ [28040; 24687; 31867; 22411]%N ++ runes_of_ascii "`,
    u16 BodyLenght @lengthOf(Body) `" ++ [28040; 24687; 20307; 38271; 24230]%N ++ runes_of_ascii "`,
    match MsgType as Body {
        1 : Logon,
        2 : Logout,
        3 : Heartbeat,
        4 : RiskControlRequest,
        5 : RiskControlResponse,
    },
    @calculatedFrom(""CRC32"")
    u32 Ckecksum `" ++ [26657; 39564; 21644]%N ++ runes_of_ascii "`,
}

packet Logon {
    @leftPad('0')
    char[10] UserName `" ++ [29992; 25143; 21517]%N ++ runes_of_ascii "`,
    string Password `" ++ [23494; 30721]%N ++ runes_of_ascii "`,
    uint64 ClientId `" ++ [23458; 25143; 31471]%N ++ runes_of_ascii "ID`,
    u16 HeartbeatInterval `" ++ [24515; 36339; 38388; 38548]%N ++ runes_of_ascii "`,
}

packet Logout {
    @rightPad('0')
    char[10] UserName `" ++ [29992; 25143; 21517]%N ++ runes_of_ascii "`,
    uint64 ClientId `" ++ [23458; 25143; 31471]%N ++ runes_of_ascii "ID`,
}

packet Heartbeat {
}

packet RiskControlRequest {
    string UniqueOrderId `" ++ [21807; 19968; 35746; 21333; 21495]%N ++ runes_of_ascii "`,
    char[16] ClOrdID `" ++ [23458; 25143; 35746; 21333; 21495]%N ++ runes_of_ascii "`,
    char[3] MarketID `" ++ [24066; 22330]%N ++ runes_of_ascii "id`,
    char[12] SecurityID `" ++ [35777; 21048; 20195; 30721]%N ++ runes_of_ascii "`,
    char Side `" ++ [20080; 21334; 26041; 21521]%N ++ runes_of_ascii "`,
    char OrderType `" ++ [35746; 21333; 31867; 22411]%N ++ runes_of_ascii "`,
    u64 Price `" ++ [20215; 26684]%N ++ runes_of_ascii "`,
    u32 Qty `" ++ [25968; 37327]%N ++ runes_of_ascii "`,
    repeat string ExtraInfo `" ++ [38468; 21152; 20449; 24687]%N ++ runes_of_ascii "`,
    repeat SubOrder {
        char[16] ClOrdID `" ++ [23376; 35746; 21333; 21495]%N ++ runes_of_ascii "`,
        u64 Price `" ++ [23376; 35746; 21333; 20215; 26684]%N ++ runes_of_ascii "`,
        u32 Qty `" ++ [23376; 35746; 21333; 25968; 37327]%N ++ runes_of_ascii "`,
    },
}

packet RiskControlResponse {
    string UniqueOrderId `" ++ [21807; 19968; 35746; 21333; 21495]%N ++ runes_of_ascii "`,
    i32 Status `" ++ [29366; 24577]%N ++ runes_of_ascii "`,
    string Msg `" ++ [32467; 26524; 20449; 24687]%N ++ runes_of_ascii "`,
    repeat Detail,
}

packet Detail {
    string RuleName `" ++ [35268; 21017; 21517; 31216]%N ++ runes_of_ascii "`,
    u16 Code `" ++ [21407; 22240; 20195; 30721]%N ++ runes_of_ascii "`,
}")).
Eval vm_compute in ("<<<M259>>>" ++ check (runes_of_ascii "root packet u8x {
    body@lengthOf( i64_ )
`` , @lengthOf(Foo )
//x
// `tick` ""quote"" 'q'
string_@lengthOf(	int ), @lengthOf(
rootA//	t
) @tag( 255 // c
)
    match Logon  as roots { 1 : x_y_z, } , }
    packet len {
@tag( 0123456789
)  @leftPad ( '\x00' ) i8i8 {
//x
// @lengthOf(
len `u8 x,` , } , @tag(
    0123456789// 50% %s
) u8x A, char[ 007 ]
    int
    , @leftPad (
'\x00')
float64 len
    `100% of %d`, }
    packet crc {
// `tick` ""quote"" 'q'
// `tick` ""quote"" 'q'
match
calculatedFrom as leftPad { [ // packet A { u8 x, }
""" ++ [233]%N ++ runes_of_ascii "t" ++ [233]%N ++ runes_of_ascii """ ]  :Foo ""1"" :
Packet , 1 : stringy [	4294967296
    // c
    ,
""a	b"" ]: leftPad, [ """ ++ [233]%N ++ runes_of_ascii "t" ++ [233]%N ++ runes_of_ascii """,
""""
,4294967296 , 0123456789 ,	4294967296  ,
    ""CRC32"" , 0123456789  ,"""" ] : rootA
} ,  @rightPad (
    ) roots {
As //x
, repeat
zchar[1 ]falsey, repeat char[] repeatCount, } //	t
, roots  `a\`, match
    charz
    as i8i8  {  [ ""\" ++ [233]%N ++ runes_of_ascii """, """ ++ [233]%N ++ runes_of_ascii "t" ++ [233]%N ++ runes_of_ascii """ ] :
// c
// @lengthOf(
o // @lengthOf(
, 42
    : matchKey ,
    00 : body,
""a\\""
    :
    rootA
,} ,
    }")).
Eval vm_compute in ("<<<M1356>>>" ++ check (runes_of_ascii "options {
    LittleEndian = false;
    StringPrefixLenType = u16;
    ArrayPrefixLenType = u8;
    FixedStringPadChar = '0';
}
packet Leg {
    zchar[1] Ref,
    repeat string count,
    repeat InMsgkind21 {
        repeat char[2] price,
        uint64 sym,
        zchar[9] msgKind,
    },
    zchar[5] Note,
}
packet Ack {
    u16 seqNo,
    repeat char[1] Acct,
    @leftPad(' ') char[4] msgKind,
    repeat InTag747 {
        Leg,
    },
    repeat string Tail,
    Leg,
}
packet Trade {
    u64 clOrdID,
    repeat InLastpx24 {
        char[10] Note,
        char[3] Qty,
        repeat char[2] Side2,
        Ack,
        repeat InX47 {
            Ack,
        },
    },
}
root packet Heartbeat {
    repeat u64 Acct,
    string lastPx,
    u8 Side2,
    match Side2 as Body {
        2 : Trade,
        157 : Ack,
        46 : Leg,
    },
    u32 sym @calculatedFrom(""CRC32""),
}
")).
Eval vm_compute in ("<<<M1905>>>" ++ check (runes_of_ascii "options  {
	ArrayPrefixLenType

=u32 ;	FixedStringPadFromLeft

    =
false
; 
FixedStringPadChar
=
    '0' ;
} packet
Trade

{
repeat
	InVenue78 {u16
tag7

,

repeat InLastpx9
{
u8
pad0	, }

    ,	int64

Tail,

    repeat InQty37
{char[2
	] OrderId
,zchar[ 6 ]

    lastPx  , int64
Qty,}
	, uint8
Side2	,
}
, 
}

    packet

    Logon  { repeat  string venue  ,
    @rightPad  (
'\x00'
)

char[ 3

    ]
sym
,	zchar[ 9 ] count	,zchar[  7
]
    f1, Trade , }  packet 
Logout 
{  }  root	packet

    Reject {
int32 sym ,  u8	Px
,
u32

    Tail @lengthOf(	Body ) , match  Px
as 
Body 
{184 :
Trade
    ,
	173 
: 
Logon

    ,  12 
:Logout
    ,}
	,
    u32
    tag7
@calculatedFrom(
""CRC32"")
    ,
	}
")).
Eval vm_compute in ("<<<M1523>>>" ++ check (runes_of_ascii "packet x_y_z {
    @tag(1)
    string u @calculatedFrom(""`tick`""),
}

packet chars {
    char[00] crc `two words`,
    @lengthOf(calculatedFrom)
    uint64 _x `
    `,
    match Logon as falsey {
        [
            ""`tick`"", ""\n"", 007, 007, 1,
            3, ""it's""
        ] : options1,
        [42, """ ++ [28040; 24687]%N ++ runes_of_ascii """] : msg_type,
        007 : string_,
    },// 50% %s
    repeatCount lengthOf,
    @tag(007)
    Pad,
}

packet A {
    @calculatedFrom(""CRC32"")
    @lengthOf(zchar)
    repeatCount {
        zchar[0] stringy `two words`,
    },
    i16 falsey,
    match A as tag {
        3 : i64_,
        [0123456789] : chars,
        7 : options1,
    },
}")).
Eval vm_compute in ("<<<M1702>>>" ++ check (runes_of_ascii "  packet
o

    {
    zchar[  7

    ] 	 /// triple
	f32a

    @calculatedFrom(
    ""a\""b""

    )

,
@lengthOf(pack

    )

options1
,@calculatedFrom( 
""abc"" )Header

    , 
@lengthOf(
Logon)

    zchar[ 4294967296
]

    asx// packet A { u8 x, }
    @lengthOf(
	    // a // b
  // packet A { u8 x, }
  u

)
`100% of %d`  ,
	@leftPad
( ' '// trailing space 
	)
@calculatedFrom( ""`tick`""

    )  uint16  x_y_z`doc` ,
@tag(00
)
    zchar[ //	t

	1 ]	// c
u
,
    @calculatedFrom(

    ""a\""b""

) 	 //
	u8x
    uint8x 
,  char[
1]
metadata  ,
    }
")).
Eval vm_compute in ("<<<M1371>>>" ++ check (runes_of_ascii "options {

LittleEndian  =	true

    ;	ArrayPrefixLenType  =
u32 ; 
FixedStringPadChar 
=
' ';
}

    packet
    Order 
{ char[
5 ]
    seqNo ,	uint8	Px , } packet 
Logon
{ @rightPad
    ('\x00'
)
char[  8 ]Flags

    ,
    zchar[ 
3
]

    count

,	repeat

    Order
    ,
}
    root

packet Party
	{ repeat 
Logon ,repeat

    char[
1
	]
	x , 
u32
price ,u32
Side2
	@lengthOf(
Body
	)	,	match	price

as 
Body 
{
    49

: Order,

196:

Logon  ,
	}  , u32
f1 @calculatedFrom(	""CRC32""

)  ,	}

")).
Eval vm_compute in ("<<<M1705>>>" ++ check (runes_of_ascii "packet x_y_z {
    repeat asx {
        falsey @lengthOf(u) `100% of %d`,
        repeat matchKey {
            x_y_z @calculatedFrom(""a\\""),
            i64 calculatedFrom @calculatedFrom(""// no comment"") `{ , }`,
        },
        // c
        //	t
        char[007] Foo @calculatedFrom(""abc""),
    },
    repeat uint32 Pad,
    repeat Logon {
        Logon {
            char[] packetx @calculatedFrom(""it's"") `
            `,
        },
        i8 len,
        asx,
    },
}")).
Eval vm_compute in ("<<<M287>>>" ++ check (runes_of_ascii "packet BodyLength { } packet tag
{ repeat Logon //
{ u @calculatedFrom(
    ""// no comment"" ) `crlf
line`  ,  char u8x , uint32
    uint8x ,},} packet T
{  float32  Z9_ , @lengthOf(
    pack
)@calculatedFrom( ""`tick`"" )@lengthOf(u8x )
u {
    // `tick` ""quote"" 'q'
    match
    repeatCount as u
//x
/// triple
{  ""// no comment"" : packetx , //	t
1 :falsey
, } , Z9_ @calculatedFrom(
    """" ) `doc` , }// @lengthOf(
,
    } /// triple")).
Eval vm_compute in ("<<<M1348>>>" ++ check (runes_of_ascii "  packet

NewOrder
	{
u32 
qty , }
packet
Cancel

{	u64 id, } packet Business

{
	u8
Kind
, match

    Kind	as Detail
{ 1:	NewOrder ,

2 :	Cancel
    ,
    } 
,}packet

    TcpFrame {
    u8	T  ,
match
	T
    as
Body
{	1
:  Business  , }	,
} packet 
UdpFrame {

    u8  U,
match  U

    as
Body{1
: Business
, } ,	Business extra

    , }root
packet 
Wire 
{
TcpFrame ,	UdpFrame,

    }
")).
Eval vm_compute in ("<<<M334>>>" ++ check (runes_of_ascii "
packet Header  { @lengthOf( //
MetaDataX )char[] Z9_ @calculatedFrom( ""CRC32"")
    `u8 x,` ,} packet //
a1	{ @lengthOf( As// " ++ [128512]%N ++ runes_of_ascii " emoji
)
// c
// trailing space 
repeat rootA
/// triple
// " ++ [128512]%N ++ runes_of_ascii " emoji
Header // @lengthOf(
,
    @tag( 255 )
//
// " ++ [128512]%N ++ runes_of_ascii " emoji
zchar[255 ] A @calculatedFrom(
""{,}"" ) `{ , }` ,@lengthOf(
    Header ) uint8 leftPad@calculatedFrom(""" ++ [233]%N ++ runes_of_ascii "t" ++ [233]%N ++ runes_of_ascii """ ) ,// " ++ [128512]%N ++ runes_of_ascii " emoji
}")).
Eval vm_compute in ("<<<M180>>>" ++ check (runes_of_ascii "packet Logon{char[ 0123456789 ]Pad	`a\`
, match pack //	t
as As {
[ ""1"" , ""a	b"" ,
0,""packet"" ] // @lengthOf(
: u, 7
    :
asx  , } , @lengthOf(
Logon
) match
    A as zchar //
{10 :
o ,
    }
,
    @leftPad (// " ++ [128512]%N ++ runes_of_ascii " emoji
'0') o {
repeat f32
Logon
,
repeatCount
    @calculatedFrom(
    ""\n"" ),
// @lengthOf(
// `tick` ""quote"" 'q'
} , }")).
Eval vm_compute in ("<<<M307>>>" ++ check (runes_of_ascii "packet
a1
{ zchar[ 0] x`say ""hi""` , } packet // trailing space 
BodyLength {
    match Pad
as A {""\n"" : len } , } MetaData repeatCount
    {
string tag ,
    }
    MetaData trueish {u128 string_ ,
char[ 00 // trailing space 
] o
    , string tag,  } packet calculatedFrom { BodyLength `tab	here`, }

")).
Eval vm_compute in ("<<<M108>>>" ++ check (runes_of_ascii "packet matchKey {repeat len{ zchar,
match Foo as x { 65535 : asx , 65535 :
// " ++ [128512]%N ++ runes_of_ascii " emoji
//	t
charz 1 : BodyLength ,
""{,}"": falsey, 1 :zchar, } , }  , }  MetaData // 50% %s
zchar
    // packet A { u8 x, }
    {zchar[7 ] trueish ,u16 matchKey	,
} options {
MetaDataX	=
false }")).
Eval vm_compute in ("<<<M434>>>" ++ check (runes_of_ascii "packet
    asx { @calculatedFrom(
""""  ) @tag( 255 )@calculatedFrom(
// packet A { u8 x, }
// trailing space 
int16 u8x
,
@tag(
    //
    007 )
    @tag( 0
    /// triple
    ) @tag( 1) u
    @lengthOf( T ),
// `tick` ""quote"" 'q'
//x
} // " ++ [128512]%N ++ runes_of_ascii " emoji")).
Eval vm_compute in ("<<<M546>>>" ++ check (runes_of_ascii "packet
    caf" ++ [233]%N ++ runes_of_ascii "_1 { @calculatedFrom(
""""  ) @tag( 255 )repeat
// packet A { u8 x, }
// trailing space 
int16 u8x
,
@tag(
    //
    007 )
    @tag( 0
    /// triple
    ) @tag( 1) u
    @lengthOf( T ),
// `tick` ""quote"" 'q'
//x
} // " ++ [128512]%N ++ runes_of_ascii " emoji")).
Eval vm_compute in ("<<<M541>>>" ++ check (runes_of_ascii "packet
    asx { @calculatedFrom(
""""  ) @tag( 255 )repeat
// packet A { u8 x, }
// trailing space 
int16 u8x
,
@tag(
    //
    007@ )
    @tag( 0
    /// triple
    ) @tag( 1) u
    @lengthOf( T ),
// `tick` ""quote"" 'q'
//x
} // " ++ [128512]%N ++ runes_of_ascii " emoji")).
Eval vm_compute in ("<<<M509>>>" ++ check (runes_of_ascii "packet
    asx { @calculatedFrom(
""""  ) @tag( 255 )repeat
// packet A { u8 x, }
// trailing space 
int16 u8x
,
@tag(
    //
    007 )
    @tag( 0
    /// triple
    ) @tag( 1) u
    @lengthOf( , ),
// `tick` ""quote"" 'q'
//x
} // " ++ [128512]%N ++ runes_of_ascii " emoji")).
Eval vm_compute in ("<<<M436>>>" ++ check (runes_of_ascii "packet
    asx { @calculatedFrom(
""""  ) @tag( 255 )repeat
// packet A { u8 x, }
// trailing space 
 u8x
,
@tag(
    //
    007 )
    @tag( 0
    /// triple
    ) @tag( 1) u
    @lengthOf( T ),
// `tick` ""quote"" 'q'
//x
} // " ++ [128512]%N ++ runes_of_ascii " emoji")).
Eval vm_compute in ("<<<M1324>>>" ++ check (runes_of_ascii "options	{	FixedStringPadChar =	'0'
;
	}

    packet 
Q{ zchar[ 4]z,  @rightPad

('\x00')

    char[

    3]
n  ,
	char[ 5 ] 
d  , }
	root	packet R
	{
    Q

,
zchar[  8	]

top 
, repeat  zchar[
    2  ] zs
,}
")).
Eval vm_compute in ("<<<M184>>>" ++ check (runes_of_ascii "  root packet body
    {
string chars `" ++ [233]%N ++ runes_of_ascii "` , repeat uint8x, match uint8x as x // `tick` ""quote"" 'q'
{
    007
    //	t
    :
// c
// @lengthOf(
calculatedFrom , }	,
string_  falsey `
`
    ,
}

")).
Eval vm_compute in ("<<<M1252>>>" ++ check (runes_of_ascii "// top
root // c0a
  // c0b
packet // c1a
  // c1b
P // c2a
  // c2b
{
    // c3
char
    // c4
c // c5
,
    // c6
u8 // c7a
  // c7b
x
    // c8
, // c9a
  // c9b
}
    // c10
")).
Eval vm_compute in ("<<<M629>>>" ++ check (runes_of_ascii "MetaData u
    { } MetaData o
{ float uint8x
`100% of %d` ,repeatCount u8x, string_ leftPad
float32 i32
    Foo , int64 x `two words` , calculatedFrom
stringy `a\` ,
}
")).
Eval vm_compute in ("<<<M627>>>" ++ check (runes_of_ascii "MetaData u
    { } MetaData o
{ float uint8x
`100% of %d` ,repeatCount u8x, string_ leftPad
, , i32
    Foo , int64 x `two words` , calculatedFrom
stringy `a\` ,
}
")).
Eval vm_compute in ("<<<M563>>>" ++ check (runes_of_ascii "MetaData u
    { MetaData } o
{ float uint8x
`100% of %d` ,repeatCount u8x, string_ leftPad
, i32
    Foo , int64 x `two words` , calculatedFrom
stringy `a\` ,
}
")).
Eval vm_compute in ("<<<M556>>>" ++ check (runes_of_ascii "MetaData u
     } MetaData o
{ float uint8x
`100% of %d` ,repeatCount u8x, string_ leftPad
, i32
    Foo , int64 x `two words` , calculatedFrom
stringy `a\` ,
}
")).
Eval vm_compute in ("<<<M1555>>>" ++ check (runes_of_ascii "// top
options {
    // c1a
    // c1b
    LittleEndian = true;
}// c6a

// c6b
root packet P {
    // c10
    repeat char cs,
    // c14
    u8 x,
    // c17
}")).
Eval vm_compute in ("<<<M707>>>" ++ check (runes_of_ascii "MetaData u
    { } MetaData o
{ float uint8x
`100% of %d` ,repeatCount u8x, string_ leftPad
, i32
    Foo , int64 x `two words` , a" ++ [769]%N ++ runes_of_ascii "b
stringy `a\` ,
}
")).
Eval vm_compute in ("<<<M1583>>>" ++ check (runes_of_ascii "packet A {
    match k as n {
        [
            ""a"", ""bb"", ""c c"", ""d"", ""e"",
            ""f"", ""g"", ""h""
        ] : B,
        2 : C,
    },
}")).
Eval vm_compute in ("<<<M1651>>>" ++ check (runes_of_ascii "packet 
A
	{
	u16
	len
    @lengthOf(
    body	)  `a

b`
,
	u32 crc @calculatedFrom(
""CRC32""
)

    `a

b`
,string  body
    ,
	}

")).
Eval vm_compute in ("<<<M966>>>" ++ check (runes_of_ascii "packet A {
    Inner {
        u8 x `100% of %s %d %v`,
        Deep {
            u8 y `100% of %s %d %v`,
        },
    },
}")).
Eval vm_compute in ("<<<M904>>>" ++ check (runes_of_ascii "packet A {
  match k as n {
    [""a"", ""bb"", ""c c"", ""d"", ""e"", ""f"", ""g"", ""h"", ""i"", ""j"", ""k"", ""l""] : B,
    2 : C
  },
}")).
Eval vm_compute in ("<<<M1214>>>" ++ check (runes_of_ascii "options { } options { MetaDataX
// c
= char ; } MetaData Pad { i8 metadata , string stringy , int8 As `{ , }` , }")).
Eval vm_compute in ("<<<M1246>>>" ++ check (runes_of_ascii "options { } options { MetaDataX = char ; } MetaData Pad { i8 metadata , string stringy , int8 As `{ , }`
// c
, }")).
Eval vm_compute in ("<<<M960>>>" ++ check (runes_of_ascii "packet A {
    Inner {
        u8 x `tab
	x`,
        Deep {
            u8 y `tab
	x`,
        },
    },
}")).
Eval vm_compute in ("<<<M964>>>" ++ check (runes_of_ascii "packet A {
    B b `100% of %s %d %v`,
    B `100% of %s %d %v`,
    repeat B bs `100% of %s %d %v`,
}")).
Eval vm_compute in ("<<<M873>>>" ++ check (runes_of_ascii "packet A {
  match k as n {
    [""a"", ""bb"", 007, ""d"", ""e"", 66, ""g"", ""h"", 9] : B,
    2 : C
  },
}")).
Eval vm_compute in ("<<<M861>>>" ++ check (runes_of_ascii "packet A {
  match k as n {
    [""a"", ""bb"", 007, ""d"", ""e"", 66, ""g"", ""h""] : B
    2 : C
  },
}")).
Eval vm_compute in ("<<<M1602>>>" ++ check (runes_of_ascii "packet Inner {
u8

    a , }
    root packet P
    {

    Inner ref_obj ,

u8 
x

,} ")).
Eval vm_compute in ("<<<M625>>>" ++ check (runes_of_ascii "MetaData u
    { } MetaData o
{ float uint8x
`100% of %d` ,repeatCount u8x, string_")).
Eval vm_compute in ("<<<M851>>>" ++ check (runes_of_ascii "packet A {
  match k as n {
    [1, 22, 007, 4, 5, 66, 7, 8] : B
    2 : C
  },
}")).
Eval vm_compute in ("<<<M815>>>" ++ check (runes_of_ascii "packet A {
  match k as n {
    [1, ""bb"", 007, ""d"", 5] : B,
    2 : C
  },
}")).
Eval vm_compute in ("<<<M787>>>" ++ check (runes_of_ascii "packet A {
  match k as n {
    [""a"", ""bb"", ""c c""] : B,
    2 : C
  },
}")).
Eval vm_compute in ("<<<M1549>>>" ++ check (runes_of_ascii "packet A {
    B b `
    `,
    B `
    `,
    repeat B bs `
    `,
}")).
Eval vm_compute in ("<<<M65>>>" ++ check (runes_of_ascii "packet leftPad
{ i16 charz // trailing space 
, // @lengthOf(
}")).
Eval vm_compute in ("<<<M1110>>>" ++ check (runes_of_ascii "packet A { @leftPad() char[4] x, @rightPad( ) zchar[2] y, }")).
Eval vm_compute in ("<<<M1436>>>" ++ check (runes_of_ascii "packet A {
    u8 x,
}// a

// b
packet B {
}// c
// d")).
Eval vm_compute in ("<<<M372>>>" ++ check (runes_of_ascii "MetaData
float { packetx
f32a `crlf
line` ,}
")).
Eval vm_compute in ("<<<M931>>>" ++ check (runes_of_ascii "MetaData M {
    u8 x `
`,
    T t `
`,
}")).
Eval vm_compute in ("<<<M590>>>" ++ check (runes_of_ascii "MetaData u
    { } MetaData o
{ float")).
Eval vm_compute in ("<<<M1962>>>" ++ check (runes_of_ascii "
packet

A{ u8

    x
`a
b` ,
}
")).
Eval vm_compute in ("<<<M192>>>" ++ check (runes_of_ascii "
options
    { asx = false
;  }
")).
Eval vm_compute in ("<<<M1022>>>" ++ check (runes_of_ascii "packet A {
 u8 x `d" ++ [8192]%N ++ runes_of_ascii "`, // c" ++ [8192]%N ++ runes_of_ascii "
}")).
Eval vm_compute in ("<<<M740>>>" ++ check (runes_of_ascii "? Yk{t2<omLkW}'N@Vi/x[_j_,J")).
Eval vm_compute in ("<<<M364>>>" ++ check (runes_of_ascii "
packet string_
    { }")).
Eval vm_compute in ("<<<M1558>>>" ++ check (runes_of_ascii "// c
MetaData tag {
}")).
Eval vm_compute in ("<<<M1040>>>" ++ check (runes_of_ascii "packet A {
}
// c" ++ [8239]%N)).
Eval vm_compute in ("<<<M1028>>>" ++ check (runes_of_ascii "packet A {
}// c" ++ [8232]%N)).
Eval vm_compute in ("<<<M216>>>" ++ check (runes_of_ascii "packet u8x { }")).
Eval vm_compute in ("<<<M1004>>>" ++ check (runes_of_ascii "// c" ++ [160]%N)).
Eval vm_compute in ("<<<M733>>>" ++ check ([0]%N)).
