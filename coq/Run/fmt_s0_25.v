From FP Require Import Lexer Parser ShowPT Digest Formatter.
From Coq Require Import String List NArith.
Import ListNotations.
Open Scope string_scope.
Set Printing Width 100000000.
Set Printing Depth 100000000.
Definition show_fres (r : fres) : string :=
  match r with
  | FOk s => "OK:" ++ sh_escaped s ""
  | FErr s => "ERR:" ++ sh_escaped s ""
  | FPanic p => "PANIC:" ++ p
  end.
Definition check (rs : list rune) : string := digest (show_fres (format_res rs)).
Definition full (rs : list rune) : string := show_fres (format_res rs).
Eval vm_compute in ("<<<M1874>>>" ++ check (runes_of_ascii "MetaData Logon {
    zchar[7] BodyLength,
    char Header,
    // @lengthOf(
    int8 x_y_z `u8 x,`,
    i32 falsey,//
    int16 lengthOf `two words`,
}

root packet options1 {
    repeat A BodyLength,
    metadata {
        u64 calculatedFrom ``,
    },
    body {
        i16 matchKey,
        uint16 packetx `// not a comment`,
        a1 ``,
        repeat packetx,
    },
    body u8x `a\`,
    @tag(10)
    @tag(00)
    // c
    @rightPad('\x00' )
    repeat tag {
        i16 u `" ++ [233]%N ++ runes_of_ascii "`,
    },
    // a // b
    // c
    @lengthOf(u)
    @calculatedFrom(""" ++ [128512]%N ++ runes_of_ascii """)
    i16 falsey,
    f32a @lengthOf(uint8x) `it's`,
    asx @lengthOf(Header) `two words`,
    // `tick` ""quote"" 'q'
    @lengthOf(A)
    @lengthOf(int)
    @calculatedFrom(""1"")
    char[] uint8x,
    x_y_z @lengthOf(Foo) `crlf
        line`,
}

packet stringy {
    repeat string len,
    @calculatedFrom(""{,}"")
    repeat o {
        u64 float,
    },
    match i64_ as Pad {
        [1] : roots,
        ""it's"" : uint8x,
        1 : MetaDataX,
        [
            255, ""a\""b"", """ ++ [233]%N ++ runes_of_ascii "t" ++ [233]%N ++ runes_of_ascii """, 65535, 4294967296,
            7, 0123456789
        ] : len,
        255 : metadata,
        ""it's"" : calculatedFrom,
        // `tick` ""quote"" 'q'
    },
    @lengthOf(msg_type)
    falsey @calculatedFrom(""" ++ [28040; 24687]%N ++ runes_of_ascii """),
    repeat char[] trueish,
    zchar[1] A,// `tick` ""quote"" 'q'
    repeat metadata {
        zchar[7] Pad,
    },
    @tag(3)
    i32 body `u8 x,`,
}// trailing space ")).
Eval vm_compute in ("<<<M37>>>" ++ check (runes_of_ascii "options {
packetx/// triple
= 42; }
    root packet falsey {@tag( 1 )
crc { repeat	char[ 007 ] charz // 50% %s
`it's` , repeat	u8
    len `
`
    , crc trueish	, }	, match
float as string_ {""x y"" :
// " ++ [27880; 37322]%N ++ runes_of_ascii "
//
zchar , """ ++ [128512]%N ++ runes_of_ascii """
    // " ++ [128512]%N ++ runes_of_ascii " emoji
    : string_
// trailing space 
// @lengthOf(
,""CRC32""  : options1
, [""1"" // c
] :
crc
    , ""packet"" // " ++ [27880; 37322]%N ++ runes_of_ascii "
: options1 ,  [ 42
, ""a	b""
,
    // trailing space 
    """ ++ [233]%N ++ runes_of_ascii "t" ++ [233]%N ++ runes_of_ascii """ /// triple
, ""abc""
,0123456789, ""{,}""
, // trailing space 
00	,""" ++ [233]%N ++ runes_of_ascii "t" ++ [233]%N ++ runes_of_ascii """ // packet A { u8 x, }
]:	asx },repeat  f64	charz
, @tag( 10 ) repeat charz
Logon , @lengthOf( u8x
) @calculatedFrom( ""a\""b"" )
    @rightPad // @lengthOf(
(
' '
    ) u8 a1
`u8 x,` ,	}
packet	falsey  {
    repeat
char[] zchar, @tag( 255 )@calculatedFrom( ""`tick`""
    )
char[] asx `say ""hi""`
    ,
    u8  As `u8 x,` , // 50% %s
zchar[00 ]	uint8x @lengthOf( // packet A { u8 x, }
zchar ) , char[ 255  ]
uint8x , Pad @lengthOf(
    // packet A { u8 x, }
    _x
    )	`" ++ [233]%N ++ runes_of_ascii "` ,
    _x,@rightPad (
    ' ' ) uint16
BodyLength/// triple
, @lengthOf( int// " ++ [128512]%N ++ runes_of_ascii " emoji
) metadata tag , int64	string_ `
`
, } root
packet
o {} options// packet A { u8 x, }
{	}
")).
Eval vm_compute in ("<<<M1354>>>" ++ check (runes_of_ascii "options
{ LittleEndian=

    true
;
StringPrefixLenType  = 
u8	;ArrayPrefixLenType

    =u8
; FixedStringPadFromLeft= 
true ;

    FixedStringPadChar	=
'0'
;	} 
packet

Logon{

    repeat  i8
Ref

    ,

@rightPad ('0'
	)char[
	8	]
    msgKind,
repeat

InOrderid72 
{
    u8
	Side2,
uint32 Qty,  repeat  InPrice27 {repeat
char[4]Acct  ,

    u64 sym ,
} 
, zchar[
	4	]
	clOrdID

    ,int16 lastPx ,  InAcct22
{repeat	char[

    3
	]
OrderId
    ,

}
	,}

,
    int64

    Px,}packet	Fill {  uint16
Qty , repeat char[
    1 ] Flags ,
    i8

    Ref 
,	}
	packet
Logout
{ @leftPad
    ('0'

)
char[	3 ]
	x
    ,
int8
f1 ,Logon
, uint16
venue
    ,

    zchar[
	2

    ]Px
    ,
	}	packet

Reject {	} root

packet

Leg{
Fill
,u16

    msgKind	,
	match 
msgKind
as
Body 
{ [
182,83

]

    : 
Fill ,

    199 : 
Reject 
,
137 :
    Logout

, 35:  Logon,
}

,
    u32
lastPx@calculatedFrom(  ""CRC32"" )  ,

    }")).
Eval vm_compute in ("<<<M1154>>>" ++ check (runes_of_ascii "// top
options
    // c0
{
    // c1
uint8x
    // c2
=
    // c3
007
    // c4
;
    // c5
lengthOf
    // c6
=
    // c7
i8
    // c8
;
    // c9
}
    // c10
packet
    // c11
i64_
    // c12
{
    // c13
@calculatedFrom(
    // c14
""1""
    // c15
)
    // c16
@tag(
    // c17
3
    // c18
)
    // c19
@lengthOf(
    // c20
rootA
    // c21
)
    // c22
repeat
    // c23
int8
    // c24
Packet
    // c25
`tab	here`
    // c26
,
    // c27
}
    // c28
packet
    // c29
_x
    // c30
{
    // c31
matchKey
    // c32
x
    // c33
`" ++ [28040; 24687; 31867; 22411]%N ++ runes_of_ascii "`
    // c34
,
    // c35
int32
    // c36
calculatedFrom
    // c37
`100% of %d`
    // c38
,
    // c39
@lengthOf(
    // c40
trueish
    // c41
)
    // c42
Packet
    // c43
,
    // c44
repeat
    // c45
f32
    // c46
o
    // c47
,
    // c48
}
    // c49
")).
Eval vm_compute in ("<<<M1661>>>" ++ check (runes_of_ascii "// top
options {
    LittleEndian = false;// c5
    StringPrefixLenType = u16;
    // c9
    FixedStringPadFromLeft = true;// c13
    FixedStringPadChar = '0';
}

// c18
packet Fill {
    // c21a
    // c21b
}// c22

root packet Order {
    repeat Fill,
    char[] clOrdID,// c32
    @rightPad(
        // c34
    '\x00' // c35a
      // c35b
    )
    char[4] lastPx,// c41a
    // c41b
    char[] OrderId,// c44a
    // c44b
    int8 tag7,// c47
    u8 f1,
    // c50
    u16 count @lengthOf(Body),// c56a
    // c56b
    match f1 as Body {
        // c61a
        // c61b
        [159, 49] : Fill,
        // c69
    },// c71
    u16 Tail @calculatedFrom(""CRC32""),
    // c77
}// c78a
// c78b")).
Eval vm_compute in ("<<<M1401>>>" ++ check (runes_of_ascii "// top
packet
    // c0
Sub // c1a
  // c1b
{ // c2
u8 // c3
a
    // c4
, // c5
@calculatedFrom( // c6a
  // c6b
""CRC16"" // c7a
  // c7b
)
    // c8
i64 // c9
SubSum
    // c10
, // c11
}
    // c12
root
    // c13
packet // c14
Frame // c15
{ // c16a
  // c16b
u16 MsgType , u16 BodyLen @lengthOf( // c22a
  // c22b
Body
    // c23
) // c24a
  // c24b
, Sub // c26a
  // c26b
Body
    // c27
,
    // c28
string
    // c29
note // c30a
  // c30b
, // c31a
  // c31b
@calculatedFrom(
    // c32
""CRC16"" // c33a
  // c33b
)
    // c34
i64 // c35
Checksum , // c37
u8 // c38
tail // c39
, } // c41a
  // c41b
")).
Eval vm_compute in ("<<<M1305>>>" ++ check (runes_of_ascii "// top
packet // c0a
  // c0b
A
    // c1
{ // c2
u8 // c3a
  // c3b
a // c4
, // c5
} // c6
packet
    // c7
B
    // c8
{
    // c9
u16 // c10a
  // c10b
b , } root // c14a
  // c14b
packet // c15
P // c16a
  // c16b
{ u8 K1
    // c19
, // c20
u8
    // c21
K2
    // c22
,
    // c23
match
    // c24
K1 as M1 { // c28a
  // c28b
1
    // c29
:
    // c30
A // c31a
  // c31b
, } // c33a
  // c33b
,
    // c34
match
    // c35
K2 // c36
as // c37
M2 // c38
{ 1 : B // c42a
  // c42b
,
    // c43
} // c44a
  // c44b
, // c45
}
    // c46
")).
Eval vm_compute in ("<<<M1907>>>" ++ check (runes_of_ascii "MetaData trueish {
    uint64 Z9_ `u8 x,`,
    zchar[3] tag,
}

root packet tag {
    Packet chars,
}

packet trueish {
    @lengthOf(roots)
    string repeatCount,
    @calculatedFrom(""1"")
    @leftPad(	'\x00' )
    @tag(3)
    int16 stringy,
    // `tick` ""quote"" 'q'
    @rightPad( '0'
        )
    @rightPad('\x00')
    //
    // c
    @lengthOf(x)
    repeat trueish pack `a\`,
    len,
    @tag(3)
    char packetx,
}// `tick` ""quote"" 'q'

packet u {
    u64 options1,
}

options {
}")).
Eval vm_compute in ("<<<M1883>>>" ++ check (runes_of_ascii "MetaData T {
    char[0123456789] rootA `line1
    line2`,
    i32 Logon,
    rootA asx,
}

root packet Header {
    uint32 len @lengthOf(u) `
    `,
    repeat char MetaDataX `" ++ [28040; 24687; 31867; 22411]%N ++ runes_of_ascii "`,
    uint8x @lengthOf(zchar) `u8 x,`,
    uint8 Z9_,
    @lengthOf(u128)
    @lengthOf(MetaDataX)
    @tag(0123456789)
    Logon @lengthOf(body),
}

options {
    Z9_ = uint32;
    options1 = '\x00'
}

options {
    Foo = ""// no comment"";
}

packet float {
}")).
Eval vm_compute in ("<<<M95>>>" ++ check (runes_of_ascii "root packet leftPad  {T
@lengthOf(	A )
`" ++ [28040; 24687; 31867; 22411]%N ++ runes_of_ascii "` , Header@lengthOf( // trailing space 
As  ) ,
string calculatedFrom
`" ++ [233]%N ++ runes_of_ascii "` , @calculatedFrom(// " ++ [128512]%N ++ runes_of_ascii " emoji
""a	b"") repeat x_y_z {
    char[]T , uint8x { char[
007]
    Packet @calculatedFrom( ""`tick`""
)`100% of %d`
,
    } ,
} ,
char[]
    T @lengthOf( f32a
) ,
    //x
    options1 Z9_//	t
,
char[ 007 ] body `it's` , repeat zchar[42 ]
Packet `{ , }` , } // a // b")).
Eval vm_compute in ("<<<M334>>>" ++ check (runes_of_ascii "
packet Header  { @lengthOf( //
MetaDataX )char[] Z9_ @calculatedFrom( ""CRC32"")
    `u8 x,` ,} packet //
a1	{ @lengthOf( As// " ++ [128512]%N ++ runes_of_ascii " emoji
)
// c
// trailing space 
repeat rootA
/// triple
// " ++ [128512]%N ++ runes_of_ascii " emoji
Header // @lengthOf(
,
    @tag( 255 )
//
// " ++ [128512]%N ++ runes_of_ascii " emoji
zchar[255 ] A @calculatedFrom(
""{,}"" ) `{ , }` ,@lengthOf(
    Header ) uint8 leftPad@calculatedFrom(""" ++ [233]%N ++ runes_of_ascii "t" ++ [233]%N ++ runes_of_ascii """ ) ,// " ++ [128512]%N ++ runes_of_ascii " emoji
}")).
Eval vm_compute in ("<<<M1488>>>" ++ check (runes_of_ascii "packet float {
    // c2
    @rightPad( // c4a
          // c4b
        )
    // c5a
    // c5b
    rootA @lengthOf(trueish),
    // c10
    stringy @lengthOf(matchKey),// c15a
    // c15b
    char[4294967296] pack @lengthOf(uint8x),
    // c23
}// c24

root packet trueish {
    // c28
    repeat uint64 u128 `say ""hi""`,
    // c33
}
// c34")).
Eval vm_compute in ("<<<M1722>>>" ++ check (runes_of_ascii "options {
    roots = 0123456789;//x
}

options {
}

packet crc {
    crc @lengthOf(Pad) `{ , }`,
    @lengthOf(Logon)
    char[] BodyLength,
    @leftPad(
            '0'
            )
    @leftPad(  )
    @rightPad(	'\x00'
        )
    char f32a @lengthOf(body),
    @tag(255)
    string body ``,
}")).
Eval vm_compute in ("<<<M1394>>>" ++ check (runes_of_ascii "options {
    LittleEndian = true;
}
packet Sub {
    u8 a,
    @calculatedFrom(""CRC16"") uint64 SubSum,
}
root packet Frame {
    u16 MsgType,
    u16 BodyLen @lengthOf(Body),
    Sub Body,
    string note,
    @calculatedFrom(""CRC16"") uint64 Checksum,
    u8 tail,
}
")).
Eval vm_compute in ("<<<M1752>>>" ++ check (runes_of_ascii "

  packet
    P1{u8

    a
, }
	packet
	P2
{ 
P1	,}  packet 
P3  {P2 ,
    P1
, } packet P4 {

repeat
	P3,P2 ,
	}root
packet
	P5 { P4,

    P3
,	P1
	,

    u8
K  ,match 
K
as Body {
	4 :
	P4 
,

3 : P3
	,2
	: 
P2 ,1

:

P1
,

}

    ,
	} ")).
Eval vm_compute in ("<<<M457>>>" ++ check (runes_of_ascii "packet
    asx { @calculatedFrom(
""""  ) @tag( 255 )repeat
// packet A { u8 x, }
// trailing space 
int16 u8x
,
@tag(
    //
    007 007 )
    @tag( 0
    /// triple
    ) @tag( 1) u
    @lengthOf( T ),
// `tick` ""quote"" 'q'
//x
} // " ++ [128512]%N ++ runes_of_ascii " emoji")).
Eval vm_compute in ("<<<M533>>>" ++ check (runes_of_ascii "packet
    asx { @calculatedFrom(
""""  ) @tag( 255 )repeat
// packet A { u8 x, }
// trailing space 
int16 u8x
,
@tag(
    //
    007 )
    @tag( 0
    /// triple
    ) @tag( 1) u
    @lengthOf( T ),
// `tick` ""quote"" 'q'
//x
}"" // " ++ [128512]%N ++ runes_of_ascii " emoji")).
Eval vm_compute in ("<<<M479>>>" ++ check (runes_of_ascii "packet
    asx { @calculatedFrom(
""""  ) @tag( 255 )repeat
// packet A { u8 x, }
// trailing space 
int16 u8x
,
@tag(
    //
    007 )
    @tag( 0
    /// triple
    ( @tag( 1) u
    @lengthOf( T ),
// `tick` ""quote"" 'q'
//x
} // " ++ [128512]%N ++ runes_of_ascii " emoji")).
Eval vm_compute in ("<<<M406>>>" ++ check (runes_of_ascii "packet
    asx { @calculatedFrom(
  ) @tag( 255 )repeat
// packet A { u8 x, }
// trailing space 
int16 u8x
,
@tag(
    //
    007 )
    @tag( 0
    /// triple
    ) @tag( 1) u
    @lengthOf( T ),
// `tick` ""quote"" 'q'
//x
} // " ++ [128512]%N ++ runes_of_ascii " emoji")).
Eval vm_compute in ("<<<M321>>>" ++ check (runes_of_ascii "packet //x
roots {
    @rightPad
    (	'\x00') @lengthOf(  calculatedFrom
)	asx
zchar	,char[255] charz // " ++ [27880; 37322]%N ++ runes_of_ascii "
`" ++ [233]%N ++ runes_of_ascii "`
//	t
// 50% %s
, @tag(	1 )
repeat MetaDataX, repeat
zchar[ 0] BodyLength  `a\`
, } MetaData string_ { } 	 ")).
Eval vm_compute in ("<<<M117>>>" ++ check (runes_of_ascii "packet a1 { repeat o o
, i8
falsey ,
repeat u64 MetaDataX
, // trailing space 
}
    packet
    // " ++ [27880; 37322]%N ++ runes_of_ascii "
    int {	tag @calculatedFrom( ""a\\"" ) ,
    matchKey , trueish// trailing space 
options1,
u64 Logon  , }")).
Eval vm_compute in ("<<<M1322>>>" ++ check (runes_of_ascii "options {
    FixedStringPadChar = '0';
}
packet Q {
    zchar[4] z,
    @rightPad('\x00') char[3] n,
    char[5] d,
}
root packet R {
    Q,
    zchar[8] top,
    repeat zchar[2] zs,
}
")).
Eval vm_compute in ("<<<M1638>>>" ++ check (runes_of_ascii "MetaData u {
    float64 A,
    calculatedFrom zchar,
    char[1] repeatCount,
    int32 x_y_z,
    u16 Packet `say ""hi""`,
    // a // b
}

options {
    repeatCount = ' '
}")).
Eval vm_compute in ("<<<M701>>>" ++ check (runes_of_ascii "MetaData u
    { } MetaData o
{ float uint8x
`100% of %d` ,repeatCount u8x, string_ leftPad
, i32
    Foo , int64 x `two words` , calculatedFrom
stringy `a\` ,
'1'}
")).
Eval vm_compute in ("<<<M695>>>" ++ check (runes_of_ascii "MetaData u
    { } MetaData o
{ float uint8x
`100% of %d` ,re~peatCount u8x, string_ leftPad
, i32
    Foo , int64 x `two words` , calculatedFrom
stringy `a\` ,
}
")).
Eval vm_compute in ("<<<M643>>>" ++ check (runes_of_ascii "MetaData u
    { } MetaData o
{ float uint8x
`100% of %d` ,repeatCount u8x, string_ leftPad
, i32
    Foo int64 , x `two words` , calculatedFrom
stringy `a\` ,
}
")).
Eval vm_compute in ("<<<M1490>>>" ++ check (runes_of_ascii "packet A {
    match k as n {
        [
            1, 22, ""c c"", 4, 5,
            ""f"", 7, 8, ""i"", 10,
            11, ""l""
        ] : B,
        2 : C,
    },
}")).
Eval vm_compute in ("<<<M547>>>" ++ check (runes_of_ascii " u
    { } MetaData o
{ float uint8x
`100% of %d` ,repeatCount u8x, string_ leftPad
, i32
    Foo , int64 x `two words` , calculatedFrom
stringy `a\` ,
}
")).
Eval vm_compute in ("<<<M1783>>>" ++ check (runes_of_ascii "// top
options {
    // c1a
    // c1b
    LittleEndian = true;
}

root packet P {
    // c10
    u16 a,// c13
    u32 Sum @calculatedFrom(""CRC32""),
}")).
Eval vm_compute in ("<<<M1739>>>" ++ check (runes_of_ascii "packet A {
    match k as n {
        [
            1, ""bb"", 007, ""d"", 5,
            ""f"", 7, ""h"", 9
        ] : B,
        2 : C,
    },
}")).
Eval vm_compute in ("<<<M670>>>" ++ check (runes_of_ascii "MetaData u
    { } MetaData o
{ float uint8x
`100% of %d` ,repeatCount u8x, string_ leftPad
, i32
    Foo , int64 x `two words` ,")).
Eval vm_compute in ("<<<M252>>>" ++ check (runes_of_ascii "options
{ zchar = ' ' ;trueish =
    false ;packetx = 007 // packet A { u8 x, }
; Logon=	true	Z9_ =
    zchar[ 7
    ]	}")).
Eval vm_compute in ("<<<M1760>>>" ++ check (runes_of_ascii "
packet

    A
	{ match

k
    as 
n
{ [""a""  , 22
    ,
""c c""

    , 4	, ""e"" ,
	66 ,""g""
	]
	:

B,	2:
    C},	}")).
Eval vm_compute in ("<<<M1223>>>" ++ check (runes_of_ascii "options { } options { MetaDataX = char ; } MetaData // c
Pad { i8 metadata , string stringy , int8 As `{ , }` , }")).
Eval vm_compute in ("<<<M1895>>>" ++ check (runes_of_ascii "packet

    A	{ 
match
k as

    n

{ 
[

    1

    ,

    22, ""c c""	,
	4
	,	5]
:

B  2 :	C } 
,
} ")).
Eval vm_compute in ("<<<M445>>>" ++ check (runes_of_ascii "packet
    asx { @calculatedFrom(
""""  ) @tag( 255 )repeat
// packet A { u8 x, }
// trailing space 
int16")).
Eval vm_compute in ("<<<M1913>>>" ++ check (runes_of_ascii "  packet
A
{match 
k
	as

    n
	{

[
""a"",

22

,

""c c""

    ,

4 
]
    :

B
2	:  C},
    }

")).
Eval vm_compute in ("<<<M197>>>" ++ check (runes_of_ascii "packet u128	{ }  packet
_x /// triple
{ } MetaData T  {
    u128 f32a
    // c
    ,} options{}
")).
Eval vm_compute in ("<<<M93>>>" ++ check (runes_of_ascii "packet
    Foo
{float64
    a1,
string Z9_ @lengthOf(Logon)`line1
line2`
    ,
}
// " ++ [128512]%N ++ runes_of_ascii " emoji
")).
Eval vm_compute in ("<<<M877>>>" ++ check (runes_of_ascii "packet A {
  match k as n {
    [1, 22, 007, 4, 5, 66, 7, 8, 9, 10] : B
    2 : C
  },
}")).
Eval vm_compute in ("<<<M834>>>" ++ check (runes_of_ascii "packet A {
  match k as n {
    [""a"", ""bb"", 007, ""d"", ""e"", 66] : B,
    2 : C
  },
}")).
Eval vm_compute in ("<<<M1499>>>" ++ check (runes_of_ascii "// top
MetaData
    // c0
    tag 

    // c1
{ 
	    // c2
    	}
    // c3
")).
Eval vm_compute in ("<<<M615>>>" ++ check (runes_of_ascii "MetaData u
    { } MetaData o
{ float uint8x
`100% of %d` ,repeatCount u8x")).
Eval vm_compute in ("<<<M958>>>" ++ check (runes_of_ascii "packet A {
    B b `tab
	x`,
    B `tab
	x`,
    repeat B bs `tab
	x`,
}")).
Eval vm_compute in ("<<<M1797>>>" ++ check (runes_of_ascii "
// a
		MetaData  M{ }	// b
    // c
		MetaData  N
{
	} // d
	// e
")).
Eval vm_compute in ("<<<M1595>>>" ++ check (runes_of_ascii "packet	A {
Inner {  u8 x`%`
, Deep
    {  u8 y
`%`
, } ,	},	}
")).
Eval vm_compute in ("<<<M1110>>>" ++ check (runes_of_ascii "packet A { @leftPad() char[4] x, @rightPad( ) zchar[2] y, }")).
Eval vm_compute in ("<<<M139>>>" ++ check (runes_of_ascii "MetaData // " ++ [128512]%N ++ runes_of_ascii " emoji
Logon {
char[42 ]Packet , //x
}
")).
Eval vm_compute in ("<<<M1254>>>" ++ check (runes_of_ascii "root packet P {
    repeat char cs,
    u8 x,
}
")).
Eval vm_compute in ("<<<M1503>>>" ++ check (runes_of_ascii "
options{	a
=""x\
y""
	;
    b =
	""x\
y"" }
")).
Eval vm_compute in ("<<<M987>>>" ++ check (runes_of_ascii "options {
    a = ""\
"";
    b = ""\
""
}")).
Eval vm_compute in ("<<<M1192>>>" ++ check (runes_of_ascii "options { A = ""// no comment""
// c
}")).
Eval vm_compute in ("<<<M956>>>" ++ check (runes_of_ascii "root packet A {
    u8 x `
x`,
}")).
Eval vm_compute in ("<<<M1052>>>" ++ check (runes_of_ascii "packet A {
 u8 x `d" ++ [11]%N ++ runes_of_ascii "`, // c" ++ [11]%N ++ runes_of_ascii "
}")).
Eval vm_compute in ("<<<M1835>>>" ++ check (runes_of_ascii "  MetaData

    u{
    }
")).
Eval vm_compute in ("<<<M1146>>>" ++ check (runes_of_ascii "root packet
// c
a1 { }")).
Eval vm_compute in ("<<<M52>>>" ++ check (runes_of_ascii "packet
int {
}
//	t
")).
Eval vm_compute in ("<<<M1041>>>" ++ check (runes_of_ascii "// c" ++ [8239]%N ++ runes_of_ascii "
packet A {
}")).
Eval vm_compute in ("<<<M1038>>>" ++ check (runes_of_ascii "packet A {
}// c" ++ [8239]%N)).
Eval vm_compute in ("<<<M400>>>" ++ check (runes_of_ascii "packet
    asx")).
Eval vm_compute in ("<<<M1024>>>" ++ check (runes_of_ascii "// c" ++ [8202]%N)).
