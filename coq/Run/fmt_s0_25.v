From FP Require Import Lexer Parser ShowPT Digest Formatter.
From Coq Require Import String List NArith.
Import ListNotations.
Open Scope string_scope.
Set Printing Width 100000000.
Set Printing Depth 100000000.
Definition show_fres (r : fres) : string :=
  match r with
  | FOk s => "OK:" ++ sh_escaped s ""
  | FErr s => "ERR:" ++ sh_escaped s ""
  | FPanic p => "PANIC:" ++ p
  end.
Definition check (rs : list rune) : string := digest (show_fres (format_res rs)).
Definition full (rs : list rune) : string := show_fres (format_res rs).
Eval vm_compute in ("<<<M339>>>" ++ check (runes_of_ascii "// @lengthOf(
packet A { repeat rootA
{ repeat o , BodyLength i64_ `// not a comment` ,  repeatCount @calculatedFrom(""it's"" ) , }
    // @lengthOf(
    ,
//x
//x
@tag( 0 ) falsey @lengthOf( BodyLength
), @leftPad ( ) @calculatedFrom( ""1"" )
@lengthOf(int ) match trueish
as body // trailing space 
{ [ 007
, 7
,
    ""abc"",
""x y"" ,  00 , ""// no comment"" ,
    255, 1
]: body
, } , @lengthOf( Pad ) metadata@calculatedFrom( ""it's"" )
,
    // `tick` ""quote"" 'q'
    @leftPad() @calculatedFrom(	""" ++ [233]%N ++ runes_of_ascii "t" ++ [233]%N ++ runes_of_ascii """ ) char falsey `" ++ [233]%N ++ runes_of_ascii "`,char[
007 ] metadata @lengthOf( chars) , @rightPad ( '0'
) u8 // c
roots@calculatedFrom( ""packet"" ) ,
    string_ MetaDataX ,@lengthOf( Z9_ ) @leftPad ( '\x00' ) /// triple
@rightPad
    ( ' ' //
) MetaDataX
    `two words`  ,zchar[
0
    ]
body// " ++ [27880; 37322]%N ++ runes_of_ascii "
`line1
line2` , } packet
    // packet A { u8 x, }
    uint8x {@rightPad  ( '0' )
    //	t
    char[]stringy,MetaDataX Z9_ , i8 Logon , } root packet
    //	t
    u // " ++ [128512]%N ++ runes_of_ascii " emoji
{ int64 Z9_
    , zchar[ 00 ]
    string_
    //
    `" ++ [28040; 24687; 31867; 22411]%N ++ runes_of_ascii "` ,
    @calculatedFrom(""a\""b""
    )
@tag( 3  ) @rightPad (
'0' ) repeat u32 packetx `two words` , char[42
] string_ , repeat Header lengthOf ,
}
options // packet A { u8 x, }
{	} packet Header
// " ++ [128512]%N ++ runes_of_ascii " emoji
// packet A { u8 x, }
{ @rightPad
(//x
)metadata { char[ 65535// c
]o, repeat x
// c
/// triple
{char[
4294967296 ]  options1 , }
// c
// a // b
,
roots Header, } , }
")).
Eval vm_compute in ("<<<M143>>>" ++ check (runes_of_ascii "
packet  lengthOf
{  @tag( 65535
/// triple
//	t
)@tag( //	t
3 ) @tag( 0123456789) options1 @calculatedFrom(""abc""
    ) , @rightPad
( '0')falsey @lengthOf( a1  )
    ,
    @lengthOf(Pad
)body @calculatedFrom( // " ++ [128512]%N ++ runes_of_ascii " emoji
""packet"" ) // trailing space 
,
} packet int
{ string Foo @calculatedFrom(""CRC32"" ) ,}
root
// trailing space 
//	t
packet uint8x
    {}
root packet len { x_y_z
_x ,
    BodyLength rootA
/// triple
//
,
match f32a as Logon
    {[ ""a\""b"" ,
""" ++ [28040; 24687]%N ++ runes_of_ascii """
    ,
    """ ++ [128512]%N ++ runes_of_ascii """
,65535, 00 ,4294967296
    ,
"""" ,""abc"" ]
    : roots,[
    00 ] :
A ,  [
    65535
// a // b
// trailing space 
,
// trailing space 
// " ++ [128512]%N ++ runes_of_ascii " emoji
65535
, """" ]
// c
// packet A { u8 x, }
:
// " ++ [128512]%N ++ runes_of_ascii " emoji
// trailing space 
pack ,
    }
    // trailing space 
    ,repeat Pad `say ""hi""` ,
    /// triple
    a1 calculatedFrom
    ,
@lengthOf( stringy )char[] As @calculatedFrom( ""\" ++ [233]%N ++ runes_of_ascii """ )
, zchar[ 0123456789 ] Z9_
    @lengthOf( repeatCount ) // packet A { u8 x, }
`a\`
, repeat // `tick` ""quote"" 'q'
string lengthOf , //x
u8 falsey @calculatedFrom(
""a\\"" )  ,@calculatedFrom( ""it's"") string calculatedFrom @lengthOf( MetaDataX ) ,}")).
Eval vm_compute in ("<<<M289>>>" ++ check (runes_of_ascii "options  {
// " ++ [27880; 37322]%N ++ runes_of_ascii "
//x
float // packet A { u8 x, }
=char[]
    // @lengthOf(
    ; Header = false
//
/// triple
}
    // `tick` ""quote"" 'q'
    options {	x =char[] ; }	MetaData i64_{f64 As
    /// triple
    `
` , repeatCount MetaDataX
// `tick` ""quote"" 'q'
// `tick` ""quote"" 'q'
,
repeatCount u128 //x
,	metadata msg_type `tab	here`
    ,
    }
packet  options1
    {
    repeat char[0123456789] T  , @tag(  65535
)
    //x
    @calculatedFrom( ""CRC32""
) @calculatedFrom( """ ++ [28040; 24687]%N ++ runes_of_ascii """ ) repeat string
Logon
    ,	@lengthOf( u128 )
stringy  {string_ x ,
} , @tag( // " ++ [27880; 37322]%N ++ runes_of_ascii "
10) u64 tag @lengthOf(roots), Foo	@lengthOf(
Foo
)`// not a comment` ,
string pack `a\` , match A
    as charz {
[ 3 ] : x ,} ,@tag(42 ) f64 msg_type @lengthOf(
trueish )
,match	pack /// triple
as
options1 { """ ++ [28040; 24687]%N ++ runes_of_ascii """ : // packet A { u8 x, }
string_ ,	[ 65535, 7 ,
""a\""b""
    , 7]//	t
: f32a 4294967296: o ,  }	,
    char[] falsey ,
} // " ++ [128512]%N ++ runes_of_ascii " emoji")).
Eval vm_compute in ("<<<M371>>>" ++ check (runes_of_ascii "root
    packet
packetx
    {
    @tag( 0) char[00 ] Z9_
    ,
    // a // b
    falsey
    // c
    { match
    x as options1 { [//	t
42 ,
    007 ]:
    uint8x } , uint8 falsey `crlf
line` , }
, f64 Pad
, @tag(7  ) string Logon// " ++ [27880; 37322]%N ++ runes_of_ascii "
`a\`, @lengthOf(
lengthOf//	t
) char[
3
    ]
// " ++ [27880; 37322]%N ++ runes_of_ascii "
//
calculatedFrom @calculatedFrom(
""" ++ [28040; 24687]%N ++ runes_of_ascii """
)
, char[]
    T , //x
@tag(
42 ) @leftPad ( )
    char[]trueish
@calculatedFrom(""`tick`"" ) ,match
    // `tick` ""quote"" 'q'
    uint8x as pack { [
    ""abc"",
    ""1"" ,""packet""
,
// `tick` ""quote"" 'q'
// `tick` ""quote"" 'q'
1,
    ""a\""b""]: As	, """ ++ [28040; 24687]%N ++ runes_of_ascii """ :
    trueish ,} ,
}
packet/// triple
charz
{
    repeat
Z9_ { Pad  {match len as string_{
    // a // b
    4294967296
    : msg_type , [""// no comment""
    ] :u
    ,
} ,} , zchar[
    65535
] As  @lengthOf(//x
string_
)
,
} ,
    }")).
Eval vm_compute in ("<<<M1400>>>" ++ check (runes_of_ascii "root packet i64_ {
    trueish,
    @calculatedFrom(""abc"")
    @tag(7)
    // c
    int16 asx,
    @calculatedFrom(""a\\"")
    float32 crc @lengthOf(Foo),
    @tag(42)
    zchar[7] asx @lengthOf(calculatedFrom) `// not a comment`,//
    repeat zchar[1] As,
    chars `two words`,
    @calculatedFrom(""1"")
    @tag(0123456789)
    @leftPad('0')
    repeat char[] BodyLength `tab	here`,
}

MetaData u128 {
    u16 i64_,
    float32 asx `two words`,//
    i64 leftPad,
    zchar[00] _x,//
}

MetaData chars {
    Foo crc `say ""hi""`,
    uint8 u `two words`,// " ++ [128512]%N ++ runes_of_ascii " emoji
    f32 pack `crlf
        line`,
    string _x `" ++ [233]%N ++ runes_of_ascii "`,
}

packet x_y_z {
}

options {
    calculatedFrom = ""CRC32""
    crc = uint16;
    u = false
    Foo = char
}// " ++ [128512]%N ++ runes_of_ascii " emoji")).
Eval vm_compute in ("<<<M288>>>" ++ check (runes_of_ascii "// packet A { u8 x, }
MetaData
    _x
{ //
char[] len
    ,}options
// @lengthOf(
//
{ repeatCount =""""
    ; }// c
root packet chars {
    char[ 255
]u8x,	repeat
/// triple
// c
string repeatCount
`" ++ [28040; 24687; 31867; 22411]%N ++ runes_of_ascii "` ,
repeat zchar[ 10
]
string_ , @tag( // trailing space 
255
    ) i8i8{// packet A { u8 x, }
options1
calculatedFrom `u8 x,`
,
    i64
len,
    roots // c
{ // @lengthOf(
repeat
    // a // b
    i64_ zchar //
,
    } ,
    }
, match chars as Packet	{
""a\""b"": Pad
,[ ""{,}""
    ]
:
calculatedFrom // a // b
,
""" ++ [233]%N ++ runes_of_ascii "t" ++ [233]%N ++ runes_of_ascii """
//x
// `tick` ""quote"" 'q'
: uint8x ,[ // packet A { u8 x, }
""`tick`"" ,0
    , 42
    ] : _x[ 0123456789	, ""\" ++ [233]%N ++ runes_of_ascii """
    ] :
i8i8,	} ,	}
")).
Eval vm_compute in ("<<<M208>>>" ++ check (runes_of_ascii "packet // packet A { u8 x, }
u8x {}root packet
    matchKey{
repeat zchar[ 0123456789 ] // packet A { u8 x, }
int , char[
// `tick` ""quote"" 'q'
// a // b
4294967296 ]
asx `{ , }`
    ,
repeat i8i8, repeat Packet { repeat
    leftPad {	f32 u128
@lengthOf(As ), body`two words` ,// packet A { u8 x, }
rootA Pad , } , char[ 00
] msg_type `tab	here` // " ++ [128512]%N ++ runes_of_ascii " emoji
,
    repeat
    //x
    i64_ `doc` , zchar x_y_z ,}
,
}
root
packet int {
repeat f32a {repeat f32a  asx
`u8 x,` ,} ,@lengthOf(
// @lengthOf(
//	t
msg_type// packet A { u8 x, }
) body ,
// c
//
Z9_ // c
zchar `a\` //x
, } //x")).
Eval vm_compute in ("<<<M66>>>" ++ check (runes_of_ascii "packet	int {// @lengthOf(
repeat
string
    BodyLength
    `a\`
    , } packet repeatCount { @lengthOf( x_y_z ) crc ,
    match Packet as
Z9_{""// no comment"" :MetaDataX ,
//	t
// a // b
[  00, 7]: chars ,""CRC32""
    : zchar 42: stringy //	t
, [ ""a\""b"",""1""// a // b
] : u ,
},
@rightPad
( ' ' )
@lengthOf( i64_//x
)
    repeat
f64
x `two words`
    , @calculatedFrom(""`tick`""	) int64 falsey @lengthOf(//x
u128 ) , charz
    {
    //x
    char[]
    T
// c
// " ++ [27880; 37322]%N ++ runes_of_ascii "
`a\` ,
}
,@lengthOf(
    u8x)string_, repeat
// " ++ [128512]%N ++ runes_of_ascii " emoji
//	t
x
    , }
")).
Eval vm_compute in ("<<<M1910>>>" ++ check (runes_of_ascii "packet Logon {
    repeatCount {
        BodyLength `crlf
                line`,
    },
    zchar a1 `u8 x,`,
    match Foo as Foo {
        ""\n"" : i8i8,
        [""abc"", ""CRC32""] : crc,
        [
            3, ""x y"", 42, ""`tick`"", 1,
            ""a\""b"", ""CRC32"", 255
        ] : repeatCount,
        [
            1, 007, ""\n"", 007, 7,
            ""// no comment"", 255
        ] : uint8x,
        00 : f32a,
    },
    // a // b
    uint16 Pad @lengthOf(uint8x) `doc`,
}")).
Eval vm_compute in ("<<<M1375>>>" ++ check (runes_of_ascii "options {
    LittleEndian = true;
    StringPrefixLenType = u64;
    ArrayPrefixLenType = u16;
    FixedStringPadFromLeft = false;
    FixedStringPadChar = ' ';
}
packet Logon {
    zchar[5] Side2,
}
root packet Logout {
    repeat i64 Tail,
    Logon,
    repeat i16 OrderId,
    char[] venue,
    uint64 x,
    repeat i16 count,
    u8 Flags,
    match Flags as Body {
        25 : Logon,
    },
    u16 Qty @calculatedFrom(""CRC32""),
}
")).
Eval vm_compute in ("<<<M1271>>>" ++ check (runes_of_ascii "options { // c1a
  // c1b
LittleEndian
    // c2
= // c3
true // c4
; } // c6a
  // c6b
packet B { u8 // c10a
  // c10b
a
    // c11
, // c12a
  // c12b
string // c13
s // c14
, } // c16
root // c17a
  // c17b
packet
    // c18
P // c19
{ u16 // c21
L @lengthOf( B ) // c25a
  // c25b
, // c26a
  // c26b
B // c27a
  // c27b
,
    // c28
u8
    // c29
t // c30
, // c31
} // c32a
  // c32b
")).
Eval vm_compute in ("<<<M15>>>" ++ check (runes_of_ascii "MetaData // c
u128{
    }MetaData
    a1 {
}
    root packet	o {	char[
10 ]  stringy @lengthOf( Z9_) ,
match
x_y_z as stringy
{	3
: float ,
    } , @leftPad //	t
( ' '
    ) u128 {	repeat i32 msg_type `crlf
line` , x	, repeat char[	65535
] T, match
    A as
i8i8 { """ ++ [128512]%N ++ runes_of_ascii """ : Logon
, } //
, } ,
@rightPad (  '\x00') repeat x_y_z options1 `two words` , }
")).
Eval vm_compute in ("<<<M194>>>" ++ check (runes_of_ascii "// `tick` ""quote"" 'q'
options
    //	t
    { }  packet lengthOf // `tick` ""quote"" 'q'
{  } packet
// a // b
// " ++ [27880; 37322]%N ++ runes_of_ascii "
Foo {
@tag(
1
) string
uint8x ,_x { chars  , string uint8x , i64 _x //
`it's`
    , repeat uint8 As,	}
, float32
f32a , @leftPad( '\x00')
    @calculatedFrom( """ ++ [28040; 24687]%N ++ runes_of_ascii """
) // trailing space 
uint8 Logon
,
    }")).
Eval vm_compute in ("<<<M1384>>>" ++ check (runes_of_ascii "
options
	{
LittleEndian =	true
; }
	packet 
Logon {

    u8

x ,  string user
,}
packet
    Logout 
{

u16
	reason,
} packet

Empty
	{

}
    root 
packet

    Frame
{
	u16 MsgType
    , 
u8 BodyLen

    @lengthOf(Body

    ) , u8	flags ,	Logon
Body ,

    u32
	trailer

    ,}")).
Eval vm_compute in ("<<<M1320>>>" ++ check (runes_of_ascii "packet P1 {
    u8 a,
}
packet P2 {
    P1,
}
packet P3 {
    P2,
    P1,
}
packet P4 {
    repeat P3,
    P2,
}
root packet P5 {
    P4,
    P3,
    P1,
    u8 K,
    match K as Body {
        4 : P4,
        3 : P3,
        2 : P2,
        1 : P1,
    },
}
")).
Eval vm_compute in ("<<<M1784>>>" ++ check (runes_of_ascii "packet i8i8 {
    repeat char[00] Pad `a\`,
    @leftPad('\x00')
    string a1 @lengthOf(tag) ``,
    float64 u128 @calculatedFrom(""1""),
    @lengthOf(x)
    u128 @lengthOf(tag) `" ++ [28040; 24687; 31867; 22411]%N ++ runes_of_ascii "`,
    int64 u,
    A T `say ""hi""`,
}")).
Eval vm_compute in ("<<<M92>>>" ++ check (runes_of_ascii "packet lengthOf { } root packet leftPad {  zchar[00// a // b
]
    Foo `` // c
, @calculatedFrom( ""1"" )
@leftPad (
    ' '
// trailing space 
// " ++ [27880; 37322]%N ++ runes_of_ascii "
)  @leftPad
( ' ')
repeat u8
options1 , }")).
Eval vm_compute in ("<<<M62>>>" ++ check (runes_of_ascii "packet
crc { @leftPad //	t
( ) repeat
charz float
    ,} root packet
options1 {
@tag( 65535/// triple
)packetx
{ u128 , f32 /// triple
a1 ,
    } , }
// trailing space 
")).
Eval vm_compute in ("<<<M1645>>>" ++ check (runes_of_ascii "packet A {
    Inner {
        match k as n {
            [
                1, 22, 007, 4, 5,
                66, 7, 8, 9
            ] : B,
        },
    },
}")).
Eval vm_compute in ("<<<M478>>>" ++ check (runes_of_ascii "packet uint8x
{ match pack
    as msg_type	{
    0123456789 :	float
}
,
} packet //	t
a1
    { char[ options {packetx
    = '\x00'	; u128= ""a	b""  ; }
")).
Eval vm_compute in ("<<<M542>>>" ++ check (runes_of_ascii "$ packet uint8x
{ match pack
    as msg_type	{
    0123456789 :	float
}
,
} packet //	t
a1
    { } options {packetx
    = '\x00'	; u128= ""a	b""  ; }
")).
Eval vm_compute in ("<<<M442>>>" ++ check (runes_of_ascii "packet uint8x
{ match pack
    as msg_type	{
    0123456789 :	}
float
,
} packet //	t
a1
    { } options {packetx
    = '\x00'	; u128= ""a	b""  ; }
")).
Eval vm_compute in ("<<<M483>>>" ++ check (runes_of_ascii "packet uint8x
{ match pack
    as msg_type	{
    0123456789 :	float
}
,
} packet //	t
a1
    { } '\x00' {packetx
    = '\x00'	; u128= ""a	b""  ; }
")).
Eval vm_compute in ("<<<M533>>>" ++ check (runes_of_ascii "packet uint8x
{ match pack
    as msg_type	{
    0123456789 :	float
}
,
} packet //	t
a1
    { } options {packetx
    = '\x00'	; u128= ""a	b""  ;")).
Eval vm_compute in ("<<<M723>>>" ++ check (runes_of_ascii "// @lengthOf(
packet i8i8 { u128 o , }
options { MetaD?ataX = true;
    BodyLength =""packet"" x_y_z= 007
crc //x
= ""abc"" ;
    msg_type =
i16 }")).
Eval vm_compute in ("<<<M710>>>" ++ check (runes_of_ascii "// @lengthOf(
packet i8i8 { u128 o , }
options { MetaDataX = true;
    BodyLength =""packet"" x_y_z= 007
crc //x
= ""abc"" ;
    msg_type 
i16 }")).
Eval vm_compute in ("<<<M1598>>>" ++ check (runes_of_ascii "packet _x {
    //
    repeat zchar[1] metadata,
    @leftPad(' ')
    @lengthOf(T)
    @lengthOf(Z9_)
    char[] As,
    string f32a,
}")).
Eval vm_compute in ("<<<M1822>>>" ++ check (runes_of_ascii "packet u128 {
    @calculatedFrom(""x y"")
    // `tick` ""quote"" 'q'
    @rightPad(' ')
    char[42] Header @calculatedFrom(""abc""),
}")).
Eval vm_compute in ("<<<M1676>>>" ++ check (runes_of_ascii "

  options{ 
LittleEndian
    = 
true
    ; }
root packet

    P{u16
	a
    , u32 
Sum
@calculatedFrom( ""CRC32"" ),	}
")).
Eval vm_compute in ("<<<M1155>>>" ++ check (runes_of_ascii "MetaData leftPad { chars MetaDataX , } // c
packet repeatCount { char[ 255 ] uint8x `" ++ [233]%N ++ runes_of_ascii "` , } MetaData pack { As Foo , }")).
Eval vm_compute in ("<<<M1187>>>" ++ check (runes_of_ascii "MetaData leftPad { chars MetaDataX , } packet repeatCount { char[ 255 ] uint8x `" ++ [233]%N ++ runes_of_ascii "` , } MetaData pack { As Foo , // c
}")).
Eval vm_compute in ("<<<M915>>>" ++ check (runes_of_ascii "packet A {
  match k as n {
    [""a"", ""bb"", 007, ""d"", ""e"", 66, ""g"", ""h"", 9, ""j"", ""k"", 12] : B
    2 : C
  },
}")).
Eval vm_compute in ("<<<M1396>>>" ++ check (runes_of_ascii "
packet 
uint8x
{
match pack

as msg_type

    { 0123456789:
float	},
    } packet	//	t
  a1

{
}

")).
Eval vm_compute in ("<<<M896>>>" ++ check (runes_of_ascii "packet A {
  match k as n {
    [1, ""bb"", 007, ""d"", 5, ""f"", 7, ""h"", 9, ""j"", 11] : B
    2 : C
  },
}")).
Eval vm_compute in ("<<<M905>>>" ++ check (runes_of_ascii "packet A {
  match k as n {
    [1, 22, 007, 4, 5, 66, 7, 8, 9, 10, 11, 12] : B
    2 : C
  },
}")).
Eval vm_compute in ("<<<M580>>>" ++ check (runes_of_ascii "
packet
    asx {match u128 char[ lengthOf
{
//	t
// `tick` ""quote"" 'q'
255 : x ,
    } ,	}")).
Eval vm_compute in ("<<<M229>>>" ++ check (runes_of_ascii "// a // b
options{
Foo
= '\x00'
    pack
= zchar[ 65535]
// " ++ [128512]%N ++ runes_of_ascii " emoji
//x
;	int = ""\n"" ;	}
")).
Eval vm_compute in ("<<<M874>>>" ++ check (runes_of_ascii "packet A {
  match k as n {
    [1, 22, ""c c"", 4, 5, ""f"", 7, 8, ""i""] : B
    2 : C
  },
}")).
Eval vm_compute in ("<<<M592>>>" ++ check (runes_of_ascii "
packet
    asx {match u128 as lengthOf
{
//	t
// `tick` ""quote"" 'q'
 : x ,
    } ,	}")).
Eval vm_compute in ("<<<M966>>>" ++ check (runes_of_ascii "packet A {
    u32 crc @calculatedFrom(""x\
y""),
    @calculatedFrom(""x\
y"") u8 y,
}")).
Eval vm_compute in ("<<<M916>>>" ++ check (runes_of_ascii "packet A { Inner { match k as n { [1,22,007,4,5,66,7,8,9,10,11,12] : B, }, }, }")).
Eval vm_compute in ("<<<M810>>>" ++ check (runes_of_ascii "packet A {
  match k as n {
    [""a"", ""bb"", 007, ""d""] : B,
    2 : C
  },
}")).
Eval vm_compute in ("<<<M808>>>" ++ check (runes_of_ascii "packet A {
  match k as n {
    [1, 22, ""c c"", 4] : B,
    2 : C
  },
}")).
Eval vm_compute in ("<<<M1098>>>" ++ check (runes_of_ascii "packet A {
    match k as n {
        1 : B,
        // c
    },
}")).
Eval vm_compute in ("<<<M151>>>" ++ check (runes_of_ascii "packet
    stringy
{ } MetaData crc
/// triple
//x
{ u16 o ,}")).
Eval vm_compute in ("<<<M930>>>" ++ check (runes_of_ascii "packet A {
    B b `
`,
    B `
`,
    repeat B bs `
`,
}")).
Eval vm_compute in ("<<<M1930>>>" ++ check (runes_of_ascii "

  MetaData  o
    {
	}

MetaData T {	}options{ }
")).
Eval vm_compute in ("<<<M1741>>>" ++ check (runes_of_ascii "packet body {
    i32 f32a `{ , }`,
}

options {
}")).
Eval vm_compute in ("<<<M951>>>" ++ check (runes_of_ascii "MetaData M {
    u8 x `x
`,
    T t `x
`,
}")).
Eval vm_compute in ("<<<M1922>>>" ++ check (runes_of_ascii "// top
MetaData tag {
    // c2
}
// c3")).
Eval vm_compute in ("<<<M1904>>>" ++ check (runes_of_ascii "packet A {
    u8 x `
        x`,
}")).
Eval vm_compute in ("<<<M738>>>" ++ check (runes_of_ascii "\B1ss""~3@|Nr!9$[0mx>ti>t+Fp_cN&")).
Eval vm_compute in ("<<<M1844>>>" ++ check (runes_of_ascii "
MetaData
tag

{
} 
	// c
")).
Eval vm_compute in ("<<<M338>>>" ++ check (runes_of_ascii "root packet
msg_type { }
")).
Eval vm_compute in ("<<<M1923>>>" ++ check (runes_of_ascii "// c" ++ [8203]%N ++ runes_of_ascii "
		packet	A
	{ }")).
Eval vm_compute in ("<<<M1042>>>" ++ check (runes_of_ascii "// c 	
packet A {
}")).
Eval vm_compute in ("<<<M1011>>>" ++ check (runes_of_ascii "packet A {
}
// c" ++ [8232]%N)).
Eval vm_compute in ("<<<M979>>>" ++ check (runes_of_ascii "packet A {
}// c" ++ [12288]%N)).
Eval vm_compute in ("<<<M46>>>" ++ check (runes_of_ascii "//x

// a // b
")).
Eval vm_compute in ("<<<M1815>>>" ++ check (runes_of_ascii "// c" ++ [11]%N ++ runes_of_ascii "
 
")).
Eval vm_compute in ("<<<M1823>>>" ++ check (runes_of_ascii "

  ")).
