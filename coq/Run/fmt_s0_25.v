From FP Require Import Lexer Parser ShowPT Digest Formatter.
From Coq Require Import String List NArith.
Import ListNotations.
Open Scope string_scope.
Set Printing Width 100000000.
Set Printing Depth 100000000.
Definition show_fres (r : fres) : string :=
  match r with
  | FOk s => "OK:" ++ sh_escaped s ""
  | FErr s => "ERR:" ++ sh_escaped s ""
  | FPanic p => "PANIC:" ++ p
  end.
Definition check (rs : list rune) : string := digest (show_fres (format_res rs)).
Definition full (rs : list rune) : string := show_fres (format_res rs).
Eval vm_compute in ("<<<M1745>>>" ++ check (runes_of_ascii "packet A {
    @rightPad('0')
    repeat i8i8 {
        zchar[007] packetx,
        metadata `" ++ [28040; 24687; 31867; 22411]%N ++ runes_of_ascii "`,
        repeat float64 T,
    },
    @tag(0)
    Z9_ {
        int @lengthOf(tag) `line1
        line2`,
        repeat i8i8 {
            zchar[00] stringy,
            repeat f32a {
                match i64_ as string_ {
                    [255, 0123456789, ""{,}""] : x_y_z,
                    """ ++ [233]%N ++ runes_of_ascii "t" ++ [233]%N ++ runes_of_ascii """ : A,
                    ""`tick`"" : len,
                },
            },
            //
            repeat u8x {
                u16 Z9_ @calculatedFrom(""" ++ [128512]%N ++ runes_of_ascii """) `line1
                line2`,
                f32 matchKey,
            },// " ++ [27880; 37322]%N ++ runes_of_ascii "
            float64 u8x `
            `,
        },//
    },// `tick` ""quote"" 'q'
    a1 {
        repeat zchar[007] Foo `two words`,
        f32a @calculatedFrom(""" ++ [28040; 24687]%N ++ runes_of_ascii """),
        int64 i64_ @calculatedFrom(""`tick`""),
    },
    @lengthOf(Header)
    f32 stringy @calculatedFrom(""x y"") `say ""hi""`,
    Foo,
    float64 BodyLength @calculatedFrom(""packet""),
    uint32 int,
}

packet string_ {
    @tag(4294967296)
    repeat u `two words`,
    repeat zchar[0] BodyLength,
    @tag(255)
    /// triple
    int `line1
    line2`,
    uint8x `it's`,
    @tag(65535)
    int8 metadata `" ++ [233]%N ++ runes_of_ascii "`,/// triple
    match options1 as float {
        3 : f32a,
        """ ++ [28040; 24687]%N ++ runes_of_ascii """ : charz,
    },
    match uint8x as string_ {
        ""CRC32"" : x,
    },
    uint8 packetx `crlf
    line`,
    @leftPad()
    zchar[0] Foo `say ""hi""`,
}")).
Eval vm_compute in ("<<<M143>>>" ++ check (runes_of_ascii "
packet  lengthOf
{  @tag( 65535
/// triple
//	t
)@tag( //	t
3 ) @tag( 0123456789) options1 @calculatedFrom(""abc""
    ) , @rightPad
( '0')falsey @lengthOf( a1  )
    ,
    @lengthOf(Pad
)body @calculatedFrom( // " ++ [128512]%N ++ runes_of_ascii " emoji
""packet"" ) // trailing space 
,
} packet int
{ string Foo @calculatedFrom(""CRC32"" ) ,}
root
// trailing space 
//	t
packet uint8x
    {}
root packet len { x_y_z
_x ,
    BodyLength rootA
/// triple
//
,
match f32a as Logon
    {[ ""a\""b"" ,
""" ++ [28040; 24687]%N ++ runes_of_ascii """
    ,
    """ ++ [128512]%N ++ runes_of_ascii """
,65535, 00 ,4294967296
    ,
"""" ,""abc"" ]
    : roots,[
    00 ] :
A ,  [
    65535
// a // b
// trailing space 
,
// trailing space 
// " ++ [128512]%N ++ runes_of_ascii " emoji
65535
, """" ]
// c
// packet A { u8 x, }
:
// " ++ [128512]%N ++ runes_of_ascii " emoji
// trailing space 
pack ,
    }
    // trailing space 
    ,repeat Pad `say ""hi""` ,
    /// triple
    a1 calculatedFrom
    ,
@lengthOf( stringy )char[] As @calculatedFrom( ""\" ++ [233]%N ++ runes_of_ascii """ )
, zchar[ 0123456789 ] Z9_
    @lengthOf( repeatCount ) // packet A { u8 x, }
`a\`
, repeat // `tick` ""quote"" 'q'
string lengthOf , //x
u8 falsey @calculatedFrom(
""a\\"" )  ,@calculatedFrom( ""it's"") string calculatedFrom @lengthOf( MetaDataX ) ,}")).
Eval vm_compute in ("<<<M1681>>>" ++ check (runes_of_ascii "
packet
crc 
{ @lengthOf(
stringy // a // b
  )@leftPad
( '0'
)
	@calculatedFrom(
""packet""

    )
repeat char[
    // c
3 ]
i64_  // a // b
  	,match

    options1 as
o {
	255

: msg_type ,

    ""\n""
:	MetaDataX  ,	42	: msg_type	""" ++ [128512]%N ++ runes_of_ascii """ :lengthOf

    , ""// no comment""	:

    falsey

, 
} 
	    /// triple

	// trailing space 
    , @leftPad 
(	) @lengthOf(
A  ) @calculatedFrom(  ""x y""	)
	uint32 	 // a // b
		charz
`doc` ,  len,@calculatedFrom(""// no comment""

)	match
_x
    //x
	  as	i64_{
65535

:
        // @lengthOf(

	u8x
,}
,	char[]a1  // @lengthOf(
, Foo	{ 
u8x  { 
char[]
    Logon `// not a comment`  , }
    ,
    match
metadata as u128  { 	 // trailing space 
    	42
	:
    u8x
    , 
65535
:f32a

} //x
  ,
asx // " ++ [128512]%N ++ runes_of_ascii " emoji
		@lengthOf( matchKey

)	,
    },  roots@calculatedFrom(	// packet A { u8 x, }
  	""a\""b""	) ,zchar[

    7
] int ,

    repeat
	pack

trueish

,	}
")).
Eval vm_compute in ("<<<M188>>>" ++ check (runes_of_ascii "// packet A { u8 x, }
root
    packet
    leftPad { @calculatedFrom(
    //x
    ""`tick`"" )	@rightPad( )
    // " ++ [128512]%N ++ runes_of_ascii " emoji
    string_
// `tick` ""quote"" 'q'
// a // b
@lengthOf(	tag
    ) `a\` ,i64 T
    `" ++ [233]%N ++ runes_of_ascii "`,//	t
}
packet
Pad// @lengthOf(
{ @lengthOf(	float ) char[] x@calculatedFrom(
    ""a\""b"")
    , // trailing space 
@tag(
    0// " ++ [128512]%N ++ runes_of_ascii " emoji
) // " ++ [27880; 37322]%N ++ runes_of_ascii "
repeatCount// packet A { u8 x, }
,
repeat rootA{
_x
    ,zchar[3 ]roots
    /// triple
    `crlf
line` ,
}
,
/// triple
// a // b
match
    metadata as BodyLength
    { [
    // c
    10 , 10 , ""a\""b"", """"	, ""\n""
,  ""a\\"" , 4294967296]  :
    u
, }
, repeat	i64_ Packet `" ++ [28040; 24687; 31867; 22411]%N ++ runes_of_ascii "`
,@tag( // packet A { u8 x, }
65535)
    char[] float`it's`
, char[7 ]
    x @calculatedFrom( ""{,}"" ),
    }MetaData leftPad// a // b
{ body rootA
`crlf
line`
, int64
msg_type
`doc`
    , // @lengthOf(
}
")).
Eval vm_compute in ("<<<M1353>>>" ++ check (runes_of_ascii "  options
{ 
StringPrefixLenType = u8 ; ArrayPrefixLenType= 
u32
; 
FixedStringPadFromLeft

=true ; FixedStringPadChar
=' '

; }packet 
Leg 
{}
	packet  Heartbeat  {
    zchar[ 6 ]	msgKind

,
@rightPad  ('0')
char[ 3
    ]	Qty , 
zchar[
    9 ]	Side2

    , i8 Acct

    ,
}
packet Logout
	{

int8  x,

} packet	Order

{char[]

Acct
	,
	zchar[ 8 ] count
	,

    u32 OrderId , uint8  lastPx ,  u16
clOrdID, zchar[7
    ]	Note,
    }root
    packet
    Reject

{
	@leftPad (  ' ')

    char[

    8

    ]
Side2

    ,

i8
	clOrdID
    ,repeat
f32 
x
,	u32

    lastPx ,  match lastPx 
as

    Body
    {
[

30 
,147 ]
    : Heartbeat,134 : Leg , 183
	:  Logout ,

40: Order ,
    } , 
u16

    Ref
    @calculatedFrom(	""CRC32"") 
,
	}")).
Eval vm_compute in ("<<<M344>>>" ++ check (runes_of_ascii "options // a // b
{	}
    packet i8i8 { @tag(
3 ) x
@calculatedFrom(
""it's""	) , @lengthOf( f32a ) match
rootA
as uint8x // @lengthOf(
{ 0 : string_ 42 : Packet } , @leftPad
(
    '\x00'
) i64_ packetx `u8 x,` ,
    @calculatedFrom(""x y"" ) matchKey {len  ,
    }  ,
@lengthOf(  matchKey
)
    @calculatedFrom(// `tick` ""quote"" 'q'
""abc"" ) @lengthOf( x_y_z )
    /// triple
    repeat metadata `line1
line2` ,lengthOf repeatCount , /// triple
int32
// " ++ [27880; 37322]%N ++ runes_of_ascii "
//	t
roots @calculatedFrom( ""`tick`"")
`" ++ [233]%N ++ runes_of_ascii "` , zchar[
1	]	Packet	@calculatedFrom(	""// no comment"" ) ,} packet
    options1
{ @lengthOf(
    uint8x ) A @calculatedFrom( ""it's""
    )
`doc`, } root packet crc
{char[	65535	]chars
,}
")).
Eval vm_compute in ("<<<M206>>>" ++ check (runes_of_ascii "//x
root
    // " ++ [128512]%N ++ runes_of_ascii " emoji
    packet
// `tick` ""quote"" 'q'
/// triple
float{options1 A
,@tag(
42 )
    u8x{ tag //x
@calculatedFrom(	""\" ++ [233]%N ++ runes_of_ascii """) // packet A { u8 x, }
`tab	here` ,
    }
    , int16 asx ,
    @lengthOf( o
    )
@rightPad( ) repeat int
/// triple
/// triple
Logon,@calculatedFrom(""// no comment"" )  @leftPad('\x00')
    @rightPad('0'	)	zchar[ 65535 //x
] o `
`
    ,
    repeat As{ //x
repeat uint16 o ,repeat
char[ // trailing space 
1
    ]o ,
u128
metadata	, repeat char[7	] Header ,
    } , @tag( 0123456789
    ) a1 tag
    , float32 asx ,
    repeat // packet A { u8 x, }
len
``
    ,}
")).
Eval vm_compute in ("<<<M1703>>>" ++ check (runes_of_ascii "
root
    packet

    Logon
{

@calculatedFrom( """" ) @lengthOf( int
	)
@tag(
3

    )

    match
	_x  as // a // b
      i64_

    {10 
:
asx 
	    // `tick` ""quote"" 'q'
    /// triple
	""" ++ [128512]%N ++ runes_of_ascii """ :
crc ,
    [0
	,
007	]:

    float ,// trailing space 
	}
    ,

    repeat 	 //	t
uint16
leftPad, } 
// " ++ [27880; 37322]%N ++ runes_of_ascii "
packet	charz	{  }
MetaData

int

{
//
// trailing space 
      zchar[ 4294967296]  matchKey
    ,
	asx rootA
`doc`
, 
Foo string_
`// not a comment`

,

    char[]u8x  , // `tick` ""quote"" 'q'
	roots 
float , }
")).
Eval vm_compute in ("<<<M1572>>>" ++ check (runes_of_ascii "packet leftPad {
    match A as x {
        ""`tick`"" : MetaDataX,
        [""it's"", ""\n"", """ ++ [28040; 24687]%N ++ runes_of_ascii """] : string_,
        0123456789 : o,
        [""{,}"", ""x y""] : uint8x,
    },
    char[3] msg_type @lengthOf(u) `two words`,
    // c
    repeat int Foo,
    @rightPad()
    @rightPad(' ')
    Foo charz `{ , }`,
}

MetaData A {
    zchar[0] A `{ , }`,
    float32 a1,
    char[] pack,
    string body `" ++ [233]%N ++ runes_of_ascii "`,
    string chars `doc`,
    int _x `two words`,
}

options {
    Z9_ = uint16;
}")).
Eval vm_compute in ("<<<M1895>>>" ++ check (runes_of_ascii "options	// " ++ [27880; 37322]%N ++ runes_of_ascii "
  {  T	=	zchar[
42  ]  options1 
=
uint8
;
    lengthOf

    =
	// a // b
  char[  4294967296  ] ;	}

packet	Z9_
	{repeat
MetaDataX

    `crlf
line`
,

    repeat

string
x_y_z
	,
u32
x ,  // `tick` ""quote"" 'q'

@tag(

// " ++ [128512]%N ++ runes_of_ascii " emoji
	// " ++ [128512]%N ++ runes_of_ascii " emoji
  00
)

repeat	i64 
Logon 
, u8x f32a 
, repeat
lengthOf

``
	, repeat
    stringy

Pad 

    // @lengthOf(
  	`
`

    ,

repeat
string_ chars `// not a comment` ,} ")).
Eval vm_compute in ("<<<M1921>>>" ++ check (runes_of_ascii "
MetaData

    Header	{ 
}
packet	crc

{
    match zchar
as leftPad 	 // `tick` ""quote"" 'q'
    	{ 7

    :As 0 : 
Packet
	,
	[00  // " ++ [128512]%N ++ runes_of_ascii " emoji
]	:
Pad  , 
  //x
	//x
    ""// no comment"":	calculatedFrom
,
    3  : string_

    , }

    ,
	falsey packetx`crlf
line`
	,  // " ++ [27880; 37322]%N ++ runes_of_ascii "
  @tag(42
    ) repeat
u64	packetx , 
@calculatedFrom(	""1""

)

repeat

u16
	calculatedFrom
	, 
}

")).
Eval vm_compute in ("<<<M118>>>" ++ check (runes_of_ascii "packet As{@leftPad ( )
    char[ 0	]
Logon, char[	0
]
Z9_@calculatedFrom(	""abc""
    // c
    ) ,  @tag( 4294967296 )
    i64 matchKey @calculatedFrom(
    ""// no comment""//
)`two words` ,i16 A
, }// " ++ [27880; 37322]%N ++ runes_of_ascii "
packet T { zchar[
3 ] tag// packet A { u8 x, }
@lengthOf(
    chars) , } packet// " ++ [128512]%N ++ runes_of_ascii " emoji
BodyLength  {calculatedFrom @lengthOf( body )
`
`	, } // a // b")).
Eval vm_compute in ("<<<M1350>>>" ++ check (runes_of_ascii "options {

    LittleEndian=  false

;
    StringPrefixLenType=  u16	;	} packet
Heartbeat
{

@rightPad(
'0'
    )  char[ 7]
    seqNo 
,

    uint64 
Tail , i16
    Flags,

    u16 
msgKind,
}  root

    packet

Reject 
{	zchar[

    3 
]

tag7 
,	repeat 
Heartbeat	,

    repeat string
    clOrdID
,
    } ")).
Eval vm_compute in ("<<<M1632>>>" ++ check (runes_of_ascii "// top
options {
    // c1
    zchar = true;// c5
    Pad = char[00]// c10
    a1 = uint32// c13
    BodyLength = true;// c17
}// c18

root packet T {
    @lengthOf(repeatCount)
    @tag(1)
    @calculatedFrom(""a	b"")
    // c31
    string stringy @calculatedFrom(""\n"") `u8 x,`,// c38
}// c39")).
Eval vm_compute in ("<<<M1320>>>" ++ check (runes_of_ascii "packet P1 {
    u8 a,
}
packet P2 {
    P1,
}
packet P3 {
    P2,
    P1,
}
packet P4 {
    repeat P3,
    P2,
}
root packet P5 {
    P4,
    P3,
    P1,
    u8 K,
    match K as Body {
        4 : P4,
        3 : P3,
        2 : P2,
        1 : P1,
    },
}
")).
Eval vm_compute in ("<<<M1313>>>" ++ check (runes_of_ascii "options	{ FixedStringPadChar
=

'0';  }packet
Q
{ zchar[4  ]

z
	, @rightPad  ('\x00'  )

    char[ 
3
]
n , char[
    5 ]  d,
}

    root
packet
R

{

    Q 
, zchar[8 
]top

    ,	repeat zchar[	2
]
	zs

    , 
}")).
Eval vm_compute in ("<<<M1833>>>" ++ check (runes_of_ascii "packet
repeatCount

{trueish
, } packet uint8x
{  /// triple
	match	u8x
    as  calculatedFrom	{

[ 4294967296  ]
    :	len,

    [
	""" ++ [128512]%N ++ runes_of_ascii """

, """ ++ [233]%N ++ runes_of_ascii "t" ++ [233]%N ++ runes_of_ascii """ 
,
	255,  //
      1  ] :falsey
	,} 
, }
")).
Eval vm_compute in ("<<<M1810>>>" ++ check (runes_of_ascii "

  packet	A  {
match
    k as

    n{[	1,	22
    , ""c c"" , 4	,

5
	,
""f""	,	7 ,  8
    ,
    ""i"",10

    ,11	, 
""l""] :
B
    ,  2
    :  C

    }
,

    }
")).
Eval vm_compute in ("<<<M250>>>" ++ check (runes_of_ascii "MetaData // a // b
o {string Foo
    , }
MetaData  msg_type { Header len `" ++ [28040; 24687; 31867; 22411]%N ++ runes_of_ascii "`
,
    }
options
{ tag
= '0' ;
    o=
""CRC32"" ; Logon = ""`tick`"" ;// a // b
}")).
Eval vm_compute in ("<<<M416>>>" ++ check (runes_of_ascii "packet uint8x
{ match pack
    as as msg_type	{
    0123456789 :	float
}
,
} packet //	t
a1
    { } options {packetx
    = '\x00'	; u128= ""a	b""  ; }
")).
Eval vm_compute in ("<<<M544>>>" ++ check (runes_of_ascii "packet uint8x
{ match pack
    as msg_type	{
    0123456789 :	float
}
,
} packet //	t
a1
    { } options {packetx
    = " ++ [65279]%N ++ runes_of_ascii " '\x00'	; u128= ""a	b""  ; }
")).
Eval vm_compute in ("<<<M437>>>" ++ check (runes_of_ascii "packet uint8x
{ match pack
    as msg_type	{
    0123456789 float	:
}
,
} packet //	t
a1
    { } options {packetx
    = '\x00'	; u128= ""a	b""  ; }
")).
Eval vm_compute in ("<<<M470>>>" ++ check (runes_of_ascii "packet uint8x
{ match pack
    as msg_type	{
    0123456789 :	float
}
,
} packet //	t
a1
     } options {packetx
    = '\x00'	; u128= ""a	b""  ; }
")).
Eval vm_compute in ("<<<M493>>>" ++ check (runes_of_ascii "packet uint8x
{ match pack
    as msg_type	{
    0123456789 :	float
}
,
} packet //	t
a1
    { } options {f64
    = '\x00'	; u128= ""a	b""  ; }
")).
Eval vm_compute in ("<<<M657>>>" ++ check (runes_of_ascii "// @lengthOf(
packet i8i8 { u128 o , }
options { MetaDataX = true;
    BodyLength =""packet"" x_y_z= 007
?crc //x
= ""abc"" ;
    msg_type =
i16 }")).
Eval vm_compute in ("<<<M420>>>" ++ check (runes_of_ascii "packet uint8x
{ match pack
    as 	{
    0123456789 :	float
}
,
} packet //	t
a1
    { } options {packetx
    = '\x00'	; u128= ""a	b""  ; }
")).
Eval vm_compute in ("<<<M1919>>>" ++ check (runes_of_ascii "

  packet

    // " ++ [128512]%N ++ runes_of_ascii " emoji

body

{
match
    Logon
    as
_x{ 
4294967296 
	    // a // b
		//x
  :
    _x
	,  """ ++ [28040; 24687]%N ++ runes_of_ascii """ :
	u128,
} ,}
")).
Eval vm_compute in ("<<<M1296>>>" ++ check (runes_of_ascii "packet A {
    u8 a,
}
packet B {
    u16 b,
}
root packet P {
    u8 K,
    match K as M {
        1 : A,
        1 : B,
    },
}
")).
Eval vm_compute in ("<<<M1731>>>" ++ check (runes_of_ascii "packet B {
    u8 a,
}

root packet P {
    u8 K,
    u64 L @lengthOf(Body),
    match K as Body {
        1 : B,
    },
}")).
Eval vm_compute in ("<<<M1156>>>" ++ check (runes_of_ascii "MetaData leftPad { chars MetaDataX , }
// c
packet repeatCount { char[ 255 ] uint8x `" ++ [233]%N ++ runes_of_ascii "` , } MetaData pack { As Foo , }")).
Eval vm_compute in ("<<<M1188>>>" ++ check (runes_of_ascii "MetaData leftPad { chars MetaDataX , } packet repeatCount { char[ 255 ] uint8x `" ++ [233]%N ++ runes_of_ascii "` , } MetaData pack { As Foo ,
// c
}")).
Eval vm_compute in ("<<<M925>>>" ++ check (runes_of_ascii "packet A {
    u16 len @lengthOf(body) `a
b`,
    u32 crc @calculatedFrom(""CRC32"") `a
b`,
    string body,
}")).
Eval vm_compute in ("<<<M931>>>" ++ check (runes_of_ascii "packet A {
    u16 len @lengthOf(body) `
`,
    u32 crc @calculatedFrom(""CRC32"") `
`,
    string body,
}")).
Eval vm_compute in ("<<<M1248>>>" ++ check (runes_of_ascii "  options
{LittleEndian 
= true 
; }

    root  packet

P {

    repeat
char
cs

, u8
	x, }

")).
Eval vm_compute in ("<<<M871>>>" ++ check (runes_of_ascii "packet A {
  match k as n {
    [""a"", 22, ""c c"", 4, ""e"", 66, ""g"", 8, ""i""] : B,
    2 : C
  },
}")).
Eval vm_compute in ("<<<M226>>>" ++ check (runes_of_ascii "// a // b
packet Pad {
    char[] // packet A { u8 x, }
Z9_ @lengthOf( Pad
) `{ , }` , } 	 ")).
Eval vm_compute in ("<<<M873>>>" ++ check (runes_of_ascii "packet A {
  match k as n {
    [1, 22, ""c c"", 4, 5, ""f"", 7, 8, ""i""] : B,
    2 : C
  },
}")).
Eval vm_compute in ("<<<M850>>>" ++ check (runes_of_ascii "packet A {
  match k as n {
    [""a"", ""bb"", 007, ""d"", ""e"", 66, ""g""] : B
    2 : C
  },
}")).
Eval vm_compute in ("<<<M1246>>>" ++ check (runes_of_ascii "options {
    LittleEndian = true;
}
root packet P {
    repeat char cs,
    u8 x,
}
")).
Eval vm_compute in ("<<<M816>>>" ++ check (runes_of_ascii "packet A {
  match k as n {
    [""a"", ""bb"", ""c c"", ""d"", ""e""] : B
    2 : C
  },
}")).
Eval vm_compute in ("<<<M269>>>" ++ check (runes_of_ascii "options
{ Z9_ ='\x00'  } packet trueish
{ // " ++ [128512]%N ++ runes_of_ascii " emoji
u16 calculatedFrom
, }")).
Eval vm_compute in ("<<<M1863>>>" ++ check (runes_of_ascii "options {
    lengthOf = 3
    trueish = true;
    calculatedFrom = 007;
}")).
Eval vm_compute in ("<<<M794>>>" ++ check (runes_of_ascii "packet A {
  match k as n {
    [""a"", 22, ""c c""] : B
    2 : C
  },
}")).
Eval vm_compute in ("<<<M628>>>" ++ check (runes_of_ascii "
packet
    asx {match u128 as lengthOf
{
//	t
// `tick` ""quote""")).
Eval vm_compute in ("<<<M204>>>" ++ check (runes_of_ascii "  options {// " ++ [128512]%N ++ runes_of_ascii " emoji
Packet =// `tick` ""quote"" 'q'
char[3 ]}")).
Eval vm_compute in ("<<<M773>>>" ++ check (runes_of_ascii "packet A {
  match k as n {
    [1] : B,
    2 : C
  },
}")).
Eval vm_compute in ("<<<M1197>>>" ++ check (runes_of_ascii "// c
packet body { i32 f32a `{ , }` , } options { }")).
Eval vm_compute in ("<<<M1715>>>" ++ check (runes_of_ascii "  options
{
Logon	=""" ++ [28040; 24687]%N ++ runes_of_ascii """;
	BodyLength= false  ;}
")).
Eval vm_compute in ("<<<M47>>>" ++ check (runes_of_ascii "MetaData	lengthOf
{
Header o `doc`
    ,}
")).
Eval vm_compute in ("<<<M1762>>>" ++ check (runes_of_ascii "root packet A {
    u8 x `
        `,
}")).
Eval vm_compute in ("<<<M1598>>>" ++ check (runes_of_ascii "options {
    Foo = 0123456789;
}")).
Eval vm_compute in ("<<<M998>>>" ++ check (runes_of_ascii "packet A {
 u8 x `d" ++ [5760]%N ++ runes_of_ascii "`, // c" ++ [5760]%N ++ runes_of_ascii "
}")).
Eval vm_compute in ("<<<M419>>>" ++ check (runes_of_ascii "packet uint8x
{ match pack")).
Eval vm_compute in ("<<<M1884>>>" ++ check (runes_of_ascii "  packet
    A{ } // c" ++ [160]%N)).
Eval vm_compute in ("<<<M20>>>" ++ check (runes_of_ascii "packet MetaDataX { }")).
Eval vm_compute in ("<<<M981>>>" ++ check (runes_of_ascii "packet A {
}
// c" ++ [12288]%N)).
Eval vm_compute in ("<<<M1074>>>" ++ check (runes_of_ascii "MetaData M {
}// c")).
Eval vm_compute in ("<<<M1228>>>" ++ check (runes_of_ascii "packet x // c
{ }")).
Eval vm_compute in ("<<<M1454>>>" ++ check (runes_of_ascii "packet A {
}")).
Eval vm_compute in ("<<<M1055>>>" ++ check (runes_of_ascii "// c" ++ [6158]%N)).
