From FP Require Import Lexer Parser ShowPT Digest Formatter.
From Coq Require Import String List NArith.
Import ListNotations.
Open Scope string_scope.
Set Printing Width 100000000.
Set Printing Depth 100000000.
Definition show_fres (r : fres) : string :=
  match r with
  | FOk s => "OK:" ++ sh_escaped s ""
  | FErr s => "ERR:" ++ sh_escaped s ""
  | FPanic p => "PANIC:" ++ p
  end.
Definition check (rs : list rune) : string := digest (show_fres (format_res rs)).
Definition full (rs : list rune) : string := show_fres (format_res rs).
Eval vm_compute in ("<<<M1528>>>" ++ check (runes_of_ascii "options
    {	BodyLength  =
char[	7  ]	;

}
        // c

// @lengthOf(
packet  asx// " ++ [128512]%N ++ runes_of_ascii " emoji

  {int16 x_y_z
    ,@calculatedFrom(""""
	) @lengthOf( 
    /// triple
  	chars

)//
  	repeat
    repeatCount
charz

    /// triple
// " ++ [27880; 37322]%N ++ runes_of_ascii "

  ,
@leftPad
	(
	)i64_
	@calculatedFrom(""\" ++ [233]%N ++ runes_of_ascii """)

`// not a comment`

    ,tag  Z9_
`two words`

, @lengthOf( asx )  @calculatedFrom(	""`tick`""
)
    match	uint8x
	as 
matchKey { 0123456789
	// packet A { u8 x, }
	// a // b
:  u8x

    ,
    1	:
zchar  ,
}
,

u128	@lengthOf(

u128 	 // packet A { u8 x, }
	) 	 // " ++ [128512]%N ++ runes_of_ascii " emoji
,  } MetaData
	msg_type { 
string  BodyLength
`two words`,
	options1	// " ++ [128512]%N ++ runes_of_ascii " emoji
  i64_ , } 	 // " ++ [128512]%N ++ runes_of_ascii " emoji
  packet 
roots {

    u ``
    ,  @calculatedFrom( ""a	b"" )

match
len
as msg_type	{ 
// c
    """ ++ [28040; 24687]%N ++ runes_of_ascii """ : charz} , crc
    @calculatedFrom( 
	    // packet A { u8 x, }
  // packet A { u8 x, }
  ""it's"" 
)`a\`	, 
@leftPad  (
'0' ) 
@tag(
007)zchar[  // trailing space 
    3
	    // trailing space 

	]falsey

,  @calculatedFrom( // `tick` ""quote"" 'q'

	""\n""
) @calculatedFrom(
    ""CRC32""  // c
) 
        // trailing space 
match 
    //x
  	Packet as // @lengthOf(
	stringy {

    1 :	Pad	,""it's""
:
    f32a	, },	@leftPad
(' ')
    match// " ++ [27880; 37322]%N ++ runes_of_ascii "
int
	as
	a1 {

    [

    0123456789 , 255

]

:

    options1 
	//x

  //x
	  }
    ,  BodyLength 
//

	@calculatedFrom(
	""" ++ [28040; 24687]%N ++ runes_of_ascii """),float32 zchar@calculatedFrom(  ""// no comment"" )  ,  @tag(	10 )
zchar[ 

    // packet A { u8 x, }
  1 ] 
rootA ,
} ")).
Eval vm_compute in ("<<<M123>>>" ++ check (runes_of_ascii "
packet _x{  leftPad `it's`
    , match Logon as
    matchKey { ""packet"" :  stringy,3
: u
    ,//
""1"" : Pad }
,  float32 Z9_ @lengthOf( i8i8	)
    `" ++ [233]%N ++ runes_of_ascii "`
    // " ++ [27880; 37322]%N ++ runes_of_ascii "
    , @tag( 3 )match
    //	t
    As as Pad{
"""" : chars
, ""x y"" //
: i64_	,  } ,  @calculatedFrom(""it's"" // c
) @leftPad ( ' '
) zchar[ 0123456789	] falsey , match	A as packetx
{ [ 42]:
matchKey // c
, }// `tick` ""quote"" 'q'
,@leftPad
( ' ' )
    match x
    // c
    as a1 { ""packet"" //x
:
    a1 , 10 : pack""{,}"" :  u8x// a // b
, [ 007
,00// trailing space 
]
:trueish ,
    ""x y"" :pack //	t
,
""" ++ [233]%N ++ runes_of_ascii "t" ++ [233]%N ++ runes_of_ascii """
:
matchKey , } , @leftPad ( '0'
) uint8x u
    ,	zchar[
    3 // a // b
]
    //	t
    u ``
    , @rightPad (
    ' ') repeat _x
`` , } MetaData Foo
    {a1 Z9_ ,
options1 T ,u32 u8x
`crlf
line`, metadata falsey,lengthOf
x_y_z ,
    } packet calculatedFrom { @tag( 3 ) string A,
    match leftPad as a1	{//	t
0123456789: calculatedFrom , }
    ,
    match crc//
as
    body {
    00 : _x, } , o @calculatedFrom(	""x y"" )
//
// " ++ [128512]%N ++ runes_of_ascii " emoji
,  } packet T { }  packet Logon { @leftPad
(// @lengthOf(
'\x00' )
As @calculatedFrom(
""a	b"" ) `line1
line2`	, pack lengthOf // `tick` ""quote"" 'q'
, } // `tick` ""quote"" 'q'")).
Eval vm_compute in ("<<<M1498>>>" ++ check (runes_of_ascii "root packet crc {
    @lengthOf(As)
    @calculatedFrom(""\" ++ [233]%N ++ runes_of_ascii """)
    zchar[4294967296] MetaDataX `doc`,/// triple
    rootA @calculatedFrom(""it's""),
    @tag(65535)
    @tag(7)
    @tag(00)
    len @lengthOf(A) `two words`,
    // trailing space 
    // " ++ [128512]%N ++ runes_of_ascii " emoji
    string rootA @lengthOf(pack),
    // " ++ [128512]%N ++ runes_of_ascii " emoji
    // trailing space 
    repeat zchar,
    @calculatedFrom(""abc"")
    @leftPad('\x00')
    @rightPad()
    match x_y_z as Z9_ {
        ""it's"" : Logon,
        ""x y"" : Packet,
        ""abc"" : trueish,
        4294967296 : repeatCount,
        """ ++ [128512]%N ++ runes_of_ascii """ : x_y_z,
    },
    char[10] stringy `it's`,
    @leftPad('\x00')
    rootA @lengthOf(i64_),
}

MetaData falsey {
    Packet repeatCount `tab	here`,
}

MetaData string_ {
    float64 roots `line1
    line2`,
    char As `
    `,
    zchar[65535] falsey `a\`,
    A T,
    _x metadata,
}

packet _x {
    zchar[255] string_ @lengthOf(u128) `{ , }`,
}

root packet Packet {
    repeat lengthOf,
}")).
Eval vm_compute in ("<<<M1350>>>" ++ check (runes_of_ascii "options {
    StringPrefixLenType = u64;
    ArrayPrefixLenType = u32;
    FixedStringPadFromLeft = false;
}
packet Party {
    zchar[7] OrderId,
    InTail6 {
        repeat char[1] msgKind,
        char[3] Tail,
        char[3] Flags,
        i16 tag7,
    },
    @rightPad('0') char[12] clOrdID,
}
packet Quote {
    @leftPad('0') char[11] price,
    repeat InCount7 {
        i32 x,
        Party,
        u8 Ref,
        u8 tag7,
    },
    char[] seqNo,
    Party,
}
packet Logon {
    @rightPad('\x00') char[5] Note,
    i16 sym,
    InPrice72 {
        char[9] Ref,
        zchar[1] venue,
    },
    char[] clOrdID,
}
root packet Reject {
    repeat Logon,
    @leftPad(' ') char[4] seqNo,
    zchar[5] Acct,
    u32 x,
    u16 f1 @lengthOf(Body),
    match x as Body {
        [169, 74] : Quote,
        45 : Party,
        7 : Logon,
    },
}
")).
Eval vm_compute in ("<<<M1483>>>" ++ check (runes_of_ascii "packet 	 // packet A { u8 x, }
  tag	{

@calculatedFrom(	""x y""  )lengthOf{options1`
`, 
}	,

    @tag( 
7

    )
    int  { 
    //x

// " ++ [27880; 37322]%N ++ runes_of_ascii "
  char[  007 
] // `tick` ""quote"" 'q'
      calculatedFrom
@lengthOf(
metadata 
) ,

tag
@lengthOf(falsey) , f32 
// " ++ [128512]%N ++ runes_of_ascii " emoji
    calculatedFrom 
	// `tick` ""quote"" 'q'

	//

	`{ , }`
    ,  i8i8 {  string i64_	@lengthOf(
asx  )

`it's`	, 
u 
@calculatedFrom(

""\n""
)
, }

    ,
} 
,
@calculatedFrom(	""abc""  //
)
@leftPad( 
' '
	)  uint64  calculatedFrom	, 	 // " ++ [27880; 37322]%N ++ runes_of_ascii "

	}
packet
o  { Header,
@lengthOf(

i8i8 )

float32

Pad  // c
  ,

char[

42]leftPad
@calculatedFrom(
	"""" // " ++ [128512]%N ++ runes_of_ascii " emoji
    )	, 
@tag(255

)body u
,
    } 
packet lengthOf

{ 
    // packet A { u8 x, }
	// c
  @tag(
255 	 //x
      )char[ 0123456789	]
	o
`
`,  }
")).
Eval vm_compute in ("<<<M369>>>" ++ check (runes_of_ascii "root
packet leftPad { @calculatedFrom( """ ++ [128512]%N ++ runes_of_ascii """) int64 len
`{ , }` , } packet
    u128
    { zchar[ 65535 ] chars @calculatedFrom( ""\" ++ [233]%N ++ runes_of_ascii """
    ), @lengthOf(  int
// packet A { u8 x, }
// @lengthOf(
) i64_ , crc { match	Z9_ as Logon
    {
10 : int ,
[ 0 ]
: u8x ,
// trailing space 
//x
42 :
    trueish , [ ""\" ++ [233]%N ++ runes_of_ascii """ , 4294967296
    ]
:Z9_
    ""\n""	: u128 ,	} ,
    repeat string_ uint8x, i8i8 , match u as body
{ 4294967296:
// " ++ [27880; 37322]%N ++ runes_of_ascii "
/// triple
Z9_, 10
:	Z9_,
[ """ ++ [128512]%N ++ runes_of_ascii """
    ,
    ""x y"" ]
: pack ,
    } , }
, @tag( // " ++ [128512]%N ++ runes_of_ascii " emoji
0123456789 )
    @lengthOf( calculatedFrom) @leftPad ( '\x00' // c
) zchar[ 3 ]
    T ,
match A  as
    leftPad{ [ """ ++ [28040; 24687]%N ++ runes_of_ascii """ ] :i64_""// no comment"" :
    string_
    ,
} , } // trailing space ")).
Eval vm_compute in ("<<<M122>>>" ++ check (runes_of_ascii "
packet u128  { // trailing space 
string  Header `say ""hi""` , repeat crc
f32a,
    char[ 10
    ] _x	,	@calculatedFrom( ""x y""	) repeat
    //
    charz	{
    Logon @lengthOf(T) `crlf
line`
, repeat char[ // trailing space 
0123456789 ]Z9_
    `crlf
line` ,
    } ,
    match Packet
    as
// " ++ [128512]%N ++ runes_of_ascii " emoji
// `tick` ""quote"" 'q'
float // a // b
{
    1
:  lengthOf }  ,  MetaDataX , match x as
u8x { 10 :crc } , } root packet // `tick` ""quote"" 'q'
Header // a // b
{ @calculatedFrom( ""{,}"") a1
    {  char[
    // packet A { u8 x, }
    007 ] pack ,stringy //x
zchar
    , repeat
char[]
    // " ++ [128512]%N ++ runes_of_ascii " emoji
    o `it's`	, } , }")).
Eval vm_compute in ("<<<M113>>>" ++ check (runes_of_ascii "options	{
As
= // packet A { u8 x, }
' '}MetaData o{} root packet pack
{ } packet tag // " ++ [128512]%N ++ runes_of_ascii " emoji
{ match falsey as
BodyLength	{ 4294967296
:
    lengthOf
// c
// " ++ [27880; 37322]%N ++ runes_of_ascii "
,[ ""x y""
,""a\\""
    ]
    : rootA , [
42 , ""a	b"" ,
    ""CRC32"" , 65535 ,""abc"" , 007 ]
:
u8x	""x y"" : A ,
    /// triple
    65535 :  i64_,
    0123456789 :
    Packet }
    , @lengthOf(  msg_type)	pack msg_type,
    @tag( 0 )@lengthOf( Packet
)/// triple
@tag(
3 )
//	t
// " ++ [128512]%N ++ runes_of_ascii " emoji
Foo , repeat float64 zchar, @calculatedFrom(
""a\""b""
) @lengthOf(A )@lengthOf( roots
) options1 @lengthOf(
Z9_ ),char[] T ,  }")).
Eval vm_compute in ("<<<M1872>>>" ++ check (runes_of_ascii "options {
    ArrayPrefixLenType = u64;
    FixedStringPadFromLeft = true;
    FixedStringPadChar = '0';
}

packet Quote {
}

packet Ack {
    repeat InNote66 {
        u8 pad0,
    },
}

packet Reject {
}

root packet Order {
    Quote,
    repeat Reject,
    string venue,
    string seqNo,
    uint32 Ref,
    u16 lastPx,
    u32 clOrdID @lengthOf(Body),
    match lastPx as Body {
        190 : Reject,
        186 : Quote,
        22 : Ack,
    },
    u16 Flags @calculatedFrom(""CR\
        C32""),
}")).
Eval vm_compute in ("<<<M138>>>" ++ check (runes_of_ascii "packet Header{ char[	10
] A`it's` , @calculatedFrom(	""" ++ [28040; 24687]%N ++ runes_of_ascii """)calculatedFrom // a // b
@lengthOf( zchar ) `tab	here` ,  u32	BodyLength,
@lengthOf(
    stringy  ) //
@rightPad (
    ' ') @tag(
0123456789 )
body{ match i8i8 as
Foo
{ [ 7 ,	""CRC32"" ] : options1 ,[""a\""b"" , """ ++ [128512]%N ++ runes_of_ascii """ ,
    ""it's""
    , ""a	b"" ,
""// no comment"" , ""it's"" , 7,""abc""  ] :
As  ,
1 :
_x
// " ++ [128512]%N ++ runes_of_ascii " emoji
//
} , repeat  uint8x{crc
@calculatedFrom( ""a\\""
), } ,
    repeat  i8 tag ,// " ++ [128512]%N ++ runes_of_ascii " emoji
}
, }

")).
Eval vm_compute in ("<<<M0>>>" ++ check (runes_of_ascii "packet leftPad// trailing space 
{@tag( 10 )
    @tag( 007 ) @lengthOf(	a1 )
// a // b
//
repeat metadata
    ,
} // " ++ [128512]%N ++ runes_of_ascii " emoji
options
    // @lengthOf(
    { lengthOf
= """ ++ [128512]%N ++ runes_of_ascii """	;
}  packet T
    // " ++ [27880; 37322]%N ++ runes_of_ascii "
    { A
{
//
// `tick` ""quote"" 'q'
tag@calculatedFrom(""abc"")
, }
    , @lengthOf( matchKey
    ) string	Header @lengthOf( metadata
) ,leftPad
    // trailing space 
    @calculatedFrom(
""a\""b"" )`crlf
line`,}
")).
Eval vm_compute in ("<<<M74>>>" ++ check (runes_of_ascii "options{ u = 7
    // " ++ [27880; 37322]%N ++ runes_of_ascii "
    roots
=zchar[
65535
    ]
msg_type = """ ++ [233]%N ++ runes_of_ascii "t" ++ [233]%N ++ runes_of_ascii """
; x =false
    } MetaData string_ { char[ // trailing space 
42
//x
// " ++ [128512]%N ++ runes_of_ascii " emoji
]
i8i8 `" ++ [28040; 24687; 31867; 22411]%N ++ runes_of_ascii "`	, u8
    x_y_z
, packetx lengthOf``
    // " ++ [27880; 37322]%N ++ runes_of_ascii "
    ,
T Header `line1
line2` ,
char[] // " ++ [27880; 37322]%N ++ runes_of_ascii "
u8x `two words` ,}packet
float //x
{
    calculatedFrom
    ,
@rightPad ( '0'
) char[
    3
] u128 , } 	 ")).
Eval vm_compute in ("<<<M100>>>" ++ check (runes_of_ascii "
root packet
a1
    {
tag Pad``
, } options {
}
    root packet int	{
    uint64 f32a , } packet
MetaDataX {// c
@leftPad( ' ' ) /// triple
repeat uint16 Header	`{ , }`
,
// `tick` ""quote"" 'q'
/// triple
}
options {
Z9_= false
    falsey //	t
= ""x y"" ; rootA = false
    // a // b
    Foo	=true
lengthOf
    = float64 }")).
Eval vm_compute in ("<<<M262>>>" ++ check (runes_of_ascii "  packet  Logon
    { o Header ,	Header
, @lengthOf(
u )	char[ 255 ] tag `tab	here`, char[]falsey ,
    @lengthOf(	zchar )
    @rightPad (
) float roots// @lengthOf(
,
@calculatedFrom(	""// no comment"") i64
u8x,
} options { metadata = '0' ;_x = 4294967296 ; Packet
    =
    '0'
;
    }

")).
Eval vm_compute in ("<<<M80>>>" ++ check (runes_of_ascii "packet
    len { // trailing space 
repeat zchar f32a `// not a comment` , @tag( 255 )repeat  Pad { x T
, } , @calculatedFrom(
""{,}"") repeat
    // a // b
    leftPad { u64 u8x `tab	here` ,o Packet
    ,char[] chars , } , @tag( 3 )float64
    i8i8 , }
")).
Eval vm_compute in ("<<<M124>>>" ++ check (runes_of_ascii "MetaData Z9_
{zchar[4294967296 ]
    leftPad `u8 x,`,
}
MetaData body { trueish
    len `// not a comment` , }root
packet // @lengthOf(
u8x{ char[ 10 ] x
    @calculatedFrom(
// a // b
// packet A { u8 x, }
""\" ++ [233]%N ++ runes_of_ascii """ ) , }
")).
Eval vm_compute in ("<<<M92>>>" ++ check (runes_of_ascii "packet lengthOf { } root packet leftPad {  zchar[00// a // b
]
    Foo `` // c
, @calculatedFrom( ""1"" )
@leftPad (
    ' '
// trailing space 
// " ++ [27880; 37322]%N ++ runes_of_ascii "
)  @leftPad
( ' ')
repeat u8
options1 , }")).
Eval vm_compute in ("<<<M1476>>>" ++ check (runes_of_ascii "
packet  A 
{match 
k as

n
{  [

    ""a"" 
, 
22

,	""c c"", 4

    ,

    ""e"",

    66

    , ""g""
	,	8 ,  ""i"" 
, 10 
, ""k"" ,12

    ]
	:
    B

2 :
C 
}, }

")).
Eval vm_compute in ("<<<M1525>>>" ++ check (runes_of_ascii "

  packet 
A

{match

k

as  n

    {
[
    ""a"" 
,  ""bb""
,""c c""  ,""d""
,
""e"", ""f""

    ,""g"" 
, ""h"" 
]
:  B

    ,

    2 
:
    C
    }
,

    } ")).
Eval vm_compute in ("<<<M416>>>" ++ check (runes_of_ascii "packet uint8x
{ match pack
    as as msg_type	{
    0123456789 :	float
}
,
} packet //	t
a1
    { } options {packetx
    = '\x00'	; u128= ""a	b""  ; }
")).
Eval vm_compute in ("<<<M672>>>" ++ check (runes_of_ascii "// @lengthOf(
packet i8i8 { u128 o , }
options { MetaDataX = true;
    BodyLength =""packet"" x_y_z= 007
crc //x
= ""abc"" ;
    msg_type =
@leftpad i16 }")).
Eval vm_compute in ("<<<M457>>>" ++ check (runes_of_ascii "packet uint8x
{ match pack
    as msg_type	{
    0123456789 :	float
}
,
packet } //	t
a1
    { } options {packetx
    = '\x00'	; u128= ""a	b""  ; }
")).
Eval vm_compute in ("<<<M495>>>" ++ check (runes_of_ascii "packet uint8x
{ match pack
    as msg_type	{
    0123456789 :	float
}
,
} packet //	t
a1
    { } options {packetx
     '\x00'	; u128= ""a	b""  ; }
")).
Eval vm_compute in ("<<<M1534>>>" ++ check (runes_of_ascii "
packet 

    // " ++ [27880; 37322]%N ++ runes_of_ascii "
Logon

{
	repeatCount@lengthOf(roots  ) ,
	@tag(0

    ) repeat	zchar[

007] crc
, rootA
    a1	`{ , }`
	,	string_ 
`" ++ [233]%N ++ runes_of_ascii "`
,}")).
Eval vm_compute in ("<<<M1871>>>" ++ check (runes_of_ascii "packet A {
    match k as n {
        [
            ""a"", ""bb"", ""c c"", ""d"", ""e"",
            ""f"", ""g"", ""h""
        ] : B,
        2 : C,
    },
}")).
Eval vm_compute in ("<<<M1649>>>" ++ check (runes_of_ascii "
options

    {
	o=  '\x00'	// " ++ [128512]%N ++ runes_of_ascii " emoji
  ;
    T=	u32 ; 
msg_type  
      // `tick` ""quote"" 'q'

//
    = ""a	b""a1 =	'\x00'	}
	// " ++ [128512]%N ++ runes_of_ascii " emoji")).
Eval vm_compute in ("<<<M714>>>" ++ check (runes_of_ascii "// @lengthOf(
packet i8i8 { u128 o , }
options { MetaDataX = true;
    BodyLength =""packet"" x_y_z= 007
crc //x
= ""abc"" ;
    msg_type")).
Eval vm_compute in ("<<<M1397>>>" ++ check (runes_of_ascii "packet A {
    match k as n {
        [
            ""a"", 22, ""c c"", 4, ""e"",
            66
        ] : B,
        2 : C,
    },
}")).
Eval vm_compute in ("<<<M1194>>>" ++ check (runes_of_ascii "// top
packet // c0
body // c1
{ // c2
i32 // c3
f32a // c4
`{ , }` // c5
, // c6
} // c7
options // c8
{ // c9
} // c10
")).
Eval vm_compute in ("<<<M1160>>>" ++ check (runes_of_ascii "MetaData leftPad { chars MetaDataX , } packet repeatCount
// c
{ char[ 255 ] uint8x `" ++ [233]%N ++ runes_of_ascii "` , } MetaData pack { As Foo , }")).
Eval vm_compute in ("<<<M1906>>>" ++ check (runes_of_ascii "
packet A	{  match k

as  n	{[

    ""a""
, 
""bb"" 
,	007 , ""d"", ""e""
    ]
	:

    B
	,

    2  :C

} ,

    } ")).
Eval vm_compute in ("<<<M943>>>" ++ check (runes_of_ascii "packet A {
    u16 len @lengthOf(body) `a

b`,
    u32 crc @calculatedFrom(""CRC32"") `a

b`,
    string body,
}")).
Eval vm_compute in ("<<<M535>>>" ++ check (runes_of_ascii "packet uint8x
{ match pack
    as msg_type	{
    0123456789 :	float
}
,
} packet //	t
a1
    { } opti")).
Eval vm_compute in ("<<<M950>>>" ++ check (runes_of_ascii "packet A {
    Inner {
        u8 x `x
`,
        Deep {
            u8 y `x
`,
        },
    },
}")).
Eval vm_compute in ("<<<M1820>>>" ++ check (runes_of_ascii "packet  A{
match k
as n

    {  [1
,
22	,
007
,  4
, 5  ,

66, 
7  , 
8
	,
9]:
	B
2:C }
	,}

")).
Eval vm_compute in ("<<<M841>>>" ++ check (runes_of_ascii "packet A {
  match k as n {
    [""a"", ""bb"", ""c c"", ""d"", ""e"", ""f"", ""g""] : B,
    2 : C
  },
}")).
Eval vm_compute in ("<<<M644>>>" ++ check (runes_of_ascii "
packet
    asx {match u128 as lengthOf
{
//	t
// `tick` ""quote"" 'q'
255 : x" ++ [178]%N ++ runes_of_ascii " ,
    } ,	}")).
Eval vm_compute in ("<<<M607>>>" ++ check (runes_of_ascii "
packet
    asx {match u128 as lengthOf
{
//	t
// `tick` ""quote"" 'q'
255 : x 
    } ,	}")).
Eval vm_compute in ("<<<M969>>>" ++ check (runes_of_ascii "packet A {
    u32 crc @calculatedFrom(""x\
y""),
    @calculatedFrom(""x\
y"") u8 y,
}")).
Eval vm_compute in ("<<<M748>>>" ++ check (runes_of_ascii "options match @lengthOf( options char[] zchar[ MetaData f32 f64 u16 ""{,}"" `doc` (")).
Eval vm_compute in ("<<<M125>>>" ++ check (runes_of_ascii "//	t
options {
    roots  =  ""\n""	; o
    //
    = '0' ;
tag
    =true
    }")).
Eval vm_compute in ("<<<M806>>>" ++ check (runes_of_ascii "packet A {
  match k as n {
    [""a"", 22, ""c c"", 4] : B,
    2 : C
  },
}")).
Eval vm_compute in ("<<<M798>>>" ++ check (runes_of_ascii "packet A {
  match k as n {
    [""a"", ""bb"", 007] : B
    2 : C
  },
}")).
Eval vm_compute in ("<<<M167>>>" ++ check (runes_of_ascii "packet msg_type { repeat// " ++ [27880; 37322]%N ++ runes_of_ascii "
zchar[  007] Logon `two words`, }
")).
Eval vm_compute in ("<<<M1102>>>" ++ check (runes_of_ascii "// top
MetaData
    // c0
tag
    // c1
{ // c2
}
    // c3
")).
Eval vm_compute in ("<<<M764>>>" ++ check (runes_of_ascii "float32 true uint8 f32 i64 i32 @leftPad ) char[ } uint8")).
Eval vm_compute in ("<<<M1205>>>" ++ check (runes_of_ascii "packet body { i32 // c
f32a `{ , }` , } options { }")).
Eval vm_compute in ("<<<M654>>>" ++ check (runes_of_ascii "// @lengthOf(
packet i8i8 { u128 o , }
options {")).
Eval vm_compute in ("<<<M1725>>>" ++ check (runes_of_ascii "  packet A

    {
	u8 x	,  // c
  u8
y,	} ")).
Eval vm_compute in ("<<<M1815>>>" ++ check (runes_of_ascii "root packet A {
    u8 x `
        `,
}")).
Eval vm_compute in ("<<<M946>>>" ++ check (runes_of_ascii "root packet A {
    u8 x `a

b`,
}")).
Eval vm_compute in ("<<<M1790>>>" ++ check (runes_of_ascii "packet A {
    u8 x `
    x`,
}")).
Eval vm_compute in ("<<<M1941>>>" ++ check (runes_of_ascii "packet	A{ } 
        // c" ++ [8203]%N ++ runes_of_ascii "
 
")).
Eval vm_compute in ("<<<M1494>>>" ++ check (runes_of_ascii "root packet msg_type {
}")).
Eval vm_compute in ("<<<M1110>>>" ++ check (runes_of_ascii "MetaData tag {
// c
}")).
Eval vm_compute in ("<<<M1687>>>" ++ check (runes_of_ascii "packet int {
}
//	t")).
Eval vm_compute in ("<<<M1036>>>" ++ check (runes_of_ascii "packet A {
}
// c" ++ [12]%N)).
Eval vm_compute in ("<<<M1029>>>" ++ check (runes_of_ascii "packet A {
}// c" ++ [11]%N)).
Eval vm_compute in ("<<<M1662>>>" ++ check (runes_of_ascii "packet pack {
}")).
Eval vm_compute in ("<<<M399>>>" ++ check (runes_of_ascii "packet")).
Eval vm_compute in ("<<<M736>>>" ++ check (runes_of_ascii " " ++ [12]%N ++ runes_of_ascii " ")).
