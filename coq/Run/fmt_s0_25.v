From FP Require Import Lexer Parser ShowPT Digest Formatter.
From Coq Require Import String List NArith.
Import ListNotations.
Open Scope string_scope.
Set Printing Width 100000000.
Set Printing Depth 100000000.
Definition show_fres (r : fres) : string :=
  match r with
  | FOk s => "OK:" ++ sh_escaped s ""
  | FErr s => "ERR:" ++ sh_escaped s ""
  | FPanic p => "PANIC:" ++ p
  end.
Definition check (rs : list rune) : string := digest (show_fres (format_res rs)).
Definition full (rs : list rune) : string := show_fres (format_res rs).
Eval vm_compute in ("<<<M198>>>" ++ check (runes_of_ascii "root packet int {
// @lengthOf(
// " ++ [27880; 37322]%N ++ runes_of_ascii "
@calculatedFrom( ""packet"")match repeatCount as asx {// packet A { u8 x, }
65535:int ,
"""":
    packetx
, [ 1, ""it's"", 007 , 3,
    ""a\\"" , 65535 ] : o,
[ 7 , 1 ]:
    len [ ""abc""	,""" ++ [28040; 24687]%N ++ runes_of_ascii """ ] : u
,} ,// packet A { u8 x, }
@rightPad ( ' ' ) // " ++ [27880; 37322]%N ++ runes_of_ascii "
len
    body `{ , }` , }packet repeatCount { string
trueish
,@tag(
0 )	repeat
tag/// triple
`{ , }` , // `tick` ""quote"" 'q'
@tag(255 // @lengthOf(
) match packetx as
string_
    {
10 :roots, }//
,
@leftPad
(
'\x00'	)
    @tag( 7 ) repeat i8 // packet A { u8 x, }
rootA
/// triple
// " ++ [128512]%N ++ runes_of_ascii " emoji
`it's` , uint8x tag`a\` ,
char[] Z9_ @calculatedFrom( //x
""" ++ [233]%N ++ runes_of_ascii "t" ++ [233]%N ++ runes_of_ascii """
    )
, repeat float32
trueish	, @leftPad ( /// triple
'\x00'	)	i64_
    @calculatedFrom( ""x y""
    ) //
, repeat f32 Packet ,  }
    packet u
    // c
    {int64 pack@lengthOf(metadata ) ,	repeat
    char[//	t
0123456789 ] int
    ``
    , @lengthOf(
    Header  )@calculatedFrom(""`tick`""
)	float
    trueish , @calculatedFrom(	""`tick`""
    // a // b
    ) stringy ,// " ++ [128512]%N ++ runes_of_ascii " emoji
repeat Logon  `it's`  ,
int32  Z9_ @calculatedFrom(
""\n""), match// c
u8x as falsey {
255 : f32a ,
00:packetx
, } ,
zchar[	0 ] roots , @tag( 00) Logon {
    i64_
@lengthOf( MetaDataX //
) ``
    , repeat body
MetaDataX `it's`, x { string rootA ``
    // a // b
    , repeat options1 f32a , }//
, Pad
, // `tick` ""quote"" 'q'
} , @calculatedFrom( ""1""
    // packet A { u8 x, }
    )@lengthOf(T ) char[
7 ]	pack	`{ , }`	, } MetaData u {
} /// triple")).
Eval vm_compute in ("<<<M123>>>" ++ check (runes_of_ascii "
packet _x{  leftPad `it's`
    , match Logon as
    matchKey { ""packet"" :  stringy,3
: u
    ,//
""1"" : Pad }
,  float32 Z9_ @lengthOf( i8i8	)
    `" ++ [233]%N ++ runes_of_ascii "`
    // " ++ [27880; 37322]%N ++ runes_of_ascii "
    , @tag( 3 )match
    //	t
    As as Pad{
"""" : chars
, ""x y"" //
: i64_	,  } ,  @calculatedFrom(""it's"" // c
) @leftPad ( ' '
) zchar[ 0123456789	] falsey , match	A as packetx
{ [ 42]:
matchKey // c
, }// `tick` ""quote"" 'q'
,@leftPad
( ' ' )
    match x
    // c
    as a1 { ""packet"" //x
:
    a1 , 10 : pack""{,}"" :  u8x// a // b
, [ 007
,00// trailing space 
]
:trueish ,
    ""x y"" :pack //	t
,
""" ++ [233]%N ++ runes_of_ascii "t" ++ [233]%N ++ runes_of_ascii """
:
matchKey , } , @leftPad ( '0'
) uint8x u
    ,	zchar[
    3 // a // b
]
    //	t
    u ``
    , @rightPad (
    ' ') repeat _x
`` , } MetaData Foo
    {a1 Z9_ ,
options1 T ,u32 u8x
`crlf
line`, metadata falsey,lengthOf
x_y_z ,
    } packet calculatedFrom { @tag( 3 ) string A,
    match leftPad as a1	{//	t
0123456789: calculatedFrom , }
    ,
    match crc//
as
    body {
    00 : _x, } , o @calculatedFrom(	""x y"" )
//
// " ++ [128512]%N ++ runes_of_ascii " emoji
,  } packet T { }  packet Logon { @leftPad
(// @lengthOf(
'\x00' )
As @calculatedFrom(
""a	b"" ) `line1
line2`	, pack lengthOf // `tick` ""quote"" 'q'
, } // `tick` ""quote"" 'q'")).
Eval vm_compute in ("<<<M1373>>>" ++ check (runes_of_ascii "options { // c1a
  // c1b
LittleEndian // c2
= // c3
true ;
    // c5
StringPrefixLenType = // c7
u64 ;
    // c9
ArrayPrefixLenType = u16 ; // c13a
  // c13b
FixedStringPadFromLeft =
    // c15
false // c16
; FixedStringPadChar // c18
=
    // c19
' ' // c20a
  // c20b
;
    // c21
} packet
    // c23
Logon { // c25
zchar[ // c26a
  // c26b
5 // c27a
  // c27b
] // c28a
  // c28b
Side2 // c29a
  // c29b
, // c30
} root // c32a
  // c32b
packet // c33
Logout // c34
{ // c35
repeat i64 Tail
    // c38
, // c39
Logon , // c41
repeat
    // c42
i16 // c43
OrderId , // c45
char[] // c46
venue // c47
, uint64
    // c49
x // c50a
  // c50b
,
    // c51
repeat // c52
i16 // c53
count , u8 // c56
Flags
    // c57
, match Flags
    // c60
as
    // c61
Body // c62a
  // c62b
{ 25
    // c64
: Logon
    // c66
, // c67a
  // c67b
} // c68
, // c69a
  // c69b
u16 Qty @calculatedFrom(
    // c72
""CRC32""
    // c73
) , // c75a
  // c75b
}
    // c76
")).
Eval vm_compute in ("<<<M1489>>>" ++ check (runes_of_ascii "

  options	{  FixedStringPadFromLeft =
    true	;FixedStringPadChar= '0'

    ; }  packet 
Leg
	{ repeat
	InSym93
	{
zchar[
	3]
	Acct

,
string

    Side2	,i32	Flags

, 
f32
Note  , i32

msgKind ,

    }

    ,  f64
Note
    , uint16  Px 
,} packet

    Quote

{ zchar[

2 ] OrderId ,

    } packet
	Ack { repeat string lastPx
,
	zchar[

4 ]
    price
    , uint32 
OrderId
	, Quote
, int8 Acct , } packet Fill
	{	repeat
Leg
	,@rightPad

(	'0'
	) 
char[  11
	] Note  ,
f64

Px ,@rightPad (
'\x00'
) char[	5

]  Flags
	,

    zchar[	9

]x ,
	string 
msgKind	,} root  packet Order { Leg
, repeat

    Ack	,
    @rightPad
    (
	'\x00'	) char[ 3
    ]Side2
,
	repeat

char[	1 ]seqNo
	, u16 clOrdID
, 
match 
clOrdID
    as
Body	{
198:	Leg , 23 :
Quote ,  13:Ack

,159:

Fill
    , }
    ,

u32

venue
	@calculatedFrom(	""CRC32""
    ) ,
}
")).
Eval vm_compute in ("<<<M1941>>>" ++ check (runes_of_ascii "packet leftPad {
    //
    i8 stringy @calculatedFrom(""" ++ [128512]%N ++ runes_of_ascii """),
    int @calculatedFrom(""a	b"") `it's`,
    @leftPad()
    @tag(0123456789)
    int32 u8x,
    @lengthOf(A)
    float64 u128 @calculatedFrom(""a\\""),//x
}

options {
    //x
    Pad = 0
    u = ' '
}

MetaData a1 {
    char[] metadata `// not a comment`,
}

packet Foo {
    @tag(42)
    repeat BodyLength,
    int8 metadata `{ , }`,
    @leftPad()
    // " ++ [27880; 37322]%N ++ runes_of_ascii "
    @calculatedFrom(""`tick`"")
    @calculatedFrom(""a	b"")
    u32 stringy,
    @lengthOf(roots)
    zchar[0] msg_type @lengthOf(i64_) `tab	here`,
    i8 Header `{ , }`,
    char[7] trueish @lengthOf(packetx),
    u64 charz `
    `,
    zchar[65535] repeatCount `it's`,
    match calculatedFrom as calculatedFrom {
        ""a	b"" : roots,
        42 : MetaDataX,
    },
}")).
Eval vm_compute in ("<<<M1406>>>" ++ check (runes_of_ascii "
packet	// packet A { u8 x, }
	u8x

{

}  root packet 
matchKey
    {

repeat
zchar[	0123456789]  // packet A { u8 x, }
	int
    ,

char[
	// `tick` ""quote"" 'q'
  // a // b
	4294967296
]
    asx`{ , }` , 
repeat
    i8i8 
,repeat

    Packet
	{	repeat	leftPad {f32
    u128@lengthOf(
    As ),
body
`two words`, // packet A { u8 x, }
rootA

    Pad ,
}  ,
char[
    00
] msg_type 
`tab	here` // " ++ [128512]%N ++ runes_of_ascii " emoji
  	,
repeat
//x
  	i64_
    `doc`
    ,
zchar x_y_z,}  ,

    } 
root 
packet int{ repeat
    f32a {repeat	f32a

    asx

    `u8 x,`
	, } ,
	@lengthOf(
	// @lengthOf(

  //	t

msg_type // packet A { u8 x, }
      )
body
    , 
      // c
//

Z9_ // c
    zchar	`a\`//x
  , }  //x
")).
Eval vm_compute in ("<<<M164>>>" ++ check (runes_of_ascii "//x
packet x { @lengthOf(
string_ )
// `tick` ""quote"" 'q'
// trailing space 
msg_type{
int // a // b
@lengthOf( chars
    )
//x
// " ++ [27880; 37322]%N ++ runes_of_ascii "
`" ++ [28040; 24687; 31867; 22411]%N ++ runes_of_ascii "` , int`a\`  , }
    ,uint32 chars  @calculatedFrom(
""`tick`""
    )
    `
` , @lengthOf( packetx // trailing space 
)
match
    metadata as x_y_z
{ 65535	: x ,007
// `tick` ""quote"" 'q'
// " ++ [128512]%N ++ runes_of_ascii " emoji
: u [ 7 ,
""// no comment""	,  """ ++ [28040; 24687]%N ++ runes_of_ascii """] :x ""a\\""
: MetaDataX,0123456789 : lengthOf
10 :
//
// `tick` ""quote"" 'q'
float  }
    ,
    u16 Logon@calculatedFrom(""x y"") `tab	here`
//	t
//
,@lengthOf(Foo ) zchar /// triple
, }  packet
    tag { } root packet
x_y_z{ } MetaData int {
    string
A `" ++ [233]%N ++ runes_of_ascii "` ,
}
")).
Eval vm_compute in ("<<<M1383>>>" ++ check (runes_of_ascii "// top
packet // c0a
  // c0b
Sub // c1
{
    // c2
u8 // c3a
  // c3b
a
    // c4
, // c5
@calculatedFrom( ""CRC16"" )
    // c8
i32 // c9
SubSum
    // c10
, } // c12
root packet // c14a
  // c14b
Frame // c15
{
    // c16
u16
    // c17
MsgType // c18a
  // c18b
, // c19
u16 // c20a
  // c20b
BodyLen // c21a
  // c21b
@lengthOf( Body ) , // c25a
  // c25b
Sub
    // c26
Body // c27
,
    // c28
string // c29a
  // c29b
note // c30a
  // c30b
,
    // c31
@calculatedFrom( // c32
""CRC16"" ) i32 Checksum // c36a
  // c36b
, // c37a
  // c37b
u8 // c38
tail , }
    // c41
")).
Eval vm_compute in ("<<<M45>>>" ++ check (runes_of_ascii "
packet
tag{ string matchKey `line1
line2` , @tag( 0 )// c
@calculatedFrom( ""1"" )@calculatedFrom( // " ++ [128512]%N ++ runes_of_ascii " emoji
""a\""b"" ) float64 matchKey
,}options
{ crc
    = true
    msg_type
    //	t
    =
true;
} packet o { match  roots
as calculatedFrom { ""// no comment""
    // packet A { u8 x, }
    :
    msg_type	, ""{,}""
    :u128, [
    65535 , 0123456789
]/// triple
: body ,// " ++ [128512]%N ++ runes_of_ascii " emoji
} ,@rightPad ( ' '	) repeat
string_ i64_ ,
@lengthOf(
lengthOf )@tag( 255// packet A { u8 x, }
)	@tag( 00 )
char[]
stringy
, }
")).
Eval vm_compute in ("<<<M138>>>" ++ check (runes_of_ascii "packet Header{ char[	10
] A`it's` , @calculatedFrom(	""" ++ [28040; 24687]%N ++ runes_of_ascii """)calculatedFrom // a // b
@lengthOf( zchar ) `tab	here` ,  u32	BodyLength,
@lengthOf(
    stringy  ) //
@rightPad (
    ' ') @tag(
0123456789 )
body{ match i8i8 as
Foo
{ [ 7 ,	""CRC32"" ] : options1 ,[""a\""b"" , """ ++ [128512]%N ++ runes_of_ascii """ ,
    ""it's""
    , ""a	b"" ,
""// no comment"" , ""it's"" , 7,""abc""  ] :
As  ,
1 :
_x
// " ++ [128512]%N ++ runes_of_ascii " emoji
//
} , repeat  uint8x{crc
@calculatedFrom( ""a\\""
), } ,
    repeat  i8 tag ,// " ++ [128512]%N ++ runes_of_ascii " emoji
}
, }

")).
Eval vm_compute in ("<<<M1831>>>" ++ check (runes_of_ascii "packet matchKey {
    float32 float,
    @calculatedFrom(""a\\"")
    @rightPad('\x00')
    i16 tag @calculatedFrom(""abc""),
    repeat zchar[255] pack,
    @lengthOf(Z9_)
    tag,
}// trailing space 

root packet rootA {
    repeat metadata {
        Logon,
    },
    @tag(10)
    @lengthOf(A)
    @tag(007)
    u32 options1,
    match float as u {
        0123456789 : u8x,
    },
}// " ++ [27880; 37322]%N ++ runes_of_ascii "

root packet lengthOf {
}")).
Eval vm_compute in ("<<<M1515>>>" ++ check (runes_of_ascii "packet	a1

{ char[]
    charz @calculatedFrom( 
    //x
	""" ++ [28040; 24687]%N ++ runes_of_ascii """

    )
    , uint8x`crlf
line`

, uint64
	T
	`line1
line2`,  @leftPad
	(
'0'
    ) 

    // a // b
/// triple
    @calculatedFrom(""abc""
	)@tag(3
)match	int// a // b

as
len
{
0
: chars  ,
[

10 , 
""a\\"" , 1	,
0
,10 , 0
	] :

body, 007 :
// a // b
  rootA 	 // a // b
  ,},
falsey
options1,}
")).
Eval vm_compute in ("<<<M323>>>" ++ check (runes_of_ascii "options{ }
MetaData  string_ // `tick` ""quote"" 'q'
{ u32
matchKey `u8 x,`,
    string  MetaDataX , uint8
Logon, uint64 options1
, char[ 00 ] len
// `tick` ""quote"" 'q'
// trailing space 
`tab	here` , u8
options1
, }// a // b
packet a1 { chars ,
char[]
i64_ @lengthOf(
    // " ++ [27880; 37322]%N ++ runes_of_ascii "
    stringy
) ,char T,repeat i8 charz
`a\`
,
}
")).
Eval vm_compute in ("<<<M205>>>" ++ check (runes_of_ascii "  root packet
    chars{ string T `say ""hi""`
, @tag(
    1  ) body { repeat o { f64 Packet @calculatedFrom( ""a\\"") ,  } , }	,
} packet pack
// @lengthOf(
// a // b
{
@tag( 4294967296 // `tick` ""quote"" 'q'
) repeat char[]
    Logon
    // trailing space 
    , repeat
BodyLength len ,
    // c
    }")).
Eval vm_compute in ("<<<M1685>>>" ++ check (runes_of_ascii "//	t
    options 
{	chars

    = true	As= char[] 
// trailing space 
// " ++ [128512]%N ++ runes_of_ascii " emoji
	; 	 /// triple
  	x_y_z = 7

;	// " ++ [27880; 37322]%N ++ runes_of_ascii "
    i8i8  =
true packetx=  /// triple
	' ' 
}	root
packet x_y_z {
repeat  char[
42
    //x
    ]	//	t
  Pad,
	} 
    // packet A { u8 x, }")).
Eval vm_compute in ("<<<M1707>>>" ++ check (runes_of_ascii "
packet	lengthOf
{ 
}
root packet	leftPad
{	zchar[ 00 	 // a // b
  ] Foo`` 	 // c
  ,
    @calculatedFrom( ""1""  ) 
@leftPad
(

' ' 
	    // trailing space 
  	// " ++ [27880; 37322]%N ++ runes_of_ascii "
	  )  @leftPad( ' '
)

    repeat
u8  options1
    , }

")).
Eval vm_compute in ("<<<M249>>>" ++ check (runes_of_ascii "
packet
rootA {
} // trailing space 
packet f32a //	t
{ match
zchar as zchar
    {	65535 : f32a , 7 : charz// trailing space 
,
""{,}""
//	t
//x
: Header , 42
    :a1 // packet A { u8 x, }
, }
, }
")).
Eval vm_compute in ("<<<M1779>>>" ++ check (runes_of_ascii "

  MetaData leftPad

    {chars
	MetaDataX
    ,
	} packet
repeatCount
{

    char[  255	]

    uint8x `" ++ [233]%N ++ runes_of_ascii "` , }MetaData

    pack
	{

As 
        // c

  Foo , }
")).
Eval vm_compute in ("<<<M224>>>" ++ check (runes_of_ascii "root packet
T
{ zchar[ // a // b
0123456789
] // c
uint8x , }  root packet metadata { @rightPad( )  x_y_z @lengthOf( stringy )
// `tick` ""quote"" 'q'
// c
, }")).
Eval vm_compute in ("<<<M528>>>" ++ check (runes_of_ascii "packet uint8x
{ match pack
    as msg_type	{
    0123456789 :	float
}
,
} packet //	t
a1
    { } options {packetx
    = '\x00'	; u128= ""a	b""  packet }
")).
Eval vm_compute in ("<<<M488>>>" ++ check (runes_of_ascii "packet uint8x
{ match pack
    as msg_type	{
    0123456789 :	float
}
,
} packet //	t
a1
    { } options i8 packetx
    = '\x00'	; u128= ""a	b""  ; }
")).
Eval vm_compute in ("<<<M412>>>" ++ check (runes_of_ascii "packet uint8x
{ match as
    pack msg_type	{
    0123456789 :	float
}
,
} packet //	t
a1
    { } options {packetx
    = '\x00'	; u128= ""a	b""  ; }
")).
Eval vm_compute in ("<<<M1842>>>" ++ check (runes_of_ascii "
MetaData leftPad	{ 
chars	MetaDataX,
}
    packet

    repeatCount {
char[255	]

uint8x `" ++ [233]%N ++ runes_of_ascii "`
,}

MetaData pack 
    // c
      {
	As

Foo ,

}

")).
Eval vm_compute in ("<<<M698>>>" ++ check (runes_of_ascii "// @lengthOf(
packet i8i8 { u128 o , }
options { MetaDataX = true;
    BodyLength =""packet"" x_y_z= 007
crc //x
= ""abc"" ;
    msg_type =
i16 i16 }")).
Eval vm_compute in ("<<<M657>>>" ++ check (runes_of_ascii "// @lengthOf(
packet i8i8 { u128 o , }
options { MetaDataX = true;
    BodyLength =""packet"" x_y_z= 007
?crc //x
= ""abc"" ;
    msg_type =
i16 }")).
Eval vm_compute in ("<<<M689>>>" ++ check (runes_of_ascii "// @lengthOf(
packet i8i8 { u128 o , }
options { MetaDataX  true;
    BodyLength =""packet"" x_y_z= 007
crc //x
= ""abc"" ;
    msg_type =
i16 }")).
Eval vm_compute in ("<<<M1740>>>" ++ check (runes_of_ascii "  packet
    A
    {

match 
k as
    n
{

[ ""a""  ,

""bb""
    ,
	007

    , ""d""
	,
""e""
,66
,	""g""

,
""h"" ]

    :
B

, 2
:C }
, }
")).
Eval vm_compute in ("<<<M1501>>>" ++ check (runes_of_ascii "MetaData leftPad {
    chars MetaDataX,
}

packet repeatCount {
    char[255] uint8x `" ++ [233]%N ++ runes_of_ascii "`,
}

MetaData pack {
    // c
    As Foo,
}")).
Eval vm_compute in ("<<<M1949>>>" ++ check (runes_of_ascii "
packet
uint8x
	{match  pack
    as 
msg_type {

    0123456789

:
    float

    } ,  }
    packet 	 //	t
    	a1{

}")).
Eval vm_compute in ("<<<M1154>>>" ++ check (runes_of_ascii "MetaData leftPad { chars MetaDataX ,
// c
} packet repeatCount { char[ 255 ] uint8x `" ++ [233]%N ++ runes_of_ascii "` , } MetaData pack { As Foo , }")).
Eval vm_compute in ("<<<M1186>>>" ++ check (runes_of_ascii "MetaData leftPad { chars MetaDataX , } packet repeatCount { char[ 255 ] uint8x `" ++ [233]%N ++ runes_of_ascii "` , } MetaData pack { As Foo
// c
, }")).
Eval vm_compute in ("<<<M136>>>" ++ check (runes_of_ascii "// a // b
options { // " ++ [128512]%N ++ runes_of_ascii " emoji
calculatedFrom=
'\x00'	; BodyLength = true ;asx // packet A { u8 x, }
= true }")).
Eval vm_compute in ("<<<M1269>>>" ++ check (runes_of_ascii "  packet	B
{
u8 a , 
string	s
	,
    }
    root
	packet P

{ u16

L @lengthOf( B ), B
    , 
u8  t ,
}
")).
Eval vm_compute in ("<<<M1317>>>" ++ check (runes_of_ascii "packet FooBar {
    u8 a,
}
packet foo_bar {
    u16 b,
}
root packet R {
    FooBar,
    foo_bar,
}
")).
Eval vm_compute in ("<<<M1451>>>" ++ check (runes_of_ascii "packet

    A 
{ 
u16 // a

len // b
@lengthOf(// c
  	body  // d

)	// e
	`d`  // f
	  , }
")).
Eval vm_compute in ("<<<M887>>>" ++ check (runes_of_ascii "packet A {
  match k as n {
    [1, 22, ""c c"", 4, 5, ""f"", 7, 8, ""i"", 10] : B
    2 : C
  },
}")).
Eval vm_compute in ("<<<M559>>>" ++ check (runes_of_ascii "
packet
    { asx match u128 as lengthOf
{
//	t
// `tick` ""quote"" 'q'
255 : x ,
    } ,	}")).
Eval vm_compute in ("<<<M874>>>" ++ check (runes_of_ascii "packet A {
  match k as n {
    [1, 22, ""c c"", 4, 5, ""f"", 7, 8, ""i""] : B
    2 : C
  },
}")).
Eval vm_compute in ("<<<M1289>>>" ++ check (runes_of_ascii "
root

    packet

P
{repeat	string
    ss
    ,  repeat
    u16
ns
    ,

    }
")).
Eval vm_compute in ("<<<M469>>>" ++ check (runes_of_ascii "packet uint8x
{ match pack
    as msg_type	{
    0123456789 :	float
}
,
} packet")).
Eval vm_compute in ("<<<M1251>>>" ++ check (runes_of_ascii "packet
Inner
	{u8	a 
,
} root
	packet 
P
{ Inner	ref_obj,  u8	x
,

    }

")).
Eval vm_compute in ("<<<M821>>>" ++ check (runes_of_ascii "packet A {
  match k as n {
    [1, 22, ""c c"", 4, 5] : B,
    2 : C
  },
}")).
Eval vm_compute in ("<<<M1910>>>" ++ check (runes_of_ascii "
packet

    A
	{ 
B b `a
b`
,
B`a
b` ,

repeat

B
	bs
`a
b` , }
")).
Eval vm_compute in ("<<<M628>>>" ++ check (runes_of_ascii "
packet
    asx {match u128 as lengthOf
{
//	t
// `tick` ""quote""")).
Eval vm_compute in ("<<<M314>>>" ++ check (runes_of_ascii "root packet string_{
char[] matchKey ,
} packet x {
    } 	 ")).
Eval vm_compute in ("<<<M1422>>>" ++ check (runes_of_ascii "
MetaData
_x {  i64 u128
	,
	Packet	Header	,

    }
")).
Eval vm_compute in ("<<<M1201>>>" ++ check (runes_of_ascii "packet body // c
{ i32 f32a `{ , }` , } options { }")).
Eval vm_compute in ("<<<M1912>>>" ++ check (runes_of_ascii "
packet
A
{	u8
    x  `d" ++ [12288]%N ++ runes_of_ascii "`

    , 	 // c" ++ [12288]%N ++ runes_of_ascii "
  }
")).
Eval vm_compute in ("<<<M1535>>>" ++ check (runes_of_ascii "options {
    trueish = '0';
    a1 = u64;
}")).
Eval vm_compute in ("<<<M1611>>>" ++ check (runes_of_ascii "
packet
A{
	u8
	x
	`d" ++ [8192]%N ++ runes_of_ascii "`, 	 // c" ++ [8192]%N ++ runes_of_ascii "

  }
")).
Eval vm_compute in ("<<<M1090>>>" ++ check (runes_of_ascii "packet A { @tag( // a
 1 ) u8 x, }")).
Eval vm_compute in ("<<<M1584>>>" ++ check (runes_of_ascii "options {
    options1 = ' ';
}")).
Eval vm_compute in ("<<<M1077>>>" ++ check (runes_of_ascii "MetaData M {
}// c
options {}")).
Eval vm_compute in ("<<<M1084>>>" ++ check (runes_of_ascii "packet A { // a
 u8 x, }")).
Eval vm_compute in ("<<<M1108>>>" ++ check (runes_of_ascii "MetaData tag
// c
{ }")).
Eval vm_compute in ("<<<M1131>>>" ++ check (runes_of_ascii "MetaData
// c
u { }")).
Eval vm_compute in ("<<<M1022>>>" ++ check (runes_of_ascii "// c" ++ [8239]%N ++ runes_of_ascii "
packet A {
}")).
Eval vm_compute in ("<<<M1009>>>" ++ check (runes_of_ascii "packet A {
}// c" ++ [8232]%N)).
Eval vm_compute in ("<<<M1071>>>" ++ check (runes_of_ascii "packet A {
}


")).
Eval vm_compute in ("<<<M1040>>>" ++ check (runes_of_ascii "// c 	")).
Eval vm_compute in ("<<<M746>>>" ++ check (runes_of_ascii "UXk")).
