From FP Require Import Lexer Parser ShowPT Digest Formatter.
From Coq Require Import String List NArith.
Import ListNotations.
Open Scope string_scope.
Set Printing Width 100000000.
Set Printing Depth 100000000.
Definition show_fres (r : fres) : string :=
  match r with
  | FOk s => "OK:" ++ sh_escaped s ""
  | FErr s => "ERR:" ++ sh_escaped s ""
  | FPanic p => "PANIC:" ++ p
  end.
Definition check (rs : list rune) : string := digest (show_fres (format_res rs)).
Definition full (rs : list rune) : string := show_fres (format_res rs).
Eval vm_compute in ("<<<M198>>>" ++ check (runes_of_ascii "root packet int {
// @lengthOf(
// " ++ [27880; 37322]%N ++ runes_of_ascii "
@calculatedFrom( ""packet"")match repeatCount as asx {// packet A { u8 x, }
65535:int ,
"""":
    packetx
, [ 1, ""it's"", 007 , 3,
    ""a\\"" , 65535 ] : o,
[ 7 , 1 ]:
    len [ ""abc""	,""" ++ [28040; 24687]%N ++ runes_of_ascii """ ] : u
,} ,// packet A { u8 x, }
@rightPad ( ' ' ) // " ++ [27880; 37322]%N ++ runes_of_ascii "
len
    body `{ , }` , }packet repeatCount { string
trueish
,@tag(
0 )	repeat
tag/// triple
`{ , }` , // `tick` ""quote"" 'q'
@tag(255 // @lengthOf(
) match packetx as
string_
    {
10 :roots, }//
,
@leftPad
(
'\x00'	)
    @tag( 7 ) repeat i8 // packet A { u8 x, }
rootA
/// triple
// " ++ [128512]%N ++ runes_of_ascii " emoji
`it's` , uint8x tag`a\` ,
char[] Z9_ @calculatedFrom( //x
""" ++ [233]%N ++ runes_of_ascii "t" ++ [233]%N ++ runes_of_ascii """
    )
, repeat float32
trueish	, @leftPad ( /// triple
'\x00'	)	i64_
    @calculatedFrom( ""x y""
    ) //
, repeat f32 Packet ,  }
    packet u
    // c
    {int64 pack@lengthOf(metadata ) ,	repeat
    char[//	t
0123456789 ] int
    ``
    , @lengthOf(
    Header  )@calculatedFrom(""`tick`""
)	float
    trueish , @calculatedFrom(	""`tick`""
    // a // b
    ) stringy ,// " ++ [128512]%N ++ runes_of_ascii " emoji
repeat Logon  `it's`  ,
int32  Z9_ @calculatedFrom(
""\n""), match// c
u8x as falsey {
255 : f32a ,
00:packetx
, } ,
zchar[	0 ] roots , @tag( 00) Logon {
    i64_
@lengthOf( MetaDataX //
) ``
    , repeat body
MetaDataX `it's`, x { string rootA ``
    // a // b
    , repeat options1 f32a , }//
, Pad
, // `tick` ""quote"" 'q'
} , @calculatedFrom( ""1""
    // packet A { u8 x, }
    )@lengthOf(T ) char[
7 ]	pack	`{ , }`	, } MetaData u {
} /// triple")).
Eval vm_compute in ("<<<M384>>>" ++ check (runes_of_ascii "options {
	StringPrefixLenType = u16;
	ArrayPrefixLenType = u16;
}

packet SampleBinary {
	uint16 MsgType `" ++ [28040; 24687; 31867; 22411]%N ++ runes_of_ascii "`,
	u16 BodyLenght @lengthOf(Body) `" ++ [28040; 24687; 20307; 38271; 24230]%N ++ runes_of_ascii "`,
	match MsgType as Body {
		1 : Logon,
		2 : Logout,
		3 : Heartbeat,
		4 : RiskControlRequest,
		5 : RiskControlResponse,
	},
		@calculatedFrom(""CRC32"")
	u32 Ckecksum `" ++ [26657; 39564; 21644]%N ++ runes_of_ascii "`,
}

packet Logon {
	 @leftPad('0')
	char[10] UserName `" ++ [29992; 25143; 21517]%N ++ runes_of_ascii "`,
	string Password `" ++ [23494; 30721]%N ++ runes_of_ascii "`,
	uint64 ClientId `" ++ [23458; 25143; 31471]%N ++ runes_of_ascii "ID`,
	u16 HeartbeatInterval `" ++ [24515; 36339; 38388; 38548]%N ++ runes_of_ascii "`,
}

packet Logout {
	  @rightPad('0')
	char[10] UserName `" ++ [29992; 25143; 21517]%N ++ runes_of_ascii "`,
	uint64 ClientId `" ++ [23458; 25143; 31471]%N ++ runes_of_ascii "ID`,
}

packet Heartbeat {
}

packet RiskControlRequest {
	string UniqueOrderId `" ++ [21807; 19968; 35746; 21333; 21495]%N ++ runes_of_ascii "`,
	char[16] ClOrdID `" ++ [23458; 25143; 35746; 21333; 21495]%N ++ runes_of_ascii "`,
	char[3] MarketID `" ++ [24066; 22330]%N ++ runes_of_ascii "id`,
	char[12] SecurityID `" ++ [35777; 21048; 20195; 30721]%N ++ runes_of_ascii "`,
	char Side `" ++ [20080; 21334; 26041; 21521]%N ++ runes_of_ascii "`,
	char OrderType `" ++ [35746; 21333; 31867; 22411]%N ++ runes_of_ascii "`,
	u64 Price `" ++ [20215; 26684]%N ++ runes_of_ascii "`,
	u32 Qty `" ++ [25968; 37327]%N ++ runes_of_ascii "`,
	repeat string ExtraInfo `" ++ [38468; 21152; 20449; 24687]%N ++ runes_of_ascii "`,
	repeat SubOrder {
			char[16] ClOrdID `" ++ [23376; 35746; 21333; 21495]%N ++ runes_of_ascii "`,
			u64 Price `" ++ [23376; 35746; 21333; 20215; 26684]%N ++ runes_of_ascii "`,
			u32 Qty `" ++ [23376; 35746; 21333; 25968; 37327]%N ++ runes_of_ascii "`,
		},
}

packet RiskControlResponse {
	string UniqueOrderId `" ++ [21807; 19968; 35746; 21333; 21495]%N ++ runes_of_ascii "`,
	i32 Status `" ++ [29366; 24577]%N ++ runes_of_ascii "`,
	string Msg `" ++ [32467; 26524; 20449; 24687]%N ++ runes_of_ascii "`,
	repeat Detail,
}

packet Detail {
	string RuleName `" ++ [35268; 21017; 21517; 31216]%N ++ runes_of_ascii "`,
	u16 Code `" ++ [21407; 22240; 20195; 30721]%N ++ runes_of_ascii "`,
}")).
Eval vm_compute in ("<<<M1626>>>" ++ check (runes_of_ascii "  options {
}
options

    { uint8x=  
  // @lengthOf(
  // " ++ [27880; 37322]%N ++ runes_of_ascii "
  	42	uint8x = /// triple
      ""abc"" ;//x
  _x
=
'0'
}
packet u8x { zchar[ 1 ] 
As	`crlf
line`

,

match
metadata  as
float {""packet"": //

trueish ,	}	,repeat rootA
,  repeat
metadata

    repeatCount	// trailing space 
,
	@rightPad
( 	 // `tick` ""quote"" 'q'
    '0'

    ) i64 body
`// not a comment`,@tag( 
1	)
	string	string_
	`line1
line2`
, 
uint8  u8x
`" ++ [28040; 24687; 31867; 22411]%N ++ runes_of_ascii "`	,
packetx
u128
,

u tag	, 
repeat Logon

    zchar `` 
, }  packet
zchar {
    }
packet 
MetaDataX{ @lengthOf(  Packet

    )

    repeatCount int
`doc` , @tag(
7

    )packetx

    @calculatedFrom(""a\""b""  // c
    ) , match

    msg_type

    as

x
    { ""\n""
	:calculatedFrom
}
    , //x
		@leftPad (// packet A { u8 x, }
  '\x00' )	@lengthOf( MetaDataX  // c

  )
// a // b

char[007  ]a1  `tab	here`
, As

@calculatedFrom( ""`tick`""	)`// not a comment`, }

")).
Eval vm_compute in ("<<<M379>>>" ++ check (runes_of_ascii "root
    packet i64_ { trueish ,
@calculatedFrom(""abc"") @tag( 7 )
    // c
    int16
    asx
, @calculatedFrom( ""a\\"" ) float32 crc
@lengthOf(
Foo ) ,	@tag( // `tick` ""quote"" 'q'
42 // c
) zchar[
// c
// packet A { u8 x, }
7 ] asx @lengthOf( calculatedFrom) `// not a comment` , //
repeat zchar[ 1]// a // b
As ,	chars `two words` , @calculatedFrom( ""1"" )
@tag(
    // `tick` ""quote"" 'q'
    0123456789 ) @leftPad ('0')
    repeat
    char[] BodyLength `tab	here`, } MetaData u128 // packet A { u8 x, }
{
u16 i64_
,
    float32 asx//
`two words` ,//
i64
leftPad, zchar[ 00 // `tick` ""quote"" 'q'
] _x
    , //
} MetaData chars
    //
    {Foo crc
`say ""hi""` , uint8 u`two words` , // " ++ [128512]%N ++ runes_of_ascii " emoji
f32
pack
`crlf
line`, string _x `" ++ [233]%N ++ runes_of_ascii "`  , } packet x_y_z{ } options { calculatedFrom = ""CRC32"" crc
    = uint16 ; u =
false
    Foo
=
    char  } // " ++ [128512]%N ++ runes_of_ascii " emoji")).
Eval vm_compute in ("<<<M1503>>>" ++ check (runes_of_ascii "
options

{  StringPrefixLenType	= u8	;

ArrayPrefixLenType
    =
u32

    ; FixedStringPadFromLeft = true

;FixedStringPadChar
	=

    ' ' 
;
}	packet

    Leg{
	} 
packet 
Heartbeat
{
zchar[ 6] msgKind , 
@rightPad (

    '0'
) char[ 3
]
Qty
	,  zchar[

9 ]Side2

    ,
i8 Acct	,
    }packet
    Logout{  int8  x, } packet 
Order	{
char[]	Acct
	,
zchar[
8

]
count  ,u32
	OrderId
, uint8 lastPx ,u16 
clOrdID, zchar[7

    ]
Note 
, }
	root
packet
Reject
{ @leftPad

    (  ' '
	)

char[ 
8
	]
Side2

    , i8 clOrdID ,
repeat

    f32	x	,  u32

    lastPx,
	match lastPx
as 
Body
{[ 30
    ,  147]

:Heartbeat ,	134

    :
    Leg
,

183: Logout ,

    40  : 
Order  , 
}

    ,

    u16
Ref

    @calculatedFrom(""CRC32"")
	,
}
")).
Eval vm_compute in ("<<<M1513>>>" ++ check (runes_of_ascii "options {
    StringPrefixLenType = u8;
    ArrayPrefixLenType = u32;
    FixedStringPadFromLeft = true;
    FixedStringPadChar = ' ';
}

packet Leg {
}

packet Heartbeat {
    zchar[6] msgKind,
    @rightPad('0')
    char[3] Qty,
    zchar[9] Side2,
    i8 Acct,
}

packet Logout {
    int8 x,
}

packet Order {
    char[] Acct,
    zchar[8] count,
    u32 OrderId,
    uint8 lastPx,
    u16 clOrdID,
    zchar[7] Note,
}

root packet Reject {
    @leftPad(' ')
    char[8] Side2,
    i8 clOrdID,
    repeat f32 x,
    u32 lastPx,
    match lastPx as Body {
        [30, 147] : Heartbeat,
        134 : Leg,
        183 : Logout,
        40 : Order,
    },
    u16 Ref @calculatedFrom(""CRC32""),
}")).
Eval vm_compute in ("<<<M154>>>" ++ check (runes_of_ascii "packet BodyLength
    // a // b
    {@rightPad (
'\x00' )
u8x/// triple
,  @tag(  007
) @calculatedFrom( ""packet""	) repeat  uint8x x_y_z, }
    MetaData A {
    // packet A { u8 x, }
    Z9_ // a // b
f32a ,
    zchar[ 255// a // b
]
    msg_type`say ""hi""` ,char[ 1	]Logon  `tab	here` ,//
}
packet uint8x {  @calculatedFrom(
""" ++ [28040; 24687]%N ++ runes_of_ascii """ )@tag(// `tick` ""quote"" 'q'
65535)	u32 int
@lengthOf( u8x )
`say ""hi""`
,	@leftPad ( ' ') stringy //
{
    string_ A ,
    char[ 4294967296
] i8i8 `" ++ [233]%N ++ runes_of_ascii "`	, char[]  Logon
,
string
x_y_z@lengthOf(	Packet ),
} , zchar[	4294967296 ]
int	`{ , }` , }
// trailing space 
// " ++ [27880; 37322]%N ++ runes_of_ascii "
packet u8x
    { }
// a // b
")).
Eval vm_compute in ("<<<M1609>>>" ++ check (runes_of_ascii "options{

    rootA =
4294967296
	;
falsey	=
""a\""b""  ;

    As
=  
  // @lengthOf(
  /// triple
    	"""" ;
	packetx
    =""packet"" i8i8

=true
;	} 	 // `tick` ""quote"" 'q'
	packet	x	{repeat
    zchar

rootA ,

char[] 
pack

    `// not a comment`
, 
@tag( 00 )
    @tag( 
0123456789) u
@calculatedFrom(
	""packet""
    )

    `u8 x,`
    ,
	Header

    {  zchar[ 00 ]

body,
    a1
    @calculatedFrom( 	 // " ++ [128512]%N ++ runes_of_ascii " emoji
    ""it's"" )`" ++ [233]%N ++ runes_of_ascii "`	,
} 
,}// " ++ [27880; 37322]%N ++ runes_of_ascii "

MetaData

A // a // b
{ zchar 	 /// triple
	matchKey ``

    ,

int64
	metadata  ,
char[]
_x 	 //	t
      , }
")).
Eval vm_compute in ("<<<M1779>>>" ++ check (runes_of_ascii "options

{
	float = char[]} // packet A { u8 x, }

root packet Logon
	{ 
@tag(
1
    )// a // b
  @calculatedFrom(

    ""packet""  
      // a // b
    // " ++ [128512]%N ++ runes_of_ascii " emoji
    )
zchar[3	] 
// c
  //x
		Z9_

,
@lengthOf(charz )	@calculatedFrom(  ""1""
    )
match  roots
    as 
int{""a	b"" : MetaDataX,
} 
,
    @calculatedFrom( ""a\""b""
    ) match

asx
as lengthOf	{ """ ++ [128512]%N ++ runes_of_ascii """

    : _x ,[

255

    ]	:

BodyLength ,3:
u8x,	0123456789
    :

T} 
,  len	@lengthOf( leftPad 
)
	`u8 x,`
    ,

    }  // @lengthOf(
")).
Eval vm_compute in ("<<<M264>>>" ++ check (runes_of_ascii "options  {
    float
=
    char[]
} // packet A { u8 x, }
root packet
    Logon
    { @tag( 1 ) // a // b
@calculatedFrom( ""packet""
// a // b
// " ++ [128512]%N ++ runes_of_ascii " emoji
)zchar[ 3 ]
// c
//x
Z9_ ,@lengthOf( charz )
@calculatedFrom( ""1""
)match
roots
as int
    { ""a	b""
:MetaDataX , }
    ,@calculatedFrom( ""a\""b""	)
    match
    asx as lengthOf { """ ++ [128512]%N ++ runes_of_ascii """
    : _x,
[ 255 ] : BodyLength
    ,3 :
    u8x , 0123456789:T} ,
    len@lengthOf(leftPad )`u8 x,` , } // @lengthOf(")).
Eval vm_compute in ("<<<M126>>>" ++ check (runes_of_ascii "
packet T// c
{ @tag(  00 )repeat char[]	charz
`
` , char[0123456789 ]BodyLength
    @lengthOf( //x
Z9_
    )
    `u8 x,`
,
}	MetaData
crc {
float64
int `" ++ [28040; 24687; 31867; 22411]%N ++ runes_of_ascii "`// a // b
,	As Logon `` , // `tick` ""quote"" 'q'
uint8 // " ++ [27880; 37322]%N ++ runes_of_ascii "
u
, u32  stringy `
`,
// a // b
//	t
uint64 uint8x , asx
calculatedFrom	,//x
} MetaData chars { char[ 1
    // `tick` ""quote"" 'q'
    ] //	t
chars ,
    } // trailing space ")).
Eval vm_compute in ("<<<M75>>>" ++ check (runes_of_ascii "packet zchar { @calculatedFrom( ""`tick`""
) uint32
    falsey,} MetaData packetx {
string
//
// @lengthOf(
msg_type `u8 x,`, }packet i8i8 {zchar@lengthOf(
uint8x
    ) ,
    }packet As{ zchar[ 4294967296
    // " ++ [27880; 37322]%N ++ runes_of_ascii "
    ] T	@calculatedFrom( ""abc"" ) , @tag(007 )
    repeat
    i16
// " ++ [27880; 37322]%N ++ runes_of_ascii "
// packet A { u8 x, }
u8x `say ""hi""`, @lengthOf( u )
repeat uint16 u128 , }")).
Eval vm_compute in ("<<<M1326>>>" ++ check (runes_of_ascii "options {
    LittleEndian = true;
    StringPrefixLenType = u16;
    FixedStringPadChar = ' ';
}
packet Logon {
    @leftPad('0') char[10] tag7,
}
root packet Ack {
    int32 Px,
    uint16 count,
    string Qty,
    string OrderId,
    string Flags,
    u8 x,
    match x as Body {
        [58, 169] : Logon,
    },
}
")).
Eval vm_compute in ("<<<M232>>>" ++ check (runes_of_ascii "options {  A = i16
;
    }
    /// triple
    root
packet
    rootA{
    @tag( 7)int16 pack,Logon @calculatedFrom( ""a\""b"" ) `{ , }`
    , @rightPad ( '\x00' )
//
//
char[
7
    // `tick` ""quote"" 'q'
    ]options1
`tab	here`,@calculatedFrom(
""" ++ [233]%N ++ runes_of_ascii "t" ++ [233]%N ++ runes_of_ascii """ )int @lengthOf(
Packet
) `crlf
line`, }
")).
Eval vm_compute in ("<<<M1320>>>" ++ check (runes_of_ascii "packet P1 {
    u8 a,
}
packet P2 {
    P1,
}
packet P3 {
    P2,
    P1,
}
packet P4 {
    repeat P3,
    P2,
}
root packet P5 {
    P4,
    P3,
    P1,
    u8 K,
    match K as Body {
        4 : P4,
        3 : P3,
        2 : P2,
        1 : P1,
    },
}
")).
Eval vm_compute in ("<<<M1505>>>" ++ check (runes_of_ascii "MetaData chars {
    uint64 A,
    msg_type asx,
    Z9_ a1,
    stringy i64_ `doc`,
}

packet x_y_z {
}

options {
    float = float32
    rootA = false;
    repeatCount = char[10];
}

packet Z9_ {
    zchar[007] charz,
}//x")).
Eval vm_compute in ("<<<M92>>>" ++ check (runes_of_ascii "packet lengthOf { } root packet leftPad {  zchar[00// a // b
]
    Foo `` // c
, @calculatedFrom( ""1"" )
@leftPad (
    ' '
// trailing space 
// " ++ [27880; 37322]%N ++ runes_of_ascii "
)  @leftPad
( ' ')
repeat u8
options1 , }")).
Eval vm_compute in ("<<<M1583>>>" ++ check (runes_of_ascii "options {
    As = true
    MetaDataX = true
}

packet A {
    repeat calculatedFrom `say ""hi""`,
}

MetaData crc {
    u crc,
    uint32 body,
    i16 stringy `u8 x,`,
}")).
Eval vm_compute in ("<<<M187>>>" ++ check (runes_of_ascii "
options// " ++ [27880; 37322]%N ++ runes_of_ascii "
{
f32a= ""a\""b""//x
; Z9_ = // " ++ [27880; 37322]%N ++ runes_of_ascii "
""`tick`""	Logon
    // " ++ [27880; 37322]%N ++ runes_of_ascii "
    =""CRC32""u128= f64 ;rootA	=
false ;} //	t
packet lengthOf {
} MetaData len { }
")).
Eval vm_compute in ("<<<M413>>>" ++ check (runes_of_ascii "packet uint8x
{ match float32
    as msg_type	{
    0123456789 :	float
}
,
} packet //	t
a1
    { } options {packetx
    = '\x00'	; u128= ""a	b""  ; }
")).
Eval vm_compute in ("<<<M672>>>" ++ check (runes_of_ascii "// @lengthOf(
packet i8i8 { u128 o , }
options { MetaDataX = true;
    BodyLength =""packet"" x_y_z= 007
crc //x
= ""abc"" ;
    msg_type =
@leftpad i16 }")).
Eval vm_compute in ("<<<M452>>>" ++ check (runes_of_ascii "packet uint8x
{ match pack
    as msg_type	{
    0123456789 :	float
}
}
, packet //	t
a1
    { } options {packetx
    = '\x00'	; u128= ""a	b""  ; }
")).
Eval vm_compute in ("<<<M485>>>" ++ check (runes_of_ascii "packet uint8x
{ match pack
    as msg_type	{
    0123456789 :	float
}
,
} packet //	t
a1
    { } options packetx
    = '\x00'	; u128= ""a	b""  ; }
")).
Eval vm_compute in ("<<<M1418>>>" ++ check (runes_of_ascii "// top
packet Inner {
    // c2a
    // c2b
    u8 a,
}

// c6
root packet P {
    // c10
    Inner ref_obj,// c13a
    // c13b
    u8 x,
}// c17a")).
Eval vm_compute in ("<<<M1684>>>" ++ check (runes_of_ascii "packet A {
    match k as n {
        [
            ""a"", ""bb"", ""c c"", ""d"", ""e"",
            ""f"", ""g"", ""h""
        ] : B,
        2 : C,
    },
}")).
Eval vm_compute in ("<<<M1622>>>" ++ check (runes_of_ascii "packet
A{	match

    k as n { [1
,
22	,  ""c c""
, 4, 5  ,

""f""	,
7	,

    8 , 
""i""

    , 10
,  11

    ,""l""
] :B
2
    :
C  }
	, }")).
Eval vm_compute in ("<<<M714>>>" ++ check (runes_of_ascii "// @lengthOf(
packet i8i8 { u128 o , }
options { MetaDataX = true;
    BodyLength =""packet"" x_y_z= 007
crc //x
= ""abc"" ;
    msg_type")).
Eval vm_compute in ("<<<M1822>>>" ++ check (runes_of_ascii "packet Logon {
    repeatCount @lengthOf(roots),
    @tag(0)
    repeat zchar[007] crc,
    rootA a1 `{ , }`,
    string_ `" ++ [233]%N ++ runes_of_ascii "`,
}")).
Eval vm_compute in ("<<<M1845>>>" ++ check (runes_of_ascii "MetaData Packet {
    u lengthOf `say ""hi""`,
}

MetaData metadata {
    crc chars `crlf
        line`,
    asx f32a,
}")).
Eval vm_compute in ("<<<M1172>>>" ++ check (runes_of_ascii "MetaData leftPad { chars MetaDataX , } packet repeatCount { char[ 255 ] uint8x `" ++ [233]%N ++ runes_of_ascii "`
// c
, } MetaData pack { As Foo , }")).
Eval vm_compute in ("<<<M1319>>>" ++ check (runes_of_ascii "
packet FooBar  {  u8
	a , }
    packet  foo_bar

    {  u16 
b

    , } root
	packet R{FooBar , foo_bar
,	}
")).
Eval vm_compute in ("<<<M489>>>" ++ check (runes_of_ascii "packet uint8x
{ match pack
    as msg_type	{
    0123456789 :	float
}
,
} packet //	t
a1
    { } options")).
Eval vm_compute in ("<<<M926>>>" ++ check (runes_of_ascii "packet A {
    Inner {
        u8 x `a
b`,
        Deep {
            u8 y `a
b`,
        },
    },
}")).
Eval vm_compute in ("<<<M1925>>>" ++ check (runes_of_ascii "// top
root packet P {
    // c3a
    // c3b
    repeat string ss,// c7
    repeat u16 ns,
}// c12a")).
Eval vm_compute in ("<<<M605>>>" ++ check (runes_of_ascii "
packet
    asx {match u128 as lengthOf
{
//	t
// `tick` ""quote"" 'q'
255 : repeat ,
    } ,	}")).
Eval vm_compute in ("<<<M563>>>" ++ check (runes_of_ascii "
packet
    asx { {match u128 as lengthOf
{
//	t
// `tick` ""quote"" 'q'
255 : x ,
    } ,	}")).
Eval vm_compute in ("<<<M564>>>" ++ check (runes_of_ascii "
packet
    asx match{ u128 as lengthOf
{
//	t
// `tick` ""quote"" 'q'
255 : x ,
    } ,	}")).
Eval vm_compute in ("<<<M1480>>>" ++ check (runes_of_ascii "packet

    A {
match
    k  as
	n
	{ [  1
,

    22 , ""c c"" ]	:B 2

: C}

,
    }
")).
Eval vm_compute in ("<<<M390>>>" ++ check (runes_of_ascii "root packet SimpleMessage {
	uint16 MsgType `" ++ [28040; 24687; 31867; 22411]%N ++ runes_of_ascii "`,
	string JsonBody `Json" ++ [23383; 31526; 20018; 28040; 24687; 20307]%N ++ runes_of_ascii "`,
}")).
Eval vm_compute in ("<<<M833>>>" ++ check (runes_of_ascii "packet A {
  match k as n {
    [""a"", 22, ""c c"", 4, ""e"", 66] : B
    2 : C
  },
}")).
Eval vm_compute in ("<<<M820>>>" ++ check (runes_of_ascii "packet A {
  match k as n {
    [""a"", 22, ""c c"", 4, ""e""] : B
    2 : C
  },
}")).
Eval vm_compute in ("<<<M804>>>" ++ check (runes_of_ascii "packet A {
  match k as n {
    [1, ""bb"", 007, ""d""] : B,
    2 : C
  },
}")).
Eval vm_compute in ("<<<M108>>>" ++ check (runes_of_ascii "packet int {}
options {leftPad ='0' ;metadata= char[] Foo=
'0' ; }
")).
Eval vm_compute in ("<<<M1568>>>" ++ check (runes_of_ascii "
options 
{len

    =// " ++ [128512]%N ++ runes_of_ascii " emoji
      ""packet""int 
=  ""abc"" } ")).
Eval vm_compute in ("<<<M939>>>" ++ check (runes_of_ascii "MetaData M {
    u8 x `a
    b
  c`,
    T t `a
    b
  c`,
}")).
Eval vm_compute in ("<<<M27>>>" ++ check (runes_of_ascii "options{Logon = """ ++ [28040; 24687]%N ++ runes_of_ascii """
    ; BodyLength =
    false
; }
")).
Eval vm_compute in ("<<<M1206>>>" ++ check (runes_of_ascii "packet body { i32
// c
f32a `{ , }` , } options { }")).
Eval vm_compute in ("<<<M927>>>" ++ check (runes_of_ascii "MetaData M {
    u8 x `a
b`,
    T t `a
b`,
}")).
Eval vm_compute in ("<<<M1893>>>" ++ check (runes_of_ascii "root packet A {
    u8 x `a
    
    b`,
}")).
Eval vm_compute in ("<<<M1672>>>" ++ check (runes_of_ascii "root packet A {
    u8 x `a
    b`,
}")).
Eval vm_compute in ("<<<M958>>>" ++ check (runes_of_ascii "root packet A {
    u8 x `
x`,
}")).
Eval vm_compute in ("<<<M1023>>>" ++ check (runes_of_ascii "packet A {
 u8 x `d" ++ [8239]%N ++ runes_of_ascii "`, // c" ++ [8239]%N ++ runes_of_ascii "
}")).
Eval vm_compute in ("<<<M1545>>>" ++ check (runes_of_ascii "MetaData	u
    {// c
    }")).
Eval vm_compute in ("<<<M1407>>>" ++ check (runes_of_ascii "

  packet
	x { }	// c")).
Eval vm_compute in ("<<<M1667>>>" ++ check (runes_of_ascii "MetaData tag {
}// c")).
Eval vm_compute in ("<<<M997>>>" ++ check (runes_of_ascii "// c" ++ [5760]%N ++ runes_of_ascii "
packet A {
}")).
Eval vm_compute in ("<<<M1829>>>" ++ check (runes_of_ascii "packet i64_
{ 
}
")).
Eval vm_compute in ("<<<M356>>>" ++ check (runes_of_ascii "packet uint8x {}")).
Eval vm_compute in ("<<<M749>>>" ++ check ([1; 65533]%N ++ runes_of_ascii ">&EQX" ++ [65533]%N ++ runes_of_ascii "P" ++ [65533; 65533]%N)).
Eval vm_compute in ("<<<M1055>>>" ++ check (runes_of_ascii "// c" ++ [6158]%N)).
