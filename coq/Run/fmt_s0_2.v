From FP Require Import Lexer Parser ShowPT Digest Formatter.
From Coq Require Import String List NArith.
Import ListNotations.
Open Scope string_scope.
Set Printing Width 100000000.
Set Printing Depth 100000000.
Definition show_fres (r : fres) : string :=
  match r with
  | FOk s => "OK:" ++ sh_escaped s ""
  | FErr s => "ERR:" ++ sh_escaped s ""
  | FPanic p => "PANIC:" ++ p
  end.
Definition check (rs : list rune) : string := digest (show_fres (format_res rs)).
Definition full (rs : list rune) : string := show_fres (format_res rs).
Eval vm_compute in ("<<<M1369>>>" ++ check (runes_of_ascii "// top
options // c0
{ // c1
FixedStringPadFromLeft = // c3a
  // c3b
true
    // c4
;
    // c5
FixedStringPadChar // c6
= // c7
'0'
    // c8
;
    // c9
} // c10
packet // c11
Leg // c12
{
    // c13
repeat // c14
InSym93
    // c15
{
    // c16
zchar[
    // c17
3 // c18
]
    // c19
Acct
    // c20
,
    // c21
string // c22
Side2 // c23a
  // c23b
, // c24
i32 Flags ,
    // c27
f32 // c28
Note // c29a
  // c29b
, // c30a
  // c30b
i32
    // c31
msgKind // c32a
  // c32b
, } // c34
,
    // c35
f64 // c36a
  // c36b
Note
    // c37
, // c38
uint16
    // c39
Px // c40
, // c41a
  // c41b
}
    // c42
packet
    // c43
Quote // c44a
  // c44b
{ // c45a
  // c45b
zchar[ // c46
2 ] // c48a
  // c48b
OrderId
    // c49
, } // c51
packet Ack // c53
{ // c54a
  // c54b
repeat // c55a
  // c55b
string // c56a
  // c56b
lastPx ,
    // c58
zchar[ // c59a
  // c59b
4 // c60
]
    // c61
price , uint32 OrderId // c65a
  // c65b
, // c66
Quote
    // c67
,
    // c68
int8 // c69a
  // c69b
Acct
    // c70
,
    // c71
} packet Fill
    // c74
{
    // c75
repeat
    // c76
Leg // c77
, // c78a
  // c78b
@rightPad // c79a
  // c79b
( '0' // c81a
  // c81b
) // c82
char[
    // c83
11
    // c84
]
    // c85
Note , // c87a
  // c87b
f64
    // c88
Px ,
    // c90
@rightPad // c91a
  // c91b
( // c92
'\x00'
    // c93
) // c94a
  // c94b
char[ // c95a
  // c95b
5 // c96
] // c97a
  // c97b
Flags // c98
, zchar[ // c100a
  // c100b
9 // c101a
  // c101b
] // c102
x // c103
, // c104a
  // c104b
string // c105a
  // c105b
msgKind // c106
, } // c108
root packet // c110a
  // c110b
Order // c111a
  // c111b
{ // c112
Leg // c113
, // c114a
  // c114b
repeat // c115
Ack // c116
, @rightPad ( // c119a
  // c119b
'\x00' // c120
) char[
    // c122
3 ] // c124a
  // c124b
Side2
    // c125
, // c126
repeat
    // c127
char[
    // c128
1 // c129a
  // c129b
] // c130
seqNo
    // c131
, // c132
u16 // c133
clOrdID
    // c134
, // c135a
  // c135b
match
    // c136
clOrdID // c137
as Body
    // c139
{
    // c140
198 // c141a
  // c141b
: // c142
Leg // c143a
  // c143b
, // c144a
  // c144b
23 :
    // c146
Quote // c147a
  // c147b
, // c148
13 // c149a
  // c149b
: // c150a
  // c150b
Ack // c151
,
    // c152
159
    // c153
:
    // c154
Fill // c155a
  // c155b
,
    // c156
} , u32 venue // c160
@calculatedFrom( // c161a
  // c161b
""CRC32"" // c162
) // c163a
  // c163b
,
    // c164
} // c165a
  // c165b
")).
Eval vm_compute in ("<<<M271>>>" ++ check (runes_of_ascii "// packet A { u8 x, }
packet string_ {
@tag( 4294967296)
@calculatedFrom( """ ++ [128512]%N ++ runes_of_ascii """ )@calculatedFrom( ""1"" )  leftPad @lengthOf( //	t
int )  ``
// `tick` ""quote"" 'q'
//
, repeat Packet{ zchar[
0
    // packet A { u8 x, }
    ]options1 `line1
line2` , },
    @calculatedFrom( """"	) float32
    u8x
    ,
float , i64_
{ packetx {  i16	falsey, f32 repeatCount
    `{ , }`,} ,
    repeat char[
0  ] i8i8, string	o @lengthOf( options1 ) , } , i64_
@calculatedFrom(""a\""b"" )
/// triple
//x
`a\`  , @rightPad ( )@lengthOf( packetx
    )
match matchKey as stringy{ ""a	b"":
body,}
    ,
    // " ++ [27880; 37322]%N ++ runes_of_ascii "
    @lengthOf(
u128
) @calculatedFrom(
    ""`tick`"" ) @rightPad
    () // @lengthOf(
repeat falsey
string_ `" ++ [28040; 24687; 31867; 22411]%N ++ runes_of_ascii "`
    ,string As`it's`
    ,
@calculatedFrom( """ ++ [28040; 24687]%N ++ runes_of_ascii """ ) repeat rootA { float64
body	,
} , } options {zchar
=
    // " ++ [128512]%N ++ runes_of_ascii " emoji
    true  ;  i8i8= 3; } packet	leftPad{	@calculatedFrom(
    // c
    """" ) //x
@leftPad( ' ' )
@calculatedFrom(
""abc"" ) repeat MetaDataX{  char[] Pad , body
@lengthOf( Foo )
/// triple
/// triple
,uint64 i8i8 ,char[ 42 ]options1
@calculatedFrom( ""x y""
),}
,
} packet stringy
    /// triple
    {	@calculatedFrom( """ ++ [28040; 24687]%N ++ runes_of_ascii """ )BodyLength	len
    ,@lengthOf(
u
    ) i8i8
metadata
, @calculatedFrom(
""a\\""
) //x
packetx
    ,
    f64 i8i8	@lengthOf( Header
    )
    , metadata
`
`,@lengthOf( int ) repeat falsey	,
repeat char[]
trueish
,
    }
")).
Eval vm_compute in ("<<<M1716>>>" ++ check (runes_of_ascii "options {
    BodyLength = char[7];
}

// c
// @lengthOf(
packet asx {
    int16 x_y_z,
    @calculatedFrom("""")
    @lengthOf(chars)
    //
    repeat repeatCount charz,
    @leftPad()
    i64_ @calculatedFrom(""\" ++ [233]%N ++ runes_of_ascii """) `// not a comment`,
    tag Z9_ `two words`,
    @lengthOf(asx)
    @calculatedFrom(""`tick`"")
    match uint8x as matchKey {
        0123456789 : u8x,
        1 : zchar,
    },
    u128 @lengthOf(u128),
}

MetaData msg_type {
    string BodyLength `two words`,
    options1 i64_,
}// " ++ [128512]%N ++ runes_of_ascii " emoji

packet roots {
    u ``,
    @calculatedFrom(""a	b"")
    match len as msg_type {
        // c
        """ ++ [28040; 24687]%N ++ runes_of_ascii """ : charz,
    },
    crc @calculatedFrom(""it's"") `a\`,
    @leftPad('0')
    @tag(007)
    zchar[3] falsey,
    @calculatedFrom(""\n"")
    @calculatedFrom(""CRC32"")
    // trailing space 
    match Packet as stringy {
        1 : Pad,
        ""it's"" : f32a,
    },
    @leftPad(' ')
    match int as a1 {
        [0123456789, 255] : options1,
        //x
        //x
    },
    BodyLength @calculatedFrom(""" ++ [28040; 24687]%N ++ runes_of_ascii """),
    float32 zchar @calculatedFrom(""// no comment""),
    @tag(10)
    zchar[1] rootA,
}")).
Eval vm_compute in ("<<<M1536>>>" ++ check (runes_of_ascii "
options
	//x
  	// @lengthOf(
	  {Foo
= ""// no comment""
	    /// triple
	//	t
  	;} packet 
float

    {

}
packet
	len 
{ @lengthOf(
    _x  )stringy {
	metadata

    @calculatedFrom(

""a\\""

    ) 
,
	}
,
//x
	  //
	}  packet

asx { @tag( 0
    )  repeat
    float64
	A  `say ""hi""` , 
  //
// trailing space 
  i16  int`say ""hi""`,@calculatedFrom(

    """ ++ [128512]%N ++ runes_of_ascii """
) lengthOf Header `two words`  , f32a zchar , @rightPad
	(
    '0' ) repeat	string_ 
// packet A { u8 x, }
	chars

``
    , @tag(
4294967296	)
@calculatedFrom(

""a	b"" )
    repeat

msg_type
, @leftPad
( 
)

    repeat f64
_x
,
repeat As{  Logon @lengthOf(	calculatedFrom)
`two words`  ,
    repeat
u64 o

    `u8 x,` ,}
	, @calculatedFrom(""packet"" )
repeat// @lengthOf(
    uint8
    u	,}
packet

    uint8x 
{@leftPad	('0' ) 

    //	t
//x
  zchar[ 
    // packet A { u8 x, }
    // " ++ [27880; 37322]%N ++ runes_of_ascii "

255]	metadata

    `a\`
	,	//

	} // `tick` ""quote"" 'q'
 
")).
Eval vm_compute in ("<<<M1576>>>" ++ check (runes_of_ascii "root packet asx {
    leftPad {
        u128 @calculatedFrom(""1""),//x
    },
    lengthOf @calculatedFrom(""" ++ [128512]%N ++ runes_of_ascii """) `a\`,
    i64 Packet @lengthOf(calculatedFrom),
    @calculatedFrom(""" ++ [233]%N ++ runes_of_ascii "t" ++ [233]%N ++ runes_of_ascii """)
    stringy a1 `doc`,
    @rightPad()
    // c
    a1 `a\`,
    char Header @lengthOf(x) `say ""hi""`,
    uint8x Z9_ `tab	here`,
}

options {
    calculatedFrom = 0
}

packet metadata {
    @leftPad('\x00')
    f32 pack,
    @tag(65535)
    u32 uint8x @lengthOf(repeatCount) ``,
    MetaDataX {
        repeat options1,
        match matchKey as len {
            """ ++ [128512]%N ++ runes_of_ascii """ : u8x,
            1 : zchar,
            /// triple
            [""a\\"", ""x y""] : charz,
            0 : x_y_z,
            [4294967296] : asx,
            [""a\""b"", ""\n"", ""\" ++ [233]%N ++ runes_of_ascii """, 10] : _x,
        },
        uint8 metadata @lengthOf(float),
        zchar[255] i8i8,
    },
}

root packet f32a {
}")).
Eval vm_compute in ("<<<M1596>>>" ++ check (runes_of_ascii "MetaData x {
    len crc,
    float asx,
    i32 uint8x `line1
    line2`,
    u16 tag `it's`,
    As string_,
}

packet metadata {
    @lengthOf(zchar)
    // c
    i64_ @calculatedFrom(""\" ++ [233]%N ++ runes_of_ascii """),//x
    @leftPad('\x00')
    zchar[10] zchar,
    lengthOf string_,
    int @lengthOf(pack),
    zchar[00] Foo,
    @lengthOf(packetx)
    @leftPad('\x00')
    @calculatedFrom(""x y"")
    uint16 len @calculatedFrom("""") `two words`,
    int8 metadata @lengthOf(Foo) `two words`,// @lengthOf(
}

options {
}

packet pack {
    // `tick` ""quote"" 'q'
    //
    f64 o,
    T BodyLength,
    repeat uint8 chars `" ++ [233]%N ++ runes_of_ascii "`,
    repeat Logon u,
    @tag(0123456789)
    char[] repeatCount @lengthOf(_x) `
    `,//
    @tag(7)
    repeatCount @calculatedFrom(""packet"") `{ , }`,
}")).
Eval vm_compute in ("<<<M344>>>" ++ check (runes_of_ascii "options // a // b
{	}
    packet i8i8 { @tag(
3 ) x
@calculatedFrom(
""it's""	) , @lengthOf( f32a ) match
rootA
as uint8x // @lengthOf(
{ 0 : string_ 42 : Packet } , @leftPad
(
    '\x00'
) i64_ packetx `u8 x,` ,
    @calculatedFrom(""x y"" ) matchKey {len  ,
    }  ,
@lengthOf(  matchKey
)
    @calculatedFrom(// `tick` ""quote"" 'q'
""abc"" ) @lengthOf( x_y_z )
    /// triple
    repeat metadata `line1
line2` ,lengthOf repeatCount , /// triple
int32
// " ++ [27880; 37322]%N ++ runes_of_ascii "
//	t
roots @calculatedFrom( ""`tick`"")
`" ++ [233]%N ++ runes_of_ascii "` , zchar[
1	]	Packet	@calculatedFrom(	""// no comment"" ) ,} packet
    options1
{ @lengthOf(
    uint8x ) A @calculatedFrom( ""it's""
    )
`doc`, } root packet crc
{char[	65535	]chars
,}
")).
Eval vm_compute in ("<<<M1893>>>" ++ check (runes_of_ascii "root packet lengthOf {
    // a // b
    match i64_ as options1 {
        ""// no comment"" : f32a,
        65535 : falsey,
    },
    @tag(0)
    char[] body @lengthOf(lengthOf),
    u64 string_ `it's`,
    @lengthOf(string_)
    crc {
        repeat zchar[3] u,
        pack `a\`,
        char[] crc ``,
    },
    int16 metadata `line1
        line2`,
}

root packet leftPad {
    repeat zchar[4294967296] MetaDataX,
    @tag(10)
    match tag as falsey {
        7 : BodyLength,
        0 : i64_,
    },
    repeat char[255] A,
    char[7] trueish @calculatedFrom(""a\\"") `two words`,
    i16 Logon,
}")).
Eval vm_compute in ("<<<M1729>>>" ++ check (runes_of_ascii "

  packet	leftPad//
  	{

    @rightPad
(
)repeat 
chars {
crc  /// triple
pack , 
}

,
@calculatedFrom(  """ ++ [28040; 24687]%N ++ runes_of_ascii """
)	@lengthOf(
options1
) 
@tag(	65535  ) Foo ,	match  matchKey as	// " ++ [128512]%N ++ runes_of_ascii " emoji
      tag {
        // c
[""{,}"" , """"
,  ""`tick`"" ,3 ,	""it's""
,
	""" ++ [128512]%N ++ runes_of_ascii """ ,""it's""]
	:  As 
,
[
    /// triple
      //	t

""x y""
] 
	    //x
    	:chars	,
""" ++ [233]%N ++ runes_of_ascii "t" ++ [233]%N ++ runes_of_ascii """  :uint8x

    ,4294967296	:	packetx ""// no comment""
: calculatedFrom,	}  ,
@calculatedFrom(

""// no comment"" 	 // @lengthOf(
    	)  char[ // trailing space 
	  007

    ]	f32a

    ,}  // a // b")).
Eval vm_compute in ("<<<M1119>>>" ++ check (runes_of_ascii "// top
root // c0
packet // c1
_x // c2
{ // c3
match // c4
Foo // c5
as // c6
Z9_ // c7
{ // c8
""a	b"" // c9
: // c10
Pad // c11
, // c12
} // c13
, // c14
repeat // c15
x // c16
`line1
line2` // c17
, // c18
@rightPad // c19
( // c20
' ' // c21
) // c22
@calculatedFrom( // c23
""a\\"" // c24
) // c25
metadata // c26
MetaDataX // c27
, // c28
@tag( // c29
0 // c30
) // c31
Logon // c32
int // c33
`` // c34
, // c35
} // c36
options // c37
{ // c38
T // c39
= // c40
'\x00' // c41
} // c42
")).
Eval vm_compute in ("<<<M1491>>>" ++ check (runes_of_ascii "options {
    LittleEndian = true;
    StringPrefixLenType = u64;
    ArrayPrefixLenType = u16;
    FixedStringPadFromLeft = false;
    FixedStringPadChar = ' ';
}

packet Logon {
    zchar[5] Side2,
}

root packet Logout {
    repeat i64 Tail,
    Logon,
    repeat i16 OrderId,
    char[] venue,
    uint64 x,
    repeat i16 count,
    u8 Flags,
    match Flags as Body {
        25 : Logon,
    },
    u16 Qty @calculatedFrom(""CR\
    C32""),
}")).
Eval vm_compute in ("<<<M306>>>" ++ check (runes_of_ascii "packet rootA { @tag(0123456789 ) options1 {int32 uint8x
    `u8 x,`
    , u8x
//x
// packet A { u8 x, }
{
    match Header as
    metadata {[	10 ]
: pack } ,
    } , f64 // `tick` ""quote"" 'q'
chars , }
, @lengthOf( body ) u64
// @lengthOf(
//
Z9_ , }
MetaData repeatCount
    {zchar[10 ] string_ , f64 A
, u32 BodyLength , zchar[ 00 ] uint8x ,
    trueish
leftPad,char[ 65535  ] rootA	, }
//	t
")).
Eval vm_compute in ("<<<M1378>>>" ++ check (runes_of_ascii "
options { LittleEndian

    =
	true

    ; }	packet
	Logon {u8 
x
    , }	packet	Logout

    {  u16

reason ,}
root
packet  Frame

    {
u8 Kind ,

    u8
	Kind2 ,

match
Kind
	as Body	{

    1	:  Logon 
, [ 2 ,

3 
,
	4

    ]
    :

Logout	,
100

:  Logon 
,}  ,
    match
    Kind2

    as	Trailer

    {0

    :

Logout
, } 
,	}")).
Eval vm_compute in ("<<<M1191>>>" ++ check (runes_of_ascii "// top
MetaData // c0
uint8x // c1
{ // c2
char[] // c3
f32a // c4
`// not a comment` // c5
, // c6
float32 // c7
roots // c8
, // c9
char[ // c10
7 // c11
] // c12
u8x // c13
, // c14
zchar[ // c15
10 // c16
] // c17
f32a // c18
, // c19
u64 // c20
pack // c21
, // c22
u16 // c23
pack // c24
, // c25
} // c26
")).
Eval vm_compute in ("<<<M287>>>" ++ check (runes_of_ascii "root // trailing space 
packet int {
    f32a @calculatedFrom(""packet"" )
    `
`
    , } options
{
    rootA
    // @lengthOf(
    =
""\" ++ [233]%N ++ runes_of_ascii """; }
    packet
i8i8 {
    // trailing space 
    uint8
    uint8x
    @lengthOf( string_ ) //	t
, i32 tag //	t
@lengthOf(
Logon )  , }")).
Eval vm_compute in ("<<<M242>>>" ++ check (runes_of_ascii "packet len{} options	{ Z9_ =  4294967296;
_x =// a // b
0
    f32a = zchar[42	] ; } root packet
    // @lengthOf(
    BodyLength // trailing space 
{ }options {
string_ =u32	;	charz =
/// triple
// packet A { u8 x, }
string
; } packet len { }")).
Eval vm_compute in ("<<<M1612>>>" ++ check (runes_of_ascii "
packet  Logon	{
    string
	user  ,}
root 
packet Frame{ u8 K,

    match  K  as Body

    {
1:
    Logon , 2
    :Logout ,  } 
,
    Tail
,}packet  Logout
{
	u16 reason
,
	}

packet 
Tail

    {u32

crc 
,}
")).
Eval vm_compute in ("<<<M1752>>>" ++ check (runes_of_ascii "root packet Frame {
    u8 K,
    Logon first,
    match K as Body {
        1 : Logon,
        2 : Logout,
    },
}

packet Logon {
    string user,
}

packet Logout {
    u16 reason,
}")).
Eval vm_compute in ("<<<M1746>>>" ++ check (runes_of_ascii "packet crc {
    @leftPad()
    repeat charz float,
}

root packet options1 {
    @tag(65535)
    packetx {
        u128,
        f32 a1,
    },
}
// trailing space ")).
Eval vm_compute in ("<<<M1788>>>" ++ check (runes_of_ascii "packet
	A  { 
match 
k
	as
    n
    {	[  1
,
	""bb"" , 007
,
""d""

    ,
5,  ""f""
    ,
	7,
    ""h"" ,
    9,

""j""
, 11
]

    : B
,  2	:
    C
}
,
    }

")).
Eval vm_compute in ("<<<M1899>>>" ++ check (runes_of_ascii "packet calculatedFrom {
    uint8x {
        body `line1
        line2`,
        string crc @lengthOf(uint8x),
        char[] As @lengthOf(Pad),
    },
}")).
Eval vm_compute in ("<<<M545>>>" ++ check (runes_of_ascii "packet uint8x
{ match' pack
    as msg_type	{
    0123456789 :	float
}
,
} packet //	t
a1
    { } options {packetx
    = '\x00'	; u128= ""a	b""  ; }
")).
Eval vm_compute in ("<<<M498>>>" ++ check (runes_of_ascii "packet uint8x
{ match pack
    as msg_type	{
    0123456789 :	float
}
,
} packet //	t
a1
    { } options {packetx
    ; '\x00'	; u128= ""a	b""  ; }
")).
Eval vm_compute in ("<<<M415>>>" ++ check (runes_of_ascii "packet uint8x
{ match pack
     msg_type	{
    0123456789 :	float
}
,
} packet //	t
a1
    { } options {packetx
    = '\x00'	; u128= ""a	b""  ; }
")).
Eval vm_compute in ("<<<M674>>>" ++ check (runes_of_ascii "// @lengthOf(
packet i8i8 { { u128 o , }
options { MetaDataX = true;
    BodyLength =""packet"" x_y_z= 007
crc //x
= ""abc"" ;
    msg_type =
i16 }")).
Eval vm_compute in ("<<<M679>>>" ++ check (runes_of_ascii "// @lengthOf(
packet { i8i8 u128 o , }
options { MetaDataX = true;
    BodyLength =""packet"" x_y_z= 007
crc //x
= ""abc"" ;
    msg_type =
i16 }")).
Eval vm_compute in ("<<<M669>>>" ++ check (runes_of_ascii "// @lengthOf(
packet i8i8 {  o , }
options { MetaDataX = true;
    BodyLength =""packet"" x_y_z= 007
crc //x
= ""abc"" ;
    msg_type =
i16 }")).
Eval vm_compute in ("<<<M16>>>" ++ check (runes_of_ascii "options { }MetaData u8x { uint8x	body`crlf
line`
    //	t
    , calculatedFrom body ,
}
    options  {
} root packet options1
{  }")).
Eval vm_compute in ("<<<M1756>>>" ++ check (runes_of_ascii "MetaData leftPad {
    chars MetaDataX,
}

packet repeatCount {
    char[255] uint8x `" ++ [233]%N ++ runes_of_ascii "`,
}

MetaData pack {
    As Foo,
}// c")).
Eval vm_compute in ("<<<M1189>>>" ++ check (runes_of_ascii "MetaData leftPad { chars MetaDataX , } packet repeatCount { char[ 255 ] uint8x `" ++ [233]%N ++ runes_of_ascii "` , } MetaData pack { As Foo , } // c
")).
Eval vm_compute in ("<<<M1169>>>" ++ check (runes_of_ascii "MetaData leftPad { chars MetaDataX , } packet repeatCount { char[ 255 ] uint8x // c
`" ++ [233]%N ++ runes_of_ascii "` , } MetaData pack { As Foo , }")).
Eval vm_compute in ("<<<M499>>>" ++ check (runes_of_ascii "packet uint8x
{ match pack
    as msg_type	{
    0123456789 :	float
}
,
} packet //	t
a1
    { } options {packetx")).
Eval vm_compute in ("<<<M919>>>" ++ check (runes_of_ascii "packet A {
    u16 len @lengthOf(body) `a
b`,
    u32 crc @calculatedFrom(""CRC32"") `a
b`,
    string body,
}")).
Eval vm_compute in ("<<<M926>>>" ++ check (runes_of_ascii "packet A {
    Inner {
        u8 x `a
b`,
        Deep {
            u8 y `a
b`,
        },
    },
}")).
Eval vm_compute in ("<<<M899>>>" ++ check (runes_of_ascii "packet A {
  match k as n {
    [1, 22, ""c c"", 4, 5, ""f"", 7, 8, ""i"", 10, 11] : B,
    2 : C
  },
}")).
Eval vm_compute in ("<<<M605>>>" ++ check (runes_of_ascii "
packet
    asx {match u128 as lengthOf
{
//	t
// `tick` ""quote"" 'q'
255 : repeat ,
    } ,	}")).
Eval vm_compute in ("<<<M588>>>" ++ check (runes_of_ascii "
packet
    asx {match u128 as lengthOf
{ {
//	t
// `tick` ""quote"" 'q'
255 : x ,
    } ,	}")).
Eval vm_compute in ("<<<M564>>>" ++ check (runes_of_ascii "
packet
    asx match{ u128 as lengthOf
{
//	t
// `tick` ""quote"" 'q'
255 : x ,
    } ,	}")).
Eval vm_compute in ("<<<M595>>>" ++ check (runes_of_ascii "
packet
    asx {match u128 as lengthOf
{
//	t
// `tick` ""quote"" 'q'
: : x ,
    } ,	}")).
Eval vm_compute in ("<<<M843>>>" ++ check (runes_of_ascii "packet A {
  match k as n {
    [1, ""bb"", 007, ""d"", 5, ""f"", 7] : B,
    2 : C
  },
}")).
Eval vm_compute in ("<<<M1629>>>" ++ check (runes_of_ascii "packet A {
    match k as n {
        [1, ""bb"", 007] : B,
        2 : C,
    },
}")).
Eval vm_compute in ("<<<M903>>>" ++ check (runes_of_ascii "packet A { Inner { match k as n { [1,22,007,4,5,66,7,8,9,10,11] : B, }, }, }")).
Eval vm_compute in ("<<<M1099>>>" ++ check (runes_of_ascii "packet A {
    match k as n {
        1 : B // c
        , // d
    },
}")).
Eval vm_compute in ("<<<M801>>>" ++ check (runes_of_ascii "packet A {
  match k as n {
    [1, 22, 007, 4] : B
    2 : C
  },
}")).
Eval vm_compute in ("<<<M784>>>" ++ check (runes_of_ascii "packet A {
  match k as n {
    [""a"", 22] : B,
    2 : C
  },
}")).
Eval vm_compute in ("<<<M1522>>>" ++ check (runes_of_ascii "packet body {
    // c
    i32 f32a `{ , }`,
}

options {
}")).
Eval vm_compute in ("<<<M1245>>>" ++ check (runes_of_ascii "root
    packet	P
{repeat

char 
cs  ,u8

    x ,} ")).
Eval vm_compute in ("<<<M1214>>>" ++ check (runes_of_ascii "packet body { i32 f32a `{ , }` , }
// c
options { }")).
Eval vm_compute in ("<<<M945>>>" ++ check (runes_of_ascii "MetaData M {
    u8 x `a

b`,
    T t `a

b`,
}")).
Eval vm_compute in ("<<<M363>>>" ++ check (runes_of_ascii "MetaData
    // @lengthOf(
    tag {
    }")).
Eval vm_compute in ("<<<M1531>>>" ++ check (runes_of_ascii "// c
    packet  asx
	{
}/// triple
")).
Eval vm_compute in ("<<<M105>>>" ++ check (runes_of_ascii "// " ++ [128512]%N ++ runes_of_ascii " emoji
MetaData crc
    {  }")).
Eval vm_compute in ("<<<M998>>>" ++ check (runes_of_ascii "packet A {
 u8 x `d" ++ [5760]%N ++ runes_of_ascii "`, // c" ++ [5760]%N ++ runes_of_ascii "
}")).
Eval vm_compute in ("<<<M1843>>>" ++ check (runes_of_ascii "packet
A{ } 
      // c" ++ [8239]%N ++ runes_of_ascii "
 
")).
Eval vm_compute in ("<<<M414>>>" ++ check (runes_of_ascii "packet uint8x
{ match")).
Eval vm_compute in ("<<<M59>>>" ++ check (runes_of_ascii "packet
int {
}
//	t
")).
Eval vm_compute in ("<<<M977>>>" ++ check (runes_of_ascii "// c 
packet A {
}")).
Eval vm_compute in ("<<<M1059>>>" ++ check (runes_of_ascii "packet A {
}// c x")).
Eval vm_compute in ("<<<M1228>>>" ++ check (runes_of_ascii "packet x // c
{ }")).
Eval vm_compute in ("<<<M319>>>" ++ check (runes_of_ascii "packet o
{
}
")).
Eval vm_compute in ("<<<M990>>>" ++ check (runes_of_ascii "// c" ++ [133]%N)).
Eval vm_compute in ("<<<M725>>>" ++ check (runes_of_ascii " ")).
