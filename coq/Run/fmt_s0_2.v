From FP Require Import Lexer Parser ShowPT Digest Formatter.
From Coq Require Import String List NArith.
Import ListNotations.
Open Scope string_scope.
Set Printing Width 100000000.
Set Printing Depth 100000000.
Definition show_fres (r : fres) : string :=
  match r with
  | FOk s => "OK:" ++ sh_escaped s ""
  | FErr s => "ERR:" ++ sh_escaped s ""
  | FPanic p => "PANIC:" ++ p
  end.
Definition check (rs : list rune) : string := digest (show_fres (format_res rs)).
Definition full (rs : list rune) : string := show_fres (format_res rs).
Eval vm_compute in ("<<<M1353>>>" ++ check (runes_of_ascii "options {
    // c1
LittleEndian // c2a
  // c2b
= true
    // c4
;
    // c5
StringPrefixLenType
    // c6
= // c7
u8 ; // c9
ArrayPrefixLenType // c10a
  // c10b
=
    // c11
u8
    // c12
; // c13
FixedStringPadFromLeft = // c15a
  // c15b
true // c16a
  // c16b
; FixedStringPadChar // c18
= // c19
'0' // c20a
  // c20b
;
    // c21
} // c22a
  // c22b
packet
    // c23
Logon
    // c24
{ // c25a
  // c25b
repeat // c26
i8 Ref // c28
, // c29
@rightPad // c30
( // c31
'0' // c32a
  // c32b
) char[ // c34a
  // c34b
8 // c35a
  // c35b
] // c36a
  // c36b
msgKind , // c38
repeat // c39
InOrderid72 // c40
{ u8
    // c42
Side2 // c43
, // c44
uint32
    // c45
Qty
    // c46
, // c47
repeat // c48
InPrice27 // c49
{ // c50a
  // c50b
repeat char[ // c52a
  // c52b
4
    // c53
]
    // c54
Acct // c55a
  // c55b
, // c56
u64 sym // c58
,
    // c59
} , zchar[ // c62
4 // c63a
  // c63b
] // c64
clOrdID // c65
, int16 // c67
lastPx
    // c68
, // c69
InAcct22
    // c70
{
    // c71
repeat char[ 3 // c74
] // c75a
  // c75b
OrderId // c76a
  // c76b
, // c77a
  // c77b
}
    // c78
,
    // c79
} // c80a
  // c80b
, // c81
int64
    // c82
Px // c83
, } // c85
packet // c86a
  // c86b
Fill // c87
{ // c88a
  // c88b
uint16 Qty // c90
, // c91
repeat // c92a
  // c92b
char[
    // c93
1 // c94a
  // c94b
] // c95a
  // c95b
Flags
    // c96
,
    // c97
i8 // c98a
  // c98b
Ref
    // c99
, // c100
} // c101
packet // c102
Logout
    // c103
{
    // c104
@leftPad // c105
(
    // c106
'0'
    // c107
) // c108a
  // c108b
char[ // c109a
  // c109b
3
    // c110
] x , // c113a
  // c113b
int8
    // c114
f1 // c115a
  // c115b
, // c116a
  // c116b
Logon
    // c117
,
    // c118
uint16 venue ,
    // c121
zchar[
    // c122
2
    // c123
] // c124
Px // c125a
  // c125b
, } // c127a
  // c127b
packet // c128
Reject // c129
{
    // c130
} root // c132
packet // c133
Leg
    // c134
{ // c135a
  // c135b
Fill // c136a
  // c136b
, // c137
u16 // c138a
  // c138b
msgKind
    // c139
, // c140
match // c141
msgKind // c142
as
    // c143
Body
    // c144
{
    // c145
[ 182
    // c147
, 83 // c149
] // c150a
  // c150b
:
    // c151
Fill // c152
, // c153
199 : Reject ,
    // c157
137 // c158a
  // c158b
: // c159a
  // c159b
Logout , 35 // c162
: // c163a
  // c163b
Logon , // c165
} // c166
, // c167a
  // c167b
u32
    // c168
lastPx @calculatedFrom( // c170
""CRC32"" // c171
)
    // c172
,
    // c173
} // c174a
  // c174b
")).
Eval vm_compute in ("<<<M1810>>>" ++ check (runes_of_ascii "// top
options {
    LittleEndian = false;// c5
    FixedStringPadChar = ' ';
    // c9
}// c10a

// c10b
packet Fill {
    // c13
    InFlags6 {
        // c15
        repeat u64 count,
    },// c21a
    // c21b
    char[8] price,
    repeat char[2] lastPx,
    // c32
    char[] count,
}// c36

packet Quote {
    // c39
    char[] Qty,
    int32 sym,
    // c45
    zchar[9] Flags,
    int8 tag7,
    // c53
    char[7] count,// c58a
    // c58b
}// c59a

// c59b
packet Cancel {
    string Acct,
    @rightPad( // c67
    '\x00' )
    // c69
    char[2] Note,// c74a
    // c74b
    zchar[5] Side2,
    // c79
}// c80a

// c80b
packet Trade {
    repeat Quote,
    // c86
    Fill,
    // c88
    repeat i64 Side2,
    // c92
    uint16 Tail,
    zchar[7] OrderId,// c100
}

// c101
root packet Party {
    repeat InLastpx79 {
        // c108a
        // c108b
        char[12] Px,
        int8 Tail,
    },
    f32 count,
    // c121
    repeat u8 Note,
    // c125
    Trade,// c127a
    // c127b
    f64 venue,// c130
    @rightPad( // c132
    '\x00' )
    char[11] tag7,
    u16 Px,// c142a
    // c142b
    u32 Side2 @lengthOf(Body),
    match Px as Body {
        [48, 188] : Fill,
        // c161
        190 : Trade,
        160 : Quote,
        // c169
        85 : Cancel,
    },
    // c175
}
// c176")).
Eval vm_compute in ("<<<M103>>>" ++ check (runes_of_ascii "packet x { }
options
/// triple
// c
{ Packet =string Packet =
    // a // b
    ' 'zchar = false ;
matchKey
    =
    false }	packet
f32a
// packet A { u8 x, }
// " ++ [128512]%N ++ runes_of_ascii " emoji
{ int64 options1@calculatedFrom(
    ""packet"" ) `// not a comment` ,
Z9_ { charz	{ match	BodyLength	as trueish{ ""\" ++ [233]%N ++ runes_of_ascii """ :
    charz , 65535: roots,
    [
4294967296 //x
, ""a\""b""
    // @lengthOf(
    , ""abc"" ]:
    f32a ,	""\" ++ [233]%N ++ runes_of_ascii """	:
//x
// " ++ [128512]%N ++ runes_of_ascii " emoji
int
    // packet A { u8 x, }
    ""x y"" //
: u8x }, repeat int8 u , repeat	_x	{ msg_type `100% of %d` ,
    metadata
`crlf
line`  ,
f32
roots  , char[]f32a @lengthOf( Pad )
,// c
}
,
} ,
    },match
    T
as  calculatedFrom {
[0,""" ++ [128512]%N ++ runes_of_ascii """ ]
:// @lengthOf(
Pad// packet A { u8 x, }
[""""  , ""x y""
    , """ ++ [233]%N ++ runes_of_ascii "t" ++ [233]%N ++ runes_of_ascii """ , ""a\""b""
    , 4294967296 , """ ++ [28040; 24687]%N ++ runes_of_ascii """  ]:o
[ 42
    ]//
: float , }
,  match zchar as _x	{
    ""`tick`""
    // " ++ [27880; 37322]%N ++ runes_of_ascii "
    : packetx , },
    // 50% %s
    repeat
// c
// `tick` ""quote"" 'q'
As
    // " ++ [27880; 37322]%N ++ runes_of_ascii "
    { int @lengthOf( msg_type	)
    , i64 roots`line1
line2`
    // `tick` ""quote"" 'q'
    , // c
repeat u16 Packet `" ++ [233]%N ++ runes_of_ascii "`
, f64 charz	, } , int32	i8i8 `say ""hi""` ,
}")).
Eval vm_compute in ("<<<M92>>>" ++ check (runes_of_ascii "packet As
{i32 x_y_z
, match
    /// triple
    As  as leftPad{
    ""// no comment"" :// 50% %s
repeatCount ,// 50% %s
[ 3,
    3
    ,
    """ ++ [233]%N ++ runes_of_ascii "t" ++ [233]%N ++ runes_of_ascii """ ]: charz
,
""// no comment"" : f32a 10 :u,} , uint64 len
    //
    , x
    , @lengthOf(float /// triple
)	repeat i8i8 { repeat pack,
    float32
Packet,
repeat T Z9_ ,// trailing space 
i8i8 ,
}
, char
rootA
,
    // c
    float , _x // " ++ [128512]%N ++ runes_of_ascii " emoji
@calculatedFrom( ""x y"") , }
MetaData//
Z9_	{u8x //x
BodyLength, uint32
x //	t
, a1 Header ,  calculatedFrom Pad`a\` //
, char  falsey`it's`, rootA Foo ,
    } root packet repeatCount {@leftPad  ( ' ')
zchar `{ , }` ,
@tag(42 )
match tag as Logon { 007 : float ,
[1
    ] : Packet ,  [
// `tick` ""quote"" 'q'
// packet A { u8 x, }
0 ] :
    repeatCount
, [  ""a	b""	, 10 ,""packet""	] : o
    },
    f32a`100% of %d` ,// @lengthOf(
@calculatedFrom(// c
""\n"" ) @lengthOf(
    body) repeat
    char[] calculatedFrom ``// " ++ [128512]%N ++ runes_of_ascii " emoji
,	pack,
}
")).
Eval vm_compute in ("<<<M1645>>>" ++ check (runes_of_ascii "
options
    {
_x =

    '0' 
    // a // b

// packet A { u8 x, }
	;
    Logon

=
false 
} packet
A
    { } packet //
  Logon
{ 
@leftPad(
	' '
)
    repeat
	repeatCount
	{

stringy

    @lengthOf( 
  // " ++ [27880; 37322]%N ++ runes_of_ascii "
// trailing space 

	len // @lengthOf(
)	`say ""hi""` ,

repeat metadata
`u8 x,`

,  match
	x	as 
int
    {[""`tick`"" , 7

] // trailing space 
		:

    BodyLength,  255 :packetx
42	// " ++ [128512]%N ++ runes_of_ascii " emoji
    :
    _x,	}

, } ,
@rightPad ('0'
	) @leftPad ( ' ' )
@tag(	65535
    )
Header

    `{ , }`

    , int16  // trailing space 
  stringy @lengthOf( // " ++ [128512]%N ++ runes_of_ascii " emoji
	  calculatedFrom

)

    , repeat  MetaDataX
{ 
x_y_z 
, repeat 	 //
calculatedFrom o

    `doc`
	,string_
    repeatCount 
,
rootA

{
repeatCount  @calculatedFrom( ""\" ++ [233]%N ++ runes_of_ascii """) `tab	here` ,
}  ,	}
, } ")).
Eval vm_compute in ("<<<M1323>>>" ++ check (runes_of_ascii "// top
options // c0
{ // c1a
  // c1b
FixedStringPadChar
    // c2
= // c3
'0'
    // c4
; // c5a
  // c5b
} packet // c7a
  // c7b
Q
    // c8
{ // c9a
  // c9b
zchar[ // c10a
  // c10b
4 // c11a
  // c11b
] // c12
z // c13a
  // c13b
, // c14
@rightPad // c15
( // c16a
  // c16b
'\x00' // c17
) char[ 3 // c20
]
    // c21
n
    // c22
, // c23a
  // c23b
char[ // c24a
  // c24b
5
    // c25
] // c26
d // c27
, // c28a
  // c28b
} // c29a
  // c29b
root packet R // c32
{ // c33a
  // c33b
Q
    // c34
,
    // c35
zchar[
    // c36
8 // c37a
  // c37b
] top // c39a
  // c39b
, // c40a
  // c40b
repeat // c41
zchar[ // c42a
  // c42b
2 ] // c44
zs , // c46
} // c47
")).
Eval vm_compute in ("<<<M1506>>>" ++ check (runes_of_ascii "options {
    stringy = zchar[0123456789]
}

MetaData charz {
    zchar[42] calculatedFrom,
    // `tick` ""quote"" 'q'
    char[65535] trueish,
    float64 roots `doc`,
}

packet calculatedFrom {
    @calculatedFrom(""" ++ [128512]%N ++ runes_of_ascii """)
    string crc `crlf
    line`,
    MetaDataX {
        Packet @lengthOf(packetx) `{ , }`,// trailing space 
        repeat trueish As,
    },
    int64 T,// `tick` ""quote"" 'q'
    match uint8x as i64_ {
        00 : _x,
        65535 : Z9_,
        ""1"" : u8x,
        007 : Z9_,
        /// triple
        255 : matchKey,
        ""1"" : crc,
    },// " ++ [128512]%N ++ runes_of_ascii " emoji
}// @lengthOf(")).
Eval vm_compute in ("<<<M1934>>>" ++ check (runes_of_ascii "options {
    lengthOf = true;
    string_ = ""a\\"";
}

root packet zchar {
    string_ {
        match x as string_ {
            //	t
            0 : zchar,
        },
    },
    @calculatedFrom(""CRC32"")
    @tag(42)
    repeat char[4294967296] u `say ""hi""`,
    // 50% %s
    @tag(3)
    @leftPad( ' ' )
    @tag(42)
    match Header as A {
        42 : Logon,
    },
    @tag(4294967296)
    i64_ `doc`,
}

root packet x_y_z {
    @calculatedFrom(""// no comment"")
    @leftPad( )
    @lengthOf(int)
    //	t
    u8x `" ++ [28040; 24687; 31867; 22411]%N ++ runes_of_ascii "`,
}")).
Eval vm_compute in ("<<<M1514>>>" ++ check (runes_of_ascii "
packet

_x{
@calculatedFrom(

""it's"" 
	    /// triple
// " ++ [27880; 37322]%N ++ runes_of_ascii "
	)
A rootA
,

    int8 Logon  `100% of %d`
    , @lengthOf(
As  )	a1 
lengthOf , float32 zchar
@calculatedFrom(""// no comment""
	)	,

    } MetaData Packet
{

packetx
    len 

// packet A { u8 x, }
    // 50% %s
	,
	u16
_x  `100% of %d`,

    uint8

    roots 
`{ , }`
	,falsey 
leftPad	`say ""hi""`

, }
	options	// " ++ [128512]%N ++ runes_of_ascii " emoji
  {A	= 
10	;
Pad=char  ; i8i8 	 // 50% %s
	=
string x_y_z=
	false // 50% %s
  }
")).
Eval vm_compute in ("<<<M146>>>" ++ check (runes_of_ascii "
root
    packet rootA {@tag(
    3
    // " ++ [27880; 37322]%N ++ runes_of_ascii "
    ) T {int64  pack @calculatedFrom(
    ""a\\"")`tab	here`  ,
char[
    10
    ] float , u // trailing space 
{
repeat
    f32 chars,
} ,	char[] f32a @lengthOf(zchar
// `tick` ""quote"" 'q'
// " ++ [128512]%N ++ runes_of_ascii " emoji
) , } , @calculatedFrom(
""CRC32""	)  u32 x_y_z @lengthOf(Header )
`say ""hi""` ,@tag(65535 ) char
Logon `line1
line2`
//
// `tick` ""quote"" 'q'
,  float32
    zchar
    `// not a comment`,}
")).
Eval vm_compute in ("<<<M1273>>>" ++ check (runes_of_ascii "// top
packet // c0
B // c1
{
    // c2
u8 a // c4
,
    // c5
} // c6a
  // c6b
root
    // c7
packet // c8a
  // c8b
P // c9a
  // c9b
{ u8 K // c12a
  // c12b
, // c13
u64 // c14a
  // c14b
L // c15
@lengthOf( // c16
Body // c17
) // c18
, match // c20a
  // c20b
K // c21
as // c22
Body { // c24a
  // c24b
1 // c25a
  // c25b
: // c26
B , // c28a
  // c28b
} , // c30a
  // c30b
} // c31a
  // c31b
")).
Eval vm_compute in ("<<<M215>>>" ++ check (runes_of_ascii "packet
crc {	} root packet a1 { tag u ,  As @lengthOf( msg_type ) , repeat
//x
// 50% %s
i8i8	`// not a comment`,
    lengthOf
{
    match asx
    as o { ""\n"" : MetaDataX , ""CRC32"" :
asx
, 0123456789 : falsey,
10 :
u128 , 4294967296 :len
, } /// triple
,u32 Logon @lengthOf(u8x
)
    , repeat float32 u8x
,}, T Logon`// not a comment`
    , // `tick` ""quote"" 'q'
}")).
Eval vm_compute in ("<<<M105>>>" ++ check (runes_of_ascii "options// @lengthOf(
{ roots
    =  0123456789 ;//x
}options
    { }
packet crc {
crc @lengthOf( Pad )  `{ , }`, @lengthOf(
    Logon ) char[]
BodyLength
    ,	@leftPad // @lengthOf(
(
    '0'
    ) @leftPad // `tick` ""quote"" 'q'
(  ) @rightPad (	'\x00'
)
char f32a
    // c
    @lengthOf( body ),
    @tag(
255 )
string body`` , }")).
Eval vm_compute in ("<<<M1321>>>" ++ check (runes_of_ascii "

  packet A{	u8  a,}	packet
B {
u16  b ,}

packet

C {  u32	c
    ,
} root
packet M
{	u16 
Kc, u16 
Kb,
u16 Ka
,

    match Kc  as
	X {	9 :
A , 
10 
:

    B , 
}  , 
match

Kb	as

    Y{ 2  : C

    ,
	1
    :
A ,}
,
	match Ka

    as Z { 1
:

B,  },
A
, B,  C

,
	}")).
Eval vm_compute in ("<<<M68>>>" ++ check (runes_of_ascii "// a // b
root packet
    u { f64 //
chars	@calculatedFrom( ""\n"" )
, @lengthOf(msg_type//
)x_y_z
`
`
,
// " ++ [27880; 37322]%N ++ runes_of_ascii "
// `tick` ""quote"" 'q'
repeat char[ 0123456789
    ]f32a, repeat
u8 u8x
`u8 x,` , zchar[3	]
// " ++ [128512]%N ++ runes_of_ascii " emoji
// trailing space 
x_y_z , x_y_z @lengthOf( len),}")).
Eval vm_compute in ("<<<M99>>>" ++ check (runes_of_ascii "packet stringy	{ //x
repeat char[ 0123456789
    // c
    ] trueish ,matchKey `100% of %d` ,
    } options { x_y_z = //x
false /// triple
;// " ++ [128512]%N ++ runes_of_ascii " emoji
Z9_ = 4294967296 chars =""packet"" // packet A { u8 x, }
; Packet
= ""it's"" ;// trailing space 
}")).
Eval vm_compute in ("<<<M412>>>" ++ check (runes_of_ascii "packet
    asx { @calculatedFrom(
""""  ) ) @tag( 255 )repeat
// packet A { u8 x, }
// trailing space 
int16 u8x
,
@tag(
    //
    007 )
    @tag( 0
    /// triple
    ) @tag( 1) u
    @lengthOf( T ),
// `tick` ""quote"" 'q'
//x
} // " ++ [128512]%N ++ runes_of_ascii " emoji")).
Eval vm_compute in ("<<<M389>>>" ++ check (runes_of_ascii "asx
    packet { @calculatedFrom(
""""  ) @tag( 255 )repeat
// packet A { u8 x, }
// trailing space 
int16 u8x
,
@tag(
    //
    007 )
    @tag( 0
    /// triple
    ) @tag( 1) u
    @lengthOf( T ),
// `tick` ""quote"" 'q'
//x
} // " ++ [128512]%N ++ runes_of_ascii " emoji")).
Eval vm_compute in ("<<<M518>>>" ++ check (runes_of_ascii "packet
    asx { @calculatedFrom(
""""  ) @tag( 255 )repeat
// packet A { u8 x, }
// trailing space 
int16 u8x
,
@tag(
    //
    007 )
    @tag( 0
    /// triple
    ) @tag( 1) u
    @lengthOf( T )}
// `tick` ""quote"" 'q'
//x
, // " ++ [128512]%N ++ runes_of_ascii " emoji")).
Eval vm_compute in ("<<<M466>>>" ++ check (runes_of_ascii "packet
    asx { @calculatedFrom(
""""  ) @tag( 255 )repeat
// packet A { u8 x, }
// trailing space 
int16 u8x
,
@tag(
    //
    007 )
     0
    /// triple
    ) @tag( 1) u
    @lengthOf( T ),
// `tick` ""quote"" 'q'
//x
} // " ++ [128512]%N ++ runes_of_ascii " emoji")).
Eval vm_compute in ("<<<M15>>>" ++ check (runes_of_ascii "options{ x
    = ""x y"";}
options/// triple
{ i8i8
= 4294967296 crc =255
// " ++ [128512]%N ++ runes_of_ascii " emoji
// 50% %s
; string_=	char[
//x
// a // b
255]u
    =  '\x00';	BodyLength
    ='0' } packet u {float32 pack // `tick` ""quote"" 'q'
,
}
")).
Eval vm_compute in ("<<<M520>>>" ++ check (runes_of_ascii "packet
    asx { @calculatedFrom(
""""  ) @tag( 255 )repeat
// packet A { u8 x, }
// trailing space 
int16 u8x
,
@tag(
    //
    007 )
    @tag( 0
    /// triple
    ) @tag( 1) u
    @lengthOf( T )")).
Eval vm_compute in ("<<<M505>>>" ++ check (runes_of_ascii "packet
    asx { @calculatedFrom(
""""  ) @tag( 255 )repeat
// packet A { u8 x, }
// trailing space 
int16 u8x
,
@tag(
    //
    007 )
    @tag( 0
    /// triple
    ) @tag( 1) u")).
Eval vm_compute in ("<<<M582>>>" ++ check (runes_of_ascii "MetaData u
    { } MetaData o
{ float float uint8x
`100% of %d` ,repeatCount u8x, string_ leftPad
, i32
    Foo , int64 x `two words` , calculatedFrom
stringy `a\` ,
}
")).
Eval vm_compute in ("<<<M572>>>" ++ check (runes_of_ascii "MetaData u
    { } MetaData o o
{ float uint8x
`100% of %d` ,repeatCount u8x, string_ leftPad
, i32
    Foo , int64 x `two words` , calculatedFrom
stringy `a\` ,
}
")).
Eval vm_compute in ("<<<M549>>>" ++ check (runes_of_ascii "u MetaData
    { } MetaData o
{ float uint8x
`100% of %d` ,repeatCount u8x, string_ leftPad
, i32
    Foo , int64 x `two words` , calculatedFrom
stringy `a\` ,
}
")).
Eval vm_compute in ("<<<M683>>>" ++ check (runes_of_ascii "MetaData u
    { } MetaData o
{ float uint8x
`100% of %d` ,repeatCount u8x, string_ leftPad
, i32
    Foo , int64 x `two words` , calculatedFrom
stringy `a\` }
,
")).
Eval vm_compute in ("<<<M569>>>" ++ check (runes_of_ascii "MetaData u
    { } char o
{ float uint8x
`100% of %d` ,repeatCount u8x, string_ leftPad
, i32
    Foo , int64 x `two words` , calculatedFrom
stringy `a\` ,
}
")).
Eval vm_compute in ("<<<M1687>>>" ++ check (runes_of_ascii "

  options 
{

}options
{
MetaDataX=  char

    ;}

    MetaData Pad	{	i8 metadata	,
    string  stringy
    ,
int8

    As
	`{ , }`  // c
  ,
    }")).
Eval vm_compute in ("<<<M1778>>>" ++ check (runes_of_ascii "  packet	A 
{match
	k

    as
n

    {

    [""a""

    ,
	22,

    ""c c""  ,
    4, 
""e"", 
66
	,
	""g""	, 
8 ]:

    B
,  2
    :	C }  ,	}

")).
Eval vm_compute in ("<<<M1615>>>" ++ check (runes_of_ascii "

  packet
A

{	match k
    as
    n{
	""\
""  : B,
	[

    ""\
""
    ,
1  ]
	:
	C ,
[	1 , 
2
, 3
, 4  ,	5

,
	""\
""
    ] :D	, }
,
}

")).
Eval vm_compute in ("<<<M665>>>" ++ check (runes_of_ascii "MetaData u
    { } MetaData o
{ float uint8x
`100% of %d` ,repeatCount u8x, string_ leftPad
, i32
    Foo , int64 x `two words`")).
Eval vm_compute in ("<<<M1692>>>" ++ check (runes_of_ascii "packet B {
    u8 a,
}

root packet P {
    u8 K,
    u8 L @lengthOf(Body),
    match K as Body {
        1 : B,
    },
}")).
Eval vm_compute in ("<<<M1971>>>" ++ check (runes_of_ascii "
options

    {  x

    =	""a\\"" ; }
    MetaData u	{
u8  falsey 
,

crc
    zchar

,
    }
    /// triple
 
")).
Eval vm_compute in ("<<<M1232>>>" ++ check (runes_of_ascii "options { } options { MetaDataX = char ; } MetaData Pad { i8 metadata
// c
, string stringy , int8 As `{ , }` , }")).
Eval vm_compute in ("<<<M650>>>" ++ check (runes_of_ascii "MetaData u
    { } MetaData o
{ float uint8x
`100% of %d` ,repeatCount u8x, string_ leftPad
, i32
    Foo ,")).
Eval vm_compute in ("<<<M1287>>>" ++ check (runes_of_ascii "options {
    LittleEndian = true;
}
root packet P {
    u16 a,
    u32 Sum @calculatedFrom(""CRC32""),
}
")).
Eval vm_compute in ("<<<M948>>>" ++ check (runes_of_ascii "packet A {
    Inner {
        u8 x `x
`,
        Deep {
            u8 y `x
`,
        },
    },
}")).
Eval vm_compute in ("<<<M1843>>>" ++ check (runes_of_ascii "packet A {
    B b `tab
        	x`,
    B `tab
        	x`,
    repeat B bs `tab
        	x`,
}")).
Eval vm_compute in ("<<<M868>>>" ++ check (runes_of_ascii "packet A {
  match k as n {
    [1, ""bb"", 007, ""d"", 5, ""f"", 7, ""h"", 9] : B
    2 : C
  },
}")).
Eval vm_compute in ("<<<M1867>>>" ++ check (runes_of_ascii "// `tick` ""quote"" 'q'
options {
    stringy = ""\" ++ [233]%N ++ runes_of_ascii """
    float = """ ++ [233]%N ++ runes_of_ascii "t" ++ [233]%N ++ runes_of_ascii """
    trueish = u8
}")).
Eval vm_compute in ("<<<M842>>>" ++ check (runes_of_ascii "packet A {
  match k as n {
    [1, ""bb"", 007, ""d"", 5, ""f"", 7] : B
    2 : C
  },
}")).
Eval vm_compute in ("<<<M832>>>" ++ check (runes_of_ascii "packet A {
  match k as n {
    [1, 22, ""c c"", 4, 5, ""f""] : B,
    2 : C
  },
}")).
Eval vm_compute in ("<<<M101>>>" ++ check (runes_of_ascii "MetaData
    u128
    {matchKey i64_
    , BodyLength T ,	msg_type body, }")).
Eval vm_compute in ("<<<M610>>>" ++ check (runes_of_ascii "MetaData u
    { } MetaData o
{ float uint8x
`100% of %d` ,repeatCount")).
Eval vm_compute in ("<<<M1887>>>" ++ check (runes_of_ascii "// top
options {
    // c1
    A = ""// no comment""
    // c4
}
// c5")).
Eval vm_compute in ("<<<M1861>>>" ++ check (runes_of_ascii "
packet

A { 
match

k
	as n
	{1  :  B	, 
    // c

} ,
    } ")).
Eval vm_compute in ("<<<M600>>>" ++ check (runes_of_ascii "MetaData u
    { } MetaData o
{ float uint8x
`100% of %d`")).
Eval vm_compute in ("<<<M89>>>" ++ check (runes_of_ascii "packet _x {@tag(
10	) float32
roots `u8 x,`
    , }
")).
Eval vm_compute in ("<<<M1535>>>" ++ check (runes_of_ascii "root 
packet
A

{	u8 x `100% of %s %d %v`	, }

")).
Eval vm_compute in ("<<<M931>>>" ++ check (runes_of_ascii "MetaData M {
    u8 x `
`,
    T t `
`,
}")).
Eval vm_compute in ("<<<M1115>>>" ++ check (runes_of_ascii "packet A { u8 x,// a


// b

 u8 y, }")).
Eval vm_compute in ("<<<M736>>>" ++ check (runes_of_ascii "1WT[xl4v9M!>1/;cBK[4~4^pGS{F8PS~T'm")).
Eval vm_compute in ("<<<M1872>>>" ++ check (runes_of_ascii "packet A {
    u8 x `d" ++ [12]%N ++ runes_of_ascii "`,// c" ++ [12]%N ++ runes_of_ascii "
}")).
Eval vm_compute in ("<<<M939>>>" ++ check (runes_of_ascii "packet A {
    u8 x `a

b`,
}")).
Eval vm_compute in ("<<<M1463>>>" ++ check (runes_of_ascii "MetaData tag {
    // c
}")).
Eval vm_compute in ("<<<M137>>>" ++ check (runes_of_ascii "MetaData f32a {
    }
")).
Eval vm_compute in ("<<<M1080>>>" ++ check (runes_of_ascii "packet A {
}
// c x")).
Eval vm_compute in ("<<<M1066>>>" ++ check (runes_of_ascii "// c" ++ [8203]%N ++ runes_of_ascii "
packet A {
}")).
Eval vm_compute in ("<<<M1167>>>" ++ check (runes_of_ascii "packet // c
x { }")).
Eval vm_compute in ("<<<M1438>>>" ++ check (runes_of_ascii "packet A {
}")).
Eval vm_compute in ("<<<M1074>>>" ++ check (runes_of_ascii "// c" ++ [6158]%N)).
