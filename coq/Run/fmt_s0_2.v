From FP Require Import Lexer Parser ShowPT Digest Formatter.
From Coq Require Import String List NArith.
Import ListNotations.
Open Scope string_scope.
Set Printing Width 100000000.
Set Printing Depth 100000000.
Definition show_fres (r : fres) : string :=
  match r with
  | FOk s => "OK:" ++ sh_escaped s ""
  | FErr s => "ERR:" ++ sh_escaped s ""
  | FPanic p => "PANIC:" ++ p
  end.
Definition check (rs : list rune) : string := digest (show_fres (format_res rs)).
Definition full (rs : list rune) : string := show_fres (format_res rs).
Eval vm_compute in ("<<<M1354>>>" ++ check (runes_of_ascii "// top
options // c0
{ // c1
StringPrefixLenType = // c3a
  // c3b
u64
    // c4
; // c5
ArrayPrefixLenType // c6
= u32 // c8
;
    // c9
FixedStringPadFromLeft
    // c10
= // c11
false // c12a
  // c12b
; } // c14a
  // c14b
packet // c15a
  // c15b
Party { zchar[ 7 // c19a
  // c19b
]
    // c20
OrderId
    // c21
,
    // c22
InTail6 // c23
{ repeat // c25
char[ // c26a
  // c26b
1 ] msgKind , // c30a
  // c30b
char[ 3 // c32a
  // c32b
] // c33a
  // c33b
Tail // c34
,
    // c35
char[ 3 // c37a
  // c37b
] Flags
    // c39
, // c40
i16
    // c41
tag7 // c42a
  // c42b
, // c43
} // c44
, @rightPad // c46a
  // c46b
(
    // c47
'0' // c48
) // c49
char[ // c50a
  // c50b
12
    // c51
] // c52
clOrdID // c53
, // c54a
  // c54b
}
    // c55
packet // c56a
  // c56b
Quote // c57
{
    // c58
@leftPad // c59a
  // c59b
( // c60a
  // c60b
'0' // c61a
  // c61b
) // c62
char[ 11
    // c64
] price // c66
,
    // c67
repeat
    // c68
InCount7 { // c70
i32
    // c71
x , // c73a
  // c73b
Party , u8
    // c76
Ref // c77a
  // c77b
, // c78a
  // c78b
u8 tag7 , // c81
} // c82
, // c83
char[] // c84a
  // c84b
seqNo ,
    // c86
Party // c87a
  // c87b
, // c88
}
    // c89
packet Logon
    // c91
{ @rightPad // c93a
  // c93b
( '\x00' ) // c96a
  // c96b
char[ // c97a
  // c97b
5 // c98
]
    // c99
Note , // c101a
  // c101b
i16
    // c102
sym
    // c103
, // c104a
  // c104b
InPrice72 // c105a
  // c105b
{ char[ // c107
9
    // c108
] // c109
Ref ,
    // c111
zchar[ // c112
1
    // c113
]
    // c114
venue ,
    // c116
} // c117a
  // c117b
, // c118
char[]
    // c119
clOrdID
    // c120
, // c121a
  // c121b
} root // c123a
  // c123b
packet // c124
Reject {
    // c126
repeat
    // c127
Logon
    // c128
, // c129a
  // c129b
@leftPad // c130a
  // c130b
( // c131a
  // c131b
' ' ) // c133
char[ 4
    // c135
] seqNo , zchar[ 5 // c140a
  // c140b
] // c141
Acct // c142a
  // c142b
,
    // c143
u32 x
    // c145
,
    // c146
u16
    // c147
f1 @lengthOf(
    // c149
Body // c150a
  // c150b
) // c151
,
    // c152
match // c153
x
    // c154
as // c155
Body // c156a
  // c156b
{
    // c157
[ // c158
169 // c159
,
    // c160
74 // c161
] : // c163a
  // c163b
Quote // c164
, 45 // c166a
  // c166b
: // c167a
  // c167b
Party
    // c168
, // c169
7
    // c170
: Logon , // c173a
  // c173b
} ,
    // c175
}
    // c176
")).
Eval vm_compute in ("<<<M1582>>>" ++ check (runes_of_ascii "options {

    StringPrefixLenType 
=

    u16 ; ArrayPrefixLenType= u16
;  }  packet SampleBinary {
uint16
    MsgType

`" ++ [28040; 24687; 31867; 22411]%N ++ runes_of_ascii "`,
u16 BodyLenght@lengthOf(
Body)
    `" ++ [28040; 24687; 20307; 38271; 24230]%N ++ runes_of_ascii "`
	,match
	MsgType
as Body  { 1
:

    Logon	, 2

:
	Logout ,3  : Heartbeat ,
4
: RiskControlRequest
,5
:RiskControlResponse
,	},
@calculatedFrom(
""CRC32"")	u32
    Ckecksum`" ++ [26657; 39564; 21644]%N ++ runes_of_ascii "`	,	}
	packet
	Logon	{
@leftPad

    (	'0'
	)
char[ 10

]
    UserName
    `" ++ [29992; 25143; 21517]%N ++ runes_of_ascii "`	,string Password	`" ++ [23494; 30721]%N ++ runes_of_ascii "`

    ,  uint64
ClientId`" ++ [23458; 25143; 31471]%N ++ runes_of_ascii "ID`, u16
HeartbeatInterval  `" ++ [24515; 36339; 38388; 38548]%N ++ runes_of_ascii "` ,} 
packet	Logout {

@rightPad( '0'
	) char[
10 ]	UserName`" ++ [29992; 25143; 21517]%N ++ runes_of_ascii "` ,
uint64	ClientId`" ++ [23458; 25143; 31471]%N ++ runes_of_ascii "ID`

,}
    packet 
Heartbeat	{
}	packet
	RiskControlRequest	{
string

    UniqueOrderId`" ++ [21807; 19968; 35746; 21333; 21495]%N ++ runes_of_ascii "` ,
    char[16
	]
	ClOrdID

    `" ++ [23458; 25143; 35746; 21333; 21495]%N ++ runes_of_ascii "` 
,

    char[

3
]
MarketID

`" ++ [24066; 22330]%N ++ runes_of_ascii "id` 
,

    char[ 12
    ]
SecurityID`" ++ [35777; 21048; 20195; 30721]%N ++ runes_of_ascii "`
, 
char
	Side

    `" ++ [20080; 21334; 26041; 21521]%N ++ runes_of_ascii "` , char
OrderType`" ++ [35746; 21333; 31867; 22411]%N ++ runes_of_ascii "`
	, u64
	Price
	`" ++ [20215; 26684]%N ++ runes_of_ascii "`	,

    u32
    Qty

`" ++ [25968; 37327]%N ++ runes_of_ascii "`

, repeat	string	ExtraInfo

    `" ++ [38468; 21152; 20449; 24687]%N ++ runes_of_ascii "`
,	repeat SubOrder

    {
	char[ 16

]
	ClOrdID
`" ++ [23376; 35746; 21333; 21495]%N ++ runes_of_ascii "` ,	u64 Price`" ++ [23376; 35746; 21333; 20215; 26684]%N ++ runes_of_ascii "` ,
u32 Qty 
`" ++ [23376; 35746; 21333; 25968; 37327]%N ++ runes_of_ascii "`,} ,
    }
packet

RiskControlResponse  {

    string UniqueOrderId  `" ++ [21807; 19968; 35746; 21333; 21495]%N ++ runes_of_ascii "`
, i32 Status
    `" ++ [29366; 24577]%N ++ runes_of_ascii "` ,
string
Msg
	`" ++ [32467; 26524; 20449; 24687]%N ++ runes_of_ascii "`
    ,
	repeat Detail ,
}
	packet
    Detail 
{

    string  RuleName `" ++ [35268; 21017; 21517; 31216]%N ++ runes_of_ascii "` 
, u16
    Code`" ++ [21407; 22240; 20195; 30721]%N ++ runes_of_ascii "`
,
	}

")).
Eval vm_compute in ("<<<M1956>>>" ++ check (runes_of_ascii "packet T {
    match repeatCount as Packet {
        ""packet"" : msg_type,
        00 : Foo,
        """ ++ [128512]%N ++ runes_of_ascii """ : trueish,
        """" : repeatCount,
        [4294967296, 65535] : u,
    },
    @calculatedFrom(""a\\"")
    float32 len @lengthOf(string_),
    stringy Pad,
    roots {
        repeat x_y_z `// not a comment`,
        T `" ++ [233]%N ++ runes_of_ascii "`,
    },
    @tag(007)
    _x {
        // " ++ [128512]%N ++ runes_of_ascii " emoji
        char[] body @calculatedFrom(""" ++ [233]%N ++ runes_of_ascii "t" ++ [233]%N ++ runes_of_ascii """),
        repeat Pad ``,
    },
    match u as packetx {
        // `tick` ""quote"" 'q'
        [""// no comment"", 007] : T,
        [""\" ++ [233]%N ++ runes_of_ascii """] : u8x,
    },
    @rightPad()
    int8 _x,
    @lengthOf(A)
    match crc as metadata {
        [00, ""a\""b"", 3, 1, 10] : Packet,
        //	t
        [4294967296, ""abc"", """"] : a1,
        """ ++ [28040; 24687]%N ++ runes_of_ascii """ : repeatCount,
    },
}

options {
}

MetaData Header {
    trueish Pad,
}

MetaData Z9_ {
    char[] metadata,
    // " ++ [128512]%N ++ runes_of_ascii " emoji
    // packet A { u8 x, }
    Header A `doc`,//x
    uint32 packetx,
    int16 uint8x,
    Header leftPad,// packet A { u8 x, }
}
// trailing space ")).
Eval vm_compute in ("<<<M196>>>" ++ check (runes_of_ascii "root  packet u { match //x
T as body// c
{
[
""a\""b""
    , 3 ] :
stringy  ""a	b"" : charz // a // b
,
    10:  lengthOf// " ++ [128512]%N ++ runes_of_ascii " emoji
, ""CRC32"" : falsey
,
    0123456789 : _x ,
    } , body @lengthOf( i64_ )
, u64 chars
`u8 x,` ,T {i64_ string_,
    u32 metadata , zchar[ 1
]Z9_,}
    // c
    ,@calculatedFrom( ""a\\"" ) rootA // " ++ [128512]%N ++ runes_of_ascii " emoji
x_y_z
`u8 x,` ,
    zchar[ 007 ]body @calculatedFrom(
""\n""
) ,
    @leftPad (
'0') @rightPad
    ( '0' )
@calculatedFrom( """ ++ [233]%N ++ runes_of_ascii "t" ++ [233]%N ++ runes_of_ascii """
    )	repeat uint64 A	, repeat  u8x
    { match
o
as
x
    {
    10	:charz
// " ++ [27880; 37322]%N ++ runes_of_ascii "
// " ++ [27880; 37322]%N ++ runes_of_ascii "
,""a	b"": matchKey
, ""x y""
:
    trueish ,[ """ ++ [233]%N ++ runes_of_ascii "t" ++ [233]%N ++ runes_of_ascii """ ] : zchar,""1"" : charz // " ++ [27880; 37322]%N ++ runes_of_ascii "
,
[ ""a\""b"" ,
""abc""
, ""a\\"", ""abc"" ,
// packet A { u8 x, }
// " ++ [128512]%N ++ runes_of_ascii " emoji
""""
// packet A { u8 x, }
/// triple
] : u8x, } ,	},repeat falsey { rootA
    tag ,
    zchar[/// triple
0 ] falsey ,  }
    , charz a1 `{ , }`
, } root
packet /// triple
Header{}
")).
Eval vm_compute in ("<<<M1339>>>" ++ check (runes_of_ascii "// top
options // c0
{ // c1
LittleEndian
    // c2
= // c3
true
    // c4
; // c5a
  // c5b
StringPrefixLenType =
    // c7
u16
    // c8
; FixedStringPadChar = ' ' // c12
;
    // c13
}
    // c14
packet
    // c15
Logon // c16
{
    // c17
@leftPad ( '0' // c20
)
    // c21
char[
    // c22
10 // c23
] // c24
tag7 , // c26
} root packet
    // c29
Ack { int32 // c32a
  // c32b
Px // c33
, // c34
uint16
    // c35
count // c36
, // c37
string // c38
Qty // c39
,
    // c40
string OrderId
    // c42
, string // c44a
  // c44b
Flags ,
    // c46
u8 // c47a
  // c47b
x // c48a
  // c48b
,
    // c49
match x // c51
as // c52a
  // c52b
Body // c53
{ // c54a
  // c54b
[ 58 , // c57a
  // c57b
169 // c58a
  // c58b
]
    // c59
: // c60
Logon // c61a
  // c61b
, // c62a
  // c62b
} , } // c65
")).
Eval vm_compute in ("<<<M93>>>" ++ check (runes_of_ascii "packet float { char[]
    u8x
@lengthOf( roots ) ,
}MetaData leftPad	{ string
    // `tick` ""quote"" 'q'
    a1, }root
packet // " ++ [27880; 37322]%N ++ runes_of_ascii "
pack { falsey,
    /// triple
    match Logon
as // " ++ [128512]%N ++ runes_of_ascii " emoji
trueish
{""packet""
    : Foo ,"""" : len, 0123456789: i64_ , ""it's"" : packetx
    ,
    255
    : len
, }
    , repeat
As As `" ++ [233]%N ++ runes_of_ascii "` , @tag( 3  ) uint32 a1
, repeat  zchar[ 4294967296]
pack	,@leftPad (' ' )  zchar  @lengthOf( string_ ) `// not a comment` , repeat int ,
repeat
i8i8 // " ++ [27880; 37322]%N ++ runes_of_ascii "
{ u64
    // a // b
    tag `say ""hi""`	,u8x , char trueish  , repeat // packet A { u8 x, }
float32
    stringy `line1
line2` ,} ,match o
as	o { 007  : float },
// packet A { u8 x, }
// c
repeat
    Pad ,
// " ++ [27880; 37322]%N ++ runes_of_ascii "
// trailing space 
}")).
Eval vm_compute in ("<<<M1122>>>" ++ check (runes_of_ascii "// top
options // c0
{ // c1
uint8x // c2
= // c3
007 // c4
; // c5
lengthOf // c6
= // c7
i8 // c8
; // c9
} // c10
packet // c11
i64_ // c12
{ // c13
@calculatedFrom( // c14
""1"" // c15
) // c16
@tag( // c17
3 // c18
) // c19
@lengthOf( // c20
rootA // c21
) // c22
repeat // c23
int8 // c24
Packet // c25
`u8 x,` // c26
, // c27
} // c28
root // c29
packet // c30
stringy // c31
{ // c32
@rightPad // c33
( // c34
' ' // c35
) // c36
repeat // c37
char[ // c38
10 // c39
] // c40
repeatCount // c41
, // c42
@tag( // c43
255 // c44
) // c45
float64 // c46
msg_type // c47
@calculatedFrom( // c48
""packet"" // c49
) // c50
, // c51
} // c52
")).
Eval vm_compute in ("<<<M1114>>>" ++ check (runes_of_ascii "// top
packet
    // c0
float
    // c1
{
    // c2
@rightPad
    // c3
(
    // c4
)
    // c5
rootA
    // c6
@lengthOf(
    // c7
trueish
    // c8
)
    // c9
,
    // c10
stringy
    // c11
@lengthOf(
    // c12
matchKey
    // c13
)
    // c14
,
    // c15
char[
    // c16
4294967296
    // c17
]
    // c18
pack
    // c19
@lengthOf(
    // c20
uint8x
    // c21
)
    // c22
,
    // c23
}
    // c24
root
    // c25
packet
    // c26
trueish
    // c27
{
    // c28
repeat
    // c29
uint64
    // c30
u128
    // c31
`line1
line2`
    // c32
,
    // c33
}
    // c34
")).
Eval vm_compute in ("<<<M1115>>>" ++ check (runes_of_ascii "packet float
    // c1
{ // c2
@rightPad // c3a
  // c3b
( // c4a
  // c4b
) // c5a
  // c5b
rootA // c6
@lengthOf( // c7a
  // c7b
trueish // c8
)
    // c9
,
    // c10
stringy // c11a
  // c11b
@lengthOf( // c12a
  // c12b
matchKey )
    // c14
, // c15a
  // c15b
char[ 4294967296 ]
    // c18
pack @lengthOf(
    // c20
uint8x
    // c21
) // c22a
  // c22b
,
    // c23
} // c24
root // c25
packet trueish {
    // c28
repeat uint64
    // c30
u128
    // c31
`line1
line2` // c32
,
    // c33
}
    // c34
")).
Eval vm_compute in ("<<<M1549>>>" ++ check (runes_of_ascii "
// packet A { u8 x, }
		MetaData roots

{ char[

    00
    ]	lengthOf

``
	,
As
stringy
    ,

    x 
calculatedFrom

    ,
}packet

i8i8 
{ crc `crlf
line` , @rightPad // a // b
	(

    )
zchar[

    42
]falsey  // trailing space 
    , 
    /// triple
    @tag(
42
)u32

    leftPad , 
@tag(42)
a1
@lengthOf(
	Z9_ )
, match
leftPad  as

    crc  {
[
    ""a\""b""  , 1
, 255
]
	:trueish

,3  :

    float ,

    0: lengthOf ,
	}	,
} ")).
Eval vm_compute in ("<<<M1482>>>" ++ check (runes_of_ascii "
packet Frame {
u8

HK,
u8
	BK
,

u8
TK
,match
	HK as
	Hdr
{
1  :HdrA

    , 
2:
HdrB
,} 
,
match
    BK as Body
{  1 : BodyA ,

2 : 
BodyB , },
    match

TK
    as	Trl {
	1

:TrlA  ,
}	,  }

    packet

    HdrA {

u8  a,
    }packet

HdrB {u16
b , 
} packet
BodyA

    {

    u32
c , }packet BodyB{u64
d  ,
	}

    packet
TrlA	{
u8 e

,
    }root
    packet
Msg{

Frame
	,
    u8 x
,

    }
")).
Eval vm_compute in ("<<<M1562>>>" ++ check (runes_of_ascii "MetaData Pad {
    i16 repeatCount,// c
    f32 pack `a\`,
}

packet f32a {
    @lengthOf(metadata)
    match msg_type as matchKey {
        00 : rootA,
    },
    @rightPad()
    match repeatCount as len {
        [""x y"", 10] : As,
        42 : i64_,
        """ ++ [128512]%N ++ runes_of_ascii """ : BodyLength,
        7 : f32a,
    },
    @lengthOf(BodyLength)
    repeat Foo `line1
    line2`,
}// @lengthOf(")).
Eval vm_compute in ("<<<M245>>>" ++ check (runes_of_ascii "MetaData float{ int16
// c
// " ++ [128512]%N ++ runes_of_ascii " emoji
chars , int8 _x
, char	charz ,
Header  u8x
    , u16 _x
,
    // @lengthOf(
    x_y_z repeatCount ,}	packet Foo
{ @tag(//	t
1  )
string Logon	`
`
, }//x
options{ zchar =  ' ' trueish = //x
""""
    leftPad =255 ;
}	root packet options1 {u64 packetx// `tick` ""quote"" 'q'
@calculatedFrom(""// no comment""  ) ``,}
")).
Eval vm_compute in ("<<<M1652>>>" ++ check (runes_of_ascii "packet

Logon	{
	o

Header	, Header  ,
@lengthOf(

u
    )
char[	255	]

tag  `tab	here`
,  char[] falsey	, @lengthOf(

    zchar

)
    @rightPad  (  )float
	roots  // @lengthOf(
    , @calculatedFrom(""// no comment""
	)i64

    u8x,}
	options {
metadata
=	'0' ;_x
    = 
4294967296 ;
Packet=
'0'

    ; 
}
")).
Eval vm_compute in ("<<<M1519>>>" ++ check (runes_of_ascii "
options

    {  LittleEndian
=
    true; }packet
    Logon{
    u8	x

    ,  string
user , }
    packet 
Logout 
{ u16
	reason ,} packet
    Empty {	} 
root packet	Frame
{
u16	MsgType, u8 BodyLen
	@lengthOf(  Body
    ) ,	u8 flags
    ,  Logon Body
,  u32 trailer
,  } ")).
Eval vm_compute in ("<<<M1387>>>" ++ check (runes_of_ascii "packet Sub
	{
	u8
	a ,  @calculatedFrom(
""CRC16""

)
    i32  SubSum
,

    }root  packet
    Frame

{u16
	MsgType
	,
u16
	BodyLen

@lengthOf(	Body)
,

    Sub	Body ,
string
	note ,
@calculatedFrom(""CRC16"")
    i32 
Checksum  , u8 tail , 
} ")).
Eval vm_compute in ("<<<M1505>>>" ++ check (runes_of_ascii "// top
MetaData leftPad {
    // c2
    chars MetaDataX,
    // c5
}

// c6
packet repeatCount {
    // c9
    char[255] uint8x `" ++ [233]%N ++ runes_of_ascii "`,
    // c15
}

// c16
MetaData pack {
    // c19
    As Foo,
    // c22
}
// c23")).
Eval vm_compute in ("<<<M265>>>" ++ check (runes_of_ascii "MetaData
    zchar
{
uint8 _x
// `tick` ""quote"" 'q'
//
`doc` ,
    float64 metadata`doc` // " ++ [128512]%N ++ runes_of_ascii " emoji
, zchar[ 42
    ]
// packet A { u8 x, }
// c
x_y_z , zchar[ 3 ]Logon `{ , }`
, }

")).
Eval vm_compute in ("<<<M1702>>>" ++ check (runes_of_ascii "
MetaData
    leftPad

{
	chars

    MetaDataX
    ,
}packet repeatCount
    {
    char[	// c
    	255

    ]uint8x`" ++ [233]%N ++ runes_of_ascii "` 
, } 
MetaData
    pack	{As
    Foo
,
	}

")).
Eval vm_compute in ("<<<M187>>>" ++ check (runes_of_ascii "
options// " ++ [27880; 37322]%N ++ runes_of_ascii "
{
f32a= ""a\""b""//x
; Z9_ = // " ++ [27880; 37322]%N ++ runes_of_ascii "
""`tick`""	Logon
    // " ++ [27880; 37322]%N ++ runes_of_ascii "
    =""CRC32""u128= f64 ;rootA	=
false ;} //	t
packet lengthOf {
} MetaData len { }
")).
Eval vm_compute in ("<<<M523>>>" ++ check (runes_of_ascii "packet uint8x
{ match pack
    as msg_type	{
    0123456789 :	float
}
,
} packet //	t
a1
    { } options {packetx
    = '\x00'	; u128= MetaData  ; }
")).
Eval vm_compute in ("<<<M536>>>" ++ check (runes_of_ascii "packet uint8x
{ match pack
    as msg_type	{
    0123456789 :	float
}
,
} packet //	t
a1
    { } options {packetx
    = '\x00'	/; u128= ""a	b""  ; }
")).
Eval vm_compute in ("<<<M477>>>" ++ check (runes_of_ascii "packet uint8x
{ match pack
    as msg_type	{
    0123456789 :	float
}
,
} packet //	t
a1
    { options } {packetx
    = '\x00'	; u128= ""a	b""  ; }
")).
Eval vm_compute in ("<<<M1601>>>" ++ check (runes_of_ascii "
MetaData leftPad 
{
chars MetaDataX 
, }  packet 
    // c
  repeatCount

{  char[
    255
    ]
    uint8x	`" ++ [233]%N ++ runes_of_ascii "` 
, } 
MetaData

pack{
	As
Foo 
,
}")).
Eval vm_compute in ("<<<M661>>>" ++ check (runes_of_ascii "// @lengthOf(
packet i8i8 { u128 o o , }
options { MetaDataX = true;
    BodyLength =""packet"" x_y_z= 007
crc //x
= ""abc"" ;
    msg_type =
i16 }")).
Eval vm_compute in ("<<<M662>>>" ++ check (runes_of_ascii "// @lengthOf(
packet i8i8 { u128 o , }
{ options MetaDataX = true;
    BodyLength =""packet"" x_y_z= 007
crc //x
= ""abc"" ;
    msg_type =
i16 }")).
Eval vm_compute in ("<<<M1777>>>" ++ check (runes_of_ascii "  packet	u  {repeat 
    // " ++ [128512]%N ++ runes_of_ascii " emoji

A	,
    @lengthOf(lengthOf  )

repeat
	i64

i64_
,  //
    zchar[	3 	 // a // b
      ]
    body
, }

")).
Eval vm_compute in ("<<<M1864>>>" ++ check (runes_of_ascii "
packet  B

{
u8 a

, 
}
root packet	P
{
u8
K
    ,u64  L
@lengthOf( Body )
,
    match	K as Body

    {
1 :  B ,

}
    , 
}
")).
Eval vm_compute in ("<<<M1419>>>" ++ check (runes_of_ascii "packet Logon {
    repeatCount @lengthOf(roots),
    @tag(0)
    repeat zchar[007] crc,
    rootA a1 `{ , }`,
    string_ `" ++ [233]%N ++ runes_of_ascii "`,
}")).
Eval vm_compute in ("<<<M680>>>" ++ check (runes_of_ascii "// @lengthOf(
packet i8i8 { u128 o , }
options { MetaDataX = true;
    BodyLength =""packet"" x_y_z= 007
crc //x
= ""abc""")).
Eval vm_compute in ("<<<M1164>>>" ++ check (runes_of_ascii "MetaData leftPad { chars MetaDataX , } packet repeatCount { char[
// c
255 ] uint8x `" ++ [233]%N ++ runes_of_ascii "` , } MetaData pack { As Foo , }")).
Eval vm_compute in ("<<<M1862>>>" ++ check (runes_of_ascii "
packet  A 
{
match

k as 
n

{	[ 
1

,  ""bb""  ,007
	,
""d""

    , 
5,

    ""f""

] :

    B,
2

: C }
,
    } ")).
Eval vm_compute in ("<<<M1719>>>" ++ check (runes_of_ascii "options {
    metadata = '\x00';
    u128 = ""CRC32"";
    charz = ' '
    options1 = 00;
}

packet string_ {
}")).
Eval vm_compute in ("<<<M352>>>" ++ check (runes_of_ascii "packet _x {
} // trailing space 
options
    { repeatCount
    =42 //x
;Pad = true;
x_y_z =
65535 ;}
")).
Eval vm_compute in ("<<<M373>>>" ++ check (runes_of_ascii "  MetaData leftPad { /// triple
char[] body,  As options1
//
/// triple
,
o
    //x
    i64_
, }
")).
Eval vm_compute in ("<<<M1254>>>" ++ check (runes_of_ascii "
packet
    Inner {
    u8 a

,
} root
	packet P

    {  repeat
    Inner items,	u8 
x	, } ")).
Eval vm_compute in ("<<<M1731>>>" ++ check (runes_of_ascii "packet body {
    match Logon as _x {
        4294967296 : _x,
        """ ++ [28040; 24687]%N ++ runes_of_ascii """ : u128,
    },
}")).
Eval vm_compute in ("<<<M640>>>" ++ check (runes_of_ascii "
packet
    asx {match u128 as lengthOf
{
//	t
// `tick` ""quote"" 'q'
$255 : x ,
    } ,	}")).
Eval vm_compute in ("<<<M597>>>" ++ check (runes_of_ascii "
packet
    asx {match u128 as lengthOf
{
//	t
// `tick` ""quote"" 'q'
255  x ,
    } ,	}")).
Eval vm_compute in ("<<<M860>>>" ++ check (runes_of_ascii "packet A {
  match k as n {
    [1, 22, ""c c"", 4, 5, ""f"", 7, 8] : B,
    2 : C
  },
}")).
Eval vm_compute in ("<<<M582>>>" ++ check (runes_of_ascii "
packet
    asx {match u128 as 
{
//	t
// `tick` ""quote"" 'q'
255 : x ,
    } ,	}")).
Eval vm_compute in ("<<<M1913>>>" ++ check (runes_of_ascii "packet A {
    match k as n {
        [1, 22, 007] : B,
        2 : C,
    },
}")).
Eval vm_compute in ("<<<M1432>>>" ++ check (runes_of_ascii "packet Inner {
    u8 a,
}

root packet P {
    Inner ref_obj,
    u8 x,
}")).
Eval vm_compute in ("<<<M794>>>" ++ check (runes_of_ascii "packet A {
  match k as n {
    [""a"", 22, ""c c""] : B
    2 : C
  },
}")).
Eval vm_compute in ("<<<M167>>>" ++ check (runes_of_ascii "packet msg_type { repeat// " ++ [27880; 37322]%N ++ runes_of_ascii "
zchar[  007] Logon `two words`, }
")).
Eval vm_compute in ("<<<M314>>>" ++ check (runes_of_ascii "root packet string_{
char[] matchKey ,
} packet x {
    } 	 ")).
Eval vm_compute in ("<<<M1745>>>" ++ check (runes_of_ascii "packet calculatedFrom {
    repeat string Foo `{ , }`,
}")).
Eval vm_compute in ("<<<M1204>>>" ++ check (runes_of_ascii "packet body {
// c
i32 f32a `{ , }` , } options { }")).
Eval vm_compute in ("<<<M1243>>>" ++ check (runes_of_ascii "root packet P {
    repeat char cs,
    u8 x,
}
")).
Eval vm_compute in ("<<<M596>>>" ++ check (runes_of_ascii "
packet
    asx {match u128 as lengthOf
{")).
Eval vm_compute in ("<<<M1637>>>" ++ check (runes_of_ascii "packet A {
    u8 x `a
        b`,
}")).
Eval vm_compute in ("<<<M1533>>>" ++ check (runes_of_ascii "

  packet
A{ u8

x  `a
b` 
, }

")).
Eval vm_compute in ("<<<M1833>>>" ++ check (runes_of_ascii "

  // c 	
    packet 
A {
	}
")).
Eval vm_compute in ("<<<M1884>>>" ++ check (runes_of_ascii "
packet A

{ 
} 
    // c" ++ [65279]%N ++ runes_of_ascii "
 
")).
Eval vm_compute in ("<<<M1399>>>" ++ check (runes_of_ascii "// c
    MetaData	u{ }
")).
Eval vm_compute in ("<<<M1064>>>" ++ check (runes_of_ascii "packet A {
}// a// b")).
Eval vm_compute in ("<<<M1135>>>" ++ check (runes_of_ascii "MetaData u {
// c
}")).
Eval vm_compute in ("<<<M1032>>>" ++ check (runes_of_ascii "// c" ++ [11]%N ++ runes_of_ascii "
packet A {
}")).
Eval vm_compute in ("<<<M1024>>>" ++ check (runes_of_ascii "packet A {
}// c" ++ [8287]%N)).
Eval vm_compute in ("<<<M626>>>" ++ check (runes_of_ascii "
packet
    as")).
Eval vm_compute in ("<<<M758>>>" ++ check (runes_of_ascii "LE]u'")).
Eval vm_compute in ("<<<M730>>>" ++ check (runes_of_ascii "//")).
