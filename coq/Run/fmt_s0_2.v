From FP Require Import Lexer Parser ShowPT Digest Formatter.
From Coq Require Import String List NArith.
Import ListNotations.
Open Scope string_scope.
Set Printing Width 100000000.
Set Printing Depth 100000000.
Definition show_fres (r : fres) : string :=
  match r with
  | FOk s => "OK:" ++ sh_escaped s ""
  | FErr s => "ERR:" ++ sh_escaped s ""
  | FPanic p => "PANIC:" ++ p
  end.
Definition check (rs : list rune) : string := digest (show_fres (format_res rs)).
Definition full (rs : list rune) : string := show_fres (format_res rs).
Eval vm_compute in ("<<<M1654>>>" ++ check (runes_of_ascii "packet a1 {
    @rightPad(' ')
    @tag(255)
    @lengthOf(zchar)
    string MetaDataX @calculatedFrom(""CRC32"") `crlf
        line`,
    u8 A @lengthOf(charz),
    body,
    @rightPad('0')
    @lengthOf(charz)
    match repeatCount as Z9_ {
        0123456789 : metadata,
        """ ++ [233]%N ++ runes_of_ascii "t" ++ [233]%N ++ runes_of_ascii """ : float,
        // packet A { u8 x, }
        ""1"" : Logon,
    },
    x_y_z `" ++ [233]%N ++ runes_of_ascii "`,
    @calculatedFrom(""1"")
    match Header as body {
        4294967296 : MetaDataX,
        ""abc"" : packetx,
    },
    x_y_z @calculatedFrom(""\" ++ [233]%N ++ runes_of_ascii """),
    i64_ @calculatedFrom(""abc"") `
        `,
    @rightPad()
    //	t
    char float @lengthOf(trueish),
    @tag(42)
    @leftPad('\x00')
    @calculatedFrom(""\n"")
    repeat string tag,//x
}

packet tag {
    repeat T u `
        `,
    string u128 @calculatedFrom(""packet"") `u8 x,`,
    // trailing space 
    //x
    repeat f64 stringy `" ++ [233]%N ++ runes_of_ascii "`,
    u32 leftPad @lengthOf(float),
    uint32 i8i8 @lengthOf(f32a),
    int @calculatedFrom(""" ++ [233]%N ++ runes_of_ascii "t" ++ [233]%N ++ runes_of_ascii """),
    @calculatedFrom(""\n"")
    @leftPad('\x00')
    @rightPad()
    repeat pack `// not a comment`,
    @calculatedFrom(""1"")
    char[] string_,
    f64 calculatedFrom @lengthOf(pack) `tab	here`,
    @tag(00)
    int8 tag,
}

options {
    f32a = ""a	b""
    _x = false;
    _x = '0'
    o = false/// triple
}

packet falsey {
    @tag(007)
    string falsey,
    i64_ @lengthOf(crc),
    repeat u128 body,
    char[00] roots,/// triple
    metadata @lengthOf(packetx) `
        `,// trailing space 
    string_ BodyLength,
    @calculatedFrom(""it's"")
    repeat matchKey,
    metadata @calculatedFrom(""abc""),
    @tag(255)
    repeat Pad {
        char[] packetx,
        repeat o {
            int16 charz,
            packetx {
                i8 zchar,
            },
            char[10] x,
            repeat zchar[0123456789] pack,// c
        },
        int,
        i8 asx,
    },
}

packet leftPad {
    @tag(255)
    repeat uint16 msg_type,
    // c
    f32 trueish @calculatedFrom("""") `two words`,
    @leftPad('\x00')
    @lengthOf(leftPad)
    @lengthOf(asx)
    //	t
    zchar[1] roots @calculatedFrom(""abc""),
    pack @lengthOf(Z9_),
    @tag(65535)
    @lengthOf(Header)
    // c
    f64 tag,
    @tag(1)
    repeat u8x,
    match stringy as x {
        ""it's"" : Z9_,
        7 : u128,
        ""// no comment"" : trueish,
        00 : f32a,
        [3, 1, 00] : pack,
        """ ++ [28040; 24687]%N ++ runes_of_ascii """ : options1,
    },
    repeat u128 {
        repeat crc {
            int16 int,
        },
    },
    @leftPad(' ')
    // trailing space 
    repeat zchar[255] int `crlf
        line`,
    @tag(1)
    Logon roots `// not a comment`,
}")).
Eval vm_compute in ("<<<M279>>>" ++ check (runes_of_ascii "  root packet
    crc {	uint32
repeatCount //
@lengthOf( // a // b
MetaDataX	) `say ""hi""` ,
    @tag( 65535 ) A {
    u128 , u8x	{ repeatCount  @lengthOf( As )// c
,// packet A { u8 x, }
i32	_x@calculatedFrom(//	t
""" ++ [128512]%N ++ runes_of_ascii """	), } , } // c
,
@lengthOf(As ) @tag(  0 ) @tag(4294967296 ) string metadata ,
string lengthOf // `tick` ""quote"" 'q'
@lengthOf(f32a) , @tag( 3 )string packetx,	@lengthOf( Pad) @lengthOf( packetx ) BodyLength @calculatedFrom( ""a	b"" )
, repeat u8x
{ zchar[ 3 ]
    tag `doc` , match As as leftPad
    { [
    10 ,
3 , 7 ,
""abc"" , 42 // @lengthOf(
]
:
A
, } , match Header as falsey { 42
// `tick` ""quote"" 'q'
// trailing space 
:
    msg_type
    , 00
: A
1 :
charz ,""// no comment"" : int // @lengthOf(
,	0123456789 :chars , 4294967296
: x } ,
}
    /// triple
    , @tag(
10 ) @tag(//x
007 )
@calculatedFrom( ""`tick`""
    )i8i8 @lengthOf(
    //
    charz ),
    char[ 7] Header
, } packet
lengthOf // @lengthOf(
{match metadata
    // " ++ [128512]%N ++ runes_of_ascii " emoji
    as asx{ 7 // packet A { u8 x, }
: //
float  ,
    // " ++ [128512]%N ++ runes_of_ascii " emoji
    """ ++ [233]%N ++ runes_of_ascii "t" ++ [233]%N ++ runes_of_ascii """:
stringy
, """ ++ [28040; 24687]%N ++ runes_of_ascii """ :
BodyLength , 7 : leftPad , } , @lengthOf(MetaDataX
)repeat zchar[ 7 ]float , @tag( 0
    )matchKey @calculatedFrom(""packet""
    ) // packet A { u8 x, }
, }packet Pad{ options1 @lengthOf(rootA ),} root // c
packet BodyLength{
string uint8x
//
// " ++ [27880; 37322]%N ++ runes_of_ascii "
@lengthOf( Z9_) , } // c")).
Eval vm_compute in ("<<<M331>>>" ++ check (runes_of_ascii "packet o
// trailing space 
//x
{	repeat pack stringy `two words`	,
    char[	1 ]
leftPad , }
/// triple
// @lengthOf(
MetaData msg_type{ zchar[  1] Pad`" ++ [28040; 24687; 31867; 22411]%N ++ runes_of_ascii "` , uint32 //x
charz//
`a\`
,  A u8x `// not a comment` ,
    // `tick` ""quote"" 'q'
    } packet
options1
    {@calculatedFrom( """ ++ [233]%N ++ runes_of_ascii "t" ++ [233]%N ++ runes_of_ascii """
) @rightPad( )
Pad
@lengthOf(// packet A { u8 x, }
pack ) `` ,
match
    A
as
    a1 { 255  :
msg_type  ,
}
,
// " ++ [27880; 37322]%N ++ runes_of_ascii "
//
@lengthOf( tag )  @tag( 00 )@rightPad(' '
) match Header	as f32a { """" : float , } // @lengthOf(
, char[] T@calculatedFrom(
    // packet A { u8 x, }
    ""packet""	) , repeat asx /// triple
msg_type`crlf
line` , @calculatedFrom( ""\" ++ [233]%N ++ runes_of_ascii """ ) @tag( // trailing space 
7
)
int64 o
`line1
line2`,
    // trailing space 
    } // " ++ [128512]%N ++ runes_of_ascii " emoji
root
packet// packet A { u8 x, }
crc  { int8
body
@lengthOf( matchKey ) `two words` ,
    //	t
    @lengthOf( u8x )
zchar[
0123456789
    ] i8i8,
} MetaData  a1 { falsey _x
`
` ,
char[] body`" ++ [28040; 24687; 31867; 22411]%N ++ runes_of_ascii "` ,
// packet A { u8 x, }
//
zchar[ 42] trueish `
` , float trueish,  metadata //x
o `{ , }`, }")).
Eval vm_compute in ("<<<M1331>>>" ++ check (runes_of_ascii "  options { 
FixedStringPadFromLeft 
=	true;

FixedStringPadChar =
    '0' ;
} packet
Leg{	InPrice0 { 
repeat string clOrdID ,

    int16 msgKind
, 
zchar[

    5  ]	Px

    ,
} 
,
i16  f1 ,
repeat 
f64 Side2

    , string 
Acct	,
} 
packet Cancel { zchar[ 4

    ]clOrdID ,	string
	seqNo  ,

    Leg,	@leftPad
    ('0' ) char[ 11  ] OrderId 
,	}
    packet Quote  {
    repeat
	char[

4]
	sym 
,

    f64
	OrderId  ,
    repeat
Leg ,repeat
i64 f1 , int16 Note ,  zchar[3
	]
	count ,
	}root	packet Ack
{ @leftPad	(
' ')	char[

    10 ] 
sym
	, InPx60	{Cancel

,

repeat
char[  1
]

    f1 , string Tail,
    repeat

InNote55
    {  int8
	count, f64	f1,repeat  Cancel
    ,
} ,	char[] 
tag7

,	repeat

    string
msgKind ,
}
, u8
lastPx
	,
match 
lastPx as Body
{
152

:	Quote ,173 : Cancel ,

4
	:
Leg
, }

    ,	u16 Ref
@calculatedFrom( ""CRC32"")	, } ")).
Eval vm_compute in ("<<<M1321>>>" ++ check (runes_of_ascii "// top
packet // c0
P1
    // c1
{ // c2
u8
    // c3
a // c4a
  // c4b
,
    // c5
} // c6
packet
    // c7
P2 // c8
{ // c9a
  // c9b
P1 // c10
, } // c12a
  // c12b
packet // c13a
  // c13b
P3
    // c14
{
    // c15
P2
    // c16
, // c17
P1 , // c19
} // c20a
  // c20b
packet // c21
P4 // c22
{ // c23
repeat // c24a
  // c24b
P3
    // c25
, P2 , } root // c30a
  // c30b
packet // c31
P5 { // c33
P4
    // c34
,
    // c35
P3 // c36a
  // c36b
, P1
    // c38
,
    // c39
u8 K // c41
, // c42
match // c43
K // c44a
  // c44b
as
    // c45
Body // c46a
  // c46b
{ // c47a
  // c47b
4 : // c49a
  // c49b
P4 // c50
, // c51
3 :
    // c53
P3 // c54a
  // c54b
, // c55a
  // c55b
2 // c56a
  // c56b
:
    // c57
P2 ,
    // c59
1 : // c61a
  // c61b
P1 // c62
, // c63a
  // c63b
}
    // c64
, }
    // c66
")).
Eval vm_compute in ("<<<M312>>>" ++ check (runes_of_ascii "packet // packet A { u8 x, }
tag
    { @calculatedFrom(""x y"" ) lengthOf{ options1
    `
`,} , @tag( 7 )
int {
//x
// " ++ [27880; 37322]%N ++ runes_of_ascii "
char[ 007  ] // `tick` ""quote"" 'q'
calculatedFrom @lengthOf(
metadata
)  , tag @lengthOf( falsey
) ,	f32
    // " ++ [128512]%N ++ runes_of_ascii " emoji
    calculatedFrom
// `tick` ""quote"" 'q'
//
`{ , }` , i8i8
    {string
    i64_ @lengthOf( asx )	`it's` , u @calculatedFrom(  ""\n"" ) ,
    } ,	}
    ,
    @calculatedFrom(""abc"" //
)  @leftPad ( ' '
    )  uint64 calculatedFrom
,// " ++ [27880; 37322]%N ++ runes_of_ascii "
} packet o { Header ,
    @lengthOf(	i8i8
) float32
    Pad // c
,char[ 42 ]
leftPad
    @calculatedFrom(	"""" // " ++ [128512]%N ++ runes_of_ascii " emoji
)
    , @tag( 255 )
body
    u , } packet lengthOf{
// packet A { u8 x, }
// c
@tag(
    255 //x
) char[ 0123456789 ] o
`
` , }

")).
Eval vm_compute in ("<<<M6>>>" ++ check (runes_of_ascii "// `tick` ""quote"" 'q'
packet As
{ @rightPad ( '0' ) stringy
@lengthOf( calculatedFrom),	@tag( 10	) string uint8x `
` ,	match body // packet A { u8 x, }
as uint8x {
    ""it's"" :  rootA , [ 00 ] : leftPad
    ,
42 :	MetaDataX , ""a	b"" :  calculatedFrom
    255
:trueish	} , repeat	i64 Logon `tab	here` , } options {crc
= '\x00' ;}
packet x { @calculatedFrom(
""a\\""
    )
@tag( 42
) @leftPad	( '0' // c
) match o	as /// triple
x_y_z {// packet A { u8 x, }
[ """ ++ [128512]%N ++ runes_of_ascii """// trailing space 
, ""x y"" , // c
0123456789 ,""CRC32"" ,
//	t
// packet A { u8 x, }
""it's""
, 007
, 3, 007 // @lengthOf(
] :	Packet // c
[	255, ""x y""
    ] :x_y_z
    ,
} , }
// trailing space 
")).
Eval vm_compute in ("<<<M1114>>>" ++ check (runes_of_ascii "// top
packet
    // c0
float
    // c1
{
    // c2
@rightPad
    // c3
(
    // c4
)
    // c5
rootA
    // c6
@lengthOf(
    // c7
trueish
    // c8
)
    // c9
,
    // c10
stringy
    // c11
@lengthOf(
    // c12
matchKey
    // c13
)
    // c14
,
    // c15
char[
    // c16
4294967296
    // c17
]
    // c18
pack
    // c19
@lengthOf(
    // c20
uint8x
    // c21
)
    // c22
,
    // c23
}
    // c24
root
    // c25
packet
    // c26
trueish
    // c27
{
    // c28
repeat
    // c29
uint64
    // c30
u128
    // c31
`line1
line2`
    // c32
,
    // c33
}
    // c34
")).
Eval vm_compute in ("<<<M1875>>>" ++ check (runes_of_ascii "  MetaData  u128
	{// a // b
		string zchar 	 //x
`two words`
,
    u16

packetx`a\`  ,  char[ 1]

    Logon

, len
crc ,

char[7

] i8i8

,
	char[]
    calculatedFrom
	,
} // @lengthOf(
  MetaData  u	{
    u// " ++ [128512]%N ++ runes_of_ascii " emoji
  u128

    ,  //	t
      } 
root packet
    metadata
{ }
	options {
matchKey
=

    255
    ;x_y_z = 
007

    crc
= 
int16	;

zchar = 	 // c
	char[ 42] ;int=
true;}
    options
    {Header =
""" ++ [128512]%N ++ runes_of_ascii """
;

    len = ' ';	matchKey
=
	"""";
MetaDataX=' '

;  o 
=
'\x00'
;
	}  
  /// triple
")).
Eval vm_compute in ("<<<M301>>>" ++ check (runes_of_ascii "root packet A { repeat uint64 matchKey
    , char[]
    Packet , char[
    007 ] calculatedFrom , }
options{ Header =
007 ;
float =
    true} packet chars { repeat
chars ,@rightPad
    ( '0' ) chars f32a
    `line1
line2`
, int16
u8x , @tag( 4294967296 ) @rightPad
( )
u64 packetx@calculatedFrom(""it's"" )
,
@calculatedFrom( ""\n"" ) o@calculatedFrom(""a\""b"" ), Logon	@lengthOf( BodyLength
    /// triple
    )
// a // b
// packet A { u8 x, }
,}options {
    }
")).
Eval vm_compute in ("<<<M374>>>" ++ check (runes_of_ascii "MetaData BodyLength { zchar[ 65535 ]	As `crlf
line`
, u16 charz , body len,
zchar msg_type ,uint64 metadata
,}
root packet //
matchKey
    {
repeat i8i8  `{ , }` ,
} MetaData a1 { i8i8 Pad`it's`	,
// trailing space 
// `tick` ""quote"" 'q'
int64
    // " ++ [128512]%N ++ runes_of_ascii " emoji
    roots `doc` ,
Foo BodyLength `u8 x,` , } packet	_x
{ lengthOf
    {
pack `" ++ [28040; 24687; 31867; 22411]%N ++ runes_of_ascii "` ,
string_ // @lengthOf(
, repeat //
rootA len , zchar[ 1
] u8x,} , }
")).
Eval vm_compute in ("<<<M1613>>>" ++ check (runes_of_ascii "MetaData pack {
    int16 rootA `{ , }`,
    int16 x,
    u32 msg_type,
}

packet i64_ {
    @leftPad('0')
    @rightPad('\x00')
    @lengthOf(options1)
    string body @lengthOf(asx) `" ++ [233]%N ++ runes_of_ascii "`,
}

options {
    msg_type = 00;
}

MetaData stringy {
    zchar MetaDataX `line1
        line2`,
    char[255] len `it's`,
    f32 pack,
    uint16 Foo `it's`,
    int16 i64_ `two words`,
}")).
Eval vm_compute in ("<<<M1603>>>" ++ check (runes_of_ascii "// top
MetaData Packet {
}

// c3
packet charz {
    // c6
    Foo asx `it's`,// c10
    @lengthOf(T)
    @calculatedFrom("""")
    @calculatedFrom(""x y"")
    // c19
    zchar[007] repeatCount @lengthOf(int) `a\`,// c28
    i8 string_,// c31
    repeat options1 Pad,// c35
}// c36

root packet Packet {
    // c40
    int8 float `doc`,// c44
}// c45")).
Eval vm_compute in ("<<<M1699>>>" ++ check (runes_of_ascii "// top
root packet _x {
    // c3
    match Foo as Z9_ {
        // c8
        ""a	b"" : Pad,
    },
    // c14
    repeat x `line1
    line2`,
    @rightPad(' ')
    @calculatedFrom(""a\\"")
    // c25
    metadata MetaDataX,
    @tag(0)
    // c31
    Logon int ``,
}

// c36
options {
    // c38
    T = '\x00'
}")).
Eval vm_compute in ("<<<M1497>>>" ++ check (runes_of_ascii "
packet FooBar 	 // c1
    	{
u8 
a
,
	// c5
	  } 	 // c6
      packet

    foo_bar 	 // c8a

  // c8b
		{ 
    // c9
  u16  
      // c10
b , // c12a
    	// c12b

  }	// c13
    root // c14
	packet  R { 	 // c17a
// c17b

  FooBar ,
	    // c19

  foo_bar // c20
	,

} ")).
Eval vm_compute in ("<<<M1857>>>" ++ check (runes_of_ascii "MetaData BodyLength {
    uint16 leftPad `" ++ [233]%N ++ runes_of_ascii "`,
    uint8x asx,
    len lengthOf `// not a comment`,
    string uint8x `doc`,
}

options {
    i8i8 = 0
    lengthOf = 0123456789;
}

packet uint8x {
    @lengthOf(pack)
    float64 u8x @lengthOf(asx),
}")).
Eval vm_compute in ("<<<M351>>>" ++ check (runes_of_ascii "MetaData leftPad// packet A { u8 x, }
{ string u128 `say ""hi""` //
, // c
A packetx
    //	t
    , char[
//
// packet A { u8 x, }
42
]
leftPad
    `tab	here` // trailing space 
,i16 crc ,
string uint8x // a // b
,
}")).
Eval vm_compute in ("<<<M121>>>" ++ check (runes_of_ascii "packet u128 { @calculatedFrom(  ""a	b"" ) // packet A { u8 x, }
@leftPad( ' '
) //	t
@lengthOf(
Header // packet A { u8 x, }
) char[10
    ] crc@lengthOf(
len ) , } MetaData i8i8 { }
")).
Eval vm_compute in ("<<<M152>>>" ++ check (runes_of_ascii "packet T {
int u ,
@calculatedFrom( ""\" ++ [233]%N ++ runes_of_ascii """ ) // `tick` ""quote"" 'q'
repeat// @lengthOf(
string	x_y_z// a // b
,
uint32// `tick` ""quote"" 'q'
int `crlf
line` , }
")).
Eval vm_compute in ("<<<M1759>>>" ++ check (runes_of_ascii "packet A {
    Inner {
        match k as n {
            [
                1, 22, 007, 4, 5,
                66, 7, 8
            ] : B,
        },
    },
}")).
Eval vm_compute in ("<<<M1647>>>" ++ check (runes_of_ascii "packet calculatedFrom {
    uint8x {
        body `line1
        line2`,
        string crc @lengthOf(uint8x),
        char[] As @lengthOf(Pad),
    },
}")).
Eval vm_compute in ("<<<M463>>>" ++ check (runes_of_ascii "packet uint8x
{ match pack
    as msg_type	{
    0123456789 :	float
}
,
} float32 //	t
a1
    { } options {packetx
    = '\x00'	; u128= ""a	b""  ; }
")).
Eval vm_compute in ("<<<M473>>>" ++ check (runes_of_ascii "packet uint8x
{ match pack
    as msg_type	{
    0123456789 :	float
}
,
} packet //	t
a1
    ] } options {packetx
    = '\x00'	; u128= ""a	b""  ; }
")).
Eval vm_compute in ("<<<M676>>>" ++ check (runes_of_ascii "// @lengthOf(
packet i8i8 { u128 o , }
options { MetaDataX = true;
    BodyLength =""packet"" x_y_z x_y_z= 007
crc //x
= ""abc"" ;
    msg_type =
i16 }")).
Eval vm_compute in ("<<<M398>>>" ++ check (runes_of_ascii "packet [
{ match pack
    as msg_type	{
    0123456789 :	float
}
,
} packet //	t
a1
    { } options {packetx
    = '\x00'	; u128= ""a	b""  ; }
")).
Eval vm_compute in ("<<<M120>>>" ++ check (runes_of_ascii "packet float {@calculatedFrom(
// " ++ [128512]%N ++ runes_of_ascii " emoji
// packet A { u8 x, }
""CRC32"" )Foo `" ++ [28040; 24687; 31867; 22411]%N ++ runes_of_ascii "`	,@calculatedFrom( ""a\\"" )
    zchar[ 0 ]	msg_type `doc` , }")).
Eval vm_compute in ("<<<M1565>>>" ++ check (runes_of_ascii "MetaData
    leftPad{ 
chars  MetaDataX ,	}
packet repeatCount
{ char[ 255
    ] 
uint8x  // c
  `" ++ [233]%N ++ runes_of_ascii "` 
,
} MetaData  pack

{

As  Foo ,  }

")).
Eval vm_compute in ("<<<M1851>>>" ++ check (runes_of_ascii "packet A {
    match k as n {
        [
            22, 4, 66, 8, ""a"",
            ""c c"", ""e"", ""g""
        ] : B,
        2 : C,
    },
}")).
Eval vm_compute in ("<<<M1622>>>" ++ check (runes_of_ascii "MetaData leftPad {
    string u128 `say ""hi""`,
    A packetx,
    char[42] leftPad `tab	here`,
    i16 crc,
    string uint8x,
}")).
Eval vm_compute in ("<<<M1391>>>" ++ check (runes_of_ascii "packet A {
    u16 len @lengthOf(body) `
        `,
    u32 crc @calculatedFrom(""CRC32"") `
        `,
    string body,
}")).
Eval vm_compute in ("<<<M1165>>>" ++ check (runes_of_ascii "MetaData leftPad { chars MetaDataX , } packet repeatCount { char[ 255 // c
] uint8x `" ++ [233]%N ++ runes_of_ascii "` , } MetaData pack { As Foo , }")).
Eval vm_compute in ("<<<M499>>>" ++ check (runes_of_ascii "packet uint8x
{ match pack
    as msg_type	{
    0123456789 :	float
}
,
} packet //	t
a1
    { } options {packetx")).
Eval vm_compute in ("<<<M489>>>" ++ check (runes_of_ascii "packet uint8x
{ match pack
    as msg_type	{
    0123456789 :	float
}
,
} packet //	t
a1
    { } options")).
Eval vm_compute in ("<<<M944>>>" ++ check (runes_of_ascii "packet A {
    Inner {
        u8 x `a

b`,
        Deep {
            u8 y `a

b`,
        },
    },
}")).
Eval vm_compute in ("<<<M1304>>>" ++ check (runes_of_ascii "
packet order_item

{  u8
a

    , } root
packet

    new_order{ order_item
	,  u8
x ,

}

")).
Eval vm_compute in ("<<<M862>>>" ++ check (runes_of_ascii "packet A {
  match k as n {
    [""a"", ""bb"", 007, ""d"", ""e"", 66, ""g"", ""h""] : B,
    2 : C
  },
}")).
Eval vm_compute in ("<<<M613>>>" ++ check (runes_of_ascii "
packet
    asx {match u128 as lengthOf
{
//	t
// `tick` ""quote"" 'q'
255 : x ,
    } } ,	}")).
Eval vm_compute in ("<<<M579>>>" ++ check (runes_of_ascii "
packet
    asx {match u128 lengthOf as
{
//	t
// `tick` ""quote"" 'q'
255 : x ,
    } ,	}")).
Eval vm_compute in ("<<<M828>>>" ++ check (runes_of_ascii "packet A {
  match k as n {
    [""a"", ""bb"", ""c c"", ""d"", ""e"", ""f""] : B,
    2 : C
  },
}")).
Eval vm_compute in ("<<<M836>>>" ++ check (runes_of_ascii "packet A {
  match k as n {
    [""a"", ""bb"", 007, ""d"", ""e"", 66] : B,
    2 : C
  },
}")).
Eval vm_compute in ("<<<M831>>>" ++ check (runes_of_ascii "packet A {
  match k as n {
    [1, ""bb"", 007, ""d"", 5, ""f""] : B
    2 : C
  },
}")).
Eval vm_compute in ("<<<M826>>>" ++ check (runes_of_ascii "packet A {
  match k as n {
    [1, 22, 007, 4, 5, 66] : B,
    2 : C
  },
}")).
Eval vm_compute in ("<<<M1828>>>" ++ check (runes_of_ascii "
packet  body {
i32

f32a

    `{ , }` ,

} // c
      options
    { }")).
Eval vm_compute in ("<<<M864>>>" ++ check (runes_of_ascii "packet A { Inner { match k as n { [1,22,007,4,5,66,7,8] : B, }, }, }")).
Eval vm_compute in ("<<<M1617>>>" ++ check (runes_of_ascii "root
packet

    P { repeat
	string
	ss
, repeat	u16 ns  ,
} ")).
Eval vm_compute in ("<<<M948>>>" ++ check (runes_of_ascii "packet A {
    B b `x
`,
    B `x
`,
    repeat B bs `x
`,
}")).
Eval vm_compute in ("<<<M760>>>" ++ check (runes_of_ascii "MetaData @rightPad 3 i32 int32 ; int8 body ""a	b"" `" ++ [28040; 24687; 31867; 22411]%N ++ runes_of_ascii "`")).
Eval vm_compute in ("<<<M1207>>>" ++ check (runes_of_ascii "packet body { i32 f32a // c
`{ , }` , } options { }")).
Eval vm_compute in ("<<<M1797>>>" ++ check (runes_of_ascii "// top
root packet P {
    // c3
    string s,
}")).
Eval vm_compute in ("<<<M363>>>" ++ check (runes_of_ascii "MetaData
    // @lengthOf(
    tag {
    }")).
Eval vm_compute in ("<<<M274>>>" ++ check (runes_of_ascii "packet Z9_
{ }
    packet Pad { } 	 ")).
Eval vm_compute in ("<<<M1612>>>" ++ check (runes_of_ascii "packet A {
    u8 x `d" ++ [6158]%N ++ runes_of_ascii "`,// c" ++ [6158]%N ++ runes_of_ascii "
}")).
Eval vm_compute in ("<<<M1048>>>" ++ check (runes_of_ascii "packet A {
 u8 x `d" ++ [8203]%N ++ runes_of_ascii "`, // c" ++ [8203]%N ++ runes_of_ascii "
}")).
Eval vm_compute in ("<<<M929>>>" ++ check (runes_of_ascii "packet A {
    u8 x `
`,
}")).
Eval vm_compute in ("<<<M1488>>>" ++ check (runes_of_ascii "

  packet
A {  }// c" ++ [5760]%N)).
Eval vm_compute in ("<<<M1892>>>" ++ check (runes_of_ascii "

  MetaData	A{
	}
")).
Eval vm_compute in ("<<<M1002>>>" ++ check (runes_of_ascii "// c" ++ [8192]%N ++ runes_of_ascii "
packet A {
}")).
Eval vm_compute in ("<<<M277>>>" ++ check (runes_of_ascii "MetaData i64_ { }")).
Eval vm_compute in ("<<<M409>>>" ++ check (runes_of_ascii "packet uint8x
{")).
Eval vm_compute in ("<<<M561>>>" ++ check (runes_of_ascii "
packet")).
Eval vm_compute in ("<<<M736>>>" ++ check (runes_of_ascii " " ++ [12]%N ++ runes_of_ascii " ")).
