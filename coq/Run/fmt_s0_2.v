From FP Require Import Lexer Parser ShowPT Digest Formatter.
From Coq Require Import String List NArith.
Import ListNotations.
Open Scope string_scope.
Set Printing Width 100000000.
Set Printing Depth 100000000.
Definition show_fres (r : fres) : string :=
  match r with
  | FOk s => "OK:" ++ sh_escaped s ""
  | FErr s => "ERR:" ++ sh_escaped s ""
  | FPanic p => "PANIC:" ++ p
  end.
Definition check (rs : list rune) : string := digest (show_fres (format_res rs)).
Definition full (rs : list rune) : string := show_fres (format_res rs).
Eval vm_compute in ("<<<M1353>>>" ++ check (runes_of_ascii "options {
    // c1
LittleEndian // c2a
  // c2b
= true
    // c4
;
    // c5
StringPrefixLenType
    // c6
= // c7
u8 ; // c9
ArrayPrefixLenType // c10a
  // c10b
=
    // c11
u8
    // c12
; // c13
FixedStringPadFromLeft = // c15a
  // c15b
true // c16a
  // c16b
; FixedStringPadChar // c18
= // c19
'0' // c20a
  // c20b
;
    // c21
} // c22a
  // c22b
packet
    // c23
Logon
    // c24
{ // c25a
  // c25b
repeat // c26
i8 Ref // c28
, // c29
@rightPad // c30
( // c31
'0' // c32a
  // c32b
) char[ // c34a
  // c34b
8 // c35a
  // c35b
] // c36a
  // c36b
msgKind , // c38
repeat // c39
InOrderid72 // c40
{ u8
    // c42
Side2 // c43
, // c44
uint32
    // c45
Qty
    // c46
, // c47
repeat // c48
InPrice27 // c49
{ // c50a
  // c50b
repeat char[ // c52a
  // c52b
4
    // c53
]
    // c54
Acct // c55a
  // c55b
, // c56
u64 sym // c58
,
    // c59
} , zchar[ // c62
4 // c63a
  // c63b
] // c64
clOrdID // c65
, int16 // c67
lastPx
    // c68
, // c69
InAcct22
    // c70
{
    // c71
repeat char[ 3 // c74
] // c75a
  // c75b
OrderId // c76a
  // c76b
, // c77a
  // c77b
}
    // c78
,
    // c79
} // c80a
  // c80b
, // c81
int64
    // c82
Px // c83
, } // c85
packet // c86a
  // c86b
Fill // c87
{ // c88a
  // c88b
uint16 Qty // c90
, // c91
repeat // c92a
  // c92b
char[
    // c93
1 // c94a
  // c94b
] // c95a
  // c95b
Flags
    // c96
,
    // c97
i8 // c98a
  // c98b
Ref
    // c99
, // c100
} // c101
packet // c102
Logout
    // c103
{
    // c104
@leftPad // c105
(
    // c106
'0'
    // c107
) // c108a
  // c108b
char[ // c109a
  // c109b
3
    // c110
] x , // c113a
  // c113b
int8
    // c114
f1 // c115a
  // c115b
, // c116a
  // c116b
Logon
    // c117
,
    // c118
uint16 venue ,
    // c121
zchar[
    // c122
2
    // c123
] // c124
Px // c125a
  // c125b
, } // c127a
  // c127b
packet // c128
Reject // c129
{
    // c130
} root // c132
packet // c133
Leg
    // c134
{ // c135a
  // c135b
Fill // c136a
  // c136b
, // c137
u16 // c138a
  // c138b
msgKind
    // c139
, // c140
match // c141
msgKind // c142
as
    // c143
Body
    // c144
{
    // c145
[ 182
    // c147
, 83 // c149
] // c150a
  // c150b
:
    // c151
Fill // c152
, // c153
199 : Reject ,
    // c157
137 // c158a
  // c158b
: // c159a
  // c159b
Logout , 35 // c162
: // c163a
  // c163b
Logon , // c165
} // c166
, // c167a
  // c167b
u32
    // c168
lastPx @calculatedFrom( // c170
""CRC32"" // c171
)
    // c172
,
    // c173
} // c174a
  // c174b
")).
Eval vm_compute in ("<<<M1668>>>" ++ check (runes_of_ascii "packet falsey {
    @leftPad()
    int8 uint8x,
    zchar[10] matchKey,
    // c
    repeat matchKey {
        repeat i8 matchKey,
        a1 @calculatedFrom(""\n"") `two words`,
    },
    a1 {
        char[] a1,
        char x_y_z,
        zchar[65535] len `u8 x,`,
    },
    repeat MetaDataX {
        repeat leftPad pack,
        string i8i8 `say ""hi""`,
    },
    // " ++ [27880; 37322]%N ++ runes_of_ascii "
    // @lengthOf(
    @leftPad('0')
    @lengthOf(BodyLength)
    @rightPad(' ')
    char[] charz,
    @lengthOf(i8i8)
    @calculatedFrom(""CRC32"")
    @lengthOf(T)
    metadata,// 50% %s
}

packet x {
    @tag(0123456789)
    match tag as Pad {
        [
            ""\" ++ [233]%N ++ runes_of_ascii """, ""a	b"", ""a\\"", ""{,}"", 007,
            007, 0123456789
        ] : options1,
    },
    @leftPad()
    @lengthOf(charz)
    @tag(42)
    o {
        i32 msg_type @lengthOf(A) ``,
        zchar[1] charz,
        i8 packetx `tab	here`,
        repeat crc rootA,
    },//	t
    repeat uint8x asx,
    repeat char[] Foo,
    repeat zchar[0123456789] u128,
    match uint8x as _x {
        ""packet"" : f32a,
        255 : roots,
        [
            """ ++ [28040; 24687]%N ++ runes_of_ascii """, 0123456789, ""CRC32"", 0, 1,
            255
        ] : Packet,
        ""`tick`"" : metadata,
        ""x y"" : rootA,
    },
    _x @lengthOf(crc),
    @lengthOf(Logon)
    repeat Packet options1,
    match trueish as lengthOf {
        65535 : float,
    },
    @tag(65535)
    lengthOf @lengthOf(a1) `tab	here`,
}")).
Eval vm_compute in ("<<<M1370>>>" ++ check (runes_of_ascii "// top
options
    // c0
{ // c1a
  // c1b
LittleEndian
    // c2
= // c3a
  // c3b
true // c4
; ArrayPrefixLenType = u32 ;
    // c9
FixedStringPadChar // c10
= ' '
    // c12
; } packet Order // c16a
  // c16b
{
    // c17
char[ 5 ] seqNo // c21a
  // c21b
, // c22
uint8 Px // c24a
  // c24b
, } // c26
packet // c27a
  // c27b
Logon
    // c28
{ @rightPad // c30
(
    // c31
'\x00' // c32
)
    // c33
char[ // c34
8 ] Flags // c37
,
    // c38
zchar[
    // c39
3
    // c40
]
    // c41
count
    // c42
, repeat // c44a
  // c44b
Order // c45
, // c46a
  // c46b
} // c47
root
    // c48
packet // c49a
  // c49b
Party // c50
{ // c51a
  // c51b
repeat // c52
Logon // c53
,
    // c54
repeat // c55
char[ 1 // c57
]
    // c58
x , u32 // c61a
  // c61b
price
    // c62
, // c63
u32
    // c64
Side2
    // c65
@lengthOf(
    // c66
Body
    // c67
) ,
    // c69
match price // c71a
  // c71b
as Body // c73a
  // c73b
{ // c74
49 // c75
: Order , // c78
196 : // c80a
  // c80b
Logon // c81a
  // c81b
, } // c83a
  // c83b
, u32 // c85
f1 // c86a
  // c86b
@calculatedFrom( ""CRC32""
    // c88
) // c89a
  // c89b
, // c90a
  // c90b
} // c91a
  // c91b
")).
Eval vm_compute in ("<<<M1885>>>" ++ check (runes_of_ascii "MetaData Z9_ {
    string roots,
    repeatCount packetx `say ""hi""`,
}

//
// packet A { u8 x, }
packet float {
    repeat char[] metadata,
    zchar[00] leftPad @calculatedFrom(""" ++ [233]%N ++ runes_of_ascii "t" ++ [233]%N ++ runes_of_ascii """) `" ++ [233]%N ++ runes_of_ascii "`,
    string T @lengthOf(Pad) `doc`,
    match f32a as crc {
        ""x y"" : Foo,
        // @lengthOf(
        0 : _x,
        [""1""] : As,
        [
            255, 1, """", ""1"", ""abc"",
            """ ++ [233]%N ++ runes_of_ascii "t" ++ [233]%N ++ runes_of_ascii """, 10
        ] : leftPad,
        // @lengthOf(
        ""{,}"" : a1,
        4294967296 : body,
        //
    },
    lengthOf @calculatedFrom(""\" ++ [233]%N ++ runes_of_ascii """),// packet A { u8 x, }
    @calculatedFrom(""`tick`"")
    @lengthOf(u)
    @leftPad('0')
    match o as BodyLength {
        [
            3, 1, ""a\\"", ""`tick`"", 1,
            1
        ] : asx,
        [""a	b"", 255, 3, ""abc"", 65535] : asx,
        10 : Z9_,
        [10, ""CRC32"", 7] : roots,
    },
    // 50% %s
    u16 a1,
    @tag(00)
    uint32 MetaDataX `u8 x,`,
    @leftPad('\x00')
    @rightPad()
    i64 calculatedFrom,
}")).
Eval vm_compute in ("<<<M1648>>>" ++ check (runes_of_ascii "  // top
	options// c0a
// c0b
	{
LittleEndian
    =  // c3
	true 

// c4
;

    }	// c6
packet 
    // c7
Sub 
{  // c9a
    // c9b
  	u8 
a // c11
    	, 
	    // c12
	@calculatedFrom(""CRC16""

    )	// c15a
	  // c15b
u64 	 // c16a
  	// c16b
    SubSum	// c17

	,  // c18a
	// c18b
	} 
	    // c19
  root
    // c20
packet	// c21a
	// c21b
	Frame // c22
      {  
      // c23
	u16  // c24a
  // c24b
    	MsgType , 	 // c26
  u16

    BodyLen // c28a
	// c28b
      @lengthOf(

    Body	// c30
  ) // c31

,  // c32a
	// c32b

Sub  // c33a
// c33b
Body

    , 	 // c35
	string 
// c36

  note
    // c37
, 
    // c38
	@calculatedFrom( 	 // c39
	""CRC16""
// c40
	)// c41a
// c41b
u64

    Checksum 
// c43
  ,
    // c44
u8 // c45a
  	// c45b
	  tail 	 // c46

,  // c47
  }	// c48a
    // c48b
")).
Eval vm_compute in ("<<<M295>>>" ++ check (runes_of_ascii "root
    packet
charz { float32 matchKey @lengthOf(falsey ) ``,	@lengthOf( stringy )trueish
    {uint16 f32a@lengthOf(Foo // 50% %s
)
// " ++ [27880; 37322]%N ++ runes_of_ascii "
//	t
, }  ,// a // b
@leftPad( ) repeat char[ 1 ] asx
, @calculatedFrom(	""" ++ [233]%N ++ runes_of_ascii "t" ++ [233]%N ++ runes_of_ascii """)/// triple
uint8 Foo , char metadata`crlf
line`,// " ++ [27880; 37322]%N ++ runes_of_ascii "
repeat x_y_z
`tab	here` , @tag(65535 )  o{ uint16 rootA
`100% of %d` ,match
charz as
    tag { 10 : float , 1 // trailing space 
:
Foo, } ,repeat char[ 0 ] _x, repeat Packet,
} , @calculatedFrom(
""" ++ [128512]%N ++ runes_of_ascii """ )@rightPad
(
    )matchKey { char[] roots `crlf
line` ,uint8 trueish @calculatedFrom( ""CRC32"") `doc`	,// " ++ [27880; 37322]%N ++ runes_of_ascii "
int64 crc @calculatedFrom( """ ++ [128512]%N ++ runes_of_ascii """ ) , } , @tag( 7 // @lengthOf(
) zchar[ 42
] uint8x @lengthOf( tag ) ,
    } // " ++ [27880; 37322]%N)).
Eval vm_compute in ("<<<M201>>>" ++ check (runes_of_ascii "//x
packet body {leftPad
@calculatedFrom( // " ++ [128512]%N ++ runes_of_ascii " emoji
""it's""
)//x
`line1
line2` , char[ 3 ]	matchKey , char[] MetaDataX `a\`,
    repeat
string_ { tag
// c
// packet A { u8 x, }
`crlf
line` , repeat x	metadata
, u @calculatedFrom( """ ++ [128512]%N ++ runes_of_ascii """ )
    , } ,@tag( 10 )
// c
// packet A { u8 x, }
@lengthOf( T
)@tag( 7// `tick` ""quote"" 'q'
)repeatCount
    lengthOf `tab	here`
    , @rightPad( '\x00') zchar[ 7
] rootA
,
@lengthOf( len // 50% %s
) match
    body as matchKey { 0123456789: stringy
//
// packet A { u8 x, }
, ""x y""
:	As
, """ ++ [233]%N ++ runes_of_ascii "t" ++ [233]%N ++ runes_of_ascii """ : charz, 4294967296 : leftPad
    ,	""" ++ [233]%N ++ runes_of_ascii "t" ++ [233]%N ++ runes_of_ascii """
    : leftPad
    ,
//
// @lengthOf(
},} //	t")).
Eval vm_compute in ("<<<M1805>>>" ++ check (runes_of_ascii "packet _x {
    zchar[65535] metadata `crlf
    line`,
    @calculatedFrom(""CRC32"")
    Header `doc`,
    match f32a as msg_type {
        [""\n""] : charz,
        0123456789 : pack,
        [
            ""packet"", """", ""`tick`"", ""CRC32"", ""\n"",
            ""it's"", ""it's"", 4294967296
        ] : charz,
        /// triple
        42 : leftPad,
        [
            255, 7, ""packet"", ""{,}"", ""\" ++ [233]%N ++ runes_of_ascii """,
            ""1"", ""1""
        ] : msg_type,
        [""" ++ [128512]%N ++ runes_of_ascii """] : i64_,
    },
    repeat u8x body,
}

MetaData roots {
    u8x packetx `two words`,// trailing space 
}")).
Eval vm_compute in ("<<<M327>>>" ++ check (runes_of_ascii "packet crc
    { @calculatedFrom( ""x y""
)
char[] u8x ,
    } root packet asx //
{	float32
    u8x
`doc`
// 50% %s
// trailing space 
,
    }
packet lengthOf
{ repeat BodyLength{ match uint8x as matchKey {
""\n"" : body , 00 :
f32a ,""" ++ [233]%N ++ runes_of_ascii "t" ++ [233]%N ++ runes_of_ascii """ : rootA  , ""it's""
:
crc ,} , } ,	@tag( 42
)
//
// " ++ [27880; 37322]%N ++ runes_of_ascii "
roots Z9_ ,
repeat leftPad
{  u128 {len	lengthOf /// triple
, options1 A // " ++ [27880; 37322]%N ++ runes_of_ascii "
,
// `tick` ""quote"" 'q'
/// triple
u128
    Header , }
    , } , @leftPad (
' ') /// triple
repeat int32 u8x ,
    } // @lengthOf(")).
Eval vm_compute in ("<<<M1595>>>" ++ check (runes_of_ascii "
// top
    MetaData// c0
	msg_type	// c1
  	{// c2
int32 // c3
    	As// c4
  `crlf
line`// c5
  	, 	 // c6
	MetaDataX  // c7

x // c8
	`a\`  // c9

,	// c10
int8  // c11
    	_x 	 // c12
  ,  // c13
	char[]  // c14
As // c15
    `u8 x,`	// c16
		, // c17

zchar[// c18
    3// c19
    ]  // c20
    uint8x// c21
	,  // c22
    As	// c23
  Foo// c24
    ,  // c25
	} // c26

  root  // c27

packet 	 // c28
    repeatCount 	 // c29
    	{	// c30
}	// c31
")).
Eval vm_compute in ("<<<M312>>>" ++ check (runes_of_ascii "packet  _x	{@calculatedFrom(
""it's""
/// triple
// " ++ [27880; 37322]%N ++ runes_of_ascii "
) A rootA , int8 Logon
`100% of %d`	, @lengthOf( As ) a1
lengthOf ,
float32 zchar
@calculatedFrom(""// no comment""
)
    ,} MetaData Packet
{
    packetx len
// packet A { u8 x, }
// 50% %s
, u16	_x `100% of %d` , uint8 roots
`{ , }`
    ,
falsey leftPad `say ""hi""`
    ,
} options// " ++ [128512]%N ++ runes_of_ascii " emoji
{ A =	10  ;
Pad
=  char ; i8i8// 50% %s
=
string	x_y_z =
    false// 50% %s
}
")).
Eval vm_compute in ("<<<M1342>>>" ++ check (runes_of_ascii "

  packet
Frame
{

    u8 HK, u8
	BK , u8

TK, match HK as Hdr { 1 :  HdrA
,2
    : 
HdrB 
,}
	,  match	BK as	Body { 1 :
BodyA,2
	:

    BodyB
, } ,
    match
TK  as  Trl
{1: TrlA
	,
}

, }
packet
    HdrA

{u8
a

,
    }

packet

    HdrB {	u16 b
,
    }	packet
BodyA {	u32
    c , 
} 
packet	BodyB{

u64 d
    , }
packet TrlA
{u8	e , 
} root packet Msg

    { Frame
, 
u8

    x  ,	} ")).
Eval vm_compute in ("<<<M215>>>" ++ check (runes_of_ascii "packet
crc {	} root packet a1 { tag u ,  As @lengthOf( msg_type ) , repeat
//x
// 50% %s
i8i8	`// not a comment`,
    lengthOf
{
    match asx
    as o { ""\n"" : MetaDataX , ""CRC32"" :
asx
, 0123456789 : falsey,
10 :
u128 , 4294967296 :len
, } /// triple
,u32 Logon @lengthOf(u8x
)
    , repeat float32 u8x
,}, T Logon`// not a comment`
    , // `tick` ""quote"" 'q'
}")).
Eval vm_compute in ("<<<M105>>>" ++ check (runes_of_ascii "options// @lengthOf(
{ roots
    =  0123456789 ;//x
}options
    { }
packet crc {
crc @lengthOf( Pad )  `{ , }`, @lengthOf(
    Logon ) char[]
BodyLength
    ,	@leftPad // @lengthOf(
(
    '0'
    ) @leftPad // `tick` ""quote"" 'q'
(  ) @rightPad (	'\x00'
)
char f32a
    // c
    @lengthOf( body ),
    @tag(
255 )
string body`` , }")).
Eval vm_compute in ("<<<M1393>>>" ++ check (runes_of_ascii "options { LittleEndian

    =

true

;
}  packet

    Sub

{ u8 
a

    ,
@calculatedFrom( ""CRC16""
)  u64
    SubSum 
,
} root	packet
	Frame
{

u16	MsgType ,
u16
    BodyLen @lengthOf( Body
	)
,
    Sub	Body  ,string note, 
@calculatedFrom( ""CRC16""  )	u64
	Checksum ,
	u8 
tail, 
}
")).
Eval vm_compute in ("<<<M1438>>>" ++ check (runes_of_ascii "packet MDSnapshotZZ {
    u8 a,
}

packet OrderACK {
    u16 b,
}

packet HTTPServerInfo {
    string s,
}

root packet FIXMsg {
    u8 KType,
    MDSnapshotZZ,
    repeat OrderACK,
    match KType as Body {
        1 : HTTPServerInfo,
        2 : OrderACK,
    },
}")).
Eval vm_compute in ("<<<M1333>>>" ++ check (runes_of_ascii "packet
P1 
{
    u8
a
    , } packet P2
	{P1, }
packet

P3 { P2
	, P1 , } packet
P4 {	repeat
P3	,  P2 ,

    } root packet
P5{  P4
,
    P3
, P1

    ,

u8 K	,	match	K as

Body { 4 :
    P4
	,

3

: P3 ,
    2 : 
P2
	,  1
:

    P1 
,
},}
")).
Eval vm_compute in ("<<<M472>>>" ++ check (runes_of_ascii "packet
    asx { @calculatedFrom(
""""  ) @tag( 255 )repeat
// packet A { u8 x, }
// trailing space 
int16 u8x
,
@tag(
    //
    007 )
    @tag( 0 0
    /// triple
    ) @tag( 1) u
    @lengthOf( T ),
// `tick` ""quote"" 'q'
//x
} // " ++ [128512]%N ++ runes_of_ascii " emoji")).
Eval vm_compute in ("<<<M428>>>" ++ check (runes_of_ascii "packet
    asx { @calculatedFrom(
""""  ) @tag( 255 repeat)
// packet A { u8 x, }
// trailing space 
int16 u8x
,
@tag(
    //
    007 )
    @tag( 0
    /// triple
    ) @tag( 1) u
    @lengthOf( T ),
// `tick` ""quote"" 'q'
//x
} // " ++ [128512]%N ++ runes_of_ascii " emoji")).
Eval vm_compute in ("<<<M409>>>" ++ check (runes_of_ascii "packet
    asx { @calculatedFrom(
:  ) @tag( 255 )repeat
// packet A { u8 x, }
// trailing space 
int16 u8x
,
@tag(
    //
    007 )
    @tag( 0
    /// triple
    ) @tag( 1) u
    @lengthOf( T ),
// `tick` ""quote"" 'q'
//x
} // " ++ [128512]%N ++ runes_of_ascii " emoji")).
Eval vm_compute in ("<<<M263>>>" ++ check (runes_of_ascii "MetaData i64_{int16 u128 ,}
    MetaData	packetx
{ char[]
T, uint16 a1 `a\`
, zchar[ 007 ] uint8x	, }
root
packet//	t
A {
@leftPad ( ' ' ) @tag( 255 // " ++ [27880; 37322]%N ++ runes_of_ascii "
) @leftPad ( '\x00' ) repeat leftPad i64_
    // `tick` ""quote"" 'q'
    ,}")).
Eval vm_compute in ("<<<M330>>>" ++ check (runes_of_ascii "packet uint8x { u64	f32a @calculatedFrom( ""`tick`"") ,
match tag as
    leftPad { """ ++ [233]%N ++ runes_of_ascii "t" ++ [233]%N ++ runes_of_ascii """: charz // 50% %s
, } , @leftPad
( ' ' )
    int32
x_y_z // a // b
,}	options { matchKey =uint16; } // `tick` ""quote"" 'q'")).
Eval vm_compute in ("<<<M1543>>>" ++ check (runes_of_ascii "// top
packet B {
    u8 a,
    // c5
}// c6a

// c6b
root packet P {
    u8 K,// c13
    u8 L @lengthOf(Body),
    match K as Body {
        1 : B,
        // c28a
        // c28b
    },
}")).
Eval vm_compute in ("<<<M1554>>>" ++ check (runes_of_ascii "packet A {
    match k as n {
        ""\
        "" : B,
        [""\
        "", 1] : C,
        [
            1, 2, 3, 4, 5,
            ""\
            ""
        ] : D,
    },
}")).
Eval vm_compute in ("<<<M1472>>>" ++ check (runes_of_ascii "MetaData u {
}

MetaData o {
    float uint8x `100% of %d`,
    repeatCount u8x,
    string_ leftPad,
    i32 Foo,
    int64 x `two words`,
    calculatedFrom stringy,
}")).
Eval vm_compute in ("<<<M694>>>" ++ check (runes_of_ascii "MetaData u
    { } MetaData o
{ float uint8x
`100% of %d` ' ,repeatCount u8x, string_ leftPad
, i32
    Foo , int64 x `two words` , calculatedFrom
stringy `a\` ,
}
")).
Eval vm_compute in ("<<<M603>>>" ++ check (runes_of_ascii "MetaData u
    { } MetaData o
{ float uint8x
`100% of %d` ,u8x repeatCount, string_ leftPad
, i32
    Foo , int64 x `two words` , calculatedFrom
stringy `a\` ,
}
")).
Eval vm_compute in ("<<<M651>>>" ++ check (runes_of_ascii "MetaData u
    { } MetaData o
{ float uint8x
`100% of %d` ,repeatCount u8x, string_ leftPad
, i32
    Foo , int64  `two words` , calculatedFrom
stringy `a\` ,
}
")).
Eval vm_compute in ("<<<M594>>>" ++ check (runes_of_ascii "MetaData u
    { } MetaData o
{ float uint8x
zchar[ ,repeatCount u8x, string_ leftPad
, i32
    Foo , int64 x `two words` , calculatedFrom
stringy `a\` ,
}
")).
Eval vm_compute in ("<<<M1460>>>" ++ check (runes_of_ascii "

  packet	A	{
	match k

as
    n {

[ ""a""  ,""bb""
, 007, 
""d"" 
,  ""e""

    ,  66  ,

""g"" , 
""h"" ,
	9 
,
""j""	,
""k""

,12]
    :
	B, 2
    : C	} ,
}

")).
Eval vm_compute in ("<<<M113>>>" ++ check (runes_of_ascii "
root packet trueish { } options
{ Foo= 0123456789;
    } root packet
    A// @lengthOf(
{ repeat
i8i8 body// @lengthOf(
`it's` ,} // 50% %s")).
Eval vm_compute in ("<<<M1845>>>" ++ check (runes_of_ascii "options

{
	} // c
		options  {
MetaDataX =
    char;	} MetaData Pad{ i8
metadata,

string stringy
    ,
int8
    As`{ , }`
, }
")).
Eval vm_compute in ("<<<M935>>>" ++ check (runes_of_ascii "packet A {
    u16 len @lengthOf(body) `a
    b
  c`,
    u32 crc @calculatedFrom(""CRC32"") `a
    b
  c`,
    string body,
}")).
Eval vm_compute in ("<<<M992>>>" ++ check (runes_of_ascii "packet A {
    match k as n {
        ""%d%s"" : B,
        [""%d%s"", 1] : C,
        [1,2,3,4,5,""%d%s""] : D,
    },
}")).
Eval vm_compute in ("<<<M1223>>>" ++ check (runes_of_ascii "options { } options { MetaDataX = char ; } MetaData // c
Pad { i8 metadata , string stringy , int8 As `{ , }` , }")).
Eval vm_compute in ("<<<M977>>>" ++ check (runes_of_ascii "packet A {
    u16 len @lengthOf(body) `%%d%!`,
    u32 crc @calculatedFrom(""CRC32"") `%%d%!`,
    string body,
}")).
Eval vm_compute in ("<<<M445>>>" ++ check (runes_of_ascii "packet
    asx { @calculatedFrom(
""""  ) @tag( 255 )repeat
// packet A { u8 x, }
// trailing space 
int16")).
Eval vm_compute in ("<<<M894>>>" ++ check (runes_of_ascii "packet A {
  match k as n {
    [1, ""bb"", 007, ""d"", 5, ""f"", 7, ""h"", 9, ""j"", 11] : B
    2 : C
  },
}")).
Eval vm_compute in ("<<<M853>>>" ++ check (runes_of_ascii "packet A {
  match k as n {
    [""a"", ""bb"", ""c c"", ""d"", ""e"", ""f"", ""g"", ""h""] : B
    2 : C
  },
}")).
Eval vm_compute in ("<<<M867>>>" ++ check (runes_of_ascii "packet A {
  match k as n {
    [1, ""bb"", 007, ""d"", 5, ""f"", 7, ""h"", 9] : B,
    2 : C
  },
}")).
Eval vm_compute in ("<<<M826>>>" ++ check (runes_of_ascii "packet A {
  match k as n {
    [""a"", ""bb"", ""c c"", ""d"", ""e"", ""f""] : B,
    2 : C
  },
}")).
Eval vm_compute in ("<<<M1806>>>" ++ check (runes_of_ascii "options {
    Packet = ""a\\""
    Logon = true
    f32a = true;
    falsey = false;
}")).
Eval vm_compute in ("<<<M1446>>>" ++ check (runes_of_ascii "
packet A

    {

match
k	as

n
	{ [ 1
,22  ,
007  ] :	B  ,	2  :	C
} ,
    } ")).
Eval vm_compute in ("<<<M808>>>" ++ check (runes_of_ascii "packet A {
  match k as n {
    [""a"", ""bb"", 007, ""d""] : B,
    2 : C
  },
}")).
Eval vm_compute in ("<<<M290>>>" ++ check (runes_of_ascii "MetaData u8x
{ uint8
    T`" ++ [233]%N ++ runes_of_ascii "`
    ,	i32 MetaDataX,float32
    crc ,
}

")).
Eval vm_compute in ("<<<M1622>>>" ++ check (runes_of_ascii "

  MetaData i64_
    {
	zchar[	// " ++ [27880; 37322]%N ++ runes_of_ascii "
    0123456789
]i8i8	`" ++ [233]%N ++ runes_of_ascii "` ,  }
")).
Eval vm_compute in ("<<<M36>>>" ++ check (runes_of_ascii "packet  chars { char[ 007 ]float @calculatedFrom( ""x y"" ),	}

")).
Eval vm_compute in ("<<<M1108>>>" ++ check (runes_of_ascii "packet A { // a
 @tag(1) u8 x, // b
 // c
 @tag(2) u8 y, }")).
Eval vm_compute in ("<<<M89>>>" ++ check (runes_of_ascii "packet _x {@tag(
10	) float32
roots `u8 x,`
    , }
")).
Eval vm_compute in ("<<<M968>>>" ++ check (runes_of_ascii "root packet A {
    u8 x `100% of %s %d %v`,
}")).
Eval vm_compute in ("<<<M1251>>>" ++ check (runes_of_ascii "root packet P {
    char c,
    u8 x,
}
")).
Eval vm_compute in ("<<<M1961>>>" ++ check (runes_of_ascii "

  // c

MetaData

tag

    { 
}
")).
Eval vm_compute in ("<<<M1640>>>" ++ check (runes_of_ascii "MetaData
tag
    {
    } 	 // c
 
")).
Eval vm_compute in ("<<<M1560>>>" ++ check (runes_of_ascii "
options{
a
	=  1// a
		;

}
")).
Eval vm_compute in ("<<<M1072>>>" ++ check (runes_of_ascii "packet A {
 u8 x `d" ++ [65279]%N ++ runes_of_ascii "`, // c" ++ [65279]%N ++ runes_of_ascii "
}")).
Eval vm_compute in ("<<<M969>>>" ++ check (runes_of_ascii "packet A {
    u8 x `%`,
}")).
Eval vm_compute in ("<<<M1150>>>" ++ check (runes_of_ascii "root packet a1 {
// c
}")).
Eval vm_compute in ("<<<M1061>>>" ++ check (runes_of_ascii "// c 	
packet A {
}")).
Eval vm_compute in ("<<<M1065>>>" ++ check (runes_of_ascii "packet A {
}
// c" ++ [8203]%N)).
Eval vm_compute in ("<<<M1101>>>" ++ check (runes_of_ascii "options { // a
 }")).
Eval vm_compute in ("<<<M751>>>" ++ check (runes_of_ascii "v" ++ [65533; 65533]%N ++ runes_of_ascii "]" ++ [65533]%N ++ runes_of_ascii "P" ++ [4; 65533]%N ++ runes_of_ascii "&" ++ [65533; 65533]%N ++ runes_of_ascii "R")).
Eval vm_compute in ("<<<M1049>>>" ++ check (runes_of_ascii "// c" ++ [11]%N)).
