From FP Require Import Lexer Parser ShowPT Digest Formatter.
From Coq Require Import String List NArith.
Import ListNotations.
Open Scope string_scope.
Set Printing Width 100000000.
Set Printing Depth 100000000.
Definition show_fres (r : fres) : string :=
  match r with
  | FOk s => "OK:" ++ sh_escaped s ""
  | FErr s => "ERR:" ++ sh_escaped s ""
  | FPanic p => "PANIC:" ++ p
  end.
Definition check (rs : list rune) : string := digest (show_fres (format_res rs)).
Definition full (rs : list rune) : string := show_fres (format_res rs).
Eval vm_compute in ("<<<M1369>>>" ++ check (runes_of_ascii "// top
options // c0
{ // c1
FixedStringPadFromLeft = // c3a
  // c3b
true
    // c4
;
    // c5
FixedStringPadChar // c6
= // c7
'0'
    // c8
;
    // c9
} // c10
packet // c11
Leg // c12
{
    // c13
repeat // c14
InSym93
    // c15
{
    // c16
zchar[
    // c17
3 // c18
]
    // c19
Acct
    // c20
,
    // c21
string // c22
Side2 // c23a
  // c23b
, // c24
i32 Flags ,
    // c27
f32 // c28
Note // c29a
  // c29b
, // c30a
  // c30b
i32
    // c31
msgKind // c32a
  // c32b
, } // c34
,
    // c35
f64 // c36a
  // c36b
Note
    // c37
, // c38
uint16
    // c39
Px // c40
, // c41a
  // c41b
}
    // c42
packet
    // c43
Quote // c44a
  // c44b
{ // c45a
  // c45b
zchar[ // c46
2 ] // c48a
  // c48b
OrderId
    // c49
, } // c51
packet Ack // c53
{ // c54a
  // c54b
repeat // c55a
  // c55b
string // c56a
  // c56b
lastPx ,
    // c58
zchar[ // c59a
  // c59b
4 // c60
]
    // c61
price , uint32 OrderId // c65a
  // c65b
, // c66
Quote
    // c67
,
    // c68
int8 // c69a
  // c69b
Acct
    // c70
,
    // c71
} packet Fill
    // c74
{
    // c75
repeat
    // c76
Leg // c77
, // c78a
  // c78b
@rightPad // c79a
  // c79b
( '0' // c81a
  // c81b
) // c82
char[
    // c83
11
    // c84
]
    // c85
Note , // c87a
  // c87b
f64
    // c88
Px ,
    // c90
@rightPad // c91a
  // c91b
( // c92
'\x00'
    // c93
) // c94a
  // c94b
char[ // c95a
  // c95b
5 // c96
] // c97a
  // c97b
Flags // c98
, zchar[ // c100a
  // c100b
9 // c101a
  // c101b
] // c102
x // c103
, // c104a
  // c104b
string // c105a
  // c105b
msgKind // c106
, } // c108
root packet // c110a
  // c110b
Order // c111a
  // c111b
{ // c112
Leg // c113
, // c114a
  // c114b
repeat // c115
Ack // c116
, @rightPad ( // c119a
  // c119b
'\x00' // c120
) char[
    // c122
3 ] // c124a
  // c124b
Side2
    // c125
, // c126
repeat
    // c127
char[
    // c128
1 // c129a
  // c129b
] // c130
seqNo
    // c131
, // c132
u16 // c133
clOrdID
    // c134
, // c135a
  // c135b
match
    // c136
clOrdID // c137
as Body
    // c139
{
    // c140
198 // c141a
  // c141b
: // c142
Leg // c143a
  // c143b
, // c144a
  // c144b
23 :
    // c146
Quote // c147a
  // c147b
, // c148
13 // c149a
  // c149b
: // c150a
  // c150b
Ack // c151
,
    // c152
159
    // c153
:
    // c154
Fill // c155a
  // c155b
,
    // c156
} , u32 venue // c160
@calculatedFrom( // c161a
  // c161b
""CRC32"" // c162
) // c163a
  // c163b
,
    // c164
} // c165a
  // c165b
")).
Eval vm_compute in ("<<<M1563>>>" ++ check (runes_of_ascii "options {StringPrefixLenType
	= u16
    ; ArrayPrefixLenType=
u16 ;} packet SampleBinary{ 
uint16 
MsgType
    `" ++ [28040; 24687; 31867; 22411]%N ++ runes_of_ascii "`	, 
u16 BodyLenght @lengthOf( Body
    ) 
`" ++ [28040; 24687; 20307; 38271; 24230]%N ++ runes_of_ascii "` 
,
	match MsgType

as Body 
{ 
1:
Logon  , 
2 : 
Logout,

3 : Heartbeat
    ,4
:
    RiskControlRequest  ,
5

    : RiskControlResponse

    ,
}  ,
	@calculatedFrom( ""CRC32"" )u32
Ckecksum`" ++ [26657; 39564; 21644]%N ++ runes_of_ascii "` ,}packet

Logon

{ @leftPad 
('0' )

    char[
    10

    ]
    UserName

    `" ++ [29992; 25143; 21517]%N ++ runes_of_ascii "` ,

    string	Password

    `" ++ [23494; 30721]%N ++ runes_of_ascii "`

,
	uint64
    ClientId

`" ++ [23458; 25143; 31471]%N ++ runes_of_ascii "ID`,  u16
    HeartbeatInterval
	`" ++ [24515; 36339; 38388; 38548]%N ++ runes_of_ascii "` ,}	packet Logout  { @rightPad
    (
    '0'

    )

    char[ 10 ]
	UserName
    `" ++ [29992; 25143; 21517]%N ++ runes_of_ascii "`  ,
	uint64
    ClientId
`" ++ [23458; 25143; 31471]%N ++ runes_of_ascii "ID`  , } 
packet

    Heartbeat
{ }
	packet RiskControlRequest

    {string UniqueOrderId
	`" ++ [21807; 19968; 35746; 21333; 21495]%N ++ runes_of_ascii "`
	, 
char[

16
]
ClOrdID
`" ++ [23458; 25143; 35746; 21333; 21495]%N ++ runes_of_ascii "`,char[

3

]
	MarketID`" ++ [24066; 22330]%N ++ runes_of_ascii "id` ,

char[
	12

    ]  SecurityID
	`" ++ [35777; 21048; 20195; 30721]%N ++ runes_of_ascii "` 
,

char Side

`" ++ [20080; 21334; 26041; 21521]%N ++ runes_of_ascii "`
    ,
    char
    OrderType

    `" ++ [35746; 21333; 31867; 22411]%N ++ runes_of_ascii "`  ,	u64 Price

    `" ++ [20215; 26684]%N ++ runes_of_ascii "`  , 
u32

Qty  `" ++ [25968; 37327]%N ++ runes_of_ascii "`  , 
repeat string
    ExtraInfo
	`" ++ [38468; 21152; 20449; 24687]%N ++ runes_of_ascii "` ,
repeat

    SubOrder
{ char[
16 ]

ClOrdID`" ++ [23376; 35746; 21333; 21495]%N ++ runes_of_ascii "`

    ,
u64
Price  `" ++ [23376; 35746; 21333; 20215; 26684]%N ++ runes_of_ascii "`
, u32	Qty
`" ++ [23376; 35746; 21333; 25968; 37327]%N ++ runes_of_ascii "`
, },
    }
packet RiskControlResponse	{

    string UniqueOrderId
    `" ++ [21807; 19968; 35746; 21333; 21495]%N ++ runes_of_ascii "`  ,
i32
    Status`" ++ [29366; 24577]%N ++ runes_of_ascii "`

,
string
Msg`" ++ [32467; 26524; 20449; 24687]%N ++ runes_of_ascii "`,  repeat 
Detail
,
}
packet Detail 
{ string RuleName  `" ++ [35268; 21017; 21517; 31216]%N ++ runes_of_ascii "`,

    u16 Code

`" ++ [21407; 22240; 20195; 30721]%N ++ runes_of_ascii "`	,  }
")).
Eval vm_compute in ("<<<M1579>>>" ++ check (runes_of_ascii "  // `tick` ""quote"" 'q'
packet	crc

    {  @tag( 0  ) 	 //x

chars,
    i8i8 @lengthOf(

    packetx
	) ,repeat 
f32a{match

packetx
as 
a1

{""x y""  :  
  //
	// `tick` ""quote"" 'q'
  Packet,
} 
,

},  @leftPad

    ( 
'\x00')
    uint8  int  ,
	match 
float as

a1
{ 
    // `tick` ""quote"" 'q'
	[ 
4294967296 ]	:// " ++ [27880; 37322]%N ++ runes_of_ascii "
    Packet ,
	} 	 //
	,
repeat  zchar[007  ] zchar
`tab	here`,
	repeat 

    // " ++ [27880; 37322]%N ++ runes_of_ascii "
  	// a // b
	x
,
	}
    packet

    string_ 
// c
  { char[
    0123456789
    ] a1
    ,
	@calculatedFrom(

    ""a\\""
    ) 
@tag( 42
	)@leftPad(
	'\x00'
    ) options1
@calculatedFrom(""" ++ [28040; 24687]%N ++ runes_of_ascii """
)
`it's`
,

    repeat  rootA// packet A { u8 x, }
{ 

//
    match
Logon as
	Packet

{[10 
, 255 
,

0
,	007 
, 
""CRC32""
	,	""abc""

    ]

: len
	,""" ++ [28040; 24687]%N ++ runes_of_ascii """ : 
a1 , }	, match
    leftPad

    as
	Header {

    007  :
As
,255
:
repeatCount

    ,	/// triple
""""// packet A { u8 x, }
  : 
matchKey 	 //
    	,  [ 255 , 
3 
,

    ""abc""

,
""""	,

""\n"" ,
    1  ,"""" // " ++ [27880; 37322]%N ++ runes_of_ascii "
	,
42 //x

	] :pack, } ,} 
	// @lengthOf(
  	// `tick` ""quote"" 'q'
,
    int 
{

    int64

chars,
}// @lengthOf(
	, } ")).
Eval vm_compute in ("<<<M1651>>>" ++ check (runes_of_ascii "options {
    FixedStringPadFromLeft = true;
    FixedStringPadChar = '0';
}

packet Leg {
    InPrice0 {
        repeat string clOrdID,
        int16 msgKind,
        zchar[5] Px,
    },
    i16 f1,
    repeat f64 Side2,
    string Acct,
}

packet Cancel {
    zchar[4] clOrdID,
    string seqNo,
    Leg,
    @leftPad('0')
    char[11] OrderId,
}

packet Quote {
    repeat char[4] sym,
    f64 OrderId,
    repeat Leg,
    repeat i64 f1,
    int16 Note,
    zchar[3] count,
}

root packet Ack {
    @leftPad(' ')
    char[10] sym,
    InPx60 {
        Cancel,
        repeat char[1] f1,
        string Tail,
        repeat InNote55 {
            int8 count,
            f64 f1,
            repeat Cancel,
        },
        char[] tag7,
        repeat string msgKind,
    },
    u8 lastPx,
    match lastPx as Body {
        152 : Quote,
        173 : Cancel,
        4 : Leg,
    },
    u16 Ref @calculatedFrom(""CR\
    C32""),
}")).
Eval vm_compute in ("<<<M237>>>" ++ check (runes_of_ascii "root
    packet
    asx { // `tick` ""quote"" 'q'
f32a	,
@calculatedFrom(
""abc"") zchar[ 65535 ]	metadata `
` , @calculatedFrom(// " ++ [128512]%N ++ runes_of_ascii " emoji
""CRC32"" // `tick` ""quote"" 'q'
) Header `doc`
    // @lengthOf(
    , match
f32a as
msg_type
// @lengthOf(
//x
{ [ ""\n"" ] /// triple
:
charz// @lengthOf(
0123456789 :
pack
    // `tick` ""quote"" 'q'
    ,//x
[ ""packet"" , """",
    // @lengthOf(
    ""`tick`"" ,
    ""CRC32"" , ""\n"" ,
// `tick` ""quote"" 'q'
// trailing space 
""it's""//	t
,
""it's"", //
4294967296 ]
:
charz
42
    : leftPad , [
255 ,	7 , ""packet"" , // trailing space 
""{,}""
    , ""\" ++ [233]%N ++ runes_of_ascii """ ,""1""
    ,	""1""  ] : msg_type
,
    [ """ ++ [128512]%N ++ runes_of_ascii """
    ]:  i64_ } ,  }packet body { } root packet i64_
    { uint16  Header @calculatedFrom(
""" ++ [233]%N ++ runes_of_ascii "t" ++ [233]%N ++ runes_of_ascii """ )
    ``
    ,float64 string_@calculatedFrom( // a // b
""`tick`"") , repeat zchar[ // @lengthOf(
1] packetx`it's` ,
} //	t")).
Eval vm_compute in ("<<<M1614>>>" ++ check (runes_of_ascii "MetaData x {
    len crc,
    float asx,
    i32 uint8x `line1
    line2`,
    u16 tag `it's`,
    As string_,
}

packet metadata {
    @lengthOf(zchar)
    // c
    i64_ @calculatedFrom(""\" ++ [233]%N ++ runes_of_ascii """),//x
    @leftPad('\x00')
    zchar[10] zchar,
    lengthOf string_,
    int @lengthOf(pack),
    zchar[00] Foo,
    @lengthOf(packetx)
    @leftPad('\x00')
    @calculatedFrom(""x y"")
    uint16 len @calculatedFrom("""") `two words`,
    int8 metadata @lengthOf(Foo) `two words`,// @lengthOf(
}

options {
}

packet pack {
    // `tick` ""quote"" 'q'
    //
    f64 o,
    T BodyLength,
    repeat uint8 chars `" ++ [233]%N ++ runes_of_ascii "`,
    repeat Logon u,
    @tag(0123456789)
    char[] repeatCount @lengthOf(_x) `
    `,//
    @tag(7)
    repeatCount @calculatedFrom(""packet"") `{ , }`,
}")).
Eval vm_compute in ("<<<M1456>>>" ++ check (runes_of_ascii "  // top
packet  // c0a
  	// c0b

  Sub// c1
    	{ 
	// c2
u8	// c3a
    // c3b
  	a
    // c4
		, // c5
    @calculatedFrom( ""CRC16""
)

// c8
    i32  // c9

	SubSum  
      // c10
  ,
}  // c12
	  root
packet // c14a
	// c14b
	Frame 	 // c15
      { 
    // c16
  u16 

    // c17
	MsgType// c18a
    // c18b
		,	// c19
u16 	 // c20a
  // c20b
  BodyLen // c21a
	// c21b
  @lengthOf( Body
	)
    ,	// c25a
      // c25b
    Sub

// c26

Body // c27
  , 

    // c28

	string 	 // c29a
  	// c29b
  	note	// c30a
	// c30b

,
	    // c31
		@calculatedFrom(// c32
  ""CRC16"" )i32

Checksum 	 // c36a
    // c36b
    , // c37a
  	// c37b
	u8// c38
  tail
,
}  
  // c41
")).
Eval vm_compute in ("<<<M147>>>" ++ check (runes_of_ascii "root
    packet falsey{	@tag( 255) len@calculatedFrom( ""`tick`""
    )//
,match MetaDataX as
crc
{	[7 ] :
    roots ,} ,	@tag( 10 ) @tag(
// `tick` ""quote"" 'q'
// `tick` ""quote"" 'q'
10//
) @tag( 255)	repeat /// triple
uint64 rootA	, tag // a // b
`" ++ [28040; 24687; 31867; 22411]%N ++ runes_of_ascii "` ,
float32  i64_ , int64 _x  `doc` , @leftPad( ' '
    )
match
// @lengthOf(
// @lengthOf(
i8i8 as pack { // `tick` ""quote"" 'q'
7 : Logon , ""x y"" : lengthOf , } , // trailing space 
match x_y_z as u
{
// `tick` ""quote"" 'q'
// " ++ [27880; 37322]%N ++ runes_of_ascii "
[ 0123456789 ] :	packetx ,007 :x_y_z
// trailing space 
//
, 10 : rootA , 7 : u 0123456789 :falsey
, }	, // packet A { u8 x, }
}
")).
Eval vm_compute in ("<<<M1803>>>" ++ check (runes_of_ascii "

  packet	leftPad//
  	{

    @rightPad
(
)repeat 
chars {
crc  /// triple
pack , 
}

,
@calculatedFrom(  """ ++ [28040; 24687]%N ++ runes_of_ascii """
)	@lengthOf(
options1
) 
@tag(	65535  ) Foo ,	match  matchKey as	// " ++ [128512]%N ++ runes_of_ascii " emoji
      tag {
        // c
[""{,}"" , """"
,  ""`tick`"" ,3 ,	""it's""
,
	""" ++ [128512]%N ++ runes_of_ascii """ ,""it's""]
	:  As 
,
[
    /// triple
      //	t

""x y""
] 
	    //x
    	:chars	,
""" ++ [233]%N ++ runes_of_ascii "t" ++ [233]%N ++ runes_of_ascii """  :uint8x

    ,4294967296	:	packetx ""// no comment""
: calculatedFrom,	}  ,
@calculatedFrom(

""// no comment"" 	 // @lengthOf(
    	)  char[ // trailing space 
	  007

    ]	f32a

    ,}  // a // b")).
Eval vm_compute in ("<<<M1349>>>" ++ check (runes_of_ascii "options {
    ArrayPrefixLenType = u64;
    FixedStringPadFromLeft = true;
    FixedStringPadChar = '0';
}
packet Quote {
}
packet Ack {
    repeat InNote66 {
        u8 pad0,
    },
}
packet Reject {
}
root packet Order {
    Quote,
    repeat Reject,
    string venue,
    string seqNo,
    uint32 Ref,
    u16 lastPx,
    u32 clOrdID @lengthOf(Body),
    match lastPx as Body {
        190 : Reject,
        186 : Quote,
        22 : Ack,
    },
    u16 Flags @calculatedFrom(""CR\
C32""),
}
")).
Eval vm_compute in ("<<<M1429>>>" ++ check (runes_of_ascii "options {
    LittleEndian = true;
    StringPrefixLenType = u64;
    ArrayPrefixLenType = u16;
    FixedStringPadFromLeft = false;
    FixedStringPadChar = ' ';
}

packet Logon {
    zchar[5] Side2,
}

root packet Logout {
    repeat i64 Tail,
    Logon,
    repeat i16 OrderId,
    char[] venue,
    uint64 x,
    repeat i16 count,
    u8 Flags,
    match Flags as Body {
        25 : Logon,
    },
    u16 Qty @calculatedFrom(""CR\
        C32""),
}")).
Eval vm_compute in ("<<<M126>>>" ++ check (runes_of_ascii "
packet T// c
{ @tag(  00 )repeat char[]	charz
`
` , char[0123456789 ]BodyLength
    @lengthOf( //x
Z9_
    )
    `u8 x,`
,
}	MetaData
crc {
float64
int `" ++ [28040; 24687; 31867; 22411]%N ++ runes_of_ascii "`// a // b
,	As Logon `` , // `tick` ""quote"" 'q'
uint8 // " ++ [27880; 37322]%N ++ runes_of_ascii "
u
, u32  stringy `
`,
// a // b
//	t
uint64 uint8x , asx
calculatedFrom	,//x
} MetaData chars { char[ 1
    // `tick` ""quote"" 'q'
    ] //	t
chars ,
    } // trailing space ")).
Eval vm_compute in ("<<<M75>>>" ++ check (runes_of_ascii "packet zchar { @calculatedFrom( ""`tick`""
) uint32
    falsey,} MetaData packetx {
string
//
// @lengthOf(
msg_type `u8 x,`, }packet i8i8 {zchar@lengthOf(
uint8x
    ) ,
    }packet As{ zchar[ 4294967296
    // " ++ [27880; 37322]%N ++ runes_of_ascii "
    ] T	@calculatedFrom( ""abc"" ) , @tag(007 )
    repeat
    i16
// " ++ [27880; 37322]%N ++ runes_of_ascii "
// packet A { u8 x, }
u8x `say ""hi""`, @lengthOf( u )
repeat uint16 u128 , }")).
Eval vm_compute in ("<<<M1467>>>" ++ check (runes_of_ascii "packet a1 {
    @leftPad()
    float @lengthOf(uint8x),
}

packet Logon {
    char Logon @calculatedFrom(""a\\""),
    T stringy,
    //
    // c
    repeat uint8 stringy `two words`,
}

MetaData charz {
    u tag `
    `,
    a1 falsey,//x
    Z9_ matchKey,
    f64 lengthOf `a\`,
    f32a roots ``,
    float64 x_y_z,
}")).
Eval vm_compute in ("<<<M35>>>" ++ check (runes_of_ascii "  packet Header
{ @calculatedFrom( // a // b
""a	b"" )
char[
    255] falsey `tab	here`,int8
    // " ++ [27880; 37322]%N ++ runes_of_ascii "
    u
`doc` , float32 lengthOf
    @calculatedFrom(
""a	b""  )
    // a // b
    , @rightPad (
' '  ) @tag( 3
) float64 asx
    ,
int8 metadata @lengthOf(zchar )// a // b
,Pad f32a , }")).
Eval vm_compute in ("<<<M1291>>>" ++ check (runes_of_ascii "// top
root
    // c0
packet
    // c1
P // c2a
  // c2b
{ // c3
u8 // c4
s_u8 // c5a
  // c5b
, // c6
repeat u8 // c8a
  // c8b
r_u8 // c9a
  // c9b
,
    // c10
u16 // c11a
  // c11b
b_len // c12a
  // c12b
, // c13a
  // c13b
} // c14a
  // c14b
")).
Eval vm_compute in ("<<<M1929>>>" ++ check (runes_of_ascii "root packet string_ {
    @leftPad(' ')
    chars {
        repeat zchar[0] tag,
        string falsey,// " ++ [128512]%N ++ runes_of_ascii " emoji
        repeat char[007] body `two words`,
    },
    @calculatedFrom(""// no comment"")
    Foo T,// " ++ [128512]%N ++ runes_of_ascii " emoji
}")).
Eval vm_compute in ("<<<M38>>>" ++ check (runes_of_ascii "options
{ falsey
    /// triple
    = false ; falsey=
    //
    int16// `tick` ""quote"" 'q'
;
    // `tick` ""quote"" 'q'
    A =
    // trailing space 
    u32  ;
    trueish	= 1  ;
    }
")).
Eval vm_compute in ("<<<M191>>>" ++ check (runes_of_ascii "options
{ Logon
=char[	00
]
;
zchar
    = false Logon =	i8
    ;}options { asx = '0' int = ""\" ++ [233]%N ++ runes_of_ascii """  calculatedFrom= '\x00'// packet A { u8 x, }
; // `tick` ""quote"" 'q'
}
")).
Eval vm_compute in ("<<<M1869>>>" ++ check (runes_of_ascii "

  packet 
A

{match

k

as  n

    {
[
    ""a"" 
,  ""bb""
,""c c""  ,""d""
,
""e"", ""f""

    ,""g"" 
, ""h"" 
]
:  B

    ,

    2 
:
    C
    }
,

    } ")).
Eval vm_compute in ("<<<M1480>>>" ++ check (runes_of_ascii "
packet 
i64_
{ }
MetaData
uint8x { Packet
tag
    ,
u8	repeatCount  ,
	x_y_z	_x

    `" ++ [233]%N ++ runes_of_ascii "`  ,  zchar[
    42
    ]
	crc
	`a\`
, 
}

    options{ }
")).
Eval vm_compute in ("<<<M546>>>" ++ check (runes_of_ascii "packet uint8x
{ match pack
    as msg_type	{
    0123456789 :	float
}
,
} packet //	t
a1
    { } options {packetx
    = '\x00'	; @ u128= ""a	b""  ; }
")).
Eval vm_compute in ("<<<M448>>>" ++ check (runes_of_ascii "packet uint8x
{ match pack
    as msg_type	{
    0123456789 :	float
=
,
} packet //	t
a1
    { } options {packetx
    = '\x00'	; u128= ""a	b""  ; }
")).
Eval vm_compute in ("<<<M475>>>" ++ check (runes_of_ascii "packet uint8x
{ match pack
    as msg_type	{
    0123456789 :	float
}
,
} packet //	t
a1
    {  options {packetx
    = '\x00'	; u128= ""a	b""  ; }
")).
Eval vm_compute in ("<<<M703>>>" ++ check (runes_of_ascii "// @lengthOf(
packet i8i8 { u128 o , }
options '1'{ MetaDataX = true;
    BodyLength =""packet"" x_y_z= 007
crc //x
= ""abc"" ;
    msg_type =
i16 }")).
Eval vm_compute in ("<<<M1873>>>" ++ check (runes_of_ascii "packet A {
    match k as n {
        [
            ""a"", ""bb"", ""c c"", ""d"", ""e"",
            ""f"", ""g"", ""h""
        ] : B,
        2 : C,
    },
}")).
Eval vm_compute in ("<<<M1637>>>" ++ check (runes_of_ascii "
packet
	uint8x  {
match
pack 
as
	msg_type
{ 0123456789: float
	}, }
packet 	 //	t
a1
{	}options
{
	packetx	= 
'\x00'
	;
u128 
=	""a	b""  }
")).
Eval vm_compute in ("<<<M1847>>>" ++ check (runes_of_ascii "

  packet A 
{match

k	as n {	[ 1  ,
22	,
007, 
4 
,5 ,	66	,

7  , 
8  , 9 ,

10,

    11 ,  12
    ]:
B

    2 :C}  ,

    }
")).
Eval vm_compute in ("<<<M1725>>>" ++ check (runes_of_ascii "

  packet
A
{match k as
n

    {

    [
1
	,
22,	""c c""  , 
4
	,	5
    ,
    ""f"" ,
7 , 
8
    ]: B

    , 
2  :
	C }

, }")).
Eval vm_compute in ("<<<M1577>>>" ++ check (runes_of_ascii "packet A {
    Inner {
        u8 x `a
        b`,
        Deep {
            u8 y `a
            b`,
        },
    },
}")).
Eval vm_compute in ("<<<M1163>>>" ++ check (runes_of_ascii "MetaData leftPad { chars MetaDataX , } packet repeatCount { char[ // c
255 ] uint8x `" ++ [233]%N ++ runes_of_ascii "` , } MetaData pack { As Foo , }")).
Eval vm_compute in ("<<<M218>>>" ++ check (runes_of_ascii "
MetaData
uint8x { char[ 007
    ]leftPad ,Pad
T ,u64 BodyLength , char[] int  ,float
Z9_ , float32 metadata
    , }
")).
Eval vm_compute in ("<<<M943>>>" ++ check (runes_of_ascii "packet A {
    u16 len @lengthOf(body) `a

b`,
    u32 crc @calculatedFrom(""CRC32"") `a

b`,
    string body,
}")).
Eval vm_compute in ("<<<M535>>>" ++ check (runes_of_ascii "packet uint8x
{ match pack
    as msg_type	{
    0123456789 :	float
}
,
} packet //	t
a1
    { } opti")).
Eval vm_compute in ("<<<M884>>>" ++ check (runes_of_ascii "packet A {
  match k as n {
    [""a"", 22, ""c c"", 4, ""e"", 66, ""g"", 8, ""i"", 10] : B,
    2 : C
  },
}")).
Eval vm_compute in ("<<<M1479>>>" ++ check (runes_of_ascii "packet  A{
match k
as n

    {  [1
,
22	,
007
,  4
, 5  ,

66, 
7  , 
8
	,
9]:
	B
2:C }
	,}

")).
Eval vm_compute in ("<<<M869>>>" ++ check (runes_of_ascii "packet A {
  match k as n {
    [1, ""bb"", 007, ""d"", 5, ""f"", 7, ""h"", 9] : B,
    2 : C
  },
}")).
Eval vm_compute in ("<<<M858>>>" ++ check (runes_of_ascii "packet A {
  match k as n {
    [""a"", 22, ""c c"", 4, ""e"", 66, ""g"", 8] : B,
    2 : C
  },
}")).
Eval vm_compute in ("<<<M612>>>" ++ check (runes_of_ascii "
packet
    asx {match u128 as lengthOf
{
//	t
// `tick` ""quote"" 'q'
255 : x ,
     ,	}")).
Eval vm_compute in ("<<<M1246>>>" ++ check (runes_of_ascii "options {
    LittleEndian = true;
}
root packet P {
    repeat char cs,
    u8 x,
}
")).
Eval vm_compute in ("<<<M830>>>" ++ check (runes_of_ascii "packet A {
  match k as n {
    [1, ""bb"", 007, ""d"", 5, ""f""] : B,
    2 : C
  },
}")).
Eval vm_compute in ("<<<M802>>>" ++ check (runes_of_ascii "packet A {
  match k as n {
    [""a"", ""bb"", ""c c"", ""d""] : B,
    2 : C
  },
}")).
Eval vm_compute in ("<<<M822>>>" ++ check (runes_of_ascii "packet A {
  match k as n {
    [1, 22, ""c c"", 4, 5] : B
    2 : C
  },
}")).
Eval vm_compute in ("<<<M449>>>" ++ check (runes_of_ascii "packet uint8x
{ match pack
    as msg_type	{
    0123456789 :	float")).
Eval vm_compute in ("<<<M1101>>>" ++ check (runes_of_ascii "// top
MetaData
    // c0
tag
    // c1
{
    // c2
}
    // c3
")).
Eval vm_compute in ("<<<M775>>>" ++ check (runes_of_ascii "packet A {
  match k as n {
    [""a""] : B,
    2 : C
  },
}")).
Eval vm_compute in ("<<<M1813>>>" ++ check (runes_of_ascii "MetaData M {
    u8 x `a
    b`,
    T t `a
    b`,
}")).
Eval vm_compute in ("<<<M1210>>>" ++ check (runes_of_ascii "packet body { i32 f32a `{ , }`
// c
, } options { }")).
Eval vm_compute in ("<<<M1895>>>" ++ check (runes_of_ascii "

  packet

    A 
{ 
u8
x `d" ++ [133]%N ++ runes_of_ascii "`	,// c" ++ [133]%N ++ runes_of_ascii "
    }
")).
Eval vm_compute in ("<<<M212>>>" ++ check (runes_of_ascii "packet
    MetaDataX {i16 u128`" ++ [233]%N ++ runes_of_ascii "` , //x
}")).
Eval vm_compute in ("<<<M1531>>>" ++ check (runes_of_ascii "// c
    packet  asx
	{
}/// triple
")).
Eval vm_compute in ("<<<M85>>>" ++ check (runes_of_ascii "options// c
{MetaDataX =int16 }
")).
Eval vm_compute in ("<<<M983>>>" ++ check (runes_of_ascii "packet A {
 u8 x `d" ++ [12288]%N ++ runes_of_ascii "`, // c" ++ [12288]%N ++ runes_of_ascii "
}")).
Eval vm_compute in ("<<<M419>>>" ++ check (runes_of_ascii "packet uint8x
{ match pack")).
Eval vm_compute in ("<<<M286>>>" ++ check (runes_of_ascii " // `tick` ""quote"" 'q'")).
Eval vm_compute in ("<<<M1812>>>" ++ check (runes_of_ascii "// `tick` ""quote"" 'q'")).
Eval vm_compute in ("<<<M103>>>" ++ check (runes_of_ascii "packet packetx	{ }")).
Eval vm_compute in ("<<<M1047>>>" ++ check (runes_of_ascii "// c" ++ [8203]%N ++ runes_of_ascii "
packet A {
}")).
Eval vm_compute in ("<<<M1082>>>" ++ check (runes_of_ascii "options { // a
 }")).
Eval vm_compute in ("<<<M319>>>" ++ check (runes_of_ascii "packet o
{
}
")).
Eval vm_compute in ("<<<M995>>>" ++ check (runes_of_ascii "// c" ++ [5760]%N)).
Eval vm_compute in ("<<<M727>>>" ++ check (runes_of_ascii "")).
