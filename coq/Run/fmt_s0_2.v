From FP Require Import Lexer Parser ShowPT Digest Formatter.
From Coq Require Import String List NArith.
Import ListNotations.
Open Scope string_scope.
Set Printing Width 100000000.
Set Printing Depth 100000000.
Definition show_fres (r : fres) : string :=
  match r with
  | FOk s => "OK:" ++ sh_escaped s ""
  | FErr s => "ERR:" ++ sh_escaped s ""
  | FPanic p => "PANIC:" ++ p
  end.
Definition check (rs : list rune) : string := digest (show_fres (format_res rs)).
Definition full (rs : list rune) : string := show_fres (format_res rs).
Eval vm_compute in ("<<<M1330>>>" ++ check (runes_of_ascii "options {
    // c1
FixedStringPadFromLeft // c2
= // c3
true
    // c4
;
    // c5
FixedStringPadChar // c6
=
    // c7
'0' // c8
; // c9
} packet Leg { // c13a
  // c13b
InPrice0
    // c14
{ // c15
repeat
    // c16
string // c17a
  // c17b
clOrdID // c18
,
    // c19
int16 // c20a
  // c20b
msgKind ,
    // c22
zchar[
    // c23
5 // c24
] // c25
Px // c26a
  // c26b
, // c27a
  // c27b
} // c28a
  // c28b
,
    // c29
i16 // c30
f1
    // c31
,
    // c32
repeat // c33a
  // c33b
f64 // c34a
  // c34b
Side2
    // c35
,
    // c36
string // c37
Acct // c38
,
    // c39
} packet // c41a
  // c41b
Cancel // c42
{
    // c43
zchar[ // c44a
  // c44b
4 // c45
] // c46a
  // c46b
clOrdID , // c48a
  // c48b
string
    // c49
seqNo // c50
, // c51
Leg
    // c52
,
    // c53
@leftPad // c54
(
    // c55
'0'
    // c56
) // c57
char[
    // c58
11 // c59
] OrderId // c61
, // c62
} // c63a
  // c63b
packet
    // c64
Quote // c65a
  // c65b
{
    // c66
repeat // c67a
  // c67b
char[ // c68
4 ]
    // c70
sym , f64 // c73a
  // c73b
OrderId
    // c74
, repeat Leg // c77
,
    // c78
repeat // c79a
  // c79b
i64 f1
    // c81
, int16 // c83
Note // c84
, // c85
zchar[ // c86a
  // c86b
3 ] // c88
count // c89a
  // c89b
, // c90
}
    // c91
root packet // c93
Ack
    // c94
{ // c95
@leftPad // c96
(
    // c97
' '
    // c98
)
    // c99
char[ 10 // c101
] // c102a
  // c102b
sym
    // c103
,
    // c104
InPx60 // c105
{ Cancel // c107
, // c108a
  // c108b
repeat char[ 1
    // c111
] // c112a
  // c112b
f1 , // c114a
  // c114b
string // c115a
  // c115b
Tail , // c117
repeat
    // c118
InNote55 {
    // c120
int8 // c121
count
    // c122
, // c123a
  // c123b
f64 // c124
f1 // c125
, repeat // c127a
  // c127b
Cancel // c128
,
    // c129
} // c130
, char[] // c132
tag7 , // c134a
  // c134b
repeat // c135a
  // c135b
string msgKind , // c138a
  // c138b
} // c139a
  // c139b
, // c140
u8
    // c141
lastPx // c142
, // c143
match lastPx
    // c145
as // c146a
  // c146b
Body // c147
{ // c148a
  // c148b
152 // c149
: // c150a
  // c150b
Quote , 173 :
    // c154
Cancel // c155
,
    // c156
4
    // c157
: Leg , // c160a
  // c160b
} , // c162a
  // c162b
u16 Ref
    // c164
@calculatedFrom( // c165
""CRC32"" ) // c167a
  // c167b
, } // c169
")).
Eval vm_compute in ("<<<M313>>>" ++ check (runes_of_ascii "options { BodyLength = char[ 7] ;	}
// c
// @lengthOf(
packet asx// " ++ [128512]%N ++ runes_of_ascii " emoji
{ int16
    x_y_z , @calculatedFrom(
    """" ) @lengthOf(
    /// triple
    chars) //
repeat repeatCount
charz
/// triple
// " ++ [27880; 37322]%N ++ runes_of_ascii "
, @leftPad ( ) i64_@calculatedFrom(
""\" ++ [233]%N ++ runes_of_ascii """	) `// not a comment` , tag Z9_
`two words` ,
@lengthOf( asx
)@calculatedFrom(
""`tick`""
    )match uint8x as
matchKey
    {0123456789
// packet A { u8 x, }
// a // b
: u8x ,1 : zchar , } ,u128 @lengthOf( u128 // packet A { u8 x, }
)// " ++ [128512]%N ++ runes_of_ascii " emoji
, } MetaData	msg_type  {
string
BodyLength  `two words` , options1// " ++ [128512]%N ++ runes_of_ascii " emoji
i64_ ,
    }// " ++ [128512]%N ++ runes_of_ascii " emoji
packet roots { u `` , @calculatedFrom( ""a	b"")match len as	msg_type{
    // c
    """ ++ [28040; 24687]%N ++ runes_of_ascii """
:
charz}, crc @calculatedFrom(
// packet A { u8 x, }
// packet A { u8 x, }
""it's"" ) `a\`
,@leftPad
( '0' )@tag( 007	) zchar[// trailing space 
3
    // trailing space 
    ] falsey ,  @calculatedFrom(// `tick` ""quote"" 'q'
""\n""
    )@calculatedFrom(""CRC32""// c
)
    // trailing space 
    match
    //x
    Packet as // @lengthOf(
stringy	{ 1:
Pad
, ""it's"" :f32a ,
} , @leftPad (
' '
)
    match // " ++ [27880; 37322]%N ++ runes_of_ascii "
int as	a1 { [ 0123456789 ,255]
    :
    options1
//x
//x
}
    ,BodyLength
    //
    @calculatedFrom( """ ++ [28040; 24687]%N ++ runes_of_ascii """ ),
float32
    zchar
@calculatedFrom( ""// no comment""
)
,	@tag( 10 ) zchar[
    // packet A { u8 x, }
    1  ] rootA , }
")).
Eval vm_compute in ("<<<M1836>>>" ++ check (runes_of_ascii "root packet 
roots
{// `tick` ""quote"" 'q'
}
options { asx=
""\n""
    ;
x_y_z=
3	; rootA =
""CRC32"" ;

    float

=
	char
    T= false ;
    } packet  falsey{

    body
{	match
    u8x	as	/// triple
string_

    {  [
42,

    7

, 65535 ,  3 
,
	42

    , 
7
	, ""1""
    ,
""packet"" ]  : 
	    // `tick` ""quote"" 'q'
    	i64_

, 
[""abc""] : Foo ,
""a\\""	:

    roots

    ,4294967296
    : stringy } 
, //x
  asx`{ , }` 	 // " ++ [128512]%N ++ runes_of_ascii " emoji
    , i8
charz
    @lengthOf(	// trailing space 
    x_y_z)// trailing space 
  `a\` ,

} 
  // @lengthOf(
    , @tag(65535
)
i64_
	@lengthOf( tag
) 
`u8 x,` 

// a // b

  //	t
	,
Z9_
@lengthOf(  int) ,
    @calculatedFrom(

""a\""b""
    ) uint16
stringy @lengthOf( 
trueish) 
, Logon {
string Logon`say ""hi""`  ,

    packetx i64_

    , match	msg_type

    as
	float
{ ""\n""  :
i64_,
    [  """ ++ [128512]%N ++ runes_of_ascii """ ] :
	metadata ,  // `tick` ""quote"" 'q'

[  
  // trailing space 

	// " ++ [128512]%N ++ runes_of_ascii " emoji
  10

,
    ""1""
]
	:
zchar , }
	, //x
	}

    //x
	, Packet  @calculatedFrom( 
""CRC32""

    )
,
    }

")).
Eval vm_compute in ("<<<M289>>>" ++ check (runes_of_ascii "options  {
// " ++ [27880; 37322]%N ++ runes_of_ascii "
//x
float // packet A { u8 x, }
=char[]
    // @lengthOf(
    ; Header = false
//
/// triple
}
    // `tick` ""quote"" 'q'
    options {	x =char[] ; }	MetaData i64_{f64 As
    /// triple
    `
` , repeatCount MetaDataX
// `tick` ""quote"" 'q'
// `tick` ""quote"" 'q'
,
repeatCount u128 //x
,	metadata msg_type `tab	here`
    ,
    }
packet  options1
    {
    repeat char[0123456789] T  , @tag(  65535
)
    //x
    @calculatedFrom( ""CRC32""
) @calculatedFrom( """ ++ [28040; 24687]%N ++ runes_of_ascii """ ) repeat string
Logon
    ,	@lengthOf( u128 )
stringy  {string_ x ,
} , @tag( // " ++ [27880; 37322]%N ++ runes_of_ascii "
10) u64 tag @lengthOf(roots), Foo	@lengthOf(
Foo
)`// not a comment` ,
string pack `a\` , match A
    as charz {
[ 3 ] : x ,} ,@tag(42 ) f64 msg_type @lengthOf(
trueish )
,match	pack /// triple
as
options1 { """ ++ [28040; 24687]%N ++ runes_of_ascii """ : // packet A { u8 x, }
string_ ,	[ 65535, 7 ,
""a\""b""
    , 7]//	t
: f32a 4294967296: o ,  }	,
    char[] falsey ,
} // " ++ [128512]%N ++ runes_of_ascii " emoji")).
Eval vm_compute in ("<<<M1523>>>" ++ check (runes_of_ascii "packet o {
    repeat pack stringy `two words`,
    char[1] leftPad,
}

MetaData msg_type {
    zchar[1] Pad `" ++ [28040; 24687; 31867; 22411]%N ++ runes_of_ascii "`,
    uint32 charz `a\`,
    A u8x `// not a comment`,
}

packet options1 {
    @calculatedFrom(""" ++ [233]%N ++ runes_of_ascii "t" ++ [233]%N ++ runes_of_ascii """)
    @rightPad()
    Pad @lengthOf(pack) ``,
    match A as a1 {
        255 : msg_type,
    },
    @lengthOf(tag)
    @tag(00)
    @rightPad(' ')
    match Header as f32a {
        """" : float,
    },
    char[] T @calculatedFrom(""packet""),
    repeat asx msg_type `crlf
    line`,
    @calculatedFrom(""\" ++ [233]%N ++ runes_of_ascii """)
    @tag(7)
    int64 o `line1
    line2`,
}// " ++ [128512]%N ++ runes_of_ascii " emoji

root packet crc {
    int8 body @lengthOf(matchKey) `two words`,
    @lengthOf(u8x)
    zchar[0123456789] i8i8,
}

MetaData a1 {
    falsey _x `
    `,
    char[] body `" ++ [28040; 24687; 31867; 22411]%N ++ runes_of_ascii "`,
    zchar[42] trueish `
    `,
    float trueish,
    metadata o `{ , }`,
}")).
Eval vm_compute in ("<<<M1124>>>" ++ check (runes_of_ascii "// top
options
    // c0
{ // c1
uint8x // c2a
  // c2b
= 007 // c4a
  // c4b
; lengthOf
    // c6
= i8 ; // c9a
  // c9b
} packet i64_
    // c12
{ // c13
@calculatedFrom( // c14
""1""
    // c15
) // c16
@tag( // c17
3 )
    // c19
@lengthOf(
    // c20
rootA ) // c22
repeat // c23
int8 // c24a
  // c24b
Packet // c25a
  // c25b
`u8 x,` // c26
, // c27
} // c28a
  // c28b
root
    // c29
packet // c30a
  // c30b
stringy
    // c31
{ // c32a
  // c32b
@rightPad ( ' ' // c35
) // c36
repeat // c37a
  // c37b
char[ // c38
10 // c39
] repeatCount // c41a
  // c41b
, // c42
@tag( // c43a
  // c43b
255
    // c44
) // c45
float64
    // c46
msg_type
    // c47
@calculatedFrom( ""packet""
    // c49
) // c50a
  // c50b
, // c51a
  // c51b
} // c52
")).
Eval vm_compute in ("<<<M344>>>" ++ check (runes_of_ascii "options // a // b
{	}
    packet i8i8 { @tag(
3 ) x
@calculatedFrom(
""it's""	) , @lengthOf( f32a ) match
rootA
as uint8x // @lengthOf(
{ 0 : string_ 42 : Packet } , @leftPad
(
    '\x00'
) i64_ packetx `u8 x,` ,
    @calculatedFrom(""x y"" ) matchKey {len  ,
    }  ,
@lengthOf(  matchKey
)
    @calculatedFrom(// `tick` ""quote"" 'q'
""abc"" ) @lengthOf( x_y_z )
    /// triple
    repeat metadata `line1
line2` ,lengthOf repeatCount , /// triple
int32
// " ++ [27880; 37322]%N ++ runes_of_ascii "
//	t
roots @calculatedFrom( ""`tick`"")
`" ++ [233]%N ++ runes_of_ascii "` , zchar[
1	]	Packet	@calculatedFrom(	""// no comment"" ) ,} packet
    options1
{ @lengthOf(
    uint8x ) A @calculatedFrom( ""it's""
    )
`doc`, } root packet crc
{char[	65535	]chars
,}
")).
Eval vm_compute in ("<<<M227>>>" ++ check (runes_of_ascii "packet	crc
    { @lengthOf(Header )	repeat roots
    // @lengthOf(
    `a\` ,
@lengthOf( tag ) match x as string_{ [ ""a\\"" , ""packet""
] : Header""// no comment""
    /// triple
    :
Logon , 7:
falsey ,7  : metadata [ 7  , 00] :
    // `tick` ""quote"" 'q'
    repeatCount 3 : u ,
},
    //	t
    @lengthOf( u128
//
// " ++ [27880; 37322]%N ++ runes_of_ascii "
) @rightPad
(
'\x00' // c
)
char[] int ,int16 Packet @lengthOf(  string_
    ) , trueish{ repeat
crc {zchar
calculatedFrom , } ,
} ,
// @lengthOf(
//x
@rightPad
( ) repeat
    _x pack // " ++ [27880; 37322]%N ++ runes_of_ascii "
, @lengthOf(
// c
// trailing space 
chars)repeat
    string_ {repeat
    uint8x`// not a comment`,}
, }")).
Eval vm_compute in ("<<<M1121>>>" ++ check (runes_of_ascii "// top
root // c0
packet // c1
_x
    // c2
{ match
    // c4
Foo // c5
as // c6a
  // c6b
Z9_ {
    // c8
""a	b"" // c9a
  // c9b
: // c10
Pad // c11
,
    // c12
} , // c14
repeat // c15a
  // c15b
x `line1
line2`
    // c17
, // c18
@rightPad // c19a
  // c19b
(
    // c20
' ' // c21
) // c22
@calculatedFrom( ""a\\""
    // c24
) // c25a
  // c25b
metadata MetaDataX
    // c27
, @tag(
    // c29
0 ) // c31
Logon int
    // c33
``
    // c34
,
    // c35
} // c36
options // c37
{
    // c38
T // c39
= // c40a
  // c40b
'\x00' } // c42a
  // c42b
")).
Eval vm_compute in ("<<<M1677>>>" ++ check (runes_of_ascii "
packet
    leftPad // trailing space 
      {

@tag(	10

    )  @tag(

007 )@lengthOf(
a1
) 
    // a // b
//
  repeat
metadata
    ,

} 	 // " ++ [128512]%N ++ runes_of_ascii " emoji
options
	// @lengthOf(
  	{lengthOf =""" ++ [128512]%N ++ runes_of_ascii """
;
    }	packet  T
	// " ++ [27880; 37322]%N ++ runes_of_ascii "
	{
A

{ 
      //
    	// `tick` ""quote"" 'q'

	tag
@calculatedFrom(	""abc""
)

,  } 
,@lengthOf(  matchKey
    )
    string

    Header	@lengthOf(

    metadata)

    ,

leftPad
    // trailing space 
  @calculatedFrom(  ""a\""b"" ) `crlf
line` ,

    }
")).
Eval vm_compute in ("<<<M180>>>" ++ check (runes_of_ascii "options
    // @lengthOf(
    {}
packet charz { @rightPad (  ' ') @calculatedFrom(
    ""a\\"" ) repeat int	crc `two words` , string stringy
    @calculatedFrom( ""a	b""
    // " ++ [128512]%N ++ runes_of_ascii " emoji
    )`// not a comment`	,//
char i8i8,
}  MetaData	crc {// `tick` ""quote"" 'q'
crc i64_`{ , }`
,
    // `tick` ""quote"" 'q'
    i32// c
u128 ,// packet A { u8 x, }
BodyLength Header
    ,char[ 0123456789]
/// triple
//
Packet `u8 x,`
, uint8 repeatCount , //	t
}")).
Eval vm_compute in ("<<<M1328>>>" ++ check (runes_of_ascii "
options
    {LittleEndian 
=
	true

    ;
    StringPrefixLenType

    =

u16
    ;FixedStringPadChar
    =
    ' '; }packet
Logon

{
@leftPad
    (  '0'

)  char[ 10  ] tag7
, }root

    packet

    Ack
{
    int32 Px 
,
uint16

    count
	,
	string
    Qty ,string OrderId , 
string

    Flags	,  u8 x

,  match x 
as  Body

{[ 58
    ,
169] 
: Logon

,
}	,

    }
")).
Eval vm_compute in ("<<<M1620>>>" ++ check (runes_of_ascii "MetaData

T {
	uint8
float ,repeatCount 
x
,
char[  10
] asx  /// triple
    ,

    char[
00
	] metadata

`" ++ [233]%N ++ runes_of_ascii "`
    ,

u8x asx	//	t
  ,} MetaData
trueish

    { 
charz
string_	`crlf
line`,
zchar[  42 ] 
_x
	    //
    // `tick` ""quote"" 'q'
  , }
	packet
	o 
{

char[]	u8x@calculatedFrom(""abc""

)

, }
options { x

=	255;

u  // " ++ [27880; 37322]%N ++ runes_of_ascii "
= '0'
    }
")).
Eval vm_compute in ("<<<M12>>>" ++ check (runes_of_ascii "options {falsey =int64; u8x = uint32	uint8x =// " ++ [128512]%N ++ runes_of_ascii " emoji
zchar[ 1
]
// @lengthOf(
/// triple
; leftPad =
    ""a	b"";
    calculatedFrom
=
    false ;	}
MetaData Packet
{  zchar[
7]  As ,} root packet	pack {
@leftPad ( )	@tag(// trailing space 
7 ) zchar[ 3 ] u	@lengthOf(
// @lengthOf(
// trailing space 
x ),
}
")).
Eval vm_compute in ("<<<M1559>>>" ++ check (runes_of_ascii "
root 	 // trailing space 
packet
	int {
    f32a
	@calculatedFrom( ""packet""

)

`
`

    ,	}

    options
{
	rootA
// @lengthOf(
	= ""\" ++ [233]%N ++ runes_of_ascii """ ;
    }packet i8i8
    {
	// trailing space 
uint8
uint8x @lengthOf(
    string_	)//	t
    ,
i32  tag //	t
@lengthOf(
	Logon 
),
    }")).
Eval vm_compute in ("<<<M254>>>" ++ check (runes_of_ascii "packet  zchar
{ zchar[ 42
//
//
]uint8x ,
    match
    A as
As{
    0: int
    ,
}
, @tag(7 ) @calculatedFrom(
""packet"" ) match
i64_
as metadata //	t
{
    ""CRC32"" :
A , }
,
    // c
    }	root
packet
uint8x {
    char[ 00 ]	crc
,// " ++ [128512]%N ++ runes_of_ascii " emoji
} 	 ")).
Eval vm_compute in ("<<<M358>>>" ++ check (runes_of_ascii "
packet matchKey	{ // @lengthOf(
@lengthOf(
a1 ) string_
T`" ++ [28040; 24687; 31867; 22411]%N ++ runes_of_ascii "`, //
} packet body {f32 _x  , packetx @lengthOf(
options1 ) // packet A { u8 x, }
`` , @leftPad ( ' ') i16 crc ,@calculatedFrom(
""" ++ [128512]%N ++ runes_of_ascii """
)	Pad
, } //")).
Eval vm_compute in ("<<<M265>>>" ++ check (runes_of_ascii "MetaData
    zchar
{
uint8 _x
// `tick` ""quote"" 'q'
//
`doc` ,
    float64 metadata`doc` // " ++ [128512]%N ++ runes_of_ascii " emoji
, zchar[ 42
    ]
// packet A { u8 x, }
// c
x_y_z , zchar[ 3 ]Logon `{ , }`
, }

")).
Eval vm_compute in ("<<<M1639>>>" ++ check (runes_of_ascii "packet A {
    Inner {
        match k as n {
            [
                1, 22, 007, 4, 5,
                66, 7, 8, 9, 10
            ] : B,
        },
    },
}")).
Eval vm_compute in ("<<<M1907>>>" ++ check (runes_of_ascii "packet A {
    match k as n {
        [
            1, 22, 4, 5, 7,
            8, 10, 11, ""c c"", ""f"",
            ""i""
        ] : B,
        2 : C,
    },
}")).
Eval vm_compute in ("<<<M1479>>>" ++ check (runes_of_ascii "packet calculatedFrom {
    uint8x {
        body `line1
        line2`,
        string crc @lengthOf(uint8x),
        char[] As @lengthOf(Pad),
    },
}")).
Eval vm_compute in ("<<<M545>>>" ++ check (runes_of_ascii "packet uint8x
{ match' pack
    as msg_type	{
    0123456789 :	float
}
,
} packet //	t
a1
    { } options {packetx
    = '\x00'	; u128= ""a	b""  ; }
")).
Eval vm_compute in ("<<<M497>>>" ++ check (runes_of_ascii "packet uint8x
{ match pack
    as msg_type	{
    0123456789 :	float
}
,
} packet //	t
a1
    { } options {packetx
    '\x00' =	; u128= ""a	b""  ; }
")).
Eval vm_compute in ("<<<M1900>>>" ++ check (runes_of_ascii "packet A
	{match 
k	as n
{ 
[

1  ,
""bb""  ,
    007  ,""d"" ,5
    ,

""f"" , 7 
, ""h""

,
    9
,
    ""j"" 
,
    11

    ] :B

,	2
:
C	}

    ,

}

")).
Eval vm_compute in ("<<<M670>>>" ++ check (runes_of_ascii "// @lengthOf(
packet i8i8 { u128 o , }
options { MetaDataX = true;
    BodyLength =""packet"" x_y_z= 007
crc //x
= ""abc"" ;
    msg_type = =
i16 }")).
Eval vm_compute in ("<<<M662>>>" ++ check (runes_of_ascii "// @lengthOf(
packet i8i8 { u128 o , }
{ options MetaDataX = true;
    BodyLength =""packet"" x_y_z= 007
crc //x
= ""abc"" ;
    msg_type =
i16 }")).
Eval vm_compute in ("<<<M706>>>" ++ check (runes_of_ascii "// @lengthOf(
packet i8i8 { u128 o , }
options { MetaDataX = ;
    BodyLength =""packet"" x_y_z= 007
crc //x
= ""abc"" ;
    msg_type =
i16 }")).
Eval vm_compute in ("<<<M1796>>>" ++ check (runes_of_ascii "options {
    LittleEndian = true;
}

packet B {
    u8 a,
    string s,
}

root packet P {
    u16 L @lengthOf(B),
    B,
    u8 t,
}")).
Eval vm_compute in ("<<<M937>>>" ++ check (runes_of_ascii "packet A {
    u16 len @lengthOf(body) `a
    b
  c`,
    u32 crc @calculatedFrom(""CRC32"") `a
    b
  c`,
    string body,
}")).
Eval vm_compute in ("<<<M1149>>>" ++ check (runes_of_ascii "MetaData leftPad { chars // c
MetaDataX , } packet repeatCount { char[ 255 ] uint8x `" ++ [233]%N ++ runes_of_ascii "` , } MetaData pack { As Foo , }")).
Eval vm_compute in ("<<<M1181>>>" ++ check (runes_of_ascii "MetaData leftPad { chars MetaDataX , } packet repeatCount { char[ 255 ] uint8x `" ++ [233]%N ++ runes_of_ascii "` , } MetaData pack { // c
As Foo , }")).
Eval vm_compute in ("<<<M1417>>>" ++ check (runes_of_ascii "
packet
    A {
match
k  as  n

{ [ 
1 ,
22,
	""c c""  ,4 ,	5
    , ""f""	,
7
]

    :
	B  2  :

    C }
,	}
")).
Eval vm_compute in ("<<<M949>>>" ++ check (runes_of_ascii "packet A {
    u16 len @lengthOf(body) `x
`,
    u32 crc @calculatedFrom(""CRC32"") `x
`,
    string body,
}")).
Eval vm_compute in ("<<<M913>>>" ++ check (runes_of_ascii "packet A {
  match k as n {
    [1, 22, ""c c"", 4, 5, ""f"", 7, 8, ""i"", 10, 11, ""l""] : B
    2 : C
  },
}")).
Eval vm_compute in ("<<<M656>>>" ++ check (runes_of_ascii "// @lengthOf(
packet i8i8 { u128 o , }
options { MetaDataX = true;
    BodyLength =""packet"" x_y_z")).
Eval vm_compute in ("<<<M565>>>" ++ check (runes_of_ascii "
packet
    asx true match u128 as lengthOf
{
//	t
// `tick` ""quote"" 'q'
255 : x ,
    } ,	}")).
Eval vm_compute in ("<<<M629>>>" ++ check (runes_of_ascii "
packet
    asx {match u128 as lengthOf
{
//	t
// `tick` ""quote"" 'q'
255 : x ,
    } ~ ,	}")).
Eval vm_compute in ("<<<M609>>>" ++ check (runes_of_ascii "
packet
    asx {match u128 as lengthOf
{
//	t
// `tick` ""quote"" 'q'
255 : x }
    , ,	}")).
Eval vm_compute in ("<<<M1086>>>" ++ check (runes_of_ascii "packet A { match k as n // a
 { // b
 1 // c
 : // d
 B // e
 , // f
 } // g
 , // h
 }")).
Eval vm_compute in ("<<<M1552>>>" ++ check (runes_of_ascii "packet A {
    B b `x
        `,
    B `x
        `,
    repeat B bs `x
        `,
}")).
Eval vm_compute in ("<<<M1273>>>" ++ check (runes_of_ascii "options {
    FixedStringPadFromLeft = true;
}
root packet P {
    char[4] z,
}
")).
Eval vm_compute in ("<<<M1397>>>" ++ check (runes_of_ascii "packet A {
    match k as n {
        [1, ""bb""] : B,
        2 : C,
    },
}")).
Eval vm_compute in ("<<<M789>>>" ++ check (runes_of_ascii "packet A {
  match k as n {
    [""a"", ""bb"", ""c c""] : B,
    2 : C
  },
}")).
Eval vm_compute in ("<<<M801>>>" ++ check (runes_of_ascii "packet A {
  match k as n {
    [1, 22, 007, 4] : B
    2 : C
  },
}")).
Eval vm_compute in ("<<<M155>>>" ++ check (runes_of_ascii "options
{calculatedFrom
= ""abc""
;float=i16
} // trailing space ")).
Eval vm_compute in ("<<<M1697>>>" ++ check (runes_of_ascii "packet A {
    @tag(1)
    u8 x,// b
    @tag(2)
    u8 y,
}")).
Eval vm_compute in ("<<<M1657>>>" ++ check (runes_of_ascii "packet body {
    i32 f32a `{ , }`,
}// c

options {
}")).
Eval vm_compute in ("<<<M1215>>>" ++ check (runes_of_ascii "packet body { i32 f32a `{ , }` , } options // c
{ }")).
Eval vm_compute in ("<<<M284>>>" ++ check (runes_of_ascii "
options{ trueish=
'0' //	t
;a1 = u64
; }")).
Eval vm_compute in ("<<<M1434>>>" ++ check (runes_of_ascii "packet MetaDataX {
    i16 u128 `" ++ [233]%N ++ runes_of_ascii "`,//x
}")).
Eval vm_compute in ("<<<M1871>>>" ++ check (runes_of_ascii "packet A {
    u8 x `a
        b`,
}")).
Eval vm_compute in ("<<<M1721>>>" ++ check (runes_of_ascii "packet A {
    u8 x `d" ++ [8239]%N ++ runes_of_ascii "`,// c" ++ [8239]%N ++ runes_of_ascii "
}")).
Eval vm_compute in ("<<<M759>>>" ++ check (runes_of_ascii "= u64 ; u32 MetaData packet {")).
Eval vm_compute in ("<<<M1906>>>" ++ check (runes_of_ascii "
MetaData  tag

// c

{
}")).
Eval vm_compute in ("<<<M238>>>" ++ check (runes_of_ascii "root packet chars
{}
")).
Eval vm_compute in ("<<<M1128>>>" ++ check (runes_of_ascii "// c
MetaData u { }")).
Eval vm_compute in ("<<<M1021>>>" ++ check (runes_of_ascii "packet A {
}
// c" ++ [8239]%N)).
Eval vm_compute in ("<<<M994>>>" ++ check (runes_of_ascii "packet A {
}// c" ++ [5760]%N)).
Eval vm_compute in ("<<<M762>>>" ++ check (runes_of_ascii "w|lL|]kVFeknSP9")).
Eval vm_compute in ("<<<M1539>>>" ++ check (runes_of_ascii "// c
 
")).
Eval vm_compute in ("<<<M56>>>" ++ check (runes_of_ascii " 	 ")).
