From FP Require Import Lexer Parser ShowPT Digest Formatter.
From Coq Require Import String List NArith.
Import ListNotations.
Open Scope string_scope.
Set Printing Width 100000000.
Set Printing Depth 100000000.
Definition show_fres (r : fres) : string :=
  match r with
  | FOk s => "OK:" ++ sh_escaped s ""
  | FErr s => "ERR:" ++ sh_escaped s ""
  | FPanic p => "PANIC:" ++ p
  end.
Definition check (rs : list rune) : string := digest (show_fres (format_res rs)).
Definition full (rs : list rune) : string := show_fres (format_res rs).
Eval vm_compute in ("<<<M4447>>>" ++ check (runes_of_ascii "packet options1 {
    i8 leftPad `say ""hi""`,
    @tag(4294967296)
    repeat zchar[7] Pad,
    @leftPad('\x00')
    As `u8 x,`,
    falsey @calculatedFrom(""x y""),
    // `tick` ""quote"" 'q'
    //x
    pack `say ""hi""`,
    x {
        match Header as charz {
            00 : a1,
        },
        repeat char[0123456789] rootA `line1
        line2`,
        uint64 tag `" ++ [28040; 24687; 31867; 22411]%N ++ runes_of_ascii "`,
        f32 Z9_,// c
    },
    @leftPad()
    @leftPad('\x00')
    float32 tag,
    repeat f32 T `" ++ [28040; 24687; 31867; 22411]%N ++ runes_of_ascii "`,
    @lengthOf(chars)
    @calculatedFrom(""" ++ [128512]%N ++ runes_of_ascii """)
    @calculatedFrom(""a	b"")
    match calculatedFrom as packetx {
        ""\n"" : trueish,
        ["""", 007] : packetx,
        ""// no comment"" : packetx,
        [7, 0123456789] : pack,
        """ ++ [233]%N ++ runes_of_ascii "t" ++ [233]%N ++ runes_of_ascii """ : Packet,
        // trailing space 
    },
    @calculatedFrom(""\n"")
    //x
    repeat u16 As,
}

root packet uint8x {
    @lengthOf(stringy)
    string a1,
    // a // b
    // 50% %s
    int16 i64_ `" ++ [28040; 24687; 31867; 22411]%N ++ runes_of_ascii "`,
    int16 Logon @calculatedFrom(""// no comment""),
    MetaDataX MetaDataX `it's`,
    i64_,
    match matchKey as zchar {
        ""1"" : As,
        [0] : f32a,
        [""x y""] : body,
        ""it's"" : _x,
        /// triple
        [""" ++ [28040; 24687]%N ++ runes_of_ascii """, 007] : matchKey,
        ""x y"" : x_y_z,
    },
    @calculatedFrom(""" ++ [128512]%N ++ runes_of_ascii """)
    int64 o @lengthOf(body),// `tick` ""quote"" 'q'
    asx {
        chars `say ""hi""`,
        i64 falsey,
        i8 zchar `two words`,
        char[255] tag @calculatedFrom(""""),
    },
    char[] Pad @lengthOf(charz) `
    `,
    @tag(007)
    @tag(255)
    repeat u64 x,
}

packet metadata {
    match BodyLength as u128 {
        4294967296 : trueish,
        10 : _x,
        ""a\""b"" : int,
        007 : Logon,
        """ ++ [233]%N ++ runes_of_ascii "t" ++ [233]%N ++ runes_of_ascii """ : Z9_,
        // trailing space 
        [42, 00] : u128,
    },
    zchar[0123456789] chars `a\`,
    match trueish as tag {
        // @lengthOf(
        0 : zchar,
        // @lengthOf(
    },
    zchar[4294967296] lengthOf,
    asx @lengthOf(tag),
    char[65535] u @lengthOf(x_y_z) `two words`,
    _x @calculatedFrom(""" ++ [233]%N ++ runes_of_ascii "t" ++ [233]%N ++ runes_of_ascii """) `{ , }`,
    @tag(3)
    zchar[255] Header ``,
    float32 crc,
    Z9_ @lengthOf(body) `two words`,
}

root packet f32a {
    @rightPad()
    string u8x `say ""hi""`,
}

options {
}")).
Eval vm_compute in ("<<<M4116>>>" ++ check (runes_of_ascii "packet options1 {
    @rightPad()
    @lengthOf(As)
    // `tick` ""quote"" 'q'
    // c
    repeat rootA {
        msg_type @calculatedFrom(""\n"") `line1
                line2`,
    },//	t
    @calculatedFrom(""\n"")
    @leftPad('0')
    match tag as f32a {
        [""\n""] : Z9_,
        42 : trueish,
        ""abc"" : a1,
        [10, """ ++ [233]%N ++ runes_of_ascii "t" ++ [233]%N ++ runes_of_ascii """] : A,
    },
    T u8x `" ++ [28040; 24687; 31867; 22411]%N ++ runes_of_ascii "`,
}

packet Header {
    chars {
        zchar[255] Pad @lengthOf(i8i8) `u8 x,`,
    },
}

packet u {
    @lengthOf(options1)
    int32 repeatCount,
    match Z9_ as a1 {
        ""a	b"" : As,
        [
            ""{,}"", ""it's"", ""x y"", 0, """ ++ [233]%N ++ runes_of_ascii "t" ++ [233]%N ++ runes_of_ascii """,
            ""{,}"", 0, 007
        ] : falsey,
        """" : MetaDataX,
        [""" ++ [28040; 24687]%N ++ runes_of_ascii """, 65535, 0123456789, ""a\\""] : float,
        // " ++ [128512]%N ++ runes_of_ascii " emoji
        ""CRC32"" : Pad,
        // " ++ [128512]%N ++ runes_of_ascii " emoji
        // `tick` ""quote"" 'q'
        [
            """ ++ [128512]%N ++ runes_of_ascii """, ""a\""b"", ""x y"", 00, ""a\\"",
            10, ""packet""
        ] : leftPad,
    },
    // c
    Header {
        match uint8x as Packet {
            1 : pack,
        },
    },
    repeat char[] packetx,
    Z9_ @lengthOf(f32a),
    // c
    @calculatedFrom("""")
    char repeatCount @calculatedFrom(""// no comment""),
}

root packet len {
    repeat Logon rootA `{ , }`,
    @rightPad('0')
    zchar[0123456789] calculatedFrom,
    repeat BodyLength {
        string a1 `
                `,
        Packet Z9_,
        charz len,
        char[007] metadata @calculatedFrom(""""),
    },// c
    match As as MetaDataX {
        00 : u,
        00 : Foo,
        7 : charz,
        007 : charz,
        [42, ""a\""b""] : len,
    },
    @leftPad('\x00')
    zchar[0] body @lengthOf(asx),
    u32 Pad,
    @rightPad('\x00')
    rootA Foo,
}

options {
}//")).
Eval vm_compute in ("<<<M3931>>>" ++ check (runes_of_ascii "options {
    // c1
    LittleEndian = false;// c5
    StringPrefixLenType = u16;
    // c9
    ArrayPrefixLenType = u8;// c13a
    // c13b
    FixedStringPadFromLeft = true;
    // c17
    FixedStringPadChar = ' ';
}// c22

packet Logon {
    // c25
}

// c26
packet Reject {
    // c29
    InPx48 {
        // c31
        repeat string price,// c35a
        // c35b
        u32 msgKind,
        // c38
        repeat InSide223 {
            // c41a
            // c41b
            Logon,// c43a
            // c43b
            repeat f64 Ref,// c47a
            // c47b
            string tag7,
            // c50
        },
        InClordid8 {
            // c54
            zchar[5] Qty,
            // c59
            u64 x,
            repeat string lastPx,// c66a
            // c66b
        },
    },// c70
    Logon,
    // c72
    i16 lastPx,
    repeat char[5] clOrdID,// c81a
    // c81b
    zchar[2] Flags,// c86
    repeat string Side2,
    // c90
}

// c91
root packet Order {
    // c95
    uint16 sym,// c98a
    // c98b
    zchar[8] Side2,
    repeat string clOrdID,
    string tag7,
    // c110
    zchar[3] OrderId,// c115a
    // c115b
    zchar[4] seqNo,
    u32 f1,// c123a
    // c123b
    u32 Acct @lengthOf(Body),// c129a
    // c129b
    match f1 as Body {
        // c134a
        // c134b
        58 : Reject,
        180 : Logon,
        // c142a
        // c142b
    },// c144
    u32 Px @calculatedFrom(""CRC32""),
}// c151a
// c151b")).
Eval vm_compute in ("<<<M794>>>" ++ check (runes_of_ascii "root packet	chars
    { char[] asx@calculatedFrom(	""packet"" // " ++ [128512]%N ++ runes_of_ascii " emoji
) ,pack _x `crlf
line`
,
    @lengthOf(// trailing space 
string_ )As{
    i8
body @calculatedFrom( ""// no comment""  )// trailing space 
, i64 msg_type
    `" ++ [28040; 24687; 31867; 22411]%N ++ runes_of_ascii "`,
// a // b
//
i32 A , } , @leftPad ( // a // b
'0'
)
    i8i8 uint8x `
`, tag roots// trailing space 
,repeat  char[  7]
msg_type
    , falsey  @calculatedFrom( ""\n"" // `tick` ""quote"" 'q'
) `a\` , //	t
} options { leftPad = """" ;
x = char[
255  ] ; asx= ' ' }
packet string_ { repeat f32 body
, } root
    packet
options1
{ @lengthOf(
    //x
    lengthOf )string string_	`line1
line2`
,
@rightPad (
'0'
    ) char[] zchar@lengthOf( f32a ) `line1
line2` , @lengthOf(
pack)@leftPad
( ' '
)
    repeat x u128
, @calculatedFrom( ""{,}"" )//x
match len as roots {
10 :
    falsey
// c
//	t
,  ""a\""b""
    :
metadata  ,}
    , i32
body
,u64 u8x @lengthOf( x_y_z )
//
//	t
,//	t
@lengthOf(u128
)
zchar[
/// triple
// a // b
00] stringy,
} packet roots //x
{
    int64 o	, int64 uint8x  , i16 _x , float32 int
,  charz { char[]
Packet ,
int16
Z9_ `a\`	,  zchar[ 255]tag , }  ,
//
// " ++ [27880; 37322]%N ++ runes_of_ascii "
match
Pad as stringy { 42 :
    a1 , }
// packet A { u8 x, }
// c
, x_y_z options1 , crc @calculatedFrom(
""abc""// " ++ [27880; 37322]%N ++ runes_of_ascii "
) `crlf
line`, @tag( 0 )
    //	t
    @leftPad
()u8
x , }
")).
Eval vm_compute in ("<<<M3788>>>" ++ check (runes_of_ascii "packet BodyLength {
    matchKey {
        chars,
        match leftPad as options1 {
            42 : u,
            // `tick` ""quote"" 'q'
            0 : T,
        },
        char[] Header `line1
                line2`,
    },
    @tag(10)
    zchar {
        repeat _x {
            i8i8,
        },
        zchar[00] len @lengthOf(u128),//	t
        repeat options1,
        repeat Pad {
            int64 roots `
                        `,
            u64 Header @lengthOf(tag),
            uint16 roots @calculatedFrom(""" ++ [28040; 24687]%N ++ runes_of_ascii """),
            match rootA as matchKey {
                1 : BodyLength,
                [""1""] : Z9_,
                ""it's"" : Packet,
                0 : stringy,
            },
        },
    },
    // `tick` ""quote"" 'q'
    @lengthOf(Logon)
    x pack,
    //
    @tag(65535)
    // packet A { u8 x, }
    repeat o Header `u8 x,`,
    Header u8x `doc`,
    @tag(42)
    // packet A { u8 x, }
    char[0123456789] lengthOf,
    float {
        // c
        f32a As,
        repeat matchKey `{ , }`,
        // 50% %s
        // " ++ [128512]%N ++ runes_of_ascii " emoji
    },
    repeat char[] o,
    @tag(1)
    options1 @calculatedFrom(""a	b"") `100% of %d`,
    float32 int @lengthOf(calculatedFrom),
}")).
Eval vm_compute in ("<<<M1292>>>" ++ check (runes_of_ascii "
packet int
{ falsey
{ repeat Header{ As
    roots `100% of %d` // a // b
, // trailing space 
tag
    x_y_z `line1
line2` , match zchar
as
repeatCount{ ""abc""
    : _x ,}	,//x
} , repeatCount @lengthOf(
    charz ) , repeat char[] calculatedFrom
    // @lengthOf(
    `// not a comment` , }
    ,
    // " ++ [128512]%N ++ runes_of_ascii " emoji
    char pack
    // " ++ [27880; 37322]%N ++ runes_of_ascii "
    `" ++ [233]%N ++ runes_of_ascii "`
    , repeat
    int8
u128,
x
i8i8 , @tag( 007 )char[ 1 ] //	t
uint8x ,
    @lengthOf( roots
)repeat
    pack trueish ,
repeat u8x stringy, options1{  match
    uint8x
as T { """ ++ [128512]%N ++ runes_of_ascii """ :
crc ""a\""b"" : u8x , }  , zchar[7 ]
    BodyLength,} ,@tag( 4294967296
    //	t
    )@rightPad
()
    // `tick` ""quote"" 'q'
    u128	`line1
line2` , }root packet // @lengthOf(
f32a { @leftPad
    /// triple
    (	) match i8i8
as options1 {// `tick` ""quote"" 'q'
"""" // trailing space 
:u8x
, } ,
@tag(
    1 ) repeatCount @calculatedFrom( ""a\""b"" ) ,@lengthOf(
MetaDataX ) @leftPad( )charz repeatCount `a\`, calculatedFrom { BodyLength @calculatedFrom(
""a\\"" // c
) , } ,
    @lengthOf(zchar ) zchar[	00// " ++ [27880; 37322]%N ++ runes_of_ascii "
] len
// 50% %s
// 50% %s
`line1
line2`
// " ++ [128512]%N ++ runes_of_ascii " emoji
// a // b
,
@tag( 1) i64
charz,  }")).
Eval vm_compute in ("<<<M1237>>>" ++ check (runes_of_ascii "// packet A { u8 x, }
MetaData f32a {/// triple
char[ 0] i8i8`
` , f64 a1
// c
// 50% %s
,
    i32
rootA `it's`
, f64  stringy `it's` ,charz /// triple
packetx	`
`,	} packet asx{
repeat u64 metadata
`u8 x,`
    ,
    // 50% %s
    @lengthOf(  calculatedFrom/// triple
) repeat options1 {
BodyLength  {
// `tick` ""quote"" 'q'
// 50% %s
zchar[ 3
] stringy`doc`
, //	t
charz
// " ++ [27880; 37322]%N ++ runes_of_ascii "
// " ++ [27880; 37322]%N ++ runes_of_ascii "
{
repeat
    uint16 metadata	`crlf
line` ,_x	len`100% of %d`,
int @lengthOf( metadata
    // a // b
    ) ,	} ,zchar[ 42 ] i8i8`crlf
line` ,
    }
,
Foo , repeat
    msg_type// " ++ [27880; 37322]%N ++ runes_of_ascii "
, repeat
    u8
//
//	t
msg_type,
    // c
    } ,  @leftPad (' '	) repeat x_y_z {
    // 50% %s
    string// " ++ [27880; 37322]%N ++ runes_of_ascii "
A
@calculatedFrom(""packet""	) `u8 x,` , } ,uint8 A
@calculatedFrom( ""CRC32""	)// a // b
,
    u8x	x_y_z, @rightPad
//
// trailing space 
(
'0'
) match o
    as
asx {
    [65535,// 50% %s
""a	b"" ] :tag,
    //	t
    0 : matchKey , 4294967296 :	o ,
    ""it's""
: //	t
_x // c
,
    },repeat // @lengthOf(
uint64 Header , } MetaData
uint8x{
zchar[ 0 ] x_y_z /// triple
, }
")).
Eval vm_compute in ("<<<M891>>>" ++ check (runes_of_ascii "MetaData chars{ // @lengthOf(
falsey As	,char[ // `tick` ""quote"" 'q'
42 ] o ,// " ++ [128512]%N ++ runes_of_ascii " emoji
string_ Header ,}
MetaData falsey {
zchar[ 0 ]falsey
`{ , }`, int32 MetaDataX , char[
255
    ] Foo , int64
    u128,char[] u128 , // packet A { u8 x, }
}
packet// trailing space 
metadata  {
// packet A { u8 x, }
//	t
metadata @calculatedFrom( ""`tick`"" ) ,
    repeat pack roots `line1
line2` ,  string_ @calculatedFrom(""\n"" ) ,repeat trueish// packet A { u8 x, }
{ trueish /// triple
T
,
//x
// `tick` ""quote"" 'q'
u16
asx //x
,  body
    { repeat _x
{_x @lengthOf(
    /// triple
    i8i8) `say ""hi""`
    ,
// a // b
//
}, }
    ,	}// @lengthOf(
,@calculatedFrom(""a\\""
) repeat chars { f32a {
    // c
    zchar[ 255 ] msg_type , repeat float64 stringy `
`
    ,
    }
, repeat
    uint8x
`tab	here` ,Logon
{ repeat f64	MetaDataX	,
    u64// `tick` ""quote"" 'q'
T	@lengthOf(	body
) , } ,} , @lengthOf( trueish )
// " ++ [27880; 37322]%N ++ runes_of_ascii "
// @lengthOf(
float64
_x@calculatedFrom(
""" ++ [128512]%N ++ runes_of_ascii """ )  ,} MetaData chars {}
")).
Eval vm_compute in ("<<<M4356>>>" ++ check (runes_of_ascii "options {
    lengthOf = zchar[65535];
    len = char[];
    packetx = false;
    len = """ ++ [128512]%N ++ runes_of_ascii """
}

MetaData i8i8 {
    uint16 x `
        `,
}

// a // b
/// triple
root packet _x {
    repeat char[] Pad,
    @calculatedFrom(""abc"")
    char[42] Pad,
    @leftPad()
    char[] Pad,
    zchar[1] BodyLength `{ , }`,
}

MetaData Foo {
    x a1,
    float charz,
}

root packet lengthOf {
    @leftPad(' ')
    x_y_z `say ""hi""`,
    f64 packetx,
    @calculatedFrom(""a	b"")
    string_ {
        // " ++ [128512]%N ++ runes_of_ascii " emoji
        o @lengthOf(body),
        i8i8 charz,
        u32 _x,// trailing space 
        char[7] metadata,
    },
    asx {
        match body as float {
            [7, ""packet"", ""a\""b""] : metadata,
            0123456789 : repeatCount,
            3 : crc,
        },
    },
    @tag(0)
    @leftPad('0')
    @calculatedFrom(""{,}"")
    repeat char[] metadata,
    i16 metadata @calculatedFrom(""" ++ [233]%N ++ runes_of_ascii "t" ++ [233]%N ++ runes_of_ascii """),
    int16 tag,
    metadata,
}")).
Eval vm_compute in ("<<<M4134>>>" ++ check (runes_of_ascii "packet
    trueish{ 
@tag(

    0123456789) string stringy 
,

repeat
rootA  { zchar[ 
42 ]  falsey
    @calculatedFrom(

    ""x y"" // c

	)
`two words`

,

}
,
    }  //
  	packet

    As
{ @tag(

1 )char[] T  , 
o 
@lengthOf(

    chars  /// triple
      )

    ,rootA
	`line1
line2`
,
repeat
stringy
,msg_type
BodyLength
    ,
    char[ 3  ]
    falsey`doc` //	t

,char[]  pack `u8 x,`	,
	a1

    @lengthOf(	Z9_

    ),
	char[]

    pack  @lengthOf(

repeatCount  ) `crlf
line`

,	@lengthOf(

    Logon
)
float { repeatCount  uint8x  ,}
,}

packet

body{@rightPad //x
( '0' 
) repeat

    int32

    int, 
@leftPad
(
)
	@leftPad(' ')
	f32a
	,

    @lengthOf(  rootA
    )
	repeat	pack `tab	here`/// triple
,	// 50% %s
	@lengthOf( i8i8
	)

i64_ ,

    Packet stringy
`it's`

    ,u32
	stringy  
  //

	,@leftPad
    (' ' )

int	metadata	,
    }
")).
Eval vm_compute in ("<<<M325>>>" ++ check (runes_of_ascii "/// triple
options
{/// triple
zchar= ""// no comment""
    //
    leftPad = char[]
    // packet A { u8 x, }
    i8i8= ' ' ; T  =
    //	t
    '0' ;}packet //
Logon
// c
// " ++ [128512]%N ++ runes_of_ascii " emoji
{  }	packet
u128 {
    // `tick` ""quote"" 'q'
    @rightPad
( '\x00' //x
) Z9_ ,} packet Packet {uint64
    As
    , matchKey
@calculatedFrom( """ ++ [28040; 24687]%N ++ runes_of_ascii """ ) ,@tag(	0
) @lengthOf( Logon) repeat x {repeat char[] leftPad // " ++ [27880; 37322]%N ++ runes_of_ascii "
`u8 x,` ,
    match
    Logon
    as falsey
{
    0123456789:calculatedFrom ,
    // trailing space 
    7 :
BodyLength ,	""a\\""
    : repeatCount ,[42 ] : falsey	, """ ++ [128512]%N ++ runes_of_ascii """: u128
, [
65535,
3, ""abc"",	007 , ""1"" , 3 ]
: Packet
    },
    //x
    } , zchar[ 4294967296 ]lengthOf`// not a comment` // " ++ [27880; 37322]%N ++ runes_of_ascii "
,@lengthOf( stringy
) char[] len
    //	t
    `` , @calculatedFrom(""it's"" ) zchar[65535 ]roots @calculatedFrom( ""x y""
    ) `u8 x,` ,uint64 Header , }
")).
Eval vm_compute in ("<<<M700>>>" ++ check (runes_of_ascii "packet
trueish
    { @tag( 255) int32
    tag `line1
line2` , repeat Z9_ x_y_z `it's`, @lengthOf(	float
)
    i32 A
    ,trueish	{ char[4294967296]
// c
/// triple
a1 @calculatedFrom( ""1"" )
    , T
    {	match Logon // @lengthOf(
as _x { ""abc"": Packet
,0 :
As , ""\" ++ [233]%N ++ runes_of_ascii """ // trailing space 
:
    f32a ""a	b""
    :Logon
[// packet A { u8 x, }
""a\""b"" ]
: u8x ,
65535
    :	u , } , repeat Foo
    { char[ //	t
65535 ]  zchar
@lengthOf(
    x_y_z ) `tab	here`
    ,
} ,float32	i64_@calculatedFrom( ""packet"" ) `tab	here`,
float64 _x, }
,
    roots// `tick` ""quote"" 'q'
{match	options1 as As {
    10
    :
    float ,
    // c
    } , }
// c
//	t
,
    T{float @lengthOf( // `tick` ""quote"" 'q'
len  )// @lengthOf(
, }	, } ,u32 i8i8
    , char[
    0123456789]A`// not a comment`,Foo @lengthOf(
    float ) `it's`, }
")).
Eval vm_compute in ("<<<M1058>>>" ++ check (runes_of_ascii "packet Z9_
{@calculatedFrom(""{,}"" )
repeat
    Packet { len {
// 50% %s
// c
o
    roots , match string_ as repeatCount {[""`tick`""
    , """ ++ [128512]%N ++ runes_of_ascii """
,
    7 , """ ++ [233]%N ++ runes_of_ascii "t" ++ [233]%N ++ runes_of_ascii """ , 10,""packet"" ,// @lengthOf(
""\" ++ [233]%N ++ runes_of_ascii """ ] : roots , [ 10
,1
] :
    leftPad,}
, u T, zchar[
3 ]float
    // @lengthOf(
    `{ , }`
    , } ,  uint8 Foo@lengthOf( charz ) ,}, @lengthOf( Packet)
//x
// trailing space 
zchar[
007 ] /// triple
x_y_z  @calculatedFrom(//	t
""" ++ [128512]%N ++ runes_of_ascii """ ) `a\`
    , As uint8x, // `tick` ""quote"" 'q'
rootA
, } packet Z9_ {
// c
// `tick` ""quote"" 'q'
@calculatedFrom( /// triple
""x y"")repeat options1 `" ++ [28040; 24687; 31867; 22411]%N ++ runes_of_ascii "` , match
    len
as
f32a
// a // b
//x
{ 007:
metadata ,[
    ""a\\"" ] :
float , [ 65535	] :
    stringy,	}
// " ++ [27880; 37322]%N ++ runes_of_ascii "
// a // b
,
    // c
    i32 // " ++ [128512]%N ++ runes_of_ascii " emoji
A @calculatedFrom(""" ++ [128512]%N ++ runes_of_ascii """ ) , }
options{ }
")).
Eval vm_compute in ("<<<M3558>>>" ++ check (runes_of_ascii "options {
    LittleEndian = true;
    ArrayPrefixLenType = u32;
}
packet Order {
    repeat u64 Acct,
    i16 price,
}
packet Logon {
    zchar[3] venue,
    string Flags,
    repeat InQty82 {
        string Px,
    },
    repeat char[1] clOrdID,
}
packet Cancel {
    int32 Tail,
    repeat Logon,
    repeat InFlags55 {
        uint64 Note,
        repeat InQty28 {
            char[] msgKind,
            char[7] OrderId,
        },
        char[] Px,
    },
    int16 Ref,
}
root packet Leg {
    repeat Logon,
    char[] venue,
    u16 Flags,
    i16 Tail,
    repeat Cancel,
    u8 Side2,
    match Side2 as Body {
        151 : Logon,
        148 : Order,
        162 : Cancel,
    },
    u16 x @calculatedFrom(""CR\
C32""),
}
")).
Eval vm_compute in ("<<<M161>>>" ++ check (runes_of_ascii "packet int// @lengthOf(
{ f64
    // a // b
    trueish ,
    @calculatedFrom( """ ++ [233]%N ++ runes_of_ascii "t" ++ [233]%N ++ runes_of_ascii """) // `tick` ""quote"" 'q'
match// " ++ [128512]%N ++ runes_of_ascii " emoji
trueish as metadata {
    ""packet"": Logon  ,  },char[] rootA@calculatedFrom( """ ++ [128512]%N ++ runes_of_ascii """ ) `a\`
, @calculatedFrom(
    ""abc"") f64 roots, @rightPad  ( '\x00') char[	4294967296
    // trailing space 
    ]  zchar
/// triple
// " ++ [27880; 37322]%N ++ runes_of_ascii "
`tab	here` ,  @rightPad
    ('\x00'
    )
float64
msg_type	@calculatedFrom( ""x y"" ) `a\`
    ,
@leftPad(
    '0') @calculatedFrom(""{,}""
)  match Header as o { 3 :
Header , ""a\\"" : a1 [
65535
,
""\n""
//	t
// a // b
]
    :	len	,[ 255, 1 ] // `tick` ""quote"" 'q'
:Foo,""// no comment"":	string_ }, } packet x { }
options { // trailing space 
Header= """ ++ [128512]%N ++ runes_of_ascii """ }
")).
Eval vm_compute in ("<<<M3652>>>" ++ check (runes_of_ascii "
packet _x
{
	@tag(

255
    )
Header

    @calculatedFrom( ""`tick`""  )
,

@tag(
	00
	)  @lengthOf(  metadata )

    repeat	x_y_z	repeatCount	`crlf
line`

    // trailing space 
    	// @lengthOf(
,	//x
  @rightPad
( ' ') //x
string zchar `
` , 
char[] T ,
	match
Z9_

    as 
string_
    { 0  :
//	t
    	pack ,

0123456789
    :	Pad
7:

float
    // packet A { u8 x, }
		//x
  [
    0
, 0123456789
,3
]
: 
        //
    As [
255

, 00 ]  :

    BodyLength,}
    , 
repeat BodyLength `doc`	,  // `tick` ""quote"" 'q'

f32a Packet
	`doc`

    , 
calculatedFrom 
@calculatedFrom( ""// no comment"" )	`crlf
line` 
, u16 zchar, repeat u128
,
	} ")).
Eval vm_compute in ("<<<M4290>>>" ++ check (runes_of_ascii "MetaData x {
    zchar[65535] Pad,
    int16 chars `
        `,
    char[] pack,
    BodyLength x,
    u8 metadata,// " ++ [27880; 37322]%N ++ runes_of_ascii "
    f32 options1,
}

MetaData _x {
    f32a len,
    string u,
}

packet body {
    @tag(7)
    @rightPad('\x00')
    @lengthOf(uint8x)
    match float as string_ {
        ""abc"" : stringy,
        10 : i8i8,
    },
    @leftPad(' ')
    uint8 calculatedFrom @calculatedFrom(""CRC32""),
    @lengthOf(crc)
    u {
        match chars as rootA {
            // `tick` ""quote"" 'q'
            // 50% %s
            007 : _x,
            ""\n"" : u,
            ""abc"" : calculatedFrom,
        },
    },
    leftPad f32a,
}")).
Eval vm_compute in ("<<<M873>>>" ++ check (runes_of_ascii "packet  msg_type { repeat uint8 BodyLength `" ++ [233]%N ++ runes_of_ascii "` , @tag( // a // b
65535 )  MetaDataX { Packet {x_y_z rootA `u8 x,`
, } ,
    } , } packet crc
{ @rightPad (	' ' ) stringy{ i32 Logon
    , f32a `" ++ [28040; 24687; 31867; 22411]%N ++ runes_of_ascii "`,  uint64 repeatCount
    , }, @leftPad ( '0'
) @calculatedFrom( ""a\""b"" ) uint8
    o	`" ++ [28040; 24687; 31867; 22411]%N ++ runes_of_ascii "`
    ,
    }
    packet
// packet A { u8 x, }
// trailing space 
leftPad{
@lengthOf(	float )repeat char[]
options1 , i16  Pad , @tag( 0) char[
    42 //
] options1 `tab	here` , @leftPad ( ) repeat string_ len  `a\` //
, }
    options { string_ = u8 pack = string roots = // c
""\" ++ [233]%N ++ runes_of_ascii """;
trueish = ""x y""charz=	""" ++ [233]%N ++ runes_of_ascii "t" ++ [233]%N ++ runes_of_ascii """ ;
    }

")).
Eval vm_compute in ("<<<M769>>>" ++ check (runes_of_ascii "
MetaData u128{ } options
// packet A { u8 x, }
//x
{
Header=
    '0' ;metadata
=
    char[00 // @lengthOf(
]
// @lengthOf(
// c
;}  packet  x_y_z{ match //	t
A
as MetaDataX
{ ""1"":roots
    , [ 1 ] : asx,
""" ++ [28040; 24687]%N ++ runes_of_ascii """
: string_
//
// `tick` ""quote"" 'q'
, 007
: zchar , ""{,}"":
u8x , ""\" ++ [233]%N ++ runes_of_ascii """ :
    body	, }
, repeat int32 x_y_z ,
repeat u64 len
`it's`
    //
    ,
lengthOf
{uint16
A
    // 50% %s
    `line1
line2`	, } , repeat i8	metadata
    ,
    //
    @tag( 42) int16 x`line1
line2`
, string
    As @lengthOf(roots
)
    ,
@tag( 7  ) Packet
    chars ,char[42
]// " ++ [27880; 37322]%N ++ runes_of_ascii "
roots ,  } //x")).
Eval vm_compute in ("<<<M3976>>>" ++ check (runes_of_ascii "MetaData // c
    falsey {	char[
255] 	 // " ++ [128512]%N ++ runes_of_ascii " emoji
	trueish `{ , }` // trailing space 
	  , } 	 // packet A { u8 x, }
MetaData
    // packet A { u8 x, }
  /// triple
falsey
    { u32

    u8x,}	MetaData

a1

    {
}packet 
u8x 
	// @lengthOf(
    	{ 
match	Z9_	as stringy 

// " ++ [128512]%N ++ runes_of_ascii " emoji
{ 
1
: 
_x

    ,  //	t
	[  255
	,

    0]
	:

i8i8  ,//x
  65535: msg_type

, 0123456789: T ,} ,

@rightPad
(
    '0'  )
char[]

    pack
	@calculatedFrom(""a\""b"" )  , len
	@lengthOf(

_x
    // `tick` ""quote"" 'q'
  // @lengthOf(
    )

    `" ++ [233]%N ++ runes_of_ascii "`

,  }")).
Eval vm_compute in ("<<<M71>>>" ++ check (runes_of_ascii "packet calculatedFrom {zchar[ 255 ]
    //	t
    BodyLength , @tag(// " ++ [27880; 37322]%N ++ runes_of_ascii "
42 )	match Logon	as
trueish {  [	""\n"" , ""it's"" ] :
    x_y_z ""\" ++ [233]%N ++ runes_of_ascii """ :matchKey
,
    007
: As [ 007,""\n"" ,
42
,  0 /// triple
,""packet""
, ""a	b"" ]
: x_y_z , [ ""CRC32"" //x
] :repeatCount
    ,""\" ++ [233]%N ++ runes_of_ascii """ :
float, } ,@leftPad (
    ) repeat trueish {
    zchar[ 255] x_y_z `a\`, _x { // @lengthOf(
char[4294967296 ]
i64_, // 50% %s
zchar[ 4294967296
] leftPad
// c
// " ++ [128512]%N ++ runes_of_ascii " emoji
, }
//x
//	t
, Foo // c
, options1 @lengthOf( Packet)`two words`
    ,
} ,} root packet body { }")).
Eval vm_compute in ("<<<M1192>>>" ++ check (runes_of_ascii "
root packet  a1{uint8x @lengthOf(  rootA ),
    // a // b
    char[
0123456789 ]// a // b
trueish `{ , }` , @calculatedFrom( ""x y""
)@tag(
    0
// `tick` ""quote"" 'q'
// " ++ [128512]%N ++ runes_of_ascii " emoji
) @calculatedFrom(  ""x y"" )
    match T
    as
// c
//	t
int  {
    [ 65535 , ""abc""  , ""// no comment""	,	255 ] : MetaDataX	,
0 : chars ,
    65535: a1 ""1""
:Pad , ""{,}"" : asx
, 00 : Foo
// `tick` ""quote"" 'q'
// packet A { u8 x, }
,
} , asx  { repeat Foo // a // b
,
    trueish ,
},
}
    // " ++ [128512]%N ++ runes_of_ascii " emoji
    packet chars  { } packet
    a1 {} 	 ")).
Eval vm_compute in ("<<<M4117>>>" ++ check (runes_of_ascii "

  options	{ 
pack  // @lengthOf(
= false 
//
	;
i64_=	""1""

    len

    = ' '
	} 
// @lengthOf(
// " ++ [27880; 37322]%N ++ runes_of_ascii "
		packet	Z9_
    {
    repeat
    char[

    1
]
i8i8`
`

    ,@lengthOf( crc  )	options1 // a // b
  { repeat
char[]f32a `{ , }` ,

    match

uint8x
	as _x

    {	""packet""
    : charz	, 
""\" ++ [233]%N ++ runes_of_ascii """:
	trueish

, [	007,

""abc""	]:
i64_ 
, 
007  :

o
,4294967296 
// c

  : options1 ,
	}	,
	repeat 
uint8x

, }
,

    char[ 65535 ]repeatCount`100% of %d`, // a // b
		}
")).
Eval vm_compute in ("<<<M4189>>>" ++ check (runes_of_ascii "
root
	packet packetx
{ char[ 255 
// c
	] 
T
    ,
    @tag(
00 ) 
    // packet A { u8 x, }
	  len {
string
repeatCount

`two words`
	,repeat
	Logon u 
, 
uint64 
lengthOf
	, 	 /// triple
      char[]

Logon
	`{ , }`, },

    repeat u64  asx	, 
@calculatedFrom(""a\""b"" 

//
	// c

)
repeat

int8 MetaDataX ,
    @calculatedFrom(""abc""
)
uint64  tag `// not a comment`
, @tag(
255
)
i8
len
, 	 // packet A { u8 x, }
  uint8

    chars `it's`	,

}
")).
Eval vm_compute in ("<<<M3525>>>" ++ check (runes_of_ascii "

  packet
    Frame

    {

    u8

    HK
	, 
u8

BK, 
u8
TK 
,  match HK
as
Hdr

    { 1 :HdrA 
,
2: HdrB
,  }
    , match 
BK as

    Body { 
1

: 
BodyA
, 2:
	BodyB,	}
	, match
TK
as
Trl

{  1
    : TrlA
	,	} ,
}  packet	HdrA
{
u8

    a  ,}  packet HdrB{
u16

b
, 
}

    packet
    BodyA {

    u32
    c
	, } packet BodyB { 
u64 d

,} packet

TrlA	{
u8
e
    ,
	} root

    packet

    Msg {	Frame,u8 
x
,
} ")).
Eval vm_compute in ("<<<M3312>>>" ++ check (runes_of_ascii "options { // c1
u // c2
=
    // c3
00
    // c4
stringy // c5
=
    // c6
'0' // c7
} // c8a
  // c8b
packet // c9a
  // c9b
stringy // c10
{ // c11a
  // c11b
}
    // c12
MetaData // c13a
  // c13b
repeatCount // c14a
  // c14b
{
    // c15
MetaDataX
    // c16
leftPad , // c18a
  // c18b
string // c19a
  // c19b
body // c20
`
` // c21
,
    // c22
metadata // c23a
  // c23b
options1 // c24
,
    // c25
} // c26a
  // c26b
")).
Eval vm_compute in ("<<<M224>>>" ++ check (runes_of_ascii "packet
    //
    trueish//	t
{ @leftPad  ( '\x00'
    )falsey zchar
, i32 u	``, match falsey as
    u8x	{ 1 : int ,3:
i64_ , [
0123456789
// `tick` ""quote"" 'q'
// c
] : leftPad , [
    4294967296 ] : calculatedFrom ""CRC32"" : body  0
:	lengthOf , } //x
, char[] As ,
    repeat leftPad
{	Foo ,} , float32 Pad@calculatedFrom( ""a	b""
    )
    `it's`
    ,repeat
f32
// a // b
// a // b
options1 `doc` , zchar A , }

")).
Eval vm_compute in ("<<<M4135>>>" ++ check (runes_of_ascii "
packet	/// triple
  roots
    {

    a1 `{ , }`,  // 50% %s
@tag(	0123456789) 	 // " ++ [128512]%N ++ runes_of_ascii " emoji
    @calculatedFrom(

""" ++ [128512]%N ++ runes_of_ascii """
    // packet A { u8 x, }
    ) 
match
    metadata

    as  x

{  ""it's""
    : 

    //
	  i8i8
	0123456789 :

    i64_[  ""\n"" , 
""1""]  :
    pack
65535
:

calculatedFrom,
	007 :
Header
    ""it's"" :
packetx 
} , // " ++ [128512]%N ++ runes_of_ascii " emoji
    @rightPad
    ('\x00'

)f64 lengthOf `it's`
,
	}")).
Eval vm_compute in ("<<<M1346>>>" ++ check (runes_of_ascii "root	packet Z9_
{ @calculatedFrom( """ ++ [28040; 24687]%N ++ runes_of_ascii """ )
@tag( 0 )
repeat char[
255 ]
    u128`tab	here` ,
}
    root
    //
    packet leftPad
    {
match  Logon as
    T{ [007 ] // `tick` ""quote"" 'q'
: MetaDataX,
[ 1 ,
10 ,""""// " ++ [27880; 37322]%N ++ runes_of_ascii "
,	4294967296, 4294967296
,""" ++ [128512]%N ++ runes_of_ascii """ ]:
    f32a
00 // 50% %s
: trueish , ""\n"" :  int
,
// c
/// triple
[ ""\" ++ [233]%N ++ runes_of_ascii """]  :
A	,[
65535
, ""a	b""
    ] :
    lengthOf ,} , } // c")).
Eval vm_compute in ("<<<M1221>>>" ++ check (runes_of_ascii "packet Pad	{
// @lengthOf(
/// triple
@tag(
    1 ) @leftPad (
    '0' ) repeat zchar[ 10 ] Packet
    ,uint32 BodyLength `100% of %d` ,	repeat char[ 10 ]
    Z9_ ,@leftPad ( '0'
)
    repeat Foo a1 ,char[
    42
]  repeatCount `line1
line2`
// packet A { u8 x, }
// trailing space 
, @rightPad  ( ) char[] // packet A { u8 x, }
crc,pack
@calculatedFrom( ""\" ++ [233]%N ++ runes_of_ascii """ ) ,
    }
")).
Eval vm_compute in ("<<<M4393>>>" ++ check (runes_of_ascii "options {
    // @lengthOf(
    float = char[];
    T = false;
    A = char[];
    options1 = true;
    matchKey = f64;
}

MetaData u8x {
    crc msg_type,
    repeatCount Pad `// not a comment`,
    uint32 tag `" ++ [28040; 24687; 31867; 22411]%N ++ runes_of_ascii "`,
    int32 repeatCount,
    packetx falsey,
}

options {
    trueish = string;
    i64_ = ""a\\""
    i64_ = int64;
    lengthOf = string;
}")).
Eval vm_compute in ("<<<M1279>>>" ++ check (runes_of_ascii "//x
packet
    Logon{
int64 zchar , @rightPad
( '\x00' )
rootA len, float64 Foo `doc` , repeat // c
Header	, repeat packetx	lengthOf , repeat roots { repeat
f64 lengthOf `a\` ,
}
, } MetaData crc
{ uint32 A
    ,
string_ packetx,
    i64 // " ++ [27880; 37322]%N ++ runes_of_ascii "
_x
    // a // b
    `say ""hi""`
    ,char[ 10] Foo `u8 x,`
,f32	options1 `a\` , } // @lengthOf(")).
Eval vm_compute in ("<<<M3928>>>" ++ check (runes_of_ascii "
packet msg_type

{
	@calculatedFrom(""1"") 
  // `tick` ""quote"" 'q'
	// @lengthOf(
@lengthOf(
u8x) @rightPad ( ' '
	)
    pack	rootA

,
repeat char[ 	 // @lengthOf(
4294967296

] u ,

    @lengthOf(
    Packet 
// @lengthOf(
    ) @lengthOf(falsey
// a // b
  // " ++ [27880; 37322]%N ++ runes_of_ascii "
  )  @lengthOf(
BodyLength )

    repeat	float64 
pack ,	}")).
Eval vm_compute in ("<<<M3645>>>" ++ check (runes_of_ascii "packet float {
    roots `" ++ [28040; 24687; 31867; 22411]%N ++ runes_of_ascii "`,
    @tag(0123456789)
    // packet A { u8 x, }
    @lengthOf(calculatedFrom)
    @calculatedFrom("""")
    T ``,
    @leftPad(' ')
    repeat Logon {
        // trailing space 
        string matchKey @lengthOf(i8i8),
        repeat i64_,
    },
    repeat uint8 u8x `100% of %d`,
}")).
Eval vm_compute in ("<<<M4288>>>" ++ check (runes_of_ascii "
packet // packet A { u8 x, }

repeatCount

    {	// packet A { u8 x, }
@leftPad (	'\x00'

) repeat

u8x
    MetaDataX
    `crlf
line`  ,
repeat

char[]	MetaDataX

    ,
u64

uint8x 
@calculatedFrom(
""a\""b"" 
// c

// packet A { '\x01'u8 x, }
    	)

`tab	here`
, 	 //
    }
MetaData
pack {	}
")).
Eval vm_compute in ("<<<M4519>>>" ++ check (runes_of_ascii "options
	{

    len
=  //
  i32
    ;  }  options
	{i64_
=
' '

Foo  = float32  ;chars
=  ""a\""b""
;
    roots  =
	00  }packet
rootA {
	    // " ++ [128512]%N ++ runes_of_ascii " emoji
/// triple
    uint64

o
	/// triple

,repeat	string 
Packet
,
	@leftPad
    (
)

leftPad@calculatedFrom( ""CRC32"" ),/// triple
    	}")).
Eval vm_compute in ("<<<M1887>>>" ++ check (runes_of_ascii "packet	packetx { // trailing space 
x_y_z
{
string
charz ,
string string x// @lengthOf(
`two words`
    ,  u8x { // `tick` ""quote"" 'q'
charz `100% of %d` // packet A { u8 x, }
,}// " ++ [27880; 37322]%N ++ runes_of_ascii "
,} , }
    // a // b
    packet metadata {  @leftPad ( '0') repeat i32 options1 ,u64 uint8x , }
")).
Eval vm_compute in ("<<<M1949>>>" ++ check (runes_of_ascii "packet	packetx { // trailing space 
x_y_z
{
string
charz ,
string x// @lengthOf(
`two words`
    ,  u8x { // `tick` ""quote"" 'q'
charz `100% of %d` // packet A { u8 x, }
,}// " ++ [27880; 37322]%N ++ runes_of_ascii "
,} char }
    // a // b
    packet metadata {  @leftPad ( '0') repeat i32 options1 ,u64 uint8x , }
")).
Eval vm_compute in ("<<<M2034>>>" ++ check (runes_of_ascii "packet	packetx { // trailing space 
x_y_z
{
string
charz ,
string x// @lengthOf(
`two words`
    ,  u8x { // `tick` ""quote"" 'q'
charz @`100% of %d` // packet A { u8 x, }
,}// " ++ [27880; 37322]%N ++ runes_of_ascii "
,} , }
    // a // b
    packet metadata {  @leftPad ( '0') repeat i32 options1 ,u64 uint8x , }
")).
Eval vm_compute in ("<<<M1963>>>" ++ check (runes_of_ascii "packet	packetx { // trailing space 
x_y_z
{
string
charz ,
string x// @lengthOf(
`two words`
    ,  u8x { // `tick` ""quote"" 'q'
charz `100% of %d` // packet A { u8 x, }
,}// " ++ [27880; 37322]%N ++ runes_of_ascii "
,} , }
    // a // b
    packet { metadata  @leftPad ( '0') repeat i32 options1 ,u64 uint8x , }
")).
Eval vm_compute in ("<<<M1976>>>" ++ check (runes_of_ascii "packet	packetx { // trailing space 
x_y_z
{
string
charz ,
string x// @lengthOf(
`two words`
    ,  u8x { // `tick` ""quote"" 'q'
charz `100% of %d` // packet A { u8 x, }
,}// " ++ [27880; 37322]%N ++ runes_of_ascii "
,} , }
    // a // b
    packet metadata {  @leftPad  '0') repeat i32 options1 ,u64 uint8x , }
")).
Eval vm_compute in ("<<<M3791>>>" ++ check (runes_of_ascii "MetaData Logon {
    u tag,
    i8 float,
    trueish chars `" ++ [233]%N ++ runes_of_ascii "`,
    char[3] len `it's`,
    int16 f32a,
    f32 trueish `tab	here`,
}

packet metadata {
    @calculatedFrom(""" ++ [28040; 24687]%N ++ runes_of_ascii """)
    @leftPad()
    u128,
}

packet o {
    stringy _x,
    calculatedFrom u128 `100% of %d`,
}")).
Eval vm_compute in ("<<<M2120>>>" ++ check (runes_of_ascii "packet// packet A { u8 x, }
repeatCount	{// packet A { u8 x, }
@leftPad ( '\x00'
) repeat u8x MetaDataX `crlf
line`,
    repeat
    char[] MetaDataX MetaDataX
    ,
u64	uint8x@calculatedFrom(""a\""b""
// c
// packet A { u8 x, }
) `tab	here`
,//
}MetaData pack
    {
    }
")).
Eval vm_compute in ("<<<M118>>>" ++ check (runes_of_ascii "root packet _x {zchar[ 65535
    ]x @lengthOf( //x
uint8x ) `" ++ [28040; 24687; 31867; 22411]%N ++ runes_of_ascii "`, @leftPad
    //	t
    ('\x00' ) match
float as stringy { ""// no comment"" :	int
, 7:
x_y_z
    ,
    ""`tick`"" :lengthOf
    , } ,
@lengthOf( f32a ) repeat BodyLength Header , u
Foo
`it's` , } 	 ")).
Eval vm_compute in ("<<<M1459>>>" ++ check (runes_of_ascii "packet calculatedFrom
{ @calculatedFrom( ""a\\"" ) zchar[ 4294967296 ]
calculatedFrom calculatedFrom@lengthOf( pack )	`100% of %d` ,char[]body@calculatedFrom( ""// no comment"" )  ,
@tag( 007) //x
int8
leftPad`it's` , repeat pack
    { repeat char[ 3] body
,},
}")).
Eval vm_compute in ("<<<M1044>>>" ++ check (runes_of_ascii "packet float {match	chars
as
options1
{ 255 : u128
    , [""{,}"" , // " ++ [128512]%N ++ runes_of_ascii " emoji
007
,
""""
    //
    , ""\n"" ,	""it's""
    ] : string_
    } // " ++ [27880; 37322]%N ++ runes_of_ascii "
, @calculatedFrom(""" ++ [28040; 24687]%N ++ runes_of_ascii """ ) string x_y_z,
@rightPad
(	) x_y_z calculatedFrom
,
char[] i64_ @lengthOf(metadata
) ,
}
")).
Eval vm_compute in ("<<<M2161>>>" ++ check (runes_of_ascii "packet// packet A { u8 x, }
repeatCount	{// packet A { u8 x, }
@leftPad ( '\x00'
) repeat u8x MetaDataX `crlf
line`,
    repeat
    char[] MetaDataX
    ,
u64	uint8x@calculatedFrom(""a\""b""
// c
// packet A { u8 x, }
) `tab	here`
}//
,MetaData pack
    {
    }
")).
Eval vm_compute in ("<<<M3763>>>" ++ check (runes_of_ascii "MetaData options1 {
    asx trueish,
    i8i8 Header `
    `,
    char[00] stringy,
    i16 int `100% of %d`,
    i64 o `crlf
    line`,
    string u8x,
}

options {
    _x = 4294967296
}//x

MetaData asx {
    // `tick` ""quote"" 'q'
    zchar[42] uint8x,
}")).
Eval vm_compute in ("<<<M1574>>>" ++ check (runes_of_ascii "packet calculatedFrom
{ @calculatedFrom( ""a\\"" ) zchar[ 4294967296 ]
calculatedFrom@lengthOf( pack )	`100% of %d` ,char[]body@calculatedFrom( ""// no comment"" )  ,
@tag( 007) //x
int8
leftPad`it's` , repeat pack
    { repeat char[ char[ 3] body
,},
}")).
Eval vm_compute in ("<<<M491>>>" ++ check (runes_of_ascii "MetaData MetaDataX {u64 As // c
, Pad // " ++ [27880; 37322]%N ++ runes_of_ascii "
falsey `crlf
line` ,  } MetaData packetx {
    string tag
    ,
string repeatCount , } //	t
packet leftPad { chars // " ++ [27880; 37322]%N ++ runes_of_ascii "
, uint16 u128, @lengthOf(
int )_x Foo `u8 x,` , x
@lengthOf(  asx
    )
, } // " ++ [27880; 37322]%N)).
Eval vm_compute in ("<<<M3741>>>" ++ check (runes_of_ascii "  packet pack  {
	repeatCount	calculatedFrom `line1
line2`

    ,
    }
	root  packet metadata  {i16
repeatCount
, 
match
pack as	string_
{ // " ++ [128512]%N ++ runes_of_ascii " emoji
10 	 // " ++ [27880; 37322]%N ++ runes_of_ascii "
:
f32a

, 
} , @leftPad(
	'\x00'
    ) int64 zchar
,
}
	packet options1{	//x
	} ")).
Eval vm_compute in ("<<<M1435>>>" ++ check (runes_of_ascii "packet calculatedFrom
{ @calculatedFrom( ) ""a\\"" zchar[ 4294967296 ]
calculatedFrom@lengthOf( pack )	`100% of %d` ,char[]body@calculatedFrom( ""// no comment"" )  ,
@tag( 007) //x
int8
leftPad`it's` , repeat pack
    { repeat char[ 3] body
,},
}")).
Eval vm_compute in ("<<<M1605>>>" ++ check (runes_of_ascii "packet calculatedFrom
{ @calculatedFrom( ""a\\"" ) zchar[ 4294967296 ]
calculatedFrom@lengthOf( pack )	`100% of %d` ,char[]body@calculatedFrom( ""// no comment"" )  ,
@tag( 007) //x
int8
leftPad`it's` , repeat pack
    { repeat char[ 3] body
,}}
,")).
Eval vm_compute in ("<<<M1523>>>" ++ check (runes_of_ascii "packet calculatedFrom
{ @calculatedFrom( ""a\\"" ) zchar[ 4294967296 ]
calculatedFrom@lengthOf( pack )	`100% of %d` ,char[]body@calculatedFrom( ""// no comment"" )  ,
@tag( ) //x
int8
leftPad`it's` , repeat pack
    { repeat char[ 3] body
,},
}")).
Eval vm_compute in ("<<<M1488>>>" ++ check (runes_of_ascii "packet calculatedFrom
{ @calculatedFrom( ""a\\"" ) zchar[ 4294967296 ]
calculatedFrom@lengthOf( pack )	`100% of %d` ,body@calculatedFrom( ""// no comment"" )  ,
@tag( 007) //x
int8
leftPad`it's` , repeat pack
    { repeat char[ 3] body
,},
}")).
Eval vm_compute in ("<<<M1458>>>" ++ check (runes_of_ascii "packet calculatedFrom
{ @calculatedFrom( ""a\\"" ) zchar[ 4294967296 ]
@lengthOf( pack )	`100% of %d` ,char[]body@calculatedFrom( ""// no comment"" )  ,
@tag( 007) //x
int8
leftPad`it's` , repeat pack
    { repeat char[ 3] body
,},
}")).
Eval vm_compute in ("<<<M3963>>>" ++ check (runes_of_ascii "// `tick` ""quote"" 'q'
root packet chars {
}

packet msg_type {
    // @lengthOf(
    msg_type @lengthOf(Z9_) `tab	here`,
}

options {
    msg_type = 10;
    x_y_z = uint64;
    falsey = ""1""
    len = ""\n""
    Z9_ = ' ';
}")).
Eval vm_compute in ("<<<M1320>>>" ++ check (runes_of_ascii "packet A { @lengthOf( matchKey
    ) @calculatedFrom( ""{,}""
)
    match leftPad as  i8i8 {
[
""x y""
    ]:Z9_
    , } , @calculatedFrom(
""{,}"" ) @tag( 10 )uint8x @lengthOf(
// `tick` ""quote"" 'q'
// " ++ [128512]%N ++ runes_of_ascii " emoji
x) , }")).
Eval vm_compute in ("<<<M3606>>>" ++ check (runes_of_ascii "packet o {
    @lengthOf(Pad)
    @tag(1)
    @lengthOf(stringy)
    int32 rootA `it's`,
    @lengthOf(int)
    // a // b
    @tag(65535)
    @lengthOf(Header)
    uint8 Header @calculatedFrom(""" ++ [233]%N ++ runes_of_ascii "t" ++ [233]%N ++ runes_of_ascii """),
}")).
Eval vm_compute in ("<<<M4421>>>" ++ check (runes_of_ascii "root
    packet
chars{ } 
	    //	t
  // trailing space 

	options
{trueish
    = 
true
	    /// triple
    ; } packet
	chars

    { char[ 7
]trueish

,
int8

    string_
`two words`
,	}")).
Eval vm_compute in ("<<<M3855>>>" ++ check (runes_of_ascii "// top
MetaData float {
    // c2
    uint8 BodyLength,
    // c5
}

// c6
MetaData charz {
    // c9
    float32 trueish `a\`,
    // c13
    i16 metadata `say ""hi""`,
    // c17
}
// c18")).
Eval vm_compute in ("<<<M1202>>>" ++ check (runes_of_ascii "packet //	t
Pad { @tag( 65535) repeat
    len {
match calculatedFrom
as stringy{ 3 :
    u128 ,
10
: charz, } ,i8 zchar
    `doc`,},//	t
matchKey x,
    // " ++ [128512]%N ++ runes_of_ascii " emoji
    } // " ++ [128512]%N ++ runes_of_ascii " emoji")).
Eval vm_compute in ("<<<M1532>>>" ++ check (runes_of_ascii "packet calculatedFrom
{ @calculatedFrom( ""a\\"" ) zchar[ 4294967296 ]
calculatedFrom@lengthOf( pack )	`100% of %d` ,char[]body@calculatedFrom( ""// no comment"" )  ,
@tag( 007")).
Eval vm_compute in ("<<<M2143>>>" ++ check (runes_of_ascii "packet// packet A { u8 x, }
repeatCount	{// packet A { u8 x, }
@leftPad ( '\x00'
) repeat u8x MetaDataX `crlf
line`,
    repeat
    char[] MetaDataX
    ,
u64	uint8x")).
Eval vm_compute in ("<<<M1783>>>" ++ check (runes_of_ascii "options { } packet Packet{char[] i64_ ,
@tag(
    255) match
crc as i8i8{""{,}"" : trueish """" : Pad , ""a\\"" :
Foo ,
    1 :packetx packetx
, """ ++ [128512]%N ++ runes_of_ascii """ : trueish , } , }")).
Eval vm_compute in ("<<<M477>>>" ++ check (runes_of_ascii "
MetaData metadata {
a1
lengthOf
`100% of %d`//x
,
    // " ++ [128512]%N ++ runes_of_ascii " emoji
    asx o ,int32	crc
    , }
packet a1
{ @tag( 0 ) zchar[
65535 ]len  `// not a comment`,}
")).
Eval vm_compute in ("<<<M1512>>>" ++ check (runes_of_ascii "packet calculatedFrom
{ @calculatedFrom( ""a\\"" ) zchar[ 4294967296 ]
calculatedFrom@lengthOf( pack )	`100% of %d` ,char[]body@calculatedFrom( ""// no comment""")).
Eval vm_compute in ("<<<M2379>>>" ++ check (runes_of_ascii "
packet MetaDataX
{
    @leftPad
( // a // b
'0'
) i8 @lengthOf( u
MetaDataX
    ) `say ""hi""` ,	} MetaData BodyLength {
    asx
x_y_z `" ++ [233]%N ++ runes_of_ascii "`
, uint64 u128 , }
")).
Eval vm_compute in ("<<<M1808>>>" ++ check (runes_of_ascii "options { } packet Packet{char[] i64_ ,
@tag(
    255) match
crc as i8i8{""{,}"" : trueish """" : Pad , ""a\\"" :
Foo ,
    1 :packetx
, """ ++ [128512]%N ++ runes_of_ascii """ : trueish , , } , }")).
Eval vm_compute in ("<<<M1815>>>" ++ check (runes_of_ascii "options { } packet Packet{char[] i64_ ,
@tag(
    255) match
crc as i8i8{""{,}"" : trueish """" : Pad , ""a\\"" :
Foo ,
    1 :packetx
, """ ++ [128512]%N ++ runes_of_ascii """ : trueish , u8 , }")).
Eval vm_compute in ("<<<M1729>>>" ++ check (runes_of_ascii "options { } packet Packet{char[] i64_ ,
@tag(
    255) match
crc as i8i8{""{,}"" : """" trueish : Pad , ""a\\"" :
Foo ,
    1 :packetx
, """ ++ [128512]%N ++ runes_of_ascii """ : trueish , } , }")).
Eval vm_compute in ("<<<M1305>>>" ++ check (runes_of_ascii "MetaData f32a
{ }MetaData
calculatedFrom {
} options { trueish = char[] ; MetaDataX
// 50% %s
// trailing space 
=
false
; leftPad = // 50% %s
int64 }
")).
Eval vm_compute in ("<<<M1670>>>" ++ check (runes_of_ascii "options { } packet Packet{char[] u8 ,
@tag(
    255) match
crc as i8i8{""{,}"" : trueish """" : Pad , ""a\\"" :
Foo ,
    1 :packetx
, """ ++ [128512]%N ++ runes_of_ascii """ : trueish , } , }")).
Eval vm_compute in ("<<<M1165>>>" ++ check (runes_of_ascii "
packet u
    { @calculatedFrom(""CRC32"" ) @calculatedFrom(
    ""a\""b"" )
repeat // c
int { string
zchar @lengthOf(
leftPad// @lengthOf(
) `u8 x,`,}
, }")).
Eval vm_compute in ("<<<M2363>>>" ++ check (runes_of_ascii "
packet 
{
    @leftPad
( // a // b
'0'
) i8 u @lengthOf(
MetaDataX
    ) `say ""hi""` ,	} MetaData BodyLength {
    asx
x_y_z `" ++ [233]%N ++ runes_of_ascii "`
, uint64 u128 , }
")).
Eval vm_compute in ("<<<M591>>>" ++ check (runes_of_ascii "// @lengthOf(
root packet crc { } options{ rootA =false ;
roots =65535
    Z9_ = ""it's""
; rootA
    // trailing space 
    = f64 ; Z9_ =char }")).
Eval vm_compute in ("<<<M713>>>" ++ check (runes_of_ascii "MetaData As
{ roots
tag,  u32
a1``,
    crc	packetx ,BodyLength A `crlf
line`
    ,
} options {
    a1
//	t
// @lengthOf(
=
true
    }
")).
Eval vm_compute in ("<<<M2436>>>" ++ check (runes_of_ascii "
packet MetaDataX
{
    @leftPad
( // a // b
'0'
) i8 u @lengthOf(
MetaDataX
    ) `say ""hi""` ,	} MetaData BodyLength {
    asx
x_y_z")).
Eval vm_compute in ("<<<M1328>>>" ++ check (runes_of_ascii "
MetaData float{ float64 u128 ,
    } options  {
}options
{ body=	char[]  float =
float64 repeatCount = float32
options1 =1 ; } 	 ")).
Eval vm_compute in ("<<<M3261>>>" ++ check (runes_of_ascii "
// c
MetaData metadata { } MetaData rootA { i8 i64_ , roots options1 `a\` , lengthOf Header , Z9_ Foo , int16 BodyLength , }")).
Eval vm_compute in ("<<<M3286>>>" ++ check (runes_of_ascii "MetaData metadata { } MetaData rootA { i8 i64_ , roots options1 `a\` // c
, lengthOf Header , Z9_ Foo , int16 BodyLength , }")).
Eval vm_compute in ("<<<M1285>>>" ++ check (runes_of_ascii "options {
    Pad =  false ;//x
asx =
    '\x00'
    // a // b
    ;
BodyLength =// " ++ [27880; 37322]%N ++ runes_of_ascii "
""packet""	o = char[]crc = false } 	 ")).
Eval vm_compute in ("<<<M2108>>>" ++ check (runes_of_ascii "packet// packet A { u8 x, }
repeatCount	{// packet A { u8 x, }
@leftPad ( '\x00'
) repeat u8x MetaDataX `crlf
line`")).
Eval vm_compute in ("<<<M1018>>>" ++ check (runes_of_ascii "
MetaData As
{string MetaDataX
`" ++ [28040; 24687; 31867; 22411]%N ++ runes_of_ascii "` ,trueish	matchKey
    , zchar[ 42
]
// c
// trailing space 
A`it's` , }
")).
Eval vm_compute in ("<<<M3325>>>" ++ check (runes_of_ascii "MetaData float { uint8
// c
BodyLength , } MetaData charz { float32 trueish `a\` , i16 metadata `say ""hi""` , }")).
Eval vm_compute in ("<<<M3942>>>" ++ check (runes_of_ascii "// packet A { u8 x, }
MetaData int {
    zchar[42] x `" ++ [233]%N ++ runes_of_ascii "`,
    uint8 _x `crlf
        line`,
    len u ``,
}//")).
Eval vm_compute in ("<<<M1395>>>" ++ check (runes_of_ascii "root packet
    falsey{ @tag( 0123456789	) @rightPad(' ' ) @calculatedFrom(
""" ++ [128512]%N ++ runes_of_ascii """ //x
)uint32
    As ,
}
")).
Eval vm_compute in ("<<<M4365>>>" ++ check (runes_of_ascii "  MetaData 
_x{ string 
x
	`// not a comment`

    , char[]
    i64_ // trailing space 
	`a\`
, 
}

")).
Eval vm_compute in ("<<<M4036>>>" ++ check (runes_of_ascii "  options {  a	=
    true
    ;  b =
    false

;
    c

=
	'0'

    ;
	d = ""s"" 
;  e =
	007
; }
")).
Eval vm_compute in ("<<<M3039>>>" ++ check (runes_of_ascii "packet A {
    Inner {
        u8 x `
`,
        Deep {
            u8 y `
`,
        },
    },
}")).
Eval vm_compute in ("<<<M4090>>>" ++ check (runes_of_ascii "  packet
A  {

    u32
crc@calculatedFrom(
""\
"" )
,  @calculatedFrom( ""\
"" )  u8 y 
, 
}
")).
Eval vm_compute in ("<<<M2262>>>" ++ check (runes_of_ascii "MetaData _x {string x `// not a comment` , string
i64_ // trailing space 
`a\` int16
    }
")).
Eval vm_compute in ("<<<M2275>>>" ++ check (runes_of_ascii "MetaData _x {string x `// not a comment` , string
@xi64_ // trailing space 
`a\` ,
    }
")).
Eval vm_compute in ("<<<M4016>>>" ++ check (runes_of_ascii "options {
    // " ++ [27880; 37322]%N ++ runes_of_ascii "
    zchar = ""a\""b"";
    metadata = 65535
}

options {
    i64_ = 0;
}")).
Eval vm_compute in ("<<<M3043>>>" ++ check (runes_of_ascii "packet A {
    B b `a
    b
  c`,
    B `a
    b
  c`,
    repeat B bs `a
    b
  c`,
}")).
Eval vm_compute in ("<<<M4183>>>" ++ check (runes_of_ascii "packet A {
    match k as n {
        [1, 22, 007, 4, 5] : B,
        2 : C,
    },
}")).
Eval vm_compute in ("<<<M1731>>>" ++ check (runes_of_ascii "options { } packet Packet{char[] i64_ ,
@tag(
    255) match
crc as i8i8{""{,}"" :")).
Eval vm_compute in ("<<<M95>>>" ++ check (runes_of_ascii "packet zchar {
Header
@lengthOf(
//
// a // b
body
// trailing space 
// " ++ [27880; 37322]%N ++ runes_of_ascii "
),}
")).
Eval vm_compute in ("<<<M4536>>>" ++ check (runes_of_ascii "packet Inner {
    u8 a,
}

root packet P {
    repeat Inner items,
    u8 x,
}")).
Eval vm_compute in ("<<<M2770>>>" ++ check (runes_of_ascii "char[] i16 @lengthOf( match zchar[ false int8 `{ , }` uint8 as """ ++ [128512]%N ++ runes_of_ascii """ u8 uint32")).
Eval vm_compute in ("<<<M3390>>>" ++ check (runes_of_ascii "MetaData _x { f64 charz `tab	here` , } options { BodyLength = """ ++ [233]%N ++ runes_of_ascii "t" ++ [233]%N ++ runes_of_ascii """ ; // c
}")).
Eval vm_compute in ("<<<M2929>>>" ++ check (runes_of_ascii "packet A {
  match k as n {
    [1, 22, ""c c"", 4, 5] : B
    2 : C
  },
}")).
Eval vm_compute in ("<<<M2904>>>" ++ check (runes_of_ascii "packet A {
  match k as n {
    [""a"", ""bb"", 007] : B,
    2 : C
  },
}")).
Eval vm_compute in ("<<<M3404>>>" ++ check (runes_of_ascii "packet o // c
{ @tag( 4294967296 ) options1 @lengthOf( u8x ) `" ++ [233]%N ++ runes_of_ascii "` , }")).
Eval vm_compute in ("<<<M2032>>>" ++ check (runes_of_ascii "packet	packetx { // trailing space 
x_y_z
{
string
charz ,
strin")).
Eval vm_compute in ("<<<M660>>>" ++ check (runes_of_ascii "MetaData o{	zchar[ 7]
msg_type
    ,x_y_z
trueish`line1
line2` ,}")).
Eval vm_compute in ("<<<M428>>>" ++ check (runes_of_ascii "packet
    // " ++ [128512]%N ++ runes_of_ascii " emoji
    chars
    { repeat Header chars , }
")).
Eval vm_compute in ("<<<M3055>>>" ++ check (runes_of_ascii "packet A {
    B b `x
`,
    B `x
`,
    repeat B bs `x
`,
}")).
Eval vm_compute in ("<<<M2290>>>" ++ check (runes_of_ascii "
MetaData MetaData Pad{
u32 rootA `line1
line2` ,
    }
")).
Eval vm_compute in ("<<<M4303>>>" ++ check (runes_of_ascii "packet u8x {
    // 50% %s
    zchar[007] BodyLength,
}")).
Eval vm_compute in ("<<<M86>>>" ++ check (runes_of_ascii "options { packetx= uint64 // `tick` ""quote"" 'q'
;
}")).
Eval vm_compute in ("<<<M2336>>>" ++ check (runes_of_ascii "
MetaData Pad"" {
u32 rootA `line1
line2` ,
    }
")).
Eval vm_compute in ("<<<M3832>>>" ++ check (runes_of_ascii "MetaData zchar 
{ zchar[
	3 
]	// c
		Pad
	,
}
")).
Eval vm_compute in ("<<<M3993>>>" ++ check (runes_of_ascii "packet uint8x {
    char[] rootA `{ , }`,
}//	t")).
Eval vm_compute in ("<<<M545>>>" ++ check (runes_of_ascii "  options { metadata= '0'
    ;
//x
// " ++ [27880; 37322]%N ++ runes_of_ascii "
}
")).
Eval vm_compute in ("<<<M651>>>" ++ check (runes_of_ascii "options
    {roots
// " ++ [27880; 37322]%N ++ runes_of_ascii "
// a // b
= 10 }
")).
Eval vm_compute in ("<<<M2243>>>" ++ check (runes_of_ascii "MetaData _x {string x `// not a comment`")).
Eval vm_compute in ("<<<M2766>>>" ++ check (runes_of_ascii "7 uint64 = ( repeat ) char zchar[ false")).
Eval vm_compute in ("<<<M3224>>>" ++ check (runes_of_ascii "packet A { u8 x,// a


// b

 u8 y, }")).
Eval vm_compute in ("<<<M1826>>>" ++ check (runes_of_ascii "options { } packet Packet{char[] i6")).
Eval vm_compute in ("<<<M3862>>>" ++ check (runes_of_ascii "options {
    metadata = '\x00';
}")).
Eval vm_compute in ("<<<M2606>>>" ++ check (runes_of_ascii "packet A { x @lengthOf(y) `d`, }")).
Eval vm_compute in ("<<<M3126>>>" ++ check (runes_of_ascii "packet A {
 u8 x `d" ++ [5760]%N ++ runes_of_ascii "`, // c" ++ [5760]%N ++ runes_of_ascii "
}")).
Eval vm_compute in ("<<<M2609>>>" ++ check (runes_of_ascii "packet A { x @lengthOf(3), }")).
Eval vm_compute in ("<<<M589>>>" ++ check (runes_of_ascii "options
{
Z9_ ='\x00' ;}
")).
Eval vm_compute in ("<<<M2756>>>" ++ check (runes_of_ascii "J" ++ [65533]%N ++ runes_of_ascii "i" ++ [65533]%N ++ runes_of_ascii "4" ++ [65533; 65533; 65533]%N ++ runes_of_ascii "_z" ++ [65533; 65533]%N ++ runes_of_ascii "l&e" ++ [65533; 65533; 65533]%N ++ runes_of_ascii "M" ++ [65533; 65533; 11; 25; 65533; 27]%N)).
Eval vm_compute in ("<<<M758>>>" ++ check (runes_of_ascii "root packet len
    {}
")).
Eval vm_compute in ("<<<M2667>>>" ++ check (runes_of_ascii "MetaData M { x y z, }")).
Eval vm_compute in ("<<<M2031>>>" ++ check (runes_of_ascii "packet	packetx { //")).
Eval vm_compute in ("<<<M3109>>>" ++ check (runes_of_ascii "packet A {
}
// c" ++ [12288]%N)).
Eval vm_compute in ("<<<M3202>>>" ++ check (runes_of_ascii "MetaData M {
}// c")).
Eval vm_compute in ("<<<M3142>>>" ++ check (runes_of_ascii "packet A {
}// c" ++ [8233]%N)).
Eval vm_compute in ("<<<M1388>>>" ++ check (runes_of_ascii "// @lengthOf(

")).
Eval vm_compute in ("<<<M2302>>>" ++ check (runes_of_ascii "
MetaData Pad")).
Eval vm_compute in ("<<<M2742>>>" ++ check (runes_of_ascii "i32 match {")).
Eval vm_compute in ("<<<M2484>>>" ++ check (runes_of_ascii "Metadata")).
Eval vm_compute in ("<<<M4186>>>" ++ check (runes_of_ascii "// c 
")).
Eval vm_compute in ("<<<M2455>>>" ++ check (runes_of_ascii "zchar")).
Eval vm_compute in ("<<<M3183>>>" ++ check (runes_of_ascii "// c" ++ [6158]%N)).
Eval vm_compute in ("<<<M152>>>" ++ check (runes_of_ascii "


")).
Eval vm_compute in ("<<<M2708>>>" ++ check (runes_of_ascii " " ++ [12]%N ++ runes_of_ascii " ")).
Eval vm_compute in ("<<<M2514>>>" ++ check (runes_of_ascii "@")).
