From FP Require Import Lexer Parser ShowPT Digest Formatter.
From Coq Require Import String List NArith.
Import ListNotations.
Open Scope string_scope.
Set Printing Width 100000000.
Set Printing Depth 100000000.
Definition show_fres (r : fres) : string :=
  match r with
  | FOk s => "OK:" ++ sh_escaped s ""
  | FErr s => "ERR:" ++ sh_escaped s ""
  | FPanic p => "PANIC:" ++ p
  end.
Definition check (rs : list rune) : string := digest (show_fres (format_res rs)).
Definition full (rs : list rune) : string := show_fres (format_res rs).
Eval vm_compute in ("<<<M2027>>>" ++ check (runes_of_ascii "// top
options {
    // c1
    StringPrefixLenType = u8;// c5a
    // c5b
    ArrayPrefixLenType = u32;
    // c9
    FixedStringPadFromLeft = false;// c13
    FixedStringPadChar = ' ';
}

// c18
packet Party {
    repeat i16 Qty,
    // c25
    repeat string Tail,
    // c29
    i8 OrderId,// c32
    i8 msgKind,
    // c35
}

packet Ack {
    Party,
    repeat InRef20 {
        Party,// c46a
        // c46b
        int8 tag7,
        char[5] OrderId,// c54
        zchar[7] Tail,// c59a
        // c59b
        char[] count,
        // c62
        InPrice45 {
            // c64
            Party,
            // c66
            char[1] Px,
        },
        // c73
    },// c75
    char[12] price,// c80a
    // c80b
    int8 sym,
    // c83
}

packet Reject {
    // c87a
    // c87b
    repeat InPrice47 {
        Party,
        // c92
    },
    zchar[4] x,
    repeat Ack,
    zchar[2] Ref,
    repeat Party,// c110
}// c111

packet Cancel {
    // c114a
    // c114b
    Reject,// c116
    repeat string f1,// c120
    uint16 OrderId,// c123
    u8 Acct,
    int8 msgKind,// c129a
    // c129b
}

root packet Fill {
    u8 count,
    // c137
    char[] tag7,
    // c140
    zchar[7] Acct,// c145
    u32 OrderId,// c148
    u32 Note @lengthOf(Body),// c154
    match OrderId as Body {
        // c159a
        // c159b
        106 : Cancel,
        // c163
        196 : Reject,
        // c167
        74 : Party,
        // c171
        75 : Ack,
        // c175a
        // c175b
    },// c177a
    // c177b
}// c178a
// c178b")).
Eval vm_compute in ("<<<M1419>>>" ++ check (runes_of_ascii "packet Frame
    // c1
{ // c2a
  // c2b
u8 HK // c4a
  // c4b
, // c5
u8
    // c6
BK // c7a
  // c7b
, // c8a
  // c8b
u8 TK // c10a
  // c10b
,
    // c11
match HK as // c14a
  // c14b
Hdr { // c16a
  // c16b
1 // c17a
  // c17b
: // c18a
  // c18b
HdrA
    // c19
, // c20a
  // c20b
2 // c21
:
    // c22
HdrB // c23a
  // c23b
,
    // c24
} ,
    // c26
match BK
    // c28
as Body // c30
{ // c31
1 // c32a
  // c32b
:
    // c33
BodyA // c34
, // c35a
  // c35b
2 : BodyB // c38
, // c39a
  // c39b
} // c40
, match // c42
TK as
    // c44
Trl // c45a
  // c45b
{ 1 // c47a
  // c47b
:
    // c48
TrlA
    // c49
, }
    // c51
,
    // c52
} // c53
packet HdrA // c55a
  // c55b
{ // c56
u8 // c57
a // c58
, // c59a
  // c59b
}
    // c60
packet // c61a
  // c61b
HdrB { // c63
u16 b ,
    // c66
}
    // c67
packet BodyA
    // c69
{ u32
    // c71
c // c72
,
    // c73
}
    // c74
packet // c75a
  // c75b
BodyB { // c77
u64 // c78a
  // c78b
d , } // c81a
  // c81b
packet // c82
TrlA { // c84
u8 // c85a
  // c85b
e
    // c86
, // c87a
  // c87b
} root
    // c89
packet // c90
Msg // c91
{ // c92a
  // c92b
Frame , u8 // c95
x
    // c96
, // c97a
  // c97b
} // c98
")).
Eval vm_compute in ("<<<M1398>>>" ++ check (runes_of_ascii "// top
packet // c0
A // c1
{ // c2a
  // c2b
u8 a // c4
, // c5
}
    // c6
packet // c7
B
    // c8
{ u16
    // c10
b // c11
, }
    // c13
packet // c14a
  // c14b
C { // c16
u32 // c17a
  // c17b
c // c18
, // c19
} // c20a
  // c20b
root packet
    // c22
M // c23a
  // c23b
{
    // c24
u16 Kc // c26a
  // c26b
, // c27a
  // c27b
u16
    // c28
Kb // c29
,
    // c30
u16 // c31a
  // c31b
Ka // c32a
  // c32b
, // c33a
  // c33b
match Kc // c35a
  // c35b
as
    // c36
X // c37
{ 9 // c39
: // c40
A // c41
, // c42
10 // c43
: // c44
B // c45
, // c46a
  // c46b
} // c47a
  // c47b
, match // c49
Kb
    // c50
as Y // c52a
  // c52b
{ // c53
2 // c54a
  // c54b
: // c55a
  // c55b
C ,
    // c57
1
    // c58
: // c59a
  // c59b
A
    // c60
,
    // c61
}
    // c62
,
    // c63
match // c64a
  // c64b
Ka // c65
as // c66a
  // c66b
Z { 1 // c69
: // c70
B , // c72
} // c73
, // c74a
  // c74b
A // c75a
  // c75b
, // c76
B // c77a
  // c77b
, // c78
C
    // c79
, }
    // c81
")).
Eval vm_compute in ("<<<M1563>>>" ++ check (runes_of_ascii "options {
    string_ = zchar[00];
}

packet falsey {
    @lengthOf(float)
    string o,
    repeat msg_type,
    match MetaDataX as _x {
        3 : Pad,
    },
    leftPad @lengthOf(i8i8),
    @tag(0123456789)
    i16 Packet `
    `,
    o pack `tab	here`,
    zchar[10] int,
    int16 Foo @calculatedFrom(""CRC32"") `u8 x,`,
    match f32a as u8x {
        [""{,}""] : T,
        [
            ""1"", 65535, 3, 0, ""`tick`"",
            0123456789, """ ++ [128512]%N ++ runes_of_ascii """, ""a\\""
        ] : uint8x,
        255 : a1,
        ""a	b"" : falsey,
        """ ++ [28040; 24687]%N ++ runes_of_ascii """ : x,
        //	t
        [""packet"", 3] : int,
    },
    repeat Foo {
        zchar[1] body ``,
        roots rootA,
        char[0] rootA `doc`,
    },
}// `tick` ""quote"" 'q'

options {
}

options {
    Header = int16;
    roots = false;
    repeatCount = uint8;
    stringy = ""x y"";
    leftPad = ""it's"";
}

MetaData u {
    string_ Header,
    zchar[3] i64_,
}")).
Eval vm_compute in ("<<<M104>>>" ++ check (runes_of_ascii "
root packet stringy{ repeat u16
falsey `
`
, u16 Pad,
    @lengthOf( // packet A { u8 x, }
x)Logon { repeat
zchar[65535
    ]
Packet`it's` , } ,}packet len {@leftPad( ) repeat metadata { match asx
    as asx{""a\\"" :
f32a ,}
    ,}// " ++ [128512]%N ++ runes_of_ascii " emoji
,
uint16  falsey ,body ,repeat
    // a // b
    string
    lengthOf `say ""hi""`
    , } packet i64_
{	x
    ,@lengthOf( i64_ )
@tag( 7// a // b
)
    // `tick` ""quote"" 'q'
    @calculatedFrom(""""
    )  repeat zchar[
    1 ] i8i8
    ,
    i64
    i64_ @calculatedFrom(
    ""\" ++ [233]%N ++ runes_of_ascii """ )`line1
line2`,
float//x
`tab	here` , @calculatedFrom( """ ++ [128512]%N ++ runes_of_ascii """ ) char[] Logon// @lengthOf(
`` , match  leftPad as stringy {
    0
    :float , ""\n""
    : // trailing space 
Pad  , } ,
i8i8 @lengthOf( roots )	, } root packet	i8i8 { tag
    @lengthOf(T
) `" ++ [28040; 24687; 31867; 22411]%N ++ runes_of_ascii "` // " ++ [128512]%N ++ runes_of_ascii " emoji
, }")).
Eval vm_compute in ("<<<M1432>>>" ++ check (runes_of_ascii "// top
options // c0
{ // c1a
  // c1b
LittleEndian
    // c2
= true ; // c5
ArrayPrefixLenType = u64 // c8a
  // c8b
; // c9a
  // c9b
FixedStringPadFromLeft // c10
= false // c12a
  // c12b
;
    // c13
} // c14a
  // c14b
packet // c15a
  // c15b
Quote
    // c16
{ // c17
} // c18
root
    // c19
packet // c20a
  // c20b
Order // c21a
  // c21b
{ // c22
i64 Side2 , // c25
Quote
    // c26
, // c27a
  // c27b
u32 // c28a
  // c28b
Px
    // c29
, // c30
match // c31
Px // c32
as Body // c34
{
    // c35
[ 119 // c37a
  // c37b
,
    // c38
147
    // c39
] : Quote // c42a
  // c42b
, } , // c45a
  // c45b
u16 // c46a
  // c46b
Flags @calculatedFrom( // c48a
  // c48b
""CRC32"" ) // c50
,
    // c51
} // c52a
  // c52b
")).
Eval vm_compute in ("<<<M140>>>" ++ check (runes_of_ascii "options  { }
MetaData metadata  {	float32 u128 `" ++ [28040; 24687; 31867; 22411]%N ++ runes_of_ascii "` ,
}packet
roots {
i64 uint8x``
// `tick` ""quote"" 'q'
// `tick` ""quote"" 'q'
, @tag(  3) // packet A { u8 x, }
@tag(
    0123456789	) stringy @lengthOf(Header )`u8 x,` , f64 u //x
`tab	here`,  match  u8x as u8x
    // `tick` ""quote"" 'q'
    { 10 : string_ , }, zchar[
7 ]  u@calculatedFrom( // a // b
""packet"" ) ,  @leftPad
    ( ) repeat asx _x
    ,zchar[ // `tick` ""quote"" 'q'
7] uint8x
,body
{repeat zchar[
3]
    As , string Header
,
    char[] u, }
, repeat Logon{
repeat zchar[65535 ] packetx `// not a comment` , }
, } // packet A { u8 x, }
MetaData
msg_type{
f64
    crc	`{ , }`
, }
")).
Eval vm_compute in ("<<<M1791>>>" ++ check (runes_of_ascii "
packet

    Logon 	 //x
	{
@calculatedFrom( 
""a	b"" ) repeat
options1
	,
@calculatedFrom(
    ""a\\"") // c
	char[] 
options1 `it's`, @tag(
4294967296 )

    repeat Logon{	match trueish as u128
    {

""x y""
        //	t
	:// c

i64_ , [

    4294967296	,007, 10

    ]
    :	i8i8

    ,
    }  ,
        //
// @lengthOf(
  T`u8 x,`  ,	repeat
uint64

T `u8 x,`
	,
} , }  options  // @lengthOf(
  	{u128	= 	 // trailing space 
'0'tag=
	true;Packet=
    char[ 0123456789] ; Foo = 007

body

    = 
3
;
}packet i64_  {	}
    //x
")).
Eval vm_compute in ("<<<M188>>>" ++ check (runes_of_ascii "packet asx{
@lengthOf(	falsey
    //	t
    ) repeat uint64 charz , repeat // " ++ [128512]%N ++ runes_of_ascii " emoji
char[] As `it's`
, }packet
u8x { @tag(
    4294967296
    )
@calculatedFrom(
""`tick`""
) @calculatedFrom(""abc"" ) repeat // @lengthOf(
i64 options1 `it's`, match Logon as o {  3 :Z9_ 3:T , 3// c
:// @lengthOf(
u128,4294967296: Z9_ , [""""
,
10
    ] : body ,
    // c
    """ ++ [233]%N ++ runes_of_ascii "t" ++ [233]%N ++ runes_of_ascii """ : string_
//
/// triple
, } , @tag( 7 )
uint8x
    @lengthOf(
    //
    Foo ), repeat T _x//
`" ++ [233]%N ++ runes_of_ascii "`
, }")).
Eval vm_compute in ("<<<M1878>>>" ++ check (runes_of_ascii "packet Frame {
    u8 HK,
    u8 BK,
    u8 TK,
    match HK as Hdr {
        1 : HdrA,
        2 : HdrB,
    },
    match BK as Body {
        1 : BodyA,
        2 : BodyB,
    },
    match TK as Trl {
        1 : TrlA,
    },
}

packet HdrA {
    u8 a,
}

packet HdrB {
    u16 b,
}

packet BodyA {
    u32 c,
}

packet BodyB {
    u64 d,
}

packet TrlA {
    u8 e,
}

root packet Msg {
    Frame,
    u8 x,
}")).
Eval vm_compute in ("<<<M347>>>" ++ check (runes_of_ascii "MetaData packetx {
// `tick` ""quote"" 'q'
// `tick` ""quote"" 'q'
float64 _x , msg_type calculatedFrom // a // b
`say ""hi""`  , metadata Foo `a\` ,falsey asx `two words` , char[	4294967296 ]calculatedFrom ,
int32 options1 , }options {
crc
    =
    '\x00' ;
charz = ""it's"" ; BodyLength =
    ""\" ++ [233]%N ++ runes_of_ascii """ body =//
int8
    ; }
MetaData len{
    char[ 42 ] Logon`tab	here`,	}")).
Eval vm_compute in ("<<<M1869>>>" ++ check (runes_of_ascii "options {
}

packet chars {
    int64 i8i8 @calculatedFrom(""// no comment"") `line1
    line2`,
    @calculatedFrom(""`tick`"")
    _x `" ++ [28040; 24687; 31867; 22411]%N ++ runes_of_ascii "`,
    match float as BodyLength {
        //
        """ ++ [28040; 24687]%N ++ runes_of_ascii """ : x_y_z,
        [
            7, 10, """ ++ [233]%N ++ runes_of_ascii "t" ++ [233]%N ++ runes_of_ascii """, 1, ""x y"",
            3
        ] : i64_,
    },// a // b
}

packet uint8x {
}// " ++ [27880; 37322]%N)).
Eval vm_compute in ("<<<M338>>>" ++ check (runes_of_ascii "
MetaData u8x
{
stringy x_y_z , }
root packet MetaDataX
{
len
    @calculatedFrom(""`tick`"")// trailing space 
`tab	here`
    ,repeat
falsey{
T@calculatedFrom( ""\" ++ [233]%N ++ runes_of_ascii """
) ,/// triple
float32 options1 `tab	here` , // a // b
},	@lengthOf( T
)repeat
float64// trailing space 
a1
`{ , }` ,}
")).
Eval vm_compute in ("<<<M1542>>>" ++ check (runes_of_ascii "packet u {
    @calculatedFrom(""CRC32"")
    repeat zchar[1] x_y_z `crlf
        line`,
    @leftPad()
    zchar[255] crc,
}

root packet MetaDataX {
    @tag(255)
    rootA,
}

packet f32a {
    @lengthOf(packetx)
    uint8 Z9_ @calculatedFrom(""CRC32""),
}")).
Eval vm_compute in ("<<<M286>>>" ++ check (runes_of_ascii "options{
} options {
    } root packet uint8x { @leftPad ('\x00'
    )
    match uint8x as	pack {[ ""\n"" ,
""a	b""
    ,
10,
    // " ++ [27880; 37322]%N ++ runes_of_ascii "
    255 ,
// " ++ [27880; 37322]%N ++ runes_of_ascii "
//	t
""a	b"" , //x
"""" ] // " ++ [27880; 37322]%N ++ runes_of_ascii "
:
    repeatCount
    , // c
}
    ,// " ++ [128512]%N ++ runes_of_ascii " emoji
} 	 ")).
Eval vm_compute in ("<<<M439>>>" ++ check (runes_of_ascii "options
{
matchKey = 42/// triple
x='0' ;
// packet A { u8 x, }
//
charz
repeat
// packet A { u8 x, }
// trailing space 
true  ; } MetaData BodyLength
{
uint8
pack,zchar[ 1]float ,  float32 x_y_z `` ,u32
_x,i16 body  , }
")).
Eval vm_compute in ("<<<M467>>>" ++ check (runes_of_ascii "options
{
matchKey = 42/// triple
x='0' ;
// packet A { u8 x, }
//
charz
=
// packet A { u8 x, }
// trailing space 
true  ; } MetaData BodyLength
{ {
uint8
pack,zchar[ 1]float ,  float32 x_y_z `` ,u32
_x,i16 body  , }
")).
Eval vm_compute in ("<<<M582>>>" ++ check (runes_of_ascii "options
{
matchKey = 42/// triple
x='0' ;
// packet A { u8 x, }
//
charz
=
// packet A { u8 x, }
// trailing space 
true  ; } MetaData BodyLength
{
uint8
pack,zchar[ 1]float ,  float32 ~x_y_z `` ,u32
_x,i16 body  , }
")).
Eval vm_compute in ("<<<M528>>>" ++ check (runes_of_ascii "options
{
matchKey = 42/// triple
x='0' ;
// packet A { u8 x, }
//
charz
=
// packet A { u8 x, }
// trailing space 
true  ; } MetaData BodyLength
{
uint8
pack,zchar[ 1]float ,  float32 x_y_z `` u32,
_x,i16 body  , }
")).
Eval vm_compute in ("<<<M531>>>" ++ check (runes_of_ascii "options
{
matchKey = 42/// triple
x='0' ;
// packet A { u8 x, }
//
charz
=
// packet A { u8 x, }
// trailing space 
true  ; } MetaData BodyLength
{
uint8
pack,zchar[ 1]float ,  float32 x_y_z `` ,
_x,i16 body  , }
")).
Eval vm_compute in ("<<<M246>>>" ++ check (runes_of_ascii "packet a1 {//	t
} root packet float {char[] pack ,
@tag(
65535 ) u16 string_
// trailing space 
// c
, repeat rootA	{
// `tick` ""quote"" 'q'
//x
repeat
    asx charz
`a\`, }
    // `tick` ""quote"" 'q'
    ,}
")).
Eval vm_compute in ("<<<M1711>>>" ++ check (runes_of_ascii "options {
    FixedStringPadChar = '0';
}

packet Q {
    zchar[4] z,
    @rightPad('\x00')
    char[3] n,
    char[5] d,
}

root packet R {
    Q,
    zchar[8] top,
    repeat zchar[2] zs,
}")).
Eval vm_compute in ("<<<M670>>>" ++ check (runes_of_ascii "// c
packet i64_ {	char[] calculatedFrom , } packet
trueish  {@calculatedFrom(
""a\\"" ) o { { i32 falsey@lengthOf( uint8x ),
} , } // `tick` ""quote"" 'q'
options {// c
Z9_ = ' '//
}
")).
Eval vm_compute in ("<<<M710>>>" ++ check (runes_of_ascii "// c
packet i64_ {	char[] calculatedFrom , } packet
trueish  {@calculatedFrom(
""a\\"" ) o { i32 falsey@lengthOf( uint8x )
} , } // `tick` ""quote"" 'q'
options {// c
Z9_ = ' '//
}
")).
Eval vm_compute in ("<<<M716>>>" ++ check (runes_of_ascii "// c
packet i64_ {	char[] calculatedFrom , } packet
trueish  {@calculatedFrom(
""a\\"" ) o { i32 falsey@lengthOf( uint8x ),
} , } // `tick` ""quote"" 'q'
options {// c
Z9_")).
Eval vm_compute in ("<<<M1825>>>" ++ check (runes_of_ascii "packet A {
    u16 len @lengthOf(body) `a
            b
          c`,
    u32 crc @calculatedFrom(""CRC32"") `a
            b
          c`,
    string body,
}")).
Eval vm_compute in ("<<<M215>>>" ++ check (runes_of_ascii "MetaData tag { zchar[ // a // b
007 ]BodyLength ``
    // packet A { u8 x, }
    , } root packet MetaDataX {
string_
    @lengthOf(
Header) ,}
")).
Eval vm_compute in ("<<<M1496>>>" ++ check (runes_of_ascii "

  options 
{ 
roots  //x

	=

""packet""
;

    len

=

    0;
crc
=

    zchar[ 65535
/// triple
// " ++ [128512]%N ++ runes_of_ascii " emoji
] //x
  ; 
}

")).
Eval vm_compute in ("<<<M1975>>>" ++ check (runes_of_ascii "packet
    Logon

    {
@tag(
	42 
) @rightPad

(

' '

    // c
	  ) 
@leftPad 
( )  repeat trueish
{

string T
,
	} 
,	}")).
Eval vm_compute in ("<<<M648>>>" ++ check (runes_of_ascii "MetaData
    // trailing space 
    matchKey
{ u64 chars // a // b
,char[] lengthOf `// not a comment`
    , //	t
@tag}")).
Eval vm_compute in ("<<<M645>>>" ++ check (runes_of_ascii "MetaData
    // trailing space 
    match?Key
{ u64 chars // a // b
,char[] lengthOf `// not a comment`
    , //	t
}")).
Eval vm_compute in ("<<<M1966>>>" ++ check (runes_of_ascii "

  packet
	o
{
@tag(
42)	repeat  x

    { 
char[ 0123456789

] 
i64_
	    // c
  ,}	,
    }options

{

    } ")).
Eval vm_compute in ("<<<M960>>>" ++ check (runes_of_ascii "packet A {
    u16 len @lengthOf(body) `tab
	x`,
    u32 crc @calculatedFrom(""CRC32"") `tab
	x`,
    string body,
}")).
Eval vm_compute in ("<<<M972>>>" ++ check (runes_of_ascii "packet A {
    match k as n {
        ""\
"" : B,
        [""\
"", 1] : C,
        [1,2,3,4,5,""\
""] : D,
    },
}")).
Eval vm_compute in ("<<<M635>>>" ++ check (runes_of_ascii "MetaData
    // trailing space 
    matchKey
{ u64 chars // a // b
,char[] lengthOf `// not a comment`")).
Eval vm_compute in ("<<<M1270>>>" ++ check (runes_of_ascii "packet calculatedFrom { @tag( 4294967296 ) u msg_type ,
// c
char[ 3 ] crc @lengthOf( len ) `u8 x,` , }")).
Eval vm_compute in ("<<<M894>>>" ++ check (runes_of_ascii "packet A {
  match k as n {
    [1, ""bb"", 007, ""d"", 5, ""f"", 7, ""h"", 9, ""j"", 11] : B,
    2 : C
  },
}")).
Eval vm_compute in ("<<<M854>>>" ++ check (runes_of_ascii "packet A {
  match k as n {
    [""a"", ""bb"", ""c c"", ""d"", ""e"", ""f"", ""g"", ""h""] : B
    2 : C
  },
}")).
Eval vm_compute in ("<<<M1148>>>" ++ check (runes_of_ascii "packet Logon { @tag( 42 ) @rightPad ( ' ' ) // c
@leftPad ( ) repeat trueish { string T , } , }")).
Eval vm_compute in ("<<<M885>>>" ++ check (runes_of_ascii "packet A {
  match k as n {
    [1, 22, ""c c"", 4, 5, ""f"", 7, 8, ""i"", 10] : B,
    2 : C
  },
}")).
Eval vm_compute in ("<<<M855>>>" ++ check (runes_of_ascii "packet A {
  match k as n {
    [1, ""bb"", 007, ""d"", 5, ""f"", 7, ""h""] : B,
    2 : C
  },
}")).
Eval vm_compute in ("<<<M1859>>>" ++ check (runes_of_ascii "
packet 
A  {match	k
as
n
{ 
[ ""a"" ,	""bb""
,	007
	,  ""d"",
""e"" ]
	: B
	2 :  C
	} , }
")).
Eval vm_compute in ("<<<M1872>>>" ++ check (runes_of_ascii "

  packet
f32a {  //
  @tag(
    1  )
Z9_ chars

,	chars  // " ++ [128512]%N ++ runes_of_ascii " emoji
`
`
, 
}
")).
Eval vm_compute in ("<<<M1231>>>" ++ check (runes_of_ascii "packet o { @tag( 42 ) repeat x { char[ 0123456789 ]
// c
i64_ , } , } options { }")).
Eval vm_compute in ("<<<M125>>>" ++ check (runes_of_ascii "root
packet x_y_z{
// a // b
// packet A { u8 x, }
repeat falsey // " ++ [27880; 37322]%N ++ runes_of_ascii "
`" ++ [233]%N ++ runes_of_ascii "` , }")).
Eval vm_compute in ("<<<M625>>>" ++ check (runes_of_ascii "MetaData
    // trailing space 
    matchKey
{ u64 chars // a // b
,char[]")).
Eval vm_compute in ("<<<M812>>>" ++ check (runes_of_ascii "packet A {
  match k as n {
    [1, 22, 007, 4, 5] : B,
    2 : C
  },
}")).
Eval vm_compute in ("<<<M1313>>>" ++ check (runes_of_ascii "MetaData _x { // c
zchar[ 4294967296 ] lengthOf `// not a comment` , }")).
Eval vm_compute in ("<<<M1292>>>" ++ check (runes_of_ascii "// top
packet
    // c0
lengthOf
    // c1
{
    // c2
}
    // c3
")).
Eval vm_compute in ("<<<M784>>>" ++ check (runes_of_ascii "packet A {
  match k as n {
    [""a"", 22] : B
    2 : C
  },
}")).
Eval vm_compute in ("<<<M1758>>>" ++ check (runes_of_ascii "packet A {
    match k as n {
        [1, 2] : B,
    },
}")).
Eval vm_compute in ("<<<M1078>>>" ++ check (runes_of_ascii "packet A { u8 x, } // a
// b
packet B {} // c
// d")).
Eval vm_compute in ("<<<M76>>>" ++ check (runes_of_ascii "options { repeatCount= 00 ; }
// " ++ [128512]%N ++ runes_of_ascii " emoji
")).
Eval vm_compute in ("<<<M1888>>>" ++ check (runes_of_ascii "packet

    lengthOf
    {
    }  // c")).
Eval vm_compute in ("<<<M1516>>>" ++ check (runes_of_ascii "packet A {
    u8 x `tab
    	x`,
}")).
Eval vm_compute in ("<<<M933>>>" ++ check (runes_of_ascii "root packet A {
    u8 x `
`,
}")).
Eval vm_compute in ("<<<M1076>>>" ++ check (runes_of_ascii "MetaData M {
}// c
options {}")).
Eval vm_compute in ("<<<M1303>>>" ++ check (runes_of_ascii "packet lengthOf { }
// c
")).
Eval vm_compute in ("<<<M767>>>" ++ check (runes_of_ascii "@calculatedFrom( int32")).
Eval vm_compute in ("<<<M976>>>" ++ check (runes_of_ascii "// c 
packet A {
}")).
Eval vm_compute in ("<<<M1058>>>" ++ check (runes_of_ascii "packet A {
}// c x")).
Eval vm_compute in ("<<<M325>>>" ++ check (runes_of_ascii "packet Z9_ {	}
")).
Eval vm_compute in ("<<<M1059>>>" ++ check (runes_of_ascii "// c x")).
Eval vm_compute in ("<<<M730>>>" ++ check (runes_of_ascii "/")).
