From FP Require Import Lexer Parser ShowPT Digest Formatter.
From Coq Require Import String List NArith.
Import ListNotations.
Open Scope string_scope.
Set Printing Width 100000000.
Set Printing Depth 100000000.
Definition show_fres (r : fres) : string :=
  match r with
  | FOk s => "OK:" ++ sh_escaped s ""
  | FErr s => "ERR:" ++ sh_escaped s ""
  | FPanic p => "PANIC:" ++ p
  end.
Definition check (rs : list rune) : string := digest (show_fres (format_res rs)).
Definition full (rs : list rune) : string := show_fres (format_res rs).
Eval vm_compute in ("<<<M443>>>" ++ check (runes_of_ascii "// `tick` ""quote"" 'q'
packet A
{
@lengthOf(
msg_type )
repeat
int64	rootA
// " ++ [27880; 37322]%N ++ runes_of_ascii "
// `tick` ""quote"" 'q'
,x
    ,
@calculatedFrom( """"
) //x
x @lengthOf(// @lengthOf(
trueish )
, match
    x
as x_y_z
{
""a\""b"": // trailing space 
packetx}
    , packetx @calculatedFrom("""" )
`u8 x,` ,
float32
u128 `crlf
line` , match x
    as
T { [ ""packet""
    ]
: body} , x_y_z
@calculatedFrom( """" ) ,
    rootA
tag ,
    } root packet
    body
// " ++ [27880; 37322]%N ++ runes_of_ascii "
/// triple
{@calculatedFrom( ""a\\""
)
    repeat i8
metadata ,	@calculatedFrom( """ ++ [128512]%N ++ runes_of_ascii """
    )
    repeat	pack string_,@rightPad
    (//x
' ') char[ 10 ]
calculatedFrom@lengthOf(  pack)`doc`	,	@calculatedFrom(
    ""it's"" //	t
) repeat Packet
{// " ++ [27880; 37322]%N ++ runes_of_ascii "
match options1 as
body
{ ""\n""
: Foo,
3 : //
asx , }
    ,} , @lengthOf( As
)float64 Logon @calculatedFrom( """" )
    /// triple
    ,	i64_ {match  x_y_z
as string_  { 42: pack ""\" ++ [233]%N ++ runes_of_ascii """ // " ++ [128512]%N ++ runes_of_ascii " emoji
: rootA , 255
    :lengthOf 4294967296
:tag ,
} , }  , @tag( 3 )
    @tag( 7  )	@rightPad ()repeat
//x
//x
uint64 u128, int16
    packetx // " ++ [27880; 37322]%N ++ runes_of_ascii "
`" ++ [233]%N ++ runes_of_ascii "`
// " ++ [27880; 37322]%N ++ runes_of_ascii "
// c
,
repeat
metadata
//
/// triple
len
//x
// trailing space 
,
} packet rootA{ repeat A{
    repeat T {roots @lengthOf( i64_ )
    ,
u16
    tag @calculatedFrom( ""packet"" )  ,  string falsey @calculatedFrom(
    ""\n"" ) ,
match x as u8x
//	t
// " ++ [27880; 37322]%N ++ runes_of_ascii "
{ 0 // trailing space 
: string_
,
"""" :  _x""\" ++ [233]%N ++ runes_of_ascii """/// triple
:
    MetaDataX , } , },}	,
    @calculatedFrom(	""a\""b"") repeat
    i16 i8i8  ,
repeat
float32 BodyLength `two words` , @leftPad
(
    ) u32 _x // packet A { u8 x, }
@calculatedFrom( ""CRC32"" ), @leftPad (
' '	) crc @lengthOf( o )
`u8 x,`  , @lengthOf(Packet )	msg_type
Z9_  , u { repeat o, }
, }
packet rootA
{ repeat T uint8x,
}
    //	t
    packet x_y_z { @tag( 255 // " ++ [128512]%N ++ runes_of_ascii " emoji
)  float64
lengthOf ,@rightPad
    // " ++ [128512]%N ++ runes_of_ascii " emoji
    ( '0' )
    len
@calculatedFrom( ""a\\""
) ,
uint32 Logon	@calculatedFrom(  ""`tick`"" //	t
) `it's`
, @rightPad (
    ) zchar[ 00
    ]  len ,	@tag( // packet A { u8 x, }
3)char[ 255 ] Header//x
`{ , }` ,  match Logon	as
metadata { ""{,}""
    : pack , } , }")).
Eval vm_compute in ("<<<M758>>>" ++ check (runes_of_ascii "root packet o
    {
@lengthOf( BodyLength) uint64 string_@calculatedFrom( ""a\""b""
) ,	repeat tag { match crc  as  lengthOf
    { ""{,}"" :
    //	t
    i8i8 , 255 : trueish
// c
/// triple
[ 10
    // @lengthOf(
    , 1 ,
    // " ++ [128512]%N ++ runes_of_ascii " emoji
    ""abc"" , 0123456789 ,
4294967296
    ,
00
    ]	: body } ,
int32 uint8x @calculatedFrom( ""// no comment"" ) ,// @lengthOf(
zchar[3
] msg_type `` , repeat
float32 pack`it's` //
, }, match  u as _x	{
00
: calculatedFrom , 255 // @lengthOf(
: float ,
""\n"" : repeatCount,
    } ,@tag(
3
    ) match
// c
//
A as Z9_ { ""a\\"": //x
rootA""// no comment"" : f32a,[ ""x y"" ]: i64_ } ,x_y_z ,
int32 f32a , // packet A { u8 x, }
@leftPad
    (
)
f32 roots , @lengthOf( packetx ) @tag(  255 )// c
@tag(
    3
    )i32
    string_
    @calculatedFrom(
//	t
// packet A { u8 x, }
""" ++ [128512]%N ++ runes_of_ascii """)
    `doc`,@leftPad ( ) int8 trueish // `tick` ""quote"" 'q'
@lengthOf(	uint8x
/// triple
// " ++ [27880; 37322]%N ++ runes_of_ascii "
) ,
    zchar[
    007] tag
    @calculatedFrom(""{,}"" )
    , } packet leftPad {
string Foo
, metadata
//	t
// " ++ [128512]%N ++ runes_of_ascii " emoji
u8x ,
msg_type // c
`
` ,  @leftPad
(
    )
repeat metadata {
//x
//	t
char[]
// a // b
// packet A { u8 x, }
i8i8@calculatedFrom( ""CRC32""
)
    , char[1  ] rootA , match falsey as zchar { 4294967296 :leftPad}
, // c
char[/// triple
007 ]stringy @lengthOf(
    /// triple
    i64_	)`a\` ,// packet A { u8 x, }
} ,
    @rightPad (
    '0'
) @lengthOf(
    /// triple
    x
    ) @calculatedFrom(
""1"" ) repeat roots
    ,
    char[]  int@calculatedFrom(""" ++ [128512]%N ++ runes_of_ascii """)`a\`
    ,zchar[
42 ] stringy ,
@lengthOf(chars )
char[ 255 ] int,
    crc@lengthOf(
    falsey
    )`line1
line2`
    ,}
// trailing space 
")).
Eval vm_compute in ("<<<M588>>>" ++ check (runes_of_ascii "MetaData stringy { } packet Packet
//	t
// c
{ char[007  ] o @calculatedFrom(""1"" ) //	t
, // @lengthOf(
}  packet
    o{ u128	{
u8 crc  , zchar[	1
    ] _x
@lengthOf(  Z9_ )
    /// triple
    `doc`
,
    char[ 7 ]
    falsey , }
, @lengthOf( int) match	chars
    as
asx
{
[ 255
]	: x_y_z , 255 : o 0123456789 :
a1, ""// no comment"" :
    trueish, }, } packet Z9_	{	@rightPad ( '0')@tag(	00 ) f32
uint8x @calculatedFrom( //	t
""" ++ [128512]%N ++ runes_of_ascii """ ) , } packet leftPad {
match
roots as trueish { [""{,}""
,0 // " ++ [128512]%N ++ runes_of_ascii " emoji
] : BodyLength, 65535 : As 65535 :zchar ,
3:rootA , 255 : x_y_z ,
} , @leftPad() float32	x_y_z	, repeat T
{ u128 @calculatedFrom(
""CRC32"" ) , char[]
    tag @lengthOf(MetaDataX)
,  float  rootA,
Foo @calculatedFrom(
    ""packet""
) , }
// `tick` ""quote"" 'q'
//x
, match x
as msg_type {
    3
:
u
} ,@lengthOf( tag
/// triple
/// triple
)
string  a1,@rightPad( '0'
    ) @tag(
// a // b
// a // b
7 ) match
Logon
// a // b
//	t
as
    /// triple
    falsey
    {
""CRC32"" // c
:
    // " ++ [27880; 37322]%N ++ runes_of_ascii "
    x//
,4294967296
: Header,""// no comment""
    // " ++ [128512]%N ++ runes_of_ascii " emoji
    :
    charz 00:// trailing space 
u128
} , @calculatedFrom(
""a\""b"" ) @calculatedFrom(""a\""b"") @tag(
    // " ++ [128512]%N ++ runes_of_ascii " emoji
    42
    //x
    )	repeat zchar[  00
] falsey	,
    // " ++ [27880; 37322]%N ++ runes_of_ascii "
    @tag(// a // b
4294967296 ) @calculatedFrom( ""abc""
    )@rightPad( ' '
    ) crc @calculatedFrom( ""\" ++ [233]%N ++ runes_of_ascii """ // " ++ [128512]%N ++ runes_of_ascii " emoji
)
,
    u16 metadata , }
")).
Eval vm_compute in ("<<<M3722>>>" ++ check (runes_of_ascii "packet string_// packet A { u8 x, }

	{ @lengthOf(x_y_z	// " ++ [128512]%N ++ runes_of_ascii " emoji
      )

u8x  // @lengthOf(
@lengthOf( 
MetaDataX ) ,	match
u128	as

    calculatedFrom
{ ""// no comment""  :
	Foo 
}	,@tag(
	255
)  f32a
    body
, f64
i64_

`two words`
    ,
@tag( 7
	)
@leftPad ()

    // c
		// a // b
  @calculatedFrom( """ ++ [233]%N ++ runes_of_ascii "t" ++ [233]%N ++ runes_of_ascii """  )
uint16

    u@lengthOf(

    i64_ ) `tab	here`,	@lengthOf( options1) roots 
{string

    x@calculatedFrom(

""1""
    ) 
, len`say ""hi""`,
    rootA
@lengthOf(
    crc

    ) 
//	t
  , i64_
    @lengthOf(
Logon )
	// trailing space 
  	`doc`

,} 
//
	//
,

Packet
    @calculatedFrom(
""abc"" ) ,
    @tag(
    7 )

    @lengthOf(crc )  match crc
as
Z9_ {
42 
: u128
	10
	:
Packet ,  ""packet"": repeatCount [
""" ++ [128512]%N ++ runes_of_ascii """ ,
""abc""  // " ++ [27880; 37322]%N ++ runes_of_ascii "
	]

    :

    u8x  [ ""a\""b"" 	 /// triple
	,
42	]

    :
	rootA
    , [
    007
, ""1"" , 
//	t
    """ ++ [233]%N ++ runes_of_ascii "t" ++ [233]%N ++ runes_of_ascii """] :
chars  ,}

    , }	root
packet
u{@calculatedFrom(""CRC32""
	) _x 
@calculatedFrom(
""\" ++ [233]%N ++ runes_of_ascii """)

    , calculatedFrom 
lengthOf
,  @rightPad
	()uint32  zchar
	@calculatedFrom(""" ++ [233]%N ++ runes_of_ascii "t" ++ [233]%N ++ runes_of_ascii """

) ,
A
    , }root

packet
int { 
    // `tick` ""quote"" 'q'
// `tick` ""quote"" 'q'
char stringy
	`a\`,  // trailing space 
}

    options
	{
	Z9_//	t
		=

""abc"";crc =
' '

    ;matchKey
=

00 
;
	}
")).
Eval vm_compute in ("<<<M3708>>>" ++ check (runes_of_ascii "

  packet	trueish 
    // @lengthOf(

{ 
char[ 7]	chars
@calculatedFrom(

    """ ++ [128512]%N ++ runes_of_ascii """ )

    , 
char[]uint8x

@calculatedFrom(""`tick`""

)	// c
      `
` , int16  // a // b
    metadata @calculatedFrom(
""" ++ [128512]%N ++ runes_of_ascii """	// @lengthOf(
  ) `doc`,pack@lengthOf(
    stringy
) ,

    u8 
float

    @lengthOf( 
leftPad	)

    , @lengthOf(chars
)
	f32a

trueish

    ,  repeat
zchar[	//	t
	4294967296 ]

    u
    ,@leftPad ( 
  //

  ' ' 	 // trailing space 
    )
    @lengthOf(leftPad	) 
@tag(	7

) 
repeat

    string u128	,
	}

    packet Header
{	u64 leftPad

, @lengthOf( u128	)  repeat
uint32  T ,

@tag( 4294967296 )repeat

    uint32
    x_y_z ``
,
T ,
@tag(
	1
    ) 
zchar[
7 
]Packet @lengthOf(f32a 
)
	    // @lengthOf(
	//x
      , // trailing space 
	  float32 lengthOf , // packet A { u8 x, }
i32 	 // " ++ [128512]%N ++ runes_of_ascii " emoji
	calculatedFrom
    `crlf
line` ,
	@tag(
0123456789 )
    @tag(1  // trailing space 

	)  
  //

// `tick` ""quote"" 'q'
@calculatedFrom(

""" ++ [128512]%N ++ runes_of_ascii """
)float32 lengthOf
	@calculatedFrom(""\n"" )`" ++ [233]%N ++ runes_of_ascii "`
,
zchar[ 
007
    ]zchar
@calculatedFrom(
    // a // b
  // packet A { u8 x, }
		""abc""

)
`" ++ [28040; 24687; 31867; 22411]%N ++ runes_of_ascii "`/// triple

,
	int32 roots
,  }
")).
Eval vm_compute in ("<<<M4125>>>" ++ check (runes_of_ascii "
MetaData
asx

{

    }
	options{
body= 
    //x
    	// @lengthOf(
char[]  ;	// @lengthOf(
	repeatCount
=true
;
	packetx =
""a\""b"" 
;
	float=	""x y"" ; zchar
	// @lengthOf(

	=
	""\" ++ [233]%N ++ runes_of_ascii """
;  }
    MetaData 
_x{
    u16 
falsey  ``  ,
    }
    root 
packet 
metadata

    {	}packet
    Foo

{

repeat 
        // trailing space 

	u128
	, @tag(  // trailing space 

  7  )uint16
	MetaDataX
	,
    @tag(
1

) 
        /// triple
falsey

    `say ""hi""` 
, 
@rightPad	(//	t

)

    @tag(3
	)	u ,@lengthOf(
    roots// " ++ [128512]%N ++ runes_of_ascii " emoji
    )

match

body
	as repeatCount

    {  ""CRC32""// " ++ [27880; 37322]%N ++ runes_of_ascii "
    :

asx ,

42
	:msg_type

    },  // packet A { u8 x, }
stringy {	repeat
char[
// c
  3 ]uint8x ,
match Logon
as A 
{""abc""
	:

    i8i8 
,
	}
	,  match

BodyLength
    as
    len
    { [
0123456789
,  
  //

	// @lengthOf(

  007	,
	4294967296
    , ""{,}"" ]	:	// " ++ [128512]%N ++ runes_of_ascii " emoji
Foo

,	} //	t
  ,  } ,
@leftPad 
('0'

    ) 
uint8x @lengthOf(

i8i8
	)	, 	 //	t
    _x{ 
repeat 
x
`line1
line2`
, }
,	@tag(
	42

) falsey
        // trailing space 
      u128	// trailing space 
  	,
int64 MetaDataX ,}
")).
Eval vm_compute in ("<<<M210>>>" ++ check (runes_of_ascii "packet chars
    {
int32 trueish ,match Pad
as repeatCount { [0] :// " ++ [27880; 37322]%N ++ runes_of_ascii "
Pad
    , /// triple
3
: Foo , ""abc""
    :
i64_ //	t
, [255
    ,	3 ]
    :
Packet ,[
0123456789 // @lengthOf(
,""// no comment"" ]
: Packet , }
    , // c
match  a1 as u {[// `tick` ""quote"" 'q'
""abc""
, """ ++ [233]%N ++ runes_of_ascii "t" ++ [233]%N ++ runes_of_ascii """
, """" ,  0
    ,
    //	t
    255 ]
:u
    //	t
    ,
    } ,@tag(  10
    ) match a1
    as a1
{
    [42
    ]//
:packetx ,
    } ,@lengthOf(As ) repeat	char[0123456789] repeatCount`tab	here` ,string o `crlf
line` ,
//x
// a // b
As
    @lengthOf(//x
i8i8 )
    , string repeatCount @lengthOf( u128 ) ,
    //
    @tag( 00 ) repeat pack Logon , }	root packet Foo {@tag( 1)char[ // packet A { u8 x, }
3
]
i64_ ,
f32
// packet A { u8 x, }
// " ++ [27880; 37322]%N ++ runes_of_ascii "
charz , // `tick` ""quote"" 'q'
i8 zchar
    @lengthOf(// `tick` ""quote"" 'q'
MetaDataX ) /// triple
,@tag( 007 )u8 _x ,@tag(  255 ) msg_type@calculatedFrom(""`tick`"") `doc` ,  @calculatedFrom( """ ++ [233]%N ++ runes_of_ascii "t" ++ [233]%N ++ runes_of_ascii """ ) match len as /// triple
As {""// no comment"" : falsey ,
    }  , } MetaData leftPad{ x i8i8 , } //")).
Eval vm_compute in ("<<<M3953>>>" ++ check (runes_of_ascii "

  options
{ StringPrefixLenType = u32

    ;

ArrayPrefixLenType= 
u8

    ;
FixedStringPadFromLeft
= 
false 
;

    } packet
    Logon
    {i8
venue 
, int16  f1,
zchar[

8

    ]

Acct

    ,

    repeat
InNote16{InQty73
{
	float32 tag7,
    }

,  f32 Acct
    ,	zchar[

    5]
sym
, }

,uint16
    Side2

,
    i32 lastPx
    ,

    }packet

Fill  { repeat InOrderid15 {
	zchar[ 8
]
    sym, repeat
    char[	2

]  OrderId ,repeat Logon
	,
    InQty82
{  char[]
Tail

,repeat	Logon

    ,
float64 price 
, f64
Side2

    , }
,
    char[ 12 ] venue ,char[
4 
]

    Px
    ,	} ,

@rightPad( '0' ) char[

    2
	]

    venue,
InPrice99{
	InAcct72 {

u8

pad0	,

}
,u32
    OrderId
	,
	Logon

,
}
    ,
}root

    packet
    Reject {
    zchar[ 9
    ] 
msgKind , u32

venue  ,u16

seqNo 
@lengthOf(  Body )
,  match venue

as

    Body  {57
:

    Fill ,8
:  Logon
, } ,
u16

Tail @calculatedFrom(
    ""CRC32""
    )
, }

")).
Eval vm_compute in ("<<<M4114>>>" ++ check (runes_of_ascii "root

packet
    body
	{ 	 /// triple
      crc

x_y_z`say ""hi""`	,

float 	 // `tick` ""quote"" 'q'
  _x

,
    T 	 // " ++ [128512]%N ++ runes_of_ascii " emoji
	`a\`
	    // " ++ [27880; 37322]%N ++ runes_of_ascii "

  ,uint64
MetaDataX ,

    repeat 
zchar[
7	]	calculatedFrom``, 
uint32

    len 
	    // c
	  // @lengthOf(
    	`a\`

    ,

    }/// triple
    options 
{	} 
packet
a1 {
@tag(	1
)
	Logon
    @lengthOf(  options1 )
`{ , }`
, @calculatedFrom(
    ""abc""

    )
/// triple
      f32a // " ++ [27880; 37322]%N ++ runes_of_ascii "
    {
leftPad
{ // trailing space 

  o	matchKey ``
,
	}
	,int32 int
	// c
	  // @lengthOf(
      ``
	, char[
007

    ]zchar 
@lengthOf(Z9_
	)
    `tab	here`,
char[
    1	]
falsey

,
	}
	,
repeat int16
    Z9_  ,

match
zchar
as

    zchar 
{

    ""packet"" :
x_y_z
	,
	[3 
    // " ++ [128512]%N ++ runes_of_ascii " emoji
	, 
""CRC32""	,0, ""CRC32""	//
	,0123456789]
	:len
,
[
0
,	4294967296 ]
    :
Packet ,
    [

65535

]
    : options1[ 10 ]	//	t
	:  u128 ,	}

, // packet A { u8 x, }
  }

")).
Eval vm_compute in ("<<<M3264>>>" ++ check (runes_of_ascii "// top
options
    // c0
{
    // c1
chars
    // c2
=
    // c3
""a\\""
    // c4
}
    // c5
packet
    // c6
Z9_
    // c7
{
    // c8
match
    // c9
BodyLength
    // c10
as
    // c11
roots
    // c12
{
    // c13
""" ++ [28040; 24687]%N ++ runes_of_ascii """
    // c14
:
    // c15
falsey
    // c16
,
    // c17
00
    // c18
:
    // c19
u128
    // c20
0
    // c21
:
    // c22
len
    // c23
,
    // c24
007
    // c25
:
    // c26
f32a
    // c27
}
    // c28
,
    // c29
@tag(
    // c30
3
    // c31
)
    // c32
@calculatedFrom(
    // c33
""`tick`""
    // c34
)
    // c35
@leftPad
    // c36
(
    // c37
' '
    // c38
)
    // c39
string
    // c40
asx
    // c41
,
    // c42
string
    // c43
u
    // c44
@lengthOf(
    // c45
options1
    // c46
)
    // c47
,
    // c48
float32
    // c49
i64_
    // c50
@calculatedFrom(
    // c51
""a\""b""
    // c52
)
    // c53
,
    // c54
}
    // c55
")).
Eval vm_compute in ("<<<M3760>>>" ++ check (runes_of_ascii "packet uint8x {
    @lengthOf(Pad)
    Foo,
}

root packet Foo {
    char[] i64_ @calculatedFrom(""a	b"") `u8 x,`,
    zchar[3] tag @lengthOf(tag),
    @lengthOf(falsey)
    options1 @lengthOf(repeatCount),
    string matchKey `crlf
    line`,
}

packet metadata {
    //	t
    uint32 i8i8,
}

root packet Header {
    @lengthOf(_x)
    @lengthOf(A)
    metadata tag `
    `,
    x_y_z `tab	here`,
    Pad,
    @calculatedFrom(""" ++ [128512]%N ++ runes_of_ascii """)
    //x
    repeat string f32a `crlf
    line`,
    string packetx @calculatedFrom(""a\\""),
}

packet u8x {
    pack,
    @calculatedFrom(""// no comment"")
    packetx,
    match options1 as chars {
        ""1"" : Logon,
        7 : trueish,
    },
    match asx as Logon {
        [3] : _x,
        [""// no comment"", 7, """ ++ [233]%N ++ runes_of_ascii "t" ++ [233]%N ++ runes_of_ascii """, ""it's"", 1] : i8i8,
        // " ++ [27880; 37322]%N ++ runes_of_ascii "
        [""1""] : T,
    },
}// a // b")).
Eval vm_compute in ("<<<M3667>>>" ++ check (runes_of_ascii "MetaData msg_type {
    string charz,
    crc u8x,
    u16 x_y_z `u8 x,`,
    i64 zchar,
}

// @lengthOf(
packet T {
    @calculatedFrom(""a\\"")
    uint16 chars @calculatedFrom(""x y"") `
    `,
}

packet pack {
}

options {
}

packet trueish {
    // trailing space 
    @calculatedFrom(""abc"")
    match chars as lengthOf {
        [4294967296] : a1,
        [
            ""CRC32"", 7, ""1"", 4294967296, ""a\\"",
            0, 65535, ""{,}""
        ] : a1,
    },
    string lengthOf `" ++ [28040; 24687; 31867; 22411]%N ++ runes_of_ascii "`,
    @lengthOf(x)
    match charz as a1 {
        255 : Logon,
    },
    @calculatedFrom(""a	b"")
    @tag(00)
    @lengthOf(zchar)
    body @lengthOf(msg_type),
    MetaDataX @lengthOf(len) `a\`,
    @rightPad('\x00')
    @lengthOf(Packet)
    string u128 `u8 x,`,
    packetx @lengthOf(o),
}
// @lengthOf(")).
Eval vm_compute in ("<<<M171>>>" ++ check (runes_of_ascii "root  packet body { /// triple
crc
x_y_z `say ""hi""` , float// `tick` ""quote"" 'q'
_x , T// " ++ [128512]%N ++ runes_of_ascii " emoji
`a\`
    // " ++ [27880; 37322]%N ++ runes_of_ascii "
    , uint64 MetaDataX , repeat zchar[ 7 ]
    calculatedFrom `` , uint32 len
// c
// @lengthOf(
`a\` , } /// triple
options{
} packet	a1{ @tag( 1 )Logon @lengthOf(	options1) `{ , }` , @calculatedFrom( ""abc"")
    /// triple
    f32a // " ++ [27880; 37322]%N ++ runes_of_ascii "
{leftPad { // trailing space 
o matchKey
``  , }
, int32 int
// c
// @lengthOf(
``
, char[ 007 ]
    zchar
@lengthOf( Z9_ ) `tab	here`
    , char[ 1 ] falsey ,  } ,
    repeat int16 Z9_ , match	zchar as zchar{ ""packet"" :	x_y_z	,
[3
    // " ++ [128512]%N ++ runes_of_ascii " emoji
    , ""CRC32"", 0,""CRC32""//
, 0123456789 ]
: len
, [0 ,	4294967296
] :
Packet
, [65535
] : options1 [ 10]//	t
: u128 , } , // packet A { u8 x, }
}
")).
Eval vm_compute in ("<<<M508>>>" ++ check (runes_of_ascii "packet Header {
    @rightPad(  '0' // `tick` ""quote"" 'q'
)
uint8x @calculatedFrom( ""a	b""
)  , char[]u128
    // @lengthOf(
    @calculatedFrom( ""// no comment"" ) , @tag(//
0123456789
) char[ 255
]	lengthOf@calculatedFrom(
"""" )
    `" ++ [28040; 24687; 31867; 22411]%N ++ runes_of_ascii "` ,x_y_z
, i32
    x_y_z ``
    ,repeat  char[007] rootA , float32 msg_type @calculatedFrom(""a	b"" )`{ , }`
,// " ++ [27880; 37322]%N ++ runes_of_ascii "
@calculatedFrom(""x y"" ) @tag(255
    // @lengthOf(
    )
    match i8i8 as A {"""" : f32a
,
} , matchKey {MetaDataX Header , repeatCount `say ""hi""`
    ,	char[ 0] MetaDataX
@lengthOf( len
    )`" ++ [233]%N ++ runes_of_ascii "`// @lengthOf(
,
}
    // `tick` ""quote"" 'q'
    , zchar[7]pack @calculatedFrom( ""\n"" ) , }packet // packet A { u8 x, }
uint8x {
uint64 uint8x @calculatedFrom( ""abc""
    )
, }
")).
Eval vm_compute in ("<<<M429>>>" ++ check (runes_of_ascii "options
    { Header
    //
    =
    7 // trailing space 
;
Z9_ =true
//
// trailing space 
;  f32a = false Packet
    // c
    = true
    ; }
packet matchKey { char[] Foo
`crlf
line` ,
}
    packet // " ++ [27880; 37322]%N ++ runes_of_ascii "
Pad{ repeat  char[ 7]crc , calculatedFrom , @leftPad
    ()
//x
// " ++ [128512]%N ++ runes_of_ascii " emoji
i16 BodyLength
, @tag(// @lengthOf(
42 // packet A { u8 x, }
) match rootA  as uint8x {""a	b"" :	As, }
,
    @calculatedFrom( """"
    ) repeat x`" ++ [233]%N ++ runes_of_ascii "`	,  @tag(
007 )
    Packet Pad,
uint64
u8x`tab	here` ,
    asx {packetx MetaDataX
,
repeat _x{ asx
{ string rootA `line1
line2` , // a // b
}
, } ,
} // " ++ [128512]%N ++ runes_of_ascii " emoji
, @tag( 007
    ) i64
i64_ ,// " ++ [27880; 37322]%N ++ runes_of_ascii "
@lengthOf(
    Z9_
    ) char[] asx @lengthOf( body )
    ,
}

")).
Eval vm_compute in ("<<<M4376>>>" ++ check (runes_of_ascii "packet 
repeatCount
	{ match  BodyLength as body	{

    255  : As  ,

}  ,_x @calculatedFrom(  ""x y""
)
`" ++ [233]%N ++ runes_of_ascii "`
,@calculatedFrom(""1""	) // @lengthOf(

repeat

uint32

A
,zchar[ 00 ]x_y_z

, @rightPad
(  '0' )	@leftPad (
' ' //x
	)  i32

    lengthOf  , repeat

    // packet A { u8 x, }
	  //	t
i64  len

`" ++ [28040; 24687; 31867; 22411]%N ++ runes_of_ascii "`  ,@calculatedFrom(
	""packet"" )stringy
float
,
@calculatedFrom(

    ""{,}"" )
    repeat	char[ 7 ]u8x `two words`
,
	}	options  { 
int
= ""a\""b"" ;
    Header =true
	;

trueish
    = zchar[

    00 // packet A { u8 x, }
    	]
    ; falsey
=
	false

    ;
    Pad= 
    //	t
// `tick` ""quote"" 'q'
zchar[
    1 ] }//

packet
	T
{

    }
")).
Eval vm_compute in ("<<<M333>>>" ++ check (runes_of_ascii "// a // b
packet matchKey{
@rightPad( // c
' ' // trailing space 
)
@tag(007) @lengthOf( float )
repeat	packetx ,
    // @lengthOf(
    @calculatedFrom(""a\""b"" )/// triple
@tag(
    255 )@tag( 00 )
    Pad
    @calculatedFrom(
""" ++ [28040; 24687]%N ++ runes_of_ascii """ ) `{ , }` , } root
packet
string_
    { repeat Logon
//
//x
{ match Z9_ as float {
""packet""
: packetx
    , [
""CRC32"" , 42 // a // b
,	00
    // `tick` ""quote"" 'q'
    , ""packet"" //
] : Foo, """ ++ [28040; 24687]%N ++ runes_of_ascii """ : BodyLength , [
""CRC32""] : x_y_z	,
    00 :
    packetx, 7 : rootA , } ,
}
, repeat
    // c
    metadata { u16 Logon `
` ,
    matchKey @calculatedFrom(
"""" //	t
) , repeat// c
char[]leftPad,
} , }
")).
Eval vm_compute in ("<<<M4091>>>" ++ check (runes_of_ascii "root packet Logon {
    @tag(3)
    // @lengthOf(
    float64 options1 @calculatedFrom(""1""),
    match roots as MetaDataX {
        0123456789 : As,
        //	t
        [
            0, ""1"", 0123456789, ""CRC32"", 7,
            """ ++ [128512]%N ++ runes_of_ascii """, ""CRC32""
        ] : x,
    },
    @tag(007)
    string calculatedFrom @calculatedFrom(""a\\"") `two words`,
    @lengthOf(uint8x)
    trueish `{ , }`,// trailing space 
}// @lengthOf(

root packet rootA {
    match As as As {
        // `tick` ""quote"" 'q'
        10 : MetaDataX,
        ""{,}"" : body,
    },
    @tag(4294967296)
    _x @lengthOf(roots),
    packetx ``,
}// c")).
Eval vm_compute in ("<<<M3678>>>" ++ check (runes_of_ascii "MetaData Header {
}

root packet chars {
    char[00] MetaDataX `u8 x,`,
    repeat Foo stringy,
    @lengthOf(u8x)
    char[] Foo,
    match Header as leftPad {
        [""abc"", 255, """ ++ [128512]%N ++ runes_of_ascii """, """"] : charz,
        007 : uint8x,
        0 : asx,
        """" : MetaDataX,
    },
    char[] uint8x,
    @tag(1)
    i8i8 {
        x Packet `doc`,
        zchar[4294967296] metadata @calculatedFrom(""a\\"") `" ++ [233]%N ++ runes_of_ascii "`,
        zchar[10] crc @lengthOf(Foo) `crlf
        line`,
    },
}

MetaData msg_type {
    char[] calculatedFrom `line1
    line2`,
}// `tick` ""quote"" 'q'")).
Eval vm_compute in ("<<<M566>>>" ++ check (runes_of_ascii "packet rootA { } // " ++ [27880; 37322]%N ++ runes_of_ascii "
packet MetaDataX
    // packet A { u8 x, }
    { @leftPad (	'0' )@calculatedFrom( ""`tick`"" ) pack @calculatedFrom( ""1""
) ,f32a {
a1 {lengthOf	{ repeat  uint8 charz	`crlf
line` ,
} , match roots	as
    Packet {
7 : Foo  , ""\" ++ [233]%N ++ runes_of_ascii """
    // c
    : metadata , ""a	b"" ://
trueish
// @lengthOf(
//x
, 0123456789 :
Z9_,  [
    4294967296 , ""packet""
,
"""" /// triple
, 3 , """ ++ [233]%N ++ runes_of_ascii "t" ++ [233]%N ++ runes_of_ascii """ ] : pack
    10 : a1, }	, u16 u128 // " ++ [128512]%N ++ runes_of_ascii " emoji
`" ++ [28040; 24687; 31867; 22411]%N ++ runes_of_ascii "` , } ,}
    ,zchar[ 00]
_x @calculatedFrom( ""x y"" ) `doc`
    ,  } packet
pack { }
")).
Eval vm_compute in ("<<<M1109>>>" ++ check (runes_of_ascii "root packet	T {
    @calculatedFrom( ""it's"") repeat
    // @lengthOf(
    u64
    x_y_z
,
    u64 f32a
    // " ++ [128512]%N ++ runes_of_ascii " emoji
    `say ""hi""` ,
    repeat u32 u8x//	t
, @lengthOf( calculatedFrom) match
u as T //x
{1
    :
Pad
    , 42 : Z9_ [ 1]
    :  o , }	, uint8
uint8x
    @lengthOf(
Logon ),  }
// `tick` ""quote"" 'q'
// @lengthOf(
packet
string_{ len,
char[] pack @calculatedFrom( ""a\""b"" )
,len @lengthOf(_x )
`say ""hi""`	,@lengthOf( rootA )
@tag( 4294967296  ) len  a1 , @tag(
    7 ) u16 T ,} //	t")).
Eval vm_compute in ("<<<M3941>>>" ++ check (runes_of_ascii "

  packet 
Pad{ @lengthOf(len
	) zchar[

    10
	] int `a\`
	,@tag(
	007
)

    string leftPad
@lengthOf(string_)	,
char[
	0123456789
	]

len
	,	u32
    crc	`two words` ,}root packet	u128 
{

    zchar[ 00
]A

@calculatedFrom(""\" ++ [233]%N ++ runes_of_ascii """
) 
`line1
line2` ,

    @tag( 10 )
	char[]len
`" ++ [28040; 24687; 31867; 22411]%N ++ runes_of_ascii "` , @leftPad

(
	)  @lengthOf(
A 
) match  crc as msg_type{7 
:  trueish
},
    @leftPad
( '0'
    )f32a 
@calculatedFrom(""// no comment""

)// @lengthOf(
  `crlf
line`

,  }

")).
Eval vm_compute in ("<<<M1229>>>" ++ check (runes_of_ascii "  root
packet
zchar
{
    _x { uint32
packetx @lengthOf( pack) ,
    char[ 10 ] MetaDataX
`line1
line2`, char[] leftPad
, } ,@lengthOf(
u8x
    ) repeat u128 _x,	}packet leftPad{char  repeatCount
, } // `tick` ""quote"" 'q'
packet pack { @lengthOf(// " ++ [128512]%N ++ runes_of_ascii " emoji
Header )
char[ 65535 ]
    u128	@calculatedFrom(// " ++ [128512]%N ++ runes_of_ascii " emoji
""" ++ [233]%N ++ runes_of_ascii "t" ++ [233]%N ++ runes_of_ascii """
)`// not a comment` , @tag( 0123456789
)
    @leftPad ( ' '	) @calculatedFrom( ""a	b"" )  repeat int Logon `// not a comment` ,
    }")).
Eval vm_compute in ("<<<M3576>>>" ++ check (runes_of_ascii "packet asx {
    repeat falsey {
        match lengthOf as T {
            [""\" ++ [233]%N ++ runes_of_ascii """, 42, 1, ""// no comment"", """ ++ [28040; 24687]%N ++ runes_of_ascii """] : x,
            4294967296 : matchKey,
            7 : roots,
            [
                0123456789, ""// no comment"", 0123456789, 3, 0123456789,
                65535, ""a\\"", ""a	b""
            ] : metadata,
            [65535] : asx,
            [""a	b"", ""a\\"", 4294967296] : x,
        },
    },
    @leftPad()
    falsey T,
}")).
Eval vm_compute in ("<<<M4011>>>" ++ check (runes_of_ascii "

  root
	packet	u128 {
}

root
packet
	charz{  // packet A { u8 x, }
	@tag( 
7 
)

    MetaDataX
, 
_x

    {

uint32

    As
	, 
charz  , 
}	,
len

{ int64

u128 
,

repeat falsey{ x_y_z @lengthOf( 
asx
)

//	t

	// c
  	,  // c
  	}
,
    repeatCount {
    metadata	@calculatedFrom(
	""\n""
) `doc` 
,
Logon
	Foo 
    // trailing space 
      // " ++ [128512]%N ++ runes_of_ascii " emoji
,
    } 	 // " ++ [27880; 37322]%N ++ runes_of_ascii "
  , 
float 
rootA
	,

} , 
} 
	// a // b
")).
Eval vm_compute in ("<<<M3504>>>" ++ check (runes_of_ascii "packet Frame {
    u8 HK,
    u8 BK,
    u8 TK,
    match HK as Hdr {
        1 : HdrA,
        2 : HdrB,
    },
    match BK as Body {
        1 : BodyA,
        2 : BodyB,
    },
    match TK as Trl {
        1 : TrlA,
    },
}
packet HdrA {
    u8 a,
}
packet HdrB {
    u16 b,
}
packet BodyA {
    u32 c,
}
packet BodyB {
    u64 d,
}
packet TrlA {
    u8 e,
}
root packet Msg {
    Frame,
    u8 x,
}
")).
Eval vm_compute in ("<<<M4505>>>" ++ check (runes_of_ascii "  options  {  i64_
=	// a // b

	""it's"" ;  Foo 
=

    ""\n""	; x_y_z =
'\x00'; len =
	'0' }  root

    packet Packet
	{ @tag(  0 ) match crc

as

A// " ++ [27880; 37322]%N ++ runes_of_ascii "
{  [

""`tick`""
,  ""`tick`"" 
    // @lengthOf(
	// a // b
	,  ""packet"" ,	""CRC32"",

    // " ++ [27880; 37322]%N ++ runes_of_ascii "
  //
""\n""
,""a\\""

    ,
255 
]:T  // c
	}// @lengthOf(
  	, repeat float64 x

, zchar[ 00// `tick` ""quote"" 'q'
]
chars	,
    }//	t
")).
Eval vm_compute in ("<<<M3811>>>" ++ check (runes_of_ascii "

  MetaData
	x
{ char[]  crc  ,
    char[

    7 ]

float
	,
u64	//	t
f32a 
, 
}
	packet
int {
    Pad /// triple
      @lengthOf(	Pad
)
    `{ , }`

    ,

}MetaData 

    /// triple
      //
	T
{
	A
	i8i8 `it's`	,  u8x
    options1 ,roots zchar // `tick` ""quote"" 'q'

,int16 u8x , char[]a1  `say ""hi""`	,  char 
  //	t
    	/// triple

	Pad
    ,
	} 	 // a // b
")).
Eval vm_compute in ("<<<M1112>>>" ++ check (runes_of_ascii "packet// `tick` ""quote"" 'q'
o {
@lengthOf( As )
calculatedFrom @lengthOf( matchKey )
,// a // b
}packet
// packet A { u8 x, }
// trailing space 
options1 {match x as Foo { [
    ""a\""b""
, 7 ]  :	u128 """ ++ [128512]%N ++ runes_of_ascii """ :
Packet  , }, repeat  pack len `tab	here`
    , msg_type , @calculatedFrom(""" ++ [128512]%N ++ runes_of_ascii """ )
char[ 10
] zchar , } options	{ metadata =""CRC32""
; uint8x=	false
    ;}
")).
Eval vm_compute in ("<<<M828>>>" ++ check (runes_of_ascii "options {
} //	t
options { MetaDataX =	"""" ; int //x
= true ;
    int
    =""abc"";// @lengthOf(
repeatCount=true T= ""a\\""  ;}
    MetaData len {	A
int ,string T`tab	here` , repeatCount lengthOf	`it's`
,
    Pad
Pad, }MetaData MetaDataX
/// triple
// " ++ [27880; 37322]%N ++ runes_of_ascii "
{
//	t
// trailing space 
uint8
    matchKey `" ++ [233]%N ++ runes_of_ascii "` ,	repeatCount crc  , char[] As
    , }
")).
Eval vm_compute in ("<<<M4014>>>" ++ check (runes_of_ascii "options {
}

packet crc {
    calculatedFrom {
        zchar[7] Logon,// @lengthOf(
        trueish rootA `say ""hi""`,
        repeat calculatedFrom Z9_,
        repeat MetaDataX {
            repeat char[] int,
        },
    },
    rootA @calculatedFrom(""it's""),
    match charz as body {
        0123456789 : chars,
    },
}")).
Eval vm_compute in ("<<<M670>>>" ++ check (runes_of_ascii "
options
    {// " ++ [27880; 37322]%N ++ runes_of_ascii "
i8i8	=""abc"" } root packet o{
}packet Header { string i8i8 `" ++ [233]%N ++ runes_of_ascii "` , @lengthOf( As )
// packet A { u8 x, }
// " ++ [128512]%N ++ runes_of_ascii " emoji
@calculatedFrom(
//x
// packet A { u8 x, }
""" ++ [128512]%N ++ runes_of_ascii """ )@leftPad( '0'
)	repeat	A{
char[
255 ] options1 , repeat char[]int
    // " ++ [27880; 37322]%N ++ runes_of_ascii "
    `line1
line2`
/// triple
// packet A { u8 x, }
, } ,}
")).
Eval vm_compute in ("<<<M1054>>>" ++ check (runes_of_ascii "root packet f32a
{
u16 trueish
, o { o
    @calculatedFrom( """" ), roots@calculatedFrom(  ""1"" ) , // a // b
float32
    T , } , @calculatedFrom(""// no comment"") As , @leftPad(
'\x00'
)@lengthOf( uint8x ) @lengthOf( lengthOf ) repeatCount@calculatedFrom(
    """ ++ [128512]%N ++ runes_of_ascii """ )
, @calculatedFrom(
""1""  )repeat
x
,
}")).
Eval vm_compute in ("<<<M1540>>>" ++ check (runes_of_ascii "root packet Foo // " ++ [128512]%N ++ runes_of_ascii " emoji
{ } options {
    // a // b
    tag // `tick` ""quote"" 'q'
= //	t
""""
    ; u8x = zchar[0  ] }
MetaData
    int {zchar[ 10]
lengthOf	`` , i64 i64 u8x`// not a comment` ,MetaDataX pack// `tick` ""quote"" 'q'
`crlf
line`
, Logon charz `crlf
line`
    ,
    // a // b
    }
")).
Eval vm_compute in ("<<<M1490>>>" ++ check (runes_of_ascii "root packet Foo // " ++ [128512]%N ++ runes_of_ascii " emoji
{ } options {
    // a // b
    tag // `tick` ""quote"" 'q'
= //	t
""""
    ; u8x = zchar[0  ] } }
MetaData
    int {zchar[ 10]
lengthOf	`` , i64 u8x`// not a comment` ,MetaDataX pack// `tick` ""quote"" 'q'
`crlf
line`
, Logon charz `crlf
line`
    ,
    // a // b
    }
")).
Eval vm_compute in ("<<<M1416>>>" ++ check (runes_of_ascii "root Foo packet // " ++ [128512]%N ++ runes_of_ascii " emoji
{ } options {
    // a // b
    tag // `tick` ""quote"" 'q'
= //	t
""""
    ; u8x = zchar[0  ] }
MetaData
    int {zchar[ 10]
lengthOf	`` , i64 u8x`// not a comment` ,MetaDataX pack// `tick` ""quote"" 'q'
`crlf
line`
, Logon charz `crlf
line`
    ,
    // a // b
    }
")).
Eval vm_compute in ("<<<M1576>>>" ++ check (runes_of_ascii "root packet Foo // " ++ [128512]%N ++ runes_of_ascii " emoji
{ } options {
    // a // b
    tag // `tick` ""quote"" 'q'
= //	t
""""
    ; u8x = zchar[0  ] }
MetaData
    int {zchar[ 10]
lengthOf	`` , i64 u8x`// not a comment` ,MetaDataX pack// `tick` ""quote"" 'q'
`crlf
line`
Logon , charz `crlf
line`
    ,
    // a // b
    }
")).
Eval vm_compute in ("<<<M4326>>>" ++ check (runes_of_ascii "packet trueish {
    // trailing space 
    zchar[0] o @lengthOf(float),
    @tag(10)
    stringy {
        zchar[65535] matchKey,
    },
    @lengthOf(asx)
    zchar[10] string_ @calculatedFrom("""") `it's`,
}

options {
    rootA = ""1"";
}

options {
    body = u32
    repeatCount = '\x00'
}")).
Eval vm_compute in ("<<<M1414>>>" ++ check (runes_of_ascii "root  Foo // " ++ [128512]%N ++ runes_of_ascii " emoji
{ } options {
    // a // b
    tag // `tick` ""quote"" 'q'
= //	t
""""
    ; u8x = zchar[0  ] }
MetaData
    int {zchar[ 10]
lengthOf	`` , i64 u8x`// not a comment` ,MetaDataX pack// `tick` ""quote"" 'q'
`crlf
line`
, Logon charz `crlf
line`
    ,
    // a // b
    }
")).
Eval vm_compute in ("<<<M559>>>" ++ check (runes_of_ascii "packet
msg_type	{ charz
`` , Logon @lengthOf( As
    ) // " ++ [128512]%N ++ runes_of_ascii " emoji
, zchar[ 10]  Packet ,@rightPad (
' ' // " ++ [128512]%N ++ runes_of_ascii " emoji
)
repeat As{char[ 007]
int@lengthOf( roots//	t
),
    int64
u8x `" ++ [233]%N ++ runes_of_ascii "` ,zchar
    // `tick` ""quote"" 'q'
    @calculatedFrom( """ ++ [233]%N ++ runes_of_ascii "t" ++ [233]%N ++ runes_of_ascii """
    ) , } // a // b
,/// triple
}
")).
Eval vm_compute in ("<<<M408>>>" ++ check (runes_of_ascii "root packet x  {
u64 stringy
`it's` , @tag( 1 )
    body, @tag(0 ) string string_ , repeat/// triple
As
// a // b
//x
{ string pack `line1
line2` , options1 @calculatedFrom(""// no comment"" )`say ""hi""`
,
} , repeat leftPad `line1
line2` // " ++ [27880; 37322]%N ++ runes_of_ascii "
, char[] msg_type , }
")).
Eval vm_compute in ("<<<M1606>>>" ++ check (runes_of_ascii "root packet Foo // " ++ [128512]%N ++ runes_of_ascii " emoji
{ } options {
    // a // b
    tag // `tick` ""quote"" 'q'
= //	t
""""
    ; u8x = zchar[0  ] }
MetaData
    int {zchar[ 10]
lengthOf	`` , i64 u8x`// not a comment` ,MetaDataX pack// `tick` ""quote"" 'q'
`crlf
line`
, Logon charz ")).
Eval vm_compute in ("<<<M3596>>>" ++ check (runes_of_ascii "root packet Foo {
}

options {
    // a // b
    tag = false;
    u8x = zchar[0]
}

MetaData int {
    zchar[10] lengthOf ``,
    i64 u8x `// not a comment`,
    MetaDataX pack `crlf
    line`,
    Logon charz `crlf
    line`,
    // a // b
}")).
Eval vm_compute in ("<<<M1314>>>" ++ check (runes_of_ascii "// " ++ [27880; 37322]%N ++ runes_of_ascii "
root packet rootA {  @calculatedFrom( ""\" ++ [233]%N ++ runes_of_ascii """
) uint32 calculatedFrom ,
    // trailing space 
    }  MetaData
stringy{ f32a charz ,// packet A { u8 x, }
uint32 repeatCount
    , i64_ u128 `say ""hi""`,
    string calculatedFrom , }
")).
Eval vm_compute in ("<<<M2351>>>" ++ check (runes_of_ascii "MetaData Packet { }packet	asx  { @lengthOf( asx) falsey`crlf
line`
,
    }
    packet x	{uint32// @lengthOf(
rootA	,u32 options1 `say ""hi""` , @tag( 7
    )// packet A { u8 x, }
msg_type @lengthOf( @lengthOf(
stringy	)	, }

")).
Eval vm_compute in ("<<<M2228>>>" ++ check (runes_of_ascii "MetaData Packet { ""CRC32""packet	asx  { @lengthOf( asx) falsey`crlf
line`
,
    }
    packet x	{uint32// @lengthOf(
rootA	,u32 options1 `say ""hi""` , @tag( 7
    )// packet A { u8 x, }
msg_type @lengthOf(
stringy	)	, }

")).
Eval vm_compute in ("<<<M2291>>>" ++ check (runes_of_ascii "MetaData Packet { }packet	asx  { @lengthOf( asx) falsey`crlf
line`
,
    }
    packet x	{ {uint32// @lengthOf(
rootA	,u32 options1 `say ""hi""` , @tag( 7
    )// packet A { u8 x, }
msg_type @lengthOf(
stringy	)	, }

")).
Eval vm_compute in ("<<<M1383>>>" ++ check (runes_of_ascii "root  packet packetx
{ trueish
    @lengthOf(  repeatCount) , @lengthOf(
    u
) // `tick` ""quote"" 'q'
Packet u // trailing space 
`" ++ [233]%N ++ runes_of_ascii "`
    , }
    options
    {
leftPad =
    0123456789; u = 65535 ; } // " ++ [128512]%N ++ runes_of_ascii " emoji")).
Eval vm_compute in ("<<<M2393>>>" ++ check (runes_of_ascii "MetaData Packet { }packet	asx  { @lengthOf( a" ++ [769]%N ++ runes_of_ascii "b) falsey`crlf
line`
,
    }
    packet x	{uint32// @lengthOf(
rootA	,u32 options1 `say ""hi""` , @tag( 7
    )// packet A { u8 x, }
msg_type @lengthOf(
stringy	)	, }

")).
Eval vm_compute in ("<<<M2310>>>" ++ check (runes_of_ascii "MetaData Packet { }packet	asx  { @lengthOf( asx) falsey`crlf
line`
,
    }
    packet x	{uint32// @lengthOf(
rootA	, options1 `say ""hi""` , @tag( 7
    )// packet A { u8 x, }
msg_type @lengthOf(
stringy	)	, }

")).
Eval vm_compute in ("<<<M3501>>>" ++ check (runes_of_ascii "packet Logon {
    string user,
}
root packet Frame {
    u8 K,
    match K as Body {
        1 : Logon,
        2 : Logout,
    },
    Tail,
}
packet Logout {
    u16 reason,
}
packet Tail {
    u32 crc,
}
")).
Eval vm_compute in ("<<<M166>>>" ++ check (runes_of_ascii "packet u128 {
@rightPad (
    ' '
    //x
    )// c
Packet , f64
//
// @lengthOf(
Pad `it's` , }packet i64_{ } packet trueish { @leftPad	( '\x00')leftPad
@calculatedFrom( // " ++ [27880; 37322]%N ++ runes_of_ascii "
""`tick`"" ) `u8 x,` , }
")).
Eval vm_compute in ("<<<M315>>>" ++ check (runes_of_ascii "packet// " ++ [27880; 37322]%N ++ runes_of_ascii "
trueish { match f32a
as stringy	{ """ ++ [28040; 24687]%N ++ runes_of_ascii """ : _x ,
1 : //x
stringy
    ,
    65535 :u8x 65535: // trailing space 
asx
// packet A { u8 x, }
// c
,  }
    // packet A { u8 x, }
    , }")).
Eval vm_compute in ("<<<M3486>>>" ++ check (runes_of_ascii "options {
    FixedStringPadChar = '0';
}
packet Q {
    zchar[4] z,
    @rightPad('\x00') char[3] n,
    char[5] d,
}
root packet R {
    Q,
    zchar[8] top,
    repeat zchar[2] zs,
}
")).
Eval vm_compute in ("<<<M4456>>>" ++ check (runes_of_ascii "MetaData roots {
}

MetaData stringy {
    Logon leftPad `crlf
    line`,
    char[] metadata `{ , }`,
    falsey pack `" ++ [233]%N ++ runes_of_ascii "`,
    i8 repeatCount,
}

options {
    matchKey = ' '
}")).
Eval vm_compute in ("<<<M3851>>>" ++ check (runes_of_ascii "packet msg_type {
    match leftPad as float {
        3 : repeatCount,
        [0123456789, 3, 10, 65535, 1] : Header,
        ""{,}"" : packetx,
        0 : _x,
    },
}")).
Eval vm_compute in ("<<<M1051>>>" ++ check (runes_of_ascii "MetaData leftPad {
    string int
// c
// " ++ [27880; 37322]%N ++ runes_of_ascii "
`tab	here` // c
, char[] f32a`u8 x,` ,zchar[ // @lengthOf(
255 ]
    uint8x
, i32 x
    `crlf
line` ,// c
i8 asx	,}
")).
Eval vm_compute in ("<<<M3698>>>" ++ check (runes_of_ascii "packet int {
    match roots as u8x {
        7 : packetx,
        0 : As,
        ""packet"" : a1,
        ""packet"" : float,
    },
    Z9_ @lengthOf(u128),
}")).
Eval vm_compute in ("<<<M4024>>>" ++ check (runes_of_ascii "packet
crc{ }
options 
{
a1
    = 
char[
	3
    ]	;}root
packet
Pad
{}
    packet crc { int32 
zchar  // @lengthOf(
  ,}
packet
    pack
    {}

")).
Eval vm_compute in ("<<<M418>>>" ++ check (runes_of_ascii "  packet repeatCount
    {
    } packet
charz
{ @calculatedFrom( ""// no comment"" ) int32	msg_type
@lengthOf(f32a
    /// triple
    ) , } // " ++ [27880; 37322]%N)).
Eval vm_compute in ("<<<M977>>>" ++ check (runes_of_ascii "MetaData As
    { u repeatCount//	t
, zchar[ 0123456789] x//
`two words`
, float asx
, falsey
lengthOf  , char[] leftPad `crlf
line` , }")).
Eval vm_compute in ("<<<M3663>>>" ++ check (runes_of_ascii "packet	Logon 
	// c
    	{  @tag(

    42
    ) @rightPad 
(
' '
) @leftPad ( )repeat
	trueish

{
    string

    T,
	}	,
    }
")).
Eval vm_compute in ("<<<M1723>>>" ++ check (runes_of_ascii "root '1'packet /// triple
rootA {	i32
MetaDataX@calculatedFrom( ""CRC32"" ) `line1
line2` , } MetaData BodyLength {
u8
rootA, } // c")).
Eval vm_compute in ("<<<M1729>>>" ++ check (runes_of_ascii "root packet /// triple
rootA {	i32
MetaDataX@calculatedFrom( ""CRC32"" ) `line1
line2` , } MetaData BodyLength {
u8
'rootA, } // c")).
Eval vm_compute in ("<<<M1677>>>" ++ check (runes_of_ascii "root packet /// triple
rootA {	i32
MetaDataX@calculatedFrom( ""CRC32"" ) `line1
line2` ,  MetaData BodyLength {
u8
rootA, } // c")).
Eval vm_compute in ("<<<M1890>>>" ++ check (runes_of_ascii "packet
    Pad // a // b
{ i8i8 @calculatedFrom( ""a	b"") `u8 x,` ,
} options{ float// " ++ [128512]%N ++ runes_of_ascii " emoji
= f64 i64_
=//	t
@leftpad00 }
")).
Eval vm_compute in ("<<<M3864>>>" ++ check (runes_of_ascii "

  packet
    Logon
    {

@tag(	42
) @rightPad(	' '  )
@leftPad
(  ) repeat trueish	{

    string T , } 
,
	} 
// c
 
")).
Eval vm_compute in ("<<<M148>>>" ++ check (runes_of_ascii "packet i8i8 //x
{int16 // trailing space 
stringy // " ++ [128512]%N ++ runes_of_ascii " emoji
@calculatedFrom(
""// no comment"" ),
} packet
_x {
    }
")).
Eval vm_compute in ("<<<M1887>>>" ++ check (runes_of_ascii "packet
    Pad // a // b
{ ~ i8i8 @calculatedFrom( ""a	b"") `u8 x,` ,
} options{ float// " ++ [128512]%N ++ runes_of_ascii " emoji
= f64 i64_
=//	t
00 }
")).
Eval vm_compute in ("<<<M792>>>" ++ check (runes_of_ascii "packet i8i8 { @tag(00)@lengthOf( // @lengthOf(
chars ) @leftPad ( '\x00' ) A
@calculatedFrom(	""it's"" )	`{ , }` ,	}
")).
Eval vm_compute in ("<<<M1820>>>" ++ check (runes_of_ascii "packet
    Pad // a // b
{ i8i8 @calculatedFrom( ""a	b"") `u8 x,` 
} options{ float// " ++ [128512]%N ++ runes_of_ascii " emoji
= f64 i64_
=//	t
00 }
")).
Eval vm_compute in ("<<<M1038>>>" ++ check (runes_of_ascii "
packet BodyLength { @tag(3	) int16
    BodyLength , zchar[
1
]
    body @calculatedFrom( ""`tick`""
)
    , }
")).
Eval vm_compute in ("<<<M724>>>" ++ check (runes_of_ascii "MetaData float {
tag
    body `" ++ [233]%N ++ runes_of_ascii "`
,f64 i8i8 `{ , }` , f32 chars `two words` , Pad
i64_ // @lengthOf(
,} //	t")).
Eval vm_compute in ("<<<M3979>>>" ++ check (runes_of_ascii "packet Logon {
    @tag(42)
    @rightPad(' ')
    @leftPad()
    repeat trueish {
        string T,
    },
}")).
Eval vm_compute in ("<<<M4331>>>" ++ check (runes_of_ascii "options {
    repeatCount = u16;
    float = ' '
    Logon = string;
    packetx = 3//
    a1 = zchar[7]
}")).
Eval vm_compute in ("<<<M3339>>>" ++ check (runes_of_ascii "packet // c
calculatedFrom { @tag( 4294967296 ) u msg_type , char[ 3 ] crc @lengthOf( len ) `u8 x,` , }")).
Eval vm_compute in ("<<<M3371>>>" ++ check (runes_of_ascii "packet calculatedFrom { @tag( 4294967296 ) u msg_type , char[ 3 ] crc @lengthOf( len ) `u8 x,` // c
, }")).
Eval vm_compute in ("<<<M4346>>>" ++ check (runes_of_ascii "packet
A
    {
Inner  {	u8 x	`a
    b
  c`,  Deep 
{ u8
y `a
    b
  c`

    ,
}

    ,  }
,}")).
Eval vm_compute in ("<<<M2985>>>" ++ check (runes_of_ascii "packet A {
  match k as n {
    [1, 22, ""c c"", 4, 5, ""f"", 7, 8, ""i"", 10, 11] : B
    2 : C
  },
}")).
Eval vm_compute in ("<<<M3214>>>" ++ check (runes_of_ascii "// c
packet Logon { @tag( 42 ) @rightPad ( ' ' ) @leftPad ( ) repeat trueish { string T , } , }")).
Eval vm_compute in ("<<<M3247>>>" ++ check (runes_of_ascii "packet Logon { @tag( 42 ) @rightPad ( ' ' ) @leftPad ( ) repeat trueish {
// c
string T , } , }")).
Eval vm_compute in ("<<<M3702>>>" ++ check (runes_of_ascii "root packet lengthOf {
    @tag(4294967296)
    @calculatedFrom(""" ++ [128512]%N ++ runes_of_ascii """)
    i32 msg_type `a\`,
}")).
Eval vm_compute in ("<<<M1407>>>" ++ check (runes_of_ascii "root packet SimpleMessage {
    uint16 MsgType `" ++ [28040; 24687; 31867; 22411]%N ++ runes_of_ascii "`,
    string JsonBody `Json" ++ [23383; 31526; 20018; 28040; 24687; 20307]%N ++ runes_of_ascii "`,
}")).
Eval vm_compute in ("<<<M1969>>>" ++ check (runes_of_ascii "root
packet `" ++ [28040; 24687; 31867; 22411]%N ++ runes_of_ascii "`
    { f32a @calculatedFrom( """ ++ [233]%N ++ runes_of_ascii "t" ++ [233]%N ++ runes_of_ascii """ )
    `say ""hi""`, lengthOf `` ,  }")).
Eval vm_compute in ("<<<M4142>>>" ++ check (runes_of_ascii "  packet

A { match k
	as n  { 
[  ""a""
,22

    ,	""c c""	,  4,	""e""  ]:	B 2 
:C },
} ")).
Eval vm_compute in ("<<<M1979>>>" ++ check (runes_of_ascii "root
packet crc
    { root @calculatedFrom( """ ++ [233]%N ++ runes_of_ascii "t" ++ [233]%N ++ runes_of_ascii """ )
    `say ""hi""`, lengthOf `` ,  }")).
Eval vm_compute in ("<<<M3477>>>" ++ check (runes_of_ascii "packet order_item {
    u8 a,
}
root packet new_order {
    order_item,
    u8 x,
}
")).
Eval vm_compute in ("<<<M256>>>" ++ check (runes_of_ascii "packet matchKey {
@tag( 7
    ) @leftPad
    //x
    ( '\x00')
    string_ ,	} 	 ")).
Eval vm_compute in ("<<<M3314>>>" ++ check (runes_of_ascii "packet o { @tag( 42 ) repeat x { char[ 0123456789 // c
] i64_ , } , } options { }")).
Eval vm_compute in ("<<<M2916>>>" ++ check (runes_of_ascii "packet A {
  match k as n {
    [1, ""bb"", 007, ""d"", 5, ""f""] : B
    2 : C
  },
}")).
Eval vm_compute in ("<<<M2920>>>" ++ check (runes_of_ascii "packet A {
  match k as n {
    [1, 22, ""c c"", 4, 5, ""f""] : B
    2 : C
  },
}")).
Eval vm_compute in ("<<<M2988>>>" ++ check (runes_of_ascii "packet A { Inner { match k as n { [1,22,007,4,5,66,7,8,9,10,11] : B, }, }, }")).
Eval vm_compute in ("<<<M689>>>" ++ check (runes_of_ascii "MetaData i64_ { options1
x	`crlf
line`,} packet u { } // trailing space ")).
Eval vm_compute in ("<<<M2899>>>" ++ check (runes_of_ascii "packet A {
  match k as n {
    [1, 22, 007, 4, 5] : B
    2 : C
  },
}")).
Eval vm_compute in ("<<<M3406>>>" ++ check (runes_of_ascii "MetaData _x { zchar[ 4294967296 ]
// c
lengthOf `// not a comment` , }")).
Eval vm_compute in ("<<<M1834>>>" ++ check (runes_of_ascii "packet
    Pad // a // b
{ i8i8 @calculatedFrom( ""a	b"") `u8 x,` ,
}")).
Eval vm_compute in ("<<<M2717>>>" ++ check (runes_of_ascii "@leftPad options [ `doc` uint64 root { zchar[ { MetaData ; MetaData")).
Eval vm_compute in ("<<<M388>>>" ++ check (runes_of_ascii "MetaData calculatedFrom  { // a // b
u64
A, float32 u8x ,}
// " ++ [27880; 37322]%N ++ runes_of_ascii "
")).
Eval vm_compute in ("<<<M2160>>>" ++ check (runes_of_ascii "root
    // `tick` ""quote"" 'q'
    i32 As { trueish Packet , }
")).
Eval vm_compute in ("<<<M2856>>>" ++ check (runes_of_ascii "zchar[ @lengthOf( int8 u64 f32 : float64 ( char[] @tag( char[")).
Eval vm_compute in ("<<<M3462>>>" ++ check (runes_of_ascii "root packet P {
    repeat string ss,
    repeat u16 ns,
}
")).
Eval vm_compute in ("<<<M1949>>>" ++ check (runes_of_ascii "
packet	As { @calculatedFrom(//x
""{,}""	)lengthOf # , } 	 ")).
Eval vm_compute in ("<<<M632>>>" ++ check (runes_of_ascii "MetaData charz {
    char[7] body `tab	here` // " ++ [27880; 37322]%N ++ runes_of_ascii "
, }
")).
Eval vm_compute in ("<<<M1956>>>" ++ check (runes_of_ascii "
packet	As { @calculatedFrom(//x
""{,}""	)caf" ++ [233]%N ++ runes_of_ascii "_1 , } 	 ")).
Eval vm_compute in ("<<<M1915>>>" ++ check (runes_of_ascii "
packet	As { @calculatedFrom(//x
	)lengthOf , } 	 ")).
Eval vm_compute in ("<<<M2586>>>" ++ check (runes_of_ascii "packet A { x @lengthOf(y) @calculatedFrom(""c""), }")).
Eval vm_compute in ("<<<M1762>>>" ++ check (runes_of_ascii "options { }options {  } } // `tick` ""quote"" 'q'")).
Eval vm_compute in ("<<<M1777>>>" ++ check (runes_of_ascii "?options { }options {  } // `tick` ""quote"" 'q'")).
Eval vm_compute in ("<<<M4504>>>" ++ check (runes_of_ascii "packet packetx {
    repeat zchar[007] Foo,
}")).
Eval vm_compute in ("<<<M2851>>>" ++ check (runes_of_ascii ", string [ f32 = repeatCount f64 { MetaData")).
Eval vm_compute in ("<<<M2165>>>" ++ check (runes_of_ascii "root
    // `tick` ""quote"" 'q'
    packet")).
Eval vm_compute in ("<<<M2687>>>" ++ check ([65533; 65533]%N ++ runes_of_ascii "Z;" ++ [65533; 65533; 7; 65533; 65533]%N ++ runes_of_ascii "e" ++ [65533; 65533; 4]%N ++ runes_of_ascii ";c$" ++ [65533; 65533; 65533; 65533]%N ++ runes_of_ascii "[B" ++ [23; 8; 7]%N ++ runes_of_ascii "}" ++ [2]%N ++ runes_of_ascii "4" ++ [65533; 6; 65533; 65533]%N ++ runes_of_ascii "tm" ++ [3; 65533]%N ++ runes_of_ascii "4" ++ [65533; 22]%N ++ runes_of_ascii "Q")).
Eval vm_compute in ("<<<M611>>>" ++ check (runes_of_ascii "  MetaData x_y_z
{ } // trailing space ")).
Eval vm_compute in ("<<<M2557>>>" ++ check (runes_of_ascii "packet A { repeat u8 x @lengthOf(y), }")).
Eval vm_compute in ("<<<M2705>>>" ++ check (runes_of_ascii "] false ""`tick`"" charz { int64 zchar[")).
Eval vm_compute in ("<<<M2601>>>" ++ check (runes_of_ascii "packet A { match k as n { 1 : B } }")).
Eval vm_compute in ("<<<M2598>>>" ++ check (runes_of_ascii "packet A { B { @tag(1) u8 x, }, }")).
Eval vm_compute in ("<<<M289>>>" ++ check (runes_of_ascii "options
    // " ++ [128512]%N ++ runes_of_ascii " emoji
    { }
")).
Eval vm_compute in ("<<<M3063>>>" ++ check (runes_of_ascii "packet A {
 u8 x `d `, // c 
}")).
Eval vm_compute in ("<<<M3026>>>" ++ check (runes_of_ascii "packet A {
    u8 x `a

b`,
}")).
Eval vm_compute in ("<<<M943>>>" ++ check (runes_of_ascii "
MetaData a1{ // a // b
}")).
Eval vm_compute in ("<<<M2077>>>" ++ check (runes_of_ascii "MetaData A { u64 pack, } }")).
Eval vm_compute in ("<<<M2192>>>" ++ check (runes_of_ascii "root
    // `tick` ""quote")).
Eval vm_compute in ("<<<M2078>>>" ++ check (runes_of_ascii "MetaData A { u64 pack, (")).
Eval vm_compute in ("<<<M645>>>" ++ check (runes_of_ascii "
 // packet A { u8 x, }")).
Eval vm_compute in ("<<<M1358>>>" ++ check (runes_of_ascii "root packet Logon {
}")).
Eval vm_compute in ("<<<M3149>>>" ++ check (runes_of_ascii "packet A {
}// a// b")).
Eval vm_compute in ("<<<M590>>>" ++ check (runes_of_ascii "
packet x_y_z { }

")).
Eval vm_compute in ("<<<M860>>>" ++ check (runes_of_ascii "//	t
options
{ }

")).
Eval vm_compute in ("<<<M3097>>>" ++ check (runes_of_ascii "// c" ++ [8232]%N ++ runes_of_ascii "
packet A {
}")).
Eval vm_compute in ("<<<M2644>>>" ++ check (runes_of_ascii "MetaData M { x, }")).
Eval vm_compute in ("<<<M2047>>>" ++ check (runes_of_ascii " A { u64 pack, }")).
Eval vm_compute in ("<<<M3964>>>" ++ check (runes_of_ascii "
packet

A { }")).
Eval vm_compute in ("<<<M2550>>>" ++ check ([65279]%N ++ runes_of_ascii "packet A {}")).
Eval vm_compute in ("<<<M1751>>>" ++ check (runes_of_ascii "options {")).
Eval vm_compute in ("<<<M2465>>>" ++ check (runes_of_ascii "matches")).
Eval vm_compute in ("<<<M685>>>" ++ check (runes_of_ascii " // c")).
Eval vm_compute in ("<<<M3090>>>" ++ check (runes_of_ascii "// c" ++ [8202]%N)).
Eval vm_compute in ("<<<M2536>>>" ++ check (runes_of_ascii "A1b2")).
Eval vm_compute in ("<<<M2542>>>" ++ check (runes_of_ascii "ab")).
Eval vm_compute in ("<<<M2704>>>" ++ check (runes_of_ascii ",X")).
