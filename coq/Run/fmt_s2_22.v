From FP Require Import Lexer Parser ShowPT Digest Formatter.
From Coq Require Import String List NArith.
Import ListNotations.
Open Scope string_scope.
Set Printing Width 100000000.
Set Printing Depth 100000000.
Definition show_fres (r : fres) : string :=
  match r with
  | FOk s => "OK:" ++ sh_escaped s ""
  | FErr s => "ERR:" ++ sh_escaped s ""
  | FPanic p => "PANIC:" ++ p
  end.
Definition check (rs : list rune) : string := digest (show_fres (format_res rs)).
Definition full (rs : list rune) : string := show_fres (format_res rs).
Eval vm_compute in ("<<<M4459>>>" ++ check (runes_of_ascii "

  packet  o{
	crc	{

    string 
leftPad @calculatedFrom(

""\n"" ) /// triple
    `it's` ,
uint16

    x_y_z,  Logon
,string crc 
@lengthOf(
crc// a // b
      )	,

},	@calculatedFrom(  //x
      """")
	u64 matchKey
	`` ,
match	leftPad

as
    len

{
    00 :	//x
	charz
, }
,
    @tag( 007
)

@tag( 65535
)
// a // b
    //	t
repeat 
    // packet A { u8 x, }
	//x
  	stringy  crc,  @lengthOf( 
f32a
    )

match
    tag as leftPad
    { 
""1"":  // " ++ [128512]%N ++ runes_of_ascii " emoji
_x
    ,
    // trailing space 
  //x
	} ,

    roots{ tag
, 
float64 body
	, // packet A { u8 x, }
f64 As
@lengthOf( // trailing space 
	  tag
)
`line1
line2`

    ,

    }
, 
i64_ @calculatedFrom( 
	// trailing space 
  ""x y"" // `tick` ""quote"" 'q'
  )

    , // " ++ [128512]%N ++ runes_of_ascii " emoji
  Packet @calculatedFrom(
	""\n""	)  ,
	@lengthOf(	BodyLength
) char[
	42
    // a // b
]int
    @lengthOf(lengthOf
	)	`say ""hi""`
	,
}  MetaData u{ f64 msg_type,
uint8
As	`say ""hi""` ,

    leftPad packetx

    ,
    int32 As// " ++ [27880; 37322]%N ++ runes_of_ascii "
	`tab	here`
, i64
    trueish,

uint16	calculatedFrom  ,

    } packet
	f32a {
roots x_y_z ,

match
body as	f32a
	    // @lengthOf(
	//	t
	  {

[ 
255 
,10
	] 
  // packet A { u8 x, }
  // `tick` ""quote"" 'q'
	:
BodyLength
,""// no comment"" :packetx , [

    ""{,}""
	,
	65535 ,4294967296
    ,
255
,
    7

    ,	//x
""{,}""// a // b
  ,  """"

,

    0
] 
:
uint8x  255

:trueish

    , 7

    :  u128

, 
0123456789: asx
,

    } , 	 // " ++ [128512]%N ++ runes_of_ascii " emoji
match 

    //	t

  A
as

    o	{ 
0 
: trueish// `tick` ""quote"" 'q'
    ,
""1"" : i8i8	, 42

    :
Z9_
    , }	,

options1	,
	@tag( 0123456789
    )
    repeat 
/// triple
	zchar	{ 
Foo
@lengthOf(  float
	) 
,/// triple

	} // c

,
	match
msg_type as	u
    {// packet A { u8 x, }
	0123456789 :  repeatCount

,},
@calculatedFrom(

""it's""
)i64_@lengthOf(
x_y_z )
,

char[  00
    ] Packet`" ++ [28040; 24687; 31867; 22411]%N ++ runes_of_ascii "` ,	u16	// @lengthOf(
lengthOf`a\`
,
    @calculatedFrom(""\" ++ [233]%N ++ runes_of_ascii """)	i64_ 
int , } packet
    uint8x
{  string Header 
@lengthOf( matchKey ) `" ++ [28040; 24687; 31867; 22411]%N ++ runes_of_ascii "`

    , }packet
crc

{ 
    // " ++ [128512]%N ++ runes_of_ascii " emoji
	// `tick` ""quote"" 'q'
  }

")).
Eval vm_compute in ("<<<M1242>>>" ++ check (runes_of_ascii "// " ++ [128512]%N ++ runes_of_ascii " emoji
packet f32a { falsey, } packet metadata { //	t
@lengthOf(tag )
u8 A @calculatedFrom(  """ ++ [28040; 24687]%N ++ runes_of_ascii """
) `// not a comment` ,
@calculatedFrom( """ ++ [28040; 24687]%N ++ runes_of_ascii """
) i64 i64_ @calculatedFrom( ""abc""// packet A { u8 x, }
)`a\` ,u8
u128  ,
string_ `line1
line2` ,@calculatedFrom(// " ++ [128512]%N ++ runes_of_ascii " emoji
""\" ++ [233]%N ++ runes_of_ascii """  ) // " ++ [27880; 37322]%N ++ runes_of_ascii "
@calculatedFrom( ""it's"" ) @calculatedFrom( // c
""\n"") repeat pack { zchar[ 0
    ] Foo
    @lengthOf(
uint8x ) , float32 x , } , repeat roots`a\` ,f64 Header @calculatedFrom(
""// no comment"" ) , zchar[42 ] zchar	, options1 o// " ++ [27880; 37322]%N ++ runes_of_ascii "
`" ++ [28040; 24687; 31867; 22411]%N ++ runes_of_ascii "`
, repeat
    zchar[ 7 ] len
, // " ++ [27880; 37322]%N ++ runes_of_ascii "
}
packet MetaDataX{ @calculatedFrom( ""a	b"" )repeat u128 { match rootA as
crc {007
:
pack
    , 10 : u8x ,""a\\"" : falsey , [
    //x
    ""{,}"",
0 , """ ++ [233]%N ++ runes_of_ascii "t" ++ [233]%N ++ runes_of_ascii """ , 42
    // a // b
    ,
255
, ""\n"", 10 , ""// no comment""// c
] : leftPad
, ""1"" :
    x_y_z ,
7
    :	Z9_ ,} // " ++ [27880; 37322]%N ++ runes_of_ascii "
, } ,
msg_type { repeat char[]  Pad ,/// triple
uint16 body
, }
,
    // `tick` ""quote"" 'q'
    uint16 u@lengthOf(leftPad)
    ,	@tag( 255 //
) repeat u128
{ repeat string_, repeatCount pack , repeat	stringy
{
    zchar[ 10 ] crc
    `doc`, i16
leftPad @calculatedFrom( ""it's"" ) `
`
    ,
    tag { repeat
char[] repeatCount `u8 x,`
//	t
// trailing space 
, match	stringy
as Foo	{
1 : asx, }
,match i64_ as Packet
{ ""a\""b"" :  Pad,
    ""a\\"": o ,
    [0, 0123456789 ,7 , 1 , //x
1, 7 ]
// @lengthOf(
//x
: matchKey
, },  } ,
} , i64 body
@lengthOf( metadata)  `u8 x,`  , } ,
string crc `two words` , @lengthOf(
charz )@calculatedFrom(""" ++ [233]%N ++ runes_of_ascii "t" ++ [233]%N ++ runes_of_ascii """ )
match
    string_ as
stringy{ // @lengthOf(
[	0  ] :
pack // c
,""CRC32"": crc , 1
: int ,
}//
, repeat // `tick` ""quote"" 'q'
u8
matchKey `` ,repeat int8 // a // b
matchKey , Header // `tick` ""quote"" 'q'
crc , } // `tick` ""quote"" 'q'")).
Eval vm_compute in ("<<<M3731>>>" ++ check (runes_of_ascii "packet a1 
{

    repeat uint8x	{ zchar[	3 
] metadata

    @lengthOf(	chars

)

    `it's`  , u8 
packetx

    @calculatedFrom(""CRC32"") `two words`  ,

repeat
leftPad

    {match MetaDataX	as  f32a

    {

    [
4294967296]  :	packetx
, 255:

    As
, [ ""\n""
, ""\" ++ [233]%N ++ runes_of_ascii """	,007 ,
    """ ++ [128512]%N ++ runes_of_ascii """ 
,
7	]  :
float
    , 0123456789	: 	 /// triple

	u128 ""a\""b"" :

calculatedFrom ,
	} ,
match
	len

as

u

{[ 42 ,4294967296 ]

: 
a1
	,""it's""	: rootA  ,

    7
	:

    lengthOf

    , ""`tick`"" :

rootA 
,

    4294967296
	:
    calculatedFrom
,  } ,  repeat
string
MetaDataX `it's` 
,

    }
,

uint16
	uint8x
,
}, string_ @lengthOf(
u), zchar[  0123456789	]
    pack@calculatedFrom( """"  /// triple
    )`u8 x,`  ,  @lengthOf(	x_y_z

    )@lengthOf( u128
)@tag(
    007)zchar[ 
10 ]
	_x `doc` ,
string
    BodyLength , 
// `tick` ""quote"" 'q'

// `tick` ""quote"" 'q'
	i64 msg_type
`u8 x,` ,

f64
Pad 
`say ""hi""`
	,	string

// c
	//x
  float,f64 lengthOf@calculatedFrom( """ ++ [28040; 24687]%N ++ runes_of_ascii """
	)
, 	 // " ++ [128512]%N ++ runes_of_ascii " emoji
  }
    options{ // packet A { u8 x, }
  matchKey 
=

f32
;
}

packet
    Foo
{repeat

    T  // packet A { u8 x, }
	  , repeat
    string_ { i16  uint8x

,  }// a // b

  ,repeat	falsey A`doc`, repeat
lengthOf 
    /// triple
  i8i8
	`tab	here`  ,  repeat char[

    10] x_y_z//
		``	,	//	t
		@leftPad

    (
)
	@rightPad(  ) options1

`doc`  ,u32
	packetx , 
u8

float`crlf
line` 
, } packet  tag

{
} 
    // " ++ [128512]%N ++ runes_of_ascii " emoji
")).
Eval vm_compute in ("<<<M1331>>>" ++ check (runes_of_ascii "packet//x
Logon{@tag( 255 ) match roots as u128{  ""`tick`"" //x
:
matchKey
    ,	1 : Foo} ,
@tag( 65535 ) @lengthOf(	charz ) @calculatedFrom(
""// no comment"" ) i8 trueish ,
    float32 o  @lengthOf( i8i8 )
,
    @rightPad ( ' ' ) u8x  `two words`,
repeat u64 i8i8 ,  match
    zchar as x_y_z { """ ++ [128512]%N ++ runes_of_ascii """ : charz , } // @lengthOf(
,@lengthOf(
repeatCount)// " ++ [128512]%N ++ runes_of_ascii " emoji
u32 falsey `// not a comment` , } options // @lengthOf(
{ // " ++ [128512]%N ++ runes_of_ascii " emoji
falsey=""" ++ [128512]%N ++ runes_of_ascii """ ;
packetx = """ ++ [233]%N ++ runes_of_ascii "t" ++ [233]%N ++ runes_of_ascii """
// @lengthOf(
// @lengthOf(
u128// " ++ [128512]%N ++ runes_of_ascii " emoji
= """" ;options1
= true
; // packet A { u8 x, }
} options{ float =""a	b"" ; packetx =// `tick` ""quote"" 'q'
true calculatedFrom =
u64
    ;Packet =
'\x00' ;
    BodyLength=
    false //	t
; } MetaData falsey
{// " ++ [27880; 37322]%N ++ runes_of_ascii "
BodyLength Logon`line1
line2`
,
    zchar chars `a\` , repeatCount
// " ++ [27880; 37322]%N ++ runes_of_ascii "
// `tick` ""quote"" 'q'
BodyLength , zchar
i8i8 ,
    }packet	packetx { repeat
    int8
Logon
    ,
    @calculatedFrom( ""abc"" ) match Logon as	BodyLength {	65535 /// triple
:pack ,// a // b
[ ""CRC32""
    , ""it's""
, 4294967296 ,
""CRC32"" ,
    ""a\\"",""`tick`"",
255, 007
]
    // packet A { u8 x, }
    : matchKey
, [255
]  : falsey
, } , repeat Packet // c
`tab	here` ,
    @lengthOf(
    charz
)zchar[ 42] tag@calculatedFrom( ""// no comment"" ) `
`	, uint64 //	t
u8x
`" ++ [28040; 24687; 31867; 22411]%N ++ runes_of_ascii "` , }
")).
Eval vm_compute in ("<<<M213>>>" ++ check (runes_of_ascii "packet a1
{
@lengthOf(	f32a	) repeat u64	string_
    ,
    @calculatedFrom( """"
    ) repeat	i16 tag `u8 x,` , @tag( 42 ) @calculatedFrom(	""a\\"")  @calculatedFrom( ""\" ++ [233]%N ++ runes_of_ascii """
) zchar[ 10
] Foo , char[42
    //	t
    ]
    body `// not a comment` , }MetaData roots{ uint64
Z9_ `{ , }`,
char[]charz `doc` , uint16 u128 `u8 x,` , zchar[ 4294967296 // trailing space 
]
    len
,
float32
stringy
,
} packet
Z9_	{ @leftPad ('\x00')
    @tag(42 ) @tag( 7)
    roots x
    , @lengthOf( int ) crc zchar
//	t
//
, } packet string_ { u8 Pad
// c
// " ++ [128512]%N ++ runes_of_ascii " emoji
, u64 chars
,
    @lengthOf(	Logon
)
    pack
,
@leftPad (
    ) @rightPad//
(
    ' '	)@calculatedFrom(""a	b"")
    i8 x `crlf
line`
    , char[ 0123456789 // @lengthOf(
]options1 @calculatedFrom( ""{,}"" )
`two words` ,uint64 charz `doc` , char[] u128
// packet A { u8 x, }
//	t
,
    @calculatedFrom( ""1"" ) repeat matchKey
    {
repeat int o// c
, } ,
@lengthOf(calculatedFrom
    )@rightPad ( '\x00')
@tag( 00 )
MetaDataX { uint32 BodyLength, } ,
// trailing space 
//
} packet lengthOf {  @calculatedFrom(	""" ++ [28040; 24687]%N ++ runes_of_ascii """
    )
// trailing space 
// " ++ [27880; 37322]%N ++ runes_of_ascii "
repeat	repeatCount { repeat char[ 7]	pack `// not a comment`, }
, }
")).
Eval vm_compute in ("<<<M3742>>>" ++ check (runes_of_ascii "root packet options1 {
    repeat u {
        f64 roots,
    },
    zchar falsey `crlf
    line`,
    match u as Foo {
        42 : lengthOf,
        ""\n"" : crc,
        [4294967296, 4294967296, 3, ""\" ++ [233]%N ++ runes_of_ascii """, ""x y""] : o,
    },
    a1 `crlf
    line`,
    @rightPad()
    char[0123456789] x_y_z `line1
    line2`,
    @lengthOf(trueish)
    i32 A `u8 x,`,
}

packet packetx {
    // " ++ [128512]%N ++ runes_of_ascii " emoji
    match u as u8x {
        // " ++ [27880; 37322]%N ++ runes_of_ascii "
        255 : lengthOf,
        [
            7, 00, 10, 0, 007,
            3, """ ++ [233]%N ++ runes_of_ascii "t" ++ [233]%N ++ runes_of_ascii """, ""a\\""
        ] : string_,
        0123456789 : f32a,
    },// trailing space 
    stringy @calculatedFrom(""\" ++ [233]%N ++ runes_of_ascii """) `line1
    line2`,
    @leftPad()
    zchar[10] trueish,// packet A { u8 x, }
}

root packet Logon {
    i64_ @lengthOf(int) `// not a comment`,
    @tag(3)
    match lengthOf as pack {
        42 : T,
        255 : int,
        007 : tag,
        4294967296 : _x,
    },
    @calculatedFrom(""packet"")
    @tag(10)
    @tag(65535)
    zchar[65535] roots,
    @rightPad(' ')
    @tag(7)
    // @lengthOf(
    string Packet @lengthOf(u) `tab	here`,
}

packet metadata {
}

root packet x {
}")).
Eval vm_compute in ("<<<M507>>>" ++ check (runes_of_ascii "
packet _x { repeat o int , match
int
    as Logon{
""packet"" :
// a // b
// packet A { u8 x, }
string_ },
@leftPad ( '0'
) zchar[
1 ] asx , }// @lengthOf(
packet leftPad { }	root
packet i8i8{
    @calculatedFrom(""it's"" ) _x
    len// " ++ [27880; 37322]%N ++ runes_of_ascii "
`crlf
line`, } root
    packet rootA { char[]
    rootA @lengthOf( leftPad
    )`u8 x,` , match
falsey
as calculatedFrom {42:
    Foo }
,
    repeat Z9_
    {
    uint16 _x// " ++ [128512]%N ++ runes_of_ascii " emoji
`doc` , zchar[ // `tick` ""quote"" 'q'
42// " ++ [128512]%N ++ runes_of_ascii " emoji
]
u8x ,repeat
zchar[
// @lengthOf(
// c
42
/// triple
// " ++ [27880; 37322]%N ++ runes_of_ascii "
]Z9_	`// not a comment`, } // trailing space 
,
string//
T,u8x i8i8, @calculatedFrom( ""CRC32"")  u64 zchar,
//
// " ++ [128512]%N ++ runes_of_ascii " emoji
}
packet Packet {repeat
    Z9_ int ,
int16 asx`// not a comment`
,@lengthOf(	options1
)
repeat int8
    As`" ++ [233]%N ++ runes_of_ascii "`// @lengthOf(
, @leftPad ( '\x00'
// " ++ [27880; 37322]%N ++ runes_of_ascii "
//	t
)
o { repeat
    //
    rootA
`crlf
line`
    //x
    ,
    Packet, }  , @calculatedFrom( ""`tick`""
    //
    ) @lengthOf( T
)
    //	t
    repeatCount
_x  ,
_x{ i16 x_y_z @lengthOf(a1
) `
`,}
// packet A { u8 x, }
//
,
    }")).
Eval vm_compute in ("<<<M3509>>>" ++ check (runes_of_ascii "options {
    StringPrefixLenType = u8;
    ArrayPrefixLenType = u8;
    FixedStringPadFromLeft = true;
    FixedStringPadChar = ' ';
}
packet Logout {
    repeat string Px,
    repeat string seqNo,
    InMsgkind64 {
        uint16 OrderId,
        char[] count,
        repeat i32 venue,
    },
}
packet Heartbeat {
    float32 tag7,
    repeat InPrice50 {
        repeat char[5] lastPx,
        InRef42 {
            u8 pad0,
        },
        uint32 Acct,
        repeat Logout,
        repeat char[5] Qty,
    },
    repeat InSeqno30 {
        repeat Logout,
    },
    @leftPad('0') char[12] Acct,
    char[] Side2,
    repeat string msgKind,
}
packet Ack {
    Heartbeat,
    char[8] seqNo,
    float64 clOrdID,
}
packet Trade {
    char[] OrderId,
    f64 Side2,
    zchar[8] f1,
    string Qty,
    float64 seqNo,
    repeat Logout,
}
packet Order {
    f32 OrderId,
    repeat u8 x,
    Ack,
    zchar[7] Note,
}
root packet Logon {
    @rightPad('\x00') char[9] f1,
}
")).
Eval vm_compute in ("<<<M3771>>>" ++ check (runes_of_ascii "//	t
root packet Header {
    @tag(255)
    float32 msg_type @lengthOf(u8x) `" ++ [28040; 24687; 31867; 22411]%N ++ runes_of_ascii "`,
    @calculatedFrom(""a	b"")
    repeat string i64_,
    repeat x_y_z {
        //x
        asx,
        string i8i8 @lengthOf(float),
        uint16 As @calculatedFrom(""x y""),
    },//
    @lengthOf(i8i8)
    msg_type {
        match tag as Z9_ {
            [1, ""packet""] : Z9_,
            [4294967296] : options1,
            ""\n"" : Pad,
        },
        match calculatedFrom as packetx {
            0123456789 : metadata,
            [""" ++ [233]%N ++ runes_of_ascii "t" ++ [233]%N ++ runes_of_ascii """] : T,
            1 : i64_,
        },//	t
        match BodyLength as chars {
            0 : metadata,
            """ ++ [128512]%N ++ runes_of_ascii """ : u128,
            ""a\""b"" : calculatedFrom,
            0 : As,
            """ ++ [128512]%N ++ runes_of_ascii """ : x_y_z,
            7 : f32a,
        },
        u trueish,
    },
}

MetaData charz {
    i32 x `u8 x,`,
    char[] calculatedFrom `two words`,
    int8 packetx `crlf
    line`,
}

MetaData charz {
}")).
Eval vm_compute in ("<<<M3698>>>" ++ check (runes_of_ascii "

  root 
//
    	// `tick` ""quote"" 'q'
    packet 
lengthOf  {
repeat
char[] asx`// not a comment` // trailing space 
  ,
	lengthOf

{

string

options1

,
    char[]
    A@calculatedFrom(
    ""\n"" ) ,
int16 trueish
    ,
    }	,

    repeat
int16 stringy
,

string
	Logon

    `{ , }`  , @lengthOf(

    metadata	)  match
trueish	as	Foo{ 00
: 
T 
,7: Z9_  ,
	}
,

string_ a1	`" ++ [28040; 24687; 31867; 22411]%N ++ runes_of_ascii "` // packet A { u8 x, }
,
} packet 
zchar{@calculatedFrom(  ""x y""//x
    )repeatCount`
`
	,
	match 
    //
	stringy

as
	u

{	255// `tick` ""quote"" 'q'
	: charz
} ,zchar[

0123456789

] 
// a // b

Z9_
@lengthOf( crc ) 
`it's`
, @leftPad
(
    '\x00'  )	zchar[
0
	] rootA@calculatedFrom(
""CRC32""

    ) 
, @lengthOf(
leftPad	) 
    // packet A { u8 x, }
    Foo 
@calculatedFrom(""{,}"" 
) ,	uint32	Foo `// not a comment`
,f32

float	, repeat matchKey  ,  Logon @lengthOf(
rootA) 
`" ++ [28040; 24687; 31867; 22411]%N ++ runes_of_ascii "`,
	}
")).
Eval vm_compute in ("<<<M1133>>>" ++ check (runes_of_ascii "  packet
    stringy	{
    @tag(//	t
1) Logon @lengthOf( roots
// @lengthOf(
// " ++ [27880; 37322]%N ++ runes_of_ascii "
) ,
    @tag(4294967296
) repeat
leftPad
    { match	metadata as // trailing space 
u8x {
4294967296: // " ++ [128512]%N ++ runes_of_ascii " emoji
pack ""CRC32""	: f32a ,
}  , } ,
match Logon
as float{ [ ""// no comment"" // packet A { u8 x, }
] :
    roots 0123456789 :Pad , } , repeat Foo
//
// c
{ matchKey { zchar[ 4294967296] repeatCount
    `{ , }`	, }
,uint64 int @lengthOf( float ) ,
match // packet A { u8 x, }
asx as trueish { ""// no comment"" //	t
:
    lengthOf	,10
    :As // `tick` ""quote"" 'q'
, 3
:
calculatedFrom ,
    [ 7 ,4294967296
    ]
:	leftPad,
4294967296 :  BodyLength
    ,} , },
i8 Packet ,@calculatedFrom( """ ++ [128512]%N ++ runes_of_ascii """ )
    Logon o , repeat u64
asx , @calculatedFrom(
""a\""b"" ) repeat
    int8 MetaDataX ,
@calculatedFrom( ""abc"" ) uint64 // trailing space 
tag
`line1
line2`  ,	}
")).
Eval vm_compute in ("<<<M453>>>" ++ check (runes_of_ascii "packet chars{ }	options
// a // b
// packet A { u8 x, }
{	calculatedFrom
=i8;}
packet x { @tag( 255
    ) // `tick` ""quote"" 'q'
match u8x as leftPad { [
1 ,
    ""\n"",""a\""b""]
    : stringy } ,
float @calculatedFrom(
    ""\n"" )
`
`
    ,
@calculatedFrom( // @lengthOf(
""{,}""
) repeat char[ 0123456789
] Header
    , body {
f32a
    `" ++ [28040; 24687; 31867; 22411]%N ++ runes_of_ascii "`
, char[
10 ] Pad
@lengthOf( packetx )`line1
line2`
    , match Header as crc {[ 7] : roots
,4294967296 : Header , 255:
    // " ++ [27880; 37322]%N ++ runes_of_ascii "
    crc,	00
:
    Z9_ ,255 :Z9_ ,
[
    42 ,
    255
    ] : repeatCount
,	} , leftPad { repeat
asx  `" ++ [28040; 24687; 31867; 22411]%N ++ runes_of_ascii "` // " ++ [27880; 37322]%N ++ runes_of_ascii "
, float
, }, }
    , @leftPad // a // b
(
) @lengthOf(Foo  )@calculatedFrom(  ""abc"" ) uint64 BodyLength , @tag( // " ++ [128512]%N ++ runes_of_ascii " emoji
65535 ) i64 u8x`it's`
,	@tag( 0 )/// triple
crc { zchar[65535 ]u `tab	here` ,	} ,// a // b
}
")).
Eval vm_compute in ("<<<M3864>>>" ++ check (runes_of_ascii "root packet options1 {
    @lengthOf(Packet)
    //x
    //	t
    repeat chars {
        repeatCount u128,
        match u as BodyLength {
            [65535] : packetx,
            3 : zchar,
            255 : roots,
            """ ++ [233]%N ++ runes_of_ascii "t" ++ [233]%N ++ runes_of_ascii """ : Header,
        },
        i64 Packet,
        char[] uint8x @calculatedFrom(""// no comment"") `crlf
                line`,
    },
    string trueish,
    @leftPad(' ')
    i8i8 {
        /// triple
        float64 T @lengthOf(leftPad),// @lengthOf(
        u128 `" ++ [233]%N ++ runes_of_ascii "`,
        lengthOf,// a // b
        matchKey,
    },
    repeat char[1] MetaDataX `a\`,
    @calculatedFrom(""1"")
    string chars `it's`,
    char[] calculatedFrom @lengthOf(calculatedFrom) `doc`,
    rootA _x `" ++ [28040; 24687; 31867; 22411]%N ++ runes_of_ascii "`,
}

MetaData calculatedFrom {
    u tag `
        `,
}")).
Eval vm_compute in ("<<<M3552>>>" ++ check (runes_of_ascii "// top
options
    // c0
{ LittleEndian
    // c2
= // c3
true
    // c4
;
    // c5
} // c6
packet // c7a
  // c7b
Logon
    // c8
{ // c9a
  // c9b
u8
    // c10
x
    // c11
, // c12
string
    // c13
user , // c15a
  // c15b
} // c16a
  // c16b
packet // c17
Logout // c18a
  // c18b
{
    // c19
u16
    // c20
reason , } // c23a
  // c23b
packet Empty // c25a
  // c25b
{ // c26
}
    // c27
root // c28a
  // c28b
packet // c29a
  // c29b
Frame
    // c30
{ u16
    // c32
MsgType ,
    // c34
@lengthOf(
    // c35
Body ) // c37a
  // c37b
u8 // c38
BodyLen // c39a
  // c39b
,
    // c40
u8
    // c41
flags , Logon
    // c44
Body
    // c45
, // c46a
  // c46b
u32 trailer
    // c48
, // c49a
  // c49b
} // c50a
  // c50b
")).
Eval vm_compute in ("<<<M3605>>>" ++ check (runes_of_ascii "// " ++ [128512]%N ++ runes_of_ascii " emoji
MetaData int {
    As options1,
    char[42] a1,
    int32 Foo `// not a comment`,
    int32 float,
    zchar[4294967296] uint8x `// not a comment`,
    char[] Pad,
}

root packet MetaDataX {
    @tag(1)
    u128 {
        repeatCount Packet,
    },
    A,
    @lengthOf(u128)
    @leftPad()
    @leftPad('\x00')
    repeat i16 uint8x `u8 x,`,
    int16 float @calculatedFrom(""abc"") `" ++ [28040; 24687; 31867; 22411]%N ++ runes_of_ascii "`,
    body @lengthOf(_x),
    @leftPad('0')
    //x
    match roots as Header {
        ""{,}"" : Packet,
        0123456789 : pack,
        00 : matchKey,
        [4294967296, """ ++ [28040; 24687]%N ++ runes_of_ascii """] : string_,
    },
}

packet charz {
    // trailing space 
    char[00] u8x,
    i32 chars,
}

packet matchKey {
}")).
Eval vm_compute in ("<<<M1306>>>" ++ check (runes_of_ascii "root packet a1
{@leftPad ()repeat
pack {repeat
Header`doc`
, } , } packet u {//x
@tag( 65535) @tag( 007	)
    repeat	uint8x {
    match Packet as trueish {
    [ ""1""
    , 255 , //	t
65535
]: trueish ,// @lengthOf(
""" ++ [233]%N ++ runes_of_ascii "t" ++ [233]%N ++ runes_of_ascii """ :
    chars
, """ ++ [233]%N ++ runes_of_ascii "t" ++ [233]%N ++ runes_of_ascii """:
stringy	""// no comment"" : body
,""\" ++ [233]%N ++ runes_of_ascii """ : body , } , repeat a1 options1 //	t
, match	uint8x as Header  { [
    ""packet""
    ]
    : uint8x
, 10 :
BodyLength
,[	007
]: Foo ,	007 :	T , ""\n"" :
asx }, char[
42
]
As
, } , @calculatedFrom(
""abc"" ) @rightPad // " ++ [128512]%N ++ runes_of_ascii " emoji
( ) matchKey ``
    , Logon
o ,
    @calculatedFrom(  ""`tick`""
) repeat a1{ // c
int8
    len
,	}
// " ++ [27880; 37322]%N ++ runes_of_ascii "
// `tick` ""quote"" 'q'
, }
// trailing space 
")).
Eval vm_compute in ("<<<M3490>>>" ++ check (runes_of_ascii "// top
packet // c0
MDSnapshotZZ { // c2a
  // c2b
u8 a
    // c4
, } // c6
packet // c7a
  // c7b
OrderACK // c8a
  // c8b
{ u16 b
    // c11
, // c12a
  // c12b
} // c13
packet
    // c14
HTTPServerInfo {
    // c16
string s
    // c18
, } root // c21a
  // c21b
packet // c22
FIXMsg // c23
{ // c24
u8 // c25
KType , MDSnapshotZZ , repeat // c30a
  // c30b
OrderACK
    // c31
, // c32a
  // c32b
match
    // c33
KType // c34a
  // c34b
as
    // c35
Body // c36
{ 1 : // c39
HTTPServerInfo // c40
, // c41
2 // c42
: // c43
OrderACK // c44a
  // c44b
, // c45
} // c46a
  // c46b
, // c47a
  // c47b
} // c48a
  // c48b
")).
Eval vm_compute in ("<<<M4491>>>" ++ check (runes_of_ascii "packet

BodyLength

{ @rightPad 	 // packet A { u8 x, }
		(
    )
i32

    packetx
    @lengthOf(
    leftPad

)	,

@lengthOf( MetaDataX
	) leftPad ,
	_x{
match zchar

    as zchar
{
[ // `tick` ""quote"" 'q'
    ""a\\""]

    : crc 
""" ++ [28040; 24687]%N ++ runes_of_ascii """ : Foo,1

    :
	trueish 
,
	42	: rootA ,
    [4294967296
    // @lengthOf(
  // `tick` ""quote"" 'q'
    ] 
    //	t
:float 
	// " ++ [128512]%N ++ runes_of_ascii " emoji
    ""a\\""  :
Foo
,
}
,
repeat

    float
leftPad, uint8x
	i8i8 ,char[255
] As 	 // trailing space 
	,	} ,
    char[ 
  // " ++ [27880; 37322]%N ++ runes_of_ascii "
4294967296 ]uint8x 
`u8 x,`
	,  @leftPad  ()
	float32 body
    `two words`,
    }")).
Eval vm_compute in ("<<<M1255>>>" ++ check (runes_of_ascii "packet repeatCount { } root
    packet x {// " ++ [128512]%N ++ runes_of_ascii " emoji
match body as pack { 10
    :charz} , @leftPad
    ( '\x00'
    // c
    ) @lengthOf( _x ) string//x
f32a
// @lengthOf(
// `tick` ""quote"" 'q'
@calculatedFrom(
""1"" )
/// triple
// `tick` ""quote"" 'q'
, @tag(4294967296 ) @leftPad
    ( ) string
    Logon
,int64
    i8i8`it's` ,
} packet
    Logon
{
len
    // trailing space 
    {
repeat i32 float //
,
} ,
    @lengthOf( Z9_
) repeat lengthOf  msg_type, string_ //
@calculatedFrom(""{,}""
) ,
@tag(255
    ) char[4294967296 //	t
]  pack
`say ""hi""`
, }
")).
Eval vm_compute in ("<<<M19>>>" ++ check (runes_of_ascii "//
packet
/// triple
// a // b
chars {int16 int ,	match calculatedFrom as
    zchar { 4294967296:
i8i8 , [
""// no comment"" ] :stringy, ""a\""b"" :	u128 007
// @lengthOf(
//x
: msg_type , 65535
    : a1 ,""""	: u128} ,
Packet @lengthOf( f32a )
`it's` , int16 stringy`u8 x,` , roots @lengthOf( trueish
) , match charz as A
    {	10
    :A ,
} ,  string
    Header@calculatedFrom( ""`tick`"" )`doc` , }MetaData	roots { asx metadata,	int64 MetaDataX , char[  42 ] o `// not a comment` ,
    f32 packetx ,rootA As `it's` , msg_type tag
, }

")).
Eval vm_compute in ("<<<M1109>>>" ++ check (runes_of_ascii "root packet	T {
    @calculatedFrom( ""it's"") repeat
    // @lengthOf(
    u64
    x_y_z
,
    u64 f32a
    // " ++ [128512]%N ++ runes_of_ascii " emoji
    `say ""hi""` ,
    repeat u32 u8x//	t
, @lengthOf( calculatedFrom) match
u as T //x
{1
    :
Pad
    , 42 : Z9_ [ 1]
    :  o , }	, uint8
uint8x
    @lengthOf(
Logon ),  }
// `tick` ""quote"" 'q'
// @lengthOf(
packet
string_{ len,
char[] pack @calculatedFrom( ""a\""b"" )
,len @lengthOf(_x )
`say ""hi""`	,@lengthOf( rootA )
@tag( 4294967296  ) len  a1 , @tag(
    7 ) u16 T ,} //	t")).
Eval vm_compute in ("<<<M216>>>" ++ check (runes_of_ascii "packet repeatCount
{ f64 // @lengthOf(
_x
@lengthOf( zchar
) ,
Z9_ , calculatedFrom @lengthOf(rootA
)
    `{ , }` ,} packet a1{
    /// triple
    chars
@lengthOf(
tag ), metadata
    , }packet
Packet
    { //x
@tag( 65535 )  @leftPad ( )@tag( 42)	char[ 0123456789]
    /// triple
    float @calculatedFrom(""CRC32"" )
    `tab	here` , repeat int8 string_, u8
x_y_z
`crlf
line`, // @lengthOf(
@tag( 0123456789
)zchar[
1
]	lengthOf @calculatedFrom( ""it's"" ) , // " ++ [27880; 37322]%N ++ runes_of_ascii "
}
")).
Eval vm_compute in ("<<<M3537>>>" ++ check (runes_of_ascii "options{
LittleEndian 
=

false ;

    StringPrefixLenType 
=

    u8
;

ArrayPrefixLenType	=

u16
	; FixedStringPadFromLeft
    = false

;
    } 
packet Heartbeat 
{

u8
seqNo
    ,
@rightPad (  '\x00'  ) char[	8
	]
    x, }

root
packet
    Trade

    { 
repeat
Heartbeat  ,	float32	OrderId
	,
i64 Acct

    ,u16
    Qty,u16 
clOrdID
,

    match
	clOrdID as
Body
    { 131
    :Heartbeat ,
	}  ,u16
sym

@calculatedFrom(	""CRC32""

)  ,  }
")).
Eval vm_compute in ("<<<M373>>>" ++ check (runes_of_ascii "root	packet chars
{ falsey , uint64 f32a @lengthOf( lengthOf
) , // c
}MetaData T{ char[] As ,
} // trailing space 
packet
tag {
    i64
    Foo @lengthOf(
    a1 ),@calculatedFrom(""" ++ [128512]%N ++ runes_of_ascii """ ) @leftPad ( '\x00'// " ++ [128512]%N ++ runes_of_ascii " emoji
)
    // a // b
    @leftPad('\x00')
repeat Foo MetaDataX , } root
packet body {
repeat u64
    MetaDataX `u8 x,` ,
@rightPad
    (
    ' ' )
charz	@lengthOf(matchKey ) ,	@calculatedFrom(
""""
    )len @lengthOf(tag )
, }
")).
Eval vm_compute in ("<<<M646>>>" ++ check (runes_of_ascii "root	packet	options1 {@rightPad (
' ' ) calculatedFrom @calculatedFrom(""x y"") , @rightPad	()
match  lengthOf as
    Logon
    {""1"" //
:Z9_,""it's""	:/// triple
metadata,
}	, @lengthOf(  o)match
options1
as//	t
As {
    255 :
u8x,	""""
:
    uint8x , [ 007, ""`tick`"" , 0123456789]
:
    // `tick` ""quote"" 'q'
    T ,""\" ++ [233]%N ++ runes_of_ascii """ : //x
As 7 // a // b
: Z9_ ,},
} MetaData pack	{
    string As
    , Header body `two words`, i32
f32a ,}
")).
Eval vm_compute in ("<<<M3535>>>" ++ check (runes_of_ascii "options {
    LittleEndian = false;
    StringPrefixLenType = u8;
    ArrayPrefixLenType = u16;
    FixedStringPadFromLeft = false;
}
packet Heartbeat {
    u8 seqNo,
    @rightPad('\x00') char[8] x,
}
root packet Trade {
    repeat Heartbeat,
    float32 OrderId,
    i64 Acct,
    u16 Qty,
    u16 clOrdID,
    match clOrdID as Body {
        131 : Heartbeat,
    },
    u16 sym @calculatedFrom(""CRC32""),
}
")).
Eval vm_compute in ("<<<M540>>>" ++ check (runes_of_ascii "packet asx {  @tag( 7 ) repeat	u16  _x , //
@calculatedFrom(""a	b"") string	a1`two words`
    , A@calculatedFrom( ""abc"")`
` ,//
uint16 pack // a // b
@calculatedFrom(  ""// no comment""
),
    // a // b
    char[] tag  @lengthOf( u128 )
`
`
    , string_
@lengthOf( chars
    )	, // " ++ [128512]%N ++ runes_of_ascii " emoji
match Pad as  packetx {255 : u128 ,  } ,repeat // `tick` ""quote"" 'q'
calculatedFrom float `
`	,	}
")).
Eval vm_compute in ("<<<M3283>>>" ++ check (runes_of_ascii "// top
packet // c0
trueish // c1
{ // c2
repeat // c3
u32 // c4
MetaDataX // c5
`doc` // c6
, // c7
Header // c8
{ // c9
packetx // c10
o // c11
`u8 x,` // c12
, // c13
} // c14
, // c15
@leftPad // c16
( // c17
'\x00' // c18
) // c19
repeat // c20
char[ // c21
0123456789 // c22
] // c23
repeatCount // c24
, // c25
} // c26
packet // c27
Packet // c28
{ // c29
} // c30
")).
Eval vm_compute in ("<<<M1112>>>" ++ check (runes_of_ascii "packet// `tick` ""quote"" 'q'
o {
@lengthOf( As )
calculatedFrom @lengthOf( matchKey )
,// a // b
}packet
// packet A { u8 x, }
// trailing space 
options1 {match x as Foo { [
    ""a\""b""
, 7 ]  :	u128 """ ++ [128512]%N ++ runes_of_ascii """ :
Packet  , }, repeat  pack len `tab	here`
    , msg_type , @calculatedFrom(""" ++ [128512]%N ++ runes_of_ascii """ )
char[ 10
] zchar , } options	{ metadata =""CRC32""
; uint8x=	false
    ;}
")).
Eval vm_compute in ("<<<M74>>>" ++ check (runes_of_ascii "// packet A { u8 x, }
root packet
charz {
    matchKey { repeat
    Foo { // trailing space 
uint8 chars @lengthOf(	x
    ) , } //
, pack{rootA@lengthOf( MetaDataX// c
) , } // a // b
, roots{zchar[	10	]
    leftPad ,
    } ,	repeat pack
stringy`two words` ,	}, } packet rootA {char[ 10 ]
    x_y_z
`{ , }` , uint64 falsey ,
    // " ++ [27880; 37322]%N ++ runes_of_ascii "
    }
")).
Eval vm_compute in ("<<<M659>>>" ++ check (runes_of_ascii "packet lengthOf { repeat options1
A
,repeatCount @calculatedFrom(
    """ ++ [128512]%N ++ runes_of_ascii """ )`two words`,i64 _x `{ , }` ,
string
_x
@lengthOf( Pad  ) , match
body // " ++ [27880; 37322]%N ++ runes_of_ascii "
as u128 {1 : f32a, } , @lengthOf( /// triple
MetaDataX  )
    float64 _x,} packet calculatedFrom {
i16 rootA ,}
//x
// c
MetaData
repeatCount
    {} options {o
    = 1 }
")).
Eval vm_compute in ("<<<M4301>>>" ++ check (runes_of_ascii "
options 
{

Packet =
'\x00' 	 // " ++ [27880; 37322]%N ++ runes_of_ascii "

i64_

    =  3  ;
falsey 	 //
= 00 
;	x_y_z	=  0 	 // a // b
    ;  Header	= 	 // " ++ [128512]%N ++ runes_of_ascii " emoji
  ""a\""b""
	}	MetaData

f32a
    {  } 
options {metadata
	=
""it's""; }	options { 
}
options 
{calculatedFrom

    =int32  ;len

= 
""" ++ [128512]%N ++ runes_of_ascii """

    _x  =""it's""	BodyLength=
0123456789  }
")).
Eval vm_compute in ("<<<M4394>>>" ++ check (runes_of_ascii "packet A {
    u8 a,
}

packet B {
    u16 b,
}

packet C {
    u32 c,
}

root packet M {
    u16 Kc,
    u16 Kb,
    u16 Ka,
    match Kc as X {
        9 : A,
        10 : B,
    },
    match Kb as Y {
        2 : C,
        1 : A,
    },
    match Ka as Z {
        1 : B,
    },
    A,
    B,
    C,
}")).
Eval vm_compute in ("<<<M3485>>>" ++ check (runes_of_ascii "packet
    A 
{	u8
a
	,
    }
packet B{u16 b , } packet
	C{u32 c , 
}
root  packet M{u16

    Kc , 
u16 Kb ,  u16 Ka

,

    match Kc
as

X{ 9
    :

    A, 10
	: 
B

,	}

, match	Kb 
as 
Y	{2 :
C
    ,

    1: A 
,
    }

,

    match 
Ka
as Z{  1
    :
	B
, 
} 
, A, B,
C,
    }

")).
Eval vm_compute in ("<<<M3733>>>" ++ check (runes_of_ascii "root packet string_ {
    zchar[1] stringy @lengthOf(charz) `u8 x,`,
    repeat falsey {
        i8 u128 @lengthOf(u128) `line1
        line2`,
        float @calculatedFrom(""a	b""),
        chars,
        char[0] Header,
    },
    i8i8 `// not a comment`,//
}

packet T {
    repeat lengthOf,
}")).
Eval vm_compute in ("<<<M1521>>>" ++ check (runes_of_ascii "root packet Foo // " ++ [128512]%N ++ runes_of_ascii " emoji
{ } options {
    // a // b
    tag // `tick` ""quote"" 'q'
= //	t
""""
    ; u8x = zchar[0  ] }
MetaData
    int {zchar[ 10 lengthOf
]	`` , i64 u8x`// not a comment` ,MetaDataX pack// `tick` ""quote"" 'q'
`crlf
line`
, Logon charz `crlf
line`
    ,
    // a // b
    }
")).
Eval vm_compute in ("<<<M1526>>>" ++ check (runes_of_ascii "root packet Foo // " ++ [128512]%N ++ runes_of_ascii " emoji
{ } options {
    // a // b
    tag // `tick` ""quote"" 'q'
= //	t
""""
    ; u8x = zchar[0  ] }
MetaData
    int {zchar[ 10]
``	lengthOf , i64 u8x`// not a comment` ,MetaDataX pack// `tick` ""quote"" 'q'
`crlf
line`
, Logon charz `crlf
line`
    ,
    // a // b
    }
")).
Eval vm_compute in ("<<<M1532>>>" ++ check (runes_of_ascii "root packet Foo // " ++ [128512]%N ++ runes_of_ascii " emoji
{ } options {
    // a // b
    tag // `tick` ""quote"" 'q'
= //	t
""""
    ; u8x = zchar[0  ] }
MetaData
    int {zchar[ 10]
lengthOf	} , i64 u8x`// not a comment` ,MetaDataX pack// `tick` ""quote"" 'q'
`crlf
line`
, Logon charz `crlf
line`
    ,
    // a // b
    }
")).
Eval vm_compute in ("<<<M1564>>>" ++ check (runes_of_ascii "root packet Foo // " ++ [128512]%N ++ runes_of_ascii " emoji
{ } options {
    // a // b
    tag // `tick` ""quote"" 'q'
= //	t
""""
    ; u8x = zchar[0  ] }
MetaData
    int {zchar[ 10]
lengthOf	`` , i64 u8x`// not a comment` ,MetaDataX // `tick` ""quote"" 'q'
`crlf
line`
, Logon charz `crlf
line`
    ,
    // a // b
    }
")).
Eval vm_compute in ("<<<M1569>>>" ++ check (runes_of_ascii "root packet Foo // " ++ [128512]%N ++ runes_of_ascii " emoji
{ } options {
    // a // b
    tag // `tick` ""quote"" 'q'
= //	t
""""
    ; u8x = zchar[0  ] }
MetaData
    int {zchar[ 10]
lengthOf	`` , i64 u8x`// not a comment` ,MetaDataX pack// `tick` ""quote"" 'q'

, Logon charz `crlf
line`
    ,
    // a // b
    }
")).
Eval vm_compute in ("<<<M883>>>" ++ check (runes_of_ascii "
packet repeatCount{	@calculatedFrom( ""\n"" )
match BodyLength as matchKey
// trailing space 
// trailing space 
{ 0123456789 : /// triple
msg_type 4294967296 :f32a,	[""" ++ [233]%N ++ runes_of_ascii "t" ++ [233]%N ++ runes_of_ascii """, ""// no comment""
,3 ] : Foo ,
    65535
:zchar	,
// a // b
//
4294967296 : packetx	,
}
    ,	}")).
Eval vm_compute in ("<<<M1145>>>" ++ check (runes_of_ascii "
packet Pad
{ @lengthOf(
    // c
    x_y_z) @leftPad (
    ' ' )	@tag(65535
)
roots uint8x// @lengthOf(
, trueish
    { char[]float @calculatedFrom( ""it's"" )
, a1 u128 , }
,@tag( 42
) repeat float `" ++ [28040; 24687; 31867; 22411]%N ++ runes_of_ascii "`
    // trailing space 
    ,// trailing space 
}
")).
Eval vm_compute in ("<<<M714>>>" ++ check (runes_of_ascii "root packet  u128 {	} root packet x_y_z
{ @tag( 10	)//x
repeat
    char[]
roots
,
    @calculatedFrom( ""it's""	) zchar[ 00]
trueish`a\` ,zchar[ 10]
crc @calculatedFrom(""// no comment""
    ),
    float32
    BodyLength @calculatedFrom(  ""\n"" )
, }
")).
Eval vm_compute in ("<<<M4180>>>" ++ check (runes_of_ascii "root packet Foo {
}

options {
    // a // b
    tag = false;
    u8x = zchar[0]
}

MetaData int {
    zchar[10] lengthOf ``,
    i64 u8x `// not a comment`,
    MetaDataX pack `crlf
        line`,
    Logon charz `crlf
        line`,
}")).
Eval vm_compute in ("<<<M2266>>>" ++ check (runes_of_ascii "MetaData Packet { }packet	asx  { @lengthOf( asx) falsey`crlf
line` `crlf
line`
,
    }
    packet x	{uint32// @lengthOf(
rootA	,u32 options1 `say ""hi""` , @tag( 7
    )// packet A { u8 x, }
msg_type @lengthOf(
stringy	)	, }

")).
Eval vm_compute in ("<<<M2217>>>" ++ check (runes_of_ascii "MetaData Packet Packet { }packet	asx  { @lengthOf( asx) falsey`crlf
line`
,
    }
    packet x	{uint32// @lengthOf(
rootA	,u32 options1 `say ""hi""` , @tag( 7
    )// packet A { u8 x, }
msg_type @lengthOf(
stringy	)	, }

")).
Eval vm_compute in ("<<<M870>>>" ++ check (runes_of_ascii "
MetaData MetaDataX { stringy chars , Z9_ Foo ,
}options
{ }// " ++ [27880; 37322]%N ++ runes_of_ascii "
packet x_y_z{ } packet
stringy { uint64 packetx  , o , metadata // c
MetaDataX  , repeat float32 len// `tick` ""quote"" 'q'
, i64_
,	}
    options
{ }")).
Eval vm_compute in ("<<<M2363>>>" ++ check (runes_of_ascii "MetaData Packet { }packet	asx  { @lengthOf( asx) falsey`crlf
line`
,
    }
    packet x	{uint32// @lengthOf(
rootA	,u32 options1 `say ""hi""` , @tag( 7
    )// packet A { u8 x, }
msg_type @lengthOf(
stringy	as	, }

")).
Eval vm_compute in ("<<<M2312>>>" ++ check (runes_of_ascii "MetaData Packet { }packet	asx  { @lengthOf( asx) falsey`crlf
line`
,
    }
    packet x	{uint32// @lengthOf(
rootA	,options1 u32 `say ""hi""` , @tag( 7
    )// packet A { u8 x, }
msg_type @lengthOf(
stringy	)	, }

")).
Eval vm_compute in ("<<<M2365>>>" ++ check (runes_of_ascii "MetaData Packet { }packet	asx  { @lengthOf( asx) falsey`crlf
line`
,
    }
    packet x	{uint32// @lengthOf(
rootA	,u32 options1 `say ""hi""` , @tag( 7
    )// packet A { u8 x, }
msg_type @lengthOf(
stringy	)	 }

")).
Eval vm_compute in ("<<<M2260>>>" ++ check (runes_of_ascii "MetaData Packet { }packet	asx  { @lengthOf( asx) `crlf
line`
,
    }
    packet x	{uint32// @lengthOf(
rootA	,u32 options1 `say ""hi""` , @tag( 7
    )// packet A { u8 x, }
msg_type @lengthOf(
stringy	)	, }

")).
Eval vm_compute in ("<<<M2320>>>" ++ check (runes_of_ascii "MetaData Packet { }packet	asx  { @lengthOf( asx) falsey`crlf
line`
,
    }
    packet x	{uint32// @lengthOf(
rootA	,u32 options1  , @tag( 7
    )// packet A { u8 x, }
msg_type @lengthOf(
stringy	)	, }

")).
Eval vm_compute in ("<<<M4201>>>" ++ check (runes_of_ascii "packet As {
    @tag(7)
    repeat char[4294967296] stringy,
    int16 falsey,
    @tag(00)
    repeat u16 rootA `crlf
        line`,
    calculatedFrom charz,
}

MetaData a1 {
}

MetaData asx {
}")).
Eval vm_compute in ("<<<M751>>>" ++ check (runes_of_ascii "options
// " ++ [128512]%N ++ runes_of_ascii " emoji
// " ++ [128512]%N ++ runes_of_ascii " emoji
{options1	=""{,}"" //
} options
{ packetx = '0' ;roots
    =4294967296 As=	""CRC32"" ; chars
// trailing space 
// packet A { u8 x, }
=//	t
7; i8i8 = zchar[ 255	] }")).
Eval vm_compute in ("<<<M4226>>>" ++ check (runes_of_ascii "MetaData roots {
}

MetaData stringy {
    Logon leftPad `crlf
        line`,
    char[] metadata `{ , }`,
    falsey pack `" ++ [233]%N ++ runes_of_ascii "`,
    i8 repeatCount,
}

options {
    matchKey = ' '
}")).
Eval vm_compute in ("<<<M3391>>>" ++ check (runes_of_ascii "// top
MetaData
    // c0
_x
    // c1
{
    // c2
zchar[
    // c3
4294967296
    // c4
]
    // c5
lengthOf
    // c6
`// not a comment`
    // c7
,
    // c8
}
    // c9
")).
Eval vm_compute in ("<<<M594>>>" ++ check (runes_of_ascii "MetaData
// packet A { u8 x, }
// @lengthOf(
string_ { char[]
Pad `// not a comment`
, i32// a // b
lengthOf `{ , }` ,	u16
    As , len x_y_z , char[] rootA
    , }

")).
Eval vm_compute in ("<<<M115>>>" ++ check (runes_of_ascii "root packet T{ }	MetaData	msg_type { i64_ //x
i64_,  } root packet
    // packet A { u8 x, }
    x_y_z { }  MetaData	crc { o
zchar`line1
line2`
,} packet
x{ }")).
Eval vm_compute in ("<<<M2344>>>" ++ check (runes_of_ascii "MetaData Packet { }packet	asx  { @lengthOf( asx) falsey`crlf
line`
,
    }
    packet x	{uint32// @lengthOf(
rootA	,u32 options1 `say ""hi""` , @tag( 7")).
Eval vm_compute in ("<<<M4211>>>" ++ check (runes_of_ascii "packet u128 {
    u128 @lengthOf(matchKey),
    u64 crc `a\`,
    @calculatedFrom(""x y"")
    float32 zchar,
    repeat char[007] uint8x,
    a1,
}")).
Eval vm_compute in ("<<<M3441>>>" ++ check (runes_of_ascii "
packet
B{
    u8  a

    ,} root
    packet

P {  u8
K ,

    match  K
    as
Body {

    1
:
B,}
, 
u16
	L @lengthOf( 
Body ) ,
} ")).
Eval vm_compute in ("<<<M3899>>>" ++ check (runes_of_ascii "packet A {
    match k as n {
        [
            1, 007, 5, 7, ""bb"",
            ""d"", ""f"", ""h""
        ] : B,
        2 : C,
    },
}")).
Eval vm_compute in ("<<<M1695>>>" ++ check (runes_of_ascii "root packet /// triple
rootA {	i32
MetaDataX@calculatedFrom( ""CRC32"" ) `line1
line2` , } MetaData BodyLength packet
u8
rootA, } // c")).
Eval vm_compute in ("<<<M1663>>>" ++ check (runes_of_ascii "root packet /// triple
rootA {	i32
MetaDataX@calculatedFrom( ""CRC32"" ) ) `line1
line2` , } MetaData BodyLength {
u8
rootA, } // c")).
Eval vm_compute in ("<<<M1659>>>" ++ check (runes_of_ascii "root packet /// triple
rootA {	i32
MetaDataX@calculatedFrom( ) ""CRC32"" `line1
line2` , } MetaData BodyLength {
u8
rootA, } // c")).
Eval vm_compute in ("<<<M504>>>" ++ check (runes_of_ascii "MetaData
    u128
{char[255 ] _x
`{ , }`
,
    string leftPad , u8
    A
, zchar[
0123456789]Foo , char[] As`{ , }` , } 	 ")).
Eval vm_compute in ("<<<M1045>>>" ++ check (runes_of_ascii "MetaData calculatedFrom { zchar[ 10]
    u128 `doc` ,zchar[ 0123456789 ]
    packetx ,char[]// trailing space 
MetaDataX
,
}")).
Eval vm_compute in ("<<<M3853>>>" ++ check (runes_of_ascii "packet B {
    u8 a,
}

root packet P {
    u8 K,
    u64 L @lengthOf(Body),
    match K as Body {
        1 : B,
    },
}")).
Eval vm_compute in ("<<<M1647>>>" ++ check (runes_of_ascii "root packet /// triple
rootA {	i32
@calculatedFrom( ""CRC32"" ) `line1
line2` , } MetaData BodyLength {
u8
rootA, } // c")).
Eval vm_compute in ("<<<M1891>>>" ++ check (runes_of_ascii "packet
    Pad // a // b
{ " ++ [127]%N ++ runes_of_ascii "i8i8 @calculatedFrom( ""a	b"") `u8 x,` ,
} options{ float// " ++ [128512]%N ++ runes_of_ascii " emoji
= f64 i64_
=//	t
00 }
")).
Eval vm_compute in ("<<<M2991>>>" ++ check (runes_of_ascii "packet A {
  match k as n {
    [""a"", ""bb"", ""c c"", ""d"", ""e"", ""f"", ""g"", ""h"", ""i"", ""j"", ""k"", ""l""] : B,
    2 : C
  },
}")).
Eval vm_compute in ("<<<M4021>>>" ++ check (runes_of_ascii "packet i8i8 {
    lengthOf lengthOf `u8 x,`,
}

options {
    u = '\x00';
}

MetaData i64_ {
}

MetaData Header {
}")).
Eval vm_compute in ("<<<M1652>>>" ++ check (runes_of_ascii "root packet /// triple
rootA {	i32
MetaDataX ""CRC32"" ) `line1
line2` , } MetaData BodyLength {
u8
rootA, } // c")).
Eval vm_compute in ("<<<M48>>>" ++ check (runes_of_ascii "//x
packet uint8x { u8 // packet A { u8 x, }
roots `a\`	, match len
as charz{
[ 3 , """" ] : Z9_
,
    } , }
")).
Eval vm_compute in ("<<<M217>>>" ++ check (runes_of_ascii "packet i8i8  { lengthOf lengthOf
    `u8 x,`
, }options{u =
'\x00'; } MetaData i64_ {
}MetaData Header {}")).
Eval vm_compute in ("<<<M1186>>>" ++ check (runes_of_ascii "//x
options { x_y_z
= i16// " ++ [128512]%N ++ runes_of_ascii " emoji
charz
    // c
    = ""a	b""
    ;
// @lengthOf(
//
len  =	' '
    ;}")).
Eval vm_compute in ("<<<M3364>>>" ++ check (runes_of_ascii "packet calculatedFrom { @tag( 4294967296 ) u msg_type , char[ 3 ] crc
// c
@lengthOf( len ) `u8 x,` , }")).
Eval vm_compute in ("<<<M4495>>>" ++ check (runes_of_ascii "  packet
A{
	Inner
{	match
    k  as
    n {

    [ 1

    ,
	22 ]

    :
B
,
} ,
    } ,
	}
")).
Eval vm_compute in ("<<<M2939>>>" ++ check (runes_of_ascii "packet A {
  match k as n {
    [""a"", ""bb"", ""c c"", ""d"", ""e"", ""f"", ""g"", ""h""] : B,
    2 : C
  },
}")).
Eval vm_compute in ("<<<M2956>>>" ++ check (runes_of_ascii "packet A {
  match k as n {
    [""a"", 22, ""c c"", 4, ""e"", 66, ""g"", 8, ""i""] : B,
    2 : C
  },
}")).
Eval vm_compute in ("<<<M3246>>>" ++ check (runes_of_ascii "packet Logon { @tag( 42 ) @rightPad ( ' ' ) @leftPad ( ) repeat trueish { // c
string T , } , }")).
Eval vm_compute in ("<<<M2040>>>" ++ check (runes_of_ascii "@leftpadroot
packet crc
    { f32a @calculatedFrom( """ ++ [233]%N ++ runes_of_ascii "t" ++ [233]%N ++ runes_of_ascii """ )
    `say ""hi""`, lengthOf `` ,  }")).
Eval vm_compute in ("<<<M1407>>>" ++ check (runes_of_ascii "root packet SimpleMessage {
    uint16 MsgType `" ++ [28040; 24687; 31867; 22411]%N ++ runes_of_ascii "`,
    string JsonBody `Json" ++ [23383; 31526; 20018; 28040; 24687; 20307]%N ++ runes_of_ascii "`,
}")).
Eval vm_compute in ("<<<M812>>>" ++ check (runes_of_ascii "packet int {}
    // packet A { u8 x, }
    packet Pad { repeat zchar[
7 ] body`" ++ [233]%N ++ runes_of_ascii "` , }
")).
Eval vm_compute in ("<<<M2042>>>" ++ check (runes_of_ascii "`root
packet crc
    { f32a @calculatedFrom( """ ++ [233]%N ++ runes_of_ascii "t" ++ [233]%N ++ runes_of_ascii """ )
    `say ""hi""`, lengthOf `` ,  }")).
Eval vm_compute in ("<<<M4193>>>" ++ check (runes_of_ascii "  packet
A

    {

    match

    k  as  n{ 1
:B  // a
// b
	2
    :  C	}, }")).
Eval vm_compute in ("<<<M2917>>>" ++ check (runes_of_ascii "packet A {
  match k as n {
    [""a"", 22, ""c c"", 4, ""e"", 66] : B,
    2 : C
  },
}")).
Eval vm_compute in ("<<<M3305>>>" ++ check (runes_of_ascii "packet o { @tag( 42 )
// c
repeat x { char[ 0123456789 ] i64_ , } , } options { }")).
Eval vm_compute in ("<<<M68>>>" ++ check (runes_of_ascii "options { stringy=""x y""  ;
chars
=true Logon = string crc = true Logon
= char }")).
Eval vm_compute in ("<<<M46>>>" ++ check (runes_of_ascii "options
    {
    }packet
    repeatCount { // `tick` ""quote"" 'q'
}options{}
")).
Eval vm_compute in ("<<<M3995>>>" ++ check (runes_of_ascii "root 
	    // `t" ++ [65279]%N ++ runes_of_ascii "ick` ""quote"" 'q'
      packet 
As { trueish

Packet , 
}
")).
Eval vm_compute in ("<<<M947>>>" ++ check (runes_of_ascii "
packet Packet
    // c
    { repeat Pad
    leftPad
,
    //	t
    } 	 ")).
Eval vm_compute in ("<<<M3457>>>" ++ check (runes_of_ascii "
root
	packet
	P 
{ u16  a, u32
Sum@calculatedFrom( ""CRC32""
    ) 
,  }")).
Eval vm_compute in ("<<<M3409>>>" ++ check (runes_of_ascii "MetaData _x { zchar[ 4294967296 ] lengthOf `// not a comment` // c
, }")).
Eval vm_compute in ("<<<M2184>>>" ++ check (runes_of_ascii "root
    // `tick` ""quote"" 'q'
    packet As { trueish Packet u16 }
")).
Eval vm_compute in ("<<<M3621>>>" ++ check (runes_of_ascii "
packet
//	t

  //
    packetx
	{ repeat zchar[007
]Foo

    ,}

")).
Eval vm_compute in ("<<<M919>>>" ++ check (runes_of_ascii "MetaData matchKey{} MetaData
    rootA{//	t
falsey stringy
,
}
")).
Eval vm_compute in ("<<<M2867>>>" ++ check (runes_of_ascii "packet A {
  match k as n {
    [1, ""bb""] : B,
    2 : C
  },
}")).
Eval vm_compute in ("<<<M3024>>>" ++ check (runes_of_ascii "MetaData M {
    u8 x `a
    b
  c`,
    T t `a
    b
  c`,
}")).
Eval vm_compute in ("<<<M2897>>>" ++ check (runes_of_ascii "packet A { Inner { match k as n { [1,22,007,4] : B, }, }, }")).
Eval vm_compute in ("<<<M1949>>>" ++ check (runes_of_ascii "
packet	As { @calculatedFrom(//x
""{,}""	)lengthOf # , } 	 ")).
Eval vm_compute in ("<<<M1898>>>" ++ check (runes_of_ascii "
As	packet { @calculatedFrom(//x
""{,}""	)lengthOf , } 	 ")).
Eval vm_compute in ("<<<M1956>>>" ++ check (runes_of_ascii "
packet	As { @calculatedFrom(//x
""{,}""	)caf" ++ [233]%N ++ runes_of_ascii "_1 , } 	 ")).
Eval vm_compute in ("<<<M1225>>>" ++ check (runes_of_ascii "  packet  u { repeat x pack `// not a comment`, }
")).
Eval vm_compute in ("<<<M2415>>>" ++ check (runes_of_ascii "MetaData A
{
i64
chars	, } // `tick` ""qu?ote"" 'q'")).
Eval vm_compute in ("<<<M1743>>>" ++ check (runes_of_ascii "options { { }options {  } // `tick` ""quote"" 'q'")).
Eval vm_compute in ("<<<M1780>>>" ++ check (runes_of_ascii "opt\ions { }options {  } // `tick` ""quote"" 'q'")).
Eval vm_compute in ("<<<M1747>>>" ++ check (runes_of_ascii "options { options {  } // `tick` ""quote"" 'q'")).
Eval vm_compute in ("<<<M3744>>>" ++ check (runes_of_ascii "
MetaData

/// triple
    	BodyLength
	{	}
")).
Eval vm_compute in ("<<<M3018>>>" ++ check (runes_of_ascii "MetaData M {
    u8 x `
`,
    T t `
`,
}")).
Eval vm_compute in ("<<<M2744>>>" ++ check (runes_of_ascii "!}#nP]WB#d!4m &%rd=1Z\-""oa^ntV9;N*>hg2cq")).
Eval vm_compute in ("<<<M2137>>>" ++ check (runes_of_ascii "MetaData x
#{// " ++ [128512]%N ++ runes_of_ascii " emoji
i16 stringy , }")).
Eval vm_compute in ("<<<M2557>>>" ++ check (runes_of_ascii "packet A { repeat u8 x @lengthOf(y), }")).
Eval vm_compute in ("<<<M2818>>>" ++ check ([65533; 65533; 28; 65533]%N ++ runes_of_ascii "9i%" ++ [65533]%N ++ runes_of_ascii "V" ++ [65533]%N ++ runes_of_ascii "Q" ++ [65533; 65533; 65533]%N ++ runes_of_ascii "[" ++ [65533; 65533; 65533]%N ++ runes_of_ascii "Z" ++ [65533; 65533; 65533]%N ++ runes_of_ascii ">F" ++ [65533]%N ++ runes_of_ascii "|" ++ [65533; 65533; 65533; 65533; 65533]%N ++ runes_of_ascii "f" ++ [9700; 4; 65533; 65533; 65533]%N)).
Eval vm_compute in ("<<<M2558>>>" ++ check (runes_of_ascii "packet A { repeat x @lengthOf(y), }")).
Eval vm_compute in ("<<<M305>>>" ++ check (runes_of_ascii "
packet asx{ u64
MetaDataX
, }
")).
Eval vm_compute in ("<<<M3565>>>" ++ check (runes_of_ascii "packet A {
    u8 x `d" ++ [8203]%N ++ runes_of_ascii "`,// c" ++ [8203]%N ++ runes_of_ascii "
}")).
Eval vm_compute in ("<<<M2600>>>" ++ check (runes_of_ascii "packet A { match k as n { }, }")).
Eval vm_compute in ("<<<M1919>>>" ++ check (runes_of_ascii "
packet	As { @calculatedFrom(")).
Eval vm_compute in ("<<<M4463>>>" ++ check (runes_of_ascii "  // c" ++ [160]%N ++ runes_of_ascii "
	packet  A
    { }
")).
Eval vm_compute in ("<<<M2052>>>" ++ check (runes_of_ascii "MetaData A A { u64 pack, }")).
Eval vm_compute in ("<<<M2095>>>" ++ check (runes_of_ascii "MetaData A { u64 pack, }/")).
Eval vm_compute in ("<<<M2063>>>" ++ check (runes_of_ascii "MetaData A { pack u64, }")).
Eval vm_compute in ("<<<M645>>>" ++ check (runes_of_ascii "
 // packet A { u8 x, }")).
Eval vm_compute in ("<<<M2064>>>" ++ check (runes_of_ascii "MetaData A { ( pack, }")).
Eval vm_compute in ("<<<M2821>>>" ++ check (runes_of_ascii "as u32 , ) as options")).
Eval vm_compute in ("<<<M538>>>" ++ check (runes_of_ascii "options{
    } //	t")).
Eval vm_compute in ("<<<M1760>>>" ++ check (runes_of_ascii "options { }options")).
Eval vm_compute in ("<<<M3107>>>" ++ check (runes_of_ascii "// c" ++ [8239]%N ++ runes_of_ascii "
packet A {
}")).
Eval vm_compute in ("<<<M2682>>>" ++ check (runes_of_ascii "// only a comment")).
Eval vm_compute in ("<<<M2490>>>" ++ check (runes_of_ascii "@calculatedFrom(")).
Eval vm_compute in ("<<<M3719>>>" ++ check (runes_of_ascii "packet	A {
}

")).
Eval vm_compute in ("<<<M2118>>>" ++ check (runes_of_ascii "MetaData x
{")).
Eval vm_compute in ("<<<M2833>>>" ++ check (runes_of_ascii "x" ++ [65533; 27; 65533; 65533]%N ++ runes_of_ascii "c" ++ [65533; 65533; 65533]%N ++ runes_of_ascii "T")).
Eval vm_compute in ("<<<M2433>>>" ++ check (runes_of_ascii "zchar [")).
Eval vm_compute in ("<<<M2735>>>" ++ check (runes_of_ascii "B3{" ++ [65533; 65533; 65533]%N)).
Eval vm_compute in ("<<<M2810>>>" ++ check ([14]%N ++ runes_of_ascii "'" ++ [65533]%N ++ runes_of_ascii "s" ++ [65533]%N)).
Eval vm_compute in ("<<<M2507>>>" ++ check (runes_of_ascii """a\""")).
Eval vm_compute in ("<<<M2525>>>" ++ check (runes_of_ascii "007")).
Eval vm_compute in ("<<<M2533>>>" ++ check (runes_of_ascii "__")).
Eval vm_compute in ("<<<M44>>>" ++ check (@nil rune)).
