From FP Require Import Lexer Parser ShowPT Digest.
From Coq Require Import String List NArith.
Import ListNotations.
Open Scope string_scope.
Set Printing Width 100000000.
Set Printing Depth 100000000.
Definition nl : string := String (Ascii.ascii_of_nat 10) EmptyString.
Definition model_lex (rs : list rune) : string := show_toks (lex rs).
Definition model_parse (rs : list rune) : string :=
  show_pt (match lex rs with Some ts => parse ts | None => None end).
(* coqc is slow at printing long strings: digests first (Digest.v), full texts on demand *)
Definition check (rs : list rune) : string :=
  digest (model_lex rs) ++ " " ++ digest (model_parse rs).
Definition full (rs : list rune) : string := model_lex rs ++ nl ++ model_parse rs.
Definition terms (ts : list tok) (t : pt) : string :=
  digest (show_toks (Some ts)) ++ " " ++ digest (show_pt (Some t)) ++ " " ++ digest (show_pt (parse ts)).
Definition terms_full (ts : list tok) (t : pt) : string :=
  show_toks (Some ts) ++ nl ++ show_pt (Some t) ++ nl ++ show_pt (parse ts).
Eval vm_compute in ("<<<M18>>>" ++ check (runes_of_ascii "MetaData zchar
{ uint64 Z9_, As f32a  `" ++ [28040; 24687; 31867; 22411]%N ++ runes_of_ascii "` // " ++ [128512]%N ++ runes_of_ascii " emoji
, char[ 10 ]	options1 //	t
`tab	here` , rootA trueish //x
``, i32 Foo `{ , }` ,}
")).
Eval vm_compute in ("<<<M50>>>" ++ check (runes_of_ascii "MetaData leftPad
    { uint64 tag	`{ , }`
, i64
    chars
`
`
    , }packet MetaDataX
    /// triple
    { char[ 0 ]
x `100% of %d` ,
}
")).
Eval vm_compute in ("<<<M82>>>" ++ check (runes_of_ascii "
packet Logon  {
match o
as x_y_z {// `tick` ""quote"" 'q'
""x y""
    /// triple
    : matchKey , ""\n"" :
pack """ ++ [128512]%N ++ runes_of_ascii """ :	int[ """ ++ [128512]%N ++ runes_of_ascii """ //	t
,
""// no comment""
] :  x }// @lengthOf(
,} // c")).
Eval vm_compute in ("<<<M114>>>" ++ check (runes_of_ascii "// trailing space 
root
    packet	repeatCount
{ @lengthOf(
    _x
) msg_type repeatCount
    // a // b
    ,repeat
//	t
// @lengthOf(
uint16 u
//
/// triple
,	zchar[65535 ] f32a `100% of %d` ,}
/// triple
// " ++ [27880; 37322]%N ++ runes_of_ascii "
packet i64_ {
@rightPad
( )  BodyLength @calculatedFrom(
    ""abc"" )
`line1
line2` ,
}
MetaData o {zchar[ 65535 ]// `tick` ""quote"" 'q'
uint8x // 50% %s
, zchar[1 ]
i64_
,
    zchar[ 4294967296 ]As , }
")).
Eval vm_compute in ("<<<M146>>>" ++ check (runes_of_ascii "  options{ }
")).
Eval vm_compute in ("<<<T146>>>" ++ terms [mkTok 1 "options" 1 2 false; mkTok 2 "{" 1 9 false; mkTok 3 "}" 1 11 false; mkTok 0 "<EOF>" 2 0 false] (mkPacket (mkPtok 1 "options" 1 2 0) (Some (mkPtok 3 "}" 1 11 2)) [(DOption (mkOptionDef (mkSpan (mkPtok 1 "options" 1 2 0) (mkPtok 3 "}" 1 11 2)) (mkPtok 1 "options" 1 2 0) (mkPtok 2 "{" 1 9 1) [] (mkPtok 3 "}" 1 11 2)))])).
Eval vm_compute in ("<<<M178>>>" ++ check (runes_of_ascii "
packet int{ @tag(	4294967296 )string// trailing space 
int , match string_
//
// 50% %s
as
matchKey
{ ""it's"":
    uint8x 10 : u128	,
    // 50% %s
    007: lengthOf	, }  ,
    // packet A { u8 x, }
    @calculatedFrom( ""{,}"" )
int64 stringy
@calculatedFrom( ""CRC32""
)
    , f64
    f32a ,  u @lengthOf( lengthOf )
`u8 x,`	, // " ++ [128512]%N ++ runes_of_ascii " emoji
match
Packet
    as	rootA
// @lengthOf(
// " ++ [128512]%N ++ runes_of_ascii " emoji
{ 42 :
stringy
    // c
    , } , trueish , @calculatedFrom( ""x y"" )@tag(
    42
) char[
    255 ]x@lengthOf(int ) , }
    packet T {  match
    float	as
o { ""a\""b""
:T
,
// trailing space 
// trailing space 
65535 : roots ,  }
    , }packet pack { // trailing space 
@leftPad(
'\x00'
) // 50% %s
@calculatedFrom(//
""" ++ [233]%N ++ runes_of_ascii "t" ++ [233]%N ++ runes_of_ascii """ )  string As // a // b
@calculatedFrom(""CRC32"" ) , }
")).
Eval vm_compute in ("<<<M210>>>" ++ check (runes_of_ascii "MetaData packetx{
char[] x
// `tick` ""quote"" 'q'
//
, body Z9_ //	t
, }
// trailing space 
")).
Eval vm_compute in ("<<<M242>>>" ++ check (runes_of_ascii "options{roots
=
u8
    // 50% %s
    ; tag//
= 42 ;
    //	t
    falsey = ""{,}""metadata
// `tick` ""quote"" 'q'
/// triple
= ""abc"" ;
    } packet pack
    // trailing space 
    {
    @calculatedFrom(//	t
""a	b"")zchar[255] len, // 50% %s
} options { // trailing space 
asx =	false ; options1 = ""packet""
    ; trueish = char[] ;
pack = '0'
; }packet u128 // " ++ [27880; 37322]%N ++ runes_of_ascii "
{ @tag(
3 )
zchar[
    // `tick` ""quote"" 'q'
    42 ]
    Foo //	t
@calculatedFrom( """"
) ,  @leftPad// a // b
(
'\x00' // " ++ [128512]%N ++ runes_of_ascii " emoji
)// trailing space 
Logon { repeat char[]// " ++ [27880; 37322]%N ++ runes_of_ascii "
x
`100% of %d`
    , } ,
    } packet matchKey{
match
    crc as Packet {
""1""
    // `tick` ""quote"" 'q'
    : packetx , }	,match	int as float	{ ""1""
:metadata
}, repeat float32 uint8x , string u `" ++ [233]%N ++ runes_of_ascii "` , @rightPad ( '0' )	Logon
// `tick` ""quote"" 'q'
/// triple
,  float{
    crc
{
u
, uint64 Packet @calculatedFrom(
""`tick`"" ) `
`
    , char[]	T `
` ,},
}  , @calculatedFrom( ""// no comment"") char[ 0123456789 ] x
    `crlf
line`
, @leftPad(' ' ) @tag(
1  ) @calculatedFrom( ""abc""
)char[  65535 ]Header
,
    repeat	zchar[00 ]trueish // 50% %s
`" ++ [28040; 24687; 31867; 22411]%N ++ runes_of_ascii "`, }")).
Eval vm_compute in ("<<<M274>>>" ++ check (runes_of_ascii "packet calculatedFrom
    { // @lengthOf(
repeat uint64 i8i8 // 50% %s
, @lengthOf(matchKey
)
    float32 Logon
    `crlf
line` , @calculatedFrom( // trailing space 
"""" )  char[ 42  ]
uint8x , options1 // a // b
{ char[]	chars @lengthOf( // " ++ [128512]%N ++ runes_of_ascii " emoji
u
    // `tick` ""quote"" 'q'
    ) , match // " ++ [27880; 37322]%N ++ runes_of_ascii "
zchar as pack
    {
    [
    ""1""
, """ ++ [233]%N ++ runes_of_ascii "t" ++ [233]%N ++ runes_of_ascii """ ]	: x
, 3  : u  ,0// 50% %s
: f32a , 007// c
:A
, 7 : // c
As 3 :
T  , } ,	} , }
    options{ //	t
BodyLength
    =
00
// trailing space 
// a // b
} options
    // c
    {pack = ""x y"" body
    = true; charz
    = zchar[ 4294967296 ]
;// " ++ [27880; 37322]%N ++ runes_of_ascii "
metadata
=
    string
    }
MetaData a1 { uint64 Z9_ ,
    asx Z9_
`" ++ [233]%N ++ runes_of_ascii "`
    //
    , }packet packetx
    {
// packet A { u8 x, }
/// triple
@rightPad (
    ) f64 int @lengthOf(// `tick` ""quote"" 'q'
Pad ) , u32 BodyLength ,
float64 trueish//x
@lengthOf( lengthOf ) `tab	here` , }
")).
Eval vm_compute in ("<<<M306>>>" ++ check (runes_of_ascii "packet Header  { u128 @calculatedFrom(// c
""""  )
    // " ++ [128512]%N ++ runes_of_ascii " emoji
    ,
    @rightPad( ) // a // b
zchar charz	, } packet packetx
    //
    {@calculatedFrom( ""{,}"" )
    string
asx	, f32
// " ++ [27880; 37322]%N ++ runes_of_ascii "
// trailing space 
trueish
    @lengthOf( trueish ) ,} 	 ")).
Eval vm_compute in ("<<<M338>>>" ++ check (runes_of_ascii "root	packet msg_type	{
//
// @lengthOf(
}
MetaData u{ // `tick` ""quote"" 'q'
}
")).
Eval vm_compute in ("<<<M370>>>" ++ check (runes_of_ascii "options{ }
")).
Eval vm_compute in ("<<<T370>>>" ++ terms [mkTok 1 "options" 1 0 false; mkTok 2 "{" 1 7 false; mkTok 3 "}" 1 9 false; mkTok 0 "<EOF>" 2 0 false] (mkPacket (mkPtok 1 "options" 1 0 0) (Some (mkPtok 3 "}" 1 9 2)) [(DOption (mkOptionDef (mkSpan (mkPtok 1 "options" 1 0 0) (mkPtok 3 "}" 1 9 2)) (mkPtok 1 "options" 1 0 0) (mkPtok 2 "{" 1 7 1) [] (mkPtok 3 "}" 1 9 2)))])).
Eval vm_compute in ("<<<M402>>>" ++ check (runes_of_ascii "root packet
rootA {} packet u128 {@calculatedFrom(""\" ++ [233]%N ++ runes_of_ascii """ ) falsey@calculatedFrom( ""a\\"" ) ,
@lengthOf(// trailing space 
pack )repeat float64 packetx , @calculatedFrom(""packet"" ) charz
    , uint8 leftPad `crlf
line` ,
}")).
Eval vm_compute in ("<<<M434>>>" ++ check (runes_of_ascii "MetaData Header {Logon calculatedFrom, float64 // `tick` ""quote"" 'q'
i8i8 ,
char[ 007	]packetx`doc` ,zchar[ 007	] tag `tab	here`// c
, MetaDataX A ,x
    // trailing space 
    MetaDataX `line1
line2` , }")).
Eval vm_compute in ("<<<M466>>>" ++ check (runes_of_ascii "MetaData
    // `tick` ""quote"" 'q'
    As// c
{ f32a options1,crc
    Logon ,
    }")).
Eval vm_compute in ("<<<M498>>>" ++ check (runes_of_ascii "packet f32a // c
{
    @calculatedFrom( """ ++ [128512]%N ++ runes_of_ascii """
) char[
65535
    ] Logon , } packet calculatedFrom {
/// triple
//
char[ /// triple
00
] x`{ , }` ,
    // 50% %s
    @lengthOf(A  )
@tag( 00) @lengthOf( MetaDataX)repeat chars
{
repeat Logon {
zchar[
    007	]	uint8x
    ,	}
,	len @lengthOf( charz)`` //
,/// triple
}
, @calculatedFrom(// 50% %s
""{,}"" ) repeat Logon  { uint64
len @lengthOf(u8x ) ,
}	, }
packet u128 { }")).
Eval vm_compute in ("<<<M530>>>" ++ check (runes_of_ascii "packet
    // a // b
    msg_type { @leftPad (
'0' )repeat zchar[
    4294967296] roots ,repeat
u32 u128
    ,
@rightPad(  '\x00' ) match x_y_z  as As { 007: Foo ,} ,  @leftPad ( ' ') @leftPad ( ) _x u
,@tag( 7
    )
    repeat chars{ falsey leftPad `" ++ [28040; 24687; 31867; 22411]%N ++ runes_of_ascii "`
, zchar[  4294967296
] packetx@lengthOf(i64_ // " ++ [128512]%N ++ runes_of_ascii " emoji
)`doc`  , char[ 1]options1 @calculatedFrom(  ""1""), }
    , i64 matchKey @calculatedFrom(  ""x y"" ) `line1
line2`
    , zchar[ 007 ]uint8x `` , @lengthOf( falsey /// triple
) @calculatedFrom(""" ++ [233]%N ++ runes_of_ascii "t" ++ [233]%N ++ runes_of_ascii """) // 50% %s
As
    {//
zchar { repeat	int8  asx , repeat Packet , } ,
}
    ,
    }
")).
Eval vm_compute in ("<<<M562>>>" ++ check (runes_of_ascii "packet
x
    //
    {
@lengthOf( f32a )
char[] Z9_
    ,
    // packet A { u8 x, }
    } root
packet matchKey { @leftPad ( ) @lengthOf(
    Pad )
// c
//
u32 u8x// @lengthOf(
`
`
,
    @calculatedFrom( ""a	b"" ) packetx//x
, uint8x Z9_`" ++ [233]%N ++ runes_of_ascii "`, u8
Logon , @tag( 255 )@tag(// packet A { u8 x, }
007 )  @lengthOf(matchKey // `tick` ""quote"" 'q'
)
int32 float	, } MetaData calculatedFrom{char[ 10 ]
    BodyLength `two words` ,char[] matchKey
    `say ""hi""`	, //	t
int32 MetaDataX
    // 50% %s
    `u8 x,`//	t
, char[ // trailing space 
65535 ] i64_ , } options { matchKey =
uint32 ; stringy = ""CRC32""
    charz =	' ' ; Z9_ =  true ;}MetaData Logon { f64
    f32a `100% of %d`
    ,
uint16 int`u8 x,` ,  int64
a1	, // `tick` ""quote"" 'q'
int64 roots `a\` ,}

")).
Eval vm_compute in ("<<<M594>>>" ++ check (runes_of_ascii " // @lengthOf(")).
Eval vm_compute in ("<<<T594>>>" ++ terms [mkTok 44 "// @lengthOf(" 1 1 true; mkTok 0 "<EOF>" 1 14 false] (mkPacket (mkPtok 0 "<EOF>" 1 14 1) None [])).
Eval vm_compute in ("<<<M626>>>" ++ check (runes_of_ascii "options{Pad
    =
    ""packet"" ; }	packet i8i8//x
{ repeat
    string Foo , } options
{float
    = float32; } // 50% %s
options
    // 50% %s
    {As =  char[] ;
    //	t
    roots =//	t
""it's""
    } packet leftPad { @tag(
    42  ) repeat	_x
`crlf
line`// packet A { u8 x, }
, @calculatedFrom( ""x y""
)repeat char[]//	t
Pad, }
")).
Eval vm_compute in ("<<<M658>>>" ++ check (runes_of_ascii "
options { falsey
//	t
// packet A { u8 x, }
=  ""a	b"" T =// c
true
} options {
    u8x =false ;float =char[] /// triple
;Header= true
    msg_type
    =int8 ;
tag =3 ; // " ++ [128512]%N ++ runes_of_ascii " emoji
}")).
Eval vm_compute in ("<<<M690>>>" ++ check (@nil rune)).
Eval vm_compute in ("<<<M722>>>" ++ check (runes_of_ascii "MetaData x_y_z { int64 Packet
    , char[] charz
`" ++ [233]%N ++ runes_of_ascii "`
    ,string x
, u64
    // a // b
    T , i64 T `{ , }`
//
// `tick` ""quote"" 'q'
,
}packet int {
@lengthOf( u8x )
i8 string_`say ""hi""`
,
    } // trailing space ")).
Eval vm_compute in ("<<<M754>>>" ++ check (runes_of_ascii "packet A
{@tag( 0) match repeatCount as zchar {[ 0 // c
,3  , ""a\\"" //x
,00 ]  : f32a }
,
    }
packet matchKey	{ x_y_z`line1
line2` , @rightPad ()	@rightPad  ( )
float32 rootA, u32 MetaDataX@calculatedFrom( ""1"")
    ,
repeat	asx { repeat
u16  pack
    ,calculatedFrom a1 `line1
line2`
,
    repeat // `tick` ""quote"" 'q'
char[ 7 ] As `` ,
} // packet A { u8 x, }
, @lengthOf( u8x) float32 // c
asx `" ++ [233]%N ++ runes_of_ascii "`// trailing space 
,
    uint64 options1 @lengthOf( matchKey ) `100% of %d`, match i8i8 as chars
{	42// `tick` ""quote"" 'q'
: Foo
    ,
} ,
    Packet
_x `u8 x,` ,
@tag(
    0
)	u64 Packet @lengthOf( asx
) // " ++ [128512]%N ++ runes_of_ascii " emoji
`// not a comment`  , @rightPad
( ) match
falsey as As {
    ""a\""b"" : _x
    ,	""a\\""
:
crc
, ""a\\"" :
    /// triple
    metadata, [""""
    ,	255,""" ++ [128512]%N ++ runes_of_ascii """ ] :
    // @lengthOf(
    falsey }
    , }
")).
Eval vm_compute in ("<<<M786>>>" ++ check (runes_of_ascii "
root
    // packet A { u8 x, }
    packet A {
f64 chars @lengthOf( Z9_
) ,
@lengthOf(
    repeatCount // `tick` ""quote"" 'q'
) //
match falsey as  crc{	7:_x,  } , }
packet body{
    @lengthOf( BodyLength ) charz // @lengthOf(
@calculatedFrom( ""// no comment"" // " ++ [27880; 37322]%N ++ runes_of_ascii "
) `line1
line2` ,@calculatedFrom(  ""// no comment"" ) @leftPad ( ' ' ) @lengthOf(// `tick` ""quote"" 'q'
body)
options1  @lengthOf( // @lengthOf(
string_	) `
`
// 50% %s
// " ++ [128512]%N ++ runes_of_ascii " emoji
,	match _x as
// " ++ [128512]%N ++ runes_of_ascii " emoji
// packet A { u8 x, }
lengthOf { // `tick` ""quote"" 'q'
""`tick`""
:
u8x ,	""abc"" :	o ,
    // c
    1 :metadata, [ 3 ] :
// c
// @lengthOf(
uint8x,
65535 : charz /// triple
, } , }")).
Eval vm_compute in ("<<<M818>>>" ++ check (runes_of_ascii "packet a1{@calculatedFrom( """ ++ [128512]%N ++ runes_of_ascii """
) @calculatedFrom(
    ""`tick`""
) // " ++ [128512]%N ++ runes_of_ascii " emoji
@leftPad ( ) u16 rootA `{ , }` ,
    char
    Z9_ `" ++ [233]%N ++ runes_of_ascii "`	, repeat calculatedFrom
    `` // @lengthOf(
, // @lengthOf(
@lengthOf( MetaDataX	)  @calculatedFrom( ""CRC32"") @rightPad(	'\x00'  ) zchar[ 1
]msg_type`say ""hi""`
    ,}
//x
")).
Eval vm_compute in ("<<<T818>>>" ++ terms [mkTok 35 "packet" 1 0 false; mkTok 42 "a1" 1 7 false; mkTok 2 "{" 1 9 false; mkTok 5 "@calculatedFrom(" 1 10 false; mkTok 31 (string_of_bytes [34; 240; 159; 152; 128; 34]%N) 1 27 false; mkTok 6 ")" 2 0 false; mkTok 5 "@calculatedFrom(" 2 2 false; mkTok 31 """`tick`""" 3 4 false; mkTok 6 ")" 4 0 false; mkTok 44 (string_of_bytes [47; 47; 32; 240; 159; 152; 128; 32; 101; 109; 111; 106; 105]%N) 4 2 true; mkTok 32 "@leftPad" 5 0 false; mkTok 8 "(" 5 9 false; mkTok 6 ")" 5 11 false; mkTok 21 "u16" 5 13 false; mkTok 42 "rootA" 5 17 false; mkTok 43 "`{ , }`" 5 23 false; mkTok 40 "," 5 31 false; mkTok 19 "char" 6 4 false; mkTok 42 "Z9_" 7 4 false; mkTok 43 (string_of_bytes [96; 195; 169; 96]%N) 7 8 false; mkTok 40 "," 7 12 false; mkTok 36 "repeat" 7 14 false; mkTok 42 "calculatedFrom" 7 21 false; mkTok 43 "``" 8 4 false; mkTok 44 "// @lengthOf(" 8 7 true; mkTok 40 "," 9 0 false; mkTok 44 "// @lengthOf(" 9 2 true; mkTok 7 "@lengthOf(" 10 0 false; mkTok 42 "MetaDataX" 10 11 false; mkTok 6 ")" 10 21 false; mkTok 5 "@calculatedFrom(" 10 24 false; mkTok 31 """CRC32""" 10 41 false; mkTok 6 ")" 10 48 false; mkTok 32 "@rightPad" 10 50 false; mkTok 8 "(" 10 59 false; mkTok 33 "'\x00'" 10 61 false; mkTok 6 ")" 10 69 false; mkTok 14 "zchar[" 10 71 false; mkTok 30 "1" 10 78 false; mkTok 13 "]" 11 0 false; mkTok 42 "msg_type" 11 1 false; mkTok 43 "`say ""hi""`" 11 9 false; mkTok 40 "," 12 4 false; mkTok 3 "}" 12 5 false; mkTok 44 "//x" 13 0 true; mkTok 0 "<EOF>" 14 0 false] (mkPacket (mkPtok 35 "packet" 1 0 0) (Some (mkPtok 3 "}" 12 5 43)) [(DPacket (mkPacketDef (mkSpan (mkPtok 35 "packet" 1 0 0) (mkPtok 3 "}" 12 5 43)) None (mkPtok 35 "packet" 1 0 0) (mkPtok 42 "a1" 1 7 1) (mkPtok 2 "{" 1 9 2) [(mkFieldWithAttr (mkSpan (mkPtok 5 "@calculatedFrom(" 1 10 3) (mkPtok 40 "," 5 31 16)) [(FACalculatedFrom (mkSpan (mkPtok 5 "@calculatedFrom(" 1 10 3) (mkPtok 6 ")" 2 0 5)) (mkCalculatedFrom (mkSpan (mkPtok 5 "@calculatedFrom(" 1 10 3) (mkPtok 6 ")" 2 0 5)) (mkPtok 5 "@calculatedFrom(" 1 10 3) (mkPtok 31 (string_of_bytes [34; 240; 159; 152; 128; 34]%N) 1 27 4) (mkPtok 6 ")" 2 0 5))); (FACalculatedFrom (mkSpan (mkPtok 5 "@calculatedFrom(" 2 2 6) (mkPtok 6 ")" 4 0 8)) (mkCalculatedFrom (mkSpan (mkPtok 5 "@calculatedFrom(" 2 2 6) (mkPtok 6 ")" 4 0 8)) (mkPtok 5 "@calculatedFrom(" 2 2 6) (mkPtok 31 """`tick`""" 3 4 7) (mkPtok 6 ")" 4 0 8))); (FAPadding (mkSpan (mkPtok 32 "@leftPad" 5 0 10) (mkPtok 6 ")" 5 11 12)) (mkPaddingAttr (mkSpan (mkPtok 32 "@leftPad" 5 0 10) (mkPtok 6 ")" 5 11 12)) (mkPtok 32 "@leftPad" 5 0 10) (mkPtok 8 "(" 5 9 11) None (mkPtok 6 ")" 5 11 12)))] (MetaField (mkSpan (mkPtok 21 "u16" 5 13 13) (mkPtok 40 "," 5 31 16)) None (mkMetaDecl (mkSpan (mkPtok 21 "u16" 5 13 13) (mkPtok 40 "," 5 31 16)) (TyBasic (mkSpan (mkPtok 21 "u16" 5 13 13) (mkPtok 21 "u16" 5 13 13)) (mkBasicType (mkSpan (mkPtok 21 "u16" 5 13 13) (mkPtok 21 "u16" 5 13 13)) (mkPtok 21 "u16" 5 13 13))) (mkPtok 42 "rootA" 5 17 14) (Some (mkPtok 43 "`{ , }`" 5 23 15)) (mkPtok 40 "," 5 31 16)))); (mkFieldWithAttr (mkSpan (mkPtok 19 "char" 6 4 17) (mkPtok 40 "," 7 12 20)) [] (MetaField (mkSpan (mkPtok 19 "char" 6 4 17) (mkPtok 40 "," 7 12 20)) None (mkMetaDecl (mkSpan (mkPtok 19 "char" 6 4 17) (mkPtok 40 "," 7 12 20)) (TyBasic (mkSpan (mkPtok 19 "char" 6 4 17) (mkPtok 19 "char" 6 4 17)) (mkBasicType (mkSpan (mkPtok 19 "char" 6 4 17) (mkPtok 19 "char" 6 4 17)) (mkPtok 19 "char" 6 4 17))) (mkPtok 42 "Z9_" 7 4 18) (Some (mkPtok 43 (string_of_bytes [96; 195; 169; 96]%N) 7 8 19)) (mkPtok 40 "," 7 12 20)))); (mkFieldWithAttr (mkSpan (mkPtok 36 "repeat" 7 14 21) (mkPtok 40 "," 9 0 25)) [] (ObjectField (mkSpan (mkPtok 36 "repeat" 7 14 21) (mkPtok 40 "," 9 0 25)) (Some (mkPtok 36 "repeat" 7 14 21)) (mkPtok 42 "calculatedFrom" 7 21 22) None (Some (mkPtok 43 "``" 8 4 23)) (mkPtok 40 "," 9 0 25))); (mkFieldWithAttr (mkSpan (mkPtok 7 "@lengthOf(" 10 0 27) (mkPtok 40 "," 12 4 42)) [(FALengthOf (mkSpan (mkPtok 7 "@lengthOf(" 10 0 27) (mkPtok 6 ")" 10 21 29)) (mkLengthOf (mkSpan (mkPtok 7 "@lengthOf(" 10 0 27) (mkPtok 6 ")" 10 21 29)) (mkPtok 7 "@lengthOf(" 10 0 27) (mkPtok 42 "MetaDataX" 10 11 28) (mkPtok 6 ")" 10 21 29))); (FACalculatedFrom (mkSpan (mkPtok 5 "@calculatedFrom(" 10 24 30) (mkPtok 6 ")" 10 48 32)) (mkCalculatedFrom (mkSpan (mkPtok 5 "@calculatedFrom(" 10 24 30) (mkPtok 6 ")" 10 48 32)) (mkPtok 5 "@calculatedFrom(" 10 24 30) (mkPtok 31 """CRC32""" 10 41 31) (mkPtok 6 ")" 10 48 32))); (FAPadding (mkSpan (mkPtok 32 "@rightPad" 10 50 33) (mkPtok 6 ")" 10 69 36)) (mkPaddingAttr (mkSpan (mkPtok 32 "@rightPad" 10 50 33) (mkPtok 6 ")" 10 69 36)) (mkPtok 32 "@rightPad" 10 50 33) (mkPtok 8 "(" 10 59 34) (Some (mkPtok 33 "'\x00'" 10 61 35)) (mkPtok 6 ")" 10 69 36)))] (MetaField (mkSpan (mkPtok 14 "zchar[" 10 71 37) (mkPtok 40 "," 12 4 42)) None (mkMetaDecl (mkSpan (mkPtok 14 "zchar[" 10 71 37) (mkPtok 40 "," 12 4 42)) (TyFixed (mkSpan (mkPtok 14 "zchar[" 10 71 37) (mkPtok 13 "]" 11 0 39)) (mkFixedString (mkSpan (mkPtok 14 "zchar[" 10 71 37) (mkPtok 13 "]" 11 0 39)) (mkPtok 14 "zchar[" 10 71 37) (mkPtok 30 "1" 10 78 38) (mkPtok 13 "]" 11 0 39))) (mkPtok 42 "msg_type" 11 1 40) (Some (mkPtok 43 "`say ""hi""`" 11 9 41)) (mkPtok 40 "," 12 4 42))))] (mkPtok 3 "}" 12 5 43)))])).
Eval vm_compute in ("<<<M850>>>" ++ check (runes_of_ascii "// a // b
MetaData // " ++ [27880; 37322]%N ++ runes_of_ascii "
len  { char[ 65535
]
    options1, } root
packet f32a { @leftPad	(
//	t
// trailing space 
)char[
255 ] u128 //	t
, zchar[ 42 ] tag
    @lengthOf( T )
`a\`
, int16 Logon
`{ , }` ,
    int16
rootA	,
@tag(	00)
char[ 00 ]	packetx @lengthOf( f32a
    )
    // trailing space 
    `{ , }`
    , u8 Logon `it's`
    ,
    // a // b
    char[]
x_y_z @lengthOf(
    len
    ) ,
    @lengthOf( Pad )
    // " ++ [128512]%N ++ runes_of_ascii " emoji
    char[] packetx,
    }
    // " ++ [128512]%N ++ runes_of_ascii " emoji
    MetaData repeatCount
    // a // b
    { zchar[ 1
    ]
stringy, Packet rootA
// packet A { u8 x, }
//	t
,
A
Z9_
// a // b
// 50% %s
,
string	u128 ,// a // b
}

")).
Eval vm_compute in ("<<<M882>>>" ++ check (runes_of_ascii "
options {uint8x = false} root
packet uint8x { Logon BodyLength , @leftPad (	)
    float64 msg_type
    , repeat string
    Z9_ ,}
packet
len	{
@tag( 1 ) @leftPad
    //
    ( '\x00'
)  @tag( 255
    ) rootA chars // `tick` ""quote"" 'q'
`` , }
")).
Eval vm_compute in ("<<<M914>>>" ++ check (runes_of_ascii "  packet matchKey {	string leftPad,	options1 A
    ,@calculatedFrom( """" //	t
)
    float { crc `{ , }`,
    len uint8x
,
}
,
    }
")).
Eval vm_compute in ("<<<M946>>>" ++ check (runes_of_ascii "packet chars	{}
    packet leftPad {
    // `tick` ""quote"" 'q'
    @tag(3 )
    // packet A { u8 x, }
    As @calculatedFrom( ""abc"" ) /// triple
, //x
repeat//
string
rootA // a // b
,
repeat	char[] falsey
    // c
    `{ , }`
, char[]
zchar @calculatedFrom(
    ""\" ++ [233]%N ++ runes_of_ascii """
    )
``
    ,  } MetaData lengthOf{char[
255  ] MetaDataX
`{ , }` ,
    // a // b
    } packet charz  { // 50% %s
i64
    charz , }
")).
Eval vm_compute in ("<<<M978>>>" ++ check (runes_of_ascii "
options { }")).
Eval vm_compute in ("<<<M1010>>>" ++ check (runes_of_ascii "// c

")).
Eval vm_compute in ("<<<M1042>>>" ++ check (runes_of_ascii "packet zchar
    {	i32 lengthOf
// trailing space 
// 50% %s
@calculatedFrom(  ""{,}""  )`100% of %d` , @tag( 4294967296 )
@rightPad( '0' ) match
leftPad as packetx { [
    ""`tick`"" ] :BodyLength
,[
00 ,3,""it's"" ] :
a1
    , 007 :
f32a , """ ++ [28040; 24687]%N ++ runes_of_ascii """// 50% %s
: // " ++ [27880; 37322]%N ++ runes_of_ascii "
body ,1 ://	t
u128 ,},
@calculatedFrom(""CRC32"")
f32a @lengthOf(	charz )
    `say ""hi""`	,
}
")).
Eval vm_compute in ("<<<T1042>>>" ++ terms [mkTok 35 "packet" 1 0 false; mkTok 42 "zchar" 1 7 false; mkTok 2 "{" 2 4 false; mkTok 26 "i32" 2 6 false; mkTok 42 "lengthOf" 2 10 false; mkTok 44 "// trailing space " 3 0 true; mkTok 44 "// 50% %s" 4 0 true; mkTok 5 "@calculatedFrom(" 5 0 false; mkTok 31 """{,}""" 5 18 false; mkTok 6 ")" 5 25 false; mkTok 43 "`100% of %d`" 5 26 false; mkTok 40 "," 5 39 false; mkTok 9 "@tag(" 5 41 false; mkTok 30 "4294967296" 5 47 false; mkTok 6 ")" 5 58 false; mkTok 32 "@rightPad" 6 0 false; mkTok 8 "(" 6 9 false; mkTok 33 "'0'" 6 11 false; mkTok 6 ")" 6 15 false; mkTok 38 "match" 6 17 false; mkTok 42 "leftPad" 7 0 false; mkTok 17 "as" 7 8 false; mkTok 42 "packetx" 7 11 false; mkTok 2 "{" 7 19 false; mkTok 18 "[" 7 21 false; mkTok 31 """`tick`""" 8 4 false; mkTok 13 "]" 8 13 false; mkTok 39 ":" 8 15 false; mkTok 42 "BodyLength" 8 16 false; mkTok 40 "," 9 0 false; mkTok 18 "[" 9 1 false; mkTok 30 "00" 10 0 false; mkTok 40 "," 10 3 false; mkTok 30 "3" 10 4 false; mkTok 40 "," 10 5 false; mkTok 31 """it's""" 10 6 false; mkTok 13 "]" 10 13 false; mkTok 39 ":" 10 15 false; mkTok 42 "a1" 11 0 false; mkTok 40 "," 12 4 false; mkTok 30 "007" 12 6 false; mkTok 39 ":" 12 10 false; mkTok 42 "f32a" 13 0 false; mkTok 40 "," 13 5 false; mkTok 31 (string_of_bytes [34; 230; 182; 136; 230; 129; 175; 34]%N) 13 7 false; mkTok 44 "// 50% %s" 13 11 true; mkTok 39 ":" 14 0 false; mkTok 44 (string_of_bytes [47; 47; 32; 230; 179; 168; 233; 135; 138]%N) 14 2 true; mkTok 42 "body" 15 0 false; mkTok 40 "," 15 5 false; mkTok 30 "1" 15 6 false; mkTok 39 ":" 15 8 false; mkTok 44 (string_of_bytes [47; 47; 9; 116]%N) 15 9 true; mkTok 42 "u128" 16 0 false; mkTok 40 "," 16 5 false; mkTok 3 "}" 16 6 false; mkTok 40 "," 16 7 false; mkTok 5 "@calculatedFrom(" 17 0 false; mkTok 31 """CRC32""" 17 16 false; mkTok 6 ")" 17 23 false; mkTok 42 "f32a" 18 0 false; mkTok 7 "@lengthOf(" 18 5 false; mkTok 42 "charz" 18 16 false; mkTok 6 ")" 18 22 false; mkTok 43 "`say ""hi""`" 19 4 false; mkTok 40 "," 19 15 false; mkTok 3 "}" 20 0 false; mkTok 0 "<EOF>" 21 0 false] (mkPacket (mkPtok 35 "packet" 1 0 0) (Some (mkPtok 3 "}" 20 0 66)) [(DPacket (mkPacketDef (mkSpan (mkPtok 35 "packet" 1 0 0) (mkPtok 3 "}" 20 0 66)) None (mkPtok 35 "packet" 1 0 0) (mkPtok 42 "zchar" 1 7 1) (mkPtok 2 "{" 2 4 2) [(mkFieldWithAttr (mkSpan (mkPtok 26 "i32" 2 6 3) (mkPtok 40 "," 5 39 11)) [] (CheckSumField (mkSpan (mkPtok 26 "i32" 2 6 3) (mkPtok 40 "," 5 39 11)) (mkChecksumFieldDecl (mkSpan (mkPtok 26 "i32" 2 6 3) (mkPtok 40 "," 5 39 11)) (Some (TyBasic (mkSpan (mkPtok 26 "i32" 2 6 3) (mkPtok 26 "i32" 2 6 3)) (mkBasicType (mkSpan (mkPtok 26 "i32" 2 6 3) (mkPtok 26 "i32" 2 6 3)) (mkPtok 26 "i32" 2 6 3)))) (mkPtok 42 "lengthOf" 2 10 4) (mkCalculatedFrom (mkSpan (mkPtok 5 "@calculatedFrom(" 5 0 7) (mkPtok 6 ")" 5 25 9)) (mkPtok 5 "@calculatedFrom(" 5 0 7) (mkPtok 31 """{,}""" 5 18 8) (mkPtok 6 ")" 5 25 9)) (Some (mkPtok 43 "`100% of %d`" 5 26 10)) (mkPtok 40 "," 5 39 11)))); (mkFieldWithAttr (mkSpan (mkPtok 9 "@tag(" 5 41 12) (mkPtok 40 "," 16 7 56)) [(FATag (mkSpan (mkPtok 9 "@tag(" 5 41 12) (mkPtok 6 ")" 5 58 14)) (mkTagAttr (mkSpan (mkPtok 9 "@tag(" 5 41 12) (mkPtok 6 ")" 5 58 14)) (mkPtok 9 "@tag(" 5 41 12) (mkPtok 30 "4294967296" 5 47 13) (mkPtok 6 ")" 5 58 14))); (FAPadding (mkSpan (mkPtok 32 "@rightPad" 6 0 15) (mkPtok 6 ")" 6 15 18)) (mkPaddingAttr (mkSpan (mkPtok 32 "@rightPad" 6 0 15) (mkPtok 6 ")" 6 15 18)) (mkPtok 32 "@rightPad" 6 0 15) (mkPtok 8 "(" 6 9 16) (Some (mkPtok 33 "'0'" 6 11 17)) (mkPtok 6 ")" 6 15 18)))] (MatchField (mkSpan (mkPtok 38 "match" 6 17 19) (mkPtok 40 "," 16 7 56)) (mkMatchFieldDecl (mkSpan (mkPtok 38 "match" 6 17 19) (mkPtok 3 "}" 16 6 55)) (mkPtok 38 "match" 6 17 19) (mkPtok 42 "leftPad" 7 0 20) (mkPtok 17 "as" 7 8 21) (mkPtok 42 "packetx" 7 11 22) (mkPtok 2 "{" 7 19 23) [(mkMatchPair (mkSpan (mkPtok 18 "[" 7 21 24) (mkPtok 40 "," 9 0 29)) (MKList (mkKeyList (mkSpan (mkPtok 18 "[" 7 21 24) (mkPtok 13 "]" 8 13 26)) (mkPtok 18 "[" 7 21 24) (mkPtok 31 """`tick`""" 8 4 25) [] (mkPtok 13 "]" 8 13 26))) (mkPtok 39 ":" 8 15 27) (mkPtok 42 "BodyLength" 8 16 28) (Some (mkPtok 40 "," 9 0 29))); (mkMatchPair (mkSpan (mkPtok 18 "[" 9 1 30) (mkPtok 40 "," 12 4 39)) (MKList (mkKeyList (mkSpan (mkPtok 18 "[" 9 1 30) (mkPtok 13 "]" 10 13 36)) (mkPtok 18 "[" 9 1 30) (mkPtok 30 "00" 10 0 31) [((mkPtok 40 "," 10 3 32), (mkPtok 30 "3" 10 4 33)); ((mkPtok 40 "," 10 5 34), (mkPtok 31 """it's""" 10 6 35))] (mkPtok 13 "]" 10 13 36))) (mkPtok 39 ":" 10 15 37) (mkPtok 42 "a1" 11 0 38) (Some (mkPtok 40 "," 12 4 39))); (mkMatchPair (mkSpan (mkPtok 30 "007" 12 6 40) (mkPtok 40 "," 13 5 43)) (MKDigits (mkPtok 30 "007" 12 6 40)) (mkPtok 39 ":" 12 10 41) (mkPtok 42 "f32a" 13 0 42) (Some (mkPtok 40 "," 13 5 43))); (mkMatchPair (mkSpan (mkPtok 31 (string_of_bytes [34; 230; 182; 136; 230; 129; 175; 34]%N) 13 7 44) (mkPtok 40 "," 15 5 49)) (MKString (mkPtok 31 (string_of_bytes [34; 230; 182; 136; 230; 129; 175; 34]%N) 13 7 44)) (mkPtok 39 ":" 14 0 46) (mkPtok 42 "body" 15 0 48) (Some (mkPtok 40 "," 15 5 49))); (mkMatchPair (mkSpan (mkPtok 30 "1" 15 6 50) (mkPtok 40 "," 16 5 54)) (MKDigits (mkPtok 30 "1" 15 6 50)) (mkPtok 39 ":" 15 8 51) (mkPtok 42 "u128" 16 0 53) (Some (mkPtok 40 "," 16 5 54)))] (mkPtok 3 "}" 16 6 55)) (mkPtok 40 "," 16 7 56))); (mkFieldWithAttr (mkSpan (mkPtok 5 "@calculatedFrom(" 17 0 57) (mkPtok 40 "," 19 15 65)) [(FACalculatedFrom (mkSpan (mkPtok 5 "@calculatedFrom(" 17 0 57) (mkPtok 6 ")" 17 23 59)) (mkCalculatedFrom (mkSpan (mkPtok 5 "@calculatedFrom(" 17 0 57) (mkPtok 6 ")" 17 23 59)) (mkPtok 5 "@calculatedFrom(" 17 0 57) (mkPtok 31 """CRC32""" 17 16 58) (mkPtok 6 ")" 17 23 59)))] (LengthField (mkSpan (mkPtok 42 "f32a" 18 0 60) (mkPtok 40 "," 19 15 65)) (mkLengthFieldDecl (mkSpan (mkPtok 42 "f32a" 18 0 60) (mkPtok 40 "," 19 15 65)) None (mkPtok 42 "f32a" 18 0 60) (mkLengthOf (mkSpan (mkPtok 7 "@lengthOf(" 18 5 61) (mkPtok 6 ")" 18 22 63)) (mkPtok 7 "@lengthOf(" 18 5 61) (mkPtok 42 "charz" 18 16 62) (mkPtok 6 ")" 18 22 63)) (Some (mkPtok 43 "`say ""hi""`" 19 4 64)) (mkPtok 40 "," 19 15 65))))] (mkPtok 3 "}" 20 0 66)))])).
Eval vm_compute in ("<<<M1074>>>" ++ check (runes_of_ascii "packet stringy {
    i16 _x @calculatedFrom( ""it's"" ) `a\`,
@rightPad	( '0' )match	i64_
as body { 007 : i64_ 42
:
trueish 65535
//
// " ++ [128512]%N ++ runes_of_ascii " emoji
: // 50% %s
As ,
0123456789 : metadata
    // packet A { u8 x, }
    ""packet"" //x
: Pad , // a // b
} , repeat zchar	{
repeat zchar[ 4294967296]Foo`line1
line2` ,
// @lengthOf(
/// triple
match metadata
    as trueish // @lengthOf(
{
// 50% %s
// `tick` ""quote"" 'q'
""abc"" :i8i8,[	0  , 7
, 00 ,
0 , // 50% %s
10] :
    Pad// @lengthOf(
, }// packet A { u8 x, }
,  repeat //x
x_y_z Logon `crlf
line`
    // packet A { u8 x, }
    ,
i8i8 `it's`  , } , @rightPad
('\x00'
    )@lengthOf( rootA )
    @lengthOf(
    body // trailing space 
)
    // c
    match
    /// triple
    u
/// triple
// packet A { u8 x, }
as falsey {  65535:
    A	""abc""
: falsey , [  ""a\\""// c
] :
    // " ++ [27880; 37322]%N ++ runes_of_ascii "
    uint8x [ ""x y""  ]
//	t
/// triple
:x_y_z , """ ++ [233]%N ++ runes_of_ascii "t" ++ [233]%N ++ runes_of_ascii """: f32a , 007 : // c
lengthOf} , }
")).
Eval vm_compute in ("<<<M1106>>>" ++ check (runes_of_ascii "packet BodyLength{@calculatedFrom( ""a\""b"")@leftPad
( '\x00' )// " ++ [128512]%N ++ runes_of_ascii " emoji
@lengthOf(
// " ++ [27880; 37322]%N ++ runes_of_ascii "
// @lengthOf(
charz ) string_
lengthOf
, @tag(// trailing space 
4294967296) @tag( 3	)
@lengthOf(
body
) int64 T ``, @tag( 42 ) charz
    {
asx@calculatedFrom( ""\" ++ [233]%N ++ runes_of_ascii """ ),}, @rightPad ( '\x00' ) match BodyLength as msg_type
{ [
1] :int ,""{,}"" :
    int ,
    }
,
    repeat
    i16 roots`line1
line2` ,repeat // trailing space 
o
    {  match A
as T{3:
    a1 , }
, repeat
string Z9_
`" ++ [233]%N ++ runes_of_ascii "`	, f32 calculatedFrom `100% of %d` ,},	repeat zchar[ 255 ] x , // " ++ [128512]%N ++ runes_of_ascii " emoji
float32 T `line1
line2`, @calculatedFrom( """ ++ [28040; 24687]%N ++ runes_of_ascii """ )repeat f32a string_ ,@calculatedFrom( ""1""
    )
@tag( 0) @lengthOf( calculatedFrom ) u16 zchar `a\` ,}")).
Eval vm_compute in ("<<<M1138>>>" ++ check (runes_of_ascii "packet A
{	}
    packet u128
    {match Pad as asx{ 1 : repeatCount , 255
    :As 4294967296
//	t
// " ++ [128512]%N ++ runes_of_ascii " emoji
:  falsey, [// " ++ [27880; 37322]%N ++ runes_of_ascii "
""a	b"" ] :
float , ""1""
    :
    msg_type,	[7,
""a\\"" ,  ""a\\""  ,255 ,	4294967296 ,
    3 ,  007
] :string_ , } ,@tag(0) match lengthOf as // " ++ [128512]%N ++ runes_of_ascii " emoji
options1// c
{
[
""it's"" // packet A { u8 x, }
]// " ++ [27880; 37322]%N ++ runes_of_ascii "
: float
,	7:	Foo  [
""{,}""
] : packetx , },  @tag(
007 )char[ 00
// packet A { u8 x, }
/// triple
] x_y_z @calculatedFrom( ""`tick`"" ), repeat u8 i8i8 `doc` , }")).
Eval vm_compute in ("<<<M1170>>>" ++ check (runes_of_ascii "options {
// packet A { u8 x, }
// a // b
u128
=""1"" uint8x= i64 ; stringy = 00 chars// @lengthOf(
=  char[ 00 ]}
")).
Eval vm_compute in ("<<<M1202>>>" ++ check (runes_of_ascii "packet
Pad
{ repeat  uint32
matchKey , match
zchar	as
body
{""CRC32""
:x
""abc""
    :u8x
// 50% %s
// trailing space 
, }
, @calculatedFrom( ""1"" ) @tag(
    4294967296
)
// packet A { u8 x, }
// " ++ [128512]%N ++ runes_of_ascii " emoji
repeat int32 pack ,
    // 50% %s
    }root packet asx
{ // `tick` ""quote"" 'q'
leftPad { char[
10 ] options1 , char[4294967296] Packet `" ++ [233]%N ++ runes_of_ascii "`
    , match chars
//	t
// packet A { u8 x, }
as
    // `tick` ""quote"" 'q'
    _x	{ ""{,}"":	metadata , }
    ,
//	t
//
repeat	string Z9_
, } , }
")).
Eval vm_compute in ("<<<M1234>>>" ++ check (runes_of_ascii "MetaData uint8x{ MetaDataX
    // " ++ [128512]%N ++ runes_of_ascii " emoji
    _x
, char[ 7 ] pack`it's`
, }")).
Eval vm_compute in ("<<<M1266>>>" ++ check (runes_of_ascii "packet /// triple
calculatedFrom
    { @rightPad ( '0' ) char[  1 ] asx , @lengthOf( zchar //
) int32 float @calculatedFrom( """" ), @rightPad(
'\x00' ) x lengthOf , @tag(
    7 ) // packet A { u8 x, }
msg_type , }
")).
Eval vm_compute in ("<<<T1266>>>" ++ terms [mkTok 35 "packet" 1 0 false; mkTok 44 "/// triple" 1 7 true; mkTok 42 "calculatedFrom" 2 0 false; mkTok 2 "{" 3 4 false; mkTok 32 "@rightPad" 3 6 false; mkTok 8 "(" 3 16 false; mkTok 33 "'0'" 3 18 false; mkTok 6 ")" 3 22 false; mkTok 12 "char[" 3 24 false; mkTok 30 "1" 3 31 false; mkTok 13 "]" 3 33 false; mkTok 42 "asx" 3 35 false; mkTok 40 "," 3 39 false; mkTok 7 "@lengthOf(" 3 41 false; mkTok 42 "zchar" 3 52 false; mkTok 44 "//" 3 58 true; mkTok 6 ")" 4 0 false; mkTok 26 "int32" 4 2 false; mkTok 42 "float" 4 8 false; mkTok 5 "@calculatedFrom(" 4 14 false; mkTok 31 """""" 4 31 false; mkTok 6 ")" 4 34 false; mkTok 40 "," 4 35 false; mkTok 32 "@rightPad" 4 37 false; mkTok 8 "(" 4 46 false; mkTok 33 "'\x00'" 5 0 false; mkTok 6 ")" 5 7 false; mkTok 42 "x" 5 9 false; mkTok 42 "lengthOf" 5 11 false; mkTok 40 "," 5 20 false; mkTok 9 "@tag(" 5 22 false; mkTok 30 "7" 6 4 false; mkTok 6 ")" 6 6 false; mkTok 44 "// packet A { u8 x, }" 6 8 true; mkTok 42 "msg_type" 7 0 false; mkTok 40 "," 7 9 false; mkTok 3 "}" 7 11 false; mkTok 0 "<EOF>" 8 0 false] (mkPacket (mkPtok 35 "packet" 1 0 0) (Some (mkPtok 3 "}" 7 11 36)) [(DPacket (mkPacketDef (mkSpan (mkPtok 35 "packet" 1 0 0) (mkPtok 3 "}" 7 11 36)) None (mkPtok 35 "packet" 1 0 0) (mkPtok 42 "calculatedFrom" 2 0 2) (mkPtok 2 "{" 3 4 3) [(mkFieldWithAttr (mkSpan (mkPtok 32 "@rightPad" 3 6 4) (mkPtok 40 "," 3 39 12)) [(FAPadding (mkSpan (mkPtok 32 "@rightPad" 3 6 4) (mkPtok 6 ")" 3 22 7)) (mkPaddingAttr (mkSpan (mkPtok 32 "@rightPad" 3 6 4) (mkPtok 6 ")" 3 22 7)) (mkPtok 32 "@rightPad" 3 6 4) (mkPtok 8 "(" 3 16 5) (Some (mkPtok 33 "'0'" 3 18 6)) (mkPtok 6 ")" 3 22 7)))] (MetaField (mkSpan (mkPtok 12 "char[" 3 24 8) (mkPtok 40 "," 3 39 12)) None (mkMetaDecl (mkSpan (mkPtok 12 "char[" 3 24 8) (mkPtok 40 "," 3 39 12)) (TyFixed (mkSpan (mkPtok 12 "char[" 3 24 8) (mkPtok 13 "]" 3 33 10)) (mkFixedString (mkSpan (mkPtok 12 "char[" 3 24 8) (mkPtok 13 "]" 3 33 10)) (mkPtok 12 "char[" 3 24 8) (mkPtok 30 "1" 3 31 9) (mkPtok 13 "]" 3 33 10))) (mkPtok 42 "asx" 3 35 11) None (mkPtok 40 "," 3 39 12)))); (mkFieldWithAttr (mkSpan (mkPtok 7 "@lengthOf(" 3 41 13) (mkPtok 40 "," 4 35 22)) [(FALengthOf (mkSpan (mkPtok 7 "@lengthOf(" 3 41 13) (mkPtok 6 ")" 4 0 16)) (mkLengthOf (mkSpan (mkPtok 7 "@lengthOf(" 3 41 13) (mkPtok 6 ")" 4 0 16)) (mkPtok 7 "@lengthOf(" 3 41 13) (mkPtok 42 "zchar" 3 52 14) (mkPtok 6 ")" 4 0 16)))] (CheckSumField (mkSpan (mkPtok 26 "int32" 4 2 17) (mkPtok 40 "," 4 35 22)) (mkChecksumFieldDecl (mkSpan (mkPtok 26 "int32" 4 2 17) (mkPtok 40 "," 4 35 22)) (Some (TyBasic (mkSpan (mkPtok 26 "int32" 4 2 17) (mkPtok 26 "int32" 4 2 17)) (mkBasicType (mkSpan (mkPtok 26 "int32" 4 2 17) (mkPtok 26 "int32" 4 2 17)) (mkPtok 26 "int32" 4 2 17)))) (mkPtok 42 "float" 4 8 18) (mkCalculatedFrom (mkSpan (mkPtok 5 "@calculatedFrom(" 4 14 19) (mkPtok 6 ")" 4 34 21)) (mkPtok 5 "@calculatedFrom(" 4 14 19) (mkPtok 31 """""" 4 31 20) (mkPtok 6 ")" 4 34 21)) None (mkPtok 40 "," 4 35 22)))); (mkFieldWithAttr (mkSpan (mkPtok 32 "@rightPad" 4 37 23) (mkPtok 40 "," 5 20 29)) [(FAPadding (mkSpan (mkPtok 32 "@rightPad" 4 37 23) (mkPtok 6 ")" 5 7 26)) (mkPaddingAttr (mkSpan (mkPtok 32 "@rightPad" 4 37 23) (mkPtok 6 ")" 5 7 26)) (mkPtok 32 "@rightPad" 4 37 23) (mkPtok 8 "(" 4 46 24) (Some (mkPtok 33 "'\x00'" 5 0 25)) (mkPtok 6 ")" 5 7 26)))] (ObjectField (mkSpan (mkPtok 42 "x" 5 9 27) (mkPtok 40 "," 5 20 29)) None (mkPtok 42 "x" 5 9 27) (Some (mkPtok 42 "lengthOf" 5 11 28)) None (mkPtok 40 "," 5 20 29))); (mkFieldWithAttr (mkSpan (mkPtok 9 "@tag(" 5 22 30) (mkPtok 40 "," 7 9 35)) [(FATag (mkSpan (mkPtok 9 "@tag(" 5 22 30) (mkPtok 6 ")" 6 6 32)) (mkTagAttr (mkSpan (mkPtok 9 "@tag(" 5 22 30) (mkPtok 6 ")" 6 6 32)) (mkPtok 9 "@tag(" 5 22 30) (mkPtok 30 "7" 6 4 31) (mkPtok 6 ")" 6 6 32)))] (ObjectField (mkSpan (mkPtok 42 "msg_type" 7 0 34) (mkPtok 40 "," 7 9 35)) None (mkPtok 42 "msg_type" 7 0 34) None None (mkPtok 40 "," 7 9 35)))] (mkPtok 3 "}" 7 11 36)))])).
Eval vm_compute in ("<<<M1298>>>" ++ check (runes_of_ascii "
//x
")).
Eval vm_compute in ("<<<M1330>>>" ++ check (runes_of_ascii "  root
    packet lengthOf { @calculatedFrom(""" ++ [128512]%N ++ runes_of_ascii """
)
//
//x
uint8 tag  `
`
, @calculatedFrom( ""packet""
    )@tag( 0) @rightPad
( '0'	) char[] pack	,
}packet
Header{@rightPad ('0'
) char[] x_y_z , Header // `tick` ""quote"" 'q'
{
repeat zchar[ 00 ] leftPad , repeat f64
float `
` , string msg_type
`doc`
// packet A { u8 x, }
//
, repeat
    char[]
body  , }
, @lengthOf( u8x
    ) repeat char metadata `two words`
    , @calculatedFrom(
""packet""
)trueish
    /// triple
    , } root  packet
As // c
{
    repeat
zchar[ 255 // " ++ [27880; 37322]%N ++ runes_of_ascii "
] len// a // b
`crlf
line` , match
    Foo
    // " ++ [128512]%N ++ runes_of_ascii " emoji
    as repeatCount{
7  : _x ,
    }
    , @lengthOf(
// `tick` ""quote"" 'q'
/// triple
float )@calculatedFrom( """ ++ [233]%N ++ runes_of_ascii "t" ++ [233]%N ++ runes_of_ascii """  ) u
    {
repeat msg_type { repeat
Header
, } , /// triple
zchar[1 ]	Foo
@lengthOf( BodyLength )
`doc` ,} ,match u8x as  charz {
// trailing space 
/// triple
255
: x ,""it's""
    :falsey
//	t
//	t
""x y"":roots 1 // c
: Foo , ""x y"" : zchar , // 50% %s
""" ++ [128512]%N ++ runes_of_ascii """ // `tick` ""quote"" 'q'
:
    BodyLength , } , @rightPad
( )u8x @calculatedFrom(""x y"" )`" ++ [28040; 24687; 31867; 22411]%N ++ runes_of_ascii "` , match packetx as repeatCount {
    ""\n"" :
    float , 1 : chars 007 : /// triple
packetx,
1
: // packet A { u8 x, }
i8i8,
    } ,
    @calculatedFrom(
""""	) match
// `tick` ""quote"" 'q'
// @lengthOf(
lengthOf as rootA { """":
BodyLength, } , @tag(	4294967296) char[]
    falsey	@lengthOf( trueish ) `" ++ [28040; 24687; 31867; 22411]%N ++ runes_of_ascii "` // 50% %s
,
} MetaData  T {
    // a // b
    msg_type // " ++ [27880; 37322]%N ++ runes_of_ascii "
Logon`100% of %d` ,
    o trueish `say ""hi""`,u32// trailing space 
BodyLength
`two words`
    , f32 packetx `a\` , } // " ++ [128512]%N ++ runes_of_ascii " emoji")).
Eval vm_compute in ("<<<M1362>>>" ++ check (runes_of_ascii "MetaData pack // packet A { u8 x, }
{calculatedFrom Pad,
    o
f32a
`doc` , char[ 0123456789]Z9_ `line1
line2` , string string_ `it's`,}
options{ As =
'0'; x_y_z= 255 ; A = ' '
a1 = i16 ; zchar =
    0 } MetaData crc	{ }

")).
Eval vm_compute in ("<<<M1394>>>" ++ check (runes_of_ascii "MetaData
Foo  { string msg_type `" ++ [28040; 24687; 31867; 22411]%N ++ runes_of_ascii "`, }
MetaData u8x {}  packet  Foo
//	t
//
{@lengthOf(
    tag)
u128 msg_type
,
    @calculatedFrom( ""// no comment"" )crc @calculatedFrom(""{,}""
) `doc`
,char[ 007 ]  roots
    , } options {
    calculatedFrom //	t
=float32
pack ='\x00' ; Packet	= ""// no comment""
    }")).
Eval vm_compute in ("<<<M1426>>>" ++ check (runes_of_ascii "packet
    x{
    @calculatedFrom(
    ""\n""
// packet A { u8 x, }
// `tick` ""quote"" 'q'
)  repeat uint64 roots /// triple
, string falsey ,
    @calculatedFrom( ""{,}""
)
    repeatCount `two words`
, match roots as uint8x
{ ""`tick`"" :	chars,  007 : u, },
i32 Pad @lengthOf( string_	)  `it's`
    , //x
repeat u16 T , @rightPad('0'  )
    match u8x
    as matchKey { [""\" ++ [233]%N ++ runes_of_ascii """ ]
:// " ++ [27880; 37322]%N ++ runes_of_ascii "
repeatCount	""a\""b""
    :pack , 0
:
packetx ,  } , @lengthOf( Z9_ )@lengthOf(
f32a )
    string_ { match zchar as repeatCount { 255:crc , 007  : As , [
    0 , ""CRC32"" ]
: i8i8
,// 50% %s
} , leftPad,int {
    repeat float{
leftPad @lengthOf(	Logon ) // " ++ [27880; 37322]%N ++ runes_of_ascii "
,
    roots // packet A { u8 x, }
,//
} , repeat f64 Packet ,}
    , } , // c
}
")).
Eval vm_compute in ("<<<M1458>>>" ++ check (runes_of_ascii "
")).
Eval vm_compute in ("<<<M1490>>>" ++ check (runes_of_ascii "options { options1
= 007 ;
}  packet u { // @lengthOf(
@tag( 0 ) // trailing space 
tag  { int64 _x
    ,
u64 MetaDataX @calculatedFrom(""1"")
    , } , char charz
, rootA `
`
// `tick` ""quote"" 'q'
// @lengthOf(
,match
string_ as//x
charz{ 007
:  x , }  ,repeat
uint8x {
x_y_z {
// c
// c
repeat char[] pack
, char[] x_y_z ,}
,
} , match //	t
u128
as string_ { ""a\\"" : u128
,} ,
@lengthOf(
A ) u8 chars
`100% of %d`, }root  packet x {repeat // trailing space 
uint8x {// packet A { u8 x, }
match
    trueish as
    roots { ""abc""  : options1 ""a\\"": roots
, 00:
Pad
, ""a	b"": Pad , [
    ""packet"" ]
:// packet A { u8 x, }
_x
    ,
    10 : len , }
, }
, // c
zchar[
0123456789 ] zchar
@lengthOf(T
    )`a\`
, @rightPad () @lengthOf( roots ) msg_type , @tag( 3
)Packet @lengthOf(
rootA
    /// triple
    )
    ,	i8i8	`a\` ,@lengthOf(
    rootA
    ) @calculatedFrom( ""x y"" )zchar
{ repeat
msg_type BodyLength ,int32	packetx`" ++ [233]%N ++ runes_of_ascii "`, u16 Foo
    // `tick` ""quote"" 'q'
    `// not a comment` // " ++ [128512]%N ++ runes_of_ascii " emoji
,char uint8x@lengthOf( body
)
,
}
, } packet asx
    // trailing space 
    {
@lengthOf(
// " ++ [27880; 37322]%N ++ runes_of_ascii "
// packet A { u8 x, }
msg_type) char
    u128 , i16	len `tab	here` , // `tick` ""quote"" 'q'
@lengthOf(roots ) match asx as BodyLength	{""packet"" : trueish,""" ++ [128512]%N ++ runes_of_ascii """ :
x , 3
: charz 0123456789 :
Packet
,  007: pack , [
00 ,
    ""a\""b""] :
lengthOf , },
    @lengthOf( BodyLength ) char[
// 50% %s
//x
0 ]u8x
@lengthOf(msg_type  ) , @calculatedFrom( ""it's"" ) options1 @calculatedFrom( ""`tick`"" ) `u8 x,`
,char[ 3 ] repeatCount// `tick` ""quote"" 'q'
`" ++ [28040; 24687; 31867; 22411]%N ++ runes_of_ascii "`
, A@lengthOf( a1 // " ++ [128512]%N ++ runes_of_ascii " emoji
) ,
@calculatedFrom(
""a	b"" ) @lengthOf(
int)leftPad @lengthOf( Z9_ ), @lengthOf( f32a )
roots {
    //	t
    repeat As , } ,@lengthOf(
    pack ) uint8 charz
//x
// `tick` ""quote"" 'q'
, } packet repeatCount{ }
")).
Eval vm_compute in ("<<<T1490>>>" ++ terms [mkTok 1 "options" 1 0 false; mkTok 2 "{" 1 8 false; mkTok 42 "options1" 1 10 false; mkTok 4 "=" 2 0 false; mkTok 30 "007" 2 2 false; mkTok 41 ";" 2 6 false; mkTok 3 "}" 3 0 false; mkTok 35 "packet" 3 3 false; mkTok 42 "u" 3 10 false; mkTok 2 "{" 3 12 false; mkTok 44 "// @lengthOf(" 3 14 true; mkTok 9 "@tag(" 4 0 false; mkTok 30 "0" 4 6 false; mkTok 6 ")" 4 8 false; mkTok 44 "// trailing space " 4 10 true; mkTok 42 "tag" 5 0 false; mkTok 2 "{" 5 5 false; mkTok 27 "int64" 5 7 false; mkTok 42 "_x" 5 13 false; mkTok 40 "," 6 4 false; mkTok 23 "u64" 7 0 false; mkTok 42 "MetaDataX" 7 4 false; mkTok 5 "@calculatedFrom(" 7 14 false; mkTok 31 """1""" 7 30 false; mkTok 6 ")" 7 33 false; mkTok 40 "," 8 4 false; mkTok 3 "}" 8 6 false; mkTok 40 "," 8 8 false; mkTok 19 "char" 8 10 false; mkTok 42 "charz" 8 15 false; mkTok 40 "," 9 0 false; mkTok 42 "rootA" 9 2 false; mkTok 43 (string_of_bytes [96; 10; 96]%N) 9 8 false; mkTok 44 "// `tick` ""quote"" 'q'" 11 0 true; mkTok 44 "// @lengthOf(" 12 0 true; mkTok 40 "," 13 0 false; mkTok 38 "match" 13 1 false; mkTok 42 "string_" 14 0 false; mkTok 17 "as" 14 8 false; mkTok 44 "//x" 14 10 true; mkTok 42 "charz" 15 0 false; mkTok 2 "{" 15 5 false; mkTok 30 "007" 15 7 false; mkTok 39 ":" 16 0 false; mkTok 42 "x" 16 3 false; mkTok 40 "," 16 5 false; mkTok 3 "}" 16 7 false; mkTok 40 "," 16 10 false; mkTok 36 "repeat" 16 11 false; mkTok 42 "uint8x" 17 0 false; mkTok 2 "{" 17 7 false; mkTok 42 "x_y_z" 18 0 false; mkTok 2 "{" 18 6 false; mkTok 44 "// c" 19 0 true; mkTok 44 "// c" 20 0 true; mkTok 36 "repeat" 21 0 false; mkTok 16 "char[]" 21 7 false; mkTok 42 "pack" 21 14 false; mkTok 40 "," 22 0 false; mkTok 16 "char[]" 22 2 false; mkTok 42 "x_y_z" 22 9 false; mkTok 40 "," 22 15 false; mkTok 3 "}" 22 16 false; mkTok 40 "," 23 0 false; mkTok 3 "}" 24 0 false; mkTok 40 "," 24 2 false; mkTok 38 "match" 24 4 false; mkTok 44 (string_of_bytes [47; 47; 9; 116]%N) 24 10 true; mkTok 42 "u128" 25 0 false; mkTok 17 "as" 26 0 false; mkTok 42 "string_" 26 3 false; mkTok 2 "{" 26 11 false; mkTok 31 """a\\""" 26 13 false; mkTok 39 ":" 26 19 false; mkTok 42 "u128" 26 21 false; mkTok 40 "," 27 0 false; mkTok 3 "}" 27 1 false; mkTok 40 "," 27 3 false; mkTok 7 "@lengthOf(" 28 0 false; mkTok 42 "A" 29 0 false; mkTok 6 ")" 29 2 false; mkTok 20 "u8" 29 4 false; mkTok 42 "chars" 29 7 false; mkTok 43 "`100% of %d`" 30 0 false; mkTok 40 "," 30 12 false; mkTok 3 "}" 30 14 false; mkTok 34 "root" 30 15 false; mkTok 35 "packet" 30 21 false; mkTok 42 "x" 30 28 false; mkTok 2 "{" 30 30 false; mkTok 36 "repeat" 30 31 false; mkTok 44 "// trailing space " 30 38 true; mkTok 42 "uint8x" 31 0 false; mkTok 2 "{" 31 7 false; mkTok 44 "// packet A { u8 x, }" 31 8 true; mkTok 38 "match" 32 0 false; mkTok 42 "trueish" 33 4 false; mkTok 17 "as" 33 12 false; mkTok 42 "roots" 34 4 false; mkTok 2 "{" 34 10 false; mkTok 31 """abc""" 34 12 false; mkTok 39 ":" 34 19 false; mkTok 42 "options1" 34 21 false; mkTok 31 """a\\""" 34 30 false; mkTok 39 ":" 34 35 false; mkTok 42 "roots" 34 37 false; mkTok 40 "," 35 0 false; mkTok 30 "00" 35 2 false; mkTok 39 ":" 35 4 false; mkTok 42 "Pad" 36 0 false; mkTok 40 "," 37 0 false; mkTok 31 (string_of_bytes [34; 97; 9; 98; 34]%N) 37 2 false; mkTok 39 ":" 37 7 false; mkTok 42 "Pad" 37 9 false; mkTok 40 "," 37 13 false; mkTok 18 "[" 37 15 false; mkTok 31 """packet""" 38 4 false; mkTok 13 "]" 38 13 false; mkTok 39 ":" 39 0 false; mkTok 44 "// packet A { u8 x, }" 39 1 true; mkTok 42 "_x" 40 0 false; mkTok 40 "," 41 4 false; mkTok 30 "10" 42 4 false; mkTok 39 ":" 42 7 false; mkTok 42 "len" 42 9 false; mkTok 40 "," 42 13 false; mkTok 3 "}" 42 15 false; mkTok 40 "," 43 0 false; mkTok 3 "}" 43 2 false; mkTok 40 "," 44 0 false; mkTok 44 "// c" 44 2 true; mkTok 14 "zchar[" 45 0 false; mkTok 30 "0123456789" 46 0 false; mkTok 13 "]" 46 11 false; mkTok 42 "zchar" 46 13 false; mkTok 7 "@lengthOf(" 47 0 false; mkTok 42 "T" 47 10 false; mkTok 6 ")" 48 4 false; mkTok 43 "`a\`" 48 5 false; mkTok 40 "," 49 0 false; mkTok 32 "@rightPad" 49 2 false; mkTok 8 "(" 49 12 false; mkTok 6 ")" 49 13 false; mkTok 7 "@lengthOf(" 49 15 false; mkTok 42 "roots" 49 26 false; mkTok 6 ")" 49 32 false; mkTok 42 "msg_type" 49 34 false; mkTok 40 "," 49 43 false; mkTok 9 "@tag(" 49 45 false; mkTok 30 "3" 49 51 false; mkTok 6 ")" 50 0 false; mkTok 42 "Packet" 50 1 false; mkTok 7 "@lengthOf(" 50 8 false; mkTok 42 "rootA" 51 0 false; mkTok 44 "/// triple" 52 4 true; mkTok 6 ")" 53 4 false; mkTok 40 "," 54 4 false; mkTok 42 "i8i8" 54 6 false; mkTok 43 "`a\`" 54 11 false; mkTok 40 "," 54 16 false; mkTok 7 "@lengthOf(" 54 17 false; mkTok 42 "rootA" 55 4 false; mkTok 6 ")" 56 4 false; mkTok 5 "@calculatedFrom(" 56 6 false; mkTok 31 """x y""" 56 23 false; mkTok 6 ")" 56 29 false; mkTok 42 "zchar" 56 30 false; mkTok 2 "{" 57 0 false; mkTok 36 "repeat" 57 2 false; mkTok 42 "msg_type" 58 0 false; mkTok 42 "BodyLength" 58 9 false; mkTok 40 "," 58 20 false; mkTok 26 "int32" 58 21 false; mkTok 42 "packetx" 58 27 false; mkTok 43 (string_of_bytes [96; 195; 169; 96]%N) 58 34 false; mkTok 40 "," 58 37 false; mkTok 21 "u16" 58 39 false; mkTok 42 "Foo" 58 43 false; mkTok 44 "// `tick` ""quote"" 'q'" 59 4 true; mkTok 43 "`// not a comment`" 60 4 false; mkTok 44 (string_of_bytes [47; 47; 32; 240; 159; 152; 128; 32; 101; 109; 111; 106; 105]%N) 60 23 true; mkTok 40 "," 61 0 false; mkTok 19 "char" 61 1 false; mkTok 42 "uint8x" 61 6 false; mkTok 7 "@lengthOf(" 61 12 false; mkTok 42 "body" 61 23 false; mkTok 6 ")" 62 0 false; mkTok 40 "," 63 0 false; mkTok 3 "}" 64 0 false; mkTok 40 "," 65 0 false; mkTok 3 "}" 65 2 false; mkTok 35 "packet" 65 4 false; mkTok 42 "asx" 65 11 false; mkTok 44 "// trailing space " 66 4 true; mkTok 2 "{" 67 4 false; mkTok 7 "@lengthOf(" 68 0 false; mkTok 44 (string_of_bytes [47; 47; 32; 230; 179; 168; 233; 135; 138]%N) 69 0 true; mkTok 44 "// packet A { u8 x, }" 70 0 true; mkTok 42 "msg_type" 71 0 false; mkTok 6 ")" 71 8 false; mkTok 19 "char" 71 10 false; mkTok 42 "u128" 72 4 false; mkTok 40 "," 72 9 false; mkTok 25 "i16" 72 11 false; mkTok 42 "len" 72 15 false; mkTok 43 (string_of_bytes [96; 116; 97; 98; 9; 104; 101; 114; 101; 96]%N) 72 19 false; mkTok 40 "," 72 30 false; mkTok 44 "// `tick` ""quote"" 'q'" 72 32 true; mkTok 7 "@lengthOf(" 73 0 false; mkTok 42 "roots" 73 10 false; mkTok 6 ")" 73 16 false; mkTok 38 "match" 73 18 false; mkTok 42 "asx" 73 24 false; mkTok 17 "as" 73 28 false; mkTok 42 "BodyLength" 73 31 false; mkTok 2 "{" 73 42 false; mkTok 31 """packet""" 73 43 false; mkTok 39 ":" 73 52 false; mkTok 42 "trueish" 73 54 false; mkTok 40 "," 73 61 false; mkTok 31 (string_of_bytes [34; 240; 159; 152; 128; 34]%N) 73 62 false; mkTok 39 ":" 73 66 false; mkTok 42 "x" 74 0 false; mkTok 40 "," 74 2 false; mkTok 30 "3" 74 4 false; mkTok 39 ":" 75 0 false; mkTok 42 "charz" 75 2 false; mkTok 30 "0123456789" 75 8 false; mkTok 39 ":" 75 19 false; mkTok 42 "Packet" 76 0 false; mkTok 40 "," 77 0 false; mkTok 30 "007" 77 3 false; mkTok 39 ":" 77 6 false; mkTok 42 "pack" 77 8 false; mkTok 40 "," 77 13 false; mkTok 18 "[" 77 15 false; mkTok 30 "00" 78 0 false; mkTok 40 "," 78 3 false; mkTok 31 """a\""b""" 79 4 false; mkTok 13 "]" 79 10 false; mkTok 39 ":" 79 12 false; mkTok 42 "lengthOf" 80 0 false; mkTok 40 "," 80 9 false; mkTok 3 "}" 80 11 false; mkTok 40 "," 80 12 false; mkTok 7 "@lengthOf(" 81 4 false; mkTok 42 "BodyLength" 81 15 false; mkTok 6 ")" 81 26 false; mkTok 12 "char[" 81 28 false; mkTok 44 "// 50% %s" 82 0 true; mkTok 44 "//x" 83 0 true; mkTok 30 "0" 84 0 false; mkTok 13 "]" 84 2 false; mkTok 42 "u8x" 84 3 false; mkTok 7 "@lengthOf(" 85 0 false; mkTok 42 "msg_type" 85 10 false; mkTok 6 ")" 85 20 false; mkTok 40 "," 85 22 false; mkTok 5 "@calculatedFrom(" 85 24 false; mkTok 31 """it's""" 85 41 false; mkTok 6 ")" 85 48 false; mkTok 42 "options1" 85 50 false; mkTok 5 "@calculatedFrom(" 85 59 false; mkTok 31 """`tick`""" 85 76 false; mkTok 6 ")" 85 85 false; mkTok 43 "`u8 x,`" 85 87 false; mkTok 40 "," 86 0 false; mkTok 12 "char[" 86 1 false; mkTok 30 "3" 86 7 false; mkTok 13 "]" 86 9 false; mkTok 42 "repeatCount" 86 11 false; mkTok 44 "// `tick` ""quote"" 'q'" 86 22 true; mkTok 43 (string_of_bytes [96; 230; 182; 136; 230; 129; 175; 231; 177; 187; 229; 158; 139; 96]%N) 87 0 false; mkTok 40 "," 88 0 false; mkTok 42 "A" 88 2 false; mkTok 7 "@lengthOf(" 88 3 false; mkTok 42 "a1" 88 14 false; mkTok 44 (string_of_bytes [47; 47; 32; 240; 159; 152; 128; 32; 101; 109; 111; 106; 105]%N) 88 17 true; mkTok 6 ")" 89 0 false; mkTok 40 "," 89 2 false; mkTok 5 "@calculatedFrom(" 90 0 false; mkTok 31 (string_of_bytes [34; 97; 9; 98; 34]%N) 91 0 false; mkTok 6 ")" 91 6 false; mkTok 7 "@lengthOf(" 91 8 false; mkTok 42 "int" 92 0 false; mkTok 6 ")" 92 3 false; mkTok 42 "leftPad" 92 4 false; mkTok 7 "@lengthOf(" 92 12 false; mkTok 42 "Z9_" 92 23 false; mkTok 6 ")" 92 27 false; mkTok 40 "," 92 28 false; mkTok 7 "@lengthOf(" 92 30 false; mkTok 42 "f32a" 92 41 false; mkTok 6 ")" 92 46 false; mkTok 42 "roots" 93 0 false; mkTok 2 "{" 93 6 false; mkTok 44 (string_of_bytes [47; 47; 9; 116]%N) 94 4 true; mkTok 36 "repeat" 95 4 false; mkTok 42 "As" 95 11 false; mkTok 40 "," 95 14 false; mkTok 3 "}" 95 16 false; mkTok 40 "," 95 18 false; mkTok 7 "@lengthOf(" 95 19 false; mkTok 42 "pack" 96 4 false; mkTok 6 ")" 96 9 false; mkTok 20 "uint8" 96 11 false; mkTok 42 "charz" 96 17 false; mkTok 44 "//x" 97 0 true; mkTok 44 "// `tick` ""quote"" 'q'" 98 0 true; mkTok 40 "," 99 0 false; mkTok 3 "}" 99 2 false; mkTok 35 "packet" 99 4 false; mkTok 42 "repeatCount" 99 11 false; mkTok 2 "{" 99 22 false; mkTok 3 "}" 99 24 false; mkTok 0 "<EOF>" 100 0 false] (mkPacket (mkPtok 1 "options" 1 0 0) (Some (mkPtok 3 "}" 99 24 314)) [(DOption (mkOptionDef (mkSpan (mkPtok 1 "options" 1 0 0) (mkPtok 3 "}" 3 0 6)) (mkPtok 1 "options" 1 0 0) (mkPtok 2 "{" 1 8 1) [(mkOptionDecl (mkSpan (mkPtok 42 "options1" 1 10 2) (mkPtok 41 ";" 2 6 5)) (mkPtok 42 "options1" 1 10 2) (mkPtok 4 "=" 2 0 3) (VDigits (mkSpan (mkPtok 30 "007" 2 2 4) (mkPtok 30 "007" 2 2 4)) (mkPtok 30 "007" 2 2 4)) (Some (mkPtok 41 ";" 2 6 5)))] (mkPtok 3 "}" 3 0 6))); (DPacket (mkPacketDef (mkSpan (mkPtok 35 "packet" 3 3 7) (mkPtok 3 "}" 30 14 85)) None (mkPtok 35 "packet" 3 3 7) (mkPtok 42 "u" 3 10 8) (mkPtok 2 "{" 3 12 9) [(mkFieldWithAttr (mkSpan (mkPtok 9 "@tag(" 4 0 11) (mkPtok 40 "," 8 8 27)) [(FATag (mkSpan (mkPtok 9 "@tag(" 4 0 11) (mkPtok 6 ")" 4 8 13)) (mkTagAttr (mkSpan (mkPtok 9 "@tag(" 4 0 11) (mkPtok 6 ")" 4 8 13)) (mkPtok 9 "@tag(" 4 0 11) (mkPtok 30 "0" 4 6 12) (mkPtok 6 ")" 4 8 13)))] (InerObjectField (mkSpan (mkPtok 42 "tag" 5 0 15) (mkPtok 40 "," 8 8 27)) None (InerObjectDecl (mkSpan (mkPtok 42 "tag" 5 0 15) (mkPtok 3 "}" 8 6 26)) (mkPtok 42 "tag" 5 0 15) (mkPtok 2 "{" 5 5 16) [(MetaField (mkSpan (mkPtok 27 "int64" 5 7 17) (mkPtok 40 "," 6 4 19)) None (mkMetaDecl (mkSpan (mkPtok 27 "int64" 5 7 17) (mkPtok 40 "," 6 4 19)) (TyBasic (mkSpan (mkPtok 27 "int64" 5 7 17) (mkPtok 27 "int64" 5 7 17)) (mkBasicType (mkSpan (mkPtok 27 "int64" 5 7 17) (mkPtok 27 "int64" 5 7 17)) (mkPtok 27 "int64" 5 7 17))) (mkPtok 42 "_x" 5 13 18) None (mkPtok 40 "," 6 4 19))); (CheckSumField (mkSpan (mkPtok 23 "u64" 7 0 20) (mkPtok 40 "," 8 4 25)) (mkChecksumFieldDecl (mkSpan (mkPtok 23 "u64" 7 0 20) (mkPtok 40 "," 8 4 25)) (Some (TyBasic (mkSpan (mkPtok 23 "u64" 7 0 20) (mkPtok 23 "u64" 7 0 20)) (mkBasicType (mkSpan (mkPtok 23 "u64" 7 0 20) (mkPtok 23 "u64" 7 0 20)) (mkPtok 23 "u64" 7 0 20)))) (mkPtok 42 "MetaDataX" 7 4 21) (mkCalculatedFrom (mkSpan (mkPtok 5 "@calculatedFrom(" 7 14 22) (mkPtok 6 ")" 7 33 24)) (mkPtok 5 "@calculatedFrom(" 7 14 22) (mkPtok 31 """1""" 7 30 23) (mkPtok 6 ")" 7 33 24)) None (mkPtok 40 "," 8 4 25)))] (mkPtok 3 "}" 8 6 26)) (mkPtok 40 "," 8 8 27))); (mkFieldWithAttr (mkSpan (mkPtok 19 "char" 8 10 28) (mkPtok 40 "," 9 0 30)) [] (MetaField (mkSpan (mkPtok 19 "char" 8 10 28) (mkPtok 40 "," 9 0 30)) None (mkMetaDecl (mkSpan (mkPtok 19 "char" 8 10 28) (mkPtok 40 "," 9 0 30)) (TyBasic (mkSpan (mkPtok 19 "char" 8 10 28) (mkPtok 19 "char" 8 10 28)) (mkBasicType (mkSpan (mkPtok 19 "char" 8 10 28) (mkPtok 19 "char" 8 10 28)) (mkPtok 19 "char" 8 10 28))) (mkPtok 42 "charz" 8 15 29) None (mkPtok 40 "," 9 0 30)))); (mkFieldWithAttr (mkSpan (mkPtok 42 "rootA" 9 2 31) (mkPtok 40 "," 13 0 35)) [] (ObjectField (mkSpan (mkPtok 42 "rootA" 9 2 31) (mkPtok 40 "," 13 0 35)) None (mkPtok 42 "rootA" 9 2 31) None (Some (mkPtok 43 (string_of_bytes [96; 10; 96]%N) 9 8 32)) (mkPtok 40 "," 13 0 35))); (mkFieldWithAttr (mkSpan (mkPtok 38 "match" 13 1 36) (mkPtok 40 "," 16 10 47)) [] (MatchField (mkSpan (mkPtok 38 "match" 13 1 36) (mkPtok 40 "," 16 10 47)) (mkMatchFieldDecl (mkSpan (mkPtok 38 "match" 13 1 36) (mkPtok 3 "}" 16 7 46)) (mkPtok 38 "match" 13 1 36) (mkPtok 42 "string_" 14 0 37) (mkPtok 17 "as" 14 8 38) (mkPtok 42 "charz" 15 0 40) (mkPtok 2 "{" 15 5 41) [(mkMatchPair (mkSpan (mkPtok 30 "007" 15 7 42) (mkPtok 40 "," 16 5 45)) (MKDigits (mkPtok 30 "007" 15 7 42)) (mkPtok 39 ":" 16 0 43) (mkPtok 42 "x" 16 3 44) (Some (mkPtok 40 "," 16 5 45)))] (mkPtok 3 "}" 16 7 46)) (mkPtok 40 "," 16 10 47))); (mkFieldWithAttr (mkSpan (mkPtok 36 "repeat" 16 11 48) (mkPtok 40 "," 24 2 65)) [] (InerObjectField (mkSpan (mkPtok 36 "repeat" 16 11 48) (mkPtok 40 "," 24 2 65)) (Some (mkPtok 36 "repeat" 16 11 48)) (InerObjectDecl (mkSpan (mkPtok 42 "uint8x" 17 0 49) (mkPtok 3 "}" 24 0 64)) (mkPtok 42 "uint8x" 17 0 49) (mkPtok 2 "{" 17 7 50) [(InerObjectField (mkSpan (mkPtok 42 "x_y_z" 18 0 51) (mkPtok 40 "," 23 0 63)) None (InerObjectDecl (mkSpan (mkPtok 42 "x_y_z" 18 0 51) (mkPtok 3 "}" 22 16 62)) (mkPtok 42 "x_y_z" 18 0 51) (mkPtok 2 "{" 18 6 52) [(MetaField (mkSpan (mkPtok 36 "repeat" 21 0 55) (mkPtok 40 "," 22 0 58)) (Some (mkPtok 36 "repeat" 21 0 55)) (mkMetaDecl (mkSpan (mkPtok 16 "char[]" 21 7 56) (mkPtok 40 "," 22 0 58)) (TyDynamic (mkSpan (mkPtok 16 "char[]" 21 7 56) (mkPtok 16 "char[]" 21 7 56)) (mkDynamicString (mkSpan (mkPtok 16 "char[]" 21 7 56) (mkPtok 16 "char[]" 21 7 56)) (mkPtok 16 "char[]" 21 7 56))) (mkPtok 42 "pack" 21 14 57) None (mkPtok 40 "," 22 0 58))); (MetaField (mkSpan (mkPtok 16 "char[]" 22 2 59) (mkPtok 40 "," 22 15 61)) None (mkMetaDecl (mkSpan (mkPtok 16 "char[]" 22 2 59) (mkPtok 40 "," 22 15 61)) (TyDynamic (mkSpan (mkPtok 16 "char[]" 22 2 59) (mkPtok 16 "char[]" 22 2 59)) (mkDynamicString (mkSpan (mkPtok 16 "char[]" 22 2 59) (mkPtok 16 "char[]" 22 2 59)) (mkPtok 16 "char[]" 22 2 59))) (mkPtok 42 "x_y_z" 22 9 60) None (mkPtok 40 "," 22 15 61)))] (mkPtok 3 "}" 22 16 62)) (mkPtok 40 "," 23 0 63))] (mkPtok 3 "}" 24 0 64)) (mkPtok 40 "," 24 2 65))); (mkFieldWithAttr (mkSpan (mkPtok 38 "match" 24 4 66) (mkPtok 40 "," 27 3 77)) [] (MatchField (mkSpan (mkPtok 38 "match" 24 4 66) (mkPtok 40 "," 27 3 77)) (mkMatchFieldDecl (mkSpan (mkPtok 38 "match" 24 4 66) (mkPtok 3 "}" 27 1 76)) (mkPtok 38 "match" 24 4 66) (mkPtok 42 "u128" 25 0 68) (mkPtok 17 "as" 26 0 69) (mkPtok 42 "string_" 26 3 70) (mkPtok 2 "{" 26 11 71) [(mkMatchPair (mkSpan (mkPtok 31 """a\\""" 26 13 72) (mkPtok 40 "," 27 0 75)) (MKString (mkPtok 31 """a\\""" 26 13 72)) (mkPtok 39 ":" 26 19 73) (mkPtok 42 "u128" 26 21 74) (Some (mkPtok 40 "," 27 0 75)))] (mkPtok 3 "}" 27 1 76)) (mkPtok 40 "," 27 3 77))); (mkFieldWithAttr (mkSpan (mkPtok 7 "@lengthOf(" 28 0 78) (mkPtok 40 "," 30 12 84)) [(FALengthOf (mkSpan (mkPtok 7 "@lengthOf(" 28 0 78) (mkPtok 6 ")" 29 2 80)) (mkLengthOf (mkSpan (mkPtok 7 "@lengthOf(" 28 0 78) (mkPtok 6 ")" 29 2 80)) (mkPtok 7 "@lengthOf(" 28 0 78) (mkPtok 42 "A" 29 0 79) (mkPtok 6 ")" 29 2 80)))] (MetaField (mkSpan (mkPtok 20 "u8" 29 4 81) (mkPtok 40 "," 30 12 84)) None (mkMetaDecl (mkSpan (mkPtok 20 "u8" 29 4 81) (mkPtok 40 "," 30 12 84)) (TyBasic (mkSpan (mkPtok 20 "u8" 29 4 81) (mkPtok 20 "u8" 29 4 81)) (mkBasicType (mkSpan (mkPtok 20 "u8" 29 4 81) (mkPtok 20 "u8" 29 4 81)) (mkPtok 20 "u8" 29 4 81))) (mkPtok 42 "chars" 29 7 82) (Some (mkPtok 43 "`100% of %d`" 30 0 83)) (mkPtok 40 "," 30 12 84))))] (mkPtok 3 "}" 30 14 85))); (DPacket (mkPacketDef (mkSpan (mkPtok 34 "root" 30 15 86) (mkPtok 3 "}" 65 2 190)) (Some (mkPtok 34 "root" 30 15 86)) (mkPtok 35 "packet" 30 21 87) (mkPtok 42 "x" 30 28 88) (mkPtok 2 "{" 30 30 89) [(mkFieldWithAttr (mkSpan (mkPtok 36 "repeat" 30 31 90) (mkPtok 40 "," 44 0 129)) [] (InerObjectField (mkSpan (mkPtok 36 "repeat" 30 31 90) (mkPtok 40 "," 44 0 129)) (Some (mkPtok 36 "repeat" 30 31 90)) (InerObjectDecl (mkSpan (mkPtok 42 "uint8x" 31 0 92) (mkPtok 3 "}" 43 2 128)) (mkPtok 42 "uint8x" 31 0 92) (mkPtok 2 "{" 31 7 93) [(MatchField (mkSpan (mkPtok 38 "match" 32 0 95) (mkPtok 40 "," 43 0 127)) (mkMatchFieldDecl (mkSpan (mkPtok 38 "match" 32 0 95) (mkPtok 3 "}" 42 15 126)) (mkPtok 38 "match" 32 0 95) (mkPtok 42 "trueish" 33 4 96) (mkPtok 17 "as" 33 12 97) (mkPtok 42 "roots" 34 4 98) (mkPtok 2 "{" 34 10 99) [(mkMatchPair (mkSpan (mkPtok 31 """abc""" 34 12 100) (mkPtok 42 "options1" 34 21 102)) (MKString (mkPtok 31 """abc""" 34 12 100)) (mkPtok 39 ":" 34 19 101) (mkPtok 42 "options1" 34 21 102) None); (mkMatchPair (mkSpan (mkPtok 31 """a\\""" 34 30 103) (mkPtok 40 "," 35 0 106)) (MKString (mkPtok 31 """a\\""" 34 30 103)) (mkPtok 39 ":" 34 35 104) (mkPtok 42 "roots" 34 37 105) (Some (mkPtok 40 "," 35 0 106))); (mkMatchPair (mkSpan (mkPtok 30 "00" 35 2 107) (mkPtok 40 "," 37 0 110)) (MKDigits (mkPtok 30 "00" 35 2 107)) (mkPtok 39 ":" 35 4 108) (mkPtok 42 "Pad" 36 0 109) (Some (mkPtok 40 "," 37 0 110))); (mkMatchPair (mkSpan (mkPtok 31 (string_of_bytes [34; 97; 9; 98; 34]%N) 37 2 111) (mkPtok 40 "," 37 13 114)) (MKString (mkPtok 31 (string_of_bytes [34; 97; 9; 98; 34]%N) 37 2 111)) (mkPtok 39 ":" 37 7 112) (mkPtok 42 "Pad" 37 9 113) (Some (mkPtok 40 "," 37 13 114))); (mkMatchPair (mkSpan (mkPtok 18 "[" 37 15 115) (mkPtok 40 "," 41 4 121)) (MKList (mkKeyList (mkSpan (mkPtok 18 "[" 37 15 115) (mkPtok 13 "]" 38 13 117)) (mkPtok 18 "[" 37 15 115) (mkPtok 31 """packet""" 38 4 116) [] (mkPtok 13 "]" 38 13 117))) (mkPtok 39 ":" 39 0 118) (mkPtok 42 "_x" 40 0 120) (Some (mkPtok 40 "," 41 4 121))); (mkMatchPair (mkSpan (mkPtok 30 "10" 42 4 122) (mkPtok 40 "," 42 13 125)) (MKDigits (mkPtok 30 "10" 42 4 122)) (mkPtok 39 ":" 42 7 123) (mkPtok 42 "len" 42 9 124) (Some (mkPtok 40 "," 42 13 125)))] (mkPtok 3 "}" 42 15 126)) (mkPtok 40 "," 43 0 127))] (mkPtok 3 "}" 43 2 128)) (mkPtok 40 "," 44 0 129))); (mkFieldWithAttr (mkSpan (mkPtok 14 "zchar[" 45 0 131) (mkPtok 40 "," 49 0 139)) [] (LengthField (mkSpan (mkPtok 14 "zchar[" 45 0 131) (mkPtok 40 "," 49 0 139)) (mkLengthFieldDecl (mkSpan (mkPtok 14 "zchar[" 45 0 131) (mkPtok 40 "," 49 0 139)) (Some (TyFixed (mkSpan (mkPtok 14 "zchar[" 45 0 131) (mkPtok 13 "]" 46 11 133)) (mkFixedString (mkSpan (mkPtok 14 "zchar[" 45 0 131) (mkPtok 13 "]" 46 11 133)) (mkPtok 14 "zchar[" 45 0 131) (mkPtok 30 "0123456789" 46 0 132) (mkPtok 13 "]" 46 11 133)))) (mkPtok 42 "zchar" 46 13 134) (mkLengthOf (mkSpan (mkPtok 7 "@lengthOf(" 47 0 135) (mkPtok 6 ")" 48 4 137)) (mkPtok 7 "@lengthOf(" 47 0 135) (mkPtok 42 "T" 47 10 136) (mkPtok 6 ")" 48 4 137)) (Some (mkPtok 43 "`a\`" 48 5 138)) (mkPtok 40 "," 49 0 139)))); (mkFieldWithAttr (mkSpan (mkPtok 32 "@rightPad" 49 2 140) (mkPtok 40 "," 49 43 147)) [(FAPadding (mkSpan (mkPtok 32 "@rightPad" 49 2 140) (mkPtok 6 ")" 49 13 142)) (mkPaddingAttr (mkSpan (mkPtok 32 "@rightPad" 49 2 140) (mkPtok 6 ")" 49 13 142)) (mkPtok 32 "@rightPad" 49 2 140) (mkPtok 8 "(" 49 12 141) None (mkPtok 6 ")" 49 13 142))); (FALengthOf (mkSpan (mkPtok 7 "@lengthOf(" 49 15 143) (mkPtok 6 ")" 49 32 145)) (mkLengthOf (mkSpan (mkPtok 7 "@lengthOf(" 49 15 143) (mkPtok 6 ")" 49 32 145)) (mkPtok 7 "@lengthOf(" 49 15 143) (mkPtok 42 "roots" 49 26 144) (mkPtok 6 ")" 49 32 145)))] (ObjectField (mkSpan (mkPtok 42 "msg_type" 49 34 146) (mkPtok 40 "," 49 43 147)) None (mkPtok 42 "msg_type" 49 34 146) None None (mkPtok 40 "," 49 43 147))); (mkFieldWithAttr (mkSpan (mkPtok 9 "@tag(" 49 45 148) (mkPtok 40 "," 54 4 156)) [(FATag (mkSpan (mkPtok 9 "@tag(" 49 45 148) (mkPtok 6 ")" 50 0 150)) (mkTagAttr (mkSpan (mkPtok 9 "@tag(" 49 45 148) (mkPtok 6 ")" 50 0 150)) (mkPtok 9 "@tag(" 49 45 148) (mkPtok 30 "3" 49 51 149) (mkPtok 6 ")" 50 0 150)))] (LengthField (mkSpan (mkPtok 42 "Packet" 50 1 151) (mkPtok 40 "," 54 4 156)) (mkLengthFieldDecl (mkSpan (mkPtok 42 "Packet" 50 1 151) (mkPtok 40 "," 54 4 156)) None (mkPtok 42 "Packet" 50 1 151) (mkLengthOf (mkSpan (mkPtok 7 "@lengthOf(" 50 8 152) (mkPtok 6 ")" 53 4 155)) (mkPtok 7 "@lengthOf(" 50 8 152) (mkPtok 42 "rootA" 51 0 153) (mkPtok 6 ")" 53 4 155)) None (mkPtok 40 "," 54 4 156)))); (mkFieldWithAttr (mkSpan (mkPtok 42 "i8i8" 54 6 157) (mkPtok 40 "," 54 16 159)) [] (ObjectField (mkSpan (mkPtok 42 "i8i8" 54 6 157) (mkPtok 40 "," 54 16 159)) None (mkPtok 42 "i8i8" 54 6 157) None (Some (mkPtok 43 "`a\`" 54 11 158)) (mkPtok 40 "," 54 16 159))); (mkFieldWithAttr (mkSpan (mkPtok 7 "@lengthOf(" 54 17 160) (mkPtok 40 "," 65 0 189)) [(FALengthOf (mkSpan (mkPtok 7 "@lengthOf(" 54 17 160) (mkPtok 6 ")" 56 4 162)) (mkLengthOf (mkSpan (mkPtok 7 "@lengthOf(" 54 17 160) (mkPtok 6 ")" 56 4 162)) (mkPtok 7 "@lengthOf(" 54 17 160) (mkPtok 42 "rootA" 55 4 161) (mkPtok 6 ")" 56 4 162))); (FACalculatedFrom (mkSpan (mkPtok 5 "@calculatedFrom(" 56 6 163) (mkPtok 6 ")" 56 29 165)) (mkCalculatedFrom (mkSpan (mkPtok 5 "@calculatedFrom(" 56 6 163) (mkPtok 6 ")" 56 29 165)) (mkPtok 5 "@calculatedFrom(" 56 6 163) (mkPtok 31 """x y""" 56 23 164) (mkPtok 6 ")" 56 29 165)))] (InerObjectField (mkSpan (mkPtok 42 "zchar" 56 30 166) (mkPtok 40 "," 65 0 189)) None (InerObjectDecl (mkSpan (mkPtok 42 "zchar" 56 30 166) (mkPtok 3 "}" 64 0 188)) (mkPtok 42 "zchar" 56 30 166) (mkPtok 2 "{" 57 0 167) [(ObjectField (mkSpan (mkPtok 36 "repeat" 57 2 168) (mkPtok 40 "," 58 20 171)) (Some (mkPtok 36 "repeat" 57 2 168)) (mkPtok 42 "msg_type" 58 0 169) (Some (mkPtok 42 "BodyLength" 58 9 170)) None (mkPtok 40 "," 58 20 171)); (MetaField (mkSpan (mkPtok 26 "int32" 58 21 172) (mkPtok 40 "," 58 37 175)) None (mkMetaDecl (mkSpan (mkPtok 26 "int32" 58 21 172) (mkPtok 40 "," 58 37 175)) (TyBasic (mkSpan (mkPtok 26 "int32" 58 21 172) (mkPtok 26 "int32" 58 21 172)) (mkBasicType (mkSpan (mkPtok 26 "int32" 58 21 172) (mkPtok 26 "int32" 58 21 172)) (mkPtok 26 "int32" 58 21 172))) (mkPtok 42 "packetx" 58 27 173) (Some (mkPtok 43 (string_of_bytes [96; 195; 169; 96]%N) 58 34 174)) (mkPtok 40 "," 58 37 175))); (MetaField (mkSpan (mkPtok 21 "u16" 58 39 176) (mkPtok 40 "," 61 0 181)) None (mkMetaDecl (mkSpan (mkPtok 21 "u16" 58 39 176) (mkPtok 40 "," 61 0 181)) (TyBasic (mkSpan (mkPtok 21 "u16" 58 39 176) (mkPtok 21 "u16" 58 39 176)) (mkBasicType (mkSpan (mkPtok 21 "u16" 58 39 176) (mkPtok 21 "u16" 58 39 176)) (mkPtok 21 "u16" 58 39 176))) (mkPtok 42 "Foo" 58 43 177) (Some (mkPtok 43 "`// not a comment`" 60 4 179)) (mkPtok 40 "," 61 0 181))); (LengthField (mkSpan (mkPtok 19 "char" 61 1 182) (mkPtok 40 "," 63 0 187)) (mkLengthFieldDecl (mkSpan (mkPtok 19 "char" 61 1 182) (mkPtok 40 "," 63 0 187)) (Some (TyBasic (mkSpan (mkPtok 19 "char" 61 1 182) (mkPtok 19 "char" 61 1 182)) (mkBasicType (mkSpan (mkPtok 19 "char" 61 1 182) (mkPtok 19 "char" 61 1 182)) (mkPtok 19 "char" 61 1 182)))) (mkPtok 42 "uint8x" 61 6 183) (mkLengthOf (mkSpan (mkPtok 7 "@lengthOf(" 61 12 184) (mkPtok 6 ")" 62 0 186)) (mkPtok 7 "@lengthOf(" 61 12 184) (mkPtok 42 "body" 61 23 185) (mkPtok 6 ")" 62 0 186)) None (mkPtok 40 "," 63 0 187)))] (mkPtok 3 "}" 64 0 188)) (mkPtok 40 "," 65 0 189)))] (mkPtok 3 "}" 65 2 190))); (DPacket (mkPacketDef (mkSpan (mkPtok 35 "packet" 65 4 191) (mkPtok 3 "}" 99 2 310)) None (mkPtok 35 "packet" 65 4 191) (mkPtok 42 "asx" 65 11 192) (mkPtok 2 "{" 67 4 194) [(mkFieldWithAttr (mkSpan (mkPtok 7 "@lengthOf(" 68 0 195) (mkPtok 40 "," 72 9 202)) [(FALengthOf (mkSpan (mkPtok 7 "@lengthOf(" 68 0 195) (mkPtok 6 ")" 71 8 199)) (mkLengthOf (mkSpan (mkPtok 7 "@lengthOf(" 68 0 195) (mkPtok 6 ")" 71 8 199)) (mkPtok 7 "@lengthOf(" 68 0 195) (mkPtok 42 "msg_type" 71 0 198) (mkPtok 6 ")" 71 8 199)))] (MetaField (mkSpan (mkPtok 19 "char" 71 10 200) (mkPtok 40 "," 72 9 202)) None (mkMetaDecl (mkSpan (mkPtok 19 "char" 71 10 200) (mkPtok 40 "," 72 9 202)) (TyBasic (mkSpan (mkPtok 19 "char" 71 10 200) (mkPtok 19 "char" 71 10 200)) (mkBasicType (mkSpan (mkPtok 19 "char" 71 10 200) (mkPtok 19 "char" 71 10 200)) (mkPtok 19 "char" 71 10 200))) (mkPtok 42 "u128" 72 4 201) None (mkPtok 40 "," 72 9 202)))); (mkFieldWithAttr (mkSpan (mkPtok 25 "i16" 72 11 203) (mkPtok 40 "," 72 30 206)) [] (MetaField (mkSpan (mkPtok 25 "i16" 72 11 203) (mkPtok 40 "," 72 30 206)) None (mkMetaDecl (mkSpan (mkPtok 25 "i16" 72 11 203) (mkPtok 40 "," 72 30 206)) (TyBasic (mkSpan (mkPtok 25 "i16" 72 11 203) (mkPtok 25 "i16" 72 11 203)) (mkBasicType (mkSpan (mkPtok 25 "i16" 72 11 203) (mkPtok 25 "i16" 72 11 203)) (mkPtok 25 "i16" 72 11 203))) (mkPtok 42 "len" 72 15 204) (Some (mkPtok 43 (string_of_bytes [96; 116; 97; 98; 9; 104; 101; 114; 101; 96]%N) 72 19 205)) (mkPtok 40 "," 72 30 206)))); (mkFieldWithAttr (mkSpan (mkPtok 7 "@lengthOf(" 73 0 208) (mkPtok 40 "," 80 12 244)) [(FALengthOf (mkSpan (mkPtok 7 "@lengthOf(" 73 0 208) (mkPtok 6 ")" 73 16 210)) (mkLengthOf (mkSpan (mkPtok 7 "@lengthOf(" 73 0 208) (mkPtok 6 ")" 73 16 210)) (mkPtok 7 "@lengthOf(" 73 0 208) (mkPtok 42 "roots" 73 10 209) (mkPtok 6 ")" 73 16 210)))] (MatchField (mkSpan (mkPtok 38 "match" 73 18 211) (mkPtok 40 "," 80 12 244)) (mkMatchFieldDecl (mkSpan (mkPtok 38 "match" 73 18 211) (mkPtok 3 "}" 80 11 243)) (mkPtok 38 "match" 73 18 211) (mkPtok 42 "asx" 73 24 212) (mkPtok 17 "as" 73 28 213) (mkPtok 42 "BodyLength" 73 31 214) (mkPtok 2 "{" 73 42 215) [(mkMatchPair (mkSpan (mkPtok 31 """packet""" 73 43 216) (mkPtok 40 "," 73 61 219)) (MKString (mkPtok 31 """packet""" 73 43 216)) (mkPtok 39 ":" 73 52 217) (mkPtok 42 "trueish" 73 54 218) (Some (mkPtok 40 "," 73 61 219))); (mkMatchPair (mkSpan (mkPtok 31 (string_of_bytes [34; 240; 159; 152; 128; 34]%N) 73 62 220) (mkPtok 40 "," 74 2 223)) (MKString (mkPtok 31 (string_of_bytes [34; 240; 159; 152; 128; 34]%N) 73 62 220)) (mkPtok 39 ":" 73 66 221) (mkPtok 42 "x" 74 0 222) (Some (mkPtok 40 "," 74 2 223))); (mkMatchPair (mkSpan (mkPtok 30 "3" 74 4 224) (mkPtok 42 "charz" 75 2 226)) (MKDigits (mkPtok 30 "3" 74 4 224)) (mkPtok 39 ":" 75 0 225) (mkPtok 42 "charz" 75 2 226) None); (mkMatchPair (mkSpan (mkPtok 30 "0123456789" 75 8 227) (mkPtok 40 "," 77 0 230)) (MKDigits (mkPtok 30 "0123456789" 75 8 227)) (mkPtok 39 ":" 75 19 228) (mkPtok 42 "Packet" 76 0 229) (Some (mkPtok 40 "," 77 0 230))); (mkMatchPair (mkSpan (mkPtok 30 "007" 77 3 231) (mkPtok 40 "," 77 13 234)) (MKDigits (mkPtok 30 "007" 77 3 231)) (mkPtok 39 ":" 77 6 232) (mkPtok 42 "pack" 77 8 233) (Some (mkPtok 40 "," 77 13 234))); (mkMatchPair (mkSpan (mkPtok 18 "[" 77 15 235) (mkPtok 40 "," 80 9 242)) (MKList (mkKeyList (mkSpan (mkPtok 18 "[" 77 15 235) (mkPtok 13 "]" 79 10 239)) (mkPtok 18 "[" 77 15 235) (mkPtok 30 "00" 78 0 236) [((mkPtok 40 "," 78 3 237), (mkPtok 31 """a\""b""" 79 4 238))] (mkPtok 13 "]" 79 10 239))) (mkPtok 39 ":" 79 12 240) (mkPtok 42 "lengthOf" 80 0 241) (Some (mkPtok 40 "," 80 9 242)))] (mkPtok 3 "}" 80 11 243)) (mkPtok 40 "," 80 12 244))); (mkFieldWithAttr (mkSpan (mkPtok 7 "@lengthOf(" 81 4 245) (mkPtok 40 "," 85 22 257)) [(FALengthOf (mkSpan (mkPtok 7 "@lengthOf(" 81 4 245) (mkPtok 6 ")" 81 26 247)) (mkLengthOf (mkSpan (mkPtok 7 "@lengthOf(" 81 4 245) (mkPtok 6 ")" 81 26 247)) (mkPtok 7 "@lengthOf(" 81 4 245) (mkPtok 42 "BodyLength" 81 15 246) (mkPtok 6 ")" 81 26 247)))] (LengthField (mkSpan (mkPtok 12 "char[" 81 28 248) (mkPtok 40 "," 85 22 257)) (mkLengthFieldDecl (mkSpan (mkPtok 12 "char[" 81 28 248) (mkPtok 40 "," 85 22 257)) (Some (TyFixed (mkSpan (mkPtok 12 "char[" 81 28 248) (mkPtok 13 "]" 84 2 252)) (mkFixedString (mkSpan (mkPtok 12 "char[" 81 28 248) (mkPtok 13 "]" 84 2 252)) (mkPtok 12 "char[" 81 28 248) (mkPtok 30 "0" 84 0 251) (mkPtok 13 "]" 84 2 252)))) (mkPtok 42 "u8x" 84 3 253) (mkLengthOf (mkSpan (mkPtok 7 "@lengthOf(" 85 0 254) (mkPtok 6 ")" 85 20 256)) (mkPtok 7 "@lengthOf(" 85 0 254) (mkPtok 42 "msg_type" 85 10 255) (mkPtok 6 ")" 85 20 256)) None (mkPtok 40 "," 85 22 257)))); (mkFieldWithAttr (mkSpan (mkPtok 5 "@calculatedFrom(" 85 24 258) (mkPtok 40 "," 86 0 266)) [(FACalculatedFrom (mkSpan (mkPtok 5 "@calculatedFrom(" 85 24 258) (mkPtok 6 ")" 85 48 260)) (mkCalculatedFrom (mkSpan (mkPtok 5 "@calculatedFrom(" 85 24 258) (mkPtok 6 ")" 85 48 260)) (mkPtok 5 "@calculatedFrom(" 85 24 258) (mkPtok 31 """it's""" 85 41 259) (mkPtok 6 ")" 85 48 260)))] (CheckSumField (mkSpan (mkPtok 42 "options1" 85 50 261) (mkPtok 40 "," 86 0 266)) (mkChecksumFieldDecl (mkSpan (mkPtok 42 "options1" 85 50 261) (mkPtok 40 "," 86 0 266)) None (mkPtok 42 "options1" 85 50 261) (mkCalculatedFrom (mkSpan (mkPtok 5 "@calculatedFrom(" 85 59 262) (mkPtok 6 ")" 85 85 264)) (mkPtok 5 "@calculatedFrom(" 85 59 262) (mkPtok 31 """`tick`""" 85 76 263) (mkPtok 6 ")" 85 85 264)) (Some (mkPtok 43 "`u8 x,`" 85 87 265)) (mkPtok 40 "," 86 0 266)))); (mkFieldWithAttr (mkSpan (mkPtok 12 "char[" 86 1 267) (mkPtok 40 "," 88 0 273)) [] (MetaField (mkSpan (mkPtok 12 "char[" 86 1 267) (mkPtok 40 "," 88 0 273)) None (mkMetaDecl (mkSpan (mkPtok 12 "char[" 86 1 267) (mkPtok 40 "," 88 0 273)) (TyFixed (mkSpan (mkPtok 12 "char[" 86 1 267) (mkPtok 13 "]" 86 9 269)) (mkFixedString (mkSpan (mkPtok 12 "char[" 86 1 267) (mkPtok 13 "]" 86 9 269)) (mkPtok 12 "char[" 86 1 267) (mkPtok 30 "3" 86 7 268) (mkPtok 13 "]" 86 9 269))) (mkPtok 42 "repeatCount" 86 11 270) (Some (mkPtok 43 (string_of_bytes [96; 230; 182; 136; 230; 129; 175; 231; 177; 187; 229; 158; 139; 96]%N) 87 0 272)) (mkPtok 40 "," 88 0 273)))); (mkFieldWithAttr (mkSpan (mkPtok 42 "A" 88 2 274) (mkPtok 40 "," 89 2 279)) [] (LengthField (mkSpan (mkPtok 42 "A" 88 2 274) (mkPtok 40 "," 89 2 279)) (mkLengthFieldDecl (mkSpan (mkPtok 42 "A" 88 2 274) (mkPtok 40 "," 89 2 279)) None (mkPtok 42 "A" 88 2 274) (mkLengthOf (mkSpan (mkPtok 7 "@lengthOf(" 88 3 275) (mkPtok 6 ")" 89 0 278)) (mkPtok 7 "@lengthOf(" 88 3 275) (mkPtok 42 "a1" 88 14 276) (mkPtok 6 ")" 89 0 278)) None (mkPtok 40 "," 89 2 279)))); (mkFieldWithAttr (mkSpan (mkPtok 5 "@calculatedFrom(" 90 0 280) (mkPtok 40 "," 92 28 290)) [(FACalculatedFrom (mkSpan (mkPtok 5 "@calculatedFrom(" 90 0 280) (mkPtok 6 ")" 91 6 282)) (mkCalculatedFrom (mkSpan (mkPtok 5 "@calculatedFrom(" 90 0 280) (mkPtok 6 ")" 91 6 282)) (mkPtok 5 "@calculatedFrom(" 90 0 280) (mkPtok 31 (string_of_bytes [34; 97; 9; 98; 34]%N) 91 0 281) (mkPtok 6 ")" 91 6 282))); (FALengthOf (mkSpan (mkPtok 7 "@lengthOf(" 91 8 283) (mkPtok 6 ")" 92 3 285)) (mkLengthOf (mkSpan (mkPtok 7 "@lengthOf(" 91 8 283) (mkPtok 6 ")" 92 3 285)) (mkPtok 7 "@lengthOf(" 91 8 283) (mkPtok 42 "int" 92 0 284) (mkPtok 6 ")" 92 3 285)))] (LengthField (mkSpan (mkPtok 42 "leftPad" 92 4 286) (mkPtok 40 "," 92 28 290)) (mkLengthFieldDecl (mkSpan (mkPtok 42 "leftPad" 92 4 286) (mkPtok 40 "," 92 28 290)) None (mkPtok 42 "leftPad" 92 4 286) (mkLengthOf (mkSpan (mkPtok 7 "@lengthOf(" 92 12 287) (mkPtok 6 ")" 92 27 289)) (mkPtok 7 "@lengthOf(" 92 12 287) (mkPtok 42 "Z9_" 92 23 288) (mkPtok 6 ")" 92 27 289)) None (mkPtok 40 "," 92 28 290)))); (mkFieldWithAttr (mkSpan (mkPtok 7 "@lengthOf(" 92 30 291) (mkPtok 40 "," 95 18 301)) [(FALengthOf (mkSpan (mkPtok 7 "@lengthOf(" 92 30 291) (mkPtok 6 ")" 92 46 293)) (mkLengthOf (mkSpan (mkPtok 7 "@lengthOf(" 92 30 291) (mkPtok 6 ")" 92 46 293)) (mkPtok 7 "@lengthOf(" 92 30 291) (mkPtok 42 "f32a" 92 41 292) (mkPtok 6 ")" 92 46 293)))] (InerObjectField (mkSpan (mkPtok 42 "roots" 93 0 294) (mkPtok 40 "," 95 18 301)) None (InerObjectDecl (mkSpan (mkPtok 42 "roots" 93 0 294) (mkPtok 3 "}" 95 16 300)) (mkPtok 42 "roots" 93 0 294) (mkPtok 2 "{" 93 6 295) [(ObjectField (mkSpan (mkPtok 36 "repeat" 95 4 297) (mkPtok 40 "," 95 14 299)) (Some (mkPtok 36 "repeat" 95 4 297)) (mkPtok 42 "As" 95 11 298) None None (mkPtok 40 "," 95 14 299))] (mkPtok 3 "}" 95 16 300)) (mkPtok 40 "," 95 18 301))); (mkFieldWithAttr (mkSpan (mkPtok 7 "@lengthOf(" 95 19 302) (mkPtok 40 "," 99 0 309)) [(FALengthOf (mkSpan (mkPtok 7 "@lengthOf(" 95 19 302) (mkPtok 6 ")" 96 9 304)) (mkLengthOf (mkSpan (mkPtok 7 "@lengthOf(" 95 19 302) (mkPtok 6 ")" 96 9 304)) (mkPtok 7 "@lengthOf(" 95 19 302) (mkPtok 42 "pack" 96 4 303) (mkPtok 6 ")" 96 9 304)))] (MetaField (mkSpan (mkPtok 20 "uint8" 96 11 305) (mkPtok 40 "," 99 0 309)) None (mkMetaDecl (mkSpan (mkPtok 20 "uint8" 96 11 305) (mkPtok 40 "," 99 0 309)) (TyBasic (mkSpan (mkPtok 20 "uint8" 96 11 305) (mkPtok 20 "uint8" 96 11 305)) (mkBasicType (mkSpan (mkPtok 20 "uint8" 96 11 305) (mkPtok 20 "uint8" 96 11 305)) (mkPtok 20 "uint8" 96 11 305))) (mkPtok 42 "charz" 96 17 306) None (mkPtok 40 "," 99 0 309))))] (mkPtok 3 "}" 99 2 310))); (DPacket (mkPacketDef (mkSpan (mkPtok 35 "packet" 99 4 311) (mkPtok 3 "}" 99 24 314)) None (mkPtok 35 "packet" 99 4 311) (mkPtok 42 "repeatCount" 99 11 312) (mkPtok 2 "{" 99 22 313) [] (mkPtok 3 "}" 99 24 314)))])).
Eval vm_compute in ("<<<M1522>>>" ++ check (runes_of_ascii "//	t
 // a // b")).
Eval vm_compute in ("<<<M1554>>>" ++ check (runes_of_ascii "options	{ chars  ='0'
x = true ; tag = ""a	b"" ;	u128
= ' '	; u =
    3	;  } root packet charz {
    @calculatedFrom( """ ++ [233]%N ++ runes_of_ascii "t" ++ [233]%N ++ runes_of_ascii """
) int64
A , // " ++ [27880; 37322]%N ++ runes_of_ascii "
@leftPad (  ' '  ) i64 chars `crlf
line`,Header
zchar `u8 x,`, i8 zchar@lengthOf(
len ) `
`,} packet A{
    @leftPad
(' '
// a // b
// c
)match
    // `tick` ""quote"" 'q'
    zchar as zchar {
""a\""b"" : metadata ,255 : u8x , 0123456789 //	t
:
rootA , 3
    : MetaDataX,	}, // 50% %s
string_ x_y_z `tab	here` ,
    @lengthOf( T/// triple
) int @calculatedFrom(
    ""abc"" )
    `{ , }` , }
")).
Eval vm_compute in ("<<<M1586>>>" ++ check (runes_of_ascii "
")).
Eval vm_compute in ("<<<M1618>>>" ++ check (runes_of_ascii "MetaData pack { u64
stringy `line1
line2` ,	u16
    int
// trailing space 
// 50% %s
`tab	here`, //
float roots
    `" ++ [28040; 24687; 31867; 22411]%N ++ runes_of_ascii "` ,
    char[]
    Logon, } packet	matchKey
/// triple
// `tick` ""quote"" 'q'
{} MetaData
    // packet A { u8 x, }
    A {} //x")).
Eval vm_compute in ("<<<M1650>>>" ++ check (runes_of_ascii "options
{ repeatCount = int8
msg_type
    = true	; } root packet/// triple
options1{@tag(42  ) @calculatedFrom( ""1""
    ) repeat
    string u `u8 x,` // @lengthOf(
, @leftPad
    ( ' ')
    stringy @lengthOf( f32a ) `u8 x,`
, metadata { Logon @lengthOf( stringy ) `` ,
    string Header @calculatedFrom(  ""{,}"" ) , }
    , } root packet
Header { @tag(0123456789
    ) chars ,  }
")).
Eval vm_compute in ("<<<M1682>>>" ++ check (runes_of_ascii "packet leftPad{
@tag(  1 ) repeat f32//	t
tag, @lengthOf(
    u8x)  @calculatedFrom(
""// no comment"" ) match
    calculatedFrom as uint8x	{4294967296
    : // " ++ [27880; 37322]%N ++ runes_of_ascii "
calculatedFrom , // 50% %s
1	: chars,
""a	b"":u
, [ 42
]
    :
    As , ""{,}""
:
u8x , //	t
}
    ,
    matchKey /// triple
crc,// @lengthOf(
@tag(// a // b
42 )f32 lengthOf, @lengthOf(As
) char[] Foo`tab	here` ,
    @calculatedFrom(
    ""CRC32"" ) @calculatedFrom( ""a\\"")@calculatedFrom("""")repeat a1
{
uint64 body@calculatedFrom( ""{,}"" ), zchar[
    65535 ] tag // " ++ [128512]%N ++ runes_of_ascii " emoji
`say ""hi""`,} ,
charz u8x,}
")).
Eval vm_compute in ("<<<M1714>>>" ++ check (runes_of_ascii "options // @lengthOf(
{ float=
    char[ 42
]; }options {}
    options { uint8x
=
false
; }packet BodyLength {@tag(
    00
)@tag( 10
)
    uint64 calculatedFrom `// not a comment`,
int8 // @lengthOf(
x_y_z , } packet falsey {
}")).
Eval vm_compute in ("<<<T1714>>>" ++ terms [mkTok 1 "options" 1 0 false; mkTok 44 "// @lengthOf(" 1 8 true; mkTok 2 "{" 2 0 false; mkTok 42 "float" 2 2 false; mkTok 4 "=" 2 7 false; mkTok 12 "char[" 3 4 false; mkTok 30 "42" 3 10 false; mkTok 13 "]" 4 0 false; mkTok 41 ";" 4 1 false; mkTok 3 "}" 4 3 false; mkTok 1 "options" 4 4 false; mkTok 2 "{" 4 12 false; mkTok 3 "}" 4 13 false; mkTok 1 "options" 5 4 false; mkTok 2 "{" 5 12 false; mkTok 42 "uint8x" 5 14 false; mkTok 4 "=" 6 0 false; mkTok 11 "false" 7 0 false; mkTok 41 ";" 8 0 false; mkTok 3 "}" 8 2 false; mkTok 35 "packet" 8 3 false; mkTok 42 "BodyLength" 8 10 false; mkTok 2 "{" 8 21 false; mkTok 9 "@tag(" 8 22 false; mkTok 30 "00" 9 4 false; mkTok 6 ")" 10 0 false; mkTok 9 "@tag(" 10 1 false; mkTok 30 "10" 10 7 false; mkTok 6 ")" 11 0 false; mkTok 23 "uint64" 12 4 false; mkTok 42 "calculatedFrom" 12 11 false; mkTok 43 "`// not a comment`" 12 26 false; mkTok 40 "," 12 44 false; mkTok 24 "int8" 13 0 false; mkTok 44 "// @lengthOf(" 13 5 true; mkTok 42 "x_y_z" 14 0 false; mkTok 40 "," 14 6 false; mkTok 3 "}" 14 8 false; mkTok 35 "packet" 14 10 false; mkTok 42 "falsey" 14 17 false; mkTok 2 "{" 14 24 false; mkTok 3 "}" 15 0 false; mkTok 0 "<EOF>" 15 1 false] (mkPacket (mkPtok 1 "options" 1 0 0) (Some (mkPtok 3 "}" 15 0 41)) [(DOption (mkOptionDef (mkSpan (mkPtok 1 "options" 1 0 0) (mkPtok 3 "}" 4 3 9)) (mkPtok 1 "options" 1 0 0) (mkPtok 2 "{" 2 0 2) [(mkOptionDecl (mkSpan (mkPtok 42 "float" 2 2 3) (mkPtok 41 ";" 4 1 8)) (mkPtok 42 "float" 2 2 3) (mkPtok 4 "=" 2 7 4) (VType (mkSpan (mkPtok 12 "char[" 3 4 5) (mkPtok 13 "]" 4 0 7)) (TyFixed (mkSpan (mkPtok 12 "char[" 3 4 5) (mkPtok 13 "]" 4 0 7)) (mkFixedString (mkSpan (mkPtok 12 "char[" 3 4 5) (mkPtok 13 "]" 4 0 7)) (mkPtok 12 "char[" 3 4 5) (mkPtok 30 "42" 3 10 6) (mkPtok 13 "]" 4 0 7)))) (Some (mkPtok 41 ";" 4 1 8)))] (mkPtok 3 "}" 4 3 9))); (DOption (mkOptionDef (mkSpan (mkPtok 1 "options" 4 4 10) (mkPtok 3 "}" 4 13 12)) (mkPtok 1 "options" 4 4 10) (mkPtok 2 "{" 4 12 11) [] (mkPtok 3 "}" 4 13 12))); (DOption (mkOptionDef (mkSpan (mkPtok 1 "options" 5 4 13) (mkPtok 3 "}" 8 2 19)) (mkPtok 1 "options" 5 4 13) (mkPtok 2 "{" 5 12 14) [(mkOptionDecl (mkSpan (mkPtok 42 "uint8x" 5 14 15) (mkPtok 41 ";" 8 0 18)) (mkPtok 42 "uint8x" 5 14 15) (mkPtok 4 "=" 6 0 16) (VFalse (mkSpan (mkPtok 11 "false" 7 0 17) (mkPtok 11 "false" 7 0 17)) (mkPtok 11 "false" 7 0 17)) (Some (mkPtok 41 ";" 8 0 18)))] (mkPtok 3 "}" 8 2 19))); (DPacket (mkPacketDef (mkSpan (mkPtok 35 "packet" 8 3 20) (mkPtok 3 "}" 14 8 37)) None (mkPtok 35 "packet" 8 3 20) (mkPtok 42 "BodyLength" 8 10 21) (mkPtok 2 "{" 8 21 22) [(mkFieldWithAttr (mkSpan (mkPtok 9 "@tag(" 8 22 23) (mkPtok 40 "," 12 44 32)) [(FATag (mkSpan (mkPtok 9 "@tag(" 8 22 23) (mkPtok 6 ")" 10 0 25)) (mkTagAttr (mkSpan (mkPtok 9 "@tag(" 8 22 23) (mkPtok 6 ")" 10 0 25)) (mkPtok 9 "@tag(" 8 22 23) (mkPtok 30 "00" 9 4 24) (mkPtok 6 ")" 10 0 25))); (FATag (mkSpan (mkPtok 9 "@tag(" 10 1 26) (mkPtok 6 ")" 11 0 28)) (mkTagAttr (mkSpan (mkPtok 9 "@tag(" 10 1 26) (mkPtok 6 ")" 11 0 28)) (mkPtok 9 "@tag(" 10 1 26) (mkPtok 30 "10" 10 7 27) (mkPtok 6 ")" 11 0 28)))] (MetaField (mkSpan (mkPtok 23 "uint64" 12 4 29) (mkPtok 40 "," 12 44 32)) None (mkMetaDecl (mkSpan (mkPtok 23 "uint64" 12 4 29) (mkPtok 40 "," 12 44 32)) (TyBasic (mkSpan (mkPtok 23 "uint64" 12 4 29) (mkPtok 23 "uint64" 12 4 29)) (mkBasicType (mkSpan (mkPtok 23 "uint64" 12 4 29) (mkPtok 23 "uint64" 12 4 29)) (mkPtok 23 "uint64" 12 4 29))) (mkPtok 42 "calculatedFrom" 12 11 30) (Some (mkPtok 43 "`// not a comment`" 12 26 31)) (mkPtok 40 "," 12 44 32)))); (mkFieldWithAttr (mkSpan (mkPtok 24 "int8" 13 0 33) (mkPtok 40 "," 14 6 36)) [] (MetaField (mkSpan (mkPtok 24 "int8" 13 0 33) (mkPtok 40 "," 14 6 36)) None (mkMetaDecl (mkSpan (mkPtok 24 "int8" 13 0 33) (mkPtok 40 "," 14 6 36)) (TyBasic (mkSpan (mkPtok 24 "int8" 13 0 33) (mkPtok 24 "int8" 13 0 33)) (mkBasicType (mkSpan (mkPtok 24 "int8" 13 0 33) (mkPtok 24 "int8" 13 0 33)) (mkPtok 24 "int8" 13 0 33))) (mkPtok 42 "x_y_z" 14 0 35) None (mkPtok 40 "," 14 6 36))))] (mkPtok 3 "}" 14 8 37))); (DPacket (mkPacketDef (mkSpan (mkPtok 35 "packet" 14 10 38) (mkPtok 3 "}" 15 0 41)) None (mkPtok 35 "packet" 14 10 38) (mkPtok 42 "falsey" 14 17 39) (mkPtok 2 "{" 14 24 40) [] (mkPtok 3 "}" 15 0 41)))])).
Eval vm_compute in ("<<<M1746>>>" ++ check (runes_of_ascii "MetaData _x {
As body `u8 x,` ,i64_ body `
` ,  char[] body `tab	here`
,
    char[]	Packet `" ++ [233]%N ++ runes_of_ascii "` /// triple
,BodyLength rootA `tab	here`
,
    }	root packet
    Packet {  BodyLength i8i8 /// triple
,uint64 // @lengthOf(
matchKey
`" ++ [28040; 24687; 31867; 22411]%N ++ runes_of_ascii "` , @leftPad (
'\x00'
)
float64 zchar , }
")).
Eval vm_compute in ("<<<M1778>>>" ++ check (runes_of_ascii "packet Foo
    {
    @lengthOf(
T
)calculatedFrom `two words`	, } 	 ")).
Eval vm_compute in ("<<<M1810>>>" ++ check (runes_of_ascii "
")).
Eval vm_compute in ("<<<M1842>>>" ++ check (runes_of_ascii "
// packet A { u8 x, }
")).
Eval vm_compute in ("<<<M1874>>>" ++ check (runes_of_ascii "root  packet /// triple
Header {//	t
@tag( 0
)char[1// @lengthOf(
]calculatedFrom @calculatedFrom( // c
""{,}""
// @lengthOf(
// `tick` ""quote"" 'q'
)
    `doc` , @calculatedFrom(
""it's"") @calculatedFrom(
""abc"" )@leftPad ('0'	)int8  asx	@lengthOf( Z9_) `say ""hi""` , //
repeat	x_y_z `" ++ [233]%N ++ runes_of_ascii "`
    , int64
// c
//	t
x@calculatedFrom( ""\n"" ) , tag
    @calculatedFrom(
    """ ++ [233]%N ++ runes_of_ascii "t" ++ [233]%N ++ runes_of_ascii """ ) `line1
line2` ,pack calculatedFrom `doc`
, zchar {i16 Pad // " ++ [27880; 37322]%N ++ runes_of_ascii "
@lengthOf(zchar
//x
// trailing space 
) `" ++ [233]%N ++ runes_of_ascii "`
    ,	}
    , char[] /// triple
metadata @lengthOf(
    // 50% %s
    i8i8 )
    ,	}
//
//	t
root
packet i64_ {// packet A { u8 x, }
calculatedFrom tag ,// trailing space 
repeat u128 // @lengthOf(
{ u Packet , match
i64_ as falsey {	[
    ""a	b""]  : Logon	[3 , // `tick` ""quote"" 'q'
0123456789 , ""a\\"" ,
65535 , 3 ] : msg_type 255 : f32a,""abc"":
MetaDataX , 1	: x_y_z	""" ++ [233]%N ++ runes_of_ascii "t" ++ [233]%N ++ runes_of_ascii """
:tag ,}, repeat
chars packetx `u8 x,`
, repeat lengthOf a1 ,}
,	repeat i64 u128 , }
")).
Eval vm_compute in ("<<<M1906>>>" ++ check (runes_of_ascii "packet
pack{char[]	leftPad , } packet i8i8
{ Foo ,	}
// `tick` ""quote"" 'q'
// @lengthOf(
packet options1{
}
packet rootA
{	repeat char[
    007 //
]  Header ,  char o , int {
char[1]	falsey @calculatedFrom( // " ++ [27880; 37322]%N ++ runes_of_ascii "
""a\\"" ) ,string
    _x ,o @calculatedFrom( """ ++ [28040; 24687]%N ++ runes_of_ascii """	) ,  }
    , uint32 calculatedFrom  `two words`
, @calculatedFrom( ""a\\"" )repeat // " ++ [27880; 37322]%N ++ runes_of_ascii "
rootA zchar ,	repeat
charz , } root packet msg_type // trailing space 
{ }")).
Eval vm_compute in ("<<<M1938>>>" ++ check (runes_of_ascii "
options {// a // b
msg_type = u64	}packet
MetaDataX { @tag(4294967296 ) zchar[ 4294967296	] Logon , //x
match asx // @lengthOf(
as stringy // @lengthOf(
{ 3
    :chars , ""a	b"" // @lengthOf(
: string_ ,  ""a	b"":x , [ 4294967296 ,
""\n"" ]: u ,
},	@lengthOf(o	) Z9_ { zchar[ 3] i64_  , repeat A
, match A
    as //	t
stringy{ //
[	10 ] : BodyLength
// `tick` ""quote"" 'q'
// " ++ [27880; 37322]%N ++ runes_of_ascii "
,42 : calculatedFrom , ""1"": msg_type 1:
    charz , ""\n"":	asx ""abc""	: // a // b
Logon }
    ,
    }
,} options
//	t
//x
{ rootA =f32
    ;
// trailing space 
//	t
msg_type =
""it's"" }

")).
Eval vm_compute in ("<<<T1938>>>" ++ terms [mkTok 1 "options" 2 0 false; mkTok 2 "{" 2 8 false; mkTok 44 "// a // b" 2 9 true; mkTok 42 "msg_type" 3 0 false; mkTok 4 "=" 3 9 false; mkTok 23 "u64" 3 11 false; mkTok 3 "}" 3 15 false; mkTok 35 "packet" 3 16 false; mkTok 42 "MetaDataX" 4 0 false; mkTok 2 "{" 4 10 false; mkTok 9 "@tag(" 4 12 false; mkTok 30 "4294967296" 4 17 false; mkTok 6 ")" 4 28 false; mkTok 14 "zchar[" 4 30 false; mkTok 30 "4294967296" 4 37 false; mkTok 13 "]" 4 48 false; mkTok 42 "Logon" 4 50 false; mkTok 40 "," 4 56 false; mkTok 44 "//x" 4 58 true; mkTok 38 "match" 5 0 false; mkTok 42 "asx" 5 6 false; mkTok 44 "// @lengthOf(" 5 10 true; mkTok 17 "as" 6 0 false; mkTok 42 "stringy" 6 3 false; mkTok 44 "// @lengthOf(" 6 11 true; mkTok 2 "{" 7 0 false; mkTok 30 "3" 7 2 false; mkTok 39 ":" 8 4 false; mkTok 42 "chars" 8 5 false; mkTok 40 "," 8 11 false; mkTok 31 (string_of_bytes [34; 97; 9; 98; 34]%N) 8 13 false; mkTok 44 "// @lengthOf(" 8 19 true; mkTok 39 ":" 9 0 false; mkTok 42 "string_" 9 2 false; mkTok 40 "," 9 10 false; mkTok 31 (string_of_bytes [34; 97; 9; 98; 34]%N) 9 13 false; mkTok 39 ":" 9 18 false; mkTok 42 "x" 9 19 false; mkTok 40 "," 9 21 false; mkTok 18 "[" 9 23 false; mkTok 30 "4294967296" 9 25 false; mkTok 40 "," 9 36 false; mkTok 31 """\n""" 10 0 false; mkTok 13 "]" 10 5 false; mkTok 39 ":" 10 6 false; mkTok 42 "u" 10 8 false; mkTok 40 "," 10 10 false; mkTok 3 "}" 11 0 false; mkTok 40 "," 11 1 false; mkTok 7 "@lengthOf(" 11 3 false; mkTok 42 "o" 11 13 false; mkTok 6 ")" 11 15 false; mkTok 42 "Z9_" 11 17 false; mkTok 2 "{" 11 21 false; mkTok 14 "zchar[" 11 23 false; mkTok 30 "3" 11 30 false; mkTok 13 "]" 11 31 false; mkTok 42 "i64_" 11 33 false; mkTok 40 "," 11 39 false; mkTok 36 "repeat" 11 41 false; mkTok 42 "A" 11 48 false; mkTok 40 "," 12 0 false; mkTok 38 "match" 12 2 false; mkTok 42 "A" 12 8 false; mkTok 17 "as" 13 4 false; mkTok 44 (string_of_bytes [47; 47; 9; 116]%N) 13 7 true; mkTok 42 "stringy" 14 0 false; mkTok 2 "{" 14 7 false; mkTok 44 "//" 14 9 true; mkTok 18 "[" 15 0 false; mkTok 30 "10" 15 2 false; mkTok 13 "]" 15 5 false; mkTok 39 ":" 15 7 false; mkTok 42 "BodyLength" 15 9 false; mkTok 44 "// `tick` ""quote"" 'q'" 16 0 true; mkTok 44 (string_of_bytes [47; 47; 32; 230; 179; 168; 233; 135; 138]%N) 17 0 true; mkTok 40 "," 18 0 false; mkTok 30 "42" 18 1 false; mkTok 39 ":" 18 4 false; mkTok 42 "calculatedFrom" 18 6 false; mkTok 40 "," 18 21 false; mkTok 31 """1""" 18 23 false; mkTok 39 ":" 18 26 false; mkTok 42 "msg_type" 18 28 false; mkTok 30 "1" 18 37 false; mkTok 39 ":" 18 38 false; mkTok 42 "charz" 19 4 false; mkTok 40 "," 19 10 false; mkTok 31 """\n""" 19 12 false; mkTok 39 ":" 19 16 false; mkTok 42 "asx" 19 18 false; mkTok 31 """abc""" 19 22 false; mkTok 39 ":" 19 28 false; mkTok 44 "// a // b" 19 30 true; mkTok 42 "Logon" 20 0 false; mkTok 3 "}" 20 6 false; mkTok 40 "," 21 4 false; mkTok 3 "}" 22 4 false; mkTok 40 "," 23 0 false; mkTok 3 "}" 23 1 false; mkTok 1 "options" 23 3 false; mkTok 44 (string_of_bytes [47; 47; 9; 116]%N) 24 0 true; mkTok 44 "//x" 25 0 true; mkTok 2 "{" 26 0 false; mkTok 42 "rootA" 26 2 false; mkTok 4 "=" 26 8 false; mkTok 28 "f32" 26 9 false; mkTok 41 ";" 27 4 false; mkTok 44 "// trailing space " 28 0 true; mkTok 44 (string_of_bytes [47; 47; 9; 116]%N) 29 0 true; mkTok 42 "msg_type" 30 0 false; mkTok 4 "=" 30 9 false; mkTok 31 """it's""" 31 0 false; mkTok 3 "}" 31 7 false; mkTok 0 "<EOF>" 33 0 false] (mkPacket (mkPtok 1 "options" 2 0 0) (Some (mkPtok 3 "}" 31 7 113)) [(DOption (mkOptionDef (mkSpan (mkPtok 1 "options" 2 0 0) (mkPtok 3 "}" 3 15 6)) (mkPtok 1 "options" 2 0 0) (mkPtok 2 "{" 2 8 1) [(mkOptionDecl (mkSpan (mkPtok 42 "msg_type" 3 0 3) (mkPtok 23 "u64" 3 11 5)) (mkPtok 42 "msg_type" 3 0 3) (mkPtok 4 "=" 3 9 4) (VType (mkSpan (mkPtok 23 "u64" 3 11 5) (mkPtok 23 "u64" 3 11 5)) (TyBasic (mkSpan (mkPtok 23 "u64" 3 11 5) (mkPtok 23 "u64" 3 11 5)) (mkBasicType (mkSpan (mkPtok 23 "u64" 3 11 5) (mkPtok 23 "u64" 3 11 5)) (mkPtok 23 "u64" 3 11 5)))) None)] (mkPtok 3 "}" 3 15 6))); (DPacket (mkPacketDef (mkSpan (mkPtok 35 "packet" 3 16 7) (mkPtok 3 "}" 23 1 99)) None (mkPtok 35 "packet" 3 16 7) (mkPtok 42 "MetaDataX" 4 0 8) (mkPtok 2 "{" 4 10 9) [(mkFieldWithAttr (mkSpan (mkPtok 9 "@tag(" 4 12 10) (mkPtok 40 "," 4 56 17)) [(FATag (mkSpan (mkPtok 9 "@tag(" 4 12 10) (mkPtok 6 ")" 4 28 12)) (mkTagAttr (mkSpan (mkPtok 9 "@tag(" 4 12 10) (mkPtok 6 ")" 4 28 12)) (mkPtok 9 "@tag(" 4 12 10) (mkPtok 30 "4294967296" 4 17 11) (mkPtok 6 ")" 4 28 12)))] (MetaField (mkSpan (mkPtok 14 "zchar[" 4 30 13) (mkPtok 40 "," 4 56 17)) None (mkMetaDecl (mkSpan (mkPtok 14 "zchar[" 4 30 13) (mkPtok 40 "," 4 56 17)) (TyFixed (mkSpan (mkPtok 14 "zchar[" 4 30 13) (mkPtok 13 "]" 4 48 15)) (mkFixedString (mkSpan (mkPtok 14 "zchar[" 4 30 13) (mkPtok 13 "]" 4 48 15)) (mkPtok 14 "zchar[" 4 30 13) (mkPtok 30 "4294967296" 4 37 14) (mkPtok 13 "]" 4 48 15))) (mkPtok 42 "Logon" 4 50 16) None (mkPtok 40 "," 4 56 17)))); (mkFieldWithAttr (mkSpan (mkPtok 38 "match" 5 0 19) (mkPtok 40 "," 11 1 48)) [] (MatchField (mkSpan (mkPtok 38 "match" 5 0 19) (mkPtok 40 "," 11 1 48)) (mkMatchFieldDecl (mkSpan (mkPtok 38 "match" 5 0 19) (mkPtok 3 "}" 11 0 47)) (mkPtok 38 "match" 5 0 19) (mkPtok 42 "asx" 5 6 20) (mkPtok 17 "as" 6 0 22) (mkPtok 42 "stringy" 6 3 23) (mkPtok 2 "{" 7 0 25) [(mkMatchPair (mkSpan (mkPtok 30 "3" 7 2 26) (mkPtok 40 "," 8 11 29)) (MKDigits (mkPtok 30 "3" 7 2 26)) (mkPtok 39 ":" 8 4 27) (mkPtok 42 "chars" 8 5 28) (Some (mkPtok 40 "," 8 11 29))); (mkMatchPair (mkSpan (mkPtok 31 (string_of_bytes [34; 97; 9; 98; 34]%N) 8 13 30) (mkPtok 40 "," 9 10 34)) (MKString (mkPtok 31 (string_of_bytes [34; 97; 9; 98; 34]%N) 8 13 30)) (mkPtok 39 ":" 9 0 32) (mkPtok 42 "string_" 9 2 33) (Some (mkPtok 40 "," 9 10 34))); (mkMatchPair (mkSpan (mkPtok 31 (string_of_bytes [34; 97; 9; 98; 34]%N) 9 13 35) (mkPtok 40 "," 9 21 38)) (MKString (mkPtok 31 (string_of_bytes [34; 97; 9; 98; 34]%N) 9 13 35)) (mkPtok 39 ":" 9 18 36) (mkPtok 42 "x" 9 19 37) (Some (mkPtok 40 "," 9 21 38))); (mkMatchPair (mkSpan (mkPtok 18 "[" 9 23 39) (mkPtok 40 "," 10 10 46)) (MKList (mkKeyList (mkSpan (mkPtok 18 "[" 9 23 39) (mkPtok 13 "]" 10 5 43)) (mkPtok 18 "[" 9 23 39) (mkPtok 30 "4294967296" 9 25 40) [((mkPtok 40 "," 9 36 41), (mkPtok 31 """\n""" 10 0 42))] (mkPtok 13 "]" 10 5 43))) (mkPtok 39 ":" 10 6 44) (mkPtok 42 "u" 10 8 45) (Some (mkPtok 40 "," 10 10 46)))] (mkPtok 3 "}" 11 0 47)) (mkPtok 40 "," 11 1 48))); (mkFieldWithAttr (mkSpan (mkPtok 7 "@lengthOf(" 11 3 49) (mkPtok 40 "," 23 0 98)) [(FALengthOf (mkSpan (mkPtok 7 "@lengthOf(" 11 3 49) (mkPtok 6 ")" 11 15 51)) (mkLengthOf (mkSpan (mkPtok 7 "@lengthOf(" 11 3 49) (mkPtok 6 ")" 11 15 51)) (mkPtok 7 "@lengthOf(" 11 3 49) (mkPtok 42 "o" 11 13 50) (mkPtok 6 ")" 11 15 51)))] (InerObjectField (mkSpan (mkPtok 42 "Z9_" 11 17 52) (mkPtok 40 "," 23 0 98)) None (InerObjectDecl (mkSpan (mkPtok 42 "Z9_" 11 17 52) (mkPtok 3 "}" 22 4 97)) (mkPtok 42 "Z9_" 11 17 52) (mkPtok 2 "{" 11 21 53) [(MetaField (mkSpan (mkPtok 14 "zchar[" 11 23 54) (mkPtok 40 "," 11 39 58)) None (mkMetaDecl (mkSpan (mkPtok 14 "zchar[" 11 23 54) (mkPtok 40 "," 11 39 58)) (TyFixed (mkSpan (mkPtok 14 "zchar[" 11 23 54) (mkPtok 13 "]" 11 31 56)) (mkFixedString (mkSpan (mkPtok 14 "zchar[" 11 23 54) (mkPtok 13 "]" 11 31 56)) (mkPtok 14 "zchar[" 11 23 54) (mkPtok 30 "3" 11 30 55) (mkPtok 13 "]" 11 31 56))) (mkPtok 42 "i64_" 11 33 57) None (mkPtok 40 "," 11 39 58))); (ObjectField (mkSpan (mkPtok 36 "repeat" 11 41 59) (mkPtok 40 "," 12 0 61)) (Some (mkPtok 36 "repeat" 11 41 59)) (mkPtok 42 "A" 11 48 60) None None (mkPtok 40 "," 12 0 61)); (MatchField (mkSpan (mkPtok 38 "match" 12 2 62) (mkPtok 40 "," 21 4 96)) (mkMatchFieldDecl (mkSpan (mkPtok 38 "match" 12 2 62) (mkPtok 3 "}" 20 6 95)) (mkPtok 38 "match" 12 2 62) (mkPtok 42 "A" 12 8 63) (mkPtok 17 "as" 13 4 64) (mkPtok 42 "stringy" 14 0 66) (mkPtok 2 "{" 14 7 67) [(mkMatchPair (mkSpan (mkPtok 18 "[" 15 0 69) (mkPtok 40 "," 18 0 76)) (MKList (mkKeyList (mkSpan (mkPtok 18 "[" 15 0 69) (mkPtok 13 "]" 15 5 71)) (mkPtok 18 "[" 15 0 69) (mkPtok 30 "10" 15 2 70) [] (mkPtok 13 "]" 15 5 71))) (mkPtok 39 ":" 15 7 72) (mkPtok 42 "BodyLength" 15 9 73) (Some (mkPtok 40 "," 18 0 76))); (mkMatchPair (mkSpan (mkPtok 30 "42" 18 1 77) (mkPtok 40 "," 18 21 80)) (MKDigits (mkPtok 30 "42" 18 1 77)) (mkPtok 39 ":" 18 4 78) (mkPtok 42 "calculatedFrom" 18 6 79) (Some (mkPtok 40 "," 18 21 80))); (mkMatchPair (mkSpan (mkPtok 31 """1""" 18 23 81) (mkPtok 42 "msg_type" 18 28 83)) (MKString (mkPtok 31 """1""" 18 23 81)) (mkPtok 39 ":" 18 26 82) (mkPtok 42 "msg_type" 18 28 83) None); (mkMatchPair (mkSpan (mkPtok 30 "1" 18 37 84) (mkPtok 40 "," 19 10 87)) (MKDigits (mkPtok 30 "1" 18 37 84)) (mkPtok 39 ":" 18 38 85) (mkPtok 42 "charz" 19 4 86) (Some (mkPtok 40 "," 19 10 87))); (mkMatchPair (mkSpan (mkPtok 31 """\n""" 19 12 88) (mkPtok 42 "asx" 19 18 90)) (MKString (mkPtok 31 """\n""" 19 12 88)) (mkPtok 39 ":" 19 16 89) (mkPtok 42 "asx" 19 18 90) None); (mkMatchPair (mkSpan (mkPtok 31 """abc""" 19 22 91) (mkPtok 42 "Logon" 20 0 94)) (MKString (mkPtok 31 """abc""" 19 22 91)) (mkPtok 39 ":" 19 28 92) (mkPtok 42 "Logon" 20 0 94) None)] (mkPtok 3 "}" 20 6 95)) (mkPtok 40 "," 21 4 96))] (mkPtok 3 "}" 22 4 97)) (mkPtok 40 "," 23 0 98)))] (mkPtok 3 "}" 23 1 99))); (DOption (mkOptionDef (mkSpan (mkPtok 1 "options" 23 3 100) (mkPtok 3 "}" 31 7 113)) (mkPtok 1 "options" 23 3 100) (mkPtok 2 "{" 26 0 103) [(mkOptionDecl (mkSpan (mkPtok 42 "rootA" 26 2 104) (mkPtok 41 ";" 27 4 107)) (mkPtok 42 "rootA" 26 2 104) (mkPtok 4 "=" 26 8 105) (VType (mkSpan (mkPtok 28 "f32" 26 9 106) (mkPtok 28 "f32" 26 9 106)) (TyBasic (mkSpan (mkPtok 28 "f32" 26 9 106) (mkPtok 28 "f32" 26 9 106)) (mkBasicType (mkSpan (mkPtok 28 "f32" 26 9 106) (mkPtok 28 "f32" 26 9 106)) (mkPtok 28 "f32" 26 9 106)))) (Some (mkPtok 41 ";" 27 4 107))); (mkOptionDecl (mkSpan (mkPtok 42 "msg_type" 30 0 110) (mkPtok 31 """it's""" 31 0 112)) (mkPtok 42 "msg_type" 30 0 110) (mkPtok 4 "=" 30 9 111) (VString (mkSpan (mkPtok 31 """it's""" 31 0 112) (mkPtok 31 """it's""" 31 0 112)) (mkPtok 31 """it's""" 31 0 112)) None)] (mkPtok 3 "}" 31 7 113)))])).
Eval vm_compute in ("<<<M1970>>>" ++ check (runes_of_ascii "
MetaData Z9_ {
    calculatedFrom calculatedFrom // @lengthOf(
`u8 x,` // c
, float32 i64_ `a\` , stringy
    // trailing space 
    Z9_,
}")).
Eval vm_compute in ("<<<M2002>>>" ++ check (runes_of_ascii "options {
	StringPrefixLenType = u16;
	ArrayPrefixLenType = u16;
}

packet SampleBinary {
	uint16 MsgType `" ++ [28040; 24687; 31867; 22411]%N ++ runes_of_ascii "`,
	u16 BodyLenght @lengthOf(Body) `" ++ [28040; 24687; 20307; 38271; 24230]%N ++ runes_of_ascii "`,
	match MsgType as Body {
		1 : Logon,
		2 : Logout,
		3 : Heartbeat,
		4 : RiskControlRequest,
		5 : RiskControlResponse,
	},
		@calculatedFrom(""CRC32"")
	u32 Ckecksum `" ++ [26657; 39564; 21644]%N ++ runes_of_ascii "`,
}

packet Logon {
	 @leftPad('0')
	char[10] UserName `" ++ [29992; 25143; 21517]%N ++ runes_of_ascii "`,
	string Password `" ++ [23494; 30721]%N ++ runes_of_ascii "`,
	uint64 ClientId `" ++ [23458; 25143; 31471]%N ++ runes_of_ascii "ID`,
	u16 HeartbeatInterval `" ++ [24515; 36339; 38388; 38548]%N ++ runes_of_ascii "`,
}

packet Logout {
	  @rightPad('0')
	char[10] UserName `" ++ [29992; 25143; 21517]%N ++ runes_of_ascii "`,
	uint64 ClientId `" ++ [23458; 25143; 31471]%N ++ runes_of_ascii "ID`,
}

packet Heartbeat {
}

packet RiskControlRequest {
	string UniqueOrderId `" ++ [21807; 19968; 35746; 21333; 21495]%N ++ runes_of_ascii "`,
	char[16] ClOrdID `" ++ [23458; 25143; 35746; 21333; 21495]%N ++ runes_of_ascii "`,
	char[3] MarketID `" ++ [24066; 22330]%N ++ runes_of_ascii "id`,
	char[12] SecurityID `" ++ [35777; 21048; 20195; 30721]%N ++ runes_of_ascii "`,
	char Side `" ++ [20080; 21334; 26041; 21521]%N ++ runes_of_ascii "`,
	char OrderType `" ++ [35746; 21333; 31867; 22411]%N ++ runes_of_ascii "`,
	u64 Price `" ++ [20215; 26684]%N ++ runes_of_ascii "`,
	u32 Qty `" ++ [25968; 37327]%N ++ runes_of_ascii "`,
	repeat string ExtraInfo `" ++ [38468; 21152; 20449; 24687]%N ++ runes_of_ascii "`,
	repeat SubOrder {
			char[16] ClOrdID `" ++ [23376; 35746; 21333; 21495]%N ++ runes_of_ascii "`,
			u64 Price `" ++ [23376; 35746; 21333; 20215; 26684]%N ++ runes_of_ascii "`,
			u32 Qty `" ++ [23376; 35746; 21333; 25968; 37327]%N ++ runes_of_ascii "`,
		},
}

packet RiskControlResponse {
	string UniqueOrderId `" ++ [21807; 19968; 35746; 21333; 21495]%N ++ runes_of_ascii "`,
	i32 Status `" ++ [29366; 24577]%N ++ runes_of_ascii "`,
	string Msg `" ++ [32467; 26524; 20449; 24687]%N ++ runes_of_ascii "`,
	repeat Detail,
}

packet Detail {
	string RuleName `" ++ [35268; 21017; 21517; 31216]%N ++ runes_of_ascii "`,
	u16 Code `" ++ [21407; 22240; 20195; 30721]%N ++ runes_of_ascii "`,
}")).
Eval vm_compute in ("<<<M2034>>>" ++ check (runes_of_ascii "MetaData repeatCount { float64 packetx
} root packet  metadata {
char _x @lengthOf( trueish ), @leftPad
( ' '// " ++ [27880; 37322]%N ++ runes_of_ascii "
)/// triple
char[] len`doc` , // packet A { u8 x, }
repeatCount , }
")).
Eval vm_compute in ("<<<M2066>>>" ++ check (runes_of_ascii "MetaData repeatCount { float64 packetx,
} root packet  metadata {
_x char @lengthOf( trueish ), @leftPad
( ' '// " ++ [27880; 37322]%N ++ runes_of_ascii "
)/// triple
char[] len`doc` , // packet A { u8 x, }
repeatCount , }
")).
Eval vm_compute in ("<<<M2098>>>" ++ check (runes_of_ascii "MetaData repeatCount { float64 packetx,
} root packet  metadata {
char _x @lengthOf( trueish ),")).
Eval vm_compute in ("<<<M2130>>>" ++ check (runes_of_ascii "MetaData repeatCount { float64 packetx,
} root packet  metadata {
char _x @lengthOf( trueish ), @leftPad
( ' '// " ++ [27880; 37322]%N ++ runes_of_ascii "
)/// triple
char[] len`doc` , , // packet A { u8 x, }
repeatCount , }
")).
Eval vm_compute in ("<<<M2162>>>" ++ check (runes_of_ascii "MetaData repeatCount { float64 packetx,
} root packet  metadata {
char _x @lengthOf( trueish ), @left'\x01'Pad
( ' '// " ++ [27880; 37322]%N ++ runes_of_ascii "
)/// triple
char[] len`doc` , // packet A { u8 x, }
repeatCount , }
")).
Eval vm_compute in ("<<<M2194>>>" ++ check (runes_of_ascii "options{
leftPad
    =")).
Eval vm_compute in ("<<<M2226>>>" ++ check (runes_of_ascii "options{
leftPad
    =65535
;
a1 = true ; packetx= =  '\x00' ; packetx
=  """ ++ [28040; 24687]%N ++ runes_of_ascii """MetaDataX= // " ++ [27880; 37322]%N ++ runes_of_ascii "
false }root // c
packet // packet A { u8 x, }
Pad { repeat
u8 Header
// packet A { u8 x, }
//	t
`{ , }`
// a // b
//x
, }
")).
Eval vm_compute in ("<<<M2258>>>" ++ check (runes_of_ascii "options{
leftPad
    =65535
;
a1 = true ; packetx=  '\x00' ; packetx
=  """ ++ [28040; 24687]%N ++ runes_of_ascii """packet= // " ++ [27880; 37322]%N ++ runes_of_ascii "
false }root // c
packet // packet A { u8 x, }
Pad { repeat
u8 Header
// packet A { u8 x, }
//	t
`{ , }`
// a // b
//x
, }
")).
Eval vm_compute in ("<<<M2290>>>" ++ check (runes_of_ascii "options{
leftPad
    =65535
;
a1 = true ; packetx=  '\x00' ; packetx
=  """ ++ [28040; 24687]%N ++ runes_of_ascii """MetaDataX= // " ++ [27880; 37322]%N ++ runes_of_ascii "
false }root // c
packet // packet A { u8 x, }
Pad  repeat
u8 Header
// packet A { u8 x, }
//	t
`{ , }`
// a // b
//x
, }
")).
Eval vm_compute in ("<<<M2322>>>" ++ check (runes_of_ascii "options{
leftPad
    =65535
;
a1 = true ; packetx=  '\x00' ; packetx
=  """ ++ [28040; 24687]%N ++ runes_of_ascii """MetaDataX= // " ++ [27880; 37322]%N ++ runes_of_ascii "
false }root // c
packet // packet A { u8 x, }
Pad { repeat
u8 Header
// packet A { u8 x, }
//	t
`{ , }`
// a // b
//x
, [
")).
Eval vm_compute in ("<<<M2354>>>" ++ check (runes_of_ascii "
packet (
{	@calculatedFrom( """ ++ [233]%N ++ runes_of_ascii "t" ++ [233]%N ++ runes_of_ascii """ )
@rightPad ( '\x00' )
    @calculatedFrom( ""x y"" ) string chars  ,
    // a // b
    char[0 ]
    u	@lengthOf( i8i8 ) `{ , }` ,repeat char[] o //x
`// not a comment`, } // c")).
Eval vm_compute in ("<<<M2386>>>" ++ check (runes_of_ascii "
packet float
{	@calculatedFrom( """ ++ [233]%N ++ runes_of_ascii "t" ++ [233]%N ++ runes_of_ascii """ )
@rightPad (  )
    @calculatedFrom( ""x y"" ) string chars  ,
    // a // b
    char[0 ]
    u	@lengthOf( i8i8 ) `{ , }` ,repeat char[] o //x
`// not a comment`, } // c")).
Eval vm_compute in ("<<<M2418>>>" ++ check (runes_of_ascii "
packet float
{	@calculatedFrom( """ ++ [233]%N ++ runes_of_ascii "t" ++ [233]%N ++ runes_of_ascii """ )
@rightPad ( '\x00' )
    @calculatedFrom( ""x y"" ) string ,  chars
    // a // b
    char[0 ]
    u	@lengthOf( i8i8 ) `{ , }` ,repeat char[] o //x
`// not a comment`, } // c")).
Eval vm_compute in ("<<<M2450>>>" ++ check (runes_of_ascii "
packet float
{	@calculatedFrom( """ ++ [233]%N ++ runes_of_ascii "t" ++ [233]%N ++ runes_of_ascii """ )
@rightPad ( '\x00' )
    @calculatedFrom( ""x y"" ) string chars  ,
    // a // b
    char[0 ]
    u")).
Eval vm_compute in ("<<<M2482>>>" ++ check (runes_of_ascii "
packet float
{	@calculatedFrom( """ ++ [233]%N ++ runes_of_ascii "t" ++ [233]%N ++ runes_of_ascii """ )
@rightPad ( '\x00' )
    @calculatedFrom( ""x y"" ) string chars  ,
    // a // b
    char[0 ]
    u	@lengthOf( i8i8 ) `{ , }` ,repeat char[] o o //x
`// not a comment`, } // c")).
Eval vm_compute in ("<<<M2514>>>" ++ check (runes_of_ascii "
packet float
{	@calculatedFrom( """ ++ [233]%N ++ runes_of_ascii "|t" ++ [233]%N ++ runes_of_ascii """ )
@rightPad ( '\x00' )
    @calculatedFrom( ""x y"" ) string chars  ,
    // a // b
    char[0 ]
    u	@lengthOf( i8i8 ) `{ , }` ,repeat char[] o //x
`// not a comment`, } // c")).
Eval vm_compute in ("<<<M2546>>>" ++ check (runes_of_ascii "root packet u128{")).
Eval vm_compute in ("<<<M2578>>>" ++ check (runes_of_ascii "root packet u128{
    repeat
    zchar[ 65535 ] u `" ++ [28040; 24687; 31867; 22411]%N ++ runes_of_ascii "` ,// `tick` ""quote"" 'q'
} } packet i64_ {repeatCount
    `
` ,	} // " ++ [128512]%N ++ runes_of_ascii " emoji")).
Eval vm_compute in ("<<<M2610>>>" ++ check (runes_of_ascii "root packet u128{
    repeat
    zchar[ 65535 ] u `" ++ [28040; 24687; 31867; 22411]%N ++ runes_of_ascii "` ,// `tick` ""quote"" 'q'
} packet i64_ {repeatCount
    `
` float32	} // " ++ [128512]%N ++ runes_of_ascii " emoji")).
Eval vm_compute in ("<<<M2642>>>" ++ check (runes_of_ascii "
")).
Eval vm_compute in ("<<<M2674>>>" ++ check (@nil rune)).
Eval vm_compute in ("<<<T2674>>>" ++ terms [mkTok 0 "<EOF>" 1 0 false] (mkPacket (mkPtok 0 "<EOF>" 1 0 0) None [])).
Eval vm_compute in ("<<<M2706>>>" ++ check (runes_of_ascii "options {= Packet ""CRC32""i8i8 = false; leftPad =
    '\x00'
    // `tick` ""quote"" 'q'
    ; o=255  ;
    // packet A { u8 x, }
    }")).
Eval vm_compute in ("<<<M2738>>>" ++ check (runes_of_ascii "options {Packet = ""CRC32""i8i8 = false")).
Eval vm_compute in ("<<<M2770>>>" ++ check (runes_of_ascii "options {Packet = ""CRC32""i8i8 = false; leftPad =
    '\x00'
    // `tick` ""quote"" 'q'
    ; o=255 255  ;
    // packet A { u8 x, }
    }")).
Eval vm_compute in ("<<<M2802>>>" ++ check (runes_of_ascii "options {Packet = ""CRC32""i8i8 = false; leftPad =
    '\x00'
    // `tick` ""quote"" 'q'
    ; " ++ [21517; 23383]%N ++ runes_of_ascii "=255  ;
    // packet A { u8 x, }
    }")).
Eval vm_compute in ("<<<M2834>>>" ++ check (runes_of_ascii "
packet metadata { @rightPad (")).
Eval vm_compute in ("<<<M2866>>>" ++ check (runes_of_ascii "
packet metadata { @rightPad (
    // packet A { u8 x, }
    ' ' ) repeat u32	A
,matchKey , ,
    @lengthOf( string_ ) @lengthOf( body )
    // a // b
    @lengthOf(float  )	repeat
int32 u8x
    // c
    `tab	here`
, } // a // b")).
Eval vm_compute in ("<<<M2898>>>" ++ check (runes_of_ascii "
packet metadata { @rightPad (
    // packet A { u8 x, }
    ' ' ) repeat u32	A
,matchKey ,
    @lengthOf( string_ ) @lengthOf( body @rightPad
    // a // b
    @lengthOf(float  )	repeat
int32 u8x
    // c
    `tab	here`
, } // a // b")).
Eval vm_compute in ("<<<M2930>>>" ++ check (runes_of_ascii "
packet metadata { @rightPad (
    // packet A { u8 x, }
    ' ' ) repeat u32	A
,matchKey ,
    @lengthOf( string_ ) @lengthOf( body )
    // a // b
    @lengthOf(float  )	repeat
int32 u8x
    // c
    
, } // a // b")).
Eval vm_compute in ("<<<M2962>>>" ++ check (runes_of_ascii "
packet metadata { @rightPad (
    // packet A { u8 x, }
    ' ' ) repeat u32	A
,matchKey ,
  @leftpad  @lengthOf( string_ ) @lengthOf( body )
    // a // b
    @lengthOf(float  )	repeat
int32 u8x
    // c
    `tab	here`
, } // a // b")).
Eval vm_compute in ("<<<M2994>>>" ++ check (runes_of_ascii "packet x{
string
zchar [ //	t
}
")).
Eval vm_compute in ("<<<M3026>>>" ++ check (runes_of_ascii "
")).
Eval vm_compute in ("<<<T3026>>>" ++ terms [mkTok 0 "<EOF>" 2 0 false] (mkPacket (mkPtok 0 "<EOF>" 2 0 0) None [])).
Eval vm_compute in ("<<<M3058>>>" ++ check (runes_of_ascii "
MetaData Logon
{ // c
}root packet
    Pad { {
    } options
{
u
    =
    ""CRC32""
    // " ++ [128512]%N ++ runes_of_ascii " emoji
    i64_ = u16;
T =65535 x = ' '
    ; u128
= true ; }")).
Eval vm_compute in ("<<<M3090>>>" ++ check (runes_of_ascii "
MetaData Logon
{ // c
}root packet
    Pad {
    } options
{
u
    =
    `// not a comment`
    // " ++ [128512]%N ++ runes_of_ascii " emoji
    i64_ = u16;
T =65535 x = ' '
    ; u128
= true ; }")).
Eval vm_compute in ("<<<M3122>>>" ++ check (runes_of_ascii "
MetaData Logon
{ // c
}root packet
    Pad {
    } options
{
u
    =
    ""CRC32""
    // " ++ [128512]%N ++ runes_of_ascii " emoji
    i64_ = u16;
T = x = ' '
    ; u128
= true ; }")).
Eval vm_compute in ("<<<M3154>>>" ++ check (runes_of_ascii "
MetaData Logon
{ // c
}root packet
    Pad {
    } options
{
u
    =
    ""CRC32""
    // " ++ [128512]%N ++ runes_of_ascii " emoji
    i64_ = u16;
T =65535 x = ' '
    ; u128
true = ; }")).
Eval vm_compute in ("<<<M3186>>>" ++ check (runes_of_ascii "
MetaData Logon
{ // c
}root packet
    Pad {
    } options
{
u
    =
    ""CRC32""
    // " ++ [128512]%N ++ runes_of_ascii " emoji
    i64_ @lengthOf = u16;
T =65535 x = ' '
    ; u128
= true ; }")).
Eval vm_compute in ("<<<M3218>>>" ++ check (runes_of_ascii "MetaData body{}
packet	 { x_y_z @calculatedFrom(  ""a\\"")// `tick` ""quote"" 'q'
, }
")).
Eval vm_compute in ("<<<M3250>>>" ++ check (runes_of_ascii "MetaData body{}
packet	Packet { x_y_z @calculatedFrom(  ""a\\"")// `tick` ""quote"" 'q'
} ,
")).
Eval vm_compute in ("<<<M3282>>>" ++ check (runes_of_ascii "1 f32a {} root packet len {repeat u // " ++ [128512]%N ++ runes_of_ascii " emoji
`{ , }` , }
")).
Eval vm_compute in ("<<<M3314>>>" ++ check (runes_of_ascii "packet f32a {} root packet len repeat u // " ++ [128512]%N ++ runes_of_ascii " emoji
`{ , }` , }
")).
Eval vm_compute in ("<<<M3346>>>" ++ check (runes_of_ascii "packet f32a {} root packet le")).
Eval vm_compute in ("<<<M3378>>>" ++ check (runes_of_ascii "options{ _x=""\" ++ [233]%N ++ runes_of_ascii """;
    Logon = 10	; Foo= 7")).
Eval vm_compute in ("<<<M3410>>>" ++ check (runes_of_ascii "options{ _x=""\" ++ [233]%N ++ runes_of_ascii """;
    = Logon 10	; Foo= 7;
i64_= char[]} options {
matchKey = ""// no comment"" // a // b
falsey = string
; trueish =
    4294967296
options1=
    ""it's"" string_	= true } options {
    /// triple
    }")).
Eval vm_compute in ("<<<M3442>>>" ++ check (runes_of_ascii "options{ _x=""\" ++ [233]%N ++ runes_of_ascii """;
    Logon = 10	; Foo= 7;
i64_= char[]} options {
matchKey = ""// no comment"" // a // b
falsey  string
; trueish =
    4294967296
options1=
    ""it's"" string_	= true } options {
    /// triple
    }")).
Eval vm_compute in ("<<<M3474>>>" ++ check (runes_of_ascii "options{ _x=""\" ++ [233]%N ++ runes_of_ascii """;
    Logon = 10	; Foo= 7:
i64_= char[]} options {
matchKey = ""// no comment"" // a // b
falsey = string
; trueish =
    4294967296
options1=
    ""it's"" string_	= true } options {
    /// triple
    }")).
Eval vm_compute in ("<<<M3506>>>" ++ check (runes_of_ascii "uint")).
Eval vm_compute in ("<<<M3538>>>" ++ check (runes_of_ascii "' '")).
Eval vm_compute in ("<<<M3570>>>" ++ check (runes_of_ascii "// a
b")).
Eval vm_compute in ("<<<M3602>>>" ++ check (runes_of_ascii "__")).
Eval vm_compute in ("<<<M3634>>>" ++ check (runes_of_ascii "packet A { u8 , }")).
Eval vm_compute in ("<<<M3666>>>" ++ check (runes_of_ascii "packet A { repeat B { C { u8 x, }, D d, }, }")).
Eval vm_compute in ("<<<M3698>>>" ++ check (runes_of_ascii "packet A { } packet")).
Eval vm_compute in ("<<<M3730>>>" ++ check (runes_of_ascii "options { = 1; }")).
Eval vm_compute in ("<<<M3762>>>" ++ check ([0]%N)).
Eval vm_compute in ("<<<M3794>>>" ++ check (runes_of_ascii "char[ char[] u8 u16 char[] packet ) ""`tick`"" char[ @rightPad f32 true")).
Eval vm_compute in ("<<<M3826>>>" ++ check (runes_of_ascii "int32 u32 @tag( ) (")).
Eval vm_compute in ("<<<M3858>>>" ++ check (runes_of_ascii "match packet )")).
Eval vm_compute in ("<<<M3890>>>" ++ check (runes_of_ascii "options @rightPad = ) MetaData ""\" ++ [233]%N ++ runes_of_ascii """ uint8 @calculatedFrom( `
` float32")).
Eval vm_compute in ("<<<M3922>>>" ++ check (runes_of_ascii "'\x00' char[ f64 : @rightPad } 65535 `u8 x,` root")).
Eval vm_compute in ("<<<M3954>>>" ++ check (runes_of_ascii "char[]")).
Eval vm_compute in ("<<<M3986>>>" ++ check (runes_of_ascii "zchar[ repeat packet char root float32 u8 uint32 root u32 float64")).
